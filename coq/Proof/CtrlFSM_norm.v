(* Proof/CtrlFSM_norm.v — facts about the transcribed state package used by the handler
   contract: the sort of Normalize is idempotent, Normalize is idempotent, Normalize and
   Validate commute with / ignore the fields the frame touches, and the structural
   equality tests decide equality. *)
From WK Require Import Base.Base.
From WK Require Import Gen.Consts_C18 Model.CtrlFSM.
From Coq Require Import ZifyBool ZifyN ZifyNat.
Open Scope N_scope.

(* ---- insertion sort --------------------------------------------------------------- *)

Section SortFacts.
  Context {A : Type} (ltb : A -> A -> bool).
  (* a strict weak order given as its "less" test *)
  Hypothesis ltb_asym : forall x y, ltb x y = true -> ltb y x = false.
  Hypothesis ltb_ntrans : forall x y z, ltb x y = false -> ltb y z = false -> ltb x z = false.

  (* every element is not greater than the ones after it *)
  Fixpoint sortedb (l : list A) : Prop :=
    match l with
    | [] => True
    | x :: r => Forall (fun y => ltb y x = false) r /\ sortedb r
    end.

  Lemma insert_In x l : forall y, In y (insert ltb x l) <-> y = x \/ In y l.
  Proof.
    induction l as [|z l IH]; intro y; cbn [insert].
    - cbn. intuition.
    - destruct (ltb z x); cbn [In]; [rewrite IH|]; intuition.
  Qed.

  Lemma isort_In l : forall y, In y (isort ltb l) <-> In y l.
  Proof.
    induction l as [|z l IH]; intro y; cbn [isort]; [reflexivity|].
    rewrite insert_In, IH. cbn. intuition.
  Qed.

  Lemma insert_sorted x l : sortedb l -> sortedb (insert ltb x l).
  Proof.
    induction l as [|z l IH]; intro Hs; cbn [insert].
    - cbn. auto.
    - destruct Hs as [Hz Hs]. destruct (ltb z x) eqn:E.
      + cbn [sortedb]. split; [|apply IH; exact Hs].
        apply Forall_forall. intros y Hy. apply (proj1 (insert_In _ _ _)) in Hy. destruct Hy as [->|Hy].
        * apply ltb_asym. exact E.
        * rewrite Forall_forall in Hz. apply Hz. exact Hy.
      + cbn [sortedb]. split; [|split; assumption].
        constructor; [exact E|].
        apply Forall_forall. intros y Hy. rewrite Forall_forall in Hz.
        apply (ltb_ntrans y z x); [apply Hz; exact Hy|exact E].
  Qed.

  Lemma isort_sorted l : sortedb (isort ltb l).
  Proof. induction l as [|z l IH]; cbn [isort]; [exact I|]. apply insert_sorted. exact IH. Qed.

  Lemma insert_sorted_id x l : sortedb (x :: l) -> insert ltb x l = x :: l.
  Proof.
    destruct l as [|z l]; intro Hs; [reflexivity|]. cbn [insert].
    destruct Hs as [Hx _]. inversion Hx as [|? ? Hzx _]; subst. rewrite Hzx. reflexivity.
  Qed.

  Lemma isort_sorted_id l : sortedb l -> isort ltb l = l.
  Proof.
    induction l as [|z l IH]; intro Hs; [reflexivity|]. cbn [isort].
    rewrite IH by (destruct Hs; assumption). apply insert_sorted_id. exact Hs.
  Qed.

  Lemma isort_idem l : isort ltb (isort ltb l) = isort ltb l.
  Proof. apply isort_sorted_id. apply isort_sorted. Qed.

  (* sort (map f (sort (map f l))) = sort (map f l) when f is idempotent and keeps the order tests *)
  Lemma isort_map_idem (f : A -> A) l :
    (forall x, f (f x) = f x) ->
    isort ltb (map f (isort ltb (map f l))) = isort ltb (map f l).
  Proof.
    intro Hf.
    assert (G : forall l', (forall y, In y l' -> f y = y) -> map f l' = l').
    { induction l' as [|a l' IHl']; intro H; cbn [map]; [reflexivity|].
      rewrite H by (left; reflexivity). f_equal. apply IHl'. intros y Hy. apply H. right. exact Hy. }
    assert (Hfix : map f (isort ltb (map f l)) = isort ltb (map f l)).
    { apply G. intros y Hy. apply (proj1 (isort_In _ _)) in Hy. apply in_map_iff in Hy. destruct Hy as (x & <- & _). apply Hf. }
    rewrite Hfix. apply isort_idem.
  Qed.
End SortFacts.

(* the orders used by Normalize are strict weak orders *)
Lemma Nltb_asym x y : (x <? y) = true -> (y <? x) = false. Proof. lia. Qed.
Lemma Nltb_ntrans x y z : (x <? y) = false -> (y <? z) = false -> (x <? z) = false. Proof. lia. Qed.

Lemma bytes_ltb_asym : forall x y, bytes_ltb x y = true -> bytes_ltb y x = false.
Proof.
  induction x as [|a x IH]; destruct y as [|b y]; cbn; intro H; try reflexivity; try discriminate.
  destruct (a <? b) eqn:E1; destruct (b <? a) eqn:E2; try reflexivity; try lia; try discriminate.
  all: try (apply IH; exact H).
Qed.

Lemma bytes_ltb_ntrans : forall x y z, bytes_ltb x y = false -> bytes_ltb y z = false -> bytes_ltb x z = false.
Proof.
  induction x as [|a x IH]; destruct y as [|b y]; destruct z as [|c z]; cbn; intros H1 H2;
    try reflexivity; try discriminate.
  destruct (a <? b) eqn:E1; [discriminate|]. destruct (b <? a) eqn:E1'.
  - destruct (b <? c) eqn:E2; [discriminate|].
    assert (Hac : (a <? c) = false) by lia. rewrite Hac.
    destruct (c <? a) eqn:E3; [reflexivity|]. lia.
  - assert (a = b) by lia. subst b.
    destruct (a <? c) eqn:E2; [discriminate|]. destruct (c <? a) eqn:E2'; [reflexivity|].
    apply (IH y z); assumption.
Qed.

Definition sortN_idem := isort_idem N.ltb Nltb_asym Nltb_ntrans.
Definition sort_bytes_idem := isort_idem bytes_ltb bytes_ltb_asym bytes_ltb_ntrans.

Lemma key_asym {A} (k : A -> N) x y : (k x <? k y) = true -> (k y <? k x) = false. Proof. lia. Qed.
Lemma key_ntrans {A} (k : A -> N) x y z : (k x <? k y) = false -> (k y <? k z) = false -> (k x <? k z) = false.
Proof. lia. Qed.

Lemma HRange_ltb_asym x y : HRange_ltb x y = true -> HRange_ltb y x = false.
Proof. unfold HRange_ltb. destruct (hr_from x =? hr_from y) eqn:E; destruct (hr_from y =? hr_from x) eqn:E'; lia. Qed.
Lemma HRange_ltb_ntrans x y z : HRange_ltb x y = false -> HRange_ltb y z = false -> HRange_ltb x z = false.
Proof.
  unfold HRange_ltb.
  destruct (hr_from x =? hr_from y) eqn:E1; destruct (hr_from y =? hr_from z) eqn:E2;
    destruct (hr_from x =? hr_from z) eqn:E3; lia.
Qed.

Lemma Task_ltb_asym x y : Task_ltb x y = true -> Task_ltb y x = false.
Proof.
  unfold Task_ltb. destruct (t_slot x =? t_slot y) eqn:E; destruct (t_slot y =? t_slot x) eqn:E'; try lia.
  apply bytes_ltb_asym.
Qed.
Lemma Task_ltb_ntrans x y z : Task_ltb x y = false -> Task_ltb y z = false -> Task_ltb x z = false.
Proof.
  unfold Task_ltb.
  destruct (t_slot x =? t_slot y) eqn:E1; destruct (t_slot y =? t_slot z) eqn:E2;
    destruct (t_slot x =? t_slot z) eqn:E3; try lia.
  apply bytes_ltb_ntrans.
Qed.

(* ---- Normalize is idempotent --------------------------------------------------------- *)

Lemma normalize_node_idem n : normalize_node (normalize_node n) = normalize_node n.
Proof.
  unfold normalize_node. cbn [n_id n_name n_addr n_roles n_join n_status n_weight].
  unfold sort_bytes. rewrite sort_bytes_idem. f_equal.
  destruct (n_weight n =? 0) eqn:E; [reflexivity|]. rewrite E. reflexivity.
Qed.

Lemma normalize_assign_idem a : normalize_assign (normalize_assign a) = normalize_assign a.
Proof. unfold normalize_assign. cbn [sa_slot sa_peers sa_epoch sa_leader]. unfold sortN. rewrite sortN_idem. reflexivity. Qed.

Lemma pending_progress_sorted peers :
  sortedb N.ltb peers -> isort Progress_ltb (pending_progress peers) = pending_progress peers.
Proof.
  intro Hs. apply (isort_sorted_id Progress_ltb).
  induction peers as [|p peers IH]; [exact I|]. destruct Hs as [Hp Hs]. cbn [pending_progress map sortedb].
  split; [|apply IH; exact Hs].
  apply Forall_forall. intros y Hy. apply in_map_iff in Hy. destruct Hy as (q & <- & Hq).
  rewrite Forall_forall in Hp. unfold Progress_ltb. cbn [pp_node]. apply Hp. exact Hq.
Qed.

Lemma normalize_task_idem t : normalize_task (normalize_task t) = normalize_task t.
Proof.
  unfold normalize_task, normalizeTaskProgress, t_with_peers.
  cbn [t_id t_slot t_kind t_step t_source t_target t_peers t_policy t_progress t_epoch t_attempt t_status
       t_err t_phase t_obs_index t_obs_voters t_obs_learners].
  unfold sortN. rewrite !sortN_idem.
  set (pol := if is_empty (t_policy t) then _ else t_policy t).
  assert (Hpol : (if is_empty pol
                  then if bytes_eqb (t_kind t) TaskKindBootstrap then TaskCompletionPolicyAllTargetPeers
                       else if bytes_eqb (t_kind t) TaskKindLeaderTransfer then TaskCompletionPolicySingleObserver
                            else if bytes_eqb (t_kind t) TaskKindSlotReplicaMove then TaskCompletionPolicySingleObserver
                                 else pol
                  else pol) = pol).
  { subst pol. destruct (is_empty (t_policy t)) eqn:E; [|rewrite E; reflexivity].
    destruct (bytes_eqb (t_kind t) TaskKindBootstrap); [reflexivity|].
    destruct (bytes_eqb (t_kind t) TaskKindLeaderTransfer); [reflexivity|].
    destruct (bytes_eqb (t_kind t) TaskKindSlotReplicaMove); [reflexivity|].
    rewrite E. reflexivity. }
  rewrite Hpol. f_equal.
  set (prog := if bytes_eqb pol TaskCompletionPolicyAllTargetPeers && is_empty (t_progress t) then _ else t_progress t).
  destruct (bytes_eqb pol TaskCompletionPolicyAllTargetPeers) eqn:Ep; cbn [andb].
  - destruct (is_empty (isort Progress_ltb prog)) eqn:Ee.
    + (* the sorted progress is empty, so prog is empty, so peers are empty or ... : refill gives the same *)
      assert (Hp : isort Progress_ltb prog = []) by (destruct (isort Progress_ltb prog); [reflexivity|discriminate]).
      rewrite Hp. subst prog. rewrite ?Ep in Hp. cbn [andb] in Hp.
      destruct (is_empty (t_progress t)) eqn:Et.
      * rewrite pending_progress_sorted in Hp by (apply (isort_sorted N.ltb Nltb_asym Nltb_ntrans)).
        rewrite Hp. reflexivity.
      * destruct (t_progress t) as [|x r]; [discriminate|].
        exfalso. assert (In x (isort Progress_ltb (x :: r))) by (apply isort_In; left; reflexivity).
        rewrite Hp in H. exact H.
    + apply (isort_idem Progress_ltb (key_asym pp_node) (key_ntrans pp_node)).
  - apply (isort_idem Progress_ltb (key_asym pp_node) (key_ntrans pp_node)).
Qed.

Lemma Normalize_idem s : Normalize (Normalize s) = Normalize s.
Proof.
  unfold Normalize.
  cbn [s_schema s_cluster s_rev s_applied s_updated s_config s_controllers s_nodes s_slots s_health
       s_hashslots s_tasks s_sb s_ops s_checksum ht_version ht_count ht_ranges].
  rewrite (isort_idem Voter_ltb (key_asym cv_id) (key_ntrans cv_id)).
  rewrite (isort_map_idem Node_ltb (key_asym n_id) (key_ntrans n_id) normalize_node _ normalize_node_idem).
  rewrite (isort_map_idem Assign_ltb (key_asym sa_slot) (key_ntrans sa_slot) normalize_assign _ normalize_assign_idem).
  rewrite (isort_idem Health_ltb (key_asym h_node) (key_ntrans h_node)).
  rewrite (isort_idem HRange_ltb HRange_ltb_asym HRange_ltb_ntrans).
  rewrite (isort_map_idem Task_ltb Task_ltb_asym Task_ltb_ntrans normalize_task _ normalize_task_idem).
  reflexivity.
Qed.

(* ---- structural equality tests ---------------------------------------------------------- *)

Lemma bytes_eqb_refl b : bytes_eqb b b = true. Proof. apply bytes_eqb_eq. reflexivity. Qed.

Lemma Nlist_eqb_eq a b : Nlist_eqb a b = true <-> a = b.
Proof. apply list_eqb_spec. intros. apply N.eqb_eq. Qed.

Lemma list_bytes_eqb_eq a b : list_eqb bytes_eqb a b = true <-> a = b.
Proof. apply list_eqb_spec. intros. apply bytes_eqb_eq. Qed.

Ltac eqb_spec_tac :=
  repeat match goal with
         | H : _ && _ = true |- _ => apply andb_true_iff in H; destruct H
         | H : (_ =? _) = true |- _ => apply N.eqb_eq in H
         | H : Z.eqb _ _ = true |- _ => apply Z.eqb_eq in H
         | H : bytes_eqb _ _ = true |- _ => apply bytes_eqb_eq in H
         | H : Nlist_eqb _ _ = true |- _ => apply Nlist_eqb_eq in H
         | H : list_eqb bytes_eqb _ _ = true |- _ => apply list_bytes_eqb_eq in H
         | H : Bool.eqb _ _ = true |- _ => apply Bool.eqb_prop in H
         end.

Lemma Node_eqb_eq a b : Node_eqb a b = true <-> a = b.
Proof.
  split.
  - destruct a, b. unfold Node_eqb. cbn. intro H.
    eqb_spec_tac. subst. reflexivity.
  - intros <-. unfold Node_eqb. rewrite !N.eqb_refl, !bytes_eqb_refl.
    rewrite (proj2 (list_bytes_eqb_eq _ _) eq_refl). reflexivity.
Qed.

Lemma Voter_eqb_eq a b : Voter_eqb a b = true <-> a = b.
Proof.
  split.
  - destruct a, b. unfold Voter_eqb. cbn. intro H. eqb_spec_tac. subst. reflexivity.
  - intros <-. unfold Voter_eqb. rewrite !N.eqb_refl, !bytes_eqb_refl. reflexivity.
Qed.

Lemma Assign_eqb_eq a b : Assign_eqb a b = true <-> a = b.
Proof.
  split.
  - destruct a, b. unfold Assign_eqb. cbn. intro H. eqb_spec_tac. subst. reflexivity.
  - intros <-. unfold Assign_eqb. rewrite !N.eqb_refl, ?(proj2 (Nlist_eqb_eq _ _) eq_refl). reflexivity.
Qed.

Lemma HRange_eqb_eq a b : HRange_eqb a b = true <-> a = b.
Proof.
  split.
  - destruct a, b. unfold HRange_eqb. cbn. intro H. eqb_spec_tac. subst. reflexivity.
  - intros <-. unfold HRange_eqb. rewrite !N.eqb_refl. reflexivity.
Qed.

Lemma HTable_eqb_eq a b : HTable_eqb a b = true <-> a = b.
Proof.
  split.
  - destruct a, b. unfold HTable_eqb. cbn. intro H. eqb_spec_tac.
    apply (list_eqb_spec HRange_eqb HRange_eqb_eq) in H0. subst. reflexivity.
  - intros <-. unfold HTable_eqb. rewrite !N.eqb_refl.
    rewrite (proj2 (list_eqb_spec HRange_eqb HRange_eqb_eq _ _) eq_refl). reflexivity.
Qed.

Lemma Progress_eqb_eq a b : Progress_eqb a b = true <-> a = b.
Proof.
  split.
  - destruct a, b. unfold Progress_eqb. cbn. intro H. eqb_spec_tac. subst. reflexivity.
  - intros <-. unfold Progress_eqb. rewrite !N.eqb_refl, !bytes_eqb_refl. reflexivity.
Qed.

Lemma Task_eqb_eq a b : Task_eqb a b = true <-> a = b.
Proof.
  split.
  - destruct a, b. unfold Task_eqb. cbn.
    intro H. eqb_spec_tac.
    match goal with H : list_eqb Progress_eqb _ _ = true |- _ => apply (list_eqb_spec Progress_eqb Progress_eqb_eq) in H end.
    subst. reflexivity.
  - intros <-. unfold Task_eqb. rewrite !N.eqb_refl, !bytes_eqb_refl, ?(proj2 (Nlist_eqb_eq _ _) eq_refl).
    rewrite (proj2 (list_eqb_spec Progress_eqb Progress_eqb_eq _ _) eq_refl). reflexivity.
Qed.

Lemma Health_eqb_eq a b : Health_eqb a b = true <-> a = b.
Proof.
  split.
  - destruct a, b. unfold Health_eqb. cbn. intro H. eqb_spec_tac. subst. reflexivity.
  - intros <-. unfold Health_eqb. rewrite !N.eqb_refl, !bytes_eqb_refl, Z.eqb_refl, Bool.eqb_reflx. reflexivity.
Qed.

Lemma Config_eqb_eq a b : Config_eqb a b = true <-> a = b.
Proof.
  split.
  - destruct a, b. unfold Config_eqb. cbn. intro H. eqb_spec_tac. subst. reflexivity.
  - intros <-. unfold Config_eqb. rewrite !N.eqb_refl. reflexivity.
Qed.

Lemma SBlob_eqb_eq a b : SBlob_eqb a b = true <-> a = b.
Proof.
  split.
  - destruct a, b. unfold SBlob_eqb. cbn. intro H. eqb_spec_tac. subst. reflexivity.
  - intros <-. unfold SBlob_eqb. rewrite !N.eqb_refl, !Bool.eqb_reflx. reflexivity.
Qed.

Lemma OBlob_eqb_eq a b : OBlob_eqb a b = true <-> a = b.
Proof.
  split.
  - destruct a, b. unfold OBlob_eqb. cbn. intro H. eqb_spec_tac. subst. reflexivity.
  - intros <-. unfold OBlob_eqb. rewrite !N.eqb_refl, !Bool.eqb_reflx. reflexivity.
Qed.

Lemma option_eqb_eq {A} (eqb : A -> A -> bool) (H : forall x y, eqb x y = true <-> x = y) a b :
  option_eqb eqb a b = true <-> a = b.
Proof.
  destruct a, b; cbn; split; intro E; try discriminate; try reflexivity.
  - apply H in E. subst. reflexivity.
  - inversion E. apply H. reflexivity.
Qed.

Lemma CState_body_eqb_refl s : CState_body_eqb s s = true.
Proof.
  unfold CState_body_eqb. rewrite !N.eqb_refl, bytes_eqb_refl.
  rewrite (proj2 (Config_eqb_eq _ _) eq_refl).
  rewrite (proj2 (list_eqb_spec Voter_eqb Voter_eqb_eq _ _) eq_refl).
  rewrite (proj2 (list_eqb_spec Node_eqb Node_eqb_eq _ _) eq_refl).
  rewrite (proj2 (list_eqb_spec Assign_eqb Assign_eqb_eq _ _) eq_refl).
  rewrite (proj2 (list_eqb_spec Health_eqb Health_eqb_eq _ _) eq_refl).
  rewrite (proj2 (HTable_eqb_eq _ _) eq_refl).
  rewrite (proj2 (list_eqb_spec Task_eqb Task_eqb_eq _ _) eq_refl).
  rewrite (proj2 (option_eqb_eq SBlob_eqb SBlob_eqb_eq _ _) eq_refl).
  rewrite (proj2 (option_eqb_eq OBlob_eqb OBlob_eqb_eq _ _) eq_refl).
  reflexivity.
Qed.

Lemma CState_eqb_refl s : CState_eqb s s = true.
Proof. unfold CState_eqb. rewrite CState_body_eqb_refl, bytes_eqb_refl. reflexivity. Qed.
