(* Proof/AckTracker_entry.v — ackTrackerEntry: the primary/extra-attempt
   representation with swap-remove refines "committed flag + set of live
   reservations". *)
From WK Require Import Base.Base Model.AckTracker Proof.AckTracker_map.
From Coq Require Import Permutation.
Open Scope N_scope.

(* ---- abstraction of an entry -------------------------------------------------- *)
Definition ext_live (l : list attempt) : list (N * Z) :=
  map (fun a => (a_token a, p_at (a_pending a))) l.
Definition prim_live (e : entry) : list (N * Z) :=
  if e_primary e =? 0 then [] else [(e_primary e, p_at (e_pending e))].
Definition abs_live (e : entry) : list (N * Z) := prim_live e ++ ext_live (e_extra e).
Definition abs_committed (e : entry) : option Z :=
  if e_committed e then Some (p_at (e_pending e)) else None.
Definition abs_entry (e : entry) : sentry := SEnt (abs_committed e) (abs_live e).

(* committed entries have no primary; an uncommitted entry without primary has
   no reservation at all; tokens are non-zero and pairwise distinct *)
Record entry_wf (e : entry) : Prop := {
  wf_committed : e_committed e = true -> e_primary e = 0;
  wf_noprimary : e_committed e = false -> e_primary e = 0 -> e_extra e = [];
  wf_nodup : NoDup (map fst (abs_live e));
  wf_nonzero : ~ In 0 (map fst (abs_live e)) }.

(* what a stored row additionally satisfies *)
Definition entry_alive (e : entry) : Prop := e_committed e = true \/ e_primary e <> 0.

Lemma zero_entry_wf : entry_wf zero_entry.
Proof. constructor; simpl; intros; try reflexivity; try discriminate; try constructor; auto. Qed.

(* ---- permutation-insensitivity of the specification's list functions -------------- *)
Lemma live_mem_in tok l : live_mem tok l = true <-> In tok (map fst l).
Proof.
  unfold live_mem. rewrite existsb_exists. split.
  - intros [a [H1 H2]]. apply N.eqb_eq in H2. subst. apply in_map. exact H1.
  - intro H. apply in_map_iff in H. destruct H as [a [H1 H2]]. exists a. split; [exact H2|].
    apply N.eqb_eq. exact H1.
Qed.

Lemma live_mem_perm tok l l' : Permutation l l' -> live_mem tok l = live_mem tok l'.
Proof.
  intro P. destruct (live_mem tok l) eqn:E; symmetry.
  - apply live_mem_in. apply live_mem_in in E.
    eapply Permutation_in; [apply Permutation_map; exact P|exact E].
  - destruct (live_mem tok l') eqn:E'; [|reflexivity].
    apply live_mem_in in E'. rewrite <- E. symmetry. apply live_mem_in.
    eapply Permutation_in; [apply Permutation_map; apply Permutation_sym; exact P|exact E'].
Qed.

Lemma live_del_perm tok l l' : Permutation l l' -> Permutation (live_del tok l) (live_del tok l').
Proof.
  unfold live_del. induction 1; simpl.
  - constructor.
  - destruct (negb (fst x =? tok)); [constructor|]; assumption.
  - destruct (negb (fst x =? tok)); destruct (negb (fst y =? tok)); try apply perm_swap; apply Permutation_refl.
  - eapply Permutation_trans; eassumption.
Qed.

Lemma live_del_notin tok l : ~ In tok (map fst l) -> live_del tok l = l.
Proof.
  unfold live_del. induction l as [|a l IH]; simpl; [reflexivity|].
  intro H. destruct (fst a =? tok) eqn:E.
  - apply N.eqb_eq in E. exfalso. apply H. left. exact E.
  - simpl. rewrite IH; [reflexivity|]. intro H1. apply H. right. exact H1.
Qed.

Lemma live_del_fst tok l x : In x (map fst (live_del tok l)) <-> x <> tok /\ In x (map fst l).
Proof.
  unfold live_del. induction l as [|a l IH]; simpl.
  - split; [intros []|intros [_ []]].
  - destruct (fst a =? tok) eqn:E; simpl.
    + apply N.eqb_eq in E. rewrite IH. split.
      * intros [H1 H2]. split; [exact H1|right; exact H2].
      * intros [H1 [H2|H2]]; [congruence|split; assumption].
    + apply N.eqb_neq in E. rewrite IH. split.
      * intros [H|[H1 H2]]; [subst; split; [exact E|left; reflexivity]|split; [exact H1|right; exact H2]].
      * intros [H1 [H2|H2]]; [left; exact H2|right; split; assumption].
Qed.

Lemma live_del_nodup tok l : NoDup (map fst l) -> NoDup (map fst (live_del tok l)).
Proof.
  unfold live_del. induction l as [|a l IH]; simpl; [intros; constructor|].
  intro ND. inversion ND as [|? ? Hn ND']. subst.
  destruct (fst a =? tok); simpl; [apply IH; exact ND'|].
  constructor; [|apply IH; exact ND'].
  intro H. apply (live_del_fst tok l (fst a)) in H. apply Hn. apply H.
Qed.

(* removing the (unique) occurrence of a token *)
Lemma live_del_unique tok z r l :
  Permutation ((tok, z) :: r) l -> NoDup (map fst l) -> Permutation r (live_del tok l).
Proof.
  intros P ND.
  assert (ND' : NoDup (map fst ((tok, z) :: r))).
  { eapply Permutation_NoDup; [apply Permutation_map; apply Permutation_sym; exact P|exact ND]. }
  simpl in ND'. inversion ND' as [|? ? Hn _]. subst.
  pose proof (live_del_perm tok _ _ P) as Q.
  unfold live_del in Q at 1. simpl in Q. rewrite N.eqb_refl in Q. simpl in Q.
  fold (live_del tok r) in Q. rewrite (live_del_notin tok r Hn) in Q. exact Q.
Qed.

Lemma live_at_unique tok z r l :
  Permutation ((tok, z) :: r) l -> NoDup (map fst l) -> live_at tok l = z.
Proof.
  intros P ND.
  assert (Hin : In (tok, z) l) by (eapply Permutation_in; [exact P|left; reflexivity]).
  clear P. induction l as [|a l IH]; [destruct Hin|].
  simpl in *. inversion ND as [|? ? Hn ND']. subst.
  destruct Hin as [H|H].
  - subst a. simpl. rewrite N.eqb_refl. reflexivity.
  - destruct (fst a =? tok) eqn:E.
    + apply N.eqb_eq in E. exfalso. apply Hn. rewrite E. apply (in_map fst) in H. exact H.
    + apply IH; assumption.
Qed.

Lemma live_at_perm tok l l' :
  Permutation l l' -> NoDup (map fst l) -> live_mem tok l = true -> live_at tok l = live_at tok l'.
Proof.
  intros P ND M. apply live_mem_in in M. apply in_map_iff in M. destruct M as [[t z] [H1 H2]].
  simpl in H1. subst t. apply in_split in H2. destruct H2 as [l1 [l2 H2]].
  assert (P1 : Permutation ((tok, z) :: l1 ++ l2) l).
  { rewrite H2. apply Permutation_middle. }
  rewrite (live_at_unique tok z _ l P1 ND).
  symmetry. apply (live_at_unique tok z (l1 ++ l2)).
  - eapply Permutation_trans; [exact P1|exact P].
  - eapply Permutation_NoDup; [apply Permutation_map; exact P|exact ND].
Qed.

Lemma forallb_perm {A} (f : A -> bool) l l' : Permutation l l' -> forallb f l = forallb f l'.
Proof.
  induction 1; simpl; try congruence.
  - destruct (f x); destruct (f y); reflexivity.
Qed.

(* ---- swap-remove --------------------------------------------------------------- *)
Lemma set_nth_app {A} i (x : A) l r : (i < length l)%nat -> set_nth i x (l ++ r) = set_nth i x l ++ r.
Proof.
  revert i. induction l as [|y l IH]; simpl; intros i H; [lia|].
  destruct i; [reflexivity|]. simpl. rewrite IH by lia. reflexivity.
Qed.

Lemma set_nth_perm {A} i (x d : A) l :
  (i < length l)%nat -> Permutation (nth i l d :: set_nth i x l) (x :: l).
Proof.
  revert i. induction l as [|y l IH]; simpl; intros i H; [lia|].
  destruct i; [apply perm_swap|].
  simpl. eapply Permutation_trans; [apply perm_swap|].
  eapply Permutation_trans; [apply perm_skip; apply IH; lia|]. apply perm_swap.
Qed.

Lemma nth_app_last {A} (l : list A) z d : nth (length l) (l ++ [z]) d = z.
Proof. induction l as [|a l IH]; simpl; [reflexivity|exact IH]. Qed.

Lemma removeExtraAttempt_snoc l z i :
  (i <= length l)%nat ->
  Permutation (nth i (l ++ [z]) zero_attempt :: removeExtraAttempt (l ++ [z]) i) (l ++ [z]).
Proof.
  intro H. unfold removeExtraAttempt. rewrite app_length. simpl length.
  replace (pred (length l + 1)) with (length l) by lia.
  rewrite nth_app_last.
  destruct (Nat.eqb i (length l)) eqn:Ei.
  - apply Nat.eqb_eq in Ei. rewrite Ei. rewrite removelast_last, nth_app_last.
    apply Permutation_cons_append.
  - apply Nat.eqb_neq in Ei. assert (Hi : (i < length l)%nat) by lia.
    rewrite (set_nth_app i z l [z] Hi). rewrite removelast_last.
    rewrite (app_nth1 l [z] zero_attempt Hi).
    eapply Permutation_trans; [apply set_nth_perm; exact Hi|]. apply Permutation_cons_append.
Qed.

Lemma removeExtraAttempt_perm l i :
  (i < length l)%nat -> Permutation (nth i l zero_attempt :: removeExtraAttempt l i) l.
Proof.
  intro H. destruct l as [|a0 l0]; [simpl in H; lia|].
  destruct (exists_last (l := a0 :: l0)) as [l' [z E]]; [discriminate|].
  rewrite E in *. apply removeExtraAttempt_snoc.
  rewrite app_length in H. simpl in H. lia.
Qed.

Lemma find_token_from_spec tok l j i :
  find_token_from tok l j = Some i ->
  (j <= i)%nat /\ (i - j < length l)%nat /\ a_token (nth (i - j) l zero_attempt) = tok.
Proof.
  revert j. induction l as [|a l IH]; simpl; intros j H; [discriminate|].
  destruct (a_token a =? tok) eqn:E.
  - inversion H. subst. rewrite Nat.sub_diag. apply N.eqb_eq in E. repeat split; [lia|lia|exact E].
  - apply IH in H. destruct H as [H1 [H2 H3]]. repeat split; [lia|lia|].
    replace (i - j)%nat with (S (i - S j)) by lia. exact H3.
Qed.

Lemma find_token_spec tok l i :
  find_token tok l = Some i -> (i < length l)%nat /\ a_token (nth i l zero_attempt) = tok.
Proof.
  intro H. apply find_token_from_spec in H. rewrite Nat.sub_0_r in H. tauto.
Qed.

Lemma find_token_from_none tok l j :
  find_token_from tok l j = None <-> ~ In tok (map a_token l).
Proof.
  revert j. induction l as [|a l IH]; simpl; intro j.
  - split; [intros _ []|reflexivity].
  - destruct (a_token a =? tok) eqn:E.
    + apply N.eqb_eq in E. split; [discriminate|]. intro H. exfalso. apply H. left. exact E.
    + apply N.eqb_neq in E. rewrite IH. split.
      * intros H [H1|H1]; contradiction.
      * intros H H1. apply H. right. exact H1.
Qed.

Lemma find_token_none tok l : find_token tok l = None <-> ~ In tok (map a_token l).
Proof. apply find_token_from_none. Qed.

Lemma ext_live_fst l : map fst (ext_live l) = map a_token l.
Proof. unfold ext_live. rewrite map_map. reflexivity. Qed.

Lemma ext_live_nth l i :
  (i < length l)%nat ->
  nth i (ext_live l) (0, 0%Z) = (a_token (nth i l zero_attempt), p_at (a_pending (nth i l zero_attempt))).
Proof.
  intro H. unfold ext_live.
  change (0, 0%Z) with ((fun a => (a_token a, p_at (a_pending a))) zero_attempt).
  apply map_nth.
Qed.

(* ---- the three entry operations ---------------------------------------------------- *)
Lemma prim_live_fst e : map fst (prim_live e) = if e_primary e =? 0 then [] else [e_primary e].
Proof. unfold prim_live. destruct (e_primary e =? 0); reflexivity. Qed.

Lemma abs_live_mem e tok :
  tok <> 0 ->
  live_mem tok (abs_live e) = (e_primary e =? tok) || negb (match find_token tok (e_extra e) with Some _ => false | None => true end).
Proof.
  intro Hz. destruct (live_mem tok (abs_live e)) eqn:M.
  - apply live_mem_in in M. unfold abs_live in M. rewrite map_app, prim_live_fst, ext_live_fst in M.
    apply in_app_or in M. destruct M as [M|M].
    + destruct (e_primary e =? 0); [destruct M|]. destruct M as [M|[]]. subst. rewrite N.eqb_refl. reflexivity.
    + destruct (find_token tok (e_extra e)) eqn:F.
      * simpl. rewrite orb_true_r. reflexivity.
      * apply find_token_none in F. contradiction.
  - symmetry. apply orb_false_iff. split.
    + apply N.eqb_neq. intro H. rewrite <- not_true_iff_false in M. apply M.
      apply live_mem_in. unfold abs_live. rewrite map_app, prim_live_fst. apply in_or_app. left.
      destruct (e_primary e =? 0) eqn:E; [apply N.eqb_eq in E; congruence|left; exact H].
    + destruct (find_token tok (e_extra e)) eqn:F; [|reflexivity].
      apply find_token_spec in F. destruct F as [F1 F2].
      rewrite <- not_true_iff_false in M. exfalso. apply M.
      apply live_mem_in. unfold abs_live. rewrite map_app, ext_live_fst. apply in_or_app. right.
      rewrite <- F2. apply in_map. apply nth_In. exact F1.
Qed.

(* addAttempt *)
Lemma addAttempt_abs e p tok :
  entry_wf e -> tok <> 0 -> ~ In tok (map fst (abs_live e)) ->
  let e' := addAttempt e p tok in
  abs_committed e' = abs_committed e
  /\ Permutation (abs_live e') (abs_live e ++ [(tok, p_at p)])
  /\ entry_wf e' /\ entry_alive e'
  /\ (abs_committed e = None -> abs_live e = [] -> e_pending e' = p).
Proof.
  intros W Hz Hn. unfold addAttempt.
  destruct (negb (e_committed e) && (e_primary e =? 0)) eqn:C; cbn zeta.
  - apply andb_true_iff in C. destruct C as [C1 C2]. apply negb_true_iff in C1. apply N.eqb_eq in C2.
    pose proof (wf_noprimary e W C1 C2) as Hx.
    assert (AL : abs_live e = []).
    { unfold abs_live, prim_live. rewrite C2, Hx. reflexivity. }
    assert (AL' : abs_live (Ent p (e_committed e) tok (e_extra e)) = [(tok, p_at p)]).
    { unfold abs_live, prim_live. simpl. rewrite Hx.
      destruct (tok =? 0) eqn:E; [apply N.eqb_eq in E; contradiction|reflexivity]. }
    repeat split.
    + unfold abs_committed. simpl. rewrite C1. reflexivity.
    + rewrite AL', AL. apply Permutation_refl.
    + simpl. intro H. congruence.
    + simpl. intros _ H. contradiction.
    + rewrite AL'. simpl. constructor; [intros []|constructor].
    + rewrite AL'. simpl. intros [H|[]]. congruence.
    + right. simpl. exact Hz.
  - assert (AL' : abs_live (Ent (e_pending e) (e_committed e) (e_primary e) (e_extra e ++ [Att tok p]))
                  = abs_live e ++ [(tok, p_at p)]).
    { unfold abs_live, prim_live, ext_live. simpl. rewrite map_app, app_assoc. reflexivity. }
    repeat split.
    + rewrite AL'. apply Permutation_refl.
    + simpl. apply (wf_committed e W).
    + simpl. intros H1 H2. rewrite H1, H2 in C. discriminate.
    + rewrite AL', map_app. simpl.
      eapply Permutation_NoDup; [apply Permutation_cons_append|].
      constructor; [exact Hn|apply (wf_nodup e W)].
    + rewrite AL', map_app. simpl. intro H. apply in_app_or in H.
      destruct H as [H|[H|[]]]; [apply (wf_nonzero e W); exact H|congruence].
    + unfold entry_alive. simpl. destruct (e_committed e) eqn:C1; [left; reflexivity|].
      right. simpl in C. apply N.eqb_neq. exact C.
    + intros H1 H2. exfalso. unfold abs_committed in H1.
      destruct (e_committed e) eqn:C1; [discriminate|]. simpl in C.
      unfold abs_live, prim_live in H2. rewrite C in H2. discriminate.
Qed.

(* finishAttempt *)
Lemma finishAttempt_abs e tok :
  entry_wf e -> tok <> 0 ->
  let '(e', ok) := finishAttempt e tok in
  ok = live_mem tok (abs_live e)
  /\ (ok = false -> e' = e)
  /\ (ok = true ->
      abs_committed e' = Some (live_at tok (abs_live e))
      /\ Permutation (abs_live e') (live_del tok (abs_live e))
      /\ entry_wf e' /\ entry_alive e').
Proof.
  intros W Hz. pose proof (abs_live_mem e tok Hz) as M.
  unfold finishAttempt. destruct (e_primary e =? tok) eqn:P.
  - (* the primary finishes *)
    apply N.eqb_eq in P. rewrite M. split; [reflexivity|]. split; [discriminate|]. intros _.
    assert (AL : abs_live e = (tok, p_at (e_pending e)) :: ext_live (e_extra e)).
    { unfold abs_live, prim_live. rewrite P.
      destruct (tok =? 0) eqn:E; [apply N.eqb_eq in E; contradiction|reflexivity]. }
    assert (AL' : abs_live (Ent (e_pending e) true 0 (e_extra e)) = ext_live (e_extra e)) by reflexivity.
    assert (Q : Permutation (ext_live (e_extra e)) (live_del tok (abs_live e))).
    { apply (live_del_unique tok (p_at (e_pending e))); [rewrite AL; apply Permutation_refl|apply (wf_nodup e W)]. }
    repeat split.
    + unfold abs_committed. simpl. f_equal. symmetry.
      apply (live_at_unique tok _ (ext_live (e_extra e))); [rewrite AL; apply Permutation_refl|apply (wf_nodup e W)].
    + rewrite AL'. exact Q.
    + simpl. discriminate.
    + rewrite AL'. eapply Permutation_NoDup; [apply Permutation_map; apply Permutation_sym; exact Q|].
      apply live_del_nodup. apply (wf_nodup e W).
    + rewrite AL'. intro H. eapply Permutation_in in H; [|apply Permutation_map; exact Q].
      apply live_del_fst in H. apply (wf_nonzero e W). apply H.
    + left. reflexivity.
  - simpl in M. destruct (find_token tok (e_extra e)) eqn:F.
    + (* an extra attempt finishes *)
      apply find_token_spec in F. destruct F as [F1 F2].
      set (fin := nth n (e_extra e) zero_attempt) in *.
      destruct (negb (e_committed e) && negb (e_primary e =? 0)) eqn:C;
        (rewrite M; simpl; split; [reflexivity|]; split; [discriminate|]; intros _).
      * (* the live primary moves into the freed slot *)
        apply andb_true_iff in C. destruct C as [C1 C2]. apply negb_true_iff in C1, C2.
        set (e' := Ent (a_pending fin) true 0 (set_nth n (Att (e_primary e) (e_pending e)) (e_extra e))).
        assert (PP : Permutation ((tok, p_at (a_pending fin)) :: abs_live e') (abs_live e)).
        { unfold abs_live, prim_live, e'. simpl. rewrite C2. simpl.
          pose proof (set_nth_perm n (Att (e_primary e) (e_pending e)) zero_attempt (e_extra e) F1) as S1.
          apply (Permutation_map (fun a => (a_token a, p_at (a_pending a)))) in S1.
          simpl in S1. fold fin in S1. rewrite F2 in S1. exact S1. }
        pose proof (live_del_unique tok _ _ _ PP (wf_nodup e W)) as Q.
        repeat split.
        -- unfold abs_committed. simpl. f_equal. symmetry.
           apply (live_at_unique tok _ (abs_live e')); [exact PP|apply (wf_nodup e W)].
        -- exact Q.
        -- simpl. discriminate.
        -- eapply Permutation_NoDup; [apply Permutation_map; apply Permutation_sym; exact Q|].
           apply live_del_nodup. apply (wf_nodup e W).
        -- intro H. eapply Permutation_in in H; [|apply Permutation_map; exact Q].
           apply live_del_fst in H. apply (wf_nonzero e W). apply H.
        -- left. reflexivity.
      * (* plain swap-remove: committed already (no primary), or no primary *)
        set (e' := Ent (a_pending fin) true (e_primary e) (removeExtraAttempt (e_extra e) n)).
        assert (P0 : e_primary e = 0).
        { destruct (e_committed e) eqn:C1; [apply (wf_committed e W C1)|].
          simpl in C. apply negb_false_iff in C. apply N.eqb_eq in C. exact C. }
        assert (PP : Permutation ((tok, p_at (a_pending fin)) :: abs_live e') (abs_live e)).
        { unfold abs_live, prim_live, e'. simpl. rewrite P0. simpl.
          pose proof (removeExtraAttempt_perm (e_extra e) n F1) as S1.
          apply (Permutation_map (fun a => (a_token a, p_at (a_pending a)))) in S1.
          simpl in S1. fold fin in S1. rewrite F2 in S1. exact S1. }
        pose proof (live_del_unique tok _ _ _ PP (wf_nodup e W)) as Q.
        repeat split.
        -- unfold abs_committed. simpl. f_equal. symmetry.
           apply (live_at_unique tok _ (abs_live e')); [exact PP|apply (wf_nodup e W)].
        -- exact Q.
        -- simpl. intros _. exact P0.
        -- simpl. discriminate.
        -- eapply Permutation_NoDup; [apply Permutation_map; apply Permutation_sym; exact Q|].
           apply live_del_nodup. apply (wf_nodup e W).
        -- intro H. eapply Permutation_in in H; [|apply Permutation_map; exact Q].
           apply live_del_fst in H. apply (wf_nonzero e W). apply H.
        -- left. reflexivity.
    + rewrite M. simpl. split; [reflexivity|]. split; [reflexivity|discriminate].
Qed.

(* cancelAttempt *)
Lemma cancelAttempt_abs e tok :
  entry_wf e -> tok <> 0 ->
  let '(e', ok) := cancelAttempt e tok in
  ok = live_mem tok (abs_live e)
  /\ (ok = false -> e' = e)
  /\ (ok = true ->
      abs_committed e' = abs_committed e
      /\ Permutation (abs_live e') (live_del tok (abs_live e))
      /\ entry_wf e'
      /\ (e_committed e' || hasAttempts e' = false <-> abs_committed e' = None /\ abs_live e' = [])
      /\ (e_committed e' || hasAttempts e' = true -> entry_alive e')).
Proof.
  intros W Hz. pose proof (abs_live_mem e tok Hz) as M.
  assert (GEN : forall e', abs_committed e' = abs_committed e ->
            (e_committed e' = true -> e_primary e' = 0) ->
            (e_committed e' = false -> e_primary e' = 0 -> e_extra e' = []) ->
            forall z, Permutation ((tok, z) :: abs_live e') (abs_live e) ->
      abs_committed e' = abs_committed e
      /\ Permutation (abs_live e') (live_del tok (abs_live e))
      /\ entry_wf e'
      /\ (e_committed e' || hasAttempts e' = false <-> abs_committed e' = None /\ abs_live e' = [])
      /\ (e_committed e' || hasAttempts e' = true -> entry_alive e')).
  { intros e' HC W1 W2 z PP.
    pose proof (live_del_unique tok _ _ _ PP (wf_nodup e W)) as Q.
    split; [exact HC|]. split; [exact Q|]. split; [|split].
    - constructor; [exact W1|exact W2| |].
      + eapply Permutation_NoDup; [apply Permutation_map; apply Permutation_sym; exact Q|].
        apply live_del_nodup. apply (wf_nodup e W).
      + intro H. eapply Permutation_in in H; [|apply Permutation_map; exact Q].
        apply live_del_fst in H. apply (wf_nonzero e W). apply H.
    - unfold hasAttempts, abs_committed, abs_live, prim_live.
      destruct (e_committed e') eqn:C1; simpl.
      + split; [discriminate|intros [H _]; discriminate].
      + destruct (e_primary e' =? 0) eqn:P1; simpl.
        * apply N.eqb_eq in P1. rewrite (W2 eq_refl P1). simpl. split; auto.
        * split; [discriminate|intros [_ H]; discriminate].
    - unfold entry_alive, hasAttempts. destruct (e_committed e') eqn:C1; [left; reflexivity|].
      simpl. destruct (e_primary e' =? 0) eqn:P1; simpl.
      + apply N.eqb_eq in P1. rewrite (W2 eq_refl P1). simpl. discriminate.
      + intros _. right. apply N.eqb_neq. exact P1. }
  unfold cancelAttempt. destruct (e_primary e =? tok) eqn:P.
  - apply N.eqb_eq in P.
    assert (C0 : e_committed e = false).
    { destruct (e_committed e) eqn:C1; [|reflexivity]. rewrite (wf_committed e W C1) in P. congruence. }
    assert (AL : abs_live e = (tok, p_at (e_pending e)) :: ext_live (e_extra e)).
    { unfold abs_live, prim_live. rewrite P.
      destruct (tok =? 0) eqn:E; [apply N.eqb_eq in E; contradiction|reflexivity]. }
    destruct (e_extra e) as [|a0 l0] eqn:X.
    + rewrite M. simpl. split; [reflexivity|]. split; [discriminate|]. intros _.
      apply (GEN (Ent (e_pending e) (e_committed e) 0 []) ) with (z := p_at (e_pending e)).
      * unfold abs_committed. simpl. reflexivity.
      * reflexivity.
      * reflexivity.
      * rewrite AL. unfold abs_live, prim_live. simpl. apply Permutation_refl.
    + rewrite C0. cbn [negb]. rewrite M. cbn [orb].
      split; [reflexivity|]. split; [discriminate|]. intros _. rewrite <- X in *.
      set (lastn := pred (length (e_extra e))).
      assert (HL : (lastn < length (e_extra e))%nat) by (unfold lastn; rewrite X; simpl; lia).
      set (pro := nth lastn (e_extra e) zero_attempt).
      assert (TP : a_token pro <> 0).
      { intro H. apply (wf_nonzero e W). rewrite AL. simpl. right. rewrite ext_live_fst.
        rewrite <- H. apply in_map. apply nth_In. exact HL. }
      apply (GEN (Ent (a_pending pro) false (a_token pro) (removeExtraAttempt (e_extra e) lastn)))
        with (z := p_at (e_pending e)).
      * unfold abs_committed. simpl. rewrite C0. reflexivity.
      * simpl. discriminate.
      * simpl. intros _ H. contradiction.
      * rewrite AL. apply perm_skip. unfold abs_live, prim_live. simpl.
        destruct (a_token pro =? 0) eqn:E; [apply N.eqb_eq in E; contradiction|]. simpl.
        pose proof (removeExtraAttempt_perm (e_extra e) lastn HL) as S1.
        apply (Permutation_map (fun a => (a_token a, p_at (a_pending a)))) in S1. exact S1.
  - simpl in M. destruct (find_token tok (e_extra e)) eqn:F.
    + rewrite M. simpl. split; [reflexivity|]. split; [discriminate|]. intros _.
      apply find_token_spec in F. destruct F as [F1 F2].
      apply (GEN (Ent (e_pending e) (e_committed e) (e_primary e) (removeExtraAttempt (e_extra e) n)))
        with (z := p_at (a_pending (nth n (e_extra e) zero_attempt))).
      * reflexivity.
      * simpl. apply (wf_committed e W).
      * simpl. intros H1 H2. rewrite (wf_noprimary e W H1 H2) in F1. simpl in F1. lia.
      * unfold abs_live, prim_live. simpl.
        eapply Permutation_trans; [apply Permutation_middle|]. apply Permutation_app_head.
        pose proof (removeExtraAttempt_perm (e_extra e) n F1) as S1.
        apply (Permutation_map (fun a => (a_token a, p_at (a_pending a)))) in S1.
        simpl in S1. rewrite F2 in S1. exact S1.
    + rewrite M. simpl. split; [reflexivity|]. split; [reflexivity|discriminate].
Qed.

(* hasDeliveryAfter in terms of the abstraction: some committed / live delivery
   is newer than the cutoff *)
Lemma hasDeliveryAfter_abs e cutoff :
  entry_wf e -> entry_alive e ->
  hasDeliveryAfter e cutoff =
  negb (match abs_committed e with Some c => (c <=? cutoff)%Z | None => true end
        && forallb (fun a => (snd a <=? cutoff)%Z) (abs_live e)).
Proof.
  intros W A. unfold hasDeliveryAfter, abs_committed, abs_live, prim_live.
  assert (EX : existsb (fun a => (cutoff <? p_at (a_pending a))%Z) (e_extra e)
               = negb (forallb (fun a : N * Z => (snd a <=? cutoff)%Z) (ext_live (e_extra e)))).
  { induction (e_extra e) as [|a l IH]; simpl; [reflexivity|].
    rewrite IH, negb_andb. f_equal. rewrite Z.leb_antisym, negb_involutive. reflexivity. }
  rewrite EX. rewrite Z.ltb_antisym.
  destruct A as [A|A].
  - rewrite A, (wf_committed e W A). simpl. rewrite negb_andb. reflexivity.
  - destruct (e_committed e) eqn:C; [rewrite (wf_committed e W C) in A; congruence|].
    apply N.eqb_neq in A. rewrite A. simpl. rewrite negb_andb. reflexivity.
Qed.

(* ---- every delivery record kept in a row carries the row's identity ---------------- *)
Definition entry_pendings (e : entry) : list pending := e_pending e :: map a_pending (e_extra e).
Definition entry_keyed (k : key) (e : entry) : Prop := forall p, In p (entry_pendings e) -> key_of p = k.

Lemma removelast_incl {A} (l : list A) x : In x (removelast l) -> In x l.
Proof.
  induction l as [|a l IH]; simpl; [intros []|].
  destruct l as [|b l]; [intros []|]. intros [H|H]; [left; exact H|right; apply IH; exact H].
Qed.

Lemma set_nth_incl {A} i (x : A) l y : In y (set_nth i x l) -> y = x \/ In y l.
Proof.
  revert i. induction l as [|a l IH]; intros i H; [destruct i; destruct H|].
  destruct i; simpl in H.
  - destruct H as [H|H]; [left; symmetry; exact H|right; right; exact H].
  - destruct H as [H|H]; [right; left; exact H|]. apply IH in H. destruct H as [H|H]; [left; exact H|right; right; exact H].
Qed.

Lemma removeExtraAttempt_incl l i a : In a (removeExtraAttempt l i) -> In a l.
Proof.
  unfold removeExtraAttempt. intro H. apply removelast_incl in H.
  destruct l as [|a0 l0].
  - destruct (Nat.eqb i (pred (length (@nil attempt)))); [exact H|]. destruct i; simpl in H; exact H.
  - destruct (Nat.eqb i (pred (length (a0 :: l0)))); [exact H|].
    apply set_nth_incl in H. destruct H as [H|H]; [|exact H].
    subst a. apply nth_In. simpl. lia.
Qed.

Lemma addAttempt_keyed k e p tok :
  key_of p = k -> entry_wf e -> (entry_keyed k e \/ e = zero_entry) -> entry_keyed k (addAttempt e p tok).
Proof.
  intros Hk W He. unfold addAttempt.
  destruct (negb (e_committed e) && (e_primary e =? 0)) eqn:C.
  - apply andb_true_iff in C. destruct C as [C1 C2]. apply negb_true_iff in C1. apply N.eqb_eq in C2.
    rewrite (wf_noprimary e W C1 C2). intros q [H|[]]. subst q. exact Hk.
  - destruct He as [He|He]; [|subst e; simpl in C; discriminate].
    intros q H. unfold entry_pendings in H. simpl in H. rewrite map_app in H. simpl in H.
    destruct H as [H|H]; [apply He; left; exact H|].
    apply in_app_or in H. destruct H as [H|[H|[]]]; [apply He; right; exact H|subst q; exact Hk].
Qed.

Lemma finishAttempt_keyed k e tok :
  entry_keyed k e -> entry_keyed k (fst (finishAttempt e tok)).
Proof.
  intros He. unfold finishAttempt. destruct (e_primary e =? tok).
  - simpl. exact He.
  - destruct (find_token tok (e_extra e)) eqn:F; [|simpl; exact He].
    apply find_token_spec in F. destruct F as [F1 _].
    assert (HF : key_of (a_pending (nth n (e_extra e) zero_attempt)) = k).
    { apply He. right. apply in_map. apply nth_In. exact F1. }
    destruct (negb (e_committed e) && negb (e_primary e =? 0)); simpl; intros q [H|H].
    + subst q. exact HF.
    + apply in_map_iff in H. destruct H as [a [H1 H2]]. apply set_nth_incl in H2. destruct H2 as [H2|H2].
      * subst a q. simpl. apply He. left. reflexivity.
      * subst q. apply He. right. apply in_map. exact H2.
    + subst q. exact HF.
    + apply in_map_iff in H. destruct H as [a [H1 H2]]. apply removeExtraAttempt_incl in H2.
      subst q. apply He. right. apply in_map. exact H2.
Qed.

Lemma cancelAttempt_keyed k e tok :
  entry_keyed k e -> entry_keyed k (fst (cancelAttempt e tok)).
Proof.
  intros He. unfold cancelAttempt. destruct (e_primary e =? tok).
  - destruct (e_extra e) as [|a0 l0] eqn:X.
    + simpl. intros q H. apply He. unfold entry_pendings. rewrite X. exact H.
    + destruct (negb (e_committed e)); cbn [fst].
      * rewrite <- X. intros q H. unfold entry_pendings in H. cbn [e_pending e_extra In] in H.
        destruct H as [H|H].
        -- subst q. apply He. right. apply in_map. apply nth_In. rewrite X. simpl. lia.
        -- apply in_map_iff in H. destruct H as [a [H1 H2]]. apply removeExtraAttempt_incl in H2.
           subst q. apply He. right. apply in_map. exact H2.
      * intros q H. apply He. unfold entry_pendings. rewrite X. exact H.
  - destruct (find_token tok (e_extra e)); simpl; [|exact He].
    intros q [H|H]; [apply He; left; exact H|].
    apply in_map_iff in H. destruct H as [a [H1 H2]]. apply removeExtraAttempt_incl in H2.
    subst q. apply He. right. apply in_map. exact H2.
Qed.
