(* Proof/Delivery_accept.v — the monitors of C31 hold on every observation the
   models produce: plan processing (coverage, offline-once, exact retries),
   PushOwner (partition), the plan queue (per-shard FIFO). *)
From WK Require Import Base.Base Gen.Consts_C31 Model.Delivery Model.Delivery_C31
     Proof.Delivery_queue Proof.Delivery_queue_pop
     Proof.Delivery_local Proof.Delivery_retry Proof.Delivery_cover Proof.Delivery_monitor.
From Coq Require Import Permutation.
Open Scope N_scope.

(* =============================================================== PushOwner *)

Theorem push_model_accepted c st : push_monitor (push_model c st) = true.
Proof.
  unfold push_model. destruct (ps_closed st); [reflexivity|].
  unfold local_attempt, pushOwnerLocal.
  destruct ((c_local c =? 0) || (a_owner (ps_obs st) =? 0) || negb (a_owner (ps_obs st) =? c_local c)).
  { reflexivity. }
  rewrite local_loop_lspec. unfold lres_app, lres0. cbn [l_acc l_retry l_drop l_writes l_cx app fst].
  unfold push_monitor. cbn [a_err a_acc a_retry a_drop a_routes a_writes N.eqb].
  set (s := lspec (c_has_writer c) (e_msgid (ps_ev st)) (a_owner (ps_obs st)) (a_routes (ps_obs st))
                  (ps_orc st) (ps_cx0 st)).
  apply andb_true_iff. split; [apply andb_true_iff; split|].
  - apply same_routes_perm. apply lspec_partition.
  - apply sub_routes_intro. intros x. apply lspec_writes_count.
  - apply routes_eqb_eq. apply lspec_acc.
Qed.

(* ==================================================================== plan *)

Lemma fold_add_acc l : forall a, fold_left N.add l a = a + fold_left N.add l 0.
Proof.
  induction l as [|x l IH]; intros a; simpl; [lia|].
  rewrite (IH (a + x)), (IH x). lia.
Qed.

Section Firsts.
Variables (c : cfg) (ev : event) (o : N).

Lemma firsts_sum bs firsts :
  Forall2 (first_of c ev o) bs firsts ->
  fold_left N.add (map obs_routes firsts) 0 = nlen (concat bs).
Proof.
  induction 1 as [|b a bs firsts Hf _ IH]; [reflexivity|].
  cbn [map fold_left concat]. rewrite fold_add_acc, IH.
  destruct Hf as (_ & _ & Hn & _). rewrite Hn. unfold nlen. rewrite app_length. lia.
Qed.

Lemma firsts_routes_remote bs firsts :
  Forall2 (first_of c ev o) bs firsts -> (o =? c_local c) = false ->
  concat (map att_routes firsts) = concat bs.
Proof.
  intros H Hl. induction H as [|b a bs firsts Hf _ IH]; [reflexivity|].
  cbn [map concat]. rewrite IH. f_equal.
  destruct Hf as (_ & Hloc & _ & Hr & _). rewrite Hl in Hloc.
  unfold att_routes. rewrite Hloc. apply Hr. exact Hloc.
Qed.

Lemma firsts_routes_local bs firsts :
  Forall2 (first_of c ev o) bs firsts -> (o =? c_local c) = true ->
  c_has_writer c = true -> (forall a, In a firsts -> att_cancel a = false) ->
  concat (map att_routes firsts) = filter (route_valid (e_msgid ev) o) (concat bs).
Proof.
  intros H Hl Hw Hc. induction H as [|b a bs firsts Hf _ IH]; [reflexivity|].
  cbn [map concat]. rewrite filter_app, IH by (intros a0 Ha0; apply Hc; right; exact Ha0). f_equal.
  destruct Hf as (_ & Hloc & _ & _ & Hr). rewrite Hl in Hloc.
  apply Hr; [exact Hloc| exact Hw| apply Hc; left; reflexivity].
Qed.

End Firsts.

(* what the theorem asks of the ports: the ACK tracker grants reservations
   (no per-session limit configured) and a remote owner reports as Retryable
   only routes of this plan that are addressed to it *)
Definition plan_contract (p : plan) (ans : list answer) (orc : N -> list oout) : Prop :=
  (forall o, orc_ok (orc o))
  /\ (forall o acc retry drop err, In (ORemote acc retry drop err) (orc o) ->
      forall r, In r retry ->
        In r (expected_routes (p_event p) (resolved_pairs (p_targets p) ans)) /\ r_owner r = o).

Lemma g_inv_nil ev : g_inv ev [] [].
Proof. constructor; [constructor| reflexivity| intros o []]. Qed.

Lemma existsb_false_in {A} (f : A -> bool) l x : existsb f l = false -> In x l -> f x = false.
Proof.
  intros H Hin. destruct (f x) eqn:E; [|reflexivity].
  assert (existsb f l = true) by (apply existsb_exists; exists x; auto). congruence.
Qed.

Theorem plan_model_accepted c p ans panic cx0 orc :
  plan_contract p ans orc ->
  plan_monitor c p ans panic cx0 (fst (processPlan c p ans panic orc cx0)) = true.
Proof.
  intros [OK RC]. unfold processPlan.
  destruct cx0.
  { unfold plan_monitor, effective_pairs. cbn [orb fst po_presence po_offline po_atts].
    unfold offline_ok, all_recips, expected_routes, exact_ok. cbn.
    rewrite orb_true_r. reflexivity. }
  destruct (c_has_presence c) eqn:Hp; cbn [negb].
  2:{ unfold plan_monitor, effective_pairs. rewrite Hp. cbn [orb negb fst po_presence po_offline po_atts].
      unfold offline_ok, all_recips, expected_routes, exact_ok. cbn.
      rewrite orb_true_r. reflexivity. }
  destruct panic.
  { unfold plan_monitor, effective_pairs. rewrite Hp. cbn [orb negb fst po_presence po_offline po_atts].
    unfold offline_ok, all_recips, expected_routes, exact_ok. cbn.
    rewrite orb_true_r. reflexivity. }
  set (ev := p_event p). set (pairs := resolved_pairs (p_targets p) ans).
  set (expected := expected_routes ev pairs).
  destruct (resolve_targets_spec (track_offline c p) ev (p_targets p) ans (Res 0 [] []) [] (g_inv_nil ev))
    as [GI OFF].
  cbn zeta in GI, OFF. cbn [rs_offline app] in GI, OFF. fold pairs in GI, OFF. fold expected in GI.
  unfold resolve_plan. fold ev.
  set (rs := resolve_targets (track_offline c p) ev (p_targets p) ans (Res 0 [] [])) in *.
  assert (KO : keys_ok (rs_groups rs)).
  { split; [exact (gi_nodup _ _ _ GI)|]. intros o Ho.
    pose proof (gi_keys _ _ _ GI o Ho) as Hne. split; [|exact Hne].
    rewrite (gi_get _ _ _ GI) in Hne.
    destruct (filter (fun r => r_owner r =? o) expected) as [|r l] eqn:Ef; [congruence|].
    assert (Hr : In r (filter (fun r => r_owner r =? o) expected)) by (rewrite Ef; left; reflexivity).
    apply filter_In in Hr. destruct Hr as [Hr1 Hr2]. apply N.eqb_eq in Hr2.
    unfold expected, expected_routes in Hr1. apply filter_In in Hr1. destruct Hr1 as [_ Hk].
    unfold keep_route in Hk. apply andb_true_iff in Hk. destruct Hk as [Hk _].
    apply negb_true_iff in Hk. apply N.eqb_neq in Hk. congruence. }
  destruct (run_owners c ev (rs_groups rs) orc false) as [[atts st] cx] eqn:ER.
  destruct (run_owners_facts c ev _ _ _ _ _ ER KO OK) as (Ccx & Cown & Cf).
  assert (RC' : forall o, In o (g_keys (rs_groups rs)) -> remote_contract (g_get o (rs_groups rs)) (orc o)).
  { intros o _ acc retry drop err Hin x Hx. rewrite (gi_get _ _ _ GI).
    destruct (RC o acc retry drop err Hin x Hx) as [A B].
    apply filter_In. split; [exact A| apply N.eqb_eq; exact B]. }
  pose proof (run_owners_incl c ev _ _ _ _ _ _ ER KO OK RC') as Cincl.
  cbn [fst]. unfold plan_monitor, effective_pairs. rewrite Hp.
  cbn [orb negb po_presence po_offline po_atts]. fold ev. fold pairs. fold expected.
  apply andb_true_iff. split; [apply andb_true_iff; split; [apply andb_true_iff; split|]|].
  - reflexivity.
  - rewrite OFF. apply (offline_ok_model (track_offline c p) pairs).
  - unfold exact_ok. apply forallb_forall. intros a Ha. apply forallb_forall. intros r Hr.
    rewrite Forall_forall in Cincl. destruct (Cincl a Ha) as [_ Ia].
    specialize (Ia r Hr). rewrite (gi_get _ _ _ GI) in Ia. apply filter_In in Ia.
    destruct Ia as [I1 I2]. rewrite I2. rewrite andb_true_r. apply mem_route_in. exact I1.
  - apply forallb_forall. intros o _. unfold owner_ok.
    destruct (Cf o) as (firsts & W & Wf). rewrite W. cbn [andb].
    rewrite <- Ccx. destruct cx; [reflexivity|]. cbn [orb].
    specialize (Wf eq_refl).
    assert (Hexp : filter (fun r => r_owner r =? o) expected = g_get o (rs_groups rs))
      by (symmetry; apply (gi_get _ _ _ GI)).
    rewrite Hexp.
    pose proof (chunks_concat (c_batch c) (g_get o (rs_groups rs)) (c_batch_pos c)) as Hcc.
    apply andb_true_iff. split.
    + rewrite (firsts_sum c ev o _ _ Wf), Hcc. apply N.eqb_refl.
    + destruct (o =? c_local c) eqn:Hl.
      * destruct (c_has_writer c) eqn:Hw; [|reflexivity]. cbn [negb orb].
        rewrite (firsts_routes_local c ev o _ _ Wf Hl Hw), Hcc; [apply same_routes_refl|].
        intros a Ha. symmetry in Ccx. apply (existsb_false_in att_cancel atts a Ccx).
        pose proof (walk_firsts_incl _ _ _ _ _ _ W a Ha) as Hin.
        unfold by_owner in Hin. apply filter_In in Hin. exact (proj1 Hin).
      * destruct (c_has_remote c); [|reflexivity]. cbn [negb orb].
        rewrite (firsts_routes_remote c ev o _ _ Wf Hl), Hcc. apply same_routes_refl.
Qed.
