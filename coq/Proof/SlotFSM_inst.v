(* Proof/SlotFSM_inst.v — the slot state machine of Model/SlotFSM.v satisfies the hypotheses
   of the overlay theorem (Proof/SlotFSM_machine.v) on the command family

     good_cmd:  noop | upsert_user (valid uid) | create_user | enter_fence | ack |
                apply_delta (valid replay key) of noop / upsert_user / create_user /
                enter_fence / ack / cleanup

   for EVERY runtime configuration (owned hash slots, legacy default, outgoing
   migrations), so that every batch partition of such a log gives the same per-command
   results, the same forwarded deltas and the same tables (users, channel-migration
   tables, hash-slot migration states, outbox, applied-delta records).  Not in the
   family, because the code that exists is not batch-transparent on them (refutations in
   Proof/SlotFSM_refuted.v): the channel-migration commands (C13-K1/K2/K3/K5) and the
   outbox cleanup command (C13-K4). *)
From WK Require Import Base.Base.
From WK Require Import Gen.Consts_C15 Gen.Consts_C17 Gen.Consts_C13.
From WK Require Import Model.RuntimeMeta Model.ChanMigration Model.SlotFSM Proof.SlotFSM_machine.
Open Scope N_scope.

(* ---- the family ------------------------------------------------------------------------------- *)

Definition inner_ok (hs : N) (c : hcmd) : bool :=
  match c with
  | HNoop => true
  | HUser create uid _ _ _ => create || validateKeyString uid
  | HFence h _ => h =? hs
  | HAck h _ _ _ | HCleanup h _ _ _ => (h =? 0) || (h =? hs)
  | _ => false
  end.

Definition good_hcmd (c : hcmd) : bool :=
  match c with
  | HNoop => true
  | HUser create uid _ _ _ => create || validateKeyString uid
  | HFence _ _ => true
  | HAck _ _ _ _ => true
  | HDelta s i h (Some o) => negb (s =? 0) && negb (i =? 0) && inner_ok h o
  | _ => false
  end.

Definition good_cmd (c : fcmd) : Prop := good_hcmd (fc_cmd c) = true.

Definition good_wop (o : wop) : Prop := match o with WCM _ _ => False | _ => True end.

(* equal up to the slot applied index *)
Definition store_eqv (a b : store) : Prop :=
  st_users a = st_users b /\ st_cm a = st_cm b /\ st_states a = st_states b
  /\ st_outbox a = st_outbox b /\ st_applied a = st_applied b.

Lemma store_eqv_refl s : store_eqv s s.
Proof. repeat split. Qed.
Lemma store_eqv_sym a b : store_eqv a b -> store_eqv b a.
Proof. intros (A & B & C & D & E). repeat split; congruence. Qed.
Lemma store_eqv_trans a b c : store_eqv a b -> store_eqv b c -> store_eqv a c.
Proof. intros (A & B & C & D & E) (A' & B' & C' & D' & E'). repeat split; congruence. Qed.

(* what the staging loop reads: the migration state of a hash slot and "was this delta applied" *)
Definition delta_seen (d : store) (b : bstate) (k : dkey) : bool :=
  dkey_mem k (bs_delta b) || dkey_mem k (st_applied d).

Definition agree (d : store) (b : bstate) (v : cstate_all) : Prop :=
  (forall hs, load_state d b hs = state_get (st_states (ca_pend v)) hs)
  /\ (forall k, delta_seen d b k = dkey_mem k (st_applied (ca_pend v))).

(* ---- lookups ------------------------------------------------------------------------------------- *)

Lemma state_get_del l h hs : state_get (state_del l h) hs = if h =? hs then None else state_get l hs.
Proof.
  induction l as [|x l IH]; cbn [state_del state_get].
  - destruct (h =? hs); reflexivity.
  - destruct (hs_hash_slot x =? h) eqn:E.
    + rewrite IH. apply N.eqb_eq in E. subst h. destruct (hs_hash_slot x =? hs); reflexivity.
    + cbn [state_get]. rewrite IH. destruct (hs_hash_slot x =? hs) eqn:E2; [|reflexivity].
      apply N.eqb_eq in E2. subst hs. rewrite N.eqb_sym, E. reflexivity.
Qed.

Lemma state_get_insert l x hs :
  state_get l (hs_hash_slot x) = None ->
  state_get (state_insert l x) hs = if hs_hash_slot x =? hs then Some x else state_get l hs.
Proof.
  induction l as [|y l IH]; intro Hn; cbn [state_insert state_get].
  - reflexivity.
  - cbn [state_get] in Hn. destruct (hs_hash_slot y =? hs_hash_slot x) eqn:Eyx; [discriminate|].
    destruct (hs_hash_slot x <? hs_hash_slot y).
    + cbn [state_get]. reflexivity.
    + cbn [state_get]. rewrite (IH Hn).
      destruct (hs_hash_slot y =? hs) eqn:E1; [|reflexivity].
      apply N.eqb_eq in E1. subst hs. rewrite N.eqb_sym, Eyx. reflexivity.
Qed.

Lemma state_get_put l x hs :
  state_get (state_put l x) hs = if hs_hash_slot x =? hs then Some x else state_get l hs.
Proof.
  unfold state_put. rewrite state_get_insert.
  - rewrite state_get_del. destruct (hs_hash_slot x =? hs); reflexivity.
  - rewrite state_get_del, N.eqb_refl. reflexivity.
Qed.

Lemma pend_get_del l h hs : pend_get (pend_del l h) hs = if h =? hs then None else pend_get l hs.
Proof.
  induction l as [|[k x] l IH]; cbn [pend_del pend_get].
  - destruct (h =? hs); reflexivity.
  - destruct (k =? h) eqn:E.
    + rewrite IH. apply N.eqb_eq in E. subst h. destruct (k =? hs); reflexivity.
    + cbn [pend_get]. rewrite IH. destruct (k =? hs) eqn:E2; [|reflexivity].
      apply N.eqb_eq in E2. subst hs. rewrite N.eqb_sym, E. reflexivity.
Qed.

Lemma pend_get_put l h x hs : pend_get (pend_put l h x) hs = if h =? hs then Some x else pend_get l hs.
Proof.
  unfold pend_put. cbn [pend_get]. rewrite pend_get_del. destruct (h =? hs); reflexivity.
Qed.

Lemma load_state_put d b h x hs :
  load_state d (set_bs_states b (pend_put (bs_states b) h x)) hs = if h =? hs then Some x else load_state d b hs.
Proof.
  unfold load_state, set_bs_states. cbn [bs_states]. rewrite pend_get_put. destruct (h =? hs); reflexivity.
Qed.

Lemma load_state_delta d b x hs : load_state d (set_bs_delta b x) hs = load_state d b hs.
Proof. reflexivity. Qed.

Lemma dkey_eqb_eq a b : dkey_eqb a b = true <-> a = b.
Proof.
  destruct a as [a1 a2 a3], b as [b1 b2 b3]. unfold dkey_eqb. cbn [dk_hs dk_src dk_idx].
  rewrite !andb_true_iff, !N.eqb_eq. split.
  - intros ((-> & ->) & ->). reflexivity.
  - intro H. inversion H. auto.
Qed.

Lemma dkey_eqb_refl a : dkey_eqb a a = true.
Proof. apply dkey_eqb_eq. reflexivity. Qed.

Lemma dkey_mem_insert l k k' : dkey_mem k (dkey_insert l k') = dkey_eqb k k' || dkey_mem k l.
Proof.
  induction l as [|y l IH]; cbn [dkey_insert].
  - unfold dkey_mem. cbn. reflexivity.
  - destruct (dkey_eqb k' y) eqn:E.
    + apply dkey_eqb_eq in E. subst y. unfold dkey_mem. cbn [existsb].
      destruct (dkey_eqb k k'); reflexivity.
    + destruct (dkey_ltb k' y).
      * unfold dkey_mem. cbn [existsb]. reflexivity.
      * unfold dkey_mem in *. cbn [existsb]. rewrite IH.
        destruct (dkey_eqb k y), (dkey_eqb k k'); reflexivity.
Qed.

(* ---- the effect of the good operations ------------------------------------------------------------- *)

Definition eff (p : store) (o : wop) : store :=
  match o with
  | WUser create u =>
      if create then
        match user_get (st_users p) (ur_hs u) (ur_uid u) with
        | Some _ => p
        | None => set_users p (user_put (st_users p) u)
        end
      else set_users p (user_put (st_users p) u)
  | WCM _ _ => p
  | WStateUpsert x => set_states p (state_put (st_states p) x)
  | WStateDelete hs => set_states p (state_del (st_states p) hs)
  | WMarkApplied k => set_applied p (dkey_insert (st_applied p) k)
  | WOutboxUpsert x => set_outbox p (outbox_put (st_outbox p) x)
  | WOutboxDelete hs s t i => set_outbox p (outbox_del (st_outbox p) hs s t i)
  | WOutboxDeleteThrough hs s t i => set_outbox p (outbox_del_through (st_outbox p) hs s t i)
  | WOutboxDeleteAll hs => set_outbox p (outbox_del_all (st_outbox p) hs)
  | WSetApplied i => set_applied_index p i
  end.

Lemma run_op_good d v o : good_wop o -> fsm_run_op d v o = OOk (CAll (eff (ca_pend v) o) (ca_cm v)).
Proof.
  intro G. destruct v as [p cm]. destruct o; cbn [fsm_run_op eff ca_pend ca_cm]; try reflexivity.
  - destruct create; [|reflexivity]. destruct (user_get (st_users p) (ur_hs u) (ur_uid u)); reflexivity.
  - contradiction.
Qed.

Lemma run_ops_good ops : forall d v,
    Forall good_wop ops ->
    run_ops fsm_run_op d v ops = OOk (CAll (fold_left eff ops (ca_pend v)) (ca_cm v)).
Proof.
  induction ops as [|o ops IH]; intros d v G; cbn [run_ops fold_left].
  - destruct v; reflexivity.
  - inversion G as [|? ? Go Gops]; subst. rewrite (run_op_good d v o Go). rewrite IH by assumption. reflexivity.
Qed.

Lemma eff_eqv p p' o : store_eqv p p' -> store_eqv (eff p o) (eff p' o).
Proof.
  intros (A & B & C & D & E). destruct o; cbn [eff]; try (repeat split; cbn; congruence).
  destruct create.
  - rewrite A. destruct (user_get (st_users p') (ur_hs u) (ur_uid u)); repeat split; cbn; congruence.
  - repeat split; cbn; congruence.
Qed.

(* components touched *)
Definition eff_states (l : list hs_state) (o : wop) : list hs_state :=
  match o with
  | WStateUpsert x => state_put l x
  | WStateDelete hs => state_del l hs
  | _ => l
  end.
Definition eff_applied (l : list dkey) (o : wop) : list dkey :=
  match o with WMarkApplied k => dkey_insert l k | _ => l end.

Lemma eff_states_ok p o : st_states (eff p o) = eff_states (st_states p) o.
Proof.
  destruct o; cbn [eff eff_states]; try reflexivity.
  destruct create; [|reflexivity]. destruct (user_get (st_users p) (ur_hs u) (ur_uid u)); reflexivity.
Qed.
Lemma eff_applied_ok p o : st_applied (eff p o) = eff_applied (st_applied p) o.
Proof.
  destruct o; cbn [eff eff_applied]; try reflexivity.
  destruct create; [|reflexivity]. destruct (user_get (st_users p) (ur_hs u) (ur_uid u)); reflexivity.
Qed.

Lemma fold_states ops : forall p, st_states (fold_left eff ops p) = fold_left eff_states ops (st_states p).
Proof. induction ops as [|o ops IH]; intro p; cbn [fold_left]; [reflexivity|]. rewrite IH, eff_states_ok. reflexivity. Qed.
Lemma fold_applied ops : forall p, st_applied (fold_left eff ops p) = fold_left eff_applied ops (st_applied p).
Proof. induction ops as [|o ops IH]; intro p; cbn [fold_left]; [reflexivity|]. rewrite IH, eff_applied_ok. reflexivity. Qed.

(* ---- hypotheses of the machine theorem ------------------------------------------------------------------ *)

Lemma fsm_H_init d : True /\ agree d bstate0 (fsm_v0 d) /\ fsm_flush d (fsm_v0 d) = d.
Proof.
  split; [exact I|]. split; [|reflexivity]. split.
  - intro hs. reflexivity.
  - intro k. reflexivity.
Qed.

Lemma fsm_H_op d v d' v' o :
  good_wop o -> True -> True -> store_eqv (fsm_flush d v) (fsm_flush d' v') ->
  sim_ores fsm_flush store_eqv (fun _ _ => True) d d' (fsm_run_op d v o) (fsm_run_op d' v' o).
Proof.
  intros G _ _ E. rewrite (run_op_good d v o G), (run_op_good d' v' o G). cbn.
  split; [|split; exact I]. apply eff_eqv. exact E.
Qed.

Lemma fsm_H_finish d v cs : True ->
  exists v', run_ops fsm_run_op d v (fsm_finish cs) = OOk v' /\ store_eqv (fsm_flush d v') (fsm_flush d v) /\ True.
Proof.
  intros _. unfold fsm_finish. destruct (rev cs) as [|c r].
  - exists v. cbn. split; [reflexivity|]. split; [apply store_eqv_refl|exact I].
  - destruct (fc_index c =? 0).
    + exists v. cbn. split; [reflexivity|]. split; [apply store_eqv_refl|exact I].
    + eexists. cbn [run_ops]. rewrite run_op_good by exact I. split; [reflexivity|].
      split; [|exact I]. cbn. repeat split.
Qed.

(* ---- staging, as a function of what it reads --------------------------------------------------------------- *)

(* loadOrCreateMigrationState / stageMigrationOutbox / stageMigrationFence / applyMigrationOutboxAck
   read the store and the staging state only through the migration state [lx] of the hash slot *)
Definition loc_view (cfg : fsm_cfg) (lx : option hs_state) (hs target : N) : hs_state * list wop :=
  let x := match lx with Some x => x | None => fresh_state cfg hs target end in
  if negb (hs_source x =? cfg_slot cfg) || negb (hs_target x =? target)
  then (fresh_state cfg hs target, [WStateDelete hs; WOutboxDeleteAll hs])
  else (x, []).

Lemma loc_eq cfg d b hs target :
  loadOrCreateMigrationState cfg d b hs target = loc_view cfg (load_state d b hs) hs target.
Proof. reflexivity. Qed.

Definition fenced_view (cfg : fsm_cfg) (lx : option hs_state) (hs : N) : bool :=
  match lx with
  | None => false
  | Some x =>
    if negb (hs_source x =? cfg_slot cfg) || (hs_fence_index x =? 0) then false
    else match mig_get (cfg_migs cfg) hs with
         | Some (target, _) => negb (negb (target =? 0) && negb (target =? hs_target x))
         | None => true
         end
  end.

Lemma fenced_eq cfg d b hs : isHashSlotFenced cfg d b hs = fenced_view cfg (load_state d b hs) hs.
Proof. reflexivity. Qed.

Definition outbox_view (cfg : fsm_cfg) (lx : option hs_state) (c : fcmd) (hs : N)
  : option (hs_state * list wop * list forward) :=
  if isApplyDelta (fc_cmd c) then None
  else
    match mig_get (cfg_migs cfg) hs with
    | None => None
    | Some (t, ph) =>
      if negb ((ph =? migrationPhaseDelta) || (ph =? migrationPhaseSwitching)) then None
      else
        let '(x, ops0) := loc_view cfg lx hs t in
        let x' := HsState (hs_hash_slot x) (hs_source x) (hs_target x) ph (hs_fence_index x)
                          (maxN (hs_last_outbox x) (fc_index c)) (hs_last_acked x) in
        Some (x', ops0 ++ [WOutboxUpsert (Outbox hs (cfg_slot cfg) t (fc_index c) (fc_data c)); WStateUpsert x'],
              [Forward t hs (fc_index c) (fc_data c)])
    end.

Definition upd_b (b : bstate) (hs : N) (u : option hs_state) : bstate :=
  match u with
  | Some x => set_bs_states b (pend_put (bs_states b) hs x)
  | None => b
  end.

Lemma outbox_eq cfg d b c hs :
  stageMigrationOutbox cfg d b c hs =
  match outbox_view cfg (load_state d b hs) c hs with
  | None => (b, [], [])
  | Some (x', ops, fw) => (upd_b b hs (Some x'), ops, fw)
  end.
Proof.
  unfold stageMigrationOutbox, outbox_view. destruct (isApplyDelta (fc_cmd c)); [reflexivity|].
  destruct (mig_get (cfg_migs cfg) hs) as [[t ph]|]; [|reflexivity].
  destruct (negb ((ph =? migrationPhaseDelta) || (ph =? migrationPhaseSwitching))); [reflexivity|].
  rewrite loc_eq. destruct (loc_view cfg (load_state d b hs) hs t) as [x ops0]. reflexivity.
Qed.

Definition fence_view (cfg : fsm_cfg) (lx : option hs_state) (c : fcmd) (hs target : N)
  : option (option hs_state * list wop * list forward) :=
  match migrationForFence cfg hs target with
  | None => None
  | Some (t, ph) =>
    if t =? 0 then None
    else
      let '(x, ops0) := loc_view cfg lx hs t in
      if negb (hs_fence_index x =? 0) then Some (None, ops0, [])
      else
        let x' := HsState (hs_hash_slot x) (hs_source x) (hs_target x) migrationPhaseSwitching (fc_index c)
                          (maxN (hs_last_outbox x) (fc_index c)) (hs_last_acked x) in
        Some (Some x', ops0 ++ [WOutboxUpsert (Outbox hs (cfg_slot cfg) t (fc_index c) (fc_data c)); WStateUpsert x'],
              if ph <? migrationPhaseDelta then [] else [Forward t hs (fc_index c) (fc_data c)])
  end.

Lemma fence_eq cfg d b c hs target :
  stageMigrationFence cfg d b c hs target =
  match fence_view cfg (load_state d b hs) c hs target with
  | None => None
  | Some (u, ops, fw) => Some (upd_b b hs u, ops, fw)
  end.
Proof.
  unfold stageMigrationFence, fence_view. destruct (migrationForFence cfg hs target) as [[t ph]|]; [|reflexivity].
  destruct (t =? 0); [reflexivity|]. rewrite loc_eq.
  destruct (loc_view cfg (load_state d b hs) hs t) as [x ops0].
  destruct (negb (hs_fence_index x =? 0)); reflexivity.
Qed.

Definition ack_view (cfg : fsm_cfg) (lx : option hs_state) (hashSlot hs src tgt idx : N)
  : option (option hs_state * list wop) :=
  if negb (hs =? hashSlot) || negb (src =? cfg_slot cfg) || (tgt =? 0) || (idx =? 0) then None
  else
    match lx with
    | None => Some (None, [])
    | Some x =>
      if negb (hs_source x =? src) || negb (hs_target x =? tgt) || (hs_last_outbox x <? idx) then Some (None, [])
      else
        let x' := if hs_last_acked x <? idx then set_acked x idx else x in
        Some (Some x', [WStateUpsert x'; WOutboxDelete hashSlot src tgt idx])
    end.

Lemma ack_eq cfg d b hashSlot hs src tgt idx :
  applyMigrationOutboxAck cfg d b hashSlot hs src tgt idx =
  match ack_view cfg (load_state d b hashSlot) hashSlot hs src tgt idx with
  | None => None
  | Some (u, ops) => Some (upd_b b hashSlot u, ops)
  end.
Proof.
  unfold applyMigrationOutboxAck, ack_view.
  destruct (negb (hs =? hashSlot) || negb (src =? cfg_slot cfg) || (tgt =? 0) || (idx =? 0)); [reflexivity|].
  destruct (load_state d b hashSlot) as [x|]; [|reflexivity].
  destruct (negb (hs_source x =? src) || negb (hs_target x =? tgt) || (hs_last_outbox x <? idx)); reflexivity.
Qed.

(* the operations a good command's own apply stages *)
Definition plain_ops (hs : N) (c : hcmd) : list wop :=
  match c with
  | HUser create uid token flag level => [WUser create (URow hs uid token flag level)]
  | _ => []
  end.

Lemma plain_apply_inner b hs o : inner_ok hs o = true -> cmd_apply_plain b hs o = AOk b (plain_ops hs o).
Proof.
  destruct o; cbn [inner_ok cmd_apply_plain plain_ops]; intro H; try discriminate; try reflexivity.
  - destruct create; [reflexivity|]. cbn in H. rewrite H. reflexivity.
  - rewrite H. reflexivity.
  - apply orb_true_iff in H. destruct H as [H|H]; rewrite H; cbn; [reflexivity|].
    destruct (negb (hash_slot =? 0)); reflexivity.
  - apply orb_true_iff in H. destruct H as [H|H]; rewrite H; cbn; [reflexivity|].
    destruct (negb (hash_slot =? 0)); reflexivity.
Qed.

(* one loop iteration on a good command, in terms of the two reads *)
Inductive spec_res :=
| PFatal (e : N)
| PDone (key : option dkey) (upd : option hs_state) (ops : list wop) (r : fres).

Definition stage_spec (cfg : fsm_cfg) (L : N -> option hs_state) (M : dkey -> bool) (c : fcmd) : spec_res :=
  if negb (fc_slot_ok c) then PFatal E_INVALID
  else
    match resolveHashSlot cfg c with
    | None => PFatal E_INVALID
    | Some hs =>
      match fc_cmd c with
      | HAck h s t i =>
          match ack_view cfg (L hs) hs h s t i with
          | None => PFatal E_INVALID
          | Some (u, ops) => PDone None u ops (R_OK, [])
          end
      | HFence h target =>
          if h =? hs then
            match fence_view cfg (L hs) c hs target with
            | None => PFatal E_INVALID
            | Some (u, ops, fw) => PDone None u ops (R_OK, fw)
            end
          else PFatal E_INVALID
      | HDelta s i _ (Some o) =>
          if M (DKey hs s i) then PDone None None [] (R_OK, [])
          else PDone (Some (DKey hs s i)) None (plain_ops hs o ++ [WMarkApplied (DKey hs s i)]) (R_OK, [])
      | k =>
          if fenced_view cfg (L hs) hs then PDone None None [] (R_FENCED, [])
          else
            match outbox_view cfg (L hs) c hs with
            | None => PDone None None (plain_ops hs k) (R_OK, [])
            | Some (x', ops, fw) => PDone None (Some x') (plain_ops hs k ++ ops) (R_OK, fw)
            end
      end
    end.

Definition hs_of (cfg : fsm_cfg) (c : fcmd) : N := match resolveHashSlot cfg c with Some hs => hs | None => 0 end.

Definition lift_spec (cfg : fsm_cfg) (b : bstate) (c : fcmd) (r : spec_res) : @sres bstate wop fres :=
  match r with
  | PFatal e => SFatal e
  | PDone key upd ops res =>
      let b1 := match key with Some k => set_bs_delta b (k :: bs_delta b) | None => b end in
      SDone (upd_b b1 (hs_of cfg c) upd) ops res
  end.

Lemma stage_good_eq cfg d b c :
  good_cmd c ->
  fsm_stage cfg d b c = lift_spec cfg b c (stage_spec cfg (load_state d b) (delta_seen d b) c).
Proof.
  unfold good_cmd. intro G. unfold fsm_stage, stage_spec, lift_spec, hs_of.
  destruct (negb (fc_slot_ok c)); [reflexivity|].
  destruct (resolveHashSlot cfg c) as [hs|] eqn:R; [|reflexivity].
  destruct (fc_cmd c) as [|create uid token flag level|cm|s i h orig|h target|h s t i|h s t i|k] eqn:K;
    cbn [good_hcmd] in G; try discriminate.
  - (* noop *)
    cbn [isMigrationMaintenanceCommand negb andb]. rewrite fenced_eq.
    destruct (fenced_view cfg (load_state d b hs) hs); [reflexivity|].
    cbn [cmd_apply cmd_apply_plain plain_ops app]. rewrite outbox_eq.
    destruct (outbox_view cfg (load_state d b hs) c hs) as [[[x' ops] fw]|]; reflexivity.
  - (* user *)
    cbn [isMigrationMaintenanceCommand negb andb]. rewrite fenced_eq.
    destruct (fenced_view cfg (load_state d b hs) hs); [reflexivity|].
    cbn [cmd_apply cmd_apply_plain plain_ops].
    assert (Hap : (if create then AOk b [WUser true (URow hs uid token flag level)]
                   else if validateKeyString uid then AOk b [WUser false (URow hs uid token flag level)]
                        else AFatal E_INVALID) = AOk b [WUser create (URow hs uid token flag level)]).
    { destruct create; [reflexivity|]. cbn in G. rewrite G. reflexivity. }
    rewrite Hap. rewrite outbox_eq.
    destruct (outbox_view cfg (load_state d b hs) c hs) as [[[x' ops] fw]|]; reflexivity.
  - (* delta *)
    destruct orig as [o|]; [|discriminate].
    apply andb_true_iff in G. destruct G as (G1 & Gi). apply andb_true_iff in G1. destruct G1 as (Gs & Gidx).
    cbn [isMigrationMaintenanceCommand negb andb].
    assert (Hh : h = hs).
    { unfold resolveHashSlot in R. rewrite K in R. destruct (h =? fc_hs c); inversion R. reflexivity. }
    subst h. unfold delta_seen.
    destruct (dkey_mem (DKey hs s i) (bs_delta b)) eqn:Pm; cbn [orb].
    + reflexivity.
    + cbn [dk_src dk_idx]. apply negb_true_iff in Gs, Gidx. rewrite Gs, Gidx. cbn [orb].
      destruct (dkey_mem (DKey hs s i) (st_applied d)); [reflexivity|].
      cbn [cmd_apply]. rewrite N.eqb_refl. cbn [negb].
      rewrite (plain_apply_inner b hs o Gi).
      unfold stageMigrationOutbox. rewrite K. cbn [isApplyDelta]. reflexivity.
  - (* fence *)
    cbn [isMigrationMaintenanceCommand negb andb].
    cbn [cmd_apply cmd_apply_plain].
    destruct (h =? hs); [|reflexivity].
    rewrite fence_eq.
    destruct (fence_view cfg (load_state d b hs) c hs target) as [[[u ops] fw]|]; reflexivity.
  - (* ack *)
    cbn [isMigrationMaintenanceCommand negb andb]. rewrite ack_eq.
    destruct (ack_view cfg (load_state d b hs) hs h s t i) as [[u ops]|]; reflexivity.
Qed.

(* ---- the spec reads L and M only where it says; its failures are static -------------------------------------- *)

Lemma spec_ext cfg L M L' M' c :
  (forall hs, L hs = L' hs) -> (forall k, M k = M' k) -> stage_spec cfg L M c = stage_spec cfg L' M' c.
Proof.
  intros HL HM. unfold stage_spec.
  destruct (negb (fc_slot_ok c)); [reflexivity|].
  destruct (resolveHashSlot cfg c) as [hs|]; [|reflexivity].
  rewrite <- (HL hs). destruct (fc_cmd c) as [| | |s i h [o|]| | | |]; try reflexivity.
  rewrite <- HM. reflexivity.
Qed.

Lemma ack_view_none cfg lx lx' hashSlot hs src tgt idx :
  ack_view cfg lx hashSlot hs src tgt idx = None -> ack_view cfg lx' hashSlot hs src tgt idx = None.
Proof.
  unfold ack_view.
  destruct (negb (hs =? hashSlot) || negb (src =? cfg_slot cfg) || (tgt =? 0) || (idx =? 0)); [reflexivity|].
  destruct lx as [x|]; [|discriminate].
  destruct (negb (hs_source x =? src) || negb (hs_target x =? tgt) || (hs_last_outbox x <? idx)); discriminate.
Qed.

Lemma fence_view_none cfg lx lx' c hs target :
  fence_view cfg lx c hs target = None -> fence_view cfg lx' c hs target = None.
Proof.
  unfold fence_view. destruct (migrationForFence cfg hs target) as [[t ph]|]; [|reflexivity].
  destruct (t =? 0); [reflexivity|].
  destruct (loc_view cfg lx hs t) as [x ops0]. destruct (negb (hs_fence_index x =? 0)); discriminate.
Qed.

Lemma spec_fatal_static cfg L M L' M' c e :
  stage_spec cfg L M c = PFatal e -> stage_spec cfg L' M' c = PFatal e.
Proof.
  unfold stage_spec.
  destruct (negb (fc_slot_ok c)); [auto|].
  destruct (resolveHashSlot cfg c) as [hs|]; [|auto].
  destruct (fc_cmd c) as [|create uid token flag level|cm|s i h [o|]|h target|h s t i|h s t i|k].
  all: try (destruct (fenced_view cfg (L hs) hs); [discriminate|];
            destruct (outbox_view cfg (L hs) c hs) as [[[? ?] ?]|]; discriminate).
  - destruct (M (DKey hs s i)); discriminate.
  - destruct (h =? hs); [|auto].
    destruct (fence_view cfg (L hs) c hs target) as [[[u ops] fw]|] eqn:F; [discriminate|].
    intro H. rewrite (fence_view_none cfg (L hs) (L' hs) c hs target F). exact H.
  - destruct (ack_view cfg (L hs) hs h s t i) as [[u ops]|] eqn:A; [discriminate|].
    intro H. rewrite (ack_view_none cfg (L hs) (L' hs) hs h s t i A). exact H.
Qed.

Lemma fsm_H_fatal cfg d b c e :
  good_cmd c -> fsm_stage cfg d b c = SFatal e -> forall d' b', fsm_stage cfg d' b' c = SFatal e.
Proof.
  intros G H d' b'. rewrite (stage_good_eq cfg d b c G) in H. rewrite (stage_good_eq cfg d' b' c G).
  destruct (stage_spec cfg (load_state d b) (delta_seen d b) c) as [e0|key upd ops r] eqn:S; [|discriminate].
  cbn in H. inversion H; subst e0.
  rewrite (spec_fatal_static cfg _ _ (load_state d' b') (delta_seen d' b') c e S). reflexivity.
Qed.

(* ---- the effect of the staged operations on what staging reads ----------------------------------------------------- *)

Lemma state_get_key l hs x : state_get l hs = Some x -> hs_hash_slot x = hs.
Proof.
  induction l as [|y l IH]; cbn [state_get]; [discriminate|].
  destruct (hs_hash_slot y =? hs) eqn:E; [|exact IH].
  intro H. inversion H; subst. apply N.eqb_eq. exact E.
Qed.

Lemma fold_app {A B} (f : A -> B -> A) l1 l2 a : fold_left f (l1 ++ l2) a = fold_left f l2 (fold_left f l1 a).
Proof. apply fold_left_app. Qed.

Lemma plain_ops_states hs k sts : fold_left eff_states (plain_ops hs k) sts = sts.
Proof. destruct k; reflexivity. Qed.
Lemma plain_ops_applied hs k apl : fold_left eff_applied (plain_ops hs k) apl = apl.
Proof. destruct k; reflexivity. Qed.
Lemma plain_ops_good hs k : Forall good_wop (plain_ops hs k).
Proof. destruct k; cbn; repeat constructor. Qed.

(* loc_view: the state it continues with belongs to the hash slot; its operations only delete that row *)
Lemma loc_view_spec cfg sts hs t x ops0 :
  loc_view cfg (state_get sts hs) hs t = (x, ops0) ->
  hs_hash_slot x = hs
  /\ Forall good_wop ops0
  /\ (forall apl, fold_left eff_applied ops0 apl = apl)
  /\ (forall hs', (hs =? hs') = false -> state_get (fold_left eff_states ops0 sts) hs' = state_get sts hs')
  /\ (ops0 = [] \/ hs_fence_index x = 0).
Proof.
  unfold loc_view. intro H.
  destruct (state_get sts hs) as [y|] eqn:Y.
  - destruct (negb (hs_source y =? cfg_slot cfg) || negb (hs_target y =? t)); inversion H; subst; clear H.
    + cbn. split; [reflexivity|]. split; [repeat constructor|]. split; [reflexivity|]. split; [|right; reflexivity].
      intros hs' E. rewrite state_get_del, E. reflexivity.
    + split; [exact (state_get_key _ _ _ Y)|]. split; [constructor|]. split; [reflexivity|].
      split; [reflexivity|left; reflexivity].
  - cbn [fresh_state hs_source hs_target] in H.
    destruct (negb (cfg_slot cfg =? cfg_slot cfg) || negb (t =? t)); inversion H; subst; clear H.
    + cbn. split; [reflexivity|]. split; [repeat constructor|]. split; [reflexivity|]. split; [|right; reflexivity].
      intros hs' E. rewrite state_get_del, E. reflexivity.
    + cbn. split; [reflexivity|]. split; [constructor|]. split; [reflexivity|].
      split; [reflexivity|left; reflexivity].
Qed.

(* what a staged (upd, ops) pair must do to the migration-state table *)
Definition upd_ok (sts : list hs_state) (hs : N) (upd : option hs_state) (ops : list wop) : Prop :=
  Forall good_wop ops
  /\ (forall apl, fold_left eff_applied ops apl = apl)
  /\ (forall hs', state_get (fold_left eff_states ops sts) hs' =
                  match upd with
                  | Some x' => if hs =? hs' then Some x' else state_get sts hs'
                  | None => state_get sts hs'
                  end).

Lemma tail_upsert sts hs x' ops0 o :
  hs_hash_slot x' = hs ->
  good_wop o -> eff_states = eff_states -> (forall l, eff_states l o = l) -> (forall l, eff_applied l o = l) ->
  Forall good_wop ops0 ->
  (forall apl, fold_left eff_applied ops0 apl = apl) ->
  (forall hs', (hs =? hs') = false -> state_get (fold_left eff_states ops0 sts) hs' = state_get sts hs') ->
  upd_ok sts hs (Some x') (ops0 ++ [o; WStateUpsert x']).
Proof.
  intros Hk Go _ Hos Hoa G0 A0 S0. split; [|split].
  - apply Forall_app. split; [assumption|]. repeat constructor. exact Go.
  - intro apl. rewrite fold_app, A0. cbn [fold_left]. rewrite Hoa. reflexivity.
  - intro hs'. rewrite fold_app. cbn [fold_left]. rewrite Hos. cbn [eff_states].
    rewrite state_get_put, Hk. destruct (hs =? hs') eqn:E; [reflexivity|]. apply S0. exact E.
Qed.

Lemma outbox_view_ok cfg sts c hs x' ops fw :
  outbox_view cfg (state_get sts hs) c hs = Some (x', ops, fw) -> upd_ok sts hs (Some x') ops.
Proof.
  unfold outbox_view. destruct (isApplyDelta (fc_cmd c)); [discriminate|].
  destruct (mig_get (cfg_migs cfg) hs) as [[t ph]|]; [|discriminate].
  destruct (negb ((ph =? migrationPhaseDelta) || (ph =? migrationPhaseSwitching))); [discriminate|].
  destruct (loc_view cfg (state_get sts hs) hs t) as [x ops0] eqn:Lv. intro H. inversion H; subst; clear H.
  destruct (loc_view_spec cfg sts hs t x ops0 Lv) as (Hk & G0 & A0 & S0 & _).
  apply tail_upsert; auto; try exact I; reflexivity.
Qed.

Lemma fence_view_ok cfg sts c hs target u ops fw :
  fence_view cfg (state_get sts hs) c hs target = Some (u, ops, fw) -> upd_ok sts hs u ops.
Proof.
  unfold fence_view. destruct (migrationForFence cfg hs target) as [[t ph]|]; [|discriminate].
  destruct (t =? 0); [discriminate|].
  destruct (loc_view cfg (state_get sts hs) hs t) as [x ops0] eqn:Lv.
  destruct (loc_view_spec cfg sts hs t x ops0 Lv) as (Hk & G0 & A0 & S0 & Hz).
  destruct (negb (hs_fence_index x =? 0)) eqn:F; intro H; inversion H; subst; clear H.
  - destruct Hz as [->|Hz].
    + split; [constructor|]. split; reflexivity.
    + rewrite Hz in F. discriminate.
  - apply tail_upsert; auto; try exact I; reflexivity.
Qed.

Lemma ack_view_ok cfg sts hashSlot hs src tgt idx u ops :
  ack_view cfg (state_get sts hashSlot) hashSlot hs src tgt idx = Some (u, ops) -> upd_ok sts hashSlot u ops.
Proof.
  unfold ack_view.
  destruct (negb (hs =? hashSlot) || negb (src =? cfg_slot cfg) || (tgt =? 0) || (idx =? 0)); [discriminate|].
  destruct (state_get sts hashSlot) as [x|] eqn:X.
  - destruct (negb (hs_source x =? src) || negb (hs_target x =? tgt) || (hs_last_outbox x <? idx));
      intro H; inversion H; subst; clear H.
    + split; [constructor|]. split; reflexivity.
    + pose proof (state_get_key _ _ _ X) as Hk.
      assert (Hk' : hs_hash_slot (if hs_last_acked x <? idx then set_acked x idx else x) = hashSlot).
      { destruct (hs_last_acked x <? idx); exact Hk. }
      split; [repeat constructor|]. split; [reflexivity|].
      intro hs'. cbn [fold_left eff_states]. rewrite state_get_put, Hk'. reflexivity.
  - intro H. inversion H; subst. split; [constructor|]. split; reflexivity.
Qed.

(* the effect of a staged iteration on the two tables staging reads *)
Lemma plain_branch_effect cfg sts apl c hs k key upd ops r :
  (if fenced_view cfg (state_get sts hs) hs then PDone None None [] (R_FENCED, [])
   else match outbox_view cfg (state_get sts hs) c hs with
        | None => PDone None None (plain_ops hs k) (R_OK, [])
        | Some (x', ops, fw) => PDone None (Some x') (plain_ops hs k ++ ops) (R_OK, fw)
        end) = PDone key upd ops r ->
  Forall good_wop ops
  /\ (forall hs', state_get (fold_left eff_states ops sts) hs' =
                  match upd with Some x' => if hs =? hs' then Some x' else state_get sts hs'
                               | None => state_get sts hs' end)
  /\ fold_left eff_applied ops apl = match key with Some k => dkey_insert apl k | None => apl end.
Proof.
  intro S. destruct (fenced_view cfg (state_get sts hs) hs).
  - inversion S; subst. split; [constructor|split; reflexivity].
  - destruct (outbox_view cfg (state_get sts hs) c hs) as [[[x' ops'] fw]|] eqn:Ov; inversion S; subst; clear S.
    + destruct (outbox_view_ok cfg sts c hs x' ops' fw Ov) as (G & A & St).
      split; [apply Forall_app; split; [apply plain_ops_good|exact G]|].
      split; [intro hs'; rewrite fold_app, plain_ops_states; apply St
             |rewrite fold_app, plain_ops_applied; apply A].
    + split; [apply plain_ops_good|split; [intro hs'; rewrite plain_ops_states; reflexivity
                                         |rewrite plain_ops_applied; reflexivity]].
Qed.

Lemma spec_effect cfg L M sts apl c key upd ops r hs :
  (forall h, L h = state_get sts h) ->
  resolveHashSlot cfg c = Some hs ->
  stage_spec cfg L M c = PDone key upd ops r ->
  Forall good_wop ops
  /\ (forall hs', state_get (fold_left eff_states ops sts) hs' =
                  match upd with Some x' => if hs =? hs' then Some x' else state_get sts hs'
                               | None => state_get sts hs' end)
  /\ fold_left eff_applied ops apl = match key with Some k => dkey_insert apl k | None => apl end.
Proof.
  intros AL R S. unfold stage_spec in S. destruct (negb (fc_slot_ok c)); [discriminate|]. rewrite R in S.
  rewrite (AL hs) in S.
  destruct (fc_cmd c) as [|create uid token flag level|cm|s i h [o|]|h target|h s t i|h s t i|k] eqn:K.
  all: try exact (plain_branch_effect cfg sts apl c hs _ key upd ops r S).
  - (* delta *)
    destruct (M (DKey hs s i)); inversion S; subst; clear S.
    + split; [constructor|split; reflexivity].
    + split; [apply Forall_app; split; [apply plain_ops_good|repeat constructor]|].
      split; [intro hs'; rewrite fold_app, plain_ops_states; reflexivity|].
      rewrite fold_app, plain_ops_applied. reflexivity.
  - (* fence *)
    destruct (h =? hs); [|discriminate].
    destruct (fence_view cfg (state_get sts hs) c hs target) as [[[u ops'] fw]|] eqn:Fv; inversion S; subst; clear S.
    destruct (fence_view_ok cfg sts c hs target upd ops fw Fv) as (G & A & St).
    split; [exact G|]. split; [exact St|apply A].
  - (* ack *)
    destruct (ack_view cfg (state_get sts hs) hs h s t i) as [[u ops']|] eqn:Av; inversion S; subst; clear S.
    destruct (ack_view_ok cfg sts hs h s t i upd ops Av) as (G & A & St).
    split; [exact G|]. split; [exact St|apply A].
Qed.

(* a staged iteration keeps the staging state and the commit overlay in agreement *)
Lemma spec_agree cfg d b v c key upd ops r :
  agree d b v ->
  stage_spec cfg (load_state d b) (delta_seen d b) c = PDone key upd ops r ->
  Forall good_wop ops
  /\ forall v', run_ops fsm_run_op d v ops = OOk v' ->
     agree d (upd_b (match key with Some k => set_bs_delta b (k :: bs_delta b) | None => b end) (hs_of cfg c) upd) v'.
Proof.
  intros (AL & AM) S.
  assert (R : exists hs, resolveHashSlot cfg c = Some hs).
  { unfold stage_spec in S. destruct (negb (fc_slot_ok c)); [discriminate|].
    destruct (resolveHashSlot cfg c) as [hs|]; [eauto|discriminate]. }
  destruct R as (hs & R).
  destruct (spec_effect cfg _ _ (st_states (ca_pend v)) (st_applied (ca_pend v)) c key upd ops r hs AL R S) as (G & St & Ap).
  split; [exact G|]. intros v' Hrun. rewrite (run_ops_good ops d v G) in Hrun. inversion Hrun; subst v'. clear Hrun.
  unfold agree. cbn [ca_pend]. rewrite fold_states, fold_applied. unfold hs_of. rewrite R.
  split.
  - intro hs'. rewrite St.
    destruct upd as [x'|]; cbn [upd_b].
    + rewrite load_state_put. destruct (hs =? hs'); [reflexivity|].
      destruct key; cbn; apply AL.
    + destruct key; cbn; apply AL.
  - intro k. rewrite Ap. unfold delta_seen.
    assert (Hb : bs_delta (upd_b (match key with Some k0 => set_bs_delta b (k0 :: bs_delta b) | None => b end) hs upd)
                 = match key with Some k0 => k0 :: bs_delta b | None => bs_delta b end).
    { destruct upd, key; reflexivity. }
    rewrite Hb. destruct key as [k0|].
    + rewrite dkey_mem_insert. unfold dkey_mem at 1. cbn [existsb]. fold (dkey_mem k (bs_delta b)).
      rewrite <- orb_assoc. f_equal. apply AM.
    + apply AM.
Qed.

Lemma fsm_H_stage cfg d b v d1 c :
  good_cmd c -> True -> agree d b v -> store_eqv d1 (fsm_flush d v) ->
  match fsm_stage cfg d b c, fsm_stage cfg d1 bstate0 c with
  | SFatal e, SFatal e' => e = e'
  | SDone b' ops r, SDone _ ops' r' =>
      ops = ops' /\ r = r' /\ Forall good_wop ops /\
      (forall v', run_ops fsm_run_op d v ops = OOk v' -> agree d b' v')
  | _, _ => False
  end.
Proof.
  intros G _ A E. rewrite (stage_good_eq cfg d b c G), (stage_good_eq cfg d1 bstate0 c G).
  destruct A as (AL & AM). destruct E as (_ & _ & Es & _ & Ea). unfold fsm_flush in Es, Ea.
  assert (X : stage_spec cfg (load_state d1 bstate0) (delta_seen d1 bstate0) c
              = stage_spec cfg (load_state d b) (delta_seen d b) c).
  { apply spec_ext.
    - intro hs. rewrite AL. unfold load_state. cbn. rewrite Es. reflexivity.
    - intro k. rewrite AM. unfold delta_seen. cbn. rewrite Ea. reflexivity. }
  rewrite X.
  destruct (stage_spec cfg (load_state d b) (delta_seen d b) c) as [e|key upd ops r] eqn:S; cbn [lift_spec].
  - reflexivity.
  - destruct (spec_agree cfg d b v c key upd ops r (conj AL AM) S) as (Gops & Hag).
    split; [reflexivity|]. split; [reflexivity|]. split; [exact Gops|exact Hag].
Qed.

(* ---- the theorems for the slot state machine ------------------------------------------------------------------------------ *)

Section Instance.
  Variable cfg : fsm_cfg.

  Theorem fsm_batch_eq_singles d cs d' rs :
    Forall good_cmd cs ->
    fsm_apply_batch cfg d cs = (d', BRes rs) ->
    exists d'', fsm_apply_individually cfg d cs = (d'', BRes rs) /\ store_eqv d'' d'.
  Proof.
    unfold fsm_apply_batch, fsm_apply_individually.
    apply (machine_batch_eq_singles (fsm_stage cfg) bstate0 fsm_finish fsm_v0 fsm_run_op fsm_flush (R_STALE, [])
             store_eqv store_eqv_refl store_eqv_sym store_eqv_trans good_cmd good_wop (fun _ _ => True) agree
             fsm_H_init fsm_H_op (fsm_H_stage cfg) fsm_H_finish).
  Qed.

  Theorem fsm_fatal_agrees d cs d' e :
    Forall good_cmd cs ->
    fsm_apply_batch cfg d cs = (d', BErr e) ->
    exists d'' e', fsm_apply_individually cfg d cs = (d'', BErr e') /\ (d' = d \/ d' = d'').
  Proof.
    unfold fsm_apply_batch, fsm_apply_individually.
    apply (machine_fatal_agrees (fsm_stage cfg) bstate0 fsm_finish fsm_v0 fsm_run_op fsm_flush (R_STALE, [])
             store_eqv store_eqv_refl store_eqv_trans good_cmd good_wop (fun _ _ => True) agree
             fsm_H_init fsm_H_op (fsm_H_stage cfg) (fsm_H_fatal cfg) fsm_H_finish).
  Qed.

  Theorem fsm_partition_invariant bs d d' rs :
    Forall good_cmd (concat bs) ->
    fsm_apply_individually cfg d (concat bs) = (d', BRes rs) ->
    exists d'' outs, fsm_apply_partition cfg d bs = (d'', outs) /\ all_results outs = Some rs /\ store_eqv d'' d'.
  Proof.
    unfold fsm_apply_partition, fsm_apply_individually.
    apply (machine_partition_invariant (fsm_stage cfg) bstate0 fsm_finish fsm_v0 fsm_run_op fsm_flush (R_STALE, [])
             store_eqv store_eqv_refl store_eqv_sym store_eqv_trans good_cmd good_wop (fun _ _ => True) agree
             fsm_H_init fsm_H_op (fsm_H_stage cfg) (fsm_H_fatal cfg) fsm_H_finish).
  Qed.
End Instance.

(* the slot state machine is an overlay machine on the good commands, whatever its configuration *)
Theorem fsm_overlay_machine cfg :
  overlay_machine (fsm_stage cfg) bstate0 fsm_finish fsm_v0 fsm_run_op fsm_flush
                  store_eqv good_cmd good_wop (fun _ _ => True) agree.
Proof.
  unfold overlay_machine.
  split; [exact store_eqv_refl|]. split; [exact store_eqv_sym|]. split; [exact store_eqv_trans|].
  split; [exact fsm_H_init|]. split; [exact fsm_H_op|]. split; [exact (fsm_H_stage cfg)|].
  split; [exact (fsm_H_fatal cfg)|exact fsm_H_finish].
Qed.
