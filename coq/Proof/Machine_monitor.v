(* Proof/Machine_monitor.v — the boolean monitor of Model/Machine.v accepts every trace of the
   model, and any trace the monitor accepts answers each op id at most as often as it was
   admitted (C06). *)
From WK Require Import Base.Base Gen.Consts_C06 Model.Machine Proof.Machine Proof.Machine_steps
     Proof.Machine_trans.
Open Scope N_scope.

(* ---- reflexivity of the boolean equalities -------------------------------------------------------- *)
Lemma list_eqb_refl {A} (eqb : A -> A -> bool) (H : forall x, eqb x x = true) l : list_eqb eqb l l = true.
Proof. induction l as [|x l IH]; cbn [list_eqb]; [reflexivity|]. rewrite H, IH. reflexivity. Qed.

Lemma pair_eqb_refl p : pair_eqb p p = true.
Proof. unfold pair_eqb. rewrite !N.eqb_refl. reflexivity. Qed.

Lemma nlist_eqb_refl l : nlist_eqb l l = true.
Proof. apply list_eqb_refl. apply N.eqb_refl. Qed.

Lemma plist_eqb_refl l : plist_eqb l l = true.
Proof. apply list_eqb_refl. apply pair_eqb_refl. Qed.

Lemma waiter_eqb_refl w : waiter_eqb w w = true.
Proof. unfold waiter_eqb. rewrite !N.eqb_refl, plist_eqb_refl. reflexivity. Qed.

Lemma inflight_eqb_refl f : inflight_eqb f f = true.
Proof. unfold inflight_eqb. rewrite N.eqb_refl, plist_eqb_refl, !nlist_eqb_refl. reflexivity. Qed.

Lemma state_eqb_refl s : state_eqb s s = true.
Proof.
  unfold state_eqb. rewrite !N.eqb_refl, !nlist_eqb_refl, Z.eqb_refl, Bool.eqb_reflx, plist_eqb_refl.
  rewrite (list_eqb_refl waiter_eqb waiter_eqb_refl).
  destruct (s_infl s) as [f|]; cbn [option_eqb]; [rewrite inflight_eqb_refl|]; reflexivity.
Qed.

Lemma reply_eqb_refl r : reply_eqb r r = true.
Proof. unfold reply_eqb. rewrite !N.eqb_refl, plist_eqb_refl. reflexivity. Qed.

Lemma task_eqb_refl t : task_eqb t t = true.
Proof. unfold task_eqb. rewrite !N.eqb_refl, nlist_eqb_refl, Bool.eqb_reflx. reflexivity. Qed.

Lemma decision_eqb_refl d : decision_eqb d d = true.
Proof.
  unfold decision_eqb. rewrite !N.eqb_refl, Bool.eqb_reflx, (list_eqb_refl reply_eqb reply_eqb_refl).
  destruct (d_task d) as [t|]; cbn [option_eqb]; [rewrite task_eqb_refl|]; reflexivity.
Qed.

(* ---- rejected metadata ----------------------------------------------------------------------------------- *)
Lemma validate_meta_rejects s m :
  meta_older s m || meta_leader_switch s m = true -> validate_meta s m <> 0.
Proof.
  unfold meta_older, meta_leader_switch, validate_meta. intro H.
  destruct (negb (m_key m =? 0) && negb (m_key m =? s_key s)); [vm_compute; discriminate|].
  destruct (negb (s_id s =? 0) && negb (m_id m =? s_id s)); [vm_compute; discriminate|].
  destruct ((m_epoch m <? s_epoch s) || (m_epoch m =? s_epoch s) && (m_lepoch m <? s_lepoch s));
    [vm_compute; discriminate|].
  cbn [orb] in H. rewrite H. vm_compute. discriminate.
Qed.

Lemma meta_rejected s m :
  meta_older s m || meta_leader_switch s m = true ->
  exists e, e <> 0 /\ apply_meta s m = (s, dec_err e).
Proof.
  intro H. exists (validate_meta s m). pose proof (validate_meta_rejects s m H) as V.
  split; [exact V|]. apply apply_meta_error; [reflexivity|exact V].
Qed.

(* ---- one step of the model passes the monitor's step check --------------------------------------------------- *)
Lemma step_ok_parts pre e d post :
  step_ok pre e d post = true <->
  wm_ok post = true /\ hw_mono_ok pre post = true
  /\ forallb (reply_ok pre post) (d_replies d) = true /\ nodup_b (map r_op (d_replies d)) = true
  /\ admission_ok pre e d post = true /\ stale_ok pre e d post = true /\ meta_ok pre e d post = true.
Proof. unfold step_ok. rewrite !andb_true_iff. tauto. Qed.

Lemma admission_ok_parts pre e d post :
  admission_ok pre e d post = true <->
  forallb (fun id => negb (mem id (pend_ids (s_pending pre)))) (admitted_ids e d) = true
  /\ nodup_b (admitted_ids e d) = true
  /\ forallb (fun id => mem id (pend_ids (s_pending pre)) || mem id (admitted_ids e d))
             (pend_ids (s_pending post)) = true.
Proof. unfold admission_ok. cbv zeta. rewrite !andb_true_iff. tauto. Qed.

Lemma step_ok_model s e s' d : Inv s -> step s e = (s', d) -> step_ok s e d s' = true.
Proof.
  intros HI H. pose proof (step_establishes_facts _ _ _ _ HI H) as F.
  destruct F as [[[W1 [W2 _]] _] Fhw _ _ Frep Fnd Fpend Ffresh Fadm].
  apply step_ok_parts. split; [|split; [|split; [|split; [|split; [|split]]]]].
  - unfold wm_ok. apply andb_true_iff. split; apply N.leb_le; assumption.
  - unfold hw_mono_ok. destruct ((s_epoch s =? s_epoch s') && (s_lepoch s =? s_lepoch s'));
      [apply N.leb_le; exact Fhw|reflexivity].
  - apply forallb_forall. intros r Hr. destruct (Frep r Hr) as [w [Fw [Nin Q]]].
    unfold reply_ok. rewrite Fw. apply andb_true_iff. split.
    + apply negb_true_iff. apply mem_false. exact Nin.
    + destruct ((r_err r =? 0) && (w_mode w =? CommitModeQuorum)) eqn:C; [|reflexivity].
      apply andb_true_iff in C. destruct C as [C1 C2]. apply N.eqb_eq in C1, C2.
      destruct (Q C1) as [w' [_ [_ [_ [_ [L Hq]]]]]].
      destruct (last_idx (r_items r)) as [q|] eqn:Lq; [|reflexivity].
      apply N.leb_le. rewrite (L q eq_refl). apply Hq. exact C2.
  - apply nodup_b_NoDup. exact Fnd.
  - apply admission_ok_parts. split; [|split].
    + apply forallb_forall. intros x Hx. apply negb_true_iff. apply mem_false. apply Ffresh. exact Hx.
    + apply nodup_b_NoDup. exact Fadm.
    + apply forallb_forall. intros x Hx. apply orb_true_iff.
      destruct (Fpend x Hx) as [H1|H1]; [left|right]; apply mem_In; exact H1.
  - unfold stale_ok. destruct e; try reflexivity.
    + destruct (matches_fence s f) eqn:M; [reflexivity|].
      cbn [step] in H. rewrite (stale_stored _ _ _ _ _ M) in H. inversion H; subst.
      rewrite state_eqb_refl. reflexivity.
    + destruct (matches_fence s f) eqn:M; [reflexivity|].
      cbn [step] in H. rewrite (stale_quorum _ _ _ _ _ _ M) in H. inversion H; subst.
      rewrite state_eqb_refl. reflexivity.
  - unfold meta_ok. destruct e; try reflexivity.
    destruct (meta_older s m || meta_leader_switch s m) eqn:M; [|reflexivity].
    destruct (meta_rejected s m M) as [e [He Ha]]. cbn [step] in H. rewrite Ha in H.
    inversion H; subst. rewrite state_eqb_refl. cbn [dec_err d_err].
    apply N.eqb_neq in He. rewrite He. reflexivity.
Qed.

Lemma trace_ok_run : forall evs s, Inv s -> trace_ok s (run s evs) = true.
Proof.
  induction evs as [|e evs IH]; intros s HI; cbn [run trace_ok]; [reflexivity|].
  destruct (step s e) as [s' d] eqn:E. cbn [trace_ok].
  rewrite (step_ok_model _ _ _ _ HI E). cbn [andb]. apply IH.
  exact (sf_inv _ _ _ _ (step_establishes_facts _ _ _ _ HI E)).
Qed.

Lemma mm_steps_run : forall evs s, mm_steps s (run s evs) = false.
Proof.
  induction evs as [|e evs IH]; intros s; cbn [run mm_steps]; [reflexivity|].
  destruct (step s e) as [s' d] eqn:E. cbn [mm_steps]. rewrite E.
  rewrite decision_eqb_refl, state_eqb_refl. cbn [andb negb orb]. apply IH.
Qed.

(* the case the harness would print if the implementation behaved exactly like the model *)
Definition model_case (key local gen id leo hw cp : N) (evs : list event) : c06_case :=
  let s0 := init_state key local gen id leo hw cp in
  C06Case key local gen id leo hw cp s0 (run s0 evs).

Theorem model_satisfies_monitor key local gen id leo hw cp evs :
  cp <= hw -> hw <= leo -> C06_monitor (model_case key local gen id leo hw cp evs) = 0.
Proof.
  intros H1 H2. unfold C06_monitor, model_case. cbn [c_s0 c_steps].
  rewrite trace_ok_run by (apply Inv_init; assumption).
  assert (W : wm_ok (init_state key local gen id leo hw cp) = true).
  { unfold wm_ok, init_state; st. apply andb_true_iff. split; apply N.leb_le; assumption. }
  rewrite W. reflexivity.
Qed.

Theorem model_case_no_mismatch key local gen id leo hw cp evs :
  C06_mismatch (model_case key local gen id leo hw cp evs) = false.
Proof.
  unfold C06_mismatch, model_case. cbn [c_key c_local c_gen c_id c_leo c_hw c_cp c_s0 c_steps].
  rewrite state_eqb_refl, mm_steps_run. reflexivity.
Qed.

(* ---- at most one answer per admission, for ANY trace the monitor accepts ------------------------------------------ *)
Definition cnt (x : N) (l : list N) : nat := count_occ N.eq_dec l x.

Fixpoint replies_to (x : N) (tr : list (event * decision * state)) : nat :=
  match tr with
  | [] => 0
  | (_, d, _) :: r => cnt x (map r_op (d_replies d)) + replies_to x r
  end.

Fixpoint admissions_of (x : N) (tr : list (event * decision * state)) : nat :=
  match tr with
  | [] => 0
  | (e, d, _) :: r => cnt x (admitted_ids e d) + admissions_of x r
  end.

Fixpoint final_state (s : state) (tr : list (event * decision * state)) : state :=
  match tr with
  | [] => s
  | (_, _, s') :: r => final_state s' r
  end.

Definition waiting (x : N) (s : state) : nat := if mem x (pend_ids (s_pending s)) then 1 else 0.

Lemma cnt_le_1 x l : NoDup l -> (cnt x l <= 1)%nat.
Proof. intro H. apply NoDup_count_occ. exact H. Qed.

Lemma cnt_pos x l : (cnt x l > 0)%nat <-> In x l.
Proof. unfold cnt. symmetry. apply count_occ_In. Qed.

Lemma step_ok_counts pre e d post x :
  step_ok pre e d post = true ->
  (cnt x (map r_op (d_replies d)) + waiting x post <= cnt x (admitted_ids e d) + waiting x pre)%nat.
Proof.
  intro H. apply step_ok_parts in H. destruct H as [_ [_ [Hrep [Hnd [Hadm _]]]]].
  apply nodup_b_NoDup in Hnd. pose proof (cnt_le_1 x _ Hnd) as R1.
  apply admission_ok_parts in Hadm. destruct Hadm as [_ [_ Hpend]].
  rewrite forallb_forall in Hrep, Hpend.
  destruct (Nat.eq_dec (cnt x (map r_op (d_replies d))) 0) as [Z|NZ].
  - rewrite Z. unfold waiting at 1. destruct (mem x (pend_ids (s_pending post))) eqn:P1; [|lia].
    apply mem_In in P1. pose proof (Hpend x P1) as Hx. apply orb_true_iff in Hx.
    destruct Hx as [Hx|Hx].
    + unfold waiting. rewrite Hx. lia.
    + apply mem_In in Hx. apply cnt_pos in Hx. lia.
  - assert (Hin : In x (map r_op (d_replies d))) by (apply cnt_pos; lia).
    apply in_map_iff in Hin. destruct Hin as [r [E Hr]]. pose proof (Hrep r Hr) as Ok.
    unfold reply_ok in Ok. rewrite E in Ok.
    destruct (find_w x (s_pending pre)) as [w|] eqn:Fw; [|discriminate].
    apply andb_true_iff in Ok. destruct Ok as [Ok _]. apply negb_true_iff in Ok.
    pose proof (find_w_some_ids _ _ _ Fw) as Pin. apply mem_In in Pin.
    unfold waiting. rewrite Ok, Pin. lia.
Qed.

Theorem trace_ok_reply_once : forall tr s0 x,
  trace_ok s0 tr = true ->
  (replies_to x tr + waiting x (final_state s0 tr) <= admissions_of x tr + waiting x s0)%nat.
Proof.
  induction tr as [|[[e d] s1] r IH]; intros s0 x H; cbn [replies_to admissions_of final_state].
  - lia.
  - cbn [trace_ok] in H. apply andb_true_iff in H. destruct H as [H1 H2].
    pose proof (step_ok_counts _ _ _ _ x H1). pose proof (IH s1 x H2). lia.
Qed.
