(* Proof/HashSlot_lists.v — list lemmas for the planner proofs: association
   lists, sortSlotIDs, the distinct non-zero slots of an assignment, counting
   (cnt), rank, finite sums, and the ideal-share arithmetic. *)
From WK Require Import Base.Base Model.HashSlot Proof.HashSlot_table.
From Coq Require Import ZifyBool ZifyN ZifyNat Sorting.Sorted Sorting.Permutation.
Open Scope N_scope.

(* ---- association lists -------------------------------------------------------------- *)

Lemma aget_aset_same {V} (d : V) m k v : aget d (aset m k v) k = v.
Proof.
  induction m as [|[k' v'] m IH]; cbn [aset aget].
  - rewrite N.eqb_refl. reflexivity.
  - destruct (k' =? k) eqn:E; cbn [aget]; [rewrite N.eqb_refl; reflexivity|rewrite E; exact IH].
Qed.

Lemma aget_aset_other {V} (d : V) m k k' v : k <> k' -> aget d (aset m k v) k' = aget d m k'.
Proof.
  intro H. induction m as [|[k0 v0] m IH]; cbn [aset aget].
  - destruct (k =? k') eqn:E; [apply N.eqb_eq in E; contradiction|reflexivity].
  - destruct (k0 =? k) eqn:E; cbn [aget].
    + apply N.eqb_eq in E. subst k0. destruct (k =? k') eqn:E2; [apply N.eqb_eq in E2; contradiction|reflexivity].
    + destruct (k0 =? k'); [reflexivity|exact IH].
Qed.

Lemma mem_iff x l : mem x l = true <-> In x l.
Proof.
  unfold mem. rewrite existsb_exists. split.
  - intros [y [I E]]. apply N.eqb_eq in E. subst. exact I.
  - intro I. exists x. split; [exact I|apply N.eqb_refl].
Qed.

Lemma mem_false x l : mem x l = false <-> ~ In x l.
Proof. rewrite <- mem_iff. destruct (mem x l); split; intro H; try congruence; try (exfalso; apply H; reflexivity). Qed.

(* ---- sortSlotIDs -------------------------------------------------------------------- *)

Lemma ins_perm x l : Permutation (ins x l) (x :: l).
Proof.
  induction l as [|y l IH]; cbn [ins]; [apply Permutation_refl|].
  destruct (x <=? y); [apply Permutation_refl|].
  eapply Permutation_trans; [apply perm_skip; exact IH|apply perm_swap].
Qed.

Lemma sort_ids_perm l : Permutation (sort_ids l) l.
Proof.
  induction l as [|x l IH]; cbn [sort_ids fold_right]; [apply Permutation_refl|].
  eapply Permutation_trans; [apply ins_perm|apply perm_skip; exact IH].
Qed.

Lemma in_sort_ids x l : In x (sort_ids l) <-> In x l.
Proof.
  split; intro H; [eapply Permutation_in; [apply sort_ids_perm|exact H]|].
  eapply Permutation_in; [apply Permutation_sym, sort_ids_perm|exact H].
Qed.

Lemma sort_ids_length l : length (sort_ids l) = length l.
Proof. apply Permutation_length, sort_ids_perm. Qed.

Lemma sort_ids_nodup l : NoDup l -> NoDup (sort_ids l).
Proof. intro H. eapply Permutation_NoDup; [apply Permutation_sym, sort_ids_perm|exact H]. Qed.

Lemma ins_sorted x : forall l, StronglySorted N.lt l -> ~ In x l -> StronglySorted N.lt (ins x l).
Proof.
  induction l as [|y l IH]; intros S NI; cbn [ins].
  - constructor; constructor.
  - inversion S as [|? ? S' F]; subst.
    destruct (x <=? y) eqn:E.
    + assert (x < y) by (assert (x <> y) by (intro; subst; apply NI; left; reflexivity); lia).
      constructor; [exact S|]. constructor; [assumption|].
      rewrite Forall_forall in *. intros z Iz. specialize (F z Iz). lia.
    + constructor.
      * apply IH; [exact S'|]. intro I. apply NI. right. exact I.
      * apply Forall_forall. intros z Iz.
        assert (Iz' : In z (x :: l)) by (eapply Permutation_in; [apply ins_perm|exact Iz]).
        destruct Iz' as [Q|Q]; [subst z; lia|]. rewrite Forall_forall in F. apply F. exact Q.
Qed.

Lemma sort_ids_sorted l : NoDup l -> StronglySorted N.lt (sort_ids l).
Proof.
  induction l as [|x l IH]; intro H; cbn [sort_ids fold_right]; [constructor|].
  inversion H; subst. apply ins_sorted; [apply IH; assumption|].
  rewrite in_sort_ids. assumption.
Qed.

(* ---- distinct non-zero values ---------------------------------------------------------- *)

Lemma in_dedupe_nz l : forall seen x,
  In x (dedupe_nz seen l) <-> (x <> 0 /\ In x l /\ ~ In x seen).
Proof.
  induction l as [|y l IH]; intros seen x; cbn [dedupe_nz].
  - split; [intros []|intros [_ [[] _]]].
  - destruct (y =? 0) eqn:E0; cbn [orb].
    + apply N.eqb_eq in E0. subst y. rewrite IH. split.
      * intros [A [B C]]. split; [exact A|]. split; [right; exact B|exact C].
      * intros [A [[B|B] C]]; [congruence|]. split; [exact A|]. split; [exact B|exact C].
    + apply N.eqb_neq in E0. destruct (mem y seen) eqn:M.
      * apply mem_iff in M. rewrite IH. split.
        -- intros [A [B C]]. split; [exact A|]. split; [right; exact B|exact C].
        -- intros [A [[B|B] C]]; [subst; contradiction|]. split; [exact A|]. split; [exact B|exact C].
      * apply mem_false in M. cbn [In]. rewrite IH. split.
        -- intros [Q|[A [B C]]].
           ++ subst x. split; [exact E0|]. split; [left; reflexivity|exact M].
           ++ split; [exact A|]. split; [right; exact B|]. intro I. apply C. right. exact I.
        -- intros [A [[B|B] C]]; [left; exact B|].
           destruct (N.eq_dec y x) as [D|D]; [left; exact D|right].
           split; [exact A|]. split; [exact B|]. intros [I|I]; [contradiction|]. apply C. exact I.
Qed.

Lemma dedupe_nz_nodup l : forall seen, NoDup (dedupe_nz seen l).
Proof.
  induction l as [|y l IH]; intro seen; cbn [dedupe_nz]; [constructor|].
  destruct ((y =? 0) || mem y seen); [apply IH|].
  constructor; [|apply IH]. rewrite in_dedupe_nz. intros [_ [_ C]]. apply C. left. reflexivity.
Qed.

Lemma in_distinct_nz l x : In x (distinct_nz l) <-> (x <> 0 /\ In x l).
Proof.
  unfold distinct_nz. rewrite in_dedupe_nz. split; [intros [A [B _]]; split; assumption|].
  intros [A B]. split; [exact A|]. split; [exact B|intros []].
Qed.

Lemma distinct_nz_nodup l : NoDup (distinct_nz l).
Proof. apply dedupe_nz_nodup. Qed.

Lemma in_active t x : In x (active_slot_ids t) <-> (x <> 0 /\ In x (t_assign t)).
Proof. unfold active_slot_ids. rewrite in_sort_ids. apply in_distinct_nz. Qed.

Lemma active_nodup t : NoDup (active_slot_ids t).
Proof. apply sort_ids_nodup, distinct_nz_nodup. Qed.

Lemma active_perm t : Permutation (active_slot_ids t) (distinct_nz (t_assign t)).
Proof. apply sort_ids_perm. Qed.

(* ---- cnt ------------------------------------------------------------------------------- *)

Lemma cnt_cons x l s : cnt (x :: l) s = (if s =? x then 1 else 0) + cnt l s.
Proof. unfold cnt. cbn [filter]. destruct (s =? x); cbn [length]; lia. Qed.

Lemma cnt_nil s : cnt [] s = 0.
Proof. reflexivity. Qed.

Lemma cnt_zero_iff l s : cnt l s = 0 <-> ~ In s l.
Proof.
  induction l as [|x l IH]; [split; [intros _ []|reflexivity]|].
  rewrite cnt_cons. destruct (s =? x) eqn:E.
  - apply N.eqb_eq in E. subst. split; [lia|]. intro H. exfalso. apply H. left. reflexivity.
  - apply N.eqb_neq in E. rewrite N.add_0_l, IH. split; intro H.
    + intros [Q|Q]; [congruence|contradiction].
    + intro Q. apply H. right. exact Q.
Qed.

Lemma cnt_le_length l s : cnt l s <= N.of_nat (length l).
Proof.
  induction l as [|x l IH]; [cbn; lia|]. rewrite cnt_cons. cbn [length]. destruct (s =? x); lia.
Qed.

Lemma indices_of_length l s : forall i, N.of_nat (length (indices_of i l s)) = cnt l s.
Proof.
  induction l as [|x l IH]; intro i; cbn [indices_of]; [reflexivity|].
  rewrite cnt_cons, N.eqb_sym. destruct (s =? x); cbn [length]; rewrite <- (IH (i + 1)); lia.
Qed.

Lemma indices_of_nodup l s : forall i, NoDup (indices_of i l s).
Proof.
  induction l as [|x l IH]; intro i; cbn [indices_of]; [constructor|].
  destruct (x =? s); [|apply IH]. constructor; [|apply IH].
  rewrite in_indices_of. lia.
Qed.

(* replacing the entry at n (owner a) by v <> a *)
Lemma cnt_set_nth l : forall n a v, (n < length l)%nat -> nth n l 0 = a -> a <> v ->
  cnt (set_nth n v l) a + 1 = cnt l a /\ cnt (set_nth n v l) v = cnt l v + 1
  /\ (forall s, s <> a -> s <> v -> cnt (set_nth n v l) s = cnt l s).
Proof.
  induction l as [|x l IH]; intros [|n] a v L E D; cbn [length] in L; try lia; cbn [set_nth nth] in *.
  - subst x. rewrite !cnt_cons, !N.eqb_refl.
    assert (E1 : (a =? v) = false) by (apply N.eqb_neq; exact D).
    assert (E2 : (v =? a) = false) by (apply N.eqb_neq; congruence).
    rewrite E1, E2. split; [lia|]. split; [lia|]. intros s Sa Sv. rewrite !cnt_cons.
    assert (E3 : (s =? v) = false) by (apply N.eqb_neq; exact Sv).
    assert (E4 : (s =? a) = false) by (apply N.eqb_neq; exact Sa).
    rewrite E3, E4. reflexivity.
  - destruct (IH n a v ltac:(lia) E D) as [A [B C]]. rewrite !cnt_cons. split; [lia|]. split; [lia|].
    intros s Sa Sv. rewrite !cnt_cons, (C s Sa Sv). reflexivity.
Qed.

(* ---- rank ------------------------------------------------------------------------------- *)

Lemma rank_cons x l s : rank s (x :: l) = (if x <? s then 1 else 0) + rank s l.
Proof. unfold rank. cbn [filter]. destruct (x <? s); cbn [length]; lia. Qed.

Lemma rank_perm s l l' : Permutation l l' -> rank s l = rank s l'.
Proof.
  induction 1 as [|x l l' P IH|x y l|l l' l'' P1 IH1 P2 IH2].
  - reflexivity.
  - rewrite !rank_cons, IH. reflexivity.
  - rewrite !rank_cons. lia.
  - rewrite IH1. exact IH2.
Qed.

Lemma rank_filter_le s f l : rank s (filter f l) <= rank s l.
Proof.
  induction l as [|x l IH]; cbn [filter]; [lia|].
  destruct (f x); rewrite ?rank_cons; destruct (x <? s); lia.
Qed.

Lemma rank_sorted_head x l : StronglySorted N.lt (x :: l) -> rank x (x :: l) = 0.
Proof.
  intro S. inversion S as [|? ? S' F]; subst. rewrite rank_cons, N.ltb_irrefl, N.add_0_l.
  clear S S'. induction l as [|y l IH]; [reflexivity|].
  inversion F; subst. rewrite rank_cons. destruct (y <? x) eqn:E; [lia|]. rewrite N.add_0_l. apply IH. assumption.
Qed.

(* ---- finite sums --------------------------------------------------------------------------- *)

Definition sumf (f : N -> N) (l : list N) : N := fold_right (fun s acc => f s + acc) 0 l.

Lemma sumf_cons f x l : sumf f (x :: l) = f x + sumf f l.
Proof. reflexivity. Qed.

Lemma sumf_perm f l l' : Permutation l l' -> sumf f l = sumf f l'.
Proof.
  induction 1 as [|x l l' P IH|x y l|l l' l'' P1 IH1 P2 IH2]; try reflexivity.
  - rewrite !sumf_cons, IH. reflexivity.
  - rewrite !sumf_cons. lia.
  - rewrite IH1. exact IH2.
Qed.

Lemma sumf_ext f g l : (forall x, In x l -> f x = g x) -> sumf f l = sumf g l.
Proof.
  induction l as [|x l IH]; intro H; [reflexivity|]. rewrite !sumf_cons, (H x (or_introl eq_refl)), IH; [reflexivity|].
  intros y I. apply H. right. exact I.
Qed.

Lemma sumf_le f g l : (forall x, In x l -> f x <= g x) -> sumf f l <= sumf g l.
Proof.
  induction l as [|x l IH]; intro H; [cbn; lia|]. rewrite !sumf_cons.
  pose proof (H x (or_introl eq_refl)). assert (sumf f l <= sumf g l) by (apply IH; intros y I; apply H; right; exact I). lia.
Qed.

Lemma sumf_lt f g l a : In a l -> f a < g a -> (forall x, In x l -> f x <= g x) -> sumf f l < sumf g l.
Proof.
  induction l as [|x l IH]; intros I L H; [destruct I|]. rewrite !sumf_cons.
  pose proof (H x (or_introl eq_refl)) as Hx.
  assert (Hr : forall y, In y l -> f y <= g y) by (intros y Iy; apply H; right; exact Iy).
  destruct I as [I|I].
  - subst x. pose proof (sumf_le f g l Hr). lia.
  - pose proof (IH I L Hr). lia.
Qed.

Lemma sumf_plus f g l : sumf (fun s => f s + g s) l = sumf f l + sumf g l.
Proof. induction l as [|x l IH]; [reflexivity|]. rewrite !sumf_cons, IH. lia. Qed.

Lemma sumf_const c l : sumf (fun _ => c) l = N.of_nat (length l) * c.
Proof. induction l as [|x l IH]; [reflexivity|]. rewrite sumf_cons, IH. cbn [length]. lia. Qed.

(* equal sums and pointwise <= : pointwise equal *)
Lemma sumf_eq_le f g l : sumf f l = sumf g l -> (forall x, In x l -> f x <= g x) -> forall x, In x l -> f x = g x.
Proof.
  intros E H x I. destruct (N.eq_dec (f x) (g x)) as [Q|Q]; [exact Q|].
  assert (f x < g x) by (specialize (H x I); lia).
  pose proof (sumf_lt f g l x I H0 H). lia.
Qed.

Lemma sumf_app f l l' : sumf f (l ++ l') = sumf f l + sumf f l'.
Proof. induction l as [|x l IH]; [reflexivity|]. cbn [app]. rewrite !sumf_cons, IH. lia. Qed.

(* the indicator of one element of a duplicate-free list sums to one *)
Lemma sumf_indicator x l : NoDup l -> sumf (fun s => if s =? x then 1 else 0) l = if mem x l then 1 else 0.
Proof.
  induction l as [|y l IH]; intro ND; [reflexivity|]. inversion ND; subst.
  rewrite sumf_cons, IH by assumption. cbn [mem existsb]. fold (mem x l).
  rewrite (N.eqb_sym x y). destruct (y =? x) eqn:E; cbn [orb]; [|lia].
  apply N.eqb_eq in E. subst y. assert (M : mem x l = false) by (apply mem_false; assumption). rewrite M. lia.
Qed.

(* the holdings of the slots of a duplicate-free list covering the assignment sum to its length *)
Lemma sumf_cnt l parts : NoDup parts -> (forall x, In x l -> In x parts) ->
  sumf (cnt l) parts = N.of_nat (length l).
Proof.
  intro ND. induction l as [|x l IH]; intro H.
  - cbn [length]. clear. induction parts as [|p parts IHp]; [reflexivity|]. rewrite sumf_cons, cnt_nil, IHp. reflexivity.
  - rewrite (sumf_ext _ (fun s => (if s =? x then 1 else 0) + cnt l s)) by (intros; apply cnt_cons).
    rewrite sumf_plus, sumf_indicator by exact ND.
    assert (M : mem x parts = true) by (apply mem_iff, H; left; reflexivity). rewrite M.
    rewrite IH by (intros y I; apply H; right; exact I). cbn [length]. lia.
Qed.

(* ---- ideal shares -------------------------------------------------------------------------- *)

(* in a strictly sorted list the number of elements whose rank (shifted by i) is below r *)
Lemma sum_rank_below r : forall l i, StronglySorted N.lt l ->
  sumf (fun s => if i + rank s l <? r then 1 else 0) l = N.min (i + N.of_nat (length l)) r - N.min i r.
Proof.
  induction l as [|x l IH]; intros i S; [cbn [sumf fold_right length]; lia|].
  rewrite sumf_cons, (rank_sorted_head x l S), N.add_0_r.
  inversion S as [|? ? S' F]; subst.
  rewrite (sumf_ext _ (fun s => if (i + 1) + rank s l <? r then 1 else 0)).
  - rewrite IH by exact S'. cbn [length]. destruct (i <? r) eqn:E; lia.
  - intros y I. rewrite rank_cons. rewrite Forall_forall in F. specialize (F y I).
    destruct (x <? y) eqn:E; [|lia]. replace (i + (1 + rank y l)) with (i + 1 + rank y l) by lia. reflexivity.
Qed.

Lemma spec_ideal_perm total l l' s : Permutation l l' -> spec_ideal total l s = spec_ideal total l' s.
Proof.
  intro P. unfold spec_ideal. rewrite (Permutation_length P), (rank_perm s l l' P). reflexivity.
Qed.

(* the ideal shares of a duplicate-free, non-empty list of slots sum to the total *)
Lemma sumf_spec_ideal total parts : NoDup parts -> parts <> [] ->
  sumf (spec_ideal total parts) parts = total.
Proof.
  intros ND NE.
  pose proof (sort_ids_perm parts) as P.
  rewrite <- (sumf_perm _ _ _ P).
  rewrite (sumf_ext _ (spec_ideal total (sort_ids parts))) by (intros; apply spec_ideal_perm, Permutation_sym, P).
  set (l := sort_ids parts). assert (S : StronglySorted N.lt l) by (apply sort_ids_sorted; exact ND).
  assert (K : N.of_nat (length l) <> 0).
  { unfold l. rewrite sort_ids_length. destruct parts; [congruence|cbn [length]; lia]. }
  unfold spec_ideal. apply N.eqb_neq in K. rewrite K. apply N.eqb_neq in K.
  set (k := N.of_nat (length l)) in *.
  rewrite sumf_plus.
  rewrite (sumf_ext (fun s => if rank s l <? total mod k then 1 else 0)
                    (fun s => if 0 + rank s l <? total mod k then 1 else 0)) by (intros; reflexivity).
  rewrite sum_rank_below by exact S. fold k.
  rewrite sumf_const. fold k. pose proof (N.div_mod total k K). pose proof (N.mod_lt total k K). lia.
Qed.

(* growing the number of participants never raises a share, whatever the rank shift upwards *)
Lemma ideal_mono total k p p' : 1 <= k -> p <= p' ->
  total / (k + 1) + (if p' <? total mod (k + 1) then 1 else 0)
  <= total / k + (if p <? total mod k then 1 else 0).
Proof.
  intros Hk Hp.
  pose proof (N.div_mod total k ltac:(lia)) as D1. pose proof (N.mod_lt total k ltac:(lia)) as M1.
  pose proof (N.div_mod total (k + 1) ltac:(lia)) as D2. pose proof (N.mod_lt total (k + 1) ltac:(lia)) as M2.
  set (q := total / k) in *. set (r := total mod k) in *.
  set (q' := total / (k + 1)) in *. set (r' := total mod (k + 1)) in *.
  assert (Q : q' <= q) by nia.
  destruct (N.eq_dec q' q) as [E|E].
  - assert (r' + q = r) by nia. destruct (p' <? r') eqn:A; destruct (p <? r) eqn:B; lia.
  - destruct (p' <? r'); destruct (p <? r); lia.
Qed.

Lemma ideal_fill_spec base rem : forall sorted i m s, StronglySorted N.lt sorted ->
  aget 0 (ideal_fill i base rem sorted m) s =
  if mem s sorted then base + (if i + rank s sorted <? rem then 1 else 0) else aget 0 m s.
Proof.
  induction sorted as [|x l IH]; intros i m s S; cbn [ideal_fill]; [reflexivity|].
  inversion S as [|? ? S' F]; subst. rewrite IH by exact S'.
  cbn [mem existsb]. fold (mem s l). destruct (s =? x) eqn:E.
  - apply N.eqb_eq in E. subst s. cbn [orb].
    assert (M : mem x l = false).
    { apply mem_false. intro I. rewrite Forall_forall in F. specialize (F x I). lia. }
    rewrite M, aget_aset_same, (rank_sorted_head x l S), N.add_0_r. reflexivity.
  - cbn [orb]. apply N.eqb_neq in E. destruct (mem s l) eqn:M.
    + apply mem_iff in M. rewrite Forall_forall in F. specialize (F s M). rewrite rank_cons.
      destruct (x <? s) eqn:L; [|lia]. replace (i + 1 + rank s l) with (i + (1 + rank s l)) by lia. reflexivity.
    + apply aget_aset_other. congruence.
Qed.

(* idealSlotCounts agrees with the specification of the ideal share *)
Lemma ideal_slot_counts_spec total slots s : NoDup slots -> In s slots ->
  aget 0 (ideal_slot_counts total slots) s = spec_ideal total slots s.
Proof.
  intros ND I. unfold ideal_slot_counts. destruct slots as [|x slots]; [destruct I|].
  set (l := x :: slots) in *.
  rewrite ideal_fill_spec by (apply sort_ids_sorted; exact ND).
  assert (M : mem s (sort_ids l) = true) by (apply mem_iff, in_sort_ids; exact I). rewrite M.
  unfold spec_ideal. rewrite sort_ids_length.
  assert (K : (N.of_nat (length l) =? 0) = false) by (apply N.eqb_neq; unfold l; cbn [length]; lia).
  rewrite K, N.add_0_l, (rank_perm s _ _ (sort_ids_perm l)). reflexivity.
Qed.

Lemma slot_counts_spec t : forall slots m s,
  aget 0 (fold_left (fun m s => aset m s (N.of_nat (length (hash_slots_of t s)))) slots m) s =
  if mem s slots then cnt (t_assign t) s else aget 0 m s.
Proof.
  induction slots as [|x l IH]; intros m s; cbn [fold_left]; [reflexivity|].
  rewrite IH. cbn [mem existsb]. fold (mem s l). destruct (mem s l) eqn:M; [rewrite orb_true_r; reflexivity|].
  rewrite orb_false_r. destruct (s =? x) eqn:E.
  - apply N.eqb_eq in E. subst. rewrite aget_aset_same. unfold hash_slots_of. apply indices_of_length.
  - apply N.eqb_neq in E. apply aget_aset_other. congruence.
Qed.

Lemma slot_counts_get t slots s : In s slots -> aget 0 (slot_counts t slots) s = cnt (t_assign t) s.
Proof.
  intro I. unfold slot_counts. rewrite slot_counts_spec.
  assert (M : mem s slots = true) by (apply mem_iff; exact I). rewrite M. reflexivity.
Qed.

Lemma slot_hash_slots_spec t : forall slots m s,
  aget [] (fold_left (fun m s => aset m s (rev (hash_slots_of t s))) slots m) s =
  if mem s slots then rev (hash_slots_of t s) else aget [] m s.
Proof.
  induction slots as [|x l IH]; intros m s; cbn [fold_left]; [reflexivity|].
  rewrite IH. cbn [mem existsb]. fold (mem s l). destruct (mem s l) eqn:M; [rewrite orb_true_r; reflexivity|].
  rewrite orb_false_r. destruct (s =? x) eqn:E.
  - apply N.eqb_eq in E. subst. rewrite aget_aset_same. reflexivity.
  - apply N.eqb_neq in E. apply aget_aset_other. congruence.
Qed.

Lemma slot_hash_slots_get t slots s :
  aget [] (slot_hash_slots t slots) s = if mem s slots then rev (hash_slots_of t s) else [].
Proof. unfold slot_hash_slots. rewrite slot_hash_slots_spec. reflexivity. Qed.
