(* Proof/ChanAppend_probe.v — hasCoalescibleIdempotentItems (append.go): the
   open-addressing pre-check over a 256-slot table answers EXACTLY "two keyed
   items of the batch are the same logical send", for an ARBITRARY fingerprint
   function and every batch within the documented bound (at most 128 items):
   fingerprint collisions can neither produce a false positive (a match is
   confirmed by sameLogicalSend) nor hide a duplicate (equal sends have equal
   fingerprints, hence the same probe path, and slots never become empty). *)
From WK Require Import Base.Base Gen.Consts_C29 Model.ChanAppend Proof.ChanAppend_coalesce.
From Coq Require Import ZifyBool ZifyN ZifyNat.
Ltac Zify.zify_post_hook ::= Z.div_mod_to_equations.
Open Scope N_scope.

Lemma tsize_val : tsize = 256%nat.
Proof. reflexivity. Qed.

Lemma mask_mod x : slot_mask x = x mod 256.
Proof. unfold slot_mask. change (c29_stack_table_size - 1) with (N.ones 8). rewrite N.land_ones. reflexivity. Qed.

Lemma limit_val : c29_stack_item_limit = 128.
Proof. reflexivity. Qed.

(* the d-th slot of the probe path starting at h *)
Definition ppos (h : N) (d : nat) : N := (h + N.of_nat d) mod 256.

Definition tget (t : tbl) (s : N) : N * N := nth (N.to_nat s) t (0, 0).
Definition occ (t : tbl) (s : N) : Prop := snd (tget t s) <> 0.

Lemma ppos_lt h d : ppos h d < 256.
Proof. unfold ppos. lia. Qed.

Lemma ppos_step h d : slot_mask (ppos h d + 1) = ppos h (S d).
Proof. rewrite mask_mod. unfold ppos. lia. Qed.

Lemma ppos_zero h : h < 256 -> ppos h 0 = h.
Proof. unfold ppos. lia. Qed.

(* every slot lies on every probe path *)
Lemma ppos_surj h s : h < 256 -> s < 256 -> exists d, (d < 256)%nat /\ ppos h d = s.
Proof.
  intros Hh Hs. exists (N.to_nat ((s + 256 - h) mod 256)). unfold ppos. split; lia.
Qed.

Lemma ppos_inj h d1 d2 : (d1 < 256)%nat -> (d2 < 256)%nat -> ppos h d1 = ppos h d2 -> d1 = d2.
Proof. unfold ppos. lia. Qed.

Lemma probe_S f items t slot fpv c :
  probe (S f) items t slot fpv c =
  (let e := tget t slot in
   if snd e =? 0 then PInsert slot
   else if (fst e =? fpv) && sameLogicalSend (ps_cmd (nth (N.to_nat (snd e - 1)) items dflt_psend)) c
        then PFound
        else probe f items t (slot_mask (slot + 1)) fpv c).
Proof. reflexivity. Qed.

Lemma set_nth_len {A} n (x : A) l : length (set_nth n x l) = length l.
Proof. revert n. induction l as [|y l IH]; intro n; destruct n; cbn [set_nth length]; auto. Qed.

Lemma nth_set_nth_eq {A} n (x d : A) l : (n < length l)%nat -> nth n (set_nth n x l) d = x.
Proof.
  revert n. induction l as [|y l IH]; intros n H; [cbn in H; lia|].
  destruct n; cbn [set_nth nth]; [reflexivity|]. apply IH. cbn in H. lia.
Qed.

Lemma nth_set_nth_neq {A} n m (x d : A) l : n <> m -> nth m (set_nth n x l) d = nth m l d.
Proof.
  revert n m. induction l as [|y l IH]; intros n m H; [destruct n; reflexivity|].
  destruct n; destruct m; cbn [set_nth nth]; try reflexivity; try lia. apply IH. lia.
Qed.

Section Probe.
  Variable fp : cmd -> N.
  Variable all : list psend.

  Definition cmdN (i : nat) : cmd := cmdat all i.
  Definition home (i : nat) : N := slot_mask (fp (cmdN i)).

  (* the table after the first k items were processed without finding a duplicate *)
  Record TInv (t : tbl) (k : nat) : Prop := {
    ti_len : length t = 256%nat;
    (* an occupied slot holds a keyed item among the first k, with its fingerprint *)
    ti_slot : forall s, s < 256 -> occ t s ->
              exists i, (i < k)%nat /\ (i < length all)%nat /\ keyed (cmdN i) = true
                        /\ tget t s = (fp (cmdN i), N.of_nat (S i));
    (* every keyed item among the first k sits on its own probe path, behind occupied slots only *)
    ti_item : forall i, (i < k)%nat -> (i < length all)%nat -> keyed (cmdN i) = true ->
              exists d, (d < 256)%nat /\ tget t (ppos (home i) d) = (fp (cmdN i), N.of_nat (S i))
                        /\ forall d', (d' < d)%nat -> occ t (ppos (home i) d');
    (* at most k slots are occupied *)
    ti_count : (length (filter (fun e => negb (snd e =? 0)%N) t) <= k)%nat;
    (* no duplicate among the first k *)
    ti_nopair : forall i j, (i < j)%nat -> (j < k)%nat -> (j < length all)%nat ->
                keyed (cmdN i) = true -> keyed (cmdN j) = true -> sameLogicalSend (cmdN i) (cmdN j) = false }.

  Lemma exists_empty (t : tbl) k : TInv t k -> (k < 256)%nat -> exists s, s < 256 /\ ~ occ t s.
  Proof.
    intros [L _ _ C _] Hk.
    assert (H : forall (l : tbl), (length (filter (fun e => negb (snd e =? 0)%N) l) < length l)%nat ->
                exists n, (n < length l)%nat /\ snd (nth n l (0, 0)) = 0).
    { induction l as [|e l IH]; cbn [filter length]; intro H; [lia|].
      destruct (snd e =? 0) eqn:E; cbn [negb] in H.
      - exists 0%nat. split; [lia|]. apply N.eqb_eq in E. exact E.
      - cbn [length] in H. destruct IH as [n [N1 N2]]; [lia|]. exists (S n). split; [lia|exact N2]. }
    destruct (H t) as [n [N1 N2]]; [lia|].
    exists (N.of_nat n). split; [lia|]. unfold occ, tget. rewrite Nnat.Nat2N.id. intro X. apply X. exact N2.
  Qed.

  (* a stored item that is the same logical send is found *)
  Lemma probe_finds (t : tbl) k c i :
    TInv t k -> (i < k)%nat -> (i < length all)%nat -> keyed (cmdN i) = true -> cmdN i = c ->
    probe tsize all t (slot_mask (fp c)) (fp c) c = PFound.
  Proof.
    intros I Hi Hl Ki Ec.
    destruct (ti_item _ _ I i Hi Hl Ki) as [d0 [D1 [D2 D3]]].
    unfold home in *. rewrite Ec in *.
    set (h := slot_mask (fp c)) in *.
    assert (Hh : h < 256) by (unfold h; rewrite mask_mod; lia).
    rewrite tsize_val.
    assert (G : forall n d, (d + n = 256)%nat -> (d <= d0)%nat ->
                probe n all t (ppos h d) (fp c) c = PFound).
    { induction n as [|n IH]; intros d Hn Hd; [lia|].
      rewrite probe_S. cbv zeta.
      destruct (Nat.eq_dec d d0) as [E|E].
      - subst d. rewrite D2. cbn [snd fst].
        replace (N.of_nat (S i) =? 0) with false by (symmetry; apply N.eqb_neq; lia).
        rewrite N.eqb_refl. replace (N.of_nat (S i) - 1) with (N.of_nat i) by lia.
        rewrite Nnat.Nat2N.id. fold (cmdat all i). fold (cmdN i). rewrite Ec, same_refl. reflexivity.
      - assert (Ho : occ t (ppos h d)) by (apply D3; lia). unfold occ in Ho.
        destruct (snd (tget t (ppos h d)) =? 0) eqn:E0; [apply N.eqb_eq in E0; contradiction|].
        destruct ((fst (tget t (ppos h d)) =? fp c)
                  && sameLogicalSend (ps_cmd (nth (N.to_nat (snd (tget t (ppos h d)) - 1)) all dflt_psend)) c);
          [reflexivity|].
        rewrite ppos_step. apply IH; lia. }
    rewrite <- (ppos_zero h Hh). apply G; lia.
  Qed.

  (* without a stored duplicate the probe ends at the first empty slot of the path *)
  Lemma probe_inserts (t : tbl) k c :
    TInv t k -> (k < 256)%nat ->
    (forall i, (i < k)%nat -> (i < length all)%nat -> keyed (cmdN i) = true -> sameLogicalSend (cmdN i) c = false) ->
    exists d, (d < 256)%nat
      /\ probe tsize all t (slot_mask (fp c)) (fp c) c = PInsert (ppos (slot_mask (fp c)) d)
      /\ ~ occ t (ppos (slot_mask (fp c)) d)
      /\ forall d', (d' < d)%nat -> occ t (ppos (slot_mask (fp c)) d').
  Proof.
    intros I Hk Hno.
    set (h := slot_mask (fp c)) in *.
    assert (Hh : h < 256) by (unfold h; rewrite mask_mod; lia).
    destruct (exists_empty t k I Hk) as [s0 [S1 S2]].
    destruct (ppos_surj h s0 Hh S1) as [d0 [D1 D2]].
    rewrite tsize_val.
    assert (G : forall n d, (d + n = 256)%nat -> (forall d', (d' < d)%nat -> occ t (ppos h d')) ->
                exists d2, (d <= d2)%nat /\ (d2 < 256)%nat
                  /\ probe n all t (ppos h d) (fp c) c = PInsert (ppos h d2)
                  /\ ~ occ t (ppos h d2) /\ forall d', (d' < d2)%nat -> occ t (ppos h d')).
    { induction n as [|n IH]; intros d Hn Hocc.
      - exfalso. apply S2. rewrite <- D2. apply Hocc. lia.
      - rewrite probe_S. cbv zeta.
        destruct (snd (tget t (ppos h d)) =? 0) eqn:E0.
        + apply N.eqb_eq in E0. exists d. split; [lia|]. split; [lia|]. split; [reflexivity|].
          split; [unfold occ; intro X; apply X; exact E0|exact Hocc].
        + apply N.eqb_neq in E0.
          assert (Hocc' : forall d', (d' < S d)%nat -> occ t (ppos h d')).
          { intros d' Hd'. destruct (Nat.eq_dec d' d); [subst; exact E0|apply Hocc; lia]. }
          assert (Hd : (d < 256)%nat).
          { destruct (Nat.lt_ge_cases d 256) as [L|L]; [exact L|lia]. }
          destruct (ti_slot _ _ I (ppos h d) (ppos_lt h d) E0) as [i [I1 [I2 [I3 I4]]]].
          rewrite I4. cbn [fst snd].
          replace (N.of_nat (S i) - 1) with (N.of_nat i) by lia. rewrite Nnat.Nat2N.id.
          fold (cmdat all i). fold (cmdN i). rewrite (Hno i I1 I2 I3), andb_false_r.
          rewrite ppos_step.
          destruct (Nat.eq_dec n 0) as [En|En].
          * exfalso. subst n. apply S2. rewrite <- D2. apply Hocc'. lia.
          * destruct (IH (S d) ltac:(lia) Hocc') as [d2 [X1 [X2 [X3 [X4 X5]]]]].
            exists d2. split; [lia|]. split; [exact X2|]. split; [exact X3|]. split; [exact X4|exact X5]. }
    destruct (G 256%nat 0%nat eq_refl ltac:(intros; lia)) as [d2 [X1 [X2 [X3 [X4 X5]]]]].
    exists d2. rewrite (ppos_zero h Hh) in X3. split; [exact X2|]. split; [exact X3|]. split; [exact X4|exact X5].
  Qed.

  Lemma tget_set_eq (t : tbl) s e : length t = 256%nat -> s < 256 -> tget (set_nth (N.to_nat s) e t) s = e.
  Proof. intros L H. unfold tget. apply nth_set_nth_eq. lia. Qed.

  Lemma tget_set_neq (t : tbl) s s' e : s <> s' -> tget (set_nth (N.to_nat s) e t) s' = tget t s'.
  Proof. intro H. unfold tget. apply nth_set_nth_neq. lia. Qed.

  Lemma filter_set_count (t : tbl) n e :
    (n < length t)%nat -> snd (nth n t (0, 0)) = 0 -> snd e <> 0 ->
    length (filter (fun x => negb (snd x =? 0)%N) (set_nth n e t))
    = S (length (filter (fun x => negb (snd x =? 0)%N) t)).
  Proof.
    revert n. induction t as [|y t IH]; intros n H E Hn; [cbn in H; lia|].
    destruct n as [|n]; cbn [set_nth nth filter length] in *.
    - rewrite E. cbn [N.eqb negb]. apply N.eqb_neq in Hn. rewrite Hn. reflexivity.
    - destruct (snd y =? 0); cbn [negb length]; rewrite IH by (try lia; assumption); reflexivity.
  Qed.

  (* inserting item k at the slot the probe returned keeps the invariant *)
  Lemma insert_inv (t : tbl) k d :
    TInv t k -> (k < length all)%nat -> keyed (cmdN k) = true ->
    (d < 256)%nat -> ~ occ t (ppos (home k) d) ->
    (forall d', (d' < d)%nat -> occ t (ppos (home k) d')) ->
    (forall i, (i < k)%nat -> (i < length all)%nat -> keyed (cmdN i) = true -> sameLogicalSend (cmdN i) (cmdN k) = false) ->
    TInv (set_nth (N.to_nat (ppos (home k) d)) (fp (cmdN k), N.of_nat (S k)) t) (S k).
  Proof.
    intros [L T2 T3 T4 T5] Hk Kk Hd Hemp Hpath Hno.
    set (s := ppos (home k) d) in *. set (e := (fp (cmdN k), N.of_nat (S k))).
    assert (Hs : s < 256) by apply ppos_lt.
    assert (Hocc : forall s', occ t s' -> occ (set_nth (N.to_nat s) e t) s').
    { intros s' Ho. unfold occ in *. destruct (N.eq_dec s s') as [E|E].
      - subst s'. contradiction.
      - rewrite tget_set_neq by exact E. exact Ho. }
    constructor.
    - rewrite set_nth_len. exact L.
    - intros s' Hs' Ho. destruct (N.eq_dec s s') as [E|E].
      + subst s'. exists k. rewrite tget_set_eq by assumption. repeat split; auto.
      + unfold occ in Ho. rewrite tget_set_neq in Ho by exact E.
        destruct (T2 s' Hs' Ho) as [i [I1 [I2 [I3 I4]]]]. exists i.
        rewrite tget_set_neq by exact E. repeat split; auto.
    - intros i Hi Hl Ki. destruct (Nat.eq_dec i k) as [E|E].
      + subst i. exists d. fold s. rewrite tget_set_eq by assumption. split; [exact Hd|]. split; [reflexivity|].
        intros d' Hd'. apply Hocc. apply Hpath. exact Hd'.
      + destruct (T3 i ltac:(lia) Hl Ki) as [di [D1 [D2 D3]]]. exists di. split; [exact D1|]. split.
        * rewrite tget_set_neq; [exact D2|]. intro X. apply Hemp. fold s. rewrite X.
          unfold occ. rewrite D2. cbn [snd]. lia.
        * intros d' Hd'. apply Hocc. apply D3. exact Hd'.
    - unfold e. rewrite filter_set_count; [lia|lia| |cbn [snd]; lia].
      unfold occ, tget in Hemp. destruct (snd (nth (N.to_nat s) t (0, 0)) =? 0) eqn:E0.
      + apply N.eqb_eq in E0. exact E0.
      + exfalso. apply Hemp. apply N.eqb_neq in E0. exact E0.
    - intros i j Hij Hj Hlj Ki Kj. destruct (Nat.eq_dec j k) as [E|E].
      + subst j. apply Hno; auto; lia.
      + apply T5; auto; lia.
  Qed.

  Lemma skip_inv (t : tbl) k : TInv t k -> keyed (cmdN k) = false -> TInv t (S k).
  Proof.
    intros [L T2 T3 T4 T5] Kk. constructor; auto.
    - intros s Hs Ho. destruct (T2 s Hs Ho) as [i [I1 I2]]. exists i. split; [lia|exact I2].
    - intros i Hi Hl Ki. assert (i <> k) by (intro; subst; congruence). apply T3; auto; lia.
    - intros i j Hij Hj Hlj Ki Kj. assert (j <> k) by (intro; subst; congruence). apply T5; auto; lia.
  Qed.

  Definition pair_upto (k : nat) : Prop :=
    exists i j, (i < j)%nat /\ (j < k)%nat /\ (j < length all)%nat /\
      keyed (cmdN i) = true /\ keyed (cmdN j) = true /\ sameLogicalSend (cmdN i) (cmdN j) = true.

  Lemma loop_exact : forall rest k t,
    (k + length rest = length all)%nat -> rest = skipn k all -> (length all <= 128)%nat -> TInv t k ->
    exists r, hasCoal_loop fp all t (N.of_nat k) rest = Some r /\ (r = true <-> pair_upto (length all)).
  Proof.
    induction rest as [|it rest IH]; intros k t Hlen Hrest Hb I; cbn [hasCoal_loop].
    - cbn in Hlen. exists false. split; [reflexivity|]. split; [discriminate|].
      intros [i [j [H1 [H2 [H3 [H4 [H5 H6]]]]]]]. rewrite (ti_nopair _ _ I i j H1 ltac:(lia) H3 H4 H5) in H6. discriminate.
    - cbn [length] in Hlen. assert (Hk : (k < length all)%nat) by lia.
      assert (Hit : it = nth k all dflt_psend /\ rest = skipn (S k) all).
      { clear -Hrest Hk. revert k Hrest Hk. induction all as [|x l IHl]; intros k Hrest Hk; [cbn in Hk; lia|].
        destruct k as [|k]; cbn [skipn nth] in *.
        - inversion Hrest. split; reflexivity.
        - apply IHl; [exact Hrest|cbn in Hk; lia]. }
      destruct Hit as [E1 E2]. subst it. fold (cmdat all k). fold (cmdN k).
      replace (N.of_nat k + 1) with (N.of_nat (S k)) by lia.
      destruct (keyed (cmdN k)) eqn:Kk.
      + (* is there a stored duplicate? *)
        destruct (existsb (fun i => keyed (cmdN i) && sameLogicalSend (cmdN i) (cmdN k)) (seq 0 k)) eqn:Dup.
        * apply existsb_exists in Dup. destruct Dup as [i [Hi Hd]]. apply in_seq in Hi.
          apply andb_true_iff in Hd. destruct Hd as [Ki Si].
          rewrite (probe_finds t k (cmdN k) i I ltac:(lia) ltac:(lia) Ki (proj1 (same_eq _ _) Si)).
          exists true. split; [reflexivity|]. split; [intros _|reflexivity].
          exists i, k. repeat split; auto; lia.
        * assert (Hno : forall i, (i < k)%nat -> (i < length all)%nat -> keyed (cmdN i) = true ->
                        sameLogicalSend (cmdN i) (cmdN k) = false).
          { intros i Hi _ Ki. destruct (sameLogicalSend (cmdN i) (cmdN k)) eqn:Si; [|reflexivity].
            assert (X : existsb (fun i => keyed (cmdN i) && sameLogicalSend (cmdN i) (cmdN k)) (seq 0 k) = true).
            { apply existsb_exists. exists i. split; [apply in_seq; lia|]. rewrite Ki, Si. reflexivity. }
            congruence. }
          destruct (probe_inserts t k (cmdN k) I ltac:(lia) Hno) as [d [D1 [D2 [D3 D4]]]].
          rewrite D2. fold (home k).
          apply IH; [lia|exact E2|exact Hb|].
          apply insert_inv; auto.
      + apply IH; [lia|exact E2|exact Hb|apply skip_inv; assumption].
  Qed.
End Probe.

(* ---- hasCoalescibleIdempotentItems is exact ---------------------------------------------------- *)

(* two different positions hold keyed items that are the same logical send *)
Definition coalescible_pair (items : list psend) : Prop :=
  exists i j a b, (i < j)%nat /\ nth_error items i = Some a /\ nth_error items j = Some b /\
    keyed (ps_cmd a) = true /\ keyed (ps_cmd b) = true /\
    sameLogicalSend (ps_cmd a) (ps_cmd b) = true.

Lemma nth_repeat {A} (x d : A) n i : (i < n)%nat -> nth i (repeat x n) d = x.
Proof. revert i. induction n as [|n IH]; intros i H; [lia|]. destruct i; cbn [repeat nth]; [reflexivity|apply IH; lia]. Qed.

Lemma filter_repeat_none {A} (f : A -> bool) x n : f x = false -> filter f (repeat x n) = [].
Proof. intro H. induction n as [|n IH]; cbn [repeat filter]; [reflexivity|]. rewrite H. exact IH. Qed.

Lemma TInv_init fp all : TInv fp all tbl_init 0.
Proof.
  assert (Hn : forall s, s < 256 -> tget tbl_init s = (0, 0)).
  { intros s Hs. unfold tget, tbl_init. rewrite tsize_val. apply nth_repeat. lia. }
  constructor.
  - unfold tbl_init. rewrite repeat_length. apply tsize_val.
  - intros s Hs Ho. unfold occ in Ho. rewrite (Hn s Hs) in Ho. exfalso. apply Ho. reflexivity.
  - intros i Hi. lia.
  - unfold tbl_init. rewrite filter_repeat_none by reflexivity. cbn. lia.
  - intros i j _ Hj. lia.
Qed.

Lemma pair_upto_iff all : pair_upto all (length all) <-> coalescible_pair all.
Proof.
  unfold pair_upto, coalescible_pair, cmdN, cmdat. split.
  - intros [i [j [H1 [H2 [H3 [H4 [H5 H6]]]]]]].
    exists i, j, (nth i all dflt_psend), (nth j all dflt_psend).
    split; [exact H1|]. split; [apply nth_error_nth'; lia|]. split; [apply nth_error_nth'; lia|].
    split; [exact H4|]. split; [exact H5|exact H6].
  - intros [i [j [a [b [H1 [H2 [H3 [H4 [H5 H6]]]]]]]]].
    assert (Hj : (j < length all)%nat) by (apply nth_error_Some; congruence).
    exists i, j. rewrite (nth_error_nth _ _ dflt_psend H2), (nth_error_nth _ _ dflt_psend H3).
    split; [exact H1|]. split; [exact Hj|]. split; [exact Hj|]. split; [exact H4|]. split; [exact H5|exact H6].
Qed.

Theorem hasCoalescible_exact : forall (fp : cmd -> N) (items : list psend),
  N.of_nat (length items) <= c29_stack_item_limit ->
  exists r, hasCoalescibleIdempotentItems fp items = Some r /\ (r = true <-> coalescible_pair items).
Proof.
  intros fp items Hb. rewrite limit_val in Hb. unfold hasCoalescibleIdempotentItems.
  destruct (loop_exact fp items items 0 tbl_init eq_refl eq_refl ltac:(lia) (TInv_init fp items)) as [r [R1 R2]].
  exists r. split; [exact R1|]. rewrite R2. apply pair_upto_iff.
Qed.

Corollary hasCoalescible_false : forall fp items, N.of_nat (length items) <= c29_stack_item_limit ->
  hasCoalescibleIdempotentItems fp items = Some false -> ~ coalescible_pair items.
Proof.
  intros fp items Hb H. destruct (hasCoalescible_exact fp items Hb) as [r [R1 R2]].
  rewrite H in R1. inversion R1; subst r. intro P. apply R2 in P. discriminate.
Qed.

Corollary hasCoalescible_total : forall fp items, N.of_nat (length items) <= c29_stack_item_limit ->
  hasCoalescibleIdempotentItems fp items <> None.
Proof. intros fp items Hb. destruct (hasCoalescible_exact fp items Hb) as [r [R1 _]]. congruence. Qed.

(* ---- newIdempotentAppendBatch is complete ------------------------------------------------------ *)

(* when the payload hash separates the payloads that occur under one key in the
   batch, equal keyed sends always share one owner — for ANY fingerprint function *)
Theorem nb_complete : forall hashf fp items,
  hash_separates hashf items ->
  forall i j, (i < j)%nat -> (j < length items)%nat ->
  keyed (cmdat items i) = true -> cmdat items i = cmdat items j ->
  let b := newIdempotentAppendBatch hashf fp items in
  owner_of b i = owner_of b j.
Proof.
  intros hashf fp items HS i j Hij Hj Ki E b. unfold b, newIdempotentAppendBatch.
  destruct (length items <? 2)%nat eqn:L2; [apply Nat.ltb_lt in L2; lia|].
  destruct (N.of_nat (length items) <=? c29_stack_item_limit) eqn:Lb; cbn [andb].
  - destruct (hasCoalescibleIdempotentItems fp items) as [[|]|] eqn:H.
    + apply pass_complete; assumption.
    + exfalso. apply N.leb_le in Lb. apply (hasCoalescible_false fp items Lb H).
      exists i, j, (nth i items dflt_psend), (nth j items dflt_psend).
      split; [exact Hij|]. split; [apply nth_error_nth'; lia|]. split; [apply nth_error_nth'; lia|].
      unfold cmdat in *. split; [exact Ki|]. split; [rewrite <- E; exact Ki|]. apply same_eq. exact E.
    + apply pass_complete; assumption.
  - apply pass_complete; assumption.
Qed.
