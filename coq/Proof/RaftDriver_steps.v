(* Proof/RaftDriver_steps.v — C12: the op list of every step of the driver model
   is a valid sequence (Proof/RaftDriver_inv.v) under the library hypotheses, and
   the step re-establishes the step-boundary invariant.  Hence the invariant
   holds in every reachable state, whatever the schedule and wherever a crash
   cuts a step. *)
From WK Require Import Base.Base Model.RaftDriver Proof.RaftDriver_lists Proof.RaftDriver_exec Proof.RaftDriver_inv.
From Coq Require Import Sorted ZifyBool ZifyN ZifyNat.
Open Scope N_scope.

Section Steps.

Variable clog : N -> entry.
Hypothesis clog_idx : forall i, e_idx (clog i) = i.
Variable GS : entry -> Prop.
Variable TrackHyp : node -> list entry -> Prop.
(* the hypothesis about tracked entries only looks at the futures waiting in submittedProposals *)
Hypothesis TrackHyp_submitted :
  forall s s' ents, v_submitted s' = v_submitted s -> TrackHyp s ents -> TrackHyp s' ents.

Notation centries := (centries clog).
Notation clean := (clean clog).
Notation sound := (sound clog).
Notation complete := (complete clog).
Notation call_ok := (call_ok clog).
Notation calls_ok := (calls_ok clog).
Notation INV := (INV clog GS).
Notation mop_valid := (mop_valid clog GS TrackHyp).
Notation valid_seq := (valid_seq clog GS TrackHyp).
Notation snap_good := (snap_good clog).
Notation known := (known GS).

(* what the apply machinery leaves alone *)
Definition keeps (s s' : node) : Prop :=
  v_queue s' = v_queue s /\ v_applying s' = v_applying s /\ dur_of s' = dur_of s
  /\ v_submitted s' = v_submitted s /\ durable_sm s' = durable_sm s.

Lemma keeps_refl s : keeps s s.
Proof. unfold keeps. repeat split; reflexivity. Qed.

Lemma keeps_trans a b c : keeps a b -> keeps b c -> keeps a c.
Proof. unfold keeps. intros (A1 & A2 & A3 & A4 & A5) (B1 & B2 & B3 & B4 & B5). repeat split; congruence. Qed.

Lemma subset_refl (l : list entry) : forall x, In x l -> In x l.
Proof. auto. Qed.

(* ---- single operations --------------------------------------------------------------------- *)

Lemma exec_call_facts c s :
  live s ->
  let s' := exec (OCall c) s in
  g_pos s' = N.max (g_pos s) (lastApplied c (sm_idx s))
  /\ v_applied s' = v_applied s
  /\ applied_tr (n_tr s') = applied_tr (n_tr s) ++ c
  /\ keeps s s'.
Proof.
  intro L. cbn zeta. rewrite (exec_live _ _ L). unfold keeps, dur_of. nsimpl.
  rewrite applied_tr_app. cbn [applied_tr flat_map applied_of_event]. rewrite app_nil_r.
  repeat split; reflexivity.
Qed.

Lemma exec_mark_facts idx s :
  live s -> durable_sm s = true -> v_applied s < idx -> sm_idx s <= idx ->
  let s' := exec (OMarkApplied idx) s in
  live s' /\ g_pos s' = N.max (g_pos s) idx /\ v_applied s' = idx
  /\ applied_tr (n_tr s') = applied_tr (n_tr s) /\ keeps s s'.
Proof.
  intros L D Hlt Hle. cbn zeta. rewrite (exec_live _ _ L).
  replace (idx <=? v_applied s) with false by (symmetry; apply N.leb_gt; exact Hlt).
  unfold markApplied. rewrite D.
  replace (idx <? sm_idx s) with false by (symmetry; apply N.ltb_ge; exact Hle).
  destruct L as [LU LF].
  destruct (sm_idx s =? idx); unfold keeps, dur_of, live; nsimpl.
  - repeat split; try reflexivity; assumption.
  - rewrite applied_tr_app. cbn [applied_tr flat_map applied_of_event]. rewrite app_nil_r.
    repeat split; try reflexivity; assumption.
Qed.

Lemma exec_mark_noop idx s : live s -> idx <= v_applied s -> exec (OMarkApplied idx) s = s.
Proof.
  intros L H. rewrite (exec_live _ _ L).
  replace (idx <=? v_applied s) with true by (symmetry; apply N.leb_le; exact H). reflexivity.
Qed.

Lemma same_core_keeps s s' : same_core s s' -> v_submitted s' = v_submitted s -> keeps s s'.
Proof.
  unfold same_core, keeps, dur_of.
  intros (Edur & Elog & Ehs & Esnap & Esnapc & Eapp & Esmi & Esmh & Eup & Efail & Eapplying & Evapp & Eq & Epos & Etr) Es.
  repeat split; try assumption. rewrite Elog, Ehs, Esnap. reflexivity.
Qed.

Lemma resolveProposal_submitted e s : v_submitted (resolveProposal e s) = v_submitted s.
Proof.
  unfold resolveProposal. destruct (pend_get (v_pending s) (e_idx e)) as [[t f]|]; [|reflexivity].
  destruct (t =? e_term e); reflexivity.
Qed.

Lemma completeResolutions_submitted ents s : v_submitted (completeResolutions ents s) = v_submitted s.
Proof.
  unfold completeResolutions. revert s. induction ents as [|e r IH]; intro s; cbn [fold_left]; [reflexivity|].
  rewrite IH. apply resolveProposal_submitted.
Qed.

Lemma exec_resolve_facts ents s :
  live s ->
  let s' := exec (OResolve ents) s in
  same_core s s' /\ keeps s s'.
Proof.
  intro L. cbn zeta. rewrite (exec_live _ _ L).
  pose proof (completeResolutions_core ents s) as C. split; [exact C|].
  apply same_core_keeps; [exact C | apply completeResolutions_submitted].
Qed.

Lemma same_core_pos s s' :
  same_core s s' ->
  g_pos s' = g_pos s /\ v_applied s' = v_applied s /\ applied_tr (n_tr s') = applied_tr (n_tr s).
Proof.
  unfold same_core.
  intros (Edur & Elog & Ehs & Esnap & Esnapc & Eapp & Esmi & Esmh & Eup & Efail & Eapplying & Evapp & Eq & Epos & Etr).
  rewrite Etr. repeat split; assumption.
Qed.

(* ---- the calls of one contiguous range ------------------------------------------------------- *)

Lemma calls_phase calls : forall s,
  live s -> INV s -> calls_ok (g_pos s) calls ->
  (forall c, In c calls -> forallb (applied_ok (dur_of s)) c = true) ->
  valid_seq (map OCall calls) s
  /\ let s' := exec_all (map OCall calls) s in
     live s' /\ g_pos s' = calls_end (g_pos s) calls /\ v_applied s' = v_applied s
     /\ applied_tr (n_tr s') = applied_tr (n_tr s) ++ concat calls /\ keeps s s'.
Proof.
  induction calls as [|c calls IH]; intros s L I Hok Hp; cbn [map].
  - split; [exact Logic.I|]. cbn zeta. rewrite exec_all_nil. cbn [calls_end concat]. rewrite app_nil_r.
    repeat split; try reflexivity; try apply L.
  - cbn [calls_ok] in Hok. destruct Hok as [Hc Hrest].
    assert (V : mop_valid (OCall c) s).
    { cbn [RaftDriver_inv.mop_valid]. split; [exact Hc | apply Hp; left; reflexivity]. }
    destruct (INV_exec clog clog_idx GS TrackHyp _ _ I L V) as [I' L'].
    destruct (exec_call_facts c s L) as (Fp & Fa & Ft & Fk). cbn zeta in *.
    set (s1 := exec (OCall c) s) in *.
    assert (Hpos : g_pos s1 = lastApplied c (g_pos s)).
    { rewrite Fp. pose proof (call_ok_last_gt clog clog_idx _ _ Hc) as G.
      destruct Hc as (Hne & _). rewrite (lastApplied_default c (sm_idx s) (g_pos s) Hne). lia. }
    destruct (IH s1 L' I') as (V2 & L2 & P2 & A2 & T2 & K2).
    { rewrite Hpos. exact Hrest. }
    { intros c' Hc'. destruct Fk as (_ & _ & Ed & _). rewrite Ed. apply Hp. right. exact Hc'. }
    split.
    + cbn [RaftDriver_inv.valid_seq]. split; [intros _; exact V | exact V2].
    + rewrite exec_all_cons. fold s1. cbn [calls_end concat]. rewrite <- Hpos.
      split; [exact L2|]. split; [exact P2|]. split; [congruence|].
      split; [rewrite T2, Ft, <- app_assoc; reflexivity|].
      eapply keeps_trans; [exact Fk | exact K2].
Qed.

(* ---- the apply phase of one contiguous range (runApplyTask / the tail of the synchronous path) -------- *)

Lemma In_ace_normal l c e :
  In c (applyCommittedEntries l) -> In e c -> In e l /\ is_normal e = true.
Proof.
  intros Hc He.
  assert (In e (concat (applyCommittedEntries l))) by (apply in_concat; exists c; split; assumption).
  rewrite ace_concat in H. apply filter_In in H. exact H.
Qed.

Lemma calls_mark_phase a k s :
  live s -> INV s -> (0 < k)%nat -> g_pos s <= a -> clean (g_pos s) a ->
  (forall e, In e (centries a k) -> is_normal e = true -> applied_ok (dur_of s) e = true) ->
  let ops := map OCall (applyCommittedEntries (centries a k)) ++ [OMarkApplied (a + N.of_nat k)] in
  valid_seq ops s
  /\ let s' := exec_all ops s in
     live s' /\ g_pos s' = a + N.of_nat k /\ v_applied s' = a + N.of_nat k /\ keeps s s'
     /\ applied_tr (n_tr s') = applied_tr (n_tr s) ++ filter is_normal (centries a k).
Proof.
  intros L I Hk Hpa Hcl Hp. cbn zeta.
  destruct (ace_ok clog clog_idx a k (g_pos s) Hpa Hcl) as (Cok & Cend & Ccl). cbn zeta in *.
  set (calls := applyCommittedEntries (centries a k)) in *.
  destruct (calls_phase calls s L I Cok) as (V1 & L1 & P1 & A1 & T1 & K1).
  { intros c Hc. apply forallb_forall. intros e He.
    destruct (In_ace_normal _ _ _ Hc He) as [Hin Hn]. apply Hp; assumption. }
  cbn zeta in *. set (s1 := exec_all (map OCall calls) s) in *.
  pose proof (INV_exec_all clog clog_idx GS TrackHyp _ _ I V1) as I1. fold s1 in I1.
  assert (Hlt : v_applied s1 < a + N.of_nat k).
  { rewrite A1. destruct I. lia. }
  assert (Hsm : sm_idx s1 <= a + N.of_nat k).
  { destruct I1. lia. }
  assert (Vm : mop_valid (OMarkApplied (a + N.of_nat k)) s1).
  { cbn [RaftDriver_inv.mop_valid]. split; [rewrite P1; exact Ccl | intros _; exact Hsm]. }
  destruct (exec_mark_facts (a + N.of_nat k) s1 L1 (i_durable _ _ _ I1) Hlt Hsm) as (L2 & P2 & A2 & T2 & K2).
  cbn zeta in *. set (s2 := exec (OMarkApplied (a + N.of_nat k)) s1) in *.
  split.
  - apply valid_seq_app. split; [exact V1|]. fold s1. cbn [RaftDriver_inv.valid_seq].
    split; [intros _; exact Vm | exact Logic.I].
  - rewrite exec_all_app. fold s1. rewrite exec_all_cons, exec_all_nil. fold s2.
    split; [exact L2|]. split; [rewrite P2, P1; lia|]. split; [exact A2|].
    split; [eapply keeps_trans; [exact K1 | exact K2]|].
    rewrite T2, T1. unfold calls. rewrite ace_concat. reflexivity.
Qed.

Lemma resolve_valid_after (l : list entry) a k s0 s :
  l = centries a k ->
  applied_tr (n_tr s) = applied_tr (n_tr s0) ++ filter is_normal l ->
  mop_valid (OResolve (filter is_normal l)) s.
Proof.
  intros -> T. cbn [RaftDriver_inv.mop_valid]. intros e He. split.
  - apply filter_In in He. destruct He as [Hin _].
    apply (In_centries clog clog_idx) in Hin. destruct Hin as (i & _ & ->). rewrite clog_idx. reflexivity.
  - rewrite T. apply in_or_app. right. exact He.
Qed.

Lemma apply_phase a k before s :
  live s -> INV s -> (0 < k)%nat -> g_pos s <= a -> clean (g_pos s) a ->
  (forall e, In e (centries a k) -> is_normal e = true -> applied_ok (dur_of s) e = true) ->
  let ops := apply_ops (centries a k) before in
  valid_seq ops s
  /\ let s' := exec_all ops s in
     live s' /\ g_pos s' = a + N.of_nat k /\ v_applied s' = a + N.of_nat k /\ keeps s s'
     /\ (forall x, In x (applied_tr (n_tr s)) -> In x (applied_tr (n_tr s'))).
Proof.
  intros L I Hk Hpa Hcl Hp. cbn zeta. unfold apply_ops.
  rewrite (lastApplied_centries clog clog_idx a k before Hk).
  destruct (calls_mark_phase a k s L I Hk Hpa Hcl Hp) as (V1 & L1 & P1 & A1 & K1 & T1). cbn zeta in *.
  replace (map OCall (applyCommittedEntries (centries a k)) ++
           [OMarkApplied (a + N.of_nat k); OResolve (filter is_normal (centries a k))])
    with ((map OCall (applyCommittedEntries (centries a k)) ++ [OMarkApplied (a + N.of_nat k)])
          ++ [OResolve (filter is_normal (centries a k))]) by (rewrite <- app_assoc; reflexivity).
  set (ops1 := map OCall (applyCommittedEntries (centries a k)) ++ [OMarkApplied (a + N.of_nat k)]) in *.
  set (s1 := exec_all ops1 s) in *.
  pose proof (resolve_valid_after _ a k s s1 eq_refl T1) as Vr.
  destruct (exec_resolve_facts (filter is_normal (centries a k)) s1 L1) as (C3 & K3).
  cbn zeta in *. set (s3 := exec (OResolve (filter is_normal (centries a k))) s1) in *.
  destruct (same_core_pos _ _ C3) as (P3 & A3 & T3).
  split.
  - apply valid_seq_app. split; [exact V1|]. fold s1. cbn [RaftDriver_inv.valid_seq].
    split; [intros _; exact Vr | exact Logic.I].
  - rewrite exec_all_app. fold s1. rewrite exec_all_cons, exec_all_nil. fold s3.
    split; [eapply same_core_live; [exact C3 | exact L1]|].
    split; [congruence|]. split; [congruence|].
    split; [eapply keeps_trans; [exact K1 | exact K3]|].
    intros x Hx. rewrite T3, T1. apply in_or_app. left. exact Hx.
Qed.

(* ---- the step-boundary invariant of a running slot ------------------------------------------------------ *)

Definition BINV (s : node) : Prop :=
  g_pos s = v_applied s
  /\ (exists n, concat (map t_ents (v_queue s)) = centries (g_pos s) n /\ v_applying s = g_pos s + N.of_nat n)
  /\ (forall t, In t (v_queue s) -> t_ents t <> [])
  /\ (forall t, In t (v_queue s) -> forall e, In e (t_ents t) -> is_normal e = true ->
        applied_ok (dur_of s) e = true).

(* waitApplyIdle: every queued task runs *)
Lemma drain_phase q : forall s,
  live s -> INV s -> v_queue s = q -> BINV s ->
  valid_seq (drain q) s
  /\ let s' := exec_all (drain q) s in
     live s' /\ v_queue s' = [] /\ g_pos s' = v_applying s /\ v_applied s' = v_applying s
     /\ v_applying s' = v_applying s /\ dur_of s' = dur_of s /\ v_submitted s' = v_submitted s
     /\ (forall x, In x (applied_tr (n_tr s)) -> In x (applied_tr (n_tr s'))).
Proof.
  induction q as [|t q IH]; intros s L I Eq (B1 & (n & Bq & Ba) & Bne & Bp).
  - cbn [drain flat_map]. split; [exact Logic.I|]. cbn zeta. rewrite exec_all_nil.
    rewrite Eq in Bq. cbn [map concat] in Bq.
    assert (n = 0)%nat.
    { apply (f_equal (@length _)) in Bq. rewrite centries_length in Bq. cbn in Bq. lia. }
    subst n. repeat split; try assumption; try reflexivity; try apply L; try lia. auto.
  - unfold drain. cbn [flat_map]. fold (drain q). unfold runApplyTask.
    rewrite Eq in Bq. cbn [map concat] in Bq.
    destruct (centries_split clog clog_idx _ _ _ _ Bq) as [E1 E2].
    set (k := length (t_ents t)) in *.
    assert (Hk : (0 < k)%nat).
    { specialize (Bne t). rewrite Eq in Bne. specialize (Bne (or_introl eq_refl)).
      unfold k. destruct (t_ents t); [congruence | cbn; lia]. }
    destruct (apply_phase (g_pos s) k (t_before t) s L I Hk (N.le_refl _)) as (V1 & L1 & P1 & A1 & K1 & T1).
    { apply (clean_refl clog clog_idx). lia. }
    { intros e He Hn. apply (Bp t); [rewrite Eq; left; reflexivity | rewrite E1; exact He | exact Hn]. }
    cbn zeta in *. rewrite <- E1 in *.
    set (s1 := exec_all (apply_ops (t_ents t) (t_before t)) s) in *.
    pose proof (INV_exec_all clog clog_idx GS TrackHyp _ _ I V1) as I1. fold s1 in I1.
    destruct K1 as (Kq & Kap & Kd & Ks & Kdu).
    set (s2 := exec ODequeue s1).
    assert (E2q : s2 = set_volatile (v_up s1) (v_failed s1) (v_applying s1) (v_applied s1) (tl (v_queue s1)) s1).
    { unfold s2. rewrite (exec_live _ _ L1). reflexivity. }
    assert (L2 : live s2) by (rewrite E2q; destruct L1; split; nsimpl; assumption).
    assert (I2 : INV s2).
    { unfold s2. apply (INV_exec clog clog_idx GS TrackHyp); [exact I1 | exact L1 | exact Logic.I]. }
    destruct (IH s2 L2 I2) as (V3 & L3 & Q3 & P3 & A3 & Ap3 & D3 & S3 & T3).
    { rewrite E2q. nsimpl. rewrite Kq, Eq. reflexivity. }
    { rewrite E2q. unfold BINV, dur_of. nsimpl. rewrite Kq, Eq. cbn [tl].
      split; [congruence|]. split.
      - exists (n - k)%nat. split; [rewrite P1; exact E2|]. rewrite Kap, Ba, P1.
        assert (k <= n)%nat.
        { apply (f_equal (@length _)) in Bq. rewrite app_length, centries_length in Bq. unfold k. lia. }
        lia.
      - split.
        + intros t' Ht'. apply Bne. rewrite Eq. right. exact Ht'.
        + intros t' Ht' e He Hn. unfold dur_of in Kd. injection Kd as -> -> ->.
          apply (Bp t'); [rewrite Eq; right; exact Ht' | exact He | exact Hn]. }
    cbn zeta in *.
    assert (Es2 : v_applying s2 = v_applying s) by (rewrite E2q; nsimpl; exact Kap).
    assert (Ed2 : dur_of s2 = dur_of s) by (rewrite E2q; unfold dur_of in *; nsimpl; exact Kd).
    assert (Esub2 : v_submitted s2 = v_submitted s) by (rewrite E2q; nsimpl; exact Ks).
    assert (Et2 : n_tr s2 = n_tr s1) by (rewrite E2q; reflexivity).
    split.
    + rewrite <- app_assoc. apply valid_seq_app. split; [exact V1|]. fold s1.
      cbn [app RaftDriver_inv.valid_seq]. split; [intros _; exact Logic.I | exact V3].
    + rewrite <- app_assoc, exec_all_app. fold s1. cbn [app]. rewrite exec_all_cons. fold s2.
      split; [exact L3|]. split; [exact Q3|]. split; [congruence|]. split; [congruence|].
      split; [congruence|]. split; [congruence|]. split; [congruence|].
      intros x Hx. apply T3. rewrite Et2. apply T1. exact Hx.
Qed.

End Steps.
