(* Proof/RaftDriver_steps.v — C12: the op list of every step of the driver model
   is a valid sequence (Proof/RaftDriver_inv.v) under the library hypotheses, and
   the step re-establishes the step-boundary invariant.  Hence the invariant
   holds in every reachable state, whatever the schedule and wherever a crash
   cuts a step. *)
From WK Require Import Base.Base Model.RaftDriver Proof.RaftDriver_lists Proof.RaftDriver_exec Proof.RaftDriver_inv.
From Coq Require Import Sorted ZifyBool ZifyN ZifyNat.
Open Scope N_scope.

Section Steps.

Variable clog : N -> entry.
Hypothesis clog_idx : forall i, e_idx (clog i) = i.
Variable GS : entry -> Prop.
Variable TrackHyp : node -> list entry -> Prop.
(* the hypothesis about tracked entries only looks at the futures waiting in submittedProposals *)
Hypothesis TrackHyp_submitted :
  forall s s' ents, v_submitted s' = v_submitted s -> TrackHyp s ents -> TrackHyp s' ents.

Notation centries := (centries clog).
Notation clean := (clean clog).
Notation sound := (sound clog).
Notation complete := (complete clog).
Notation call_ok := (call_ok clog).
Notation calls_ok := (calls_ok clog).
Notation INV := (INV clog GS).
Notation mop_valid := (mop_valid clog GS TrackHyp).
Notation valid_seq := (valid_seq clog GS TrackHyp).
Notation snap_good := (snap_good clog).
Notation known := (known GS).

(* what the apply machinery leaves alone *)
Definition keeps (s s' : node) : Prop :=
  v_queue s' = v_queue s /\ v_applying s' = v_applying s /\ dur_of s' = dur_of s
  /\ v_submitted s' = v_submitted s /\ durable_sm s' = durable_sm s.

Lemma keeps_refl s : keeps s s.
Proof. unfold keeps. repeat split; reflexivity. Qed.

Lemma keeps_trans a b c : keeps a b -> keeps b c -> keeps a c.
Proof. unfold keeps. intros (A1 & A2 & A3 & A4 & A5) (B1 & B2 & B3 & B4 & B5). repeat split; congruence. Qed.

Lemma subset_refl (l : list entry) : forall x, In x l -> In x l.
Proof. auto. Qed.

(* ---- single operations --------------------------------------------------------------------- *)

Lemma exec_call_facts c s :
  live s ->
  let s' := exec (OCall c) s in
  g_pos s' = N.max (g_pos s) (lastApplied c (sm_idx s))
  /\ v_applied s' = v_applied s
  /\ applied_tr (n_tr s') = applied_tr (n_tr s) ++ c
  /\ keeps s s'.
Proof.
  intro L. cbn zeta. rewrite (exec_live _ _ L). unfold keeps, dur_of. nsimpl.
  rewrite applied_tr_app. cbn [applied_tr flat_map applied_of_event]. rewrite app_nil_r.
  repeat split; reflexivity.
Qed.

Lemma exec_mark_facts idx s :
  live s -> durable_sm s = true -> v_applied s < idx -> sm_idx s <= idx ->
  let s' := exec (OMarkApplied idx) s in
  live s' /\ g_pos s' = N.max (g_pos s) idx /\ v_applied s' = idx
  /\ applied_tr (n_tr s') = applied_tr (n_tr s) /\ keeps s s'.
Proof.
  intros L D Hlt Hle. cbn zeta. rewrite (exec_live _ _ L).
  replace (idx <=? v_applied s) with false by (symmetry; apply N.leb_gt; exact Hlt).
  unfold markApplied. rewrite D.
  replace (idx <? sm_idx s) with false by (symmetry; apply N.ltb_ge; exact Hle).
  destruct L as [LU LF].
  destruct (sm_idx s =? idx); unfold keeps, dur_of, live; nsimpl.
  - repeat split; try reflexivity; assumption.
  - rewrite applied_tr_app. cbn [applied_tr flat_map applied_of_event]. rewrite app_nil_r.
    repeat split; try reflexivity; assumption.
Qed.

Lemma exec_mark_noop idx s : live s -> idx <= v_applied s -> exec (OMarkApplied idx) s = s.
Proof.
  intros L H. rewrite (exec_live _ _ L).
  replace (idx <=? v_applied s) with true by (symmetry; apply N.leb_le; exact H). reflexivity.
Qed.

Lemma same_core_keeps s s' : same_core s s' -> v_submitted s' = v_submitted s -> keeps s s'.
Proof.
  unfold same_core, keeps, dur_of.
  intros (Edur & Elog & Ehs & Esnap & Esnapc & Eapp & Esmi & Esmh & Eup & Efail & Eapplying & Evapp & Eq & Epos & Etr) Es.
  repeat split; try assumption. rewrite Elog, Ehs, Esnap. reflexivity.
Qed.

Lemma resolveProposal_submitted e s : v_submitted (resolveProposal e s) = v_submitted s.
Proof.
  unfold resolveProposal. destruct (pend_get (v_pending s) (e_idx e)) as [[t f]|]; [|reflexivity].
  destruct (t =? e_term e); reflexivity.
Qed.

Lemma completeResolutions_submitted ents s : v_submitted (completeResolutions ents s) = v_submitted s.
Proof.
  unfold completeResolutions. revert s. induction ents as [|e r IH]; intro s; cbn [fold_left]; [reflexivity|].
  rewrite IH. apply resolveProposal_submitted.
Qed.

Lemma exec_resolve_facts ents s :
  live s ->
  let s' := exec (OResolve ents) s in
  same_core s s' /\ keeps s s'.
Proof.
  intro L. cbn zeta. rewrite (exec_live _ _ L).
  pose proof (completeResolutions_core ents s) as C. split; [exact C|].
  apply same_core_keeps; [exact C | apply completeResolutions_submitted].
Qed.

Lemma same_core_pos s s' :
  same_core s s' ->
  g_pos s' = g_pos s /\ v_applied s' = v_applied s /\ applied_tr (n_tr s') = applied_tr (n_tr s).
Proof.
  unfold same_core.
  intros (Edur & Elog & Ehs & Esnap & Esnapc & Eapp & Esmi & Esmh & Eup & Efail & Eapplying & Evapp & Eq & Epos & Etr).
  rewrite Etr. repeat split; assumption.
Qed.

(* ---- the calls of one contiguous range ------------------------------------------------------- *)

Lemma calls_phase calls : forall s,
  live s -> INV s -> calls_ok (g_pos s) calls ->
  (forall c, In c calls -> forallb (applied_ok (dur_of s)) c = true) ->
  valid_seq (map OCall calls) s
  /\ let s' := exec_all (map OCall calls) s in
     live s' /\ g_pos s' = calls_end (g_pos s) calls /\ v_applied s' = v_applied s
     /\ applied_tr (n_tr s') = applied_tr (n_tr s) ++ concat calls /\ keeps s s'.
Proof.
  induction calls as [|c calls IH]; intros s L I Hok Hp; cbn [map].
  - split; [exact Logic.I|]. cbn zeta. rewrite exec_all_nil. cbn [calls_end concat]. rewrite app_nil_r.
    repeat split; try reflexivity; try apply L.
  - cbn [calls_ok] in Hok. destruct Hok as [Hc Hrest].
    assert (V : mop_valid (OCall c) s).
    { cbn [RaftDriver_inv.mop_valid]. split; [exact Hc | apply Hp; left; reflexivity]. }
    destruct (INV_exec clog clog_idx GS TrackHyp _ _ I L V) as [I' L'].
    destruct (exec_call_facts c s L) as (Fp & Fa & Ft & Fk). cbn zeta in *.
    set (s1 := exec (OCall c) s) in *.
    assert (Hpos : g_pos s1 = lastApplied c (g_pos s)).
    { rewrite Fp. pose proof (call_ok_last_gt clog clog_idx _ _ Hc) as G.
      destruct Hc as (Hne & _). rewrite (lastApplied_default c (sm_idx s) (g_pos s) Hne). lia. }
    destruct (IH s1 L' I') as (V2 & L2 & P2 & A2 & T2 & K2).
    { rewrite Hpos. exact Hrest. }
    { intros c' Hc'. destruct Fk as (_ & _ & Ed & _). rewrite Ed. apply Hp. right. exact Hc'. }
    split.
    + cbn [RaftDriver_inv.valid_seq]. split; [intros _; exact V | exact V2].
    + rewrite exec_all_cons. fold s1. cbn [calls_end concat]. rewrite <- Hpos.
      split; [exact L2|]. split; [exact P2|]. split; [congruence|].
      split; [rewrite T2, Ft, <- app_assoc; reflexivity|].
      eapply keeps_trans; [exact Fk | exact K2].
Qed.

(* ---- the apply phase of one contiguous range (runApplyTask / the tail of the synchronous path) -------- *)

Lemma In_ace_normal l c e :
  In c (applyCommittedEntries l) -> In e c -> In e l /\ is_normal e = true.
Proof.
  intros Hc He.
  assert (In e (concat (applyCommittedEntries l))) by (apply in_concat; exists c; split; assumption).
  rewrite ace_concat in H. apply filter_In in H. exact H.
Qed.

Lemma calls_mark_phase a k s :
  live s -> INV s -> (0 < k)%nat -> g_pos s <= a -> clean (g_pos s) a ->
  (forall e, In e (centries a k) -> is_normal e = true -> applied_ok (dur_of s) e = true) ->
  let ops := map OCall (applyCommittedEntries (centries a k)) ++ [OMarkApplied (a + N.of_nat k)] in
  valid_seq ops s
  /\ let s' := exec_all ops s in
     live s' /\ g_pos s' = a + N.of_nat k /\ v_applied s' = a + N.of_nat k /\ keeps s s'
     /\ applied_tr (n_tr s') = applied_tr (n_tr s) ++ filter is_normal (centries a k).
Proof.
  intros L I Hk Hpa Hcl Hp. cbn zeta.
  destruct (ace_ok clog clog_idx a k (g_pos s) Hpa Hcl) as (Cok & Cend & Ccl). cbn zeta in *.
  set (calls := applyCommittedEntries (centries a k)) in *.
  destruct (calls_phase calls s L I Cok) as (V1 & L1 & P1 & A1 & T1 & K1).
  { intros c Hc. apply forallb_forall. intros e He.
    destruct (In_ace_normal _ _ _ Hc He) as [Hin Hn]. apply Hp; assumption. }
  cbn zeta in *. set (s1 := exec_all (map OCall calls) s) in *.
  pose proof (INV_exec_all clog clog_idx GS TrackHyp _ _ I V1) as I1. fold s1 in I1.
  assert (Hlt : v_applied s1 < a + N.of_nat k).
  { rewrite A1. destruct I. lia. }
  assert (Hsm : sm_idx s1 <= a + N.of_nat k).
  { destruct I1. lia. }
  assert (Vm : mop_valid (OMarkApplied (a + N.of_nat k)) s1).
  { cbn [RaftDriver_inv.mop_valid]. split; [rewrite P1; exact Ccl | intros _; exact Hsm]. }
  destruct (exec_mark_facts (a + N.of_nat k) s1 L1 (i_durable _ _ _ I1) Hlt Hsm) as (L2 & P2 & A2 & T2 & K2).
  cbn zeta in *. set (s2 := exec (OMarkApplied (a + N.of_nat k)) s1) in *.
  split.
  - apply valid_seq_app. split; [exact V1|]. fold s1. cbn [RaftDriver_inv.valid_seq].
    split; [intros _; exact Vm | exact Logic.I].
  - rewrite exec_all_app. fold s1. rewrite exec_all_cons, exec_all_nil. fold s2.
    split; [exact L2|]. split; [rewrite P2, P1; lia|]. split; [exact A2|].
    split; [eapply keeps_trans; [exact K1 | exact K2]|].
    rewrite T2, T1. unfold calls. rewrite ace_concat. reflexivity.
Qed.

Lemma resolve_valid_after (l : list entry) a k s0 s :
  l = centries a k ->
  applied_tr (n_tr s) = applied_tr (n_tr s0) ++ filter is_normal l ->
  mop_valid (OResolve (filter is_normal l)) s.
Proof.
  intros -> T. cbn [RaftDriver_inv.mop_valid]. intros e He. split.
  - apply filter_In in He. destruct He as [Hin _].
    apply (In_centries clog clog_idx) in Hin. destruct Hin as (i & _ & ->). rewrite clog_idx. reflexivity.
  - rewrite T. apply in_or_app. right. exact He.
Qed.

Lemma apply_phase a k before s :
  live s -> INV s -> (0 < k)%nat -> g_pos s <= a -> clean (g_pos s) a ->
  (forall e, In e (centries a k) -> is_normal e = true -> applied_ok (dur_of s) e = true) ->
  let ops := apply_ops (centries a k) before in
  valid_seq ops s
  /\ let s' := exec_all ops s in
     live s' /\ g_pos s' = a + N.of_nat k /\ v_applied s' = a + N.of_nat k /\ keeps s s'
     /\ (forall x, In x (applied_tr (n_tr s)) -> In x (applied_tr (n_tr s'))).
Proof.
  intros L I Hk Hpa Hcl Hp. cbn zeta. unfold apply_ops.
  rewrite (lastApplied_centries clog clog_idx a k before Hk).
  destruct (calls_mark_phase a k s L I Hk Hpa Hcl Hp) as (V1 & L1 & P1 & A1 & K1 & T1). cbn zeta in *.
  replace (map OCall (applyCommittedEntries (centries a k)) ++
           [OMarkApplied (a + N.of_nat k); OResolve (filter is_normal (centries a k))])
    with ((map OCall (applyCommittedEntries (centries a k)) ++ [OMarkApplied (a + N.of_nat k)])
          ++ [OResolve (filter is_normal (centries a k))]) by (rewrite <- app_assoc; reflexivity).
  set (ops1 := map OCall (applyCommittedEntries (centries a k)) ++ [OMarkApplied (a + N.of_nat k)]) in *.
  set (s1 := exec_all ops1 s) in *.
  pose proof (resolve_valid_after _ a k s s1 eq_refl T1) as Vr.
  destruct (exec_resolve_facts (filter is_normal (centries a k)) s1 L1) as (C3 & K3).
  cbn zeta in *. set (s3 := exec (OResolve (filter is_normal (centries a k))) s1) in *.
  destruct (same_core_pos _ _ C3) as (P3 & A3 & T3).
  split.
  - apply valid_seq_app. split; [exact V1|]. fold s1. cbn [RaftDriver_inv.valid_seq].
    split; [intros _; exact Vr | exact Logic.I].
  - rewrite exec_all_app. fold s1. rewrite exec_all_cons, exec_all_nil. fold s3.
    split; [eapply same_core_live; [exact C3 | exact L1]|].
    split; [congruence|]. split; [congruence|].
    split; [eapply keeps_trans; [exact K1 | exact K3]|].
    intros x Hx. rewrite T3, T1. apply in_or_app. left. exact Hx.
Qed.

(* ---- the step-boundary invariant of a running slot ------------------------------------------------------ *)

Definition BINV (s : node) : Prop :=
  g_pos s = v_applied s
  /\ (exists n, concat (map t_ents (v_queue s)) = centries (g_pos s) n /\ v_applying s = g_pos s + N.of_nat n)
  /\ (forall t, In t (v_queue s) -> t_ents t <> [])
  /\ (forall t, In t (v_queue s) -> forall e, In e (t_ents t) -> is_normal e = true ->
        applied_ok (dur_of s) e = true).

(* waitApplyIdle: every queued task runs *)
Lemma drain_phase q : forall s,
  live s -> INV s -> v_queue s = q -> BINV s ->
  valid_seq (drain q) s
  /\ let s' := exec_all (drain q) s in
     live s' /\ v_queue s' = [] /\ g_pos s' = v_applying s /\ v_applied s' = v_applying s
     /\ v_applying s' = v_applying s /\ dur_of s' = dur_of s /\ v_submitted s' = v_submitted s
     /\ (forall x, In x (applied_tr (n_tr s)) -> In x (applied_tr (n_tr s'))).
Proof.
  induction q as [|t q IH]; intros s L I Eq (B1 & (n & Bq & Ba) & Bne & Bp).
  - cbn [drain flat_map]. split; [exact Logic.I|]. cbn zeta. rewrite exec_all_nil.
    rewrite Eq in Bq. cbn [map concat] in Bq.
    assert (n = 0)%nat.
    { apply (f_equal (@length _)) in Bq. rewrite centries_length in Bq. cbn in Bq. lia. }
    subst n. repeat split; try assumption; try reflexivity; try apply L; try lia. auto.
  - unfold drain. cbn [flat_map]. fold (drain q). unfold runApplyTask.
    rewrite Eq in Bq. cbn [map concat] in Bq.
    destruct (centries_split clog clog_idx _ _ _ _ Bq) as [E1 E2].
    set (k := length (t_ents t)) in *.
    assert (Hk : (0 < k)%nat).
    { specialize (Bne t). rewrite Eq in Bne. specialize (Bne (or_introl eq_refl)).
      unfold k. destruct (t_ents t); [congruence | cbn; lia]. }
    destruct (apply_phase (g_pos s) k (t_before t) s L I Hk (N.le_refl _)) as (V1 & L1 & P1 & A1 & K1 & T1).
    { apply (clean_refl clog clog_idx). lia. }
    { intros e He Hn. apply (Bp t); [rewrite Eq; left; reflexivity | rewrite E1; exact He | exact Hn]. }
    cbn zeta in *. rewrite <- E1 in *.
    set (s1 := exec_all (apply_ops (t_ents t) (t_before t)) s) in *.
    pose proof (INV_exec_all clog clog_idx GS TrackHyp _ _ I V1) as I1. fold s1 in I1.
    destruct K1 as (Kq & Kap & Kd & Ks & Kdu).
    set (s2 := exec ODequeue s1).
    assert (E2q : s2 = set_volatile (v_up s1) (v_failed s1) (v_applying s1) (v_applied s1) (tl (v_queue s1)) s1).
    { unfold s2. rewrite (exec_live _ _ L1). reflexivity. }
    assert (L2 : live s2) by (rewrite E2q; destruct L1; split; nsimpl; assumption).
    assert (I2 : INV s2).
    { unfold s2. apply (INV_exec clog clog_idx GS TrackHyp); [exact I1 | exact L1 | exact Logic.I]. }
    destruct (IH s2 L2 I2) as (V3 & L3 & Q3 & P3 & A3 & Ap3 & D3 & S3 & T3).
    { rewrite E2q. nsimpl. rewrite Kq, Eq. reflexivity. }
    { rewrite E2q. unfold BINV, dur_of. nsimpl. rewrite Kq, Eq. cbn [tl].
      split; [congruence|]. split.
      - exists (n - k)%nat. split; [rewrite P1; exact E2|]. rewrite Kap, Ba, P1.
        assert (k <= n)%nat.
        { apply (f_equal (@length _)) in Bq. rewrite app_length, centries_length in Bq. unfold k. lia. }
        lia.
      - split.
        + intros t' Ht'. apply Bne. rewrite Eq. right. exact Ht'.
        + intros t' Ht' e He Hn. unfold dur_of in Kd. injection Kd as -> -> ->.
          apply (Bp t'); [rewrite Eq; right; exact Ht' | exact He | exact Hn]. }
    cbn zeta in *.
    assert (Es2 : v_applying s2 = v_applying s) by (rewrite E2q; nsimpl; exact Kap).
    assert (Ed2 : dur_of s2 = dur_of s) by (rewrite E2q; unfold dur_of in *; nsimpl; exact Kd).
    assert (Esub2 : v_submitted s2 = v_submitted s) by (rewrite E2q; nsimpl; exact Ks).
    assert (Et2 : n_tr s2 = n_tr s1) by (rewrite E2q; reflexivity).
    split.
    + rewrite <- app_assoc. apply valid_seq_app. split; [exact V1|]. fold s1.
      cbn [app RaftDriver_inv.valid_seq]. split; [intros _; exact Logic.I | exact V3].
    + rewrite <- app_assoc, exec_all_app. fold s1. cbn [app]. rewrite exec_all_cons. fold s2.
      split; [exact L3|]. split; [exact Q3|]. split; [congruence|]. split; [congruence|].
      split; [congruence|]. split; [congruence|]. split; [congruence|].
      intros x Hx. apply T3. rewrite Et2. apply T1. exact Hx.
Qed.


(* ---- Storage.Save and what it leaves of the persist facts ------------------------------------------------ *)

Lemma log_get_app a b i :
  log_get (a ++ b) i = match log_get a i with Some v => Some v | None => log_get b i end.
Proof.
  induction a as [|x a IH]; cbn [app log_get]; [reflexivity|].
  destruct (e_idx x =? i); [reflexivity | exact IH].
Qed.

Lemma log_get_filter_lt log f i :
  i < f -> log_get (filter (fun x => e_idx x <? f) log) i = log_get log i.
Proof.
  intro H. induction log as [|x log IH]; cbn [filter log_get]; [reflexivity|].
  destruct (e_idx x <? f) eqn:E; cbn [log_get].
  - destruct (e_idx x =? i); [reflexivity | exact IH].
  - destruct (e_idx x =? i) eqn:E2; [|exact IH]. apply N.eqb_eq in E2. apply N.ltb_ge in E. lia.
Qed.

Lemma log_get_none_gt b i : (forall x, In x b -> i < e_idx x) -> log_get b i = None.
Proof.
  induction b as [|x b IH]; intro H; cbn [log_get]; [reflexivity|].
  destruct (e_idx x =? i) eqn:E.
  - apply N.eqb_eq in E. specialize (H x (or_introl eq_refl)). lia.
  - apply IH. intros y Hy. apply H. right. exact Hy.
Qed.

Lemma log_get_put log ents i :
  (forall x, In x ents -> i < e_idx x) -> log_get (log_put log ents) i = log_get log i.
Proof.
  intro H. unfold log_put. destruct ents as [|e0 r]; [reflexivity|].
  rewrite log_get_app, log_get_filter_lt by (apply H; left; reflexivity).
  destruct (log_get log i); [reflexivity|]. apply log_get_none_gt. exact H.
Qed.

Lemma applied_ok_stable d hs ents snap e :
  (forall h, hs = Some h -> hs_commit (u_hs d) <= hs_commit h) ->
  (forall x, In x ents -> hs_commit (u_hs d) < e_idx x) ->
  applied_ok d e = true -> applied_ok (dur_save d hs ents snap) e = true.
Proof.
  intros Hh He H. unfold applied_ok in *. apply andb_true_iff in H. destruct H as [Hc Hl].
  apply N.leb_le in Hc. unfold dur_save. cbn [u_hs u_log].
  apply andb_true_iff. split.
  - apply N.leb_le. destruct hs as [h|]; [specialize (Hh h eq_refl); lia | exact Hc].
  - rewrite log_get_put; [exact Hl|]. intros x Hx. specialize (He x Hx). lia.
Qed.

Definition dur_after (s : node) (rd : ready) : dur :=
  dur_save (dur_of s) (rd_hs rd) (rd_ents rd) (snap_meta (rd_snap rd)).

Lemma exec_save_facts hs ents snap s :
  live s ->
  let s' := exec (OSave hs ents snap) s in
  live s' /\ dur_of s' = dur_save (dur_of s) hs ents (snap_meta snap)
  /\ g_pos s' = g_pos s /\ v_applied s' = v_applied s /\ v_queue s' = v_queue s
  /\ v_applying s' = v_applying s /\ v_submitted s' = v_submitted s
  /\ applied_tr (n_tr s') = applied_tr (n_tr s)
  /\ (forall i t c, snap = Some (i, t, c) -> d_snap s' = i).
Proof.
  intro L. cbn zeta. destruct (exec_save_live hs ents snap s L) as [(-> & -> & -> & E)|E]; rewrite E.
  - unfold dur_save, dur_of. cbn [snap_meta log_put u_log u_hs u_snap].
    repeat split; try reflexivity; try apply L. intros; discriminate.
  - unfold save_body, dur_save, dur_of. destruct snap as [[[i t] c]|]; cbn zeta; nsimpl;
      rewrite applied_tr_app; cbn [applied_tr flat_map applied_of_event snap_meta u_log u_hs u_snap]; rewrite app_nil_r;
      (repeat split; try reflexivity; try apply L).
    + intros i0 t0 c0 H. injection H as -> _ _. reflexivity.
    + intros; discriminate.
Qed.

(* ---- operations that only touch bookkeeping ------------------------------------------------------------------- *)

Definition BINV_fields (s s' : node) : Prop :=
  g_pos s' = g_pos s /\ v_applied s' = v_applied s /\ v_queue s' = v_queue s
  /\ v_applying s' = v_applying s /\ dur_of s' = dur_of s.

Lemma BINV_fields_inv s s' : BINV_fields s s' -> BINV s -> BINV s'.
Proof.
  unfold BINV_fields, BINV. intros (E1 & E2 & E3 & E4 & E5). rewrite E1, E2, E3, E4, E5. tauto.
Qed.

Lemma same_core_BINV_fields s s' : same_core s s' -> BINV_fields s s'.
Proof.
  unfold same_core, BINV_fields, dur_of.
  intros (Edur & Elog & Ehs & Esnap & Esnapc & Eapp & Esmi & Esmh & Eup & Efail & Eapplying & Evapp & Eq & Epos & Etr).
  rewrite Elog, Ehs, Esnap. repeat split; assumption.
Qed.

Lemma exec_send_facts ms s :
  live s ->
  let s' := exec (OSend ms) s in
  live s' /\ BINV_fields s s' /\ applied_tr (n_tr s') = applied_tr (n_tr s) /\ v_submitted s' = v_submitted s.
Proof.
  intro L. cbn zeta. rewrite (exec_live _ _ L). destruct ms as [|m ms].
  - unfold BINV_fields. repeat split; try reflexivity; apply L.
  - unfold BINV_fields, dur_of. nsimpl. rewrite applied_tr_app. cbn [applied_tr flat_map applied_of_event]. rewrite app_nil_r.
    repeat split; try reflexivity; apply L.
Qed.

Lemma exec_track_facts ents s :
  live s -> let s' := exec (OTrack ents) s in same_core s s'.
Proof. intro L. cbn zeta. rewrite (exec_live _ _ L). apply track_core. Qed.

Lemma exec_refresh_facts l s :
  live s -> let s' := exec (ORefresh l) s in same_core s s'.
Proof. intro L. cbn zeta. rewrite (exec_live _ _ L). apply refreshStatus_core. Qed.

Lemma exec_accept_facts upto s :
  live s ->
  let s' := exec (OAccept upto) s in
  live s' /\ g_pos s' = g_pos s /\ v_applied s' = v_applied s /\ v_queue s' = v_queue s
  /\ v_applying s' = N.max (v_applying s) upto /\ dur_of s' = dur_of s
  /\ applied_tr (n_tr s') = applied_tr (n_tr s).
Proof.
  intro L. cbn zeta. rewrite (exec_live _ _ L). unfold dur_of, live. nsimpl.
  repeat split; try reflexivity; apply L.
Qed.

Lemma lastApplied_app l1 l2 d : lastApplied (l1 ++ l2) d = lastApplied l2 (lastApplied l1 d).
Proof.
  destruct l2 as [|x l2]; [rewrite app_nil_r; reflexivity|].
  assert (Hne : x :: l2 <> []) by congruence.
  destruct (exists_last Hne) as (l' & e & ->). rewrite app_assoc, !lastApplied_snoc. reflexivity.
Qed.

Lemma applied_after_concat q a : applied_after q a = lastApplied (concat (map t_ents q)) a.
Proof.
  unfold applied_after. revert a. induction q as [|t q IH]; intro a; cbn [fold_left map concat]; [reflexivity|].
  rewrite IH, lastApplied_app. reflexivity.
Qed.

(* ---- the tail of the synchronous path, pipeline idle ---------------------------------------------------------- *)

Lemma sync_tail_phase rd s a n :
  live s -> INV s -> v_queue s = [] -> g_pos s = a -> v_applied s = a -> v_applying s = a ->
  rd_committed rd = centries a n ->
  (forall e, In e (rd_committed rd) -> is_normal e = true -> applied_ok (dur_of s) e = true) ->
  (forall i t c, rd_snap rd = Some (i, t, c) ->
     n = 0%nat /\ a < i /\ snap_good i c /\ (forall e, In e c -> GS e) /\ d_snap s = i) ->
  valid_seq (syncTail rd) s
  /\ let s' := exec_all (syncTail rd) s in live s' /\ BINV s'.
Proof.
  intros L I Eq Ep Ea Eap Ec Hp Hs. unfold syncTail. rewrite Ec.
  destruct (rd_snap rd) as [[[i t] c]|] eqn:Esn.
  - (* a snapshot from the leader: Restore, nothing to apply *)
    destruct (Hs i t c eq_refl) as (-> & Hai & Hg & Hgs & Hd).
    rewrite centries_0. cbn [applyCommittedEntries applyCommittedEntries_from flushBatch map app filter lastApplied last].
    assert (V1 : mop_valid (ORestore i c) s).
    { cbn [RaftDriver_inv.mop_valid]. split; [exact Hg|]. split; [intro Z; destruct Hg; lia|].
      split; [lia|]. intros e He. right. apply Hgs, He. }
    destruct (INV_exec clog clog_idx GS TrackHyp _ _ I L V1) as [I1 L1].
    set (s1 := exec (ORestore i c) s) in *.
    assert (E1 : s1 = emit (EvRestore i) (set_sm i c i s)) by (unfold s1; rewrite (exec_live _ _ L); reflexivity).
    assert (F1 : g_pos s1 = i /\ sm_idx s1 = i /\ v_applied s1 = a /\ v_queue s1 = [] /\ v_applying s1 = a)
      by (rewrite E1; nsimpl; repeat split; assumption).
    destruct F1 as (P1 & S1 & A1 & Q1 & Ap1).
    assert (V2 : mop_valid (OMarkApplied i) s1).
    { cbn [RaftDriver_inv.mop_valid]. split; [apply (clean_refl clog clog_idx); lia | intros _; lia]. }
    destruct (exec_mark_facts i s1 L1 (i_durable _ _ _ I1)) as (L2 & P2 & A2 & T2 & K2); [lia | lia |].
    cbn zeta in *. set (s2 := exec (OMarkApplied i) s1) in *.
    destruct (INV_exec clog clog_idx GS TrackHyp _ _ I1 L1 V2) as [I2 _]. fold s2 in I2.
    destruct K2 as (Kq & Kap & Kd & Ks & Kdu).
    assert (E3 : exec (OMarkApplied 0) s2 = s2) by (apply exec_mark_noop; [exact L2 | lia]).
    destruct (exec_accept_facts i s2 L2) as (L4 & P4 & A4 & Q4 & Ap4 & D4 & T4). cbn zeta in *.
    set (s4 := exec (OAccept i) s2) in *.
    pose proof (exec_refresh_facts (rd_leader rd) s4 L4) as C5. cbn zeta in C5.
    set (s5 := exec (ORefresh (rd_leader rd)) s4) in *.
    pose proof (same_core_live _ _ C5 L4) as L5.
    destruct (exec_resolve_facts [] s5 L5) as (C6 & _). cbn zeta in C6.
    set (s6 := exec (OResolve []) s5) in *.
    split.
    + cbn [RaftDriver_inv.valid_seq]. split; [intros _; exact V1|]. fold s1.
      split; [intros _; exact V2|]. fold s2. rewrite E3.
      split; [intros _; cbn [RaftDriver_inv.mop_valid]; split; [apply (clean_refl clog clog_idx); lia | intros; lia]|].
      fold s4. split; [intros _; exact Logic.I|]. fold s5.
      split; [intros _; exact Logic.I|]. split; [intros _; intros e []|]. exact Logic.I.
    + cbn zeta. rewrite !exec_all_cons, exec_all_nil. fold s1. fold s2. rewrite E3. fold s4. fold s5. fold s6.
      split; [eapply same_core_live; [exact C6 | exact L5]|].
      apply (BINV_fields_inv s5); [apply same_core_BINV_fields, C6|].
      apply (BINV_fields_inv s4); [apply same_core_BINV_fields, C5|].
      unfold BINV. rewrite P4, A4, Q4, Ap4, P2, A2, Kap, Ap1, P1.
      split; [lia|]. split.
      * exists 0%nat. rewrite Kq, Q1. cbn [map concat]. rewrite centries_0. split; [reflexivity | lia].
      * rewrite Kq, Q1. split; intros t0 [].
  - (* no snapshot *)
    cbn [app].
    destruct n as [|n'].
    + (* nothing committed *)
      rewrite centries_0. cbn [applyCommittedEntries applyCommittedEntries_from flushBatch map app filter lastApplied last].
      assert (E1 : exec (OMarkApplied 0) s = s) by (apply exec_mark_noop; [exact L | lia]).
      destruct (exec_accept_facts 0 s L) as (L2 & P2 & A2 & Q2 & Ap2 & D2 & T2). cbn zeta in *.
      set (s2 := exec (OAccept 0) s) in *.
      pose proof (exec_refresh_facts (rd_leader rd) s2 L2) as C3. cbn zeta in C3.
      set (s3 := exec (ORefresh (rd_leader rd)) s2) in *.
      pose proof (same_core_live _ _ C3 L2) as L3.
      destruct (exec_resolve_facts [] s3 L3) as (C4 & _). cbn zeta in C4.
      set (s4 := exec (OResolve []) s3) in *.
      split.
      * cbn [RaftDriver_inv.valid_seq].
        split; [intros _; cbn [RaftDriver_inv.mop_valid]; split; [apply (clean_refl clog clog_idx); lia | intros; lia]|].
        rewrite E1. fold s2. split; [intros _; exact Logic.I|]. fold s3.
        split; [intros _; exact Logic.I|]. split; [intros _; intros e []|]. exact Logic.I.
      * cbn zeta. rewrite !exec_all_cons, exec_all_nil, E1. fold s2. fold s3. fold s4.
        split; [eapply same_core_live; [exact C4 | exact L3]|].
        apply (BINV_fields_inv s3); [apply same_core_BINV_fields, C4|].
        apply (BINV_fields_inv s2); [apply same_core_BINV_fields, C3|].
        unfold BINV. rewrite P2, A2, Q2, Ap2, Ep, Ea, Eap, Eq.
        split; [reflexivity|]. split.
        -- exists 0%nat. cbn [map concat]. rewrite centries_0. split; [reflexivity | lia].
        -- split; intros t0 [].
    + (* committed entries a+1 .. a+n *)
      set (k := S n') in *.
      assert (Hk : (0 < k)%nat) by (unfold k; lia).
      rewrite !(lastApplied_centries clog clog_idx a k) by exact Hk.
      destruct (calls_mark_phase a k s L I Hk) as (V1 & L1 & P1 & A1 & K1 & T1).
      { lia. } { apply (clean_refl clog clog_idx). lia. }
      { intros e He Hn. apply Hp; [rewrite Ec; exact He | exact Hn]. }
      cbn zeta in *.
      set (ops1 := map OCall (applyCommittedEntries (centries a k)) ++ [OMarkApplied (a + N.of_nat k)]) in *.
      set (s1 := exec_all ops1 s) in *.
      destruct K1 as (Kq & Kap & Kd & Ks & Kdu).
      destruct (exec_accept_facts (a + N.of_nat k) s1 L1) as (L2 & P2 & A2 & Q2 & Ap2 & D2 & T2). cbn zeta in *.
      set (s2 := exec (OAccept (a + N.of_nat k)) s1) in *.
      pose proof (exec_refresh_facts (rd_leader rd) s2 L2) as C3. cbn zeta in C3.
      set (s3 := exec (ORefresh (rd_leader rd)) s2) in *.
      pose proof (same_core_live _ _ C3 L2) as L3.
      destruct (same_core_pos _ _ C3) as (_ & _ & T3).
      assert (Vr : mop_valid (OResolve (filter is_normal (centries a k))) s3).
      { apply (resolve_valid_after _ a k s s3 eq_refl). rewrite T3, T2. exact T1. }
      destruct (exec_resolve_facts (filter is_normal (centries a k)) s3 L3) as (C4 & _). cbn zeta in C4.
      set (s4 := exec (OResolve (filter is_normal (centries a k))) s3) in *.
      replace (map OCall (applyCommittedEntries (centries a k)) ++
               [OMarkApplied (a + N.of_nat k); OAccept (a + N.of_nat k); ORefresh (rd_leader rd);
                OResolve (filter is_normal (centries a k))])
        with (ops1 ++ [OAccept (a + N.of_nat k); ORefresh (rd_leader rd); OResolve (filter is_normal (centries a k))])
        by (unfold ops1; rewrite <- app_assoc; reflexivity).
      split.
      * apply valid_seq_app. split; [exact V1|]. fold s1. cbn [RaftDriver_inv.valid_seq].
        split; [intros _; exact Logic.I|]. fold s2. split; [intros _; exact Logic.I|]. fold s3.
        split; [intros _; exact Vr | exact Logic.I].
      * cbn zeta. rewrite exec_all_app. fold s1. rewrite !exec_all_cons, exec_all_nil. fold s2. fold s3. fold s4.
        split; [eapply same_core_live; [exact C4 | exact L3]|].
        apply (BINV_fields_inv s3); [apply same_core_BINV_fields, C4|].
        apply (BINV_fields_inv s2); [apply same_core_BINV_fields, C3|].
        unfold BINV. rewrite P2, A2, Q2, Ap2, P1, A1, Kq, Kap, Eq, Eap.
        split; [reflexivity|]. split.
        -- exists 0%nat. cbn [map concat]. rewrite centries_0. split; [reflexivity | lia].
        -- split; intros t0 [].
Qed.


(* ---- what the library guarantees about a Ready (SMS and the Ready contract) ------------------------------------ *)

Definition ready_ok (s : node) (rd : ready) : Prop :=
  (* the committed entries are the next ones of the committed log, above the library's cursor *)
  (exists n, rd_committed rd = centries (v_applying s) n)
  (* a snapshot comes alone, lies beyond the cursor, and holds what some replica's state machine held *)
  /\ (forall i t c, rd_snap rd = Some (i, t, c) ->
         rd_committed rd = [] /\ v_applying s < i /\ snap_good i c /\ (forall e, In e c -> GS e))
  (* committed entries are never rewritten, the commit index never decreases *)
  /\ save_stable s (rd_hs rd) (rd_ents rd)
  (* committed entries are in the log this Ready leaves in stable storage, at or below its commit index *)
  /\ (forall e, In e (rd_committed rd) -> is_normal e = true -> applied_ok (dur_after s rd) e = true)
  (* messages may be sent once this Ready's entries and hard state are stable *)
  /\ forallb (msg_ok (dur_after s rd)) (rd_msgs rd) = true
  /\ TrackHyp s (rd_ents rd).

Lemma existsb_conf_false_sync rd :
  readyRequiresSynchronousApply (match rd_snap rd with Some _ => true | None => false end) (rd_committed rd) = false ->
  rd_snap rd = None.
Proof. unfold readyRequiresSynchronousApply. destruct (rd_snap rd); [discriminate | reflexivity]. Qed.

Lemma ready_phase rd busy s :
  live s -> INV s -> BINV s -> ready_ok s rd ->
  valid_seq (processReady s rd busy) s
  /\ let s' := exec_all (processReady s rd busy) s in live s' /\ BINV s'.
Proof.
  intros L I B (Rc & Rs & Rst & Rp & Rm & Rt).
  destruct Rc as (n & Rc).
  unfold processReady, persistReadyDurable.
  set (sync := readyRequiresSynchronousApply (match rd_snap rd with Some _ => true | None => false end) (rd_committed rd)).
  (* Storage.Save *)
  assert (V0 : mop_valid (OSave (rd_hs rd) (rd_ents rd) (rd_snap rd)) s).
  { cbn [RaftDriver_inv.mop_valid]. split; [exact Rst|]. destruct (rd_snap rd) as [[[i t] c]|] eqn:E; [|exact Logic.I].
    destruct (Rs i t c eq_refl) as (_ & _ & G & K). split; assumption. }
  destruct (INV_exec clog clog_idx GS TrackHyp _ _ I L V0) as [I1 _].
  destruct (exec_save_facts (rd_hs rd) (rd_ents rd) (rd_snap rd) s L) as (L1 & D1 & P1 & A1 & Q1 & Ap1 & S1 & T1 & Sn1).
  cbn zeta in *. set (s1 := exec (OSave (rd_hs rd) (rd_ents rd) (rd_snap rd)) s) in *.
  fold (dur_after s rd) in D1.
  assert (B1 : BINV s1).
  { destruct B as (Ba & Bq & Bne & Bp). unfold BINV. rewrite P1, A1, Q1, Ap1.
    split; [exact Ba|]. split; [exact Bq|]. split; [exact Bne|].
    intros t Ht e He Hn. rewrite D1. unfold dur_after. destruct Rst as [Rh Re].
    apply applied_ok_stable; [exact Rh | exact Re | apply (Bp t Ht e He Hn)]. }
  cbn [app].
  destruct sync eqn:Esync.
  - (* synchronous: waitApplyIdle, track, send, then the tail *)
    destruct (drain_phase (v_queue s) s1 L1 I1 Q1 B1) as (V2 & L2 & Q2 & P2 & A2 & Ap2 & D2 & S2 & T2).
    cbn zeta in *. set (s2 := exec_all (drain (v_queue s)) s1) in *.
    pose proof (INV_exec_all clog clog_idx GS TrackHyp _ _ I1 V2) as I2. fold s2 in I2.
    assert (V3 : mop_valid (OTrack (rd_ents rd)) s2).
    { cbn [RaftDriver_inv.mop_valid]. apply (TrackHyp_submitted s); [congruence | exact Rt]. }
    pose proof (exec_track_facts (rd_ents rd) s2 L2) as C3. cbn zeta in C3.
    set (s3 := exec (OTrack (rd_ents rd)) s2) in *.
    pose proof (same_core_live _ _ C3 L2) as L3.
    pose proof (INV_same_core clog GS _ _ C3 I2) as I3.
    destruct (same_core_BINV_fields _ _ C3) as (P3 & A3 & Q3 & Ap3 & D3).
    assert (V4 : mop_valid (OSend (rd_msgs rd)) s3).
    { cbn [RaftDriver_inv.mop_valid]. rewrite D3, D2, D1. exact Rm. }
    destruct (INV_exec clog clog_idx GS TrackHyp _ _ I3 L3 V4) as [I4 _].
    destruct (exec_send_facts (rd_msgs rd) s3 L3) as (L4 & (P4 & A4 & Q4 & Ap4 & D4) & T4 & S4). cbn zeta in *.
    set (s4 := exec (OSend (rd_msgs rd)) s3) in *.
    destruct (sync_tail_phase rd s4 (v_applying s) n L4 I4) as (V5 & L5 & B5).
    { congruence. } { rewrite P4, P3, P2. congruence. } { rewrite A4, A3, A2. congruence. } { congruence. }
    { exact Rc. }
    { intros e He Hn. rewrite D4, D3, D2, D1. apply Rp; assumption. }
    { intros i t c E. destruct (Rs i t c E) as (Ec & Hi & G & K).
      split; [|split; [exact Hi|split; [exact G|split; [exact K|]]]].
      - rewrite Rc in Ec. apply (f_equal (@length _)) in Ec. rewrite centries_length in Ec. exact Ec.
      - assert (Hd : u_snap (dur_of s4) = u_snap (dur_of s1)) by congruence.
        unfold dur_of in Hd. cbn [u_snap] in Hd. rewrite Hd. apply (Sn1 i t c E). }
    split.
    + cbn [RaftDriver_inv.valid_seq]. split; [intros _; exact V0|]. fold s1.
      apply valid_seq_app. split; [exact V2|]. fold s2. cbn [app RaftDriver_inv.valid_seq].
      split; [intros _; exact V3|]. fold s3. split; [intros _; exact V4|]. fold s4. exact V5.
    + cbn zeta. rewrite exec_all_cons. fold s1. rewrite exec_all_app. fold s2.
      cbn [app]. rewrite !exec_all_cons. fold s3. fold s4. split; assumption.
  - (* asynchronous *)
    pose proof (existsb_conf_false_sync rd Esync) as Esn.
    assert (V3 : mop_valid (OTrack (rd_ents rd)) s1).
    { cbn [RaftDriver_inv.mop_valid]. apply (TrackHyp_submitted s); [congruence | exact Rt]. }
    pose proof (exec_track_facts (rd_ents rd) s1 L1) as C3. cbn zeta in C3.
    set (s3 := exec (OTrack (rd_ents rd)) s1) in *.
    pose proof (same_core_live _ _ C3 L1) as L3.
    pose proof (INV_same_core clog GS _ _ C3 I1) as I3.
    destruct (same_core_BINV_fields _ _ C3) as (P3 & A3 & Q3 & Ap3 & D3).
    assert (V4 : mop_valid (OSend (rd_msgs rd)) s3).
    { cbn [RaftDriver_inv.mop_valid]. rewrite D3, D1. exact Rm. }
    destruct (INV_exec clog clog_idx GS TrackHyp _ _ I3 L3 V4) as [I4 _].
    destruct (exec_send_facts (rd_msgs rd) s3 L3) as (L4 & F4 & T4 & S4). cbn zeta in *.
    set (s4 := exec (OSend (rd_msgs rd)) s3) in *.
    assert (B4 : BINV s4).
    { apply (BINV_fields_inv s3); [exact F4|]. apply (BINV_fields_inv s1); [|exact B1].
      unfold BINV_fields. repeat split; assumption. }
    destruct F4 as (P4 & A4 & Q4 & Ap4 & D4).
    assert (Eq4 : v_queue s4 = v_queue s) by congruence.
    assert (Ed4 : dur_of s4 = dur_after s rd) by congruence.
    assert (Tail : valid_seq (processReadyAsyncNormal s rd busy) s4
                   /\ (live (exec_all (processReadyAsyncNormal s rd busy) s4)
                       /\ BINV (exec_all (processReadyAsyncNormal s rd busy) s4))).
    { unfold processReadyAsyncNormal. destruct (rd_committed rd) as [|e0 r0] eqn:Ecm.
      - (* nothing committed: Advance *)
        destruct (exec_accept_facts 0 s4 L4) as (L5 & P5 & A5 & Q5 & Ap5 & D5 & T5). cbn zeta in *.
        set (s5 := exec (OAccept 0) s4) in *.
        pose proof (exec_refresh_facts (rd_leader rd) s5 L5) as C6. cbn zeta in C6.
        split.
        + cbn [RaftDriver_inv.valid_seq]. repeat split; intros _; exact Logic.I.
        + rewrite !exec_all_cons, exec_all_nil. fold s5.
          split; [eapply same_core_live; [exact C6 | exact L5]|].
          apply (BINV_fields_inv s5); [apply same_core_BINV_fields, C6|].
          apply (BINV_fields_inv s4); [|exact B4].
          unfold BINV_fields. repeat split; try assumption. rewrite Ap5. lia.
      - rewrite <- Ecm in *. destruct busy.
        + (* the pipeline refuses the task: apply synchronously *)
          unfold processReadySynchronously.
          destruct (drain_phase (v_queue s) s4 L4 I4 Eq4 B4) as (V5 & L5 & Q5 & P5 & A5 & Ap5 & D5 & S5 & T5).
          cbn zeta in *. set (s5 := exec_all (drain (v_queue s)) s4) in *.
          pose proof (INV_exec_all clog clog_idx GS TrackHyp _ _ I4 V5) as I5. fold s5 in I5.
          destruct (sync_tail_phase rd s5 (v_applying s) n L5 I5) as (V6 & L6 & B6).
          { exact Q5. } { congruence. } { congruence. } { congruence. } { exact Rc. }
          { intros e He Hn. rewrite D5, Ed4. apply Rp; assumption. }
          { intros i t c E. rewrite Esn in E. discriminate. }
          split.
          * apply valid_seq_app. split; [exact V5 | exact V6].
          * rewrite exec_all_app. fold s5. split; assumption.
        + (* the task goes to the pipeline; Advance *)
          set (tk := mkTask (rd_committed rd) (v_applied s)).
          assert (E5 : exec (OEnqueue tk) s4 =
                       set_volatile (v_up s4) (v_failed s4) (v_applying s4) (v_applied s4) (v_queue s4 ++ [tk]) s4)
            by (rewrite (exec_live _ _ L4); reflexivity).
          set (s5 := exec (OEnqueue tk) s4) in *.
          assert (L5 : live s5) by (rewrite E5; destruct L4; split; nsimpl; assumption).
          assert (Hn0 : (0 < n)%nat).
          { destruct n; [|lia]. rewrite Rc, centries_0 in Ecm. discriminate. }
          destruct (exec_accept_facts (lastApplied (rd_committed rd) 0) s5 L5) as (L6 & P6 & A6 & Q6 & Ap6 & D6 & T6).
          cbn zeta in *. set (s6 := exec (OAccept (lastApplied (rd_committed rd) 0)) s5) in *.
          pose proof (exec_refresh_facts (rd_leader rd) s6 L6) as C7. cbn zeta in C7.
          split.
          * cbn [RaftDriver_inv.valid_seq]. repeat split; intros _; exact Logic.I.
          * rewrite !exec_all_cons, exec_all_nil. fold s5. fold s6.
            split; [eapply same_core_live; [exact C7 | exact L6]|].
            apply (BINV_fields_inv s6); [apply same_core_BINV_fields, C7|].
            destruct B4 as (Ba & (m & Bq & Bap) & Bne & Bp).
            unfold BINV. rewrite P6, A6, Q6, Ap6, D6. rewrite E5. unfold dur_of. nsimpl.
            fold (dur_of s4).
            split; [exact Ba|]. split; [|split].
            -- exists (m + n)%nat. rewrite map_app, concat_app. cbn [map concat t_ents tk]. rewrite app_nil_r.
               rewrite Bq, Rc, (centries_app clog clog_idx).
               assert (Ev : v_applying s = g_pos s4 + N.of_nat m) by congruence.
               rewrite <- Ev. split; [reflexivity|].
               rewrite (lastApplied_centries clog clog_idx _ n 0 Hn0). lia.
            -- intros t Ht. apply in_app_or in Ht. destruct Ht as [Ht|[<-|[]]]; [apply Bne, Ht|].
               cbn [t_ents tk]. rewrite Ecm. congruence.
            -- intros t Ht e He Hn. apply in_app_or in Ht. destruct Ht as [Ht|[<-|[]]]; [apply (Bp t Ht e He Hn)|].
               cbn [t_ents tk] in He. rewrite Ed4. apply Rp; assumption. }
    destruct Tail as (V5 & L5 & B5).
    split.
    + cbn [RaftDriver_inv.valid_seq]. split; [intros _; exact V0|]. fold s1.
      split; [intros _; exact V3|]. fold s3. split; [intros _; exact V4|]. fold s4. exact V5.
    + cbn zeta. rewrite !exec_all_cons. fold s1. fold s3. fold s4. split; assumption.
Qed.


(* ---- the other steps ------------------------------------------------------------------------------------------ *)

Lemma exec_all_dead ops s : ~ live s -> exec_all ops s = s.
Proof.
  intro H. induction ops as [|o r IH]; [reflexivity|]. rewrite exec_all_cons, exec_dead by exact H. exact IH.
Qed.

Lemma task_phase t q s :
  live s -> INV s -> BINV s -> v_queue s = t :: q ->
  valid_seq (runApplyTask t) s
  /\ let s' := exec_all (runApplyTask t) s in live s' /\ BINV s'.
Proof.
  intros L I (B1 & (n & Bq & Ba) & Bne & Bp) Eq. unfold runApplyTask.
  rewrite Eq in Bq. cbn [map concat] in Bq.
  destruct (centries_split clog clog_idx _ _ _ _ Bq) as [E1 E2].
  set (k := length (t_ents t)) in *.
  assert (Hk : (0 < k)%nat).
  { specialize (Bne t). rewrite Eq in Bne. specialize (Bne (or_introl eq_refl)).
    unfold k. destruct (t_ents t); [congruence | cbn; lia]. }
  destruct (apply_phase (g_pos s) k (t_before t) s L I Hk (N.le_refl _)) as (V1 & L1 & P1 & A1 & K1 & T1).
  { apply (clean_refl clog clog_idx). lia. }
  { intros e He Hn. apply (Bp t); [rewrite Eq; left; reflexivity | rewrite E1; exact He | exact Hn]. }
  cbn zeta in *. rewrite <- E1 in *.
  set (s1 := exec_all (apply_ops (t_ents t) (t_before t)) s) in *.
  destruct K1 as (Kq & Kap & Kd & Ks & Kdu).
  set (s2 := exec ODequeue s1).
  assert (E2q : s2 = set_volatile (v_up s1) (v_failed s1) (v_applying s1) (v_applied s1) (tl (v_queue s1)) s1).
  { unfold s2. rewrite (exec_live _ _ L1). reflexivity. }
  split.
  - apply valid_seq_app. split; [exact V1|]. fold s1. cbn [RaftDriver_inv.valid_seq]. split; [intros _; exact Logic.I | exact Logic.I].
  - cbn zeta. rewrite exec_all_app. fold s1. rewrite exec_all_cons, exec_all_nil. fold s2.
    split; [rewrite E2q; destruct L1; split; nsimpl; assumption|].
    rewrite E2q. unfold BINV, dur_of. nsimpl. rewrite Kq, Eq. cbn [tl].
    split; [congruence|]. split.
    + exists (n - k)%nat. split; [rewrite P1; exact E2|]. rewrite Kap, Ba, P1.
      assert (k <= n)%nat.
      { apply (f_equal (@length _)) in Bq. rewrite app_length, centries_length in Bq. unfold k. lia. }
      lia.
    + split.
      * intros t' Ht'. apply Bne. rewrite Eq. right. exact Ht'.
      * intros t' Ht' e He Hn. unfold dur_of in Kd. injection Kd as -> -> ->.
        apply (Bp t'); [rewrite Eq; right; exact Ht' | exact He | exact Hn].
Qed.

Lemma applied_after_BINV s : BINV s -> applied_after (v_queue s) (v_applied s) = v_applying s.
Proof.
  intros (B1 & (n & Bq & Ba) & _). rewrite applied_after_concat, Bq, Ba, <- B1.
  destruct n as [|n]; [rewrite centries_0; cbn [lastApplied map last]; lia|].
  apply (lastApplied_centries clog clog_idx). lia.
Qed.

Lemma compact_tail s a :
  live s -> INV s -> BINV s -> g_pos s = a -> a <> 0 ->
  valid_seq [OCompactMark a; OCompactSave a] s
  /\ let s' := exec_all [OCompactMark a; OCompactSave a] s in live s' /\ BINV s'.
Proof.
  intros L2 I2 B2 P2 Ea.
  assert (V3 : mop_valid (OCompactMark a) s) by (cbn [RaftDriver_inv.mop_valid]; lia).
  destruct (INV_exec clog clog_idx GS TrackHyp _ _ I2 L2 V3) as [I3 L3].
  set (s3 := exec (OCompactMark a) s) in *.
  assert (E3 : s3 = emit (EvMark a) (set_d_applied a s)).
  { unfold s3. rewrite (exec_live _ _ L2), (i_durable _ _ _ I2). reflexivity. }
  assert (V4 : mop_valid (OCompactSave a) s3).
  { cbn [RaftDriver_inv.mop_valid]. rewrite E3. nsimpl. split; [congruence | lia]. }
  set (s4 := exec (OCompactSave a) s3).
  assert (E4 : s4 = emit (EvSave None [] (Some (a, 0))) (set_durable_log (d_log s3) (d_hs s3) a (sm_hist s3) s3)).
  { unfold s4. rewrite (exec_live _ _ L3). reflexivity. }
  split.
  - cbn [RaftDriver_inv.valid_seq]. split; [intros _; exact V3|]. fold s3. split; [intros _; exact V4 | exact Logic.I].
  - cbn zeta. rewrite !exec_all_cons, exec_all_nil. fold s3. fold s4.
    split; [rewrite E4; destruct L3; split; nsimpl; assumption|].
    destruct B2 as (Ba & Bq & Bne & Bp).
    rewrite E4, E3. unfold BINV, dur_of, applied_ok. nsimpl. cbn [u_hs u_log].
    split; [exact Ba|]. split; [exact Bq|]. split; [exact Bne | exact Bp].
Qed.

Lemma compact_phase s wait :
  live s -> INV s -> BINV s ->
  valid_seq (compactLogAt s wait) s
  /\ let s' := exec_all (compactLogAt s wait) s in live s' /\ BINV s'.
Proof.
  intros L I B. unfold compactLogAt. destruct wait.
  - rewrite (applied_after_BINV s B).
    destruct (drain_phase (v_queue s) s L I eq_refl B) as (V2 & L2 & Q2 & P2 & A2 & Ap2 & D2 & S2 & T2).
    cbn zeta in *. set (s2 := exec_all (drain (v_queue s)) s) in *.
    pose proof (INV_exec_all clog clog_idx GS TrackHyp _ _ I V2) as I2. fold s2 in I2.
    set (a := v_applying s) in *.
    assert (B2 : BINV s2).
    { unfold BINV. rewrite P2, A2, Q2, Ap2. split; [reflexivity|]. split.
      - exists 0%nat. cbn [map concat]. rewrite centries_0. split; [reflexivity | lia].
      - split; intros t []. }
    destruct (a =? 0) eqn:Ea.
    + split.
      * apply valid_seq_app. split; [exact V2 | exact Logic.I].
      * cbn zeta. rewrite exec_all_app. fold s2. rewrite exec_all_nil. split; assumption.
    + apply N.eqb_neq in Ea.
      destruct (compact_tail s2 a L2 I2 B2 P2 Ea) as (V3 & L3 & B3).
      split.
      * apply valid_seq_app. split; [exact V2 | exact V3].
      * cbn zeta. rewrite exec_all_app. fold s2. split; assumption.
  - cbn [app]. destruct (v_applied s =? 0) eqn:Ea.
    + split; [exact Logic.I|]. cbn zeta. rewrite exec_all_nil. split; assumption.
    + apply N.eqb_neq in Ea. destruct B as (Ba & Brest).
      apply (compact_tail s (v_applied s) L I (conj Ba Brest) Ba Ea).
Qed.

Lemma crash_INV hard s : INV s -> INV (crash hard s) /\ ~ live (crash hard s).
Proof.
  intro I. unfold crash. destruct (v_up s) eqn:U; cbn [negb].
  - pose proof (failLeadershipDependent_core s) as C.
    pose proof (INV_same_core clog GS _ _ C I) as I1.
    set (s1 := failLeadershipDependent s) in *. destruct I1.
    split.
    + constructor; nsimpl; unfold RaftDriver_inv.known in *; nsimpl; try assumption; try lia.
      * intros e He. rewrite applied_tr_app. cbn [applied_tr flat_map applied_of_event]. rewrite app_nil_r. apply i_hist_known, He.
      * intros e He. rewrite applied_tr_app. cbn [applied_tr flat_map applied_of_event]. rewrite app_nil_r. apply i_snap_known, He.
      * intros e He. rewrite applied_tr_app in He. cbn [applied_tr flat_map applied_of_event] in He. rewrite app_nil_r in He.
        apply i_applied_sound, He.
    + intros [A _]. nsimpl. discriminate.
  - split; [exact I|]. intros [A _]. congruence.
Qed.

Lemma newSlot_SINV first s : INV s -> v_up s = false ->
  let s' := newSlot first s in INV s' /\ live s' /\ BINV s'.
Proof.
  intros I U. cbn zeta. unfold newSlot. rewrite U.
  destruct I. unfold newSlot_applied. rewrite i_durable.
  destruct (d_snap s =? 0) eqn:Esn; cbn [negb].
  - (* no snapshot: resume above what the state machine and the storage remember *)
    apply N.eqb_eq in Esn. specialize (i_dapplied Esn).
    set (start := N.max (d_applied s) (sm_idx s)).
    split; [|split].
    + constructor; nsimpl; unfold RaftDriver_inv.known in *; nsimpl; try assumption; try lia.
      * apply (complete_weaken clog clog_idx _ _ (g_pos s)); [exact i_complete | unfold start; lia].
      * intros e He. rewrite !applied_tr_app. cbn [applied_tr flat_map applied_of_event]. rewrite !app_nil_r. apply i_hist_known, He.
      * intros e He. rewrite !applied_tr_app. cbn [applied_tr flat_map applied_of_event]. rewrite !app_nil_r. apply i_snap_known, He.
      * intros e He. rewrite !applied_tr_app in He. cbn [applied_tr flat_map applied_of_event] in He. rewrite !app_nil_r in He.
        apply i_applied_sound, He.
    + split; nsimpl; reflexivity.
    + unfold BINV. nsimpl. split; [reflexivity|]. split.
      * exists 0%nat. cbn [map concat]. rewrite centries_0. split; [reflexivity | lia].
      * split; intros t [].
  - (* a stored snapshot: Restore it, resume above it *)
    apply N.eqb_neq in Esn. destruct (i_snap Esn) as (G0 & Gs & Gsd & Gc).
    set (s0 := emit (EvBoot first (hs_term (d_hs s)) (hs_vote (d_hs s)) (hs_commit (d_hs s)) (d_applied s) (d_snap s) (sm_idx s)) s).
    set (s1 := set_pos (d_snap s) (set_volatile true false (d_snap s) (d_snap s) [] s0)).
    assert (L1 : live s1) by (split; reflexivity).
    rewrite (exec_live _ _ L1). unfold s1, s0.
    split; [|split].
    + constructor; nsimpl; unfold RaftDriver_inv.known in *; nsimpl; try assumption; try lia.
      * intros e He. rewrite !applied_tr_app. cbn [applied_tr flat_map applied_of_event]. rewrite !app_nil_r. apply i_snap_known, He.
      * intros e He. rewrite !applied_tr_app. cbn [applied_tr flat_map applied_of_event]. rewrite !app_nil_r. apply i_snap_known, He.
      * intros e He. rewrite !applied_tr_app in He. cbn [applied_tr flat_map applied_of_event] in He. rewrite !app_nil_r in He.
        apply i_applied_sound, He.
    + split; nsimpl; reflexivity.
    + unfold BINV. nsimpl. split; [reflexivity|]. split.
      * exists 0%nat. cbn [map concat]. rewrite centries_0. split; [reflexivity | lia].
      * split; intros t [].
Qed.

(* ---- every reachable state ------------------------------------------------------------------------------------------ *)

Definition SINV (s : node) : Prop := INV s /\ (live s -> BINV s).

Definition step_ok (st : step) (s : node) : Prop :=
  match st with
  | SReady rd _ _ => live s -> ready_ok s rd
  | _ => True
  end.

Lemma exec_cut_SINV ops cut s :
  INV s -> valid_seq ops s -> (live (exec_all ops s) -> BINV (exec_all ops s)) ->
  SINV (exec_cut ops cut s).
Proof.
  intros I V B. unfold exec_cut. destruct cut as [k|].
  - destruct (crash_INV true (exec_all (firstn k ops) s)) as [I' D'].
    { apply (INV_exec_all clog clog_idx GS TrackHyp); [exact I | apply valid_seq_firstn, V]. }
    split; [exact I' | intro L; contradiction].
  - split; [apply (INV_exec_all clog clog_idx GS TrackHyp); assumption | exact B].
Qed.

Lemma step_SINV st s : SINV s -> step_ok st s -> SINV (step_node st s).
Proof.
  intros [I B] Hok. destruct st as [rd busy cut|cut|cmd acc|wait cut|hard|]; cbn [step_node step_ok] in *.
  - (* SReady *)
    destruct (v_up s) eqn:U; [|split; assumption].
    destruct (live_dec s) as [L|D].
    + destruct (ready_phase rd busy s L I (B L) (Hok L)) as (V & L' & B').
      apply exec_cut_SINV; [exact I | exact V | intros _; exact B'].
    + apply exec_cut_SINV; [exact I | apply valid_seq_dead, D|].
      rewrite exec_all_dead by exact D. exact B.
  - (* SApplyTask *)
    destruct (v_queue s) as [|t q] eqn:Eq; [split; assumption|].
    destruct (v_up s) eqn:U; [|split; assumption].
    destruct (live_dec s) as [L|D].
    + destruct (task_phase t q s L I (B L) Eq) as (V & L' & B').
      apply exec_cut_SINV; [exact I | exact V | intros _; exact B'].
    + apply exec_cut_SINV; [exact I | apply valid_seq_dead, D|].
      rewrite exec_all_dead by exact D. exact B.
  - (* SPropose *)
    destruct (v_up s && negb (v_failed s)); [|split; assumption].
    destruct acc.
    + pose proof (same_core_set_futures (v_submitted s ++ [cmd]) (v_pending s) (v_leader s) (n_futs s) s) as C.
      split; [eapply INV_same_core; [exact C | exact I]|].
      intro L'. apply (BINV_fields_inv s); [apply same_core_BINV_fields, C|]. apply B.
      unfold live in *. nsimpl. exact L'.
    + pose proof (same_core_set_futures (v_submitted s) (v_pending s) (v_leader s) (n_futs s ++ [(cmd, FutErr)]) s) as C.
      split; [eapply INV_same_core; [exact C | exact I]|].
      intro L'. apply (BINV_fields_inv s); [apply same_core_BINV_fields, C|]. apply B.
      unfold live in *. nsimpl. exact L'.
  - (* SCompact *)
    destruct (v_up s) eqn:U; [|split; assumption].
    destruct (live_dec s) as [L|D].
    + destruct (compact_phase s wait L I (B L)) as (V & L' & B').
      apply exec_cut_SINV; [exact I | exact V | intros _; exact B'].
    + apply exec_cut_SINV; [exact I | apply valid_seq_dead, D|].
      rewrite exec_all_dead by exact D. exact B.
  - (* SCrash *)
    destruct (crash_INV hard s I) as [I' D']. split; [exact I' | intro; contradiction].
  - (* SRestart *)
    destruct (v_up s) eqn:U.
    + unfold newSlot. rewrite U. split; assumption.
    + destruct (newSlot_SINV false s I U) as (I' & L' & B'). split; [exact I' | intros _; exact B'].
Qed.

Fixpoint sched_ok (sched : list step) (s : node) : Prop :=
  match sched with
  | [] => True
  | st :: r => step_ok st s /\ sched_ok r (step_node st s)
  end.

Definition run_from (s : node) (sched : list step) : node :=
  fold_left (fun st x => step_node x st) sched s.

Lemma run_from_SINV sched : forall s, SINV s -> sched_ok sched s -> SINV (run_from s sched).
Proof.
  induction sched as [|st r IH]; intros s H Hok; [exact H|].
  cbn [sched_ok] in Hok. destruct Hok as [H1 H2]. cbn [run_from fold_left].
  apply IH; [apply step_SINV; assumption | exact H2].
Qed.

Lemma init_INV : INV (init_node true).
Proof.
  unfold init_node. constructor; nsimpl; unfold RaftDriver_inv.known; nsimpl; try reflexivity; try lia.
  - constructor.
  - intros e [].
  - intros i Hi. lia.
  - intros e [].
  - intros e [].
  - intros e [].
Qed.

Definition start_node : node := newSlot true (init_node true).

Lemma start_SINV : SINV start_node.
Proof.
  destruct (newSlot_SINV true (init_node true) init_INV eq_refl) as (I & L & B).
  split; [exact I | intros _; exact B].
Qed.

Theorem run_SINV sched : sched_ok sched start_node -> SINV (run true sched).
Proof. intro H. unfold run. apply (run_from_SINV sched start_node start_SINV H). Qed.


(* ---- any other invariant that every valid micro-operation preserves holds in every reachable state -------------- *)

Section Generic.

Variable P : node -> Prop.
Hypothesis P_exec : forall o s, INV s -> P s -> live s -> mop_valid o s -> P (exec o s).
Hypothesis P_crash : forall hard s, INV s -> P s -> P (crash hard s).
Hypothesis P_newSlot : forall first s, INV s -> P s -> v_up s = false -> P (newSlot first s).
Hypothesis P_propose : forall cmd acc s, INV s -> P s -> P (step_node (SPropose cmd acc) s).

Lemma P_exec_all ops : forall s, INV s -> P s -> valid_seq ops s -> P (exec_all ops s).
Proof.
  induction ops as [|o r IH]; intros s I H V; [exact H|].
  cbn [RaftDriver_inv.valid_seq] in V. destruct V as [V1 V2]. rewrite exec_all_cons.
  apply IH; [apply (INV_exec_any clog clog_idx GS TrackHyp); assumption | | exact V2].
  destruct (live_dec s) as [L|D]; [apply P_exec; auto | rewrite exec_dead by exact D; exact H].
Qed.

Lemma P_exec_cut ops cut s : INV s -> P s -> valid_seq ops s -> P (exec_cut ops cut s).
Proof.
  intros I H V. unfold exec_cut. destruct cut as [k|].
  - apply P_crash.
    + apply (INV_exec_all clog clog_idx GS TrackHyp); [exact I | apply valid_seq_firstn, V].
    + apply P_exec_all; [exact I | exact H | apply valid_seq_firstn, V].
  - apply P_exec_all; assumption.
Qed.

Lemma step_P st s : SINV s -> step_ok st s -> P s -> P (step_node st s).
Proof.
  intros [I B] Hok H. destruct st as [rd busy cut|cut|cmd acc|wait cut|hard|]; cbn [step_ok] in *.
  - cbn [step_node]. destruct (v_up s) eqn:U; [|exact H].
    apply P_exec_cut; [exact I | exact H|].
    destruct (live_dec s) as [L|D]; [apply (ready_phase rd busy s L I (B L) (Hok L)) | apply valid_seq_dead, D].
  - cbn [step_node]. destruct (v_queue s) as [|t q] eqn:Eq; [exact H|].
    destruct (v_up s) eqn:U; [|exact H].
    apply P_exec_cut; [exact I | exact H|].
    destruct (live_dec s) as [L|D]; [apply (task_phase t q s L I (B L) Eq) | apply valid_seq_dead, D].
  - apply P_propose; assumption.
  - cbn [step_node]. destruct (v_up s) eqn:U; [|exact H].
    apply P_exec_cut; [exact I | exact H|].
    destruct (live_dec s) as [L|D]; [apply (compact_phase s wait L I (B L)) | apply valid_seq_dead, D].
  - cbn [step_node]. apply P_crash; assumption.
  - cbn [step_node]. destruct (v_up s) eqn:U.
    + unfold newSlot. rewrite U. exact H.
    + apply P_newSlot; assumption.
Qed.

Lemma run_from_P sched : forall s, SINV s -> sched_ok sched s -> P s -> P (run_from s sched).
Proof.
  induction sched as [|st r IH]; intros s S Hok H; [exact H|].
  cbn [sched_ok] in Hok. destruct Hok as [H1 H2]. cbn [run_from fold_left].
  apply IH; [apply step_SINV; assumption | exact H2 | apply step_P; assumption].
Qed.

Theorem run_P sched : sched_ok sched start_node -> P (init_node true) -> P (run true sched).
Proof.
  intros Hok H0. unfold run. apply (run_from_P sched start_node start_SINV Hok).
  apply P_newSlot; [exact init_INV | exact H0 | reflexivity].
Qed.

End Generic.

End Steps.
