(* Proof/ReplicaLog_WF.v — the per-replica invariant of C02 and its preservation by every
   store operation of Model/ReplicaLog.v (both back ends):

     WF rp    the log is an unbroken predecessor hash chain from genesis (entry k at index k,
              naming entry k-1's index, term and digest), committed <= log end, and every
              by-last-offset index row names the digest / term of the entry stored at that offset;
     keeps rp rp'   committed never moves backwards and no entry at or below the old committed
              watermark changes.

   sync, replace and storeCheckpoint (for a watermark within the log) all satisfy
   WF rp -> WF rp' /\ keeps rp rp'. *)
From WK Require Import Base.Base.
From WK Require Import Model.ReplicaLog Proof.ReplicaLog.
From Coq Require Import ZifyBool ZifyN.
Open Scope N_scope.

(* ---- chains --------------------------------------------------------------------------------------- *)

Fixpoint chain_raw (idx pt pidx : N) (pd : digest) (l : list (ident * record)) : Prop :=
  match l with
  | [] => True
  | (e, _) :: r => i_idx e = idx /\ i_pidx e = pidx /\ i_pt e = pt /\ i_pd e = pd /\
                   chain_raw (idx + 1) (i_t e) (i_idx e) (i_dg e) r
  end.

(* predecessor parameters after a log: those of its last entry, or the ones it started from *)
Fixpoint tail_params (pt pidx : N) (pd : digest) (l : list (ident * record)) : N * N * digest :=
  match l with
  | [] => (pt, pidx, pd)
  | (e, _) :: r => tail_params (i_t e) (i_idx e) (i_dg e) r
  end.

Lemma chain_raw_app : forall l1 l2 idx pt pidx pd,
  chain_raw idx pt pidx pd l1 ->
  (let '(pt', pidx', pd') := tail_params pt pidx pd l1 in chain_raw (idx + lenN l1) pt' pidx' pd' l2) ->
  chain_raw idx pt pidx pd (l1 ++ l2).
Proof.
  induction l1 as [|[e r] l1 IH]; intros l2 idx pt pidx pd H1 H2.
  - cbn [tail_params app] in *.
    replace (idx + lenN (@nil (ident * record))) with idx in H2 by (unfold lenN; cbn; lia). exact H2.
  - cbn [chain_raw tail_params app] in *.
    destruct H1 as (A & B & C & D & E). repeat (split; [assumption|]).
    apply IH; [exact E|]. rewrite lenN_cons in H2.
    destruct (tail_params (i_t e) (i_idx e) (i_dg e) l1) as [[a b] c].
    replace (idx + 1 + lenN l1) with (idx + (lenN l1 + 1)) by lia. exact H2.
Qed.

Lemma chain_raw_firstn : forall k l idx pt pidx pd,
  chain_raw idx pt pidx pd l -> chain_raw idx pt pidx pd (firstn k l).
Proof.
  induction k as [|k IH]; intros l idx pt pidx pd H; cbn; [exact I|].
  destruct l as [|[e r] l]; cbn in *; [exact I|].
  destruct H as (A & B & C & D & E). repeat (split; [assumption|]). apply IH. exact E.
Qed.

(* entry k of a chain starting at idx sits at index idx + k *)
Lemma chain_raw_index : forall l idx pt pidx pd k e r,
  chain_raw idx pt pidx pd l -> nth_error l k = Some (e, r) -> i_idx e = idx + N.of_nat k.
Proof.
  induction l as [|[e0 r0] l IH]; intros idx pt pidx pd k e r H Hk; [destruct k; discriminate|].
  cbn in H. destruct H as (A & _ & _ & _ & E). destruct k as [|k]; cbn in Hk.
  - inversion Hk; subst. lia.
  - rewrite (IH _ _ _ _ _ _ _ E Hk). lia.
Qed.

(* the tail parameters of a non-empty chain are those of its last entry *)
Lemma tail_params_last : forall l pt pidx pd e r,
  nth_error l (length l - 1) = Some (e, r) -> l <> [] ->
  tail_params pt pidx pd l = (i_t e, i_idx e, i_dg e).
Proof.
  induction l as [|[e0 r0] l IH]; intros pt pidx pd e r Hn Hne; [congruence|].
  cbn [tail_params]. destruct l as [|x l'].
  - cbn in Hn. inversion Hn; subst. reflexivity.
  - apply (IH _ _ _ e r); [|discriminate]. cbn [length] in *.
    replace (S (S (length l')) - 1)%nat with (S (length l')) in Hn by lia.
    replace (S (length l') - 1)%nat with (length l') by lia. exact Hn.
Qed.

(* the chain DeriveProposalEntries builds *)
Lemma derive_loop_chain m : forall recs idx pt pidx pd es,
  derive_loop m idx pt pidx pd recs = Some es -> chain_raw idx pt pidx pd (combine es recs).
Proof.
  induction recs as [|r rest IH]; intros idx pt pidx pd es H; cbn in H.
  - inversion H; subst. exact I.
  - destruct (tag_is_zero (r_id r) || negb (r_epoch r =? m_e m) || (r_ts r =? 0)); [discriminate|].
    destruct (derive_loop m (idx + 1) (m_t m) idx _ rest) as [es'|] eqn:E; [|discriminate].
    inversion H; subst. cbn. repeat (split; [reflexivity|]). apply IH. exact E.
Qed.

(* ---- the invariant ----------------------------------------------------------------------------------- *)

Definition bylast_ok (rp : replica) : Prop :=
  forall k m, by_last (rp_bylast rp) k = Some m ->
    m_last m = k /\ exists e, ent_at rp k = Some e /\ i_dg e = m_dg m /\ i_t e = m_t m.

Definition WF (rp : replica) : Prop :=
  chain_raw 1 0 0 D0 (rp_log rp) /\ rp_hw rp <= rp_leo rp /\ bylast_ok rp.

Definition keeps (rp rp' : replica) : Prop :=
  rp_hw rp <= rp_hw rp' /\ forall idx, idx <= rp_hw rp -> ent_at rp' idx = ent_at rp idx.

Lemma WF_empty : WF replica_empty.
Proof. split; [exact I|]. split; [unfold rp_leo, lenN; cbn; lia|]. intros k m H. discriminate. Qed.

Lemma keeps_refl rp : keeps rp rp.
Proof. split; [lia | auto]. Qed.

Lemma keeps_trans a b c : keeps a b -> keeps b c -> keeps a c.
Proof.
  intros [H1 H2] [H3 H4]. split; [lia|]. intros idx Hi. rewrite H4 by lia. apply H2. exact Hi.
Qed.

Lemma ent_at_app_old rp log' ext idx :
  log' = rp_log rp ++ ext -> idx <= rp_leo rp ->
  option_map fst (if idx =? 0 then None else nth_error log' (N.to_nat (idx - 1))) = ent_at rp idx.
Proof.
  intros -> Hle. unfold ent_at, log_at. destruct (idx =? 0) eqn:E; [reflexivity|].
  rewrite nth_error_app1; [reflexivity|]. unfold rp_leo, lenN in Hle. lia.
Qed.

(* the last entry of a well-formed non-empty log *)
Lemma WF_tail rp : WF rp -> 0 < rp_leo rp ->
  exists e r, nth_error (rp_log rp) (length (rp_log rp) - 1) = Some (e, r) /\ i_idx e = rp_leo rp /\
              ent_at rp (rp_leo rp) = Some e.
Proof.
  intros (Hc & _) Hpos. unfold rp_leo, lenN in *.
  destruct (nth_error (rp_log rp) (length (rp_log rp) - 1)) as [[e r]|] eqn:E.
  - exists e, r. split; [reflexivity|]. split.
    + rewrite (chain_raw_index _ _ _ _ _ _ _ _ Hc E). lia.
    + unfold ent_at, log_at. replace (N.of_nat (length (rp_log rp)) =? 0) with false by lia.
      replace (N.to_nat (N.of_nat (length (rp_log rp)) - 1)) with (length (rp_log rp) - 1)%nat by lia.
      rewrite E. reflexivity.
  - apply nth_error_None in E. lia.
Qed.

Lemma last_nth_error {A} (d : A) : forall l, l <> [] -> nth_error l (length l - 1) = Some (last l d).
Proof.
  induction l as [|x l IH]; intro H; [congruence|]. destruct l as [|y l]; [reflexivity|].
  replace (length (x :: y :: l) - 1)%nat with (S (length (y :: l) - 1)) by (cbn; lia).
  cbn [nth_error]. rewrite IH by discriminate. reflexivity.
Qed.

Lemma combine_nth_error_r {A B} : forall (l1 : list A) (l2 : list B) k a,
  length l1 = length l2 -> nth_error l1 k = Some a -> exists b, nth_error (combine l1 l2) k = Some (a, b).
Proof.
  induction l1 as [|x l1 IH]; intros l2 k a Hl Hk; [destruct k; discriminate|].
  destruct l2 as [|y l2]; [discriminate|]. destruct k as [|k]; cbn in *.
  - inversion Hk; subst. eauto.
  - apply IH; [lia | exact Hk].
Qed.

(* appending one sealed proposal whose predecessor fields match the log tail *)
Lemma put_proposal_WF rp m recs es :
  WF rp -> DeriveProposalEntries m recs = Some es -> rp_leo rp = m_base m ->
  digest_eqb (i_dg (last_ident es)) (m_dg m) = true ->
  (if m_base m =? 0 then m_pt m = 0 /\ m_pd m = D0
   else exists t, ent_at rp (m_base m) = Some t /\ i_t t = m_pt m /\ i_dg t = m_pd m) ->
  forall hw, hw <= m_last m -> rp_hw rp <= hw ->
  WF (set_hw (put_proposal rp m es recs) hw) /\ keeps rp (set_hw (put_proposal rp m es recs) hw) /\
  rp_leo (set_hw (put_proposal rp m es recs) hw) = m_last m /\
  ent_at (set_hw (put_proposal rp m es recs) hw) (m_last m) = Some (last_ident es).
Proof.
  intros HWF Hd Hleo Hdg Hpred hw Hhw1 Hhw2.
  pose proof HWF as (Hc & Hb & Hbl).
  unfold DeriveProposalEntries in Hd.
  destruct (_ || _ || _ || _ || _ || _ || _) eqn:Hcond in Hd; [discriminate|].
  destruct (if m_base m =? 0 then _ else _) in Hd; [discriminate|].
  pose proof (derive_loop_chain _ _ _ _ _ _ _ Hd) as Hnew.
  pose proof (derive_loop_length _ _ _ _ _ _ _ Hd) as Hlen.
  pose proof (derive_loop_entries _ _ _ _ _ _ _ Hd) as Hent.
  assert (Hpidx : m_pidx m = m_base m /\ m_last m = m_base m + lenN recs /\ recs <> []).
  { repeat rewrite orb_false_iff in Hcond. destruct Hcond as [[[[[[C1 _] _] _] _] C6] C7].
    split; [lia|]. split; [lia|]. intro X. subst. unfold lenN in C1. cbn in C1. discriminate. }
  destruct Hpidx as (Hpidx & Hlast & Hne).
  assert (Hclen : lenN (combine es recs) = lenN recs).
  { unfold lenN. rewrite combine_length, Hlen. f_equal. lia. }
  (* the new log is a chain *)
  assert (Hchain : chain_raw 1 0 0 D0 (rp_log rp ++ combine es recs)).
  { apply chain_raw_app; [exact Hc|].
    destruct (m_base m =? 0) eqn:Hb0.
    - destruct Hpred as [P1 P2]. assert (rp_log rp = []).
      { unfold rp_leo, lenN in Hleo. destruct (rp_log rp); [reflexivity | cbn in Hleo; lia]. }
      assert (E0 : m_base m = 0) by (apply N.eqb_eq; exact Hb0).
      rewrite P1, P2, Hpidx, E0 in Hnew. rewrite H. cbn [tail_params].
      replace (1 + lenN (@nil (ident * record))) with (0 + 1) by (unfold lenN; cbn; lia). exact Hnew.
    - destruct Hpred as (t & Ht & P1 & P2).
      destruct (WF_tail rp HWF ltac:(lia)) as (e & r & Hn & Hi & He).
      rewrite Hleo in He. rewrite Ht in He. inversion He; subst e.
      rewrite (tail_params_last _ _ _ _ _ _ Hn) by (intro X; rewrite X in Hn; cbn in Hn; discriminate Hn).
      rewrite P1, P2, Hi, Hleo.
      replace (1 + lenN (rp_log rp)) with (m_base m + 1) by (unfold rp_leo in Hleo; lia).
      rewrite Hpidx in Hnew. exact Hnew. }
  assert (Hleo' : rp_leo (set_hw (put_proposal rp m es recs) hw) = m_last m).
  { unfold rp_leo, set_hw, put_proposal. cbn. rewrite lenN_app, Hclen. unfold rp_leo in Hleo. lia. }
  assert (Hold : forall idx, idx <= rp_leo rp -> ent_at (set_hw (put_proposal rp m es recs) hw) idx = ent_at rp idx).
  { intros idx Hi. unfold ent_at at 1, log_at, set_hw, put_proposal. cbn [rp_log].
    eapply ent_at_app_old; [reflexivity | exact Hi]. }
  assert (Hle : nth_error es (length es - 1) = Some (last_ident es)).
  { unfold last_ident. apply last_nth_error. intro X. subst es. destruct recs; [congruence | discriminate]. }
  assert (Hlast_ent : ent_at (set_hw (put_proposal rp m es recs) hw) (m_last m) = Some (last_ident es)).
  { destruct (combine_nth_error_r es recs (length es - 1) (last_ident es) Hlen Hle) as [r Hc2].
    unfold ent_at, log_at, set_hw, put_proposal. cbn [rp_log].
    replace (m_last m =? 0) with false by lia.
    replace (N.to_nat (m_last m - 1)) with (length (rp_log rp) + (length es - 1))%nat
      by (unfold rp_leo, lenN in Hleo; unfold lenN in Hlast; lia).
    rewrite nth_error_app2 by lia.
    replace (length (rp_log rp) + (length es - 1) - length (rp_log rp))%nat with (length es - 1)%nat by lia.
    rewrite Hc2. reflexivity. }
  split; [|split; [|split; [exact Hleo' | exact Hlast_ent]]].
  - split; [exact Hchain|]. split; [rewrite Hleo'; cbn; exact Hhw1|].
    intros k m' Hk. unfold set_hw, put_proposal in Hk. cbn [rp_bylast] in Hk. unfold set_last in Hk. cbn in Hk.
    destruct (k =? m_last m) eqn:Ek.
    + inversion Hk; subst m'. apply N.eqb_eq in Ek. split; [lia|].
      destruct (Hent _ _ Hle) as (Hix & _ & Hit & _).
      exists (last_ident es). subst k. split; [exact Hlast_ent|]. split; [apply digest_eqb_eq; exact Hdg | exact Hit].
    + assert (Hk' : by_last (rp_bylast rp) k = Some m').
      { clear - Hk Ek. induction (rp_bylast rp) as [|[k0 m0] l IH]; cbn in *; [discriminate|].
        destruct (negb (k0 =? m_last m)) eqn:E0; cbn in Hk.
        - destruct (k =? k0); [exact Hk | apply IH; exact Hk].
        - apply negb_false_iff, N.eqb_eq in E0. subst k0. rewrite Ek. apply IH. exact Hk. }
      destruct (Hbl _ _ Hk') as (A & e & B & C). split; [exact A|]. exists e. split; [|exact C].
      rewrite Hold; [exact B|]. unfold ent_at, log_at in B. destruct (k =? 0) eqn:E0; [discriminate|].
      destruct (nth_error (rp_log rp) (N.to_nat (k - 1))) eqn:E1; [|discriminate].
      assert (N.to_nat (k - 1) < length (rp_log rp))%nat by (apply nth_error_Some; congruence).
      unfold rp_leo, lenN. lia.
  - split; [cbn; exact Hhw2|]. intros idx Hi. apply Hold. lia.
Qed.

(* ---- exact append ------------------------------------------------------------------------------------ *)

(* what both stores establish before they append a proposal *)
Definition append_facts (rp : replica) (m : manifest) (recs : list record) (es : list ident) : Prop :=
  DeriveProposalEntries m recs = Some es /\ rp_leo rp = m_base m /\
  digest_eqb (i_dg (last_ident es)) (m_dg m) = true /\
  (if m_base m =? 0 then m_pt m = 0 /\ m_pd m = D0
   else exists t, ent_at rp (m_base m) = Some t /\ i_t t = m_pt m /\ i_dg t = m_pd m).

Lemma ValidFor_genesis m base count : ValidFor m base count = true -> m_base m = 0 -> m_pt m = 0 /\ m_pd m = D0.
Proof.
  unfold ValidFor, StructurallyValid. intros H Hb. rewrite Hb in H. cbn in H.
  destruct (_ || _ || _ || _ || _ || _ || _) in H; [discriminate|].
  rewrite !andb_true_iff in H. destruct H as [[[H _] _] _]. destruct H as [H1 H2].
  split; [lia|]. destruct (m_pd m); [reflexivity | discriminate].
Qed.

Lemma appendLeaderExactLocked_WF rp m recs rp' o nf :
  WF rp -> appendLeaderExactLocked rp m recs = (rp', o, nf) ->
  match o with
  | ODurable => exists es, rp' = put_proposal rp m es recs /\ append_facts rp m recs es
  | OAlready => rp' = rp /\ m_last m <= rp_leo rp
  | _ => rp' = rp
  end.
Proof.
  intros HWF. pose proof HWF as (_ & _ & Hbl). unfold appendLeaderExactLocked. intro H.
  repeat (first [break_if H | break_match H]; try (finish3 H; try reflexivity)).
  - (* Already *) split; [reflexivity|].
    match goal with Hm : _ && _ && (m_last m <=? rp_leo _) && _ = true |- _ =>
      rewrite !andb_true_iff in Hm; destruct Hm as [[_ Hm] _]; apply N.leb_le in Hm; exact Hm end.
  - (* Durable *)
    eexists. split; [reflexivity|]. split; [eassumption|]. split; [lia|].
    split; [match goal with Hd : negb (digest_eqb _ _) = false |- _ => apply negb_false_iff in Hd; exact Hd end|].
    destruct (m_base m =? 0) eqn:Hb0.
    + apply (ValidFor_genesis m (m_base m) (lenN recs)); [|lia].
      match goal with Hv : negb (ValidFor _ _ _) = false |- _ => apply negb_false_iff in Hv; exact Hv end.
    + assert (Hq0 : match by_last (rp_bylast rp) (m_base m) with
                    | Some p => (m_t p =? m_pt m) && digest_eqb (m_dg p) (m_pd m)
                    | None => false end = true).
      { match goal with Hp : (0 <? m_base m) && negb ?x = false |- _ =>
          destruct x; [reflexivity | cbn in Hp; lia] end. }
      destruct (by_last (rp_bylast rp) (m_base m)) as [p|] eqn:Ep; [|discriminate].
      destruct (Hbl _ _ Ep) as (_ & t & Ht & Hd & Htt).
      exists t. split; [exact Ht|]. pose proof Hq0 as Hq.
      apply andb_true_iff in Hq. destruct Hq as [Q1 Q2]. apply digest_eqb_eq in Q2.
      split; [rewrite Htt; lia | rewrite Hd; exact Q2].
Qed.

Lemma validatePredecessor_facts rp m :
  validateDurableProposalPredecessor rp m = true -> negb (m_base m =? 0) = true ->
  exists t, ent_at rp (m_base m) = Some t /\ i_t t = m_pt m /\ i_dg t = m_pd m.
Proof.
  unfold validateDurableProposalPredecessor. intros H Hb. apply negb_true_iff in Hb. rewrite Hb in H.
  destruct (pair_by_last rp (m_base m)) as [[p|]|]; try discriminate.
  rewrite !andb_true_iff in H. destruct H as [[[_ H1] H2] H3].
  destruct (ent_at rp (m_base m)) as [t|]; [|discriminate]. exists t. split; [reflexivity|].
  rewrite !andb_true_iff in H3. destruct H3 as [[[[[_ _] T] _] _] D].
  apply digest_eqb_eq in H2, D. split; [lia | congruence].
Qed.

Lemma prepareExactAppendRecordsLocked_WF rp mu rp' o nf :
  WF rp -> prepareExactAppendRecordsLocked rp mu = (rp', o, nf) ->
  match o with
  | ODurable => exists es, rp' = set_hw (put_proposal rp (mu_manifest mu) es (mu_records mu))
                                       (N.max (rp_hw rp) (mu_committed mu)) /\
                           append_facts rp (mu_manifest mu) (mu_records mu) es /\
                           mu_committed mu <= m_last (mu_manifest mu)
  | OAlready => rp' = set_hw rp (N.max (rp_hw rp) (mu_committed mu)) /\
                N.max (rp_hw rp) (mu_committed mu) <= rp_leo rp
  | _ => rp' = rp
  end.
Proof.
  intros HWF. pose proof HWF as (_ & Hhw & _). unfold prepareExactAppendRecordsLocked. cbv zeta. intro H.
  repeat (first [break_if H | break_match H]; try (finish3 H; try reflexivity)).
  all: try (split; [reflexivity | lia]).
  all: eexists; split; [reflexivity|]; split; [|
         match goal with Hv : negb (ValidFor ?m _ ?c) = false |- _ =>
           apply negb_false_iff in Hv; unfold ValidFor in Hv; rewrite !andb_true_iff in Hv; lia end].
  all: split; [eassumption|]; split; [lia|];
       split; [match goal with Hd : negb (digest_eqb _ _) = false |- _ => apply negb_false_iff in Hd; exact Hd end|].
  all: destruct (m_base (mu_manifest mu) =? 0) eqn:Hb0;
       [ apply (ValidFor_genesis (mu_manifest mu) (m_base (mu_manifest mu)) (lenN (mu_records mu))); [|lia];
         match goal with Hv : negb (ValidFor _ _ _) = false |- _ => apply negb_false_iff in Hv; exact Hv end
       | apply validatePredecessor_facts; [|rewrite Hb0; reflexivity];
         match goal with Hv : negb (validateDurableProposalPredecessor _ _) = false |- _ =>
           apply negb_false_iff in Hv; exact Hv end ].
Qed.

(* every Sync preserves the invariant, never lowers the committed watermark and never touches
   an entry at or below it *)
Lemma sync_WF k rp mu rp' o nf :
  WF rp -> sync k rp mu = (rp', o, nf) -> WF rp' /\ keeps rp rp'.
Proof.
  intros HWF. pose proof HWF as (Hc & Hhw & Hbl). unfold sync.
  destruct (negb (validMutation mu)) eqn:Hvm; [intro H; inversion H; subst; split; [exact HWF | apply keeps_refl]|].
  assert (Hcm : mu_committed mu <= m_last (mu_manifest mu)).
  { apply negb_false_iff in Hvm. unfold validMutation in Hvm. rewrite !andb_true_iff in Hvm. lia. }
  assert (Hsame : forall hw, rp_hw rp <= hw -> hw <= rp_leo rp -> WF (set_hw rp hw) /\ keeps rp (set_hw rp hw)).
  { intros hw H1 H2. split; [split; [exact Hc|]; split; [exact H2|]; exact Hbl|]. split; [exact H1 | auto]. }
  destruct k.
  - destruct (appendLeaderExactLocked rp (mu_manifest mu) (mu_records mu)) as [[rp1 o1] nf1] eqn:E.
    pose proof (appendLeaderExactLocked_WF _ _ _ _ _ _ HWF E) as F.
    destruct o1; cbn [outcome_durable]; intro H; inversion H; subst; clear H;
      try (split; [exact HWF | apply keeps_refl]).
    + destruct F as (es & -> & Hd & Hleo & Hdg & Hpred).
      destruct (rp_hw (put_proposal rp (mu_manifest mu) es (mu_records mu)) <? mu_committed mu) eqn:Eh.
      * destruct (put_proposal_WF rp (mu_manifest mu) (mu_records mu) es HWF Hd Hleo Hdg Hpred (mu_committed mu)) as (A & B & _); [lia | cbn in Eh; lia | auto].
      * replace (put_proposal rp (mu_manifest mu) es (mu_records mu))
          with (set_hw (put_proposal rp (mu_manifest mu) es (mu_records mu)) (rp_hw rp)) by (destruct rp; reflexivity).
        assert (Hml : m_base (mu_manifest mu) < m_last (mu_manifest mu)).
        { unfold DeriveProposalEntries in Hd.
          destruct (_ || _ || _ || _ || _ || _ || _) eqn:C in Hd; [discriminate|]. lia. }
        destruct (put_proposal_WF rp (mu_manifest mu) (mu_records mu) es HWF Hd Hleo Hdg Hpred (rp_hw rp)) as (A & B & _);
          [lia | lia | auto].
    + destruct F as [-> Hl]. destruct (rp_hw rp <? mu_committed mu) eqn:Eh.
      * apply Hsame; lia.
      * split; [exact HWF | apply keeps_refl].
  - intro H. pose proof (prepareExactAppendRecordsLocked_WF _ _ _ _ _ HWF H) as F.
    destruct o; subst; try (split; [exact HWF | apply keeps_refl]).
    + destruct F as (es & -> & (Hd & Hleo & Hdg & Hpred) & Hcm2).
      assert (Hml : m_base (mu_manifest mu) < m_last (mu_manifest mu)).
      { unfold DeriveProposalEntries in Hd.
        destruct (_ || _ || _ || _ || _ || _ || _) eqn:C in Hd; [discriminate|]. lia. }
      destruct (put_proposal_WF rp (mu_manifest mu) (mu_records mu) es HWF Hd Hleo Hdg Hpred (N.max (rp_hw rp) (mu_committed mu))) as (A & B & _);
        [lia | lia | auto].
    + destruct F as [-> Hl]. apply Hsame; lia.
Qed.

(* a standalone checkpoint of a watermark within the log *)
Lemma storeCheckpoint_WF rp w : WF rp -> w <= rp_leo rp -> WF (storeCheckpoint rp w) /\ keeps rp (storeCheckpoint rp w).
Proof.
  intros HWF Hw. pose proof HWF as (Hc & Hhw & Hbl). unfold storeCheckpoint.
  destruct (rp_hw rp <? w) eqn:E; [|split; [exact HWF | apply keeps_refl]].
  split; [split; [exact Hc|]; split; [exact Hw | exact Hbl]|]. split; [cbn; lia | auto].
Qed.

(* ---- recovery suffix replacement -------------------------------------------------------------------------- *)

Lemma by_last_filter l keep k m :
  by_last (filter (fun p => fst p <=? keep) l) k = Some m -> by_last l k = Some m /\ k <= keep.
Proof.
  induction l as [|[k0 m0] l IH]; cbn; [discriminate|].
  destruct (k0 <=? keep) eqn:E; cbn.
  - destruct (k =? k0) eqn:Ek.
    + intro H. inversion H; subst. apply N.eqb_eq in Ek. split; [reflexivity | lia].
    + exact IH.
  - intro H. destruct (IH H) as [A B]. destruct (k =? k0) eqn:Ek; [apply N.eqb_eq in Ek; lia | auto].
Qed.

Lemma nth_error_firstn_lt {A} : forall (l : list A) n k, (k < n)%nat -> nth_error (firstn n l) k = nth_error l k.
Proof.
  induction l as [|x l IH]; intros n k H; [destruct n, k; reflexivity|].
  destruct n as [|n]; [lia|]. destruct k as [|k]; cbn; [reflexivity|]. apply IH. lia.
Qed.

Lemma ent_at_firstn rp keep idx log' hw bc bl :
  log' = firstn (N.to_nat keep) (rp_log rp) -> idx <= keep ->
  ent_at (Replica log' bc bl hw) idx = ent_at rp idx.
Proof.
  intros -> Hi. unfold ent_at, log_at. cbn [rp_log]. destruct (idx =? 0) eqn:E; [reflexivity|].
  rewrite nth_error_firstn_lt by lia. reflexivity.
Qed.

(* cutting the log back to a proposal boundary at or above the committed watermark *)
Lemma truncated_WF rp keep bc :
  WF rp -> rp_hw rp <= keep -> keep <= rp_leo rp ->
  let rp' := Replica (firstn (N.to_nat keep) (rp_log rp)) bc (filter (fun p => fst p <=? keep) (rp_bylast rp)) (rp_hw rp) in
  WF rp' /\ keeps rp rp' /\ rp_leo rp' = keep /\ rp_hw rp' = rp_hw rp.
Proof.
  intros (Hc & Hhw & Hbl) H1 H2 rp'.
  assert (Hleo : rp_leo rp' = keep).
  { unfold rp', rp_leo, lenN. cbn. rewrite firstn_length. unfold rp_leo, lenN in H2. lia. }
  split; [|split; [|split; [exact Hleo | reflexivity]]].
  - split; [apply chain_raw_firstn; exact Hc|]. split; [rewrite Hleo; exact H1|].
    intros k m Hk. unfold rp' in Hk. cbn [rp_bylast] in Hk. apply by_last_filter in Hk. destruct Hk as [Hk Hle].
    destruct (Hbl _ _ Hk) as (A & e & B & C). split; [exact A|]. exists e. split; [|exact C].
    unfold rp'. rewrite (ent_at_firstn rp keep k _ _ _ _ eq_refl Hle). exact B.
  - split; [cbn; lia|]. intros idx Hi. unfold rp'. apply (ent_at_firstn rp keep idx _ _ _ _ eq_refl). lia.
Qed.

Lemma set_hw_same rp : set_hw rp (rp_hw rp) = rp.
Proof. destruct rp. reflexivity. Qed.
Lemma set_hw_put_same rp m es recs : set_hw (put_proposal rp m es recs) (rp_hw rp) = put_proposal rp m es recs.
Proof. destruct rp. reflexivity. Qed.

Lemma replace_append_mem_WF : forall ps rp base rp' final,
  WF rp -> replace_append_mem rp ps base = inr (rp', final) -> base <= rp_leo rp ->
  WF rp' /\ keeps rp rp' /\ final <= rp_leo rp' /\ rp_hw rp' = rp_hw rp.
Proof.
  induction ps as [|[m recs] ps IH]; intros rp base rp' final HWF H Hb; cbn in H.
  - inversion H; subst. split; [exact HWF|]. split; [apply keeps_refl|]. split; [exact Hb | reflexivity].
  - destruct (negb (m_base m =? base)); [discriminate|].
    destruct (appendLeaderExactLocked rp m recs) as [[rp1 o] nf] eqn:E.
    pose proof (appendLeaderExactLocked_WF _ _ _ _ _ _ HWF E) as F.
    destruct o; cbn [outcome_durable] in H; try discriminate.
    + destruct F as (es & -> & Hd & Hleo & Hdg & Hpred).
      assert (Hml : m_base m < m_last m).
      { unfold DeriveProposalEntries in Hd. destruct (_ || _ || _ || _ || _ || _ || _) eqn:C in Hd; [discriminate|]. lia. }
      pose proof HWF as (_ & Hhw & _).
      destruct (put_proposal_WF rp m recs es HWF Hd Hleo Hdg Hpred (rp_hw rp)) as (A & B & C & _); [lia | lia|].
      rewrite set_hw_put_same in A, B, C.
      destruct (IH _ _ _ _ A H) as (I1 & I2 & I3 & I4); [lia|].
      split; [exact I1|]. split; [eapply keeps_trans; eauto|]. split; [exact I3|]. rewrite I4. reflexivity.
    + destruct F as [-> Hl]. apply (IH _ _ _ _ HWF H). exact Hl.
Qed.

(* the staged proposals of the Pebble replacement form a chain starting at [previous] *)
Lemma replace_prepare_pebble_fold : forall ps rp keep base previous sc sl sr staged final acc,
  replace_prepare_pebble rp keep ps base previous sc sl sr = Some (staged, final) ->
  WF acc -> rp_leo acc = base ->
  (if base =? 0 then previous = ident_zero else ent_at acc base = Some previous) ->
  let acc' := fold_left (fun a s => let '(m, es, recs) := s in put_proposal a m es recs) staged acc in
  WF acc' /\ keeps acc acc' /\ rp_leo acc' = final /\ rp_hw acc' = rp_hw acc /\ base <= final.
Proof.
  induction ps as [|[m recs] ps IH]; intros rp keep base previous sc sl sr staged final acc H HWF Hleo Hprev; cbn in H.
  - inversion H as [[Hs Hf]]. cbn. split; [exact HWF|]. split; [apply keeps_refl|]. split; [rewrite <- Hf; exact Hleo|]. split; [reflexivity | lia].
  - repeat (first [break_if H | break_match H]; try discriminate).
    inversion H as [[Hs Hf]]. clear H. subst staged final. cbn [fold_left].
    match goal with Hv : negb (ValidFor m base (lenN recs)) = false |- _ => apply negb_false_iff in Hv; rename Hv into Hvf end.
    assert (Hmb : m_base m = base /\ m_base m < m_last m).
    { unfold ValidFor, StructurallyValid in Hvf. rewrite !andb_true_iff in Hvf.
      destruct (_ || _ || _ || _ || _ || _ || _) eqn:C in Hvf; [destruct Hvf as [[[X _] _] _]; discriminate|]. lia. }
    destruct Hmb as [Hmb Hml].
    assert (Hpred : if m_base m =? 0 then m_pt m = 0 /\ m_pd m = D0
                    else exists t, ent_at acc (m_base m) = Some t /\ i_t t = m_pt m /\ i_dg t = m_pd m).
    { destruct (m_base m =? 0) eqn:E0.
      - apply (ValidFor_genesis m base (lenN recs) Hvf). lia.
      - rewrite Hmb. rewrite Hmb in E0. rewrite E0 in Hprev. exists previous. split; [exact Hprev|].
        match goal with Hq : negb (m_pidx m =? i_idx previous) || negb (m_pt m =? i_t previous) || negb (digest_eqb (m_pd m) (i_dg previous)) = false |- _ =>
          rewrite !orb_false_iff, !negb_false_iff in Hq; destruct Hq as [[_ Q1] Q2]; apply digest_eqb_eq in Q2 end.
        split; [lia | congruence]. }
    match goal with Hd : DeriveProposalEntries m recs = Some ?es |- _ => rename Hd into Hder; set (es0 := es) in * end.
    assert (Hdg : digest_eqb (i_dg (last_ident es0)) (m_dg m) = true).
    { match goal with Hq : negb (digest_eqb (i_dg (last_ident es0)) (m_dg m)) = false |- _ => apply negb_false_iff in Hq; exact Hq end. }
    pose proof HWF as (_ & Hhw & _).
    destruct (put_proposal_WF acc m recs es0 HWF Hder ltac:(lia) Hdg Hpred (rp_hw acc)) as (A & B & C & D); [lia | lia|].
    rewrite set_hw_put_same in A, B, C, D.
    match goal with Hr : replace_prepare_pebble _ _ ps _ _ _ _ _ = Some _ |- _ =>
      destruct (IH _ _ _ _ _ _ _ _ _ _ Hr A C) as (I1 & I2 & I3 & I4 & I5) end.
    { replace (m_last m =? 0) with false by lia. exact D. }
    split; [exact I1|]. split; [eapply keeps_trans; eauto|]. split; [exact I3|]. split; [rewrite I4; reflexivity | lia].
Qed.

(* ReplicaStore.Replace, both back ends *)
Lemma replace_WF k rp q rp' lo :
  WF rp -> replace k rp q = inr (rp', lo) -> WF rp' /\ keeps rp rp'.
Proof.
  intros HWF. pose proof HWF as (Hc & Hhw & Hbl). unfold replace.
  destruct (negb (validateRecoveryReplacement q)); [discriminate|].
  destruct (loadExactState k rp) as [current|]; [|discriminate].
  destruct (negb (rstate_eqb current (rq_expected q)) || (rp_leo rp <? rq_keep q) || (rq_keep q <? rp_hw rp) ||
            (rq_committed q <? rp_hw rp)) eqn:Hg; [discriminate|].
  assert (Hk : rp_hw rp <= rq_keep q /\ rq_keep q <= rp_leo rp /\ rp_hw rp <= rq_committed q) by lia.
  destruct Hk as (K1 & K2 & K3).
  destruct k.
  - destruct ((0 <? rq_keep q) && negb _); [discriminate|].
    destruct (truncated_WF rp (rq_keep q) (filter (fun p => m_last (snd p) <=? rq_keep q) (rp_bycmd rp)) HWF K1 K2)
      as (T1 & T2 & T3 & T4).
    fold (truncate_to rp (rq_keep q)) in T1, T2, T3, T4.
    destruct (replace_append_mem (truncate_to rp (rq_keep q)) (rq_proposals q) (rq_keep q)) as [e | [rp1 base]] eqn:E; [discriminate|].
    destruct (base <? rq_committed q) eqn:Eb; [discriminate|].
    intro H. inversion H; subst. clear H.
    destruct (replace_append_mem_WF _ _ _ _ _ T1 E) as (A1 & A2 & A3 & A4); [lia|].
    pose proof A1 as (Ac & _ & Abl).
    split.
    + split; [exact Ac|]. split; [change (rq_committed q <= rp_leo rp1); lia | exact Abl].
    + eapply keeps_trans; [exact T2|]. eapply keeps_trans; [exact A2|].
      split; [change (rp_hw rp1 <= rq_committed q); rewrite A4, T4; lia | auto].
  - destruct ((0 <? rq_keep q) && negb _); [discriminate|].
    destruct (if 0 <? rq_keep q then ent_at rp (rq_keep q) else Some ident_zero) as [pv|] eqn:Epv; [|discriminate].
    destruct (replace_prepare_pebble rp (rq_keep q) (rq_proposals q) (rq_keep q) pv [] [] []) as [[staged final]|] eqn:Eprep;
      [|discriminate].
    destruct (final <? rq_committed q) eqn:Ef; [discriminate|].
    destruct (stageTruncateDurableProposals rp (rq_keep q)) as [cut|] eqn:Ecut; [|discriminate].
    intro H. inversion H; subst. clear H.
    (* the cut is the truncation with another by-command index *)
    unfold stageTruncateDurableProposals in Ecut.
    repeat (break_if Ecut; try discriminate). inversion Ecut; subst cut. clear Ecut.
    match goal with |- context[Replica (firstn _ _) ?bc _ _] =>
      destruct (truncated_WF rp (rq_keep q) bc HWF K1 K2) as (T1 & T2 & T3 & T4); set (cut := Replica (firstn (N.to_nat (rq_keep q)) (rp_log rp)) bc
                (filter (fun p => fst p <=? rq_keep q) (rp_bylast rp)) (rp_hw rp)) in * end.
    assert (Hprev : if rq_keep q =? 0 then pv = ident_zero else ent_at cut (rq_keep q) = Some pv).
    { destruct (rq_keep q =? 0) eqn:E0.
      - replace (0 <? rq_keep q) with false in Epv by lia. inversion Epv. reflexivity.
      - replace (0 <? rq_keep q) with true in Epv by lia.
        unfold cut. rewrite (ent_at_firstn rp (rq_keep q) (rq_keep q) _ _ _ _ eq_refl); [exact Epv | lia]. }
    destruct (replace_prepare_pebble_fold _ _ _ _ _ _ _ _ _ _ cut Eprep T1 T3 Hprev) as (A1 & A2 & A3 & A4 & A5).
    pose proof A1 as (Ac & _ & Abl).
    split.
    + split; [exact Ac|]. split; [match goal with |- rp_hw (set_hw ?x ?c) <= rp_leo (set_hw ?x ?c) => change (c <= rp_leo x) end; rewrite A3; lia | exact Abl].
    + eapply keeps_trans; [exact T2|]. eapply keeps_trans; [exact A2|].
      split; [match goal with |- rp_hw ?y <= rp_hw (set_hw ?x ?c) => change (rp_hw y <= c) end; rewrite A4, T4; lia | auto].
Qed.
