(* Proof/Machine_trans.v — every transition of Model/Machine.v establishes [step_facts]; the
   no-op lemmas for stale fences, rejected metadata and acks above LEO (C06). *)
From WK Require Import Base.Base Gen.Consts_C06 Model.Machine Proof.Machine Proof.Machine_steps.
Open Scope N_scope.

(* ---- watermark bookkeeping --------------------------------------------------------------------- *)
Lemma WM_set_leo_max s p o i last :
  WM s -> WM (set_leo (set_app s p o i) (N.max (s_leo s) last)).
Proof.
  unfold WM, prog_le. intros [H1 [H2 H3]]. st. split; [exact H1|]. split.
  - eapply N.le_trans; [exact H2|apply N.le_max_l].
  - intro n. eapply N.le_trans; [apply H3|apply N.le_max_l].
Qed.

Lemma WM_set_progress s n v :
  WM s -> v <= s_leo s -> WM (set_progress s (pr_set n v (s_progress s))).
Proof.
  unfold WM, prog_le. intros [H1 [H2 H3]] Hv. st. split; [exact H1|]. split; [exact H2|].
  intro k. rewrite pr_get_set. destruct (k =? n); [exact Hv|apply H3].
Qed.

Lemma WM_set_app s p o i : WM s -> WM (set_app s p o i).
Proof. apply WM_same. apply same_but_app_set_app. Qed.

(* ---- a transition whose replies come from failInflightAppend ------------------------------------- *)
Lemma facts_via_fail s e err s' d :
  err <> 0 -> fail_inflight s err = (s', d) -> (forall d0, admitted_ids e d0 = []) ->
  Inv s -> step_facts s e s' d.
Proof.
  intros He Hf Ha HI. destruct (fail_inflight_spec _ _ _ _ Hf) as [S [_ [_ [cs [A [B [D C]]]]]]].
  destruct (same_hw _ _ S) as [Hh [Hl Hc]].
  constructor.
  - eapply Inv_same; [exact S| |exact HI]. intros w Hw. rewrite B in Hw.
    apply del_ids_In in Hw. tauto.
  - rewrite Hh. apply N.le_refl.
  - rewrite Hl. apply N.le_refl.
  - exact Hc.
  - intros r Hr. destruct (C r Hr) as [[w F] [E _]]. exists w. split; [exact F|]. split.
    + rewrite B. intro Hin. apply ids_del_ids in Hin. destruct Hin as [_ Hin]. apply Hin.
      rewrite <- A. apply in_map. exact Hr.
    + intro E0. exfalso. apply He. rewrite <- E. exact E0.
  - rewrite A. exact D.
  - intros x Hx. left. rewrite B in Hx. apply ids_del_ids in Hx. tauto.
  - rewrite Ha. intros x [].
  - rewrite Ha. constructor.
Qed.

(* ---- a transition whose replies come from completeAppendWaiters on an intermediate state --------- *)
Lemma facts_via_complete s e m order s' rs d :
  Inv s -> WM m -> Forall tgt_ok (s_pending m) ->
  (forall a w', find_w a (s_pending m) = Some w' ->
                exists w, find_w a (s_pending s) = Some w /\ w_mode w' = w_mode w) ->
  s_hw s <= s_hw m -> s_leo s <= s_leo m -> s_cp m = s_cp s ->
  complete_waiters m order = (s', rs) -> d_replies d = rs -> (forall d0, admitted_ids e d0 = []) ->
  step_facts s e s' d.
Proof.
  intros HI Wm Tm Hm Hh Hl Hc Hcw Hd Ha.
  destruct (replies_via_complete _ _ _ _ _ Hm Tm Hcw) as [R [N [P [S _]]]].
  destruct (same_hw _ _ S) as [Hh' [Hl' Hc']].
  constructor.
  - split; [eapply WM_same; eassumption|]. unfold TG. rewrite Forall_forall in *.
    intros w Hw. apply Tm. apply P. exact Hw.
  - rewrite Hh'. exact Hh.
  - rewrite Hl'. exact Hl.
  - rewrite Hc'. exact Hc.
  - rewrite Hd. exact R.
  - rewrite Hd. exact N.
  - intros x Hx. left. unfold pend_ids in Hx. apply in_map_iff in Hx. destruct Hx as [w [E Hw]].
    apply P in Hw. assert (Hi : In x (pend_ids (s_pending m))) by (subst x; apply in_map; exact Hw).
    destruct (ids_find_some _ _ Hi) as [w' F']. destruct (Hm _ _ F') as [w0 [F0 _]].
    eapply find_w_some_ids. exact F0.
  - rewrite Ha. intros x [].
  - rewrite Ha. constructor.
Qed.

(* ---- ApplyMeta --------------------------------------------------------------------------------------- *)
Lemma apply_meta_error s m e : validate_meta s m = e -> e <> 0 -> apply_meta s m = (s, dec_err e).
Proof.
  intros H He. unfold apply_meta. rewrite H. destruct e; [exfalso; apply He; reflexivity|reflexivity].
Qed.

Lemma apply_meta_facts s m s' d :
  apply_meta s m = (s', d) -> Inv s -> step_facts s (EvMeta m) s' d.
Proof.
  intros H HI. unfold apply_meta in H. destruct (validate_meta s m) eqn:V.
  - destruct HI as [[W1 [W2 W3]] T].
    assert (Hp : forall l : list waiter, Forall tgt_ok (if should_clear s m then [] else l) ->
                 True) by auto.
    destruct (m_status m =? StatusDeleted).
    + inversion H; subst s' d. clear H. apply quiet_facts; st; try apply N.le_refl; try reflexivity.
      * split; [unfold WM, prog_le; st; repeat split; assumption|]. unfold TG; st.
        destruct (should_clear s m); [constructor|exact T].
      * destruct (should_clear s m); [intros x []|auto].
    + inversion H; subst s' d. clear H. apply quiet_facts; st; try apply N.le_refl; try reflexivity.
      * split.
        -- unfold WM, prog_le; st. split; [exact W1|]. split; [exact W2|].
           destruct (m_leader m =? s_local s); [|exact W3].
           intro n. rewrite pr_get_set. destruct (n =? s_local s); [apply N.le_refl|apply W3].
        -- unfold TG; st. destruct (should_clear s m); [constructor|exact T].
      * destruct (should_clear s m); [intros x []|auto].
  - inversion H; subst s' d. apply unchanged_facts; [exact HI|reflexivity|reflexivity].
Qed.

(* ---- ProposeAppendBatch ----------------------------------------------------------------------------------- *)
Lemma propose_facts s batch ws e s' d :
  propose_batch s batch ws = (s', d) ->
  (forall d0, admitted_ids e d0 = if accepted d0 then map b_op ws else []) ->
  Inv s -> step_facts s e s' d.
Proof.
  intros H Ha HI. unfold propose_batch in H.
  assert (U : forall d0, d_task d0 = None -> d_replies d0 = [] -> step_facts s e s d0).
  { intros d0 Ht Hr. apply unchanged_facts; [exact HI|exact Hr|]. rewrite Ha. unfold accepted.
    rewrite Ht. rewrite andb_false_r. reflexivity. }
  destruct ((s_status s =? StatusDeleted) || (s_status s =? StatusDeleting));
    [inversion H; subst; apply U; reflexivity|].
  destruct (negb (s_role s =? RoleLeader)); [inversion H; subst; apply U; reflexivity|].
  destruct (negb (s_ready s)); [inversion H; subst; apply U; reflexivity|].
  destruct (s_infl s); [inversion H; subst; apply U; reflexivity|].
  destruct (propose_check (s_pending s) [] ws) eqn:C;
    [|inversion H; subst; apply U; reflexivity].
  destruct ws as [|b0 ws0]; [inversion H; subst; apply U; reflexivity|].
  set (ws := b0 :: ws0) in *.
  destruct (propose_admit (s_pending s) (s_order s) ws) as [pend' ord'] eqn:A.
  inversion H; subst s' d. clear H.
  destruct (propose_check_ok _ _ _ C) as [ND F].
  destruct (propose_admit_spec _ _ _ _ _ A) as [P T].
  destruct HI as [W TGs].
  assert (Hadm : forall t, admitted_ids e (Decision 0 false (Some t) [] 0) = map b_op ws).
  { intro t. rewrite Ha. reflexivity. }
  constructor; st.
  - split; [apply WM_set_app; exact W|]. unfold TG; st. apply T. exact TGs.
  - apply N.le_refl.
  - apply N.le_refl.
  - reflexivity.
  - cbn [d_replies]. intros r [].
  - cbn [d_replies map]. constructor.
  - intros x Hx. rewrite Hadm. apply P. exact Hx.
  - intros x Hx. rewrite Hadm in Hx. apply in_map_iff in Hx. destruct Hx as [b [E Hb]].
    subst x. apply (F b Hb).
  - rewrite Hadm. exact ND.
Qed.

(* ---- CancelAppendWaiter / AbortAppendBatchProposal ------------------------------------------------------------ *)
Lemma cancel_facts s op s' d :
  cancel_waiter s op = (s', d) -> Inv s -> step_facts s (EvCancel op) s' d.
Proof.
  intros H HI. unfold cancel_waiter in H. destruct (find_w op (s_pending s)) as [w0|].
  - inversion H; subst s' d. clear H. apply quiet_facts; st; try apply N.le_refl; try reflexivity.
    + eapply Inv_same; [apply same_but_app_set_app| |exact HI]. st.
      intros w Hw. apply del_w_In in Hw. tauto.
    + intros x Hx. apply ids_del_w in Hx. tauto.
  - inversion H; subst s' d. apply unchanged_facts; [exact HI|reflexivity|reflexivity].
Qed.

Lemma abort_facts s batch s' d :
  abort_batch s batch = (s', d) -> Inv s -> step_facts s (EvAbort batch) s' d.
Proof.
  intros H HI. unfold abort_batch in H. destruct (s_infl s) as [f|].
  - destruct (f_op f =? batch).
    + inversion H; subst s' d. clear H. apply quiet_facts; st; try apply N.le_refl; try reflexivity.
      * eapply Inv_same; [apply same_but_app_set_app| |exact HI]. st.
        intros w Hw. apply del_ids_In in Hw. tauto.
      * intros x Hx. apply ids_del_ids in Hx. tauto.
    + inversion H; subst s' d. apply unchanged_facts; [exact HI|reflexivity|reflexivity].
  - inversion H; subst s' d. apply unchanged_facts; [exact HI|reflexivity|reflexivity].
Qed.

(* ---- ApplyAppendStored ----------------------------------------------------------------------------------------------- *)
Lemma stale_stored s f base last err :
  matches_fence s f = false -> apply_stored s f base last err = (s, dec_empty).
Proof. intro H. unfold apply_stored. rewrite H. reflexivity. Qed.

Lemma stale_quorum s f first last hw err :
  matches_fence s f = false -> apply_quorum s f first last hw err = (s, dec_empty).
Proof. intro H. unfold apply_quorum. rewrite H. reflexivity. Qed.

Lemma apply_stored_facts s f base last err s' d :
  apply_stored s f base last err = (s', d) -> Inv s ->
  step_facts s (EvStored f base last err) s' d.
Proof.
  intros H HI. unfold apply_stored in H.
  destruct (negb (matches_fence s f));
    [inversion H; subst; apply unchanged_facts; [exact HI|reflexivity|reflexivity]|].
  destruct (negb (err =? 0)) eqn:E.
  - apply negb_true_iff, N.eqb_neq in E. eapply facts_via_fail; [exact E|exact H|reflexivity|exact HI].
  - destruct (s_infl s) as [i|] eqn:I;
      [|inversion H; subst; apply unchanged_facts; [exact HI|reflexivity|reflexivity]].
    cbv zeta in H.
    set (pend1 := assign_loop (assign_offsets (f_recs i) base) 0 (f_ids i) (f_counts i) (s_pending s)) in *.
    set (s1 := set_leo (set_app s pend1 (s_order s) (Some i)) (N.max (s_leo s) last)) in *.
    destruct HI as [W T].
    destruct (assign_loop_spec (assign_offsets (f_recs i) base) (f_ids i) 0%nat (f_counts i) (s_pending s))
      as [_ [AF AT]]. fold pend1 in AF, AT.
    assert (W1 : WM s1) by (apply WM_set_leo_max; exact W).
    match type of H with (match complete_waiters ?mm ?o with _ => _ end) = _ =>
      set (m := mm) in *; destruct (complete_waiters m o) as [s4 rs] eqn:CW end.
    inversion H; subst s' d. clear H.
    assert (Hm : WM m /\ s_pending m = pend1 /\ s_hw s <= s_hw m /\ s_leo s <= s_leo m /\ s_cp m = s_cp s).
    { unfold m. destruct (s_role s1 =? RoleLeader).
      - match goal with |- context [advance_hw ?x] => set (s2 := x) end.
        assert (W2 : WM s2) by (unfold s2; apply WM_set_progress; [exact W1|apply N.le_refl]).
        pose proof (advance_hw_frame s2) as [F1 [F2 [F3 [F4 _]]]].
        pose proof (advance_hw_mono s2) as Mo. st.
        split; [apply WM_set_app; apply WM_advance_hw; exact W2|].
        split; [rewrite F4; reflexivity|].
        split; [exact Mo|]. split; [rewrite F1; unfold s2, s1; st; apply N.le_max_l|].
        rewrite F2. reflexivity.
      - st. split; [apply WM_set_app; exact W1|]. split; [reflexivity|].
        split; [apply N.le_refl|]. split; [apply N.le_max_l|reflexivity]. }
    destruct Hm as [Wm [Pm [Hh [Hl Hc]]]].
    eapply facts_via_complete with (m := m) (rs := rs);
      [split; assumption | exact Wm | rewrite Pm; apply AT; exact T | rewrite Pm; exact AF
       | exact Hh | exact Hl | exact Hc | exact CW | reflexivity | reflexivity].
Qed.

(* ---- ApplyQuorumCommitted ------------------------------------------------------------------------------------------------ *)
Lemma apply_quorum_facts s f first last hw err s' d :
  apply_quorum s f first last hw err = (s', d) -> Inv s ->
  step_facts s (EvQuorum f first last hw err) s' d.
Proof.
  intros H HI. unfold apply_quorum in H.
  destruct (negb (matches_fence s f));
    [inversion H; subst; apply unchanged_facts; [exact HI|reflexivity|reflexivity]|].
  destruct (negb (err =? 0)) eqn:E.
  - apply negb_true_iff, N.eqb_neq in E. eapply facts_via_fail; [exact E|exact H|reflexivity|exact HI].
  - destruct (s_infl s) as [i|] eqn:I;
      [|inversion H; subst; apply unchanged_facts; [exact HI|reflexivity|reflexivity]].
    cbv zeta in H.
    destruct ((first =? 0) || (N.of_nat (length (f_recs i)) =? 0) || (last <? first)
              || negb (last - first + 1 =? N.of_nat (length (f_recs i))) || negb (hw =? last)) eqn:C.
    + eapply facts_via_fail; [|exact H|reflexivity|exact HI]. vm_compute. discriminate.
    + apply orb_false_iff in C. destruct C as [_ C]. apply negb_false_iff, N.eqb_eq in C. subst hw.
      set (pend1 := assign_loop (assign_offsets (f_recs i) first) 0 (f_ids i) (f_counts i) (s_pending s)) in *.
      set (s1 := set_leo (set_app s pend1 (s_order s) (Some i)) (N.max (s_leo s) last)) in *.
      destruct HI as [W T].
      destruct (assign_loop_spec (assign_offsets (f_recs i) first) (f_ids i) 0%nat (f_counts i) (s_pending s))
        as [_ [AF AT]]. fold pend1 in AF, AT.
      assert (W1 : WM s1) by (apply WM_set_leo_max; exact W).
      match type of H with (match complete_waiters ?mm ?o with _ => _ end) = _ =>
        set (m := mm) in *; destruct (complete_waiters m o) as [s5 rs] eqn:CW end.
      inversion H; subst s' d. clear H.
      assert (Hm : WM m /\ s_pending m = pend1 /\ s_hw s <= s_hw m /\ s_leo s <= s_leo m /\ s_cp m = s_cp s).
      { unfold m. st. destruct W as [Wa [Wb Wc]]. split.
        - unfold WM, prog_le, s1; st.
          split; [eapply N.le_trans; [exact Wa|apply N.le_max_l]|].
          split; [apply N.max_le_compat; [exact Wb|apply N.le_refl]|].
          intro n. rewrite pr_get_set. destruct (n =? s_local s).
          + apply N.max_lub; [|apply N.le_max_r]. eapply N.le_trans; [apply Wc|apply N.le_max_l].
          + eapply N.le_trans; [apply Wc|apply N.le_max_l].
        - split; [reflexivity|]. unfold s1; st.
          split; [apply N.le_max_l|]. split; [apply N.le_max_l|reflexivity]. }
      destruct Hm as [Wm [Pm [Hh [Hl Hc]]]].
      eapply facts_via_complete with (m := m) (rs := rs);
        [split; assumption | exact Wm | rewrite Pm; apply AT; exact T | rewrite Pm; exact AF
         | exact Hh | exact Hl | exact Hc | exact CW | reflexivity | reflexivity].
Qed.

(* ---- ApplyFollowerAck and the reactor routes ----------------------------------------------------------------------------------- *)
Lemma apply_follower_ack_facts s e follower off s' d :
  apply_follower_ack s follower off = (s', d) -> off <= s_leo s ->
  (forall d0, admitted_ids e d0 = []) -> Inv s -> step_facts s e s' d.
Proof.
  intros H Ho Ha HI. unfold apply_follower_ack in H.
  destruct (negb (s_role s =? RoleLeader) || negb (mem follower (s_replicas s)));
    [inversion H; subst; apply unchanged_facts; [exact HI|reflexivity|apply Ha]|].
  cbv zeta in H.
  match type of H with (match complete_waiters (advance_hw ?x) _ with _ => _ end) = _ =>
    set (s1 := x) in * end.
  destruct (complete_waiters (advance_hw s1) (s_order (advance_hw s1))) as [s3 rs] eqn:CW.
  inversion H; subst s' d. clear H.
  destruct HI as [W T].
  assert (H1 : WM s1 /\ s_pending s1 = s_pending s /\ s_hw s1 = s_hw s /\ s_leo s1 = s_leo s
               /\ s_cp s1 = s_cp s).
  { unfold s1. destruct (pr_get follower (s_progress s) <? off).
    - st. split; [apply WM_set_progress; assumption|]. repeat split.
    - split; [exact W|]. repeat split. }
  destruct H1 as [W1 [P1 [Hh1 [Hl1 Hc1]]]].
  pose proof (advance_hw_frame s1) as [F1 [F2 [F3 [F4 _]]]].
  pose proof (advance_hw_mono s1) as Mo.
  eapply facts_via_complete with (m := advance_hw s1); try exact CW.
  - split; assumption.
  - apply WM_advance_hw. exact W1.
  - rewrite F4, P1. exact T.
  - rewrite F4, P1. intros a w' F. exists w'. split; [exact F|reflexivity].
  - rewrite <- Hh1. exact Mo.
  - rewrite F1, Hl1. apply N.le_refl.
  - rewrite F2. exact Hc1.
  - reflexivity.
  - exact Ha.
Qed.

Lemma step_ack_facts s r key epoch lepoch follower off ver_ok s' d :
  step_ack s r key epoch lepoch follower off ver_ok = (s', d) -> Inv s ->
  step_facts s (EvAck r key epoch lepoch follower off ver_ok) s' d.
Proof.
  intros H HI.
  assert (U : forall e0, (s, dec_err e0) = (s', d) ->
              step_facts s (EvAck r key epoch lepoch follower off ver_ok) s' d).
  { intros e0 E. inversion E; subst. apply unchanged_facts; [exact HI|reflexivity|reflexivity]. }
  assert (U0 : (s, dec_empty) = (s', d) ->
              step_facts s (EvAck r key epoch lepoch follower off ver_ok) s' d).
  { intros E. inversion E; subst. apply unchanged_facts; [exact HI|reflexivity|reflexivity]. }
  assert (A : forall off', off' <= s_leo s -> apply_follower_ack s follower off' = (s', d) ->
              off' = off -> step_facts s (EvAck r key epoch lepoch follower off ver_ok) s' d).
  { intros off' Hle Hap Eo. subst off'. eapply apply_follower_ack_facts; [exact Hap|exact Hle| |exact HI].
    reflexivity. }
  unfold step_ack, ack_guard in H. destruct r.
  - destruct (off <=? s_leo s) eqn:G; [|eapply U; exact H].
    apply N.leb_le in G. eapply A; [exact G|exact H|reflexivity].
  - destruct (negb (s_role s =? RoleLeader) || negb (fence_cur s key epoch lepoch)
              || negb (mem follower (s_replicas s))); [eapply U; exact H|].
    destruct (off =? 0); [apply U0; exact H|].
    destruct (off <=? s_leo s) eqn:G; cbn [negb] in H; [|eapply U; exact H].
    apply N.leb_le in G. eapply A; [exact G|exact H|reflexivity].
  - destruct (negb (s_role s =? RoleLeader) || negb (fence_cur s key epoch lepoch)
              || negb (mem follower (s_replicas s))); [eapply U; exact H|].
    destruct (negb ver_ok || negb (off =? s_leo s)) eqn:G; [eapply U; exact H|].
    destruct (follower =? s_local s); [eapply U; exact H|].
    apply orb_false_iff in G. destruct G as [_ G]. apply negb_false_iff, N.eqb_eq in G.
    eapply A; [|exact H|reflexivity]. rewrite G. apply N.le_refl.
  - destruct (negb (s_role s =? RoleLeader)); [eapply U; exact H|].
    destruct (negb (fence_cur s key epoch lepoch)); [eapply U; exact H|].
    destruct (wrap64 (s_leo s + 1) =? 0); [eapply U; exact H|].
    destruct (negb (mem follower (s_replicas s))); [eapply U; exact H|].
    destruct (off =? 0); [apply U0; exact H|].
    destruct (off <=? s_leo s) eqn:G; cbn [negb] in H; [|eapply U; exact H].
    apply N.leb_le in G. eapply A; [exact G|exact H|reflexivity].
Qed.

(* the reactor's guard: an ack above LEO changes nothing on any route *)
Lemma ack_over_leo_noop s r key epoch lepoch follower off ver_ok :
  s_leo s < off ->
  exists e, step_ack s r key epoch lepoch follower off ver_ok = (s, dec_err e) /\ e <> 0.
Proof.
  intro Hlt. unfold step_ack, ack_guard.
  assert (G : (off <=? s_leo s) = false) by (apply N.leb_gt; exact Hlt).
  assert (Z : (off =? 0) = false) by (apply N.eqb_neq; intro E; subst off; apply N.nlt_0_r in Hlt; exact Hlt).
  assert (L : (off =? s_leo s) = false) by (apply N.eqb_neq; intro E; subst off; apply N.lt_irrefl in Hlt; exact Hlt).
  destruct r.
  - rewrite G. exists EStaleMeta. split; [reflexivity|vm_compute; discriminate].
  - destruct (negb (s_role s =? RoleLeader) || negb (fence_cur s key epoch lepoch)
              || negb (mem follower (s_replicas s)));
      [exists EStaleMeta; split; [reflexivity|vm_compute; discriminate]|].
    rewrite Z, G. exists EStaleMeta. split; [reflexivity|vm_compute; discriminate].
  - destruct (negb (s_role s =? RoleLeader) || negb (fence_cur s key epoch lepoch)
              || negb (mem follower (s_replicas s)));
      [exists EStaleMeta; split; [reflexivity|vm_compute; discriminate]|].
    rewrite L. rewrite orb_true_r. exists EStaleMeta. split; [reflexivity|vm_compute; discriminate].
  - destruct (negb (s_role s =? RoleLeader));
      [exists ENotLeader; split; [reflexivity|vm_compute; discriminate]|].
    destruct (negb (fence_cur s key epoch lepoch));
      [exists EStaleMeta; split; [reflexivity|vm_compute; discriminate]|].
    destruct (wrap64 (s_leo s + 1) =? 0);
      [exists EInvalidConfig; split; [reflexivity|vm_compute; discriminate]|].
    destruct (negb (mem follower (s_replicas s)));
      [exists ENotReplica; split; [reflexivity|vm_compute; discriminate]|].
    rewrite Z, G. exists EStaleMeta. split; [reflexivity|vm_compute; discriminate].
Qed.

(* ---- all events ---------------------------------------------------------------------------------------------------------------------- *)
Theorem step_establishes_facts s e s' d : Inv s -> step s e = (s', d) -> step_facts s e s' d.
Proof.
  intros HI H. destruct e; cbn [step] in H.
  - apply apply_meta_facts; assumption.
  - eapply propose_facts; [exact H| |exact HI]. reflexivity.
  - eapply propose_facts; [exact H| |exact HI]. reflexivity.
  - apply apply_stored_facts; assumption.
  - apply apply_quorum_facts; assumption.
  - apply step_ack_facts; assumption.
  - apply cancel_facts; assumption.
  - apply abort_facts; assumption.
Qed.

Lemma Inv_init key local gen id leo hw cp :
  cp <= hw -> hw <= leo -> Inv (init_state key local gen id leo hw cp).
Proof.
  intros H1 H2. split.
  - unfold WM, prog_le, init_state; st. split; [exact H1|]. split; [exact H2|].
    intro n. cbn [pr_get]. apply N.le_0_l.
  - unfold TG, init_state; st. constructor.
Qed.

Lemma Inv_run_state : forall evs s, Inv s -> Inv (run_state s evs).
Proof.
  induction evs as [|e evs IH]; intros s HI; cbn [run_state]; [exact HI|].
  apply IH. destruct (step s e) as [s' d] eqn:E. cbn [fst].
  exact (sf_inv _ _ _ _ (step_establishes_facts _ _ _ _ HI E)).
Qed.
