(* Proof/AckTracker_sim3.v — Expire *)
From WK Require Import Base.Base Gen.Consts_C32 Model.AckTracker.
From WK Require Import Proof.AckTracker_map Proof.AckTracker_entry Proof.AckTracker_index Proof.AckTracker_inv
     Proof.AckTracker_sim Proof.AckTracker_sim2.
From Coq Require Import Permutation.
Open Scope N_scope.

(* ---- the ttl arithmetic ---------------------------------------------------------------- *)
Lemma time_second_pos : (0 < time_second)%Z.
Proof. reflexivity. Qed.

(* ttl_seconds is the ceiling of ttl / time.Second *)
Lemma ttl_seconds_spec ttl d : (0 < ttl)%Z -> (ttl_seconds ttl <= d <-> ttl <= d * time_second)%Z.
Proof.
  intro H. pose proof time_second_pos as SP. unfold ttl_seconds.
  remember time_second as S eqn:ES. clear ES.
  rewrite Z.quot_div_nonneg by lia. rewrite Z.rem_mod_nonneg by lia.
  pose proof (Z.div_mod ttl S ltac:(lia)) as DM.
  pose proof (Z.mod_pos_bound ttl S SP) as MB.
  set (q := (ttl / S)%Z) in *. set (r := (ttl mod S)%Z) in *.
  destruct (r =? 0)%Z eqn:E.
  - apply Z.eqb_eq in E. split; intro; nia.
  - apply Z.eqb_neq in E. split; intro; nia.
Qed.

Definition i64_max : Z := 9223372036854775807%Z.

Lemma cutoff_no_wrap now ttl :
  (0 <= now <= i64_max)%Z -> (0 < ttl <= i64_max)%Z ->
  wrap_i64 (now - ttl_seconds ttl) = (now - ttl_seconds ttl)%Z.
Proof.
  intros Hn Ht. pose proof time_second_pos as SP. unfold i64_max in *.
  assert (Q1 : (ttl_seconds ttl <= ttl)%Z) by (apply ttl_seconds_spec; nia).
  assert (Q2 : (0 < ttl_seconds ttl)%Z).
  { destruct (Z_lt_le_dec 0 (ttl_seconds ttl)) as [L|L]; [exact L|].
    apply ttl_seconds_spec in L; lia. }
  unfold wrap_i64. rewrite Z.mod_small by lia. lia.
Qed.

Lemma idle_past_cutoff now ttl at_ :
  (0 < ttl)%Z -> idle_past now ttl at_ = (at_ <=? now - ttl_seconds ttl)%Z.
Proof.
  intro H. unfold idle_past.
  pose proof (ttl_seconds_spec ttl (now - at_) H) as SPEC.
  destruct (ttl <=? (now - at_) * time_second)%Z eqn:E1; destruct (at_ <=? now - ttl_seconds ttl)%Z eqn:E2;
    try reflexivity; exfalso.
  - apply Z.leb_le in E1. apply Z.leb_gt in E2. apply SPEC in E1. lia.
  - apply Z.leb_gt in E1. apply Z.leb_le in E2. assert (X : (ttl_seconds ttl <= now - at_)%Z) by lia.
    apply SPEC in X. lia.
Qed.

(* ---- deleting a list of keys ---------------------------------------------------------------- *)
Lemma spec_del_keys_get ks : forall s k,
  kget k (spec_del_keys s ks) = if existsb (key_eqb k) ks then None else kget k s.
Proof.
  induction ks as [|k0 r IH]; intros s k; simpl; [reflexivity|].
  rewrite IH. destruct (key_eqb k k0) eqn:E; simpl.
  - apply key_eqb_spec in E. subst k0. rewrite k_get_del_same. destruct (existsb (key_eqb k) r); reflexivity.
  - rewrite k_get_del_other; [reflexivity|]. intro X. subst. rewrite (proj2 (key_eqb_spec k k) eq_refl) in E. discriminate.
Qed.

Lemma spec_del_keys_nodup ks : forall s, NoDup (al_keys s) -> NoDup (al_keys (spec_del_keys s ks)).
Proof.
  induction ks as [|k0 r IH]; intros s H; simpl; [exact H|]. apply IH. apply k_del_nodup. exact H.
Qed.

Fixpoint del_rows (bm : list (key * entry)) (rows : list (key * entry)) : list (key * entry) :=
  match rows with
  | [] => bm
  | (k, _) :: r => del_rows (al_del key_eqb k bm) r
  end.

Lemma del_rows_has rows : forall bm k, has_key (del_rows bm rows) k <-> has_key bm k /\ ~ In k (al_keys rows).
Proof.
  induction rows as [|[k0 e0] r IH]; intros bm k; simpl.
  - tauto.
  - rewrite IH, has_key_del. split.
    + intros [[H1 H2] H3]. split; [exact H2|]. intros [X|X]; [congruence|contradiction].
    + intros [H1 H2]. split; [split; [|exact H1]|]; intro X; apply H2; [left; congruence|right; exact X].
Qed.

Lemma expire_sessions_index rows : forall bm bs,
  session_index_ok bm bs -> session_index_ok (del_rows bm rows) (expire_sessions bs rows).
Proof.
  induction rows as [|[[[u s] m] e0] r IH]; intros bm bs H; simpl; [exact H|].
  apply IH. apply si_del. exact H.
Qed.

Lemma expire_sessions_rows rows : forall (bs : list (skey * list N)) sk' ms',
  NoDup (al_keys bs) ->
  sget sk' (expire_sessions bs rows) = Some ms' ->
  exists ms, sget sk' bs = Some ms /\ (length ms' <= length ms)%nat.
Proof.
  induction rows as [|[k e0] r IH]; intros bs sk' ms' ND H; simpl in H.
  - exists ms'. split; [exact H|lia].
  - apply IH in H; [|apply deleteSession_nodup; exact ND]. destruct H as [ms1 [H1 H2]].
    apply deleteSession_rows in H1; [|exact ND]. destruct H1 as [ms [H3 H4]].
    exists ms. split; [exact H3|lia].
Qed.

Lemma forallb_ext' {A} (f g : A -> bool) l : (forall a, f a = g a) -> forallb f l = forallb g l.
Proof. intro H. induction l as [|a l IH]; simpl; [reflexivity|]. rewrite H, IH. reflexivity. Qed.

(* ---- Expire ------------------------------------------------------------------------------- *)
Lemma entry_idle_iff now ttl e se :
  (0 <= now <= i64_max)%Z -> (0 < ttl <= i64_max)%Z ->
  entry_wf e -> entry_alive e -> rel_entry e se ->
  hasDeliveryAfter e (wrap_i64 (now - ttl_seconds ttl)) = negb (sentry_idle now ttl se).
Proof.
  intros Hn Ht W A [RC RP]. rewrite (cutoff_no_wrap now ttl Hn Ht).
  rewrite (hasDeliveryAfter_abs e _ W A). f_equal. unfold sentry_idle.
  assert (TP : (0 <? ttl)%Z = true) by (apply Z.ltb_lt; lia). rewrite TP. cbn [andb].
  rewrite RC. f_equal.
  - destruct (abs_committed e); [|reflexivity]. symmetry. apply idle_past_cutoff. lia.
  - rewrite <- (forallb_perm _ _ _ RP). apply forallb_ext'. intros a. symmetry. apply idle_past_cutoff. lia.
Qed.

Lemma Expire_sim t s now ttl :
  Sim t s -> (0 <= now <= i64_max)%Z -> (ttl <= i64_max)%Z ->
  let '(t', r) := Expire t now ttl in
  exists s', spec_step s now (OExpire ttl) r = Some (s', now) /\ Sim t' s'
  /\ t_next t' = t_next t /\ t_limit t' = t_limit t /\ t_shards t' = t_shards t.
Proof.
  intros S Hn Ht. pose proof S as [I R]. unfold Expire.
  destruct (ttl <=? 0)%Z eqn:TZ.
  { exists s. split; [reflexivity|]. split; [exact S|]. repeat split; reflexivity. }
  apply Z.leb_gt in TZ.
  set (cutoff := wrap_i64 (now - ttl_seconds ttl)).
  set (gone := filter (fun ke : key * entry => negb (hasDeliveryAfter (snd ke) cutoff)) (t_byMessage t)).
  set (keep := filter (fun ke : key * entry => hasDeliveryAfter (snd ke) cutoff) (t_byMessage t)).
  set (ps := map (fun ke : key * entry => e_pending (snd ke)) gone).
  assert (ROW : forall k e, In (k, e) gone -> kget k (t_byMessage t) = Some e /\ hasDeliveryAfter e cutoff = false).
  { intros k e H. apply filter_In in H. destruct H as [H1 H2]. simpl in H2. apply negb_true_iff in H2.
    split; [apply (k_in_get _ _ _ (inv_nodup t I) H1)|exact H2]. }
  assert (KS : map key_of ps = al_keys gone).
  { unfold ps, al_keys. rewrite map_map. apply map_ext_in. intros [k e] H. simpl.
    destruct (ROW _ _ H) as [G _]. destruct (inv_entries t I _ _ G) as [[_ _ K _] _]. apply K. left. reflexivity. }
  assert (GND : NoDup (al_keys gone)) by (apply al_filter_nodup; apply (inv_nodup t I)).
  assert (INK : forall k, In k (al_keys gone) <->
                          exists e, kget k (t_byMessage t) = Some e /\ hasDeliveryAfter e cutoff = false).
  { intro k. split.
    - intro H. unfold al_keys in H. apply in_map_iff in H. destruct H as [[k0 e] [E1 E2]]. simpl in E1. subst k0.
      exists e. apply ROW. exact E2.
    - intros [e [G H]]. unfold al_keys. apply in_map_iff. exists (k, e). split; [reflexivity|].
      apply filter_In. split; [apply (k_get_some_in _ _ _ G)|]. simpl. rewrite H. reflexivity. }
  assert (GETK : forall k, kget k keep = if existsb (key_eqb k) (al_keys gone) then None else kget k (t_byMessage t)).
  { intro k. unfold keep. rewrite (k_get_filter _ _ _ (inv_nodup t I)).
    destruct (kget k (t_byMessage t)) as [e|] eqn:G.
    - simpl. destruct (hasDeliveryAfter e cutoff) eqn:HD.
      + destruct (existsb (key_eqb k) (al_keys gone)) eqn:X; [|reflexivity].
        apply existsb_key_in in X. apply INK in X. destruct X as [e' [G' H']]. congruence.
      + assert (X : existsb (key_eqb k) (al_keys gone) = true).
        { apply existsb_key_in. apply INK. exists e. split; [exact G|exact HD]. }
        rewrite X. reflexivity.
    - destruct (existsb (key_eqb k) (al_keys gone)); reflexivity. }
  exists (spec_del_keys s (al_keys gone)).
  split; [|split; [|repeat split; reflexivity]].
  - unfold spec_step. cbv zeta. fold cutoff. fold gone. fold ps. rewrite KS.
    match goal with |- (if ?c then _ else _) = _ => assert (HC : c = true) end.
    { apply andb_true_iff. split; [apply keys_nodup_spec; exact GND|].
      apply forallb_forall. intros k Hk. apply INK in Hk. destruct Hk as [e [G HD]].
      destruct (rel_some _ _ R _ _ G) as [se [G1 RE]]. rewrite G1.
      destruct (inv_entries t I _ _ G) as [[W A _ _] _].
      pose proof (entry_idle_iff now ttl e se Hn (conj TZ Ht) W A RE) as EI. fold cutoff in EI.
      rewrite HD in EI. destruct (sentry_idle now ttl se); [reflexivity|discriminate]. }
    rewrite HC. reflexivity.
  - split.
    + constructor; proj.
      * apply al_filter_nodup. apply (inv_nodup t I).
      * rewrite (inv_count t I).
        pose proof (filter_partition_length (fun ke : key * entry => hasDeliveryAfter (snd ke) cutoff) (t_byMessage t)) as FL.
        cbv beta in FL. fold keep in FL. fold gone in FL. lia.
      * apply (si_dom (del_rows (t_byMessage t) gone)); [|apply expire_sessions_index; apply (inv_index t I)].
        intro k. rewrite del_rows_has. unfold has_key. rewrite GETK.
        destruct (existsb (key_eqb k) (al_keys gone)) eqn:X.
        -- apply existsb_key_in in X. split; [intros [_ H]; contradiction|intro H; contradiction].
        -- split; [intros [H _]; exact H|]. intro H. split; [exact H|]. intro Y. apply existsb_key_in in Y. congruence.
      * intros k e G. rewrite GETK in G. destruct (existsb (key_eqb k) (al_keys gone)); [discriminate|].
        apply (inv_entries t I _ _ G).
      * apply (limit_after_delete t); [exact I|].
        intros sk' ms'. apply expire_sessions_rows. apply (si_nodup _ _ (inv_index t I)).
    + proj. constructor.
      * apply spec_del_keys_nodup. apply (rel_nodup _ _ R).
      * intros k e G. rewrite GETK in G. rewrite spec_del_keys_get.
        destruct (existsb (key_eqb k) (al_keys gone)); [discriminate|]. apply (rel_some _ _ R _ _ G).
      * intros k G. rewrite GETK in G. rewrite spec_del_keys_get.
        destruct (existsb (key_eqb k) (al_keys gone)); [reflexivity|]. apply (rel_none _ _ R _ G).
Qed.
