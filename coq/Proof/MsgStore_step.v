(* Proof/MsgStore_step.v — every step of the model is a step of the plain
   sequential logs: forward simulation between Model/MsgStore.v and the C07
   specification (the monitor), for an arbitrary membership filter. *)
From WK Require Import Base.Base Model.KV Gen.Consts_C07 Model.MsgStore Model.MsgStore_C07
     Proof.KV Proof.MsgStore_base Proof.MsgStore_rel Proof.MsgStore_reads Proof.MsgStore_frame Proof.MsgStore_mut.
From Coq Require Import Sorting.Permutation Sorting.Sorted.

Lemma forallb_filter_id {A} (p : A -> bool) l : forallb p l = true -> filter p l = l.
Proof.
  induction l as [|x l IH]; cbn [forallb filter]; [reflexivity|].
  intro H. apply andb_true_iff in H. destruct H as [H1 H2]. rewrite H1, IH by exact H2. reflexivity.
Qed.

Section Step.
  Variable F : Type.
  Variable f_empty : F.
  Variable f_may : F -> bytes * bytes -> bool.
  Variable f_add : F -> bytes * bytes -> F.

  Notation mstate := (mstate F).
  Notation R := (R F).
  Notation st_kv := (st_kv F).
  Notation st_log := (st_log F).
  Notation st_cache := (st_cache F).
  Notation loadLEOLocked := (loadLEOLocked F).
  Notation validateAppendRow := (validateAppendRow F f_may f_add).
  Notation validate_rows := (validate_rows F f_may f_add).

  (* the volatile log end of every channel *)
  Definition same_leo (st st' : mstate) : Prop :=
    forall c, cc_leo F (st_cache st' c) = cc_leo F (st_cache st c)
              /\ cc_loaded F (st_cache st' c) = cc_loaded F (st_cache st c).

  (* a step that touches only the filters *)
  Definition volatile_only (st st' : mstate) : Prop :=
    st_kv st' = st_kv st /\ st_log st' = st_log st /\ same_leo st st'.

  Lemma volatile_refl st : volatile_only st st.
  Proof. split; [reflexivity|]. split; [reflexivity|]. intro c. split; reflexivity. Qed.

  Lemma volatile_trans a b c : volatile_only a b -> volatile_only b c -> volatile_only a c.
  Proof.
    intros [H1 [H2 H3]] [H4 [H5 H6]]. split; [congruence|]. split; [congruence|].
    intro x. destruct (H3 x), (H6 x). split; congruence.
  Qed.

  Lemma volatile_R st st' s : volatile_only st st' -> R st s -> R st' s.
  Proof.
    intros [Hk [_ Hl]] [HR Hc]. split; [rewrite Hk; exact HR|].
    intros c Hld. destruct (Hl c) as [E1 E2]. rewrite E1. apply Hc. rewrite <- E2. exact Hld.
  Qed.

  Lemma set_filter_volatile st c f b : volatile_only st (set_filter F st c f b).
  Proof.
    unfold set_filter, set_cache. split; [reflexivity|]. split; [reflexivity|].
    intro c'. cbn [MsgStore.st_cache]. destruct (c' =? c) eqn:E; [|split; reflexivity].
    apply N.eqb_eq in E. subst. split; reflexivity.
  Qed.

  Lemma ensure_volatile st c : volatile_only st (ensureIdempotencyMembershipLoaded F f_add st c).
  Proof.
    unfold ensureIdempotencyMembershipLoaded. destruct (cc_floaded F (st_cache st c)); [apply volatile_refl|].
    apply set_filter_volatile.
  Qed.

  Lemma validateAppendRow_volatile st c r sn mode :
    volatile_only st (fst (validateAppendRow st c r sn mode)).
  Proof.
    unfold MsgStore.validateAppendRow.
    repeat match goal with
           | |- context [if ?b then _ else _] => destruct b
           | |- context [match lookupIdempotencyByKey ?a ?b ?c ?d with _ => _ end] => destruct (lookupIdempotencyByKey a b c d) as [[[[? ?] ?]|]|]
           end; cbn [fst];
      try apply volatile_refl; try apply set_filter_volatile; try apply ensure_volatile;
      try (eapply volatile_trans; [apply ensure_volatile|apply set_filter_volatile]).
  Qed.

  Lemma validate_rows_volatile rows : forall st c sn mode,
    volatile_only st (fst (validate_rows st c rows sn mode)).
  Proof.
    induction rows as [|r rows IH]; intros st c sn mode; cbn [MsgStore.validate_rows fst]; [apply volatile_refl|].
    pose proof (validateAppendRow_volatile st c r sn mode) as H1.
    destruct (validateAppendRow st c r sn mode) as [st1 [sn1|e]]; cbn [fst] in H1 |- *; [|exact H1].
    eapply volatile_trans; [exact H1|apply IH].
  Qed.

  (* an accepted row has a message id *)
  Lemma validateAppendRow_id st c r sn mode st' sn' :
    validateAppendRow st c r sn mode = (st', inl sn') -> r_id r <> 0.
  Proof.
    unfold MsgStore.validateAppendRow. destruct (r_id r =? 0) eqn:E; [intro H; discriminate H|].
    intros _. apply N.eqb_neq. exact E.
  Qed.

  Lemma validate_rows_ids rows : forall st c sn mode st' sn',
    validate_rows st c rows sn mode = (st', inl sn') -> Forall (fun r => r_id r <> 0) rows.
  Proof.
    induction rows as [|r rows IH]; intros st c sn mode st' sn' H; [constructor|].
    cbn [MsgStore.validate_rows] in H.
    destruct (validateAppendRow st c r sn mode) as [st1 [sn1|e]] eqn:E; [|discriminate].
    constructor; [eapply validateAppendRow_id; exact E|eapply IH; exact H].
  Qed.

  (* ---- rows built from records --------------------------------------------------------------------------- *)

  Lemma rows_from_consec c recs : forall q, consec q (rows_from c q recs).
  Proof. induction recs as [|x recs IH]; intro q; cbn [rows_from consec]; [exact I|]. split; [reflexivity|apply IH]. Qed.

  Lemma rows_from_arows c recs : forall q, map arow_of (rows_from c q recs) = msgs_from c q (map typed recs).
  Proof.
    induction recs as [|x recs IH]; intro q; cbn [rows_from map msgs_from]; [reflexivity|].
    rewrite IH. f_equal.
  Qed.

  Lemma rows_from_ok c recs : forall q, 1 <= q ->
    Forall (fun r => r_id r <> 0) (rows_from c q recs) -> Forall (row_ok c) (rows_from c q recs).
  Proof.
    induction recs as [|x recs IH]; intros q Hq H; cbn [rows_from] in *; [constructor|].
    inversion H as [|? ? H1 H2]; subst. constructor; [|apply IH; [lia|exact H2]].
    unfold row_ok, recordToRow. cbn. repeat split; [exact H1|lia].
  Qed.

  Lemma rows_from_length c recs : forall q, length (rows_from c q recs) = length recs.
  Proof. induction recs as [|x recs IH]; intro q; cbn [rows_from length]; [reflexivity|]. rewrite IH. reflexivity. Qed.

  Lemma consec_last q rows : consec q rows -> rows <> [] -> last_seq rows + 1 = q + N.of_nat (length rows).
  Proof.
    revert q. induction rows as [|r rows IH]; intros q Hc Hne; [contradiction|].
    destruct Hc as [Hs Hc]. destruct rows as [|r2 rows].
    - unfold last_seq. cbn. lia.
    - assert (E : last_seq (r :: r2 :: rows) = last_seq (r2 :: rows)).
      { unfold last_seq. cbn [rev]. destruct (rev rows ++ [r2]) eqn:E2; [destruct (rev rows); discriminate|reflexivity]. }
      rewrite E, (IH (q + 1) Hc) by discriminate. cbn [length]. lia.
  Qed.

  Lemma consec_first q rows : consec q rows -> rows <> [] -> first_seq rows = q.
  Proof. destruct rows as [|r rows]; [contradiction|]. intros [H _] _. exact H. Qed.

  Lemma compat_rows c recs : forall q rows, compatibilityRowsFromRecords c q recs = ok rows ->
    consec q rows /\ map arow_of rows = msgs_from c q recs /\ length rows = length recs
    /\ Forall (fun r => r_ch r = c /\ r_id r <> 0 /\ r_hash r = hashPayload (r_payload r)) rows.
  Proof.
    induction recs as [|x recs IH]; intros q rows H; cbn [compatibilityRowsFromRecords] in H.
    - injection H as <-. repeat split; constructor.
    - destruct (negb (i_ridx x =? 0) && negb (i_ridx x =? q)); [discriminate|].
      destruct (i_id x =? 0) eqn:Ei; [discriminate|].
      destruct (negb (i_rid x =? 0) && negb (i_rid x =? i_id x)); [discriminate|].
      destruct (compatibilityRowsFromRecords c (q + 1) recs) as [rs|e] eqn:E; [|discriminate].
      cbn [bind ok] in H. injection H as <-. destruct (IH _ _ E) as [H1 [H2 [H3 H4]]].
      split; [split; [reflexivity|exact H1]|]. split; [cbn [map msgs_from]; rewrite H2; reflexivity|].
      split; [cbn [length]; rewrite H3; reflexivity|].
      constructor; [|exact H4]. cbn. repeat split. apply N.eqb_neq. exact Ei.
  Qed.

  Lemma consec_ok c q rows : 1 <= q -> consec q rows ->
    Forall (fun r => r_ch r = c /\ r_id r <> 0 /\ r_hash r = hashPayload (r_payload r)) rows -> Forall (row_ok c) rows.
  Proof.
    revert q. induction rows as [|r rows IH]; intros q Hq Hc H; [constructor|].
    destruct Hc as [Hs Hc]. inversion H as [|? ? [H1 [H2 H3]] H4]; subst.
    constructor; [repeat split; try assumption; lia|apply (IH (r_seq r + 1)); [lia|exact Hc|exact H4]].
  Qed.

  (* ---- commit ---------------------------------------------------------------------------------------------- *)

  Lemma commit_kv st b : st_kv (commit F st b) = kapply (st_kv st) b.
  Proof. reflexivity. Qed.

  Lemma commit_cache st b : st_cache (commit F st b) = st_cache st.
  Proof. reflexivity. Qed.

  (* after a commit and the publication of the new log end of channel c *)
  Lemma R_commit_set_leo st s s' c b leo :
    R st s -> Rkv (kapply (st_kv st) b) s' ->
    al_leo (as_log s' c) = leo ->
    (forall c', c' <> c -> al_leo (as_log s' c') = al_leo (as_log s c')) ->
    R (set_leo F (commit F st b) c leo) s'.
  Proof.
    intros [_ Hc] Hk Hl Ho. split; [exact Hk|].
    intros c' Hld. unfold set_leo, set_cache in *. cbn [MsgStore.st_cache] in *.
    destruct (c' =? c) eqn:E.
    - apply N.eqb_eq in E. subst c'. cbn [cc_leo]. symmetry. exact Hl.
    - apply N.eqb_neq in E. rewrite (Ho _ E). apply Hc. exact Hld.
  Qed.

  (* after a commit that moves no log end *)
  Lemma R_commit_same_leo st s s' b :
    R st s -> Rkv (kapply (st_kv st) b) s' ->
    (forall c', al_leo (as_log s' c') = al_leo (as_log s c')) ->
    R (commit F st b) s'.
  Proof.
    intros [_ Hc] Hk Ho. split; [exact Hk|]. intros c' Hld. rewrite Ho. apply Hc. exact Hld.
  Qed.

  (* ---- dumps ---------------------------------------------------------------------------------------------------- *)

  Lemma Read_all st s c rows : R st s -> Rchan (st_kv st) s c rows -> Read F st c 1 0 0 = ok rows.
  Proof.
    intros [Hk _] Rc. unfold Read. cbn [N.eqb]. rewrite (readForward_all _ _ _ _ 1 0 (rk_wf _ _ Hk) Rc).
    f_equal. apply forallb_filter_id. apply forallb_forall. intros r Hr.
    assert (Hok : row_ok c r) by (eapply Forall_forall; [apply Rc|exact Hr]).
    destruct Hok as [_ [_ [_ H1]]]. apply N.leb_le in H1. rewrite H1. reflexivity.
  Qed.

  Lemma dump_chan_ok st s c nr : R st s ->
    R (fst (dump_chan F st c nr)) s
    /\ st_kv (fst (dump_chan F st c nr)) = st_kv st /\ st_log (fst (dump_chan F st c nr)) = st_log st
    /\ spec_check_dump s nr (snd (dump_chan F st c nr)) = true.
  Proof.
    intro HR. unfold dump_chan.
    destruct (loadLEO_R F st s c HR) as [H1 [H2 [H3 H4]]].
    destruct (loadLEOLocked st c) as [st' leo]. cbn [fst snd] in *.
    split; [exact H2|]. split; [exact H3|]. split; [exact H4|].
    destruct H2 as [Hk Hc]. destruct (rk_chan _ _ Hk c) as [rows Rc].
    rewrite (Read_all st' s c rows (conj Hk Hc) Rc).
    assert (Hnews : match nr with
                    | None => inl []
                    | Some (f, n) => match Read F st' c f n 0 with inl rs => inl (map messageFromRow rs) | inr e => inr e end
                    end = inl (match nr with None => [] | Some (f, n) => spec_read (as_log s c) f n 0 end)).
    { destruct nr as [[f n]|]; [|reflexivity]. unfold Read.
      destruct (readForward_spec _ _ _ _ (if f =? 0 then 1 else f) 0 n 0 (rk_wf _ _ Hk) Rc) as [X [E [HX _]]].
      rewrite E. unfold ok. f_equal. rewrite HX. unfold spec_read.
      erewrite filter_ext; [reflexivity|]. intro m. cbn. rewrite andb_true_r. reflexivity. }
    rewrite Hnews. cbn [spec_check_dump]. rewrite H1, N.eqb_refl. cbn [andb].
    rewrite (Rchan_amsgs _ _ _ _ Rc), !map_map. cbn [compact mcompact m_seq m_id m_hash messageFromRow].
    unfold ok. cbv iota beta.
    change (map (fun x : row => mcompact (messageFromRow x)) rows) with (map compact rows).
    rewrite (list_eqb_refl triple_eqb triple_eqb_refl). cbn [andb]. apply msgs_eqb_refl.
  Qed.
End Step.
