(* Proof/RaftDriver_props.v — C12: the property theorems in the form quoted by
   Properties/C12.v, the refutation witness of the unconditional future clause,
   and concrete schedules showing that the hypotheses are satisfiable. *)
From WK Require Import Base.Base Model.RaftDriver Proof.RaftDriver_lists Proof.RaftDriver_exec
  Proof.RaftDriver_inv Proof.RaftDriver_steps Proof.RaftDriver_trace Proof.RaftDriver_futures
  Proof.RaftDriver_monitor.
From Coq Require Import Sorted ZifyBool ZifyN ZifyNat.
Open Scope N_scope.

Definition NoTrack : node -> list entry -> Prop := fun _ _ => True.

Lemma NoTrack_submitted : forall s s' ents, v_submitted s' = v_submitted s -> NoTrack s ents -> NoTrack s' ents.
Proof. intros. exact Logic.I. Qed.

(* ---- apply in order, once, across crashes --------------------------------------------------------------- *)

Lemma apply_in_order_once_lemma :
  forall (clog : N -> entry), (forall i, e_idx (clog i) = i) ->
  forall (GS : entry -> Prop) (sched : list step),
  sched_ok clog GS NoTrack sched start_node ->
  let s := run true sched in
  StronglySorted (fun a b => e_idx a < e_idx b) (sm_hist s)
  /\ (forall e, In e (sm_hist s) -> e = clog (e_idx e) /\ is_normal e = true /\ 0 < e_idx e <= sm_idx s)
  /\ (forall i, 0 < i <= sm_idx s -> is_normal (clog i) = true -> In (clog i) (sm_hist s))
  /\ (forall G, Gsound clog G -> check_order G 0 (n_tr s) = true).
Proof.
  intros clog clog_idx GS sched Hok. cbn zeta.
  destruct (run_SINV clog clog_idx GS NoTrack NoTrack_submitted sched Hok) as [I _].
  pose proof (run_ORD clog clog_idx GS NoTrack NoTrack_submitted sched Hok) as O.
  destruct I. split; [exact i_sorted|]. split; [exact i_sound|]. split.
  - intros i Hi Hn. apply i_complete; [lia | exact Hn].
  - intros G HG. rewrite check_order_run, (O G HG). reflexivity.
Qed.

(* after a restart the slot resumes at newSlot's applied index, and the state machine holds exactly the
   commands up to there *)
Lemma restart_resumes_lemma :
  forall (clog : N -> entry), (forall i, e_idx (clog i) = i) ->
  forall (GS : entry -> Prop) (sched : list step),
  sched_ok clog GS NoTrack sched start_node ->
  let s := run true sched in
  v_up s = false ->
  let s' := newSlot false s in
  v_applying s' = newSlot_applied true (d_snap s) (d_applied s) (sm_idx s)
  /\ v_applied s' = v_applying s'
  /\ (forall i, 0 < i <= v_applying s' -> is_normal (clog i) = true -> In (clog i) (sm_hist s'))
  /\ (forall e, In e (sm_hist s') -> e_idx e <= v_applying s').
Proof.
  intros clog clog_idx GS sched Hok. cbn zeta. intro U.
  destruct (run_SINV clog clog_idx GS NoTrack NoTrack_submitted sched Hok) as [I _].
  destruct (newSlot_SINV clog clog_idx GS NoTrack NoTrack_submitted false (run true sched) I U) as (I' & L' & B'). cbn zeta in *.
  destruct B' as (B1 & (n & Bq & Ba) & _).
  assert (Eq : v_queue (newSlot false (run true sched)) = []).
  { unfold newSlot. rewrite U. destruct (negb (d_snap (run true sched) =? 0)).
    - set (s1 := set_pos _ _). assert (L1 : live s1) by (split; reflexivity).
      rewrite (exec_live _ _ L1). reflexivity.
    - reflexivity. }
  rewrite Eq in Bq. cbn [map concat] in Bq.
  assert (n = 0)%nat by (apply (f_equal (@length _)) in Bq; rewrite centries_length in Bq; cbn in Bq; lia).
  subst n.
  assert (Es : v_applying (newSlot false (run true sched))
               = newSlot_applied true (d_snap (run true sched)) (d_applied (run true sched)) (sm_idx (run true sched))).
  { unfold newSlot. rewrite U, (i_durable _ _ _ I). destruct (negb (d_snap (run true sched) =? 0)).
    - set (s1 := set_pos _ _). assert (L1 : live s1) by (split; reflexivity).
      rewrite (exec_live _ _ L1). reflexivity.
    - reflexivity. }
  destruct I'. split; [exact Es|]. split; [lia|]. split.
  - intros i Hi Hn. apply i_complete; [lia | exact Hn].
  - intros e He. destruct (i_sound e He) as (_ & _ & H). lia.
Qed.

(* ---- the same command at the same index on every replica ------------------------------------------------------- *)

Lemma same_command_lemma :
  forall (clog : N -> entry), (forall i, e_idx (clog i) = i) ->
  forall (GS1 GS2 : entry -> Prop) (sched1 sched2 : list step),
  sched_ok clog GS1 NoTrack sched1 start_node ->
  sched_ok clog GS2 NoTrack sched2 start_node ->
  forall e1 e2,
  In e1 (applied_tr (n_tr (run true sched1))) ->
  In e2 (applied_tr (n_tr (run true sched2))) ->
  e_idx e1 = e_idx e2 -> e1 = e2.
Proof.
  intros clog clog_idx GS1 GS2 s1 s2 H1 H2 e1 e2 A1 A2 E.
  destruct (run_SINV clog clog_idx GS1 NoTrack NoTrack_submitted s1 H1) as [I1 _].
  destruct (run_SINV clog clog_idx GS2 NoTrack NoTrack_submitted s2 H2) as [I2 _].
  destruct (i_applied_sound _ _ _ I1 e1 A1) as (X1 & _). destruct (i_applied_sound _ _ _ I2 e2 A2) as (X2 & _).
  rewrite X1, X2, E. reflexivity.
Qed.

(* ---- persist before send, persist before apply ----------------------------------------------------------------- *)

Lemma persist_before_send_lemma :
  forall (clog : N -> entry), (forall i, e_idx (clog i) = i) ->
  forall (GS : entry -> Prop) (sched : list step),
  sched_ok clog GS NoTrack sched start_node ->
  check_persist dur0 (n_tr (run true sched)) = true.
Proof.
  intros clog clog_idx GS sched Hok.
  pose proof (run_PERS clog clog_idx GS NoTrack NoTrack_submitted sched Hok) as P.
  rewrite check_persist_run. unfold PERS in P. rewrite P. reflexivity.
Qed.

(* ---- futures ------------------------------------------------------------------------------------------------------ *)

Lemma future_index_partial_lemma :
  forall (clog : N -> entry), (forall i, e_idx (clog i) = i) ->
  forall (GS : entry -> Prop) (sched : list step),
  sched_ok clog GS (TrackFut clog) sched start_node ->
  forall f i t d, In (f, FutOk i t d) (n_futs (run true sched)) ->
  clog i = Entry i t KNormal f /\ d = Some f /\ In (clog i) (applied_tr (n_tr (run true sched))).
Proof.
  intros clog clog_idx GS sched Hok f i t d H.
  pose proof (run_FINV clog clog_idx GS sched Hok) as F. apply (f_done _ _ F f i t d H).
Qed.

(* the witness: node 1 of the standalone reproduction (notes/C12.md and the k1 corpus inputs).  Index 1-3: the
   bootstrap configuration; 4: node 1's no-op as leader of term 2; 5: node 3's no-op as leader of
   term 3; 6: command 900 proposed on node 3; 7: command 800, proposed on node 1 while its cached
   status still said "leader", forwarded by etcd/raft to node 3. *)
Definition clogW (i : N) : entry :=
  match i with
  | 1 | 2 | 3 => Entry i 1 KConf 0
  | 4 => Entry 4 2 KEmpty 0
  | 5 => Entry 5 3 KEmpty 0
  | 6 => Entry 6 3 KNormal 900
  | 7 => Entry 7 3 KNormal 800
  | _ => Entry i 3 KEmpty 0
  end.

Lemma clogW_idx i : e_idx (clogW i) = i.
Proof.
  unfold clogW. destruct i as [|p]; [reflexivity|].
  destruct p as [[[p|p|]|[p|p|]|]|[[p|p|]|[p|p|]|]|]; reflexivity.
Qed.

Definition rdW1 : ready := mkReady (Some (mkHS 1 0 3)) [clogW 1; clogW 2; clogW 3] None [clogW 1; clogW 2; clogW 3] [] false.
Definition rdW2 : ready := mkReady (Some (mkHS 2 1 4)) [clogW 4] None [clogW 4] [] true.
Definition rdW3 : ready := mkReady (Some (mkHS 3 3 4)) [] None [] [] false.          (* steps down: a vote for node 3 *)
Definition rdW4 : ready := mkReady None [clogW 5; clogW 6] None [] [] false.         (* MsgApp from node 3 *)
Definition rdW5 : ready := mkReady (Some (mkHS 3 3 7)) [clogW 7] None [clogW 5; clogW 6; clogW 7] [] false.

Definition schedW : list step :=
  [SReady rdW1 false None; SReady rdW2 false None; SApplyTask None;
   SReady rdW3 false None;
   SPropose 800 true;            (* the control queued while "leader": rawNode.Propose forwards it, returns nil *)
   SReady rdW4 false None;       (* trackReadyEntries gives the waiting future to index 6 *)
   SReady rdW5 false None; SApplyTask None].

Definition LMonly (clog : N -> entry) : node -> list entry -> Prop := fun _ ents => LM clog ents.

Lemma all_in {A} (P : A -> Prop) (l : list A) : Forall P l -> forall e, In e l -> P e.
Proof. intro H. apply Forall_forall. exact H. Qed.

(* computations are made on the goal only, so that Qed replays them with the virtual machine *)
Ltac conc := vm_compute; repeat (first [reflexivity | discriminate | intro]).
Ltac all_conc :=
  match goal with |- forall e, In e ?l -> @?P e => apply (all_in P l) end;
  vm_compute; repeat (apply Forall_cons; [conc|]); apply Forall_nil.
Ltac ready_ok_concrete n :=
  intros _; unfold ready_ok; split; [exists n; vm_compute; reflexivity|];
  split; [intros ? ? ?; vm_compute; let H := fresh in (intro H; discriminate)|];
  split; [split; [let h := fresh in let H := fresh in let E := fresh in
                  (intros h; vm_compute; intro H; first [discriminate | injection H as E; subst h; conc]) | all_conc]|];
  split; [all_conc|];
  split; [vm_compute; reflexivity|].

Lemma LM_clogW ents : (forall e, In e ents -> e = clogW (e_idx e)) -> LM clogW ents.
Proof. intros H e He _. apply H, He. Qed.

Lemma schedW_ok : sched_ok clogW (fun _ => False) (LMonly clogW) schedW start_node.
Proof.
  unfold schedW. cbn [sched_ok step_ok].
  split; [ready_ok_concrete 3%nat; apply LM_clogW; all_conc|].
  split; [ready_ok_concrete 1%nat; apply LM_clogW; all_conc|].
  split; [exact Logic.I|].
  split; [ready_ok_concrete 0%nat; apply LM_clogW; all_conc|].
  split; [exact Logic.I|].
  split; [ready_ok_concrete 0%nat; apply LM_clogW; all_conc|].
  split; [ready_ok_concrete 3%nat; apply LM_clogW; all_conc|].
  split; exact Logic.I.
Qed.

Lemma future_index_refuted_lemma :
  exists (clog : N -> entry) (sched : list step),
    (forall i, e_idx (clog i) = i)
    /\ sched_ok clog (fun _ => False) (LMonly clog) sched start_node
    /\ exists f i t d, In (f, FutOk i t d) (n_futs (run true sched)) /\ e_cmd (clog i) <> f.
Proof.
  exists clogW, schedW. split; [exact clogW_idx|]. split; [exact schedW_ok|].
  exists 800, 6, 3, (Some 900). split; [vm_compute; left; reflexivity | vm_compute; discriminate].
Qed.

(* ---- the monitor ---------------------------------------------------------------------------------------------------- *)

Lemma model_satisfies_monitor_lemma :
  forall (clog : N -> entry), (forall i, e_idx (clog i) = i) ->
  forall (k : nat) (sched : list (nat * step)),
  csched_ok clog sched (cluster_init true k) ->
  C12_monitor (case_of (crun true k sched)) = 0.
Proof.
  intros clog clog_idx k sched Hok. apply (CINV_monitor clog clog_idx). apply (crun_CINV clog clog_idx). exact Hok.
Qed.

(* what a replica stores as its snapshot satisfies what the theorems assume of a received snapshot *)
Lemma stored_snapshot_good_lemma :
  forall (clog : N -> entry), (forall i, e_idx (clog i) = i) ->
  forall (k : nat) (sched : list (nat * step)),
  csched_ok clog sched (cluster_init true k) ->
  forall n, In n (crun true k sched) -> d_snap n <> 0 ->
  snap_good clog (d_snap n) (d_snapc n) /\ (forall e, In e (d_snapc n) -> In e (Gall (crun true k sched))).
Proof.
  intros clog clog_idx k sched Hok n Hn Hs.
  destruct (crun_CINV clog clog_idx k sched Hok n Hn) as [I _ _ _ _]. split; [apply (i_snap _ _ _ I Hs)|].
  intros e He. destruct (i_snap_known _ _ _ I e He) as [A|B]; [|exact B].
  apply In_Gall. exists n. split; assumption.
Qed.

(* ---- the hypotheses are satisfiable: a run with a crash inside an apply task, a restart, a compaction ------------------- *)

Definition clogV (i : N) : entry :=
  match i with
  | 1 | 2 | 3 => Entry i 1 KConf 0
  | 4 => Entry 4 2 KEmpty 0
  | 5 => Entry 5 2 KNormal 700
  | 6 => Entry 6 2 KNormal 701
  | 7 => Entry 7 2 KConf 0
  | 8 => Entry 8 2 KNormal 702
  | _ => Entry i 2 KEmpty 0
  end.

Lemma clogV_idx i : e_idx (clogV i) = i.
Proof.
  unfold clogV. destruct i as [|p]; [reflexivity|].
  destruct p as [[[[p|p|]|[p|p|]|]|[[p|p|]|[p|p|]|]|]|[[[p|p|]|[p|p|]|]|[[p|p|]|[p|p|]|]|]|]; reflexivity.
Qed.

Definition rdV1 : ready := mkReady (Some (mkHS 1 0 3)) [clogV 1; clogV 2; clogV 3] None [clogV 1; clogV 2; clogV 3] [] false.
Definition rdV2 : ready := mkReady (Some (mkHS 2 1 4)) [clogV 4] None [clogV 4] [] true.
Definition rdV3 : ready := mkReady None [clogV 5; clogV 6] None [] [] true.
Definition rdV4 : ready := mkReady (Some (mkHS 2 1 6)) [] None [clogV 5; clogV 6] [] true.
Definition rdV5 : ready := mkReady (Some (mkHS 2 1 8)) [clogV 7; clogV 8] None [clogV 7; clogV 8] [] true.
(* after the restart: what was committed and not applied comes again *)
Definition rdV6 : ready := mkReady None [] None [clogV 7; clogV 8] [] false.

Definition schedV : list step :=
  [SReady rdV1 false None; SReady rdV2 false None; SApplyTask None;
   SPropose 700 true; SPropose 701 true;
   SReady rdV3 false None;       (* the two proposals are appended locally *)
   SReady rdV4 false None; SApplyTask None;   (* committed, applied as ONE batch, both futures resolved *)
   SCompact true None;
   SReady rdV5 false (Some 3%nat);   (* a conf change and a command: synchronous path, killed after Save and one more op *)
   SRestart;
   SReady rdV6 false None].

Lemma LM_clogV ents : (forall e, In e ents -> e = clogV (e_idx e)) -> LM clogV ents.
Proof. intros H e He _. apply H, He. Qed.

Ltac la_conc :=
  let H := fresh in
  (intros ? ?; vm_compute; intro H;
   repeat (destruct H as [H|H]; [injection H as <- <-; reflexivity|]); destruct H).

Lemma schedV_ok : sched_ok clogV (fun _ => False) (TrackFut clogV) schedV start_node.
Proof.
  unfold schedV. cbn [sched_ok step_ok].
  split; [ready_ok_concrete 3%nat; split; [apply LM_clogV; all_conc | la_conc]|].
  split; [ready_ok_concrete 1%nat; split; [apply LM_clogV; all_conc | la_conc]|].
  split; [exact Logic.I|]. split; [exact Logic.I|]. split; [exact Logic.I|].
  split; [ready_ok_concrete 0%nat; split; [apply LM_clogV; all_conc | la_conc]|].
  split; [ready_ok_concrete 2%nat; split; [apply LM_clogV; all_conc | la_conc]|].
  split; [exact Logic.I|]. split; [exact Logic.I|].
  split; [ready_ok_concrete 2%nat; split; [apply LM_clogV; all_conc | la_conc]|].
  split; [exact Logic.I|].
  split; [ready_ok_concrete 2%nat; split; [apply LM_clogV; all_conc | la_conc]|].
  exact Logic.I.
Qed.

Lemma schedV_result :
  sm_hist (run true schedV) = [clogV 5; clogV 6; clogV 8]
  /\ sm_idx (run true schedV) = 8
  /\ In (700, FutOk 5 2 (Some 700)) (n_futs (run true schedV))
  /\ In (701, FutOk 6 2 (Some 701)) (n_futs (run true schedV))
  /\ d_snap (run true schedV) = 6
  /\ applied_tr (n_tr (run true schedV)) = [clogV 5; clogV 6; clogV 8].
Proof. vm_compute. repeat split; auto. Qed.

(* the plain variant (no DurableAppliedIndex): a crash between ApplyBatch and MarkApplied makes the
   restart apply the batch again -- the reason why pkg/slot/fsm carries the applied index inside its
   own write batch *)
Definition schedPlain : list step :=
  [SReady rdV1 false None; SReady rdV2 false None; SApplyTask None;
   SReady rdV3 false None; SReady rdV4 false None;
   SApplyTask (Some 1%nat);          (* ApplyBatch done, killed before Storage.MarkApplied *)
   SRestart; SReady (mkReady None [] None [clogV 5; clogV 6] [] false) false None; SApplyTask None].

Lemma plain_reapplies :
  applied_tr (n_tr (run false schedPlain)) = [clogV 5; clogV 6; clogV 5; clogV 6].
Proof. vm_compute. reflexivity. Qed.
