(* Proof/RaftLog_monitor.v — histories: the model (Pebble store + memory.go) run
   next to the reference and to the monitor.  Forward simulation over whole
   histories, and the monitor is 0 on every trace the model produces for a
   Raft-valid history. *)
From WK Require Import Base.Base Gen.Consts_C14 Model.RaftLog
     Proof.RaftLog_lists Proof.RaftLog_ref Proof.RaftLog_pebble Proof.RaftLog_ops
     Proof.RaftLog_mem Proof.RaftLog_db.
From Coq Require Import ZifyBool ZifyN ZifyNat.
Open Scope N_scope.

(* ---- Raft-valid histories (K1-signature saves excluded) and the reference run *)

Definition req_ok (rs : list (N * rstate)) (p : N * wreq) : bool :=
  req_valid (ref_of (fst p) rs) (snd p) && negb (k1_signature (ref_of (fst p) rs) (snd p)).

Definition group_valid (rs : list (N * rstate)) (reqs : list (N * wreq)) : bool :=
  scopes_distinct (map fst reqs) && forallb (req_ok rs) reqs.

Definition next_ref (rs : list (N * rstate)) (p : N * wreq) : rstate :=
  match ref_req false (ref_of (fst p) rs) (snd p) with
  | ROk r' => r'
  | _ => ref_of (fst p) rs
  end.

(* all requests of a group are judged against the state before the group (their scopes differ) *)
Definition ref_group (rs : list (N * rstate)) (reqs : list (N * wreq)) : list (N * rstate) :=
  fold_left (fun acc p => aset (fst p) (next_ref rs p) acc) reqs rs.

Definition ref_step (rs : list (N * rstate)) (o : op) : list (N * rstate) :=
  match o with
  | OWrite mode reqs => if mode =? 0 then ref_group rs reqs else rs
  | _ => rs
  end.

Definition op_valid (rs : list (N * rstate)) (o : op) : bool :=
  match o with
  | OWrite _ reqs => group_valid rs reqs
  | _ => true
  end.

Fixpoint hist_valid (rs : list (N * rstate)) (ops : list op) : bool :=
  match ops with
  | [] => true
  | o :: rest => op_valid rs o && hist_valid (ref_step rs o) rest
  end.

Fixpoint ref_run (rs : list (N * rstate)) (ops : list op) : list (N * rstate) :=
  match ops with
  | [] => rs
  | o :: rest => ref_run (ref_step rs o) rest
  end.

Fixpoint mdl_after (s : mdl) (ops : list op) : mdl :=
  match ops with
  | [] => s
  | o :: rest => mdl_after (fst (mdl_step s o)) rest
  end.

Lemma group_valid_forall rs reqs :
  group_valid rs reqs = true ->
  scopes_distinct (map fst reqs) = true /\ Forall (valid_req rs) reqs.
Proof.
  unfold group_valid. intro H. apply andb_true_iff in H. destruct H as [Hd Hf]. split; [assumption|].
  apply Forall_forall. intros p Hp. pose proof (proj1 (forallb_forall _ _) Hf p Hp) as H.
  unfold req_ok in H. apply andb_true_iff in H. destruct H as [H1 H2]. split; [assumption|].
  unfold not_k1. apply negb_true_iff. assumption.
Qed.

Lemma ref_of_ref_group rs reqs sc :
  NoDup (map fst reqs) ->
  ref_of sc (ref_group rs reqs) =
  match find (fun p => fst p =? sc) reqs with Some p => next_ref rs p | None => ref_of sc rs end.
Proof.
  intro Hnd. unfold ref_of at 1, ref_group.
  rewrite (aget_fold_aset fst (next_ref rs) reqs rs sc Hnd).
  destruct (find (fun p => fst p =? sc) reqs); reflexivity.
Qed.

Lemma find_fst_in {A} (l : list (N * A)) sc p :
  NoDup (map fst l) -> In p l -> fst p = sc -> find (fun p0 => fst p0 =? sc) l = Some p.
Proof.
  induction l as [|x l IH]; intros Hnd Hin Hsc; [destruct Hin|].
  cbn [map] in Hnd. inversion Hnd as [|? ? Hni Hnd']; subst.
  cbn [find]. destruct Hin as [->|Hin].
  - rewrite N.eqb_refl. reflexivity.
  - destruct (fst x =? fst p) eqn:E.
    + exfalso. apply Hni. apply in_map_iff. exists p. split; [lia|assumption].
    + apply IH; [assumption|assumption|reflexivity].
Qed.

Lemma find_fst_none {A} (l : list (N * A)) sc :
  ~ In sc (map fst l) -> find (fun p0 => fst p0 =? sc) l = None.
Proof.
  intro H. destruct (find (fun p0 => fst p0 =? sc) l) as [p|] eqn:E; [|reflexivity].
  apply find_some in E. destruct E as [Hin He]. exfalso. apply H.
  apply in_map_iff. exists p. split; [lia|assumption].
Qed.

Lemma Inv_ext c rs1 rs2 : (forall sc, ref_of sc rs1 = ref_of sc rs2) -> Inv c rs1 -> Inv c rs2.
Proof. intros H HI sc. rewrite <- H. apply HI. Qed.

(* the committed group on the whole-database invariant, phrased with ref_group *)
Lemma run_group_commit' c rs reqs :
  Inv c rs -> group_valid rs reqs = true ->
  exists c', run_group c 0 reqs = (c', expected_codes rs reqs) /\ Inv c' (ref_group rs reqs).
Proof.
  intros HI Hgv. destruct (group_valid_forall rs reqs Hgv) as [Hd Hall].
  destruct (run_group_commit c rs reqs HI Hd Hall) as (c' & pl & Hr & Hnd & HI' & Hpl & Hrej).
  exists c'. split; [assumption|].
  pose proof (scopes_distinct_nodup _ Hd) as Hndr.
  eapply Inv_ext; [|exact HI']. intro sc.
  rewrite (ref_of_set_refs rs pl sc Hnd), (ref_of_ref_group rs reqs sc Hndr).
  destruct (in_dec N.eq_dec sc (map pl_sc pl)) as [Hin|Hni].
  - apply in_map_iff in Hin. destruct Hin as (p & Hsc & Hin).
    rewrite (find_sc_in pl sc p Hnd Hin Hsc).
    destruct (Hpl p Hin) as [Hinr Href]. rewrite Hsc in *.
    set (q := let '(_, q, _, _) := p in q) in *.
    rewrite (find_fst_in reqs sc (sc, q) Hndr Hinr eq_refl).
    unfold next_ref. cbn [fst snd]. rewrite Href. reflexivity.
  - rewrite (find_sc_none pl sc Hni).
    destruct (in_dec N.eq_dec sc (map fst reqs)) as [Hinr|Hnir].
    + apply in_map_iff in Hinr. destruct Hinr as ([sc' q] & Hsc & Hinr). cbn [fst] in Hsc. subst sc'.
      rewrite (find_fst_in reqs sc (sc, q) Hndr Hinr eq_refl).
      unfold next_ref. cbn [fst snd].
      destruct (ref_req false (ref_of sc rs) q) as [r'|e|] eqn:E; try reflexivity.
      exfalso. exact (Hrej sc q Hinr Hni r' E).
    + rewrite (find_fst_none reqs sc Hnir). reflexivity.
Qed.

(* ---- the joint invariant: model, monitor, reference *)

Record J (s : mdl) (m : mon) (rs : list (N * rstate)) : Prop := {
  J_inv : Inv (md_c s) rs;
  J_code : mn_code m = 0;
  J_sc : forall sc,
      q_ref (msc_of sc (mn_sc m)) = ref_of sc rs
      /\ q_k1 (msc_of sc (mn_sc m)) = None
      /\ q_judged (msc_of sc (mn_sc m)) = true
      /\ (q_mem (msc_of sc (mn_sc m)) = true -> mem_of sc (md_m s) = mem_of_ref (ref_of sc rs)) }.

Lemma J_init : J mdl0 mon0 [].
Proof.
  constructor.
  - apply Inv_init.
  - reflexivity.
  - intro sc. unfold msc_of, ref_of, mem_of. cbn. repeat split; reflexivity.
Qed.

Lemma msc_of_set m sc q sc' :
  msc_of sc' (mn_sc (set_msc m sc q)) = if sc =? sc' then q else msc_of sc' (mn_sc m).
Proof.
  unfold msc_of, set_msc. cbn [mn_sc]. destruct (sc =? sc') eqn:E.
  - assert (sc = sc') by lia. subst. rewrite aget_aset_same. reflexivity.
  - rewrite aget_aset_other by lia. reflexivity.
Qed.

Lemma mem_of_aset ms sc v sc' :
  mem_of sc' (aset sc v ms) = if sc =? sc' then v else mem_of sc' ms.
Proof.
  unfold mem_of. destruct (sc =? sc') eqn:E.
  - assert (sc = sc') by lia. subst. rewrite aget_aset_same. reflexivity.
  - rewrite aget_aset_other by lia. reflexivity.
Qed.

Lemma expected_code_zero r q :
  req_valid r q = true -> expected_code (ref_req false r q) = 0 -> exists r', ref_req false r q = ROk r'.
Proof.
  intros Hv H. destruct (ref_req false r q) as [r'|e|] eqn:E.
  - exists r'. reflexivity.
  - cbn in H. exfalso. eapply expected_code_rej_nonzero; eassumption.
  - exfalso. unfold req_valid in Hv. destruct q as [hs ents snap|i|i]; cbn [ref_req] in E; [|discriminate|discriminate].
    rewrite E in Hv. rewrite !andb_false_r in Hv. discriminate.
Qed.

(* one request of a committed, fully valid group *)
Lemma mon_req_ok m rs sc q :
  mn_code m = 0 ->
  q_ref (msc_of sc (mn_sc m)) = ref_of sc rs -> q_k1 (msc_of sc (mn_sc m)) = None ->
  q_judged (msc_of sc (mn_sc m)) = true ->
  valid_req rs (sc, q) ->
  let m' := mon_req true m sc q (expected_code (ref_req false (ref_of sc rs) q)) in
  mn_code m' = 0
  /\ (forall sc', sc' <> sc -> msc_of sc' (mn_sc m') = msc_of sc' (mn_sc m))
  /\ msc_of sc (mn_sc m') =
     MSC (next_ref rs (sc, q)) None true
         (match ref_req false (ref_of sc rs) q with
          | ROk _ => q_mem (msc_of sc (mn_sc m)) && req_ready_shaped q
          | _ => q_mem (msc_of sc (mn_sc m))
          end).
Proof.
  intros Hc Hr Hk Hj [Hv Hnk]. cbn [fst snd] in Hv, Hnk. cbn zeta.
  unfold mon_req. rewrite Hj, Hr, Hv. cbn [negb].
  rewrite N.eqb_refl. cbn [negb andb].
  unfold next_ref. cbn [fst snd].
  destruct (ref_req false (ref_of sc rs) q) as [r'|e|] eqn:E.
  - cbn [expected_code N.eqb negb]. rewrite Hk. unfold not_k1 in Hnk. rewrite Hnk.
    split; [exact Hc|]. split.
    + intros sc' Hne. rewrite msc_of_set. replace (sc =? sc') with false by lia. reflexivity.
    + rewrite msc_of_set, N.eqb_refl. reflexivity.
  - cbn [expected_code].
    assert (He : e <> 0) by (eapply expected_code_rej_nonzero; eassumption).
    replace (e =? 0) with false by lia. cbn [negb].
    split; [exact Hc|]. split; [reflexivity|].
    destruct (msc_of sc (mn_sc m)) as [a b c0 d] eqn:Em. cbn in *. subst. reflexivity.
  - exfalso. unfold req_valid in Hv. destruct q as [hs ents snap|i|i]; cbn [ref_req] in E; [|discriminate|discriminate].
    rewrite E in Hv. rewrite !andb_false_r in Hv. discriminate.
Qed.

Lemma mon_reqs_ok rs : forall reqs m,
  NoDup (map fst reqs) -> mn_code m = 0 ->
  (forall p, In p reqs ->
             q_ref (msc_of (fst p) (mn_sc m)) = ref_of (fst p) rs
             /\ q_k1 (msc_of (fst p) (mn_sc m)) = None
             /\ q_judged (msc_of (fst p) (mn_sc m)) = true
             /\ valid_req rs p) ->
  let m' := mon_reqs true m reqs (expected_codes rs reqs) in
  mn_code m' = 0
  /\ (forall sc, ~ In sc (map fst reqs) -> msc_of sc (mn_sc m') = msc_of sc (mn_sc m))
  /\ (forall p, In p reqs ->
        msc_of (fst p) (mn_sc m') =
        MSC (next_ref rs p) None true
            (match ref_req false (ref_of (fst p) rs) (snd p) with
             | ROk _ => q_mem (msc_of (fst p) (mn_sc m)) && req_ready_shaped (snd p)
             | _ => q_mem (msc_of (fst p) (mn_sc m))
             end)).
Proof.
  induction reqs as [|[sc q] reqs IH]; intros m Hnd Hc Hall; cbn zeta.
  - cbn. split; [assumption|]. split; [reflexivity|]. intros p [].
  - cbn [map fst] in Hnd. inversion Hnd as [|? ? Hni Hnd']; subst.
    unfold expected_codes. cbn [map mon_reqs fst snd]. fold (expected_codes rs reqs).
    destruct (Hall (sc, q) (or_introl eq_refl)) as (Hr & Hk & Hj & Hv). cbn [fst] in *.
    destruct (mon_req_ok m rs sc q Hc Hr Hk Hj Hv) as (Hc1 & Hoth1 & Hsc1).
    set (m1 := mon_req true m sc q (expected_code (ref_req false (ref_of sc rs) q))) in *.
    assert (Hall1 : forall p, In p reqs ->
               q_ref (msc_of (fst p) (mn_sc m1)) = ref_of (fst p) rs
               /\ q_k1 (msc_of (fst p) (mn_sc m1)) = None
               /\ q_judged (msc_of (fst p) (mn_sc m1)) = true
               /\ valid_req rs p).
    { intros p Hp. assert (Hne : fst p <> sc).
      { intro Heq. apply Hni. rewrite <- Heq. apply in_map. assumption. }
      rewrite (Hoth1 (fst p) Hne). apply Hall. right. assumption. }
    destruct (IH m1 Hnd' Hc1 Hall1) as (Hc2 & Hoth2 & Hsc2). cbn zeta in *.
    split; [exact Hc2|]. split.
    + intros s Hs. rewrite Hoth2 by (intro Hc'; apply Hs; right; assumption).
      apply Hoth1. intro Heq. apply Hs. left. symmetry. assumption.
    + intros p [<-|Hp].
      * cbn [fst snd]. rewrite (Hoth2 sc Hni). exact Hsc1.
      * rewrite (Hsc2 p Hp). assert (Hne : fst p <> sc).
        { intro Heq. apply Hni. rewrite <- Heq. apply in_map. assumption. }
        rewrite (Hoth1 (fst p) Hne). reflexivity.
Qed.

Lemma mem_group_spec rs : forall reqs ms,
  NoDup (map fst reqs) -> Forall (valid_req rs) reqs ->
  let ms' := mem_group ms reqs (expected_codes rs reqs) in
  (forall sc, ~ In sc (map fst reqs) -> mem_of sc ms' = mem_of sc ms)
  /\ (forall p, In p reqs ->
        mem_of (fst p) ms' =
        match ref_req false (ref_of (fst p) rs) (snd p) with
        | ROk _ => mem_req (mem_of (fst p) ms) (snd p)
        | _ => mem_of (fst p) ms
        end).
Proof.
  induction reqs as [|[sc q] reqs IH]; intros ms Hnd Hall; cbn zeta.
  - cbn. split; [reflexivity|]. intros p [].
  - cbn [map fst] in Hnd. inversion Hnd as [|? ? Hni Hnd']; subst.
    inversion Hall as [|? ? Hv Hall']; subst.
    unfold expected_codes. cbn [map mem_group fst snd]. fold (expected_codes rs reqs).
    set (ms1 := if expected_code (ref_req false (ref_of sc rs) q) =? 0
                then aset sc (mem_req (mem_of sc ms) q) ms else ms).
    destruct (IH ms1 Hnd' Hall') as (Hoth & Hsc). cbn zeta in *.
    assert (Hms1_other : forall s, s <> sc -> mem_of s ms1 = mem_of s ms).
    { intros s Hs. subst ms1. destruct (expected_code _ =? 0); [|reflexivity].
      rewrite mem_of_aset. replace (sc =? s) with false by lia. reflexivity. }
    split.
    + intros s Hs. rewrite Hoth by (intro Hc; apply Hs; right; assumption).
      apply Hms1_other. intro Heq. apply Hs. left. symmetry. assumption.
    + intros p [<-|Hp].
      * cbn [fst snd]. rewrite (Hoth sc Hni). subst ms1.
        destruct Hv as [Hv _]. cbn [fst snd] in Hv.
        destruct (ref_req false (ref_of sc rs) q) as [r'|e|] eqn:E.
        -- cbn [expected_code N.eqb]. rewrite mem_of_aset, N.eqb_refl. reflexivity.
        -- cbn [expected_code]. assert (e <> 0) by (eapply expected_code_rej_nonzero; eassumption).
           replace (e =? 0) with false by lia. reflexivity.
        -- exfalso. unfold req_valid in Hv. destruct q as [hs ents snap|i|i]; cbn [ref_req] in E; [|discriminate|discriminate].
           rewrite E in Hv. rewrite !andb_false_r in Hv. discriminate.
      * rewrite (Hsc p Hp). assert (Hne : fst p <> sc).
        { intro Heq. apply Hni. rewrite <- Heq. apply in_map. assumption. }
        rewrite (Hms1_other (fst p) Hne). reflexivity.
Qed.

Lemma mem_group_refused : forall reqs ms codes,
  forallb (fun x => negb (x =? 0)) codes = true -> mem_group ms reqs codes = ms.
Proof.
  induction reqs as [|[sc q] reqs IH]; intros ms codes H; [reflexivity|].
  destruct codes as [|c codes]; [reflexivity|].
  cbn [forallb] in H. apply andb_true_iff in H. destruct H as [Hc H].
  cbn [mem_group]. apply negb_true_iff in Hc. rewrite Hc. apply IH. assumption.
Qed.

Lemma worse_00 : worse 0 0 = 0. Proof. reflexivity. Qed.

Lemma k1_or_true s f : f (q_ref s) = true -> k1_or s f = 0.
Proof. intro H. unfold k1_or. rewrite H. reflexivity. Qed.

Lemma wf_ref_observe r : wf r -> exists o, ref_observe r = Some o.
Proof.
  intros (_ & _ & _ & _ & _ & (cs & Hcs)). unfold ref_observe. rewrite Hcs. eexists. reflexivity.
Qed.

Lemma obs_is_ref r : wf r -> obs_is (ref_observe r) r = true.
Proof.
  intro Hwf. destruct (wf_ref_observe r Hwf) as [o Ho]. unfold obs_is. rewrite Ho. apply fullobs_eqb_refl.
Qed.

(* ---- the step *)

Lemma step_J s m rs o :
  J s m rs -> op_valid rs o = true ->
  J (fst (mdl_step s o)) (mon_step m (o, snd (mdl_step s o))) (ref_step rs o).
Proof.
  intros [HI Hc Hsc] Hv. destruct o as [mode reqs| |sc|sc [lo hi mx|i]]; cbn [op_valid ref_step] in *.
  - (* a write group *)
    destruct (group_valid_forall rs reqs Hv) as [Hd Hall].
    pose proof (scopes_distinct_nodup _ Hd) as Hnd.
    destruct (mode =? 0) eqn:Emode.
    + assert (mode = 0) by lia. subst mode.
      destruct (run_group_commit' (md_c s) rs reqs HI Hv) as (c' & Hrun & HI').
      cbn [mdl_step]. rewrite Hrun. cbn [fst snd mon_step]. rewrite Hd. cbn [negb N.eqb].
      assert (Hstrict : group_strict m reqs = true).
      { unfold group_strict. apply forallb_forall. intros p Hp.
        destruct (Hsc (fst p)) as (Hr & _ & Hj & _). rewrite Hj, Hr. cbn [andb].
        exact (proj1 (proj1 (Forall_forall _ _) Hall p Hp)). }
      rewrite Hstrict.
      assert (Hpre : forall p, In p reqs ->
                 q_ref (msc_of (fst p) (mn_sc m)) = ref_of (fst p) rs
                 /\ q_k1 (msc_of (fst p) (mn_sc m)) = None
                 /\ q_judged (msc_of (fst p) (mn_sc m)) = true
                 /\ valid_req rs p).
      { intros p Hp. destruct (Hsc (fst p)) as (Hr & Hk & Hj & _). repeat split; try assumption;
        apply (proj1 (Forall_forall _ _) Hall p Hp). }
      destruct (mon_reqs_ok rs reqs m Hnd Hc Hpre) as (Hc' & Hoth & Hin). cbn zeta in *.
      destruct (mem_group_spec rs reqs (md_m s) Hnd Hall) as (Hmoth & Hmin). cbn zeta in *.
      constructor; cbn [md_c md_m].
      * exact HI'.
      * exact Hc'.
      * intro sc. rewrite (ref_of_ref_group rs reqs sc Hnd).
        destruct (in_dec N.eq_dec sc (map fst reqs)) as [Hinr|Hnir].
        -- apply in_map_iff in Hinr. destruct Hinr as (p & Hsc' & Hp). subst sc.
           rewrite (find_fst_in reqs (fst p) p Hnd Hp eq_refl).
           rewrite (Hin p Hp). cbn [q_ref q_k1 q_judged q_mem].
           split; [reflexivity|]. split; [reflexivity|]. split; [reflexivity|].
           intro Hqm. rewrite (Hmin p Hp).
           destruct (Hsc (fst p)) as (Hr & Hk & Hj & Hmem).
           destruct (HI (fst p)) as (Hwf & _).
           destruct (proj1 (Forall_forall _ _) Hall p Hp) as [Hvp Hkp].
           unfold next_ref.
           destruct (ref_req false (ref_of (fst p) rs) (snd p)) as [r'|e|] eqn:E.
           ++ apply andb_true_iff in Hqm. destruct Hqm as [Hqm Hshape].
              rewrite (Hmem Hqm). apply mem_req_sim; assumption.
           ++ apply Hmem. assumption.
           ++ apply Hmem. assumption.
        -- rewrite (find_fst_none reqs sc Hnir), (Hoth sc Hnir), (Hmoth sc Hnir). apply Hsc.
    + (* refused / cut *)
      assert (Hm : mode <> 0) by lia.
      destruct (run_group_refused (md_c s) rs mode reqs HI Hd Hall Hm) as (c' & codes & Hrun & HI' & Hnz & Hlen).
      cbn [mdl_step]. rewrite Hrun. cbn [fst snd mon_step]. rewrite Hd, Emode. cbn [negb].
      rewrite Hnz. replace (length codes =? length reqs)%nat with true by (symmetry; apply Nat.eqb_eq; assumption).
      cbn [andb]. rewrite (mem_group_refused reqs (md_m s) codes Hnz).
      constructor; cbn [md_c md_m]; assumption.
  - (* reopen *)
    cbn [mdl_step fst snd mon_step]. constructor; cbn [md_c md_m]; [apply reopen_Inv|..]; assumption.
  - (* full observation *)
    destruct (HI sc) as (Hwf & Hri & _).
    destruct Hwf as (? & ? & ? & ? & ? & (cs & Hcs)).
    assert (Hwf : wf (ref_of sc rs)) by (destruct (HI sc) as (Hw & _); exact Hw).
    destruct (observe_sim (md_c s) sc (ref_of sc rs) cs Hwf Hri Hcs)
      as (c' & rw' & Hobs & Hf & Hn & Hca & Hkv & Hrw & Hri' & Hks).
    cbn [mdl_step]. rewrite Hobs. cbn [fst snd mon_step].
    destruct (Hsc sc) as (Hr & Hk & Hj & Hmem). rewrite Hj. cbn [negb]. rewrite Hr.
    destruct (wf_ref_observe _ Hwf) as [o Ho]. rewrite Ho.
    assert (Hcp : k1_or (msc_of sc (mn_sc m)) (obs_is (ref_observe (ref_of sc rs))) = 0).
    { apply k1_or_true. rewrite Hr. apply obs_is_ref. assumption. }
    rewrite <- Ho. rewrite Hcp.
    assert (Hcm : (if q_mem (msc_of sc (mn_sc m))
                   then k1_or (msc_of sc (mn_sc m)) (obs_is (mem_observe (mem_of sc (md_m s)))) else 0) = 0).
    { destruct (q_mem (msc_of sc (mn_sc m))) eqn:Eqm; [|reflexivity].
      apply k1_or_true. rewrite Hr, (Hmem eq_refl), (mem_observe_sim _ Hwf). apply obs_is_ref. assumption. }
    rewrite Hcm. cbn [N.eqb].
    constructor; cbn [md_c md_m].
    + eapply Inv_set_rows; eassumption.
    + unfold flag. cbn [mn_code]. rewrite Hc. reflexivity.
    + intro sc'. unfold flag. cbn [mn_sc]. apply Hsc.
  - (* Entries *)
    destruct (HI sc) as (Hwf & Hri & _).
    cbn [mdl_step fst snd mon_step].
    destruct (Hsc sc) as (Hr & Hk & Hj & Hmem). rewrite Hj. cbn [negb].
    assert (Hcp : k1_or (msc_of sc (mn_sc m)) (judge_entries lo hi mx (pebble_entries (md_c s) sc lo hi mx)) = 0).
    { apply k1_or_true. rewrite Hr. apply judge_entries_pebble; assumption. }
    rewrite Hcp.
    assert (Hcm : (if (0 <? hi) && q_mem (msc_of sc (mn_sc m))
                   then k1_or (msc_of sc (mn_sc m)) (judge_entries lo hi mx (mem_entries (mem_of sc (md_m s)) lo hi mx))
                   else 0) = 0).
    { destruct ((0 <? hi) && q_mem (msc_of sc (mn_sc m))) eqn:E; [|reflexivity].
      apply andb_true_iff in E. destruct E as [Ehi Eqm].
      apply k1_or_true. rewrite Hr, (Hmem Eqm). apply judge_entries_mem; [assumption|lia]. }
    rewrite Hcm.
    constructor; cbn [md_c md_m].
    + assumption.
    + unfold flag. cbn [mn_code]. rewrite Hc. reflexivity.
    + intro sc'. unfold flag. cbn [mn_sc]. apply Hsc.
  - (* Term *)
    destruct (HI sc) as (Hwf & Hri & _).
    destruct Hwf as (? & ? & ? & ? & ? & (cs & Hcs)).
    assert (Hwf : wf (ref_of sc rs)) by (destruct (HI sc) as (Hw & _); exact Hw).
    destruct (pebble_term_sim (md_c s) sc (ref_of sc rs) cs i Hwf Hri Hcs)
      as (c' & rw' & t & Hpt & Hjt & Hf & Hn & Hca & Hkv & Hrw & Hri' & Hks).
    cbn [mdl_step]. rewrite Hpt. cbn [fst snd mon_step].
    destruct (Hsc sc) as (Hr & Hk & Hj & Hmem). rewrite Hj. cbn [negb].
    assert (Hcp : k1_or (msc_of sc (mn_sc m)) (judge_term i t) = 0).
    { apply k1_or_true. rewrite Hr. assumption. }
    rewrite Hcp.
    assert (Hcm : (if q_mem (msc_of sc (mn_sc m))
                   then k1_or (msc_of sc (mn_sc m)) (judge_term i (mem_term (mem_of sc (md_m s)) i)) else 0) = 0).
    { destruct (q_mem (msc_of sc (mn_sc m))) eqn:Eqm; [|reflexivity].
      apply k1_or_true. rewrite Hr, (Hmem eq_refl). apply judge_term_mem. assumption. }
    rewrite Hcm.
    constructor; cbn [md_c md_m].
    + eapply Inv_set_rows; eassumption.
    + unfold flag. cbn [mn_code]. rewrite Hc. reflexivity.
    + intro sc'. unfold flag. cbn [mn_sc]. apply Hsc.
Qed.

(* ---- whole histories *)

Lemma run_J : forall ops s m rs,
  J s m rs -> hist_valid rs ops = true ->
  J (mdl_after s ops) (fold_left mon_step (combine ops (mdl_run s ops)) m) (ref_run rs ops).
Proof.
  induction ops as [|o ops IH]; intros s m rs HJ Hv; [exact HJ|].
  cbn [hist_valid] in Hv. apply andb_true_iff in Hv. destruct Hv as [Hvo Hvr].
  pose proof (step_J s m rs o HJ Hvo) as HJ'.
  cbn [mdl_after ref_run mdl_run]. destruct (mdl_step s o) as [s' x] eqn:Es.
  cbn [combine fold_left fst snd] in *. apply IH; assumption.
Qed.

Lemma model_satisfies_monitor ops :
  hist_valid [] ops = true ->
  C14_monitor (C14Case (combine ops (mdl_run mdl0 ops))) = 0.
Proof.
  intro Hv. unfold C14_monitor. cbn [cs_steps].
  exact (J_code _ _ _ (run_J ops mdl0 mon0 [] J_init Hv)).
Qed.

Lemma map_fst_combine {A B} (l : list A) (l' : list B) :
  length l = length l' -> map fst (combine l l') = l.
Proof.
  revert l'. induction l as [|a l IH]; intros [|b l'] H; try reflexivity; try discriminate.
  cbn [combine map fst]. f_equal. apply IH. cbn [length] in H. lia.
Qed.
Lemma map_snd_combine {A B} (l : list A) (l' : list B) :
  length l = length l' -> map snd (combine l l') = l'.
Proof.
  revert l'. induction l as [|a l IH]; intros [|b l'] H; try reflexivity; try discriminate.
  cbn [combine map snd]. f_equal. apply IH. cbn [length] in H. lia.
Qed.
Lemma mdl_run_length ops : forall s, length (mdl_run s ops) = length ops.
Proof.
  induction ops as [|o l IH]; intro s; [reflexivity|].
  cbn [mdl_run]. destruct (mdl_step s o). cbn [length]. rewrite IH. reflexivity.
Qed.

Lemma model_no_mismatch ops :
  C14_mismatch (C14Case (combine ops (mdl_run mdl0 ops))) = false.
Proof.
  unfold C14_mismatch. cbn [cs_steps].
  rewrite map_fst_combine, map_snd_combine by (symmetry; apply mdl_run_length).
  apply negb_false_iff.
  apply list_eqb_refl. intro x. destruct x as [cs| |p mm|p mm|p mm]; cbn [oresult_eqb].
  - apply list_eqb_refl. apply N.eqb_refl.
  - reflexivity.
  - destruct p, mm; cbn [option_eqb]; rewrite ?fullobs_eqb_refl; reflexivity.
  - destruct p; cbn [option_eqb]; rewrite ?entries_eqb_refl; reflexivity.
  - destruct p; cbn [option_eqb]; rewrite ?N.eqb_refl; reflexivity.
Qed.

(* ---- what the invariant says about reads, in the model's own terms *)

Definition refines (c : cstate) (rs : list (N * rstate)) : Prop :=
  forall sc, let r := ref_of sc rs in
    snd (observe c sc) = ref_observe r
    /\ (forall lo hi mx, r_first r <= lo -> lo <= hi -> hi <= r_last r + 1 ->
                         pebble_entries c sc lo hi mx = ref_entries r lo hi mx)
    /\ (forall i, snd (pebble_term c sc i) = Some (match r_term r i with Some t => t | None => 0 end)).

Lemma Inv_refines c rs : Inv c rs -> refines c rs.
Proof.
  intros HI sc. cbn zeta. destruct (HI sc) as (Hwf & Hri & _).
  pose proof Hwf as (_ & _ & _ & _ & _ & (cs & Hcs)).
  split; [|split].
  - destruct (observe_sim c sc _ cs Hwf Hri Hcs) as (c' & rw' & Hobs & _). rewrite Hobs. reflexivity.
  - intros lo hi mx H1 H2 H3. rewrite (pebble_entries_eq c sc _ lo hi mx Hri).
    apply ref_entries_window; assumption.
  - intro i. destruct (pebble_term_sim c sc _ cs i Hwf Hri Hcs) as (c' & rw' & t & Hpt & Hjt & _).
    rewrite Hpt. cbn [snd]. f_equal. unfold judge_term in Hjt.
    destruct (r_term (ref_of sc rs) i); apply N.eqb_eq in Hjt; assumption.
Qed.

Lemma reach_Inv ops :
  hist_valid [] ops = true -> Inv (md_c (mdl_after mdl0 ops)) (ref_run [] ops).
Proof. intro Hv. exact (J_inv _ _ _ (run_J ops mdl0 mon0 [] J_init Hv)). Qed.

Lemma reach_wf ops sc :
  hist_valid [] ops = true -> wf (ref_of sc (ref_run [] ops)).
Proof. intro Hv. destruct (reach_Inv ops Hv sc) as (Hwf & _). exact Hwf. Qed.

Lemma refines_memory ops :
  hist_valid [] ops = true -> refines (md_c (mdl_after mdl0 ops)) (ref_run [] ops).
Proof. intro Hv. apply Inv_refines. apply reach_Inv. assumption. Qed.

(* nothing below the compaction point, no term for an index that is not held *)
Lemma no_below_compaction ops sc :
  hist_valid [] ops = true ->
  let c := md_c (mdl_after mdl0 ops) in let r := ref_of sc (ref_run [] ops) in
  (forall lo hi mx e, In e (pebble_entries c sc lo hi mx) ->
                      r_first r <= e_idx e /\ e_idx e <= r_last r /\ lo <= e_idx e /\ (hi = 0 \/ e_idx e < hi))
  /\ (forall i, i + 1 < r_first r \/ r_last r < i -> snd (pebble_term c sc i) = Some 0).
Proof.
  intro Hv. cbn zeta. destruct (reach_Inv ops Hv sc) as (Hwf & Hri & _).
  pose proof Hwf as (Hc & _). split.
  - intros lo hi mx e He. rewrite (pebble_entries_eq _ sc _ lo hi mx Hri) in He.
    destruct (limit_size_prefix mx (filter (fun e => in_window lo hi (e_idx e)) (r_ents (ref_of sc (ref_run [] ops))))) as [k Hk].
    rewrite Hk in He. apply firstn_In in He. apply filter_In in He. destruct He as [Hin Hw].
    pose proof (contig_in _ _ _ Hc Hin) as Hb. unfold in_window in Hw. unfold r_first, r_last, len in *. lia.
  - intros i Hi. destruct (Inv_refines _ _ (reach_Inv ops Hv) sc) as (_ & _ & Ht). rewrite Ht. f_equal.
    destruct (r_term (ref_of sc (ref_run [] ops)) i) as [t|] eqn:E; [|reflexivity].
    apply r_term_in_range in E. unfold r_first in Hi. lia.
Qed.

(* reopen is the identity on everything observable, and the cached tail is rebuilt *)
Lemma reopen_identity ops sc :
  hist_valid [] ops = true ->
  let c := md_c (mdl_after mdl0 ops) in
  snd (observe (reopen c) sc) = snd (observe c sc)
  /\ (forall lo hi mx, pebble_entries (reopen c) sc lo hi mx = pebble_entries c sc lo hi mx)
  /\ (forall i, snd (pebble_term (reopen c) sc i) = snd (pebble_term c sc i))
  /\ (forall w, aget sc (c_cache c) = Some w -> loadScopeWriteState (reopen c) [] sc = Ok w).
Proof.
  intro Hv. cbn zeta. pose proof (reach_Inv ops Hv) as HI.
  pose proof (reopen_Inv _ _ HI) as HI'.
  destruct (Inv_refines _ _ HI sc) as (Ho & _ & Ht).
  destruct (Inv_refines _ _ HI' sc) as (Ho' & _ & Ht').
  split; [rewrite Ho, Ho'; reflexivity|]. split; [reflexivity|]. split.
  - intro i. rewrite Ht, Ht'. reflexivity.
  - intros w Hw. eapply reopen_rebuilds_cache; eassumption.
Qed.

(* ---- crash during the flush of a group: Pebble applies the batch or does not *)

Section Crash.
  Variable crash_kv : list (N * rows) -> list bop -> list (N * rows).
  Hypothesis batch_atomic : forall kv b, crash_kv kv b = kv \/ crash_kv kv b = apply_batch kv b.

  (* the files a process killed inside flushWriteRequests leaves behind, reopened *)
  Definition run_group_crash (c : cstate) (reqs : list (N * wreq)) : cstate :=
    let '(c1, qs, _) := plan_group c reqs in
    match qs with
    | [] => drop_cache c1
    | _ => match stage_requests c1 [] [] qs with
           | Ok (batch, _) => CS (crash_kv (c_kv c1) batch) [] (c_files c1) (c_next c1)
           | Err _ => drop_cache c1
           end
    end.

  Lemma crash_group c rs reqs :
    Inv c rs -> group_valid rs reqs = true ->
    Inv (run_group_crash c reqs) rs \/ Inv (run_group_crash c reqs) (ref_group rs reqs).
  Proof.
    intros HI Hgv. destruct (group_valid_forall rs reqs Hgv) as [Hd Hall].
    pose proof (scopes_distinct_nodup _ Hd) as Hndr.
    destruct (plan_group_sim rs reqs c HI Hall) as (c1 & pl & Hg & Hkv & Hca & Hm & Hpls & Hsub & Hnd & Hrej & Hin).
    specialize (Hnd Hndr).
    assert (HI1 : Inv c1 rs) by (eapply Inv_mono; eassumption).
    (* what the committed run would give *)
    destruct (run_group_commit' c rs reqs HI Hgv) as (cc & Hrun & HIc).
    unfold run_group in Hrun. rewrite Hg in Hrun. cbn [N.eqb negb] in Hrun.
    unfold run_group_crash. rewrite Hg.
    destruct pl as [|p pl'].
    - cbn [map] in *. inversion Hrun; subst cc. right.
      intro sc. destruct (HIc sc) as (Hw & Hr & _). unfold ScopeInv, drop_cache. cbn [c_kv c_files c_next c_cache].
      split; [assumption|]. split; [assumption|]. intros w Hw'. discriminate.
    - destruct (flush_sim c1 rs (p :: pl') HI1 Hnd Hpls) as (c' & Hf & _ & _ & HI' & batch & lc & Hst & Hc').
      cbn [map] in *. rewrite Hst.
      destruct (batch_atomic (c_kv c1) batch) as [Hno|Hyes].
      + left. rewrite Hno. intro sc. destruct (HI1 sc) as (Hw & Hr & _).
        unfold ScopeInv. cbn [c_kv c_files c_next c_cache].
        split; [assumption|]. split; [assumption|]. intros w Hw'. discriminate.
      + right. rewrite Hyes.
        rewrite Hf in Hrun. inversion Hrun; subst cc.
        intro sc. destruct (HIc sc) as (Hw & Hr & _). rewrite Hc' in Hr. cbn [c_kv c_files c_next] in Hr.
        unfold ScopeInv. cbn [c_kv c_files c_next c_cache].
        split; [assumption|]. split; [assumption|]. intros w Hw'. discriminate.
  Qed.
End Crash.

(* ---- memory.go on Ready-shaped histories *)

Definition op_ready (o : op) : bool :=
  match o with
  | OWrite _ reqs => forallb (fun p => req_ready_shaped (snd p)) reqs
  | _ => true
  end.

Lemma step_qmem s m rs o :
  J s m rs -> op_valid rs o = true -> op_ready o = true ->
  (forall sc, q_mem (msc_of sc (mn_sc m)) = true) ->
  forall sc, q_mem (msc_of sc (mn_sc (mon_step m (o, snd (mdl_step s o))))) = true.
Proof.
  intros [HI Hc Hsc] Hv Hrd Hq. destruct o as [mode reqs| |sc0|sc0 [lo hi mx|i]]; cbn [op_valid op_ready] in *.
  - destruct (group_valid_forall rs reqs Hv) as [Hd Hall].
    pose proof (scopes_distinct_nodup _ Hd) as Hnd.
    destruct (mode =? 0) eqn:Emode.
    + assert (mode = 0) by lia. subst mode.
      destruct (run_group_commit' (md_c s) rs reqs HI Hv) as (c' & Hrun & HI').
      cbn [mdl_step]. rewrite Hrun. cbn [fst snd mon_step]. rewrite Hd. cbn [negb N.eqb].
      assert (Hstrict : group_strict m reqs = true).
      { unfold group_strict. apply forallb_forall. intros p Hp.
        destruct (Hsc (fst p)) as (Hr & _ & Hj & _). rewrite Hj, Hr. cbn [andb].
        exact (proj1 (proj1 (Forall_forall _ _) Hall p Hp)). }
      rewrite Hstrict.
      assert (Hpre : forall p, In p reqs ->
                 q_ref (msc_of (fst p) (mn_sc m)) = ref_of (fst p) rs
                 /\ q_k1 (msc_of (fst p) (mn_sc m)) = None
                 /\ q_judged (msc_of (fst p) (mn_sc m)) = true
                 /\ valid_req rs p).
      { intros p Hp. destruct (Hsc (fst p)) as (Hr & Hk & Hj & _). repeat split; try assumption;
        apply (proj1 (Forall_forall _ _) Hall p Hp). }
      destruct (mon_reqs_ok rs reqs m Hnd Hc Hpre) as (Hc' & Hoth & Hin). cbn zeta in *.
      intro sc. destruct (in_dec N.eq_dec sc (map fst reqs)) as [Hinr|Hnir].
      * apply in_map_iff in Hinr. destruct Hinr as (p & Hsc' & Hp). subst sc.
        rewrite (Hin p Hp). cbn [q_mem]. rewrite (Hq (fst p)).
        rewrite (proj1 (forallb_forall _ _) Hrd p Hp).
        destruct (ref_req false (ref_of (fst p) rs) (snd p)); reflexivity.
      * rewrite (Hoth sc Hnir). apply Hq.
    + assert (Hm : mode <> 0) by lia.
      destruct (run_group_refused (md_c s) rs mode reqs HI Hd Hall Hm) as (c' & codes & Hrun & HI' & Hnz & Hlen).
      cbn [mdl_step]. rewrite Hrun. cbn [fst snd mon_step]. rewrite Hd, Emode. cbn [negb].
      rewrite Hnz. replace (length codes =? length reqs)%nat with true by (symmetry; apply Nat.eqb_eq; assumption).
      cbn [andb]. exact Hq.
  - cbn [mdl_step fst snd mon_step]. exact Hq.
  - pose proof (step_J s m rs (OObserve sc0) (Build_J _ _ _ HI Hc Hsc) eq_refl) as HJ'.
    (* the observation step leaves the per-scope records untouched *)
    destruct (HI sc0) as (Hwf & Hri & _).
    pose proof Hwf as (_ & _ & _ & _ & _ & (cs & Hcs)).
    destruct (observe_sim (md_c s) sc0 (ref_of sc0 rs) cs Hwf Hri Hcs) as (c' & rw' & Hobs & _).
    cbn [mdl_step]. rewrite Hobs. cbn [fst snd mon_step].
    destruct (Hsc sc0) as (Hr & Hk & Hj & Hmem). rewrite Hj. cbn [negb]. rewrite Hr.
    destruct (wf_ref_observe _ Hwf) as [o Ho]. rewrite Ho.
    assert (Hcp : k1_or (msc_of sc0 (mn_sc m)) (obs_is (Some o)) = 0).
    { rewrite <- Ho. apply k1_or_true. rewrite Hr. apply obs_is_ref. assumption. }
    rewrite Hcp. cbn [N.eqb]. intro sc. unfold flag. cbn [mn_sc]. apply Hq.
  - cbn [mdl_step fst snd mon_step].
    destruct (Hsc sc0) as (Hr & Hk & Hj & Hmem). rewrite Hj. cbn [negb].
    intro sc. unfold flag. cbn [mn_sc]. apply Hq.
  - destruct (HI sc0) as (Hwf & Hri & _).
    pose proof Hwf as (_ & _ & _ & _ & _ & (cs & Hcs)).
    destruct (pebble_term_sim (md_c s) sc0 (ref_of sc0 rs) cs i Hwf Hri Hcs) as (c' & rw' & t & Hpt & _).
    cbn [mdl_step]. rewrite Hpt. cbn [fst snd mon_step].
    destruct (Hsc sc0) as (Hr & Hk & Hj & Hmem). rewrite Hj. cbn [negb].
    intro sc. unfold flag. cbn [mn_sc]. apply Hq.
Qed.

Lemma run_qmem : forall ops s m rs,
  J s m rs -> hist_valid rs ops = true -> forallb op_ready ops = true ->
  (forall sc, q_mem (msc_of sc (mn_sc m)) = true) ->
  forall sc, q_mem (msc_of sc (mn_sc (fold_left mon_step (combine ops (mdl_run s ops)) m))) = true.
Proof.
  induction ops as [|o ops IH]; intros s m rs HJ Hv Hrd Hq; [exact Hq|].
  cbn [hist_valid] in Hv. apply andb_true_iff in Hv. destruct Hv as [Hvo Hvr].
  cbn [forallb] in Hrd. apply andb_true_iff in Hrd. destruct Hrd as [Hro Hrr].
  pose proof (step_J s m rs o HJ Hvo) as HJ'.
  pose proof (step_qmem s m rs o HJ Hvo Hro Hq) as Hq'.
  cbn [mdl_run]. destruct (mdl_step s o) as [s' x] eqn:Es.
  cbn [combine fold_left fst snd] in *. eapply IH; eassumption.
Qed.

(* memory.go returns what the reference returns *)
Lemma memory_agrees ops sc :
  hist_valid [] ops = true -> forallb op_ready ops = true ->
  let ms := mem_of sc (md_m (mdl_after mdl0 ops)) in let r := ref_of sc (ref_run [] ops) in
  mem_observe ms = ref_observe r
  /\ (forall lo hi mx, 0 < hi -> r_first r <= lo -> lo <= hi -> hi <= r_last r + 1 ->
                       mem_entries ms lo hi mx = ref_entries r lo hi mx)
  /\ (forall i, mem_term ms i = match r_term r i with Some t => t | None => 0 end).
Proof.
  intros Hv Hrd. cbn zeta.
  pose proof (run_J ops mdl0 mon0 [] J_init Hv) as HJ.
  pose proof (run_qmem ops mdl0 mon0 [] J_init Hv Hrd (fun _ => eq_refl) sc) as Hq.
  destruct (J_sc _ _ _ HJ sc) as (_ & _ & _ & Hmem). rewrite (Hmem Hq).
  pose proof (reach_wf ops sc Hv) as Hwf.
  split; [apply mem_observe_sim; assumption|]. split.
  - intros lo hi mx H0 H1 H2 H3. rewrite mem_entries_eq by assumption. apply ref_entries_window; assumption.
  - intro i. pose proof (judge_term_mem _ i Hwf) as Hj. unfold judge_term in Hj.
    destruct (r_term (ref_of sc (ref_run [] ops)) i); apply N.eqb_eq in Hj; assumption.
Qed.

(* ---- known finding K1: once the K1-signature saves are let in, the statement is false *)

Definition req_raft_valid (rs : list (N * rstate)) (p : N * wreq) : bool :=
  req_valid (ref_of (fst p) rs) (snd p).

Fixpoint hist_raft_valid (rs : list (N * rstate)) (ops : list op) : bool :=
  match ops with
  | [] => true
  | o :: rest =>
      match o with
      | OWrite _ reqs => scopes_distinct (map fst reqs) && forallb (req_raft_valid rs) reqs
      | _ => true
      end && hist_raft_valid (ref_step rs o) rest
  end.

(* corpus/C14/k1_snapshot_inside_log_keeps_stale_suffix.json *)
Definition k1_witness : list op :=
  [OWrite 0 [(1, WSave None [E 1 1 0 [] None; E 2 1 0 (hx "f7c4e1") None] None)];
   OWrite 0 [(1, WSave None [] (Some (SN 1 2 [1; 2; 3] (hx "1a7692") 3271408493)))];
   OReopen;
   OObserve 1].

Lemma k1_refuted :
  hist_raft_valid [] k1_witness = true
  /\ snd (observe (md_c (mdl_after mdl0 k1_witness)) 1) <> ref_observe (ref_of 1 (ref_run [] k1_witness))
  /\ C14_monitor (C14Case (combine k1_witness (mdl_run mdl0 k1_witness))) = 2.
Proof.
  split; [vm_compute; reflexivity|]. split; [vm_compute; discriminate|vm_compute; reflexivity].
Qed.
