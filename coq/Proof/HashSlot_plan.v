(* Proof/HashSlot_plan.v — the planners' selection functions and the shared
   transfer loop: what a plan looks like (each hash slot at most once, taken from
   its current owner, sent elsewhere), how the per-slot holdings after applying
   the plan relate to the loop's [current] map, and the loop's exit. *)
From WK Require Import Base.Base Model.HashSlot Proof.HashSlot_table Proof.HashSlot_lists.
From Coq Require Import ZifyBool ZifyN ZifyNat Sorting.Sorted Sorting.Permutation.
Open Scope N_scope.

(* ---- selectLargestSurplusSlot / selectSmallestDeficitSlot ----------------------------- *)

Definition surplus_inv (cur tgt : list (N * N)) (seen : list N) (st : N * N * N) : Prop :=
  let '(ch, b, bc) := st in
  (ch = 0 /\ forall x, In x seen -> aget 0 cur x <= aget 0 tgt x) \/
  (ch <> 0 /\ In ch seen /\ aget 0 tgt ch < aget 0 cur ch /\ b = aget 0 cur ch - aget 0 tgt ch
   /\ bc = aget 0 cur ch /\ forall x, In x seen -> aget 0 cur x - aget 0 tgt x <= b).

Lemma sel_surplus_fold cur tgt : forall cands seen st, ~ In 0 cands ->
  surplus_inv cur tgt seen st ->
  surplus_inv cur tgt (seen ++ cands) (fold_left (sel_surplus_step cur tgt) cands st).
Proof.
  induction cands as [|x cands IH]; intros seen st NZ Inv; cbn [fold_left]; [rewrite app_nil_r; exact Inv|].
  replace (seen ++ x :: cands) with ((seen ++ [x]) ++ cands) by (rewrite <- app_assoc; reflexivity).
  assert (Hx : x <> 0) by (intro; subst; apply NZ; left; reflexivity).
  apply IH; [intro I; apply NZ; right; exact I|].
  destruct st as [[ch b] bc]. unfold sel_surplus_step, surplus_inv in *.
  destruct (aget 0 cur x <=? aget 0 tgt x) eqn:E1.
  - destruct Inv as [[A B]|[A [B [C [D [E F]]]]]].
    + left. split; [exact A|]. intros y I. apply in_app_or in I. destruct I as [I|[I|[]]]; [apply B; exact I|subst; lia].
    + right. split; [exact A|]. split; [apply in_or_app; left; exact B|]. split; [exact C|]. split; [exact D|]. split; [exact E|].
      intros y I. apply in_app_or in I. destruct I as [I|[I|[]]]; [apply F; exact I|subst; lia].
  - set (s := aget 0 cur x - aget 0 tgt x).
    destruct ((ch =? 0) || (b <? s) || ((s =? b) && (bc <? aget 0 cur x))
              || ((s =? b) && (aget 0 cur x =? bc) && (x <? ch))) eqn:E2.
    + right. split; [exact Hx|]. split; [apply in_or_app; right; left; reflexivity|]. split; [lia|]. split; [reflexivity|].
      split; [reflexivity|]. intros y I. apply in_app_or in I. destruct I as [I|[I|[]]]; [|subst; unfold s; lia].
      destruct Inv as [[A B]|[A [B [C [D [E F]]]]]].
      * specialize (B y I). lia.
      * specialize (F y I). unfold s in *. lia.
    + destruct Inv as [[A B]|[A [B [C [D [E F]]]]]]; [subst ch; cbn in E2; discriminate|].
      right. split; [exact A|]. split; [apply in_or_app; left; exact B|]. split; [exact C|]. split; [exact D|]. split; [exact E|].
      intros y I. apply in_app_or in I. destruct I as [I|[I|[]]]; [apply F; exact I|]. subst y. unfold s in *. lia.
Qed.

Lemma select_largest_spec cur tgt cands : ~ In 0 cands ->
  let d := select_largest_surplus_slot cur tgt cands in
  (d = 0 /\ forall x, In x cands -> aget 0 cur x <= aget 0 tgt x) \/
  (d <> 0 /\ In d cands /\ aget 0 tgt d < aget 0 cur d
   /\ forall x, In x cands -> aget 0 cur x - aget 0 tgt x <= aget 0 cur d - aget 0 tgt d).
Proof.
  intro NZ. unfold select_largest_surplus_slot.
  pose proof (sel_surplus_fold cur tgt cands [] (0, 0, 0) NZ) as H. cbn [app] in H.
  destruct (fold_left (sel_surplus_step cur tgt) cands (0, 0, 0)) as [[ch b] bc]. cbn [fst].
  destruct H as [[A B]|[A [B [C [D [E F]]]]]].
  - left. split; [reflexivity|intros x []].
  - left. split; [exact A|exact B].
  - right. split; [exact A|]. split; [exact B|]. split; [exact C|]. subst b. exact F.
Qed.

Definition deficit_inv (cur tgt : list (N * N)) (seen : list N) (st : N * N * N) : Prop :=
  let '(ch, b, bc) := st in
  (ch = 0 /\ forall x, In x seen -> aget 0 tgt x <= aget 0 cur x) \/
  (ch <> 0 /\ In ch seen /\ aget 0 cur ch < aget 0 tgt ch /\ b = aget 0 tgt ch - aget 0 cur ch
   /\ bc = aget 0 cur ch /\ forall x, In x seen -> aget 0 tgt x - aget 0 cur x <= b).

Lemma sel_deficit_fold cur tgt : forall cands seen st, ~ In 0 cands ->
  deficit_inv cur tgt seen st ->
  deficit_inv cur tgt (seen ++ cands) (fold_left (sel_deficit_step cur tgt) cands st).
Proof.
  induction cands as [|x cands IH]; intros seen st NZ Inv; cbn [fold_left]; [rewrite app_nil_r; exact Inv|].
  replace (seen ++ x :: cands) with ((seen ++ [x]) ++ cands) by (rewrite <- app_assoc; reflexivity).
  assert (Hx : x <> 0) by (intro; subst; apply NZ; left; reflexivity).
  apply IH; [intro I; apply NZ; right; exact I|].
  destruct st as [[ch b] bc]. unfold sel_deficit_step, deficit_inv in *.
  destruct (aget 0 tgt x <=? aget 0 cur x) eqn:E1.
  - destruct Inv as [[A B]|[A [B [C [D [E F]]]]]].
    + left. split; [exact A|]. intros y I. apply in_app_or in I. destruct I as [I|[I|[]]]; [apply B; exact I|subst; lia].
    + right. split; [exact A|]. split; [apply in_or_app; left; exact B|]. split; [exact C|]. split; [exact D|]. split; [exact E|].
      intros y I. apply in_app_or in I. destruct I as [I|[I|[]]]; [apply F; exact I|subst; lia].
  - set (s := aget 0 tgt x - aget 0 cur x).
    destruct ((ch =? 0) || (b <? s) || ((s =? b) && (aget 0 cur x <? bc))
              || ((s =? b) && (aget 0 cur x =? bc) && (x <? ch))) eqn:E2.
    + right. split; [exact Hx|]. split; [apply in_or_app; right; left; reflexivity|]. split; [lia|]. split; [reflexivity|].
      split; [reflexivity|]. intros y I. apply in_app_or in I. destruct I as [I|[I|[]]]; [|subst; unfold s; lia].
      destruct Inv as [[A B]|[A [B [C [D [E F]]]]]].
      * specialize (B y I). lia.
      * specialize (F y I). unfold s in *. lia.
    + destruct Inv as [[A B]|[A [B [C [D [E F]]]]]]; [subst ch; cbn in E2; discriminate|].
      right. split; [exact A|]. split; [apply in_or_app; left; exact B|]. split; [exact C|]. split; [exact D|]. split; [exact E|].
      intros y I. apply in_app_or in I. destruct I as [I|[I|[]]]; [apply F; exact I|]. subst y. unfold s in *. lia.
Qed.

Lemma select_smallest_spec cur tgt cands : ~ In 0 cands ->
  let d := select_smallest_deficit_slot cur tgt cands in
  (d = 0 /\ forall x, In x cands -> aget 0 tgt x <= aget 0 cur x) \/
  (d <> 0 /\ In d cands /\ aget 0 cur d < aget 0 tgt d
   /\ forall x, In x cands -> aget 0 tgt x - aget 0 cur x <= aget 0 tgt d - aget 0 cur d).
Proof.
  intro NZ. unfold select_smallest_deficit_slot.
  pose proof (sel_deficit_fold cur tgt cands [] (0, 0, 0) NZ) as H. cbn [app] in H.
  destruct (fold_left (sel_deficit_step cur tgt) cands (0, 0, 0)) as [[ch b] bc]. cbn [fst].
  destruct H as [[A B]|[A [B [C [D [E F]]]]]].
  - left. split; [reflexivity|intros x []].
  - left. split; [exact A|exact B].
  - right. split; [exact A|]. split; [exact B|]. split; [exact C|]. subst b. exact F.
Qed.

(* ---- transfer --------------------------------------------------------------------------- *)

Lemma transfer_get cur d r s : d <> r ->
  aget 0 (transfer cur d r) s =
  if s =? d then aget 0 cur d - 1 else if s =? r then aget 0 cur r + 1 else aget 0 cur s.
Proof.
  intro H. unfold transfer.
  destruct (s =? d) eqn:E1.
  - apply N.eqb_eq in E1. subst s. rewrite aget_aset_other by congruence. apply aget_aset_same.
  - apply N.eqb_neq in E1. destruct (s =? r) eqn:E2.
    + apply N.eqb_eq in E2. subst s. rewrite aget_aset_same, aget_aset_other by congruence. reflexivity.
    + apply N.eqb_neq in E2. rewrite !aget_aset_other by congruence. reflexivity.
Qed.

(* changing a function at one point of a duplicate-free list *)
Lemma sumf_upd f g a l : NoDup l -> In a l -> (forall s, s <> a -> g s = f s) ->
  sumf g l + f a = sumf f l + g a.
Proof.
  induction l as [|x l IH]; intros ND I H; [destruct I|]. inversion ND; subst. rewrite !sumf_cons.
  destruct I as [I|I].
  - subst x. rewrite (sumf_ext g f l); [lia|]. intros y Iy. apply H. intro; subst; contradiction.
  - rewrite (H x) by (intro; subst; contradiction). specialize (IH H3 I H). lia.
Qed.

Lemma sumf_transfer cur d r l : NoDup l -> In d l -> In r l -> d <> r -> 1 <= aget 0 cur d ->
  sumf (aget 0 (transfer cur d r)) l = sumf (aget 0 cur) l.
Proof.
  intros ND Id Ir D L.
  set (g1 := fun s => if s =? d then aget 0 cur d - 1 else aget 0 cur s).
  assert (E : forall s, aget 0 (transfer cur d r) s = if s =? r then g1 r + 1 else g1 s).
  { intro s. rewrite transfer_get by exact D. unfold g1. destruct (s =? d) eqn:E1; destruct (s =? r) eqn:E2; try reflexivity.
    - apply N.eqb_eq in E1, E2. congruence.
    - apply N.eqb_eq in E2. subst s. rewrite E1. reflexivity. }
  rewrite (sumf_ext _ _ l (fun s _ => E s)).
  pose proof (sumf_upd g1 (fun s => if s =? r then g1 r + 1 else g1 s) r l ND Ir) as U1.
  cbn beta in U1. rewrite N.eqb_refl in U1.
  assert (forall s, s <> r -> (if s =? r then g1 r + 1 else g1 s) = g1 s) as Q1.
  { intros s Hs. apply N.eqb_neq in Hs. rewrite Hs. reflexivity. }
  specialize (U1 Q1).
  pose proof (sumf_upd (aget 0 cur) g1 d l ND Id) as U2.
  assert (forall s, s <> d -> g1 s = aget 0 cur s) as Q2.
  { intros s Hs. unfold g1. apply N.eqb_neq in Hs. rewrite Hs. reflexivity. }
  specialize (U2 Q2). unfold g1 in U2 at 2. rewrite N.eqb_refl in U2. lia.
Qed.

(* ---- the structure of a plan and the holdings after applying it -------------------------- *)

Definition owned_ok (assign : list N) (owned : list (N * list N)) : Prop :=
  forall s, NoDup (aget [] owned s) /\
            forall hs, In hs (aget [] owned s) ->
                       (N.to_nat hs < length assign)%nat /\ nth (N.to_nat hs) assign 0 = s.

Definition tracks (assign : list N) (cur : list (N * N)) (dom : list N) : Prop :=
  forall s, In s dom -> aget 0 cur s = cnt assign s.

Definition choose_ok (choose : list (N * N) -> option (N * N)) (dom : list N) : Prop :=
  forall cur d r, choose cur = Some (d, r) ->
    d <> r /\ In d dom /\ In r dom /\ 1 <= aget 0 cur d /\ r <> 0.

Definition move_ok (assign : list N) (dom : list N) (m : move) : Prop :=
  (N.to_nat (mv_hs m) < length assign)%nat /\ nth (N.to_nat (mv_hs m)) assign 0 = mv_from m
  /\ mv_to m <> mv_from m /\ mv_to m <> 0 /\ In (mv_from m) dom /\ In (mv_to m) dom.

Lemma apply_moves_cons m p a : apply_moves (m :: p) a = apply_moves p (set_nth (N.to_nat (mv_hs m)) (mv_to m) a).
Proof. reflexivity. Qed.

Lemma loop_struct choose dom : choose_ok choose dom -> forall fuel cur owned assign,
  owned_ok assign owned -> tracks assign cur dom ->
  Forall (move_ok assign dom) (fst (transfer_loop fuel choose cur owned))
  /\ NoDup (map mv_hs (fst (transfer_loop fuel choose cur owned)))
  /\ (forall m, In m (fst (transfer_loop fuel choose cur owned)) -> In (mv_hs m) (aget [] owned (mv_from m)))
  /\ tracks (apply_moves (fst (transfer_loop fuel choose cur owned)) assign)
            (snd (transfer_loop fuel choose cur owned)) dom.
Proof.
  intro CO. induction fuel as [|f IH]; intros cur owned assign OK TR; cbn [transfer_loop].
  - cbn [fst snd]. split; [constructor|]. split; [constructor|]. split; [intros m []|exact TR].
  - destruct (choose cur) as [[d r]|] eqn:CH.
    2:{ cbn [fst snd]. split; [constructor|]. split; [constructor|]. split; [intros m []|exact TR]. }
    destruct (CO cur d r CH) as [Ddr [Id [Ir [L1 Rnz]]]].
    unfold pop_owned_hash_slot. destruct (aget [] owned d) as [|hs rest] eqn:OD.
    { cbn [fst snd]. split; [constructor|]. split; [constructor|]. split; [intros m []|exact TR]. }
    set (owned' := aset owned d rest). set (cur' := transfer cur d r).
    set (assign' := set_nth (N.to_nat hs) r assign).
    destruct (OK d) as [NDd INd]. rewrite OD in NDd, INd.
    destruct (INd hs (or_introl eq_refl)) as [Lhs Nhs].
    assert (SUB : forall s x, In x (aget [] owned' s) -> In x (aget [] owned s) /\ x <> hs).
    { intros s x I. unfold owned' in I. destruct (N.eq_dec d s) as [Q|Q].
      - subst s. rewrite aget_aset_same in I. rewrite OD. split; [right; exact I|].
        inversion NDd; subst. intro; subst; contradiction.
      - rewrite aget_aset_other in I by exact Q. split; [exact I|]. intro; subst x.
        destruct (OK s) as [_ INs]. destruct (INs hs I) as [_ Q2]. congruence. }
    assert (OK' : owned_ok assign' owned').
    { intro s. split.
      - unfold owned'. destruct (N.eq_dec d s) as [Q|Q].
        + subst s. rewrite aget_aset_same. inversion NDd; assumption.
        + rewrite aget_aset_other by exact Q. apply (OK s).
      - intros x I. destruct (SUB s x I) as [I0 Nx]. destruct (OK s) as [_ INs]. destruct (INs x I0) as [Lx Nthx].
        unfold assign'. rewrite set_nth_length. split; [exact Lx|].
        rewrite nth_set_nth_other by (intro Q; apply Nx; lia). exact Nthx. }
    assert (TR' : tracks assign' cur' dom).
    { intros s Is. unfold cur'. rewrite transfer_get by exact Ddr.
      destruct (cnt_set_nth assign (N.to_nat hs) d r Lhs Nhs Ddr) as [A [B C]]. fold assign' in A, B, C.
      destruct (s =? d) eqn:E1.
      - apply N.eqb_eq in E1. subst s. rewrite (TR d Id). lia.
      - apply N.eqb_neq in E1. destruct (s =? r) eqn:E2.
        + apply N.eqb_eq in E2. subst s. rewrite (TR r Ir). lia.
        + apply N.eqb_neq in E2. rewrite (C s E1 E2). apply TR. exact Is. }
    specialize (IH cur' owned' assign' OK' TR').
    destruct (transfer_loop f choose cur' owned') as [p c] eqn:REC. cbn [fst snd] in *.
    destruct IH as [F [ND [INO TRF]]].
    assert (NH : forall m, In m p -> mv_hs m <> hs).
    { intros m Im. destruct (SUB _ _ (INO m Im)) as [_ Q]. exact Q. }
    split; [|split; [|split]].
    + constructor.
      * unfold move_ok. cbn [mv_hs mv_from mv_to]. repeat split; try assumption; congruence.
      * apply Forall_forall. intros m Im. rewrite Forall_forall in F. destruct (F m Im) as [A [B [C [D [E G]]]]].
        unfold assign' in A, B. rewrite set_nth_length in A.
        rewrite nth_set_nth_other in B by (intro Q; apply (NH m Im); lia).
        unfold move_ok. repeat split; assumption.
    + cbn [map mv_hs]. constructor; [|exact ND]. intro I. apply in_map_iff in I. destruct I as [m [Q Im]].
      apply (NH m Im). exact Q.
    + intros m [Q|Im].
      * subst m. cbn [mv_hs mv_from]. rewrite OD. left. reflexivity.
      * destruct (SUB _ _ (INO m Im)) as [Q _]. exact Q.
    + rewrite apply_moves_cons. cbn [mv_hs mv_to]. exact TRF.
Qed.

Lemma nodupb_iff l : nodupb l = true <-> NoDup l.
Proof.
  induction l as [|x l IH]; cbn [nodupb]; [split; [constructor|reflexivity]|].
  rewrite andb_true_iff, negb_true_iff, mem_false, IH. split.
  - intros [A B]. constructor; assumption.
  - intro H. inversion H; subst. split; assumption.
Qed.

Lemma moves_ok_of t p dom : wf t -> Forall (move_ok (t_assign t) dom) p -> NoDup (map mv_hs p) ->
  moves_ok t p = true.
Proof.
  intros W F ND. unfold moves_ok. apply andb_true_iff. split; [apply nodupb_iff; exact ND|].
  apply forallb_forall. intros m Im. rewrite Forall_forall in F. destruct (F m Im) as [A [B [C _]]].
  unfold wf in W. rewrite !andb_true_iff. split; [split|].
  - apply N.ltb_lt. lia.
  - apply N.eqb_eq. exact B.
  - apply negb_true_iff, N.eqb_neq. exact C.
Qed.

(* ---- the loop on [current] alone, its invariants and its exit ------------------------------ *)

Fixpoint cur_loop (fuel : nat) (choose : list (N * N) -> option (N * N)) (cur : list (N * N)) : list (N * N) :=
  match fuel with
  | O => cur
  | S f => match choose cur with
           | None => cur
           | Some (d, r) => cur_loop f choose (transfer cur d r)
           end
  end.

(* popOwnedHashSlot never fails as long as the potential donors (P) own as many
   hash slots as [current] says *)
Lemma loop_cur choose (P : list (N * N) -> N -> Prop) :
  (forall cur d r, choose cur = Some (d, r) -> P cur d /\ 1 <= aget 0 cur d /\ d <> r) ->
  (forall cur d r s, choose cur = Some (d, r) -> P (transfer cur d r) s -> P cur s /\ s <> r) ->
  forall fuel cur owned,
    (forall s, P cur s -> N.of_nat (length (aget [] owned s)) = aget 0 cur s) ->
    snd (transfer_loop fuel choose cur owned) = cur_loop fuel choose cur.
Proof.
  intros H1 H2. induction fuel as [|f IH]; intros cur owned J; cbn [transfer_loop cur_loop]; [reflexivity|].
  destruct (choose cur) as [[d r]|] eqn:CH; [|reflexivity].
  destruct (H1 cur d r CH) as [Pd [L D]].
  unfold pop_owned_hash_slot. pose proof (J d Pd) as Jd.
  destruct (aget [] owned d) as [|hs rest] eqn:OD; [cbn [length] in Jd; lia|].
  specialize (IH (transfer cur d r) (aset owned d rest)).
  destruct (transfer_loop f choose (transfer cur d r) (aset owned d rest)) as [p c]. cbn [snd] in *.
  apply IH. intros s Ps. destruct (H2 cur d r s CH Ps) as [Ps0 Nr].
  rewrite transfer_get by exact D. destruct (N.eq_dec d s) as [Q|Q].
  - subst s. rewrite aget_aset_same, N.eqb_refl. cbn [length] in Jd. lia.
  - rewrite aget_aset_other by exact Q.
    assert (E1 : (s =? d) = false) by (apply N.eqb_neq; congruence).
    assert (E2 : (s =? r) = false) by (apply N.eqb_neq; exact Nr).
    rewrite E1, E2. apply J. exact Ps0.
Qed.

Lemma cur_loop_inv choose (I : list (N * N) -> Prop) :
  (forall cur d r, I cur -> choose cur = Some (d, r) -> I (transfer cur d r)) ->
  forall fuel cur, I cur -> I (cur_loop fuel choose cur).
Proof.
  intro H. induction fuel as [|f IH]; intros cur Ic; cbn [cur_loop]; [exact Ic|].
  destruct (choose cur) as [[d r]|] eqn:CH; [|exact Ic]. apply IH. apply (H cur d r Ic CH).
Qed.

Lemma cur_loop_exit choose (I : list (N * N) -> Prop) (mu : list (N * N) -> N) :
  (forall cur d r, I cur -> choose cur = Some (d, r) ->
                   I (transfer cur d r) /\ mu (transfer cur d r) < mu cur) ->
  forall fuel cur, I cur -> mu cur < N.of_nat fuel -> choose (cur_loop fuel choose cur) = None.
Proof.
  intro H. induction fuel as [|f IH]; intros cur Ic L; [lia|]. cbn [cur_loop].
  destruct (choose cur) as [[d r]|] eqn:CH; [|exact CH].
  destruct (H cur d r Ic CH) as [I' M]. apply IH; [exact I'|lia].
Qed.

(* ---- the initial [owned] / [current] maps ------------------------------------------------------ *)

Lemma slot_hash_slots_ok t slots : owned_ok (t_assign t) (slot_hash_slots t slots).
Proof.
  intro s. rewrite slot_hash_slots_get. destruct (mem s slots).
  - split.
    + apply NoDup_rev. unfold hash_slots_of. apply indices_of_nodup.
    + intros hs I. apply in_rev in I. unfold hash_slots_of in I. apply in_indices_of in I.
      rewrite N.sub_0_r in I. destruct I as [_ [A B]]. split; [lia|exact B].
  - split; [constructor|intros hs []].
Qed.

Lemma slot_hash_slots_len t slots s : In s slots ->
  N.of_nat (length (aget [] (slot_hash_slots t slots) s)) = cnt (t_assign t) s.
Proof.
  intro I. rewrite slot_hash_slots_get. assert (M : mem s slots = true) by (apply mem_iff; exact I). rewrite M.
  rewrite rev_length. unfold hash_slots_of. apply indices_of_length.
Qed.

Lemma slot_counts_tracks t slots : tracks (t_assign t) (slot_counts t slots) slots.
Proof. intros s I. apply slot_counts_get. exact I. Qed.

Lemma slot_counts_out t slots s : ~ In s slots -> aget 0 (slot_counts t slots) s = 0.
Proof.
  intro I. unfold slot_counts. rewrite slot_counts_spec. apply mem_false in I. rewrite I. reflexivity.
Qed.

(* all hash slots of a table without unassigned entries belong to its active slots *)
Lemma assign_in_active t : Forall (fun s => s <> 0) (t_assign t) ->
  forall x, In x (t_assign t) -> In x (active_slot_ids t).
Proof.
  intros NZ x I. apply in_active. split; [|exact I]. rewrite Forall_forall in NZ. apply NZ. exact I.
Qed.
