(* Proof/WorkQueue_worker.v — BoundedWorkerQueue: invariant over ALL interleavings
   of the atomic steps, and the C37 monitor is 0 on every history of the model. *)
From WK Require Import Base.Base Model.WorkQueue Model.WorkQueue_worker Proof.WorkQueue.
Open Scope N_scope.

Section WorkerProof.
Variable cf : cfg.

Notation w_step := (w_step cf).
Notation w_run := (w_run cf).
Notation w_hist := (w_hist cf).

Definition pc_task (p : wpc) : option (N * N) :=
  match p with
  | WIdle => None
  | WLock x st _ | WPark x st | WLock2 x st => Some (x, st)
  end.

Definition k_held (k : kpc) : option N :=
  match k with KGot x _ | KRun x _ _ => Some x | _ => None end.

Definition needs_closed (k : kpc) : bool :=
  match k with
  | KGot _ dr | KRun _ _ dr => dr
  | KDrain | KExit => true
  | KIdle => false
  end.

Definition ran (s : wstate) : list N := map r_task (w_runs s).
Definition okset (subs : list sub) (x : N) : Prop :=
  exists sb, In sb subs /\ s_task sb = x /\ s_res sb = ROk.
Definition held_by (s : wstate) (x : N) : Prop := exists i, k_held (w_k s i) = Some x.

Definition close_inv (b : N) (s : wstate) : Prop :=
  match w_close s with
  | CIdle => w_closed s = false /\ w_clos s = []
  | CStart cb => w_closed s = false /\ w_clos s = [] /\ cb <= b
  | CMid _ => False
  | CWait cb => w_closed s = true /\ w_clos s = [] /\ cb <= b
  | CDone => w_closed s = true /\ w_queue s = [] /\ all_exited (w_wk s) = true
             /\ exists cb ce, w_clos s = [Clo cb ce true] /\ cb < ce /\ ce <= b
                              /\ forall r, In r (w_runs s) -> r_e r < ce
  end.

Record WInvB (b : N) (s : wstate) : Prop := {
  i_subs : forall sb, In sb (w_subs s) -> s_task sb <= b /\ s_b sb < s_e sb /\ s_e sb <= b /\ s_shard sb = 0;
  i_subs_nd : NoDup (map s_task (w_subs s));
  i_pcs : forall t x st, pc_task (w_pc s t) = Some (x, st) ->
            x <= b /\ st <= b /\ ~ In x (map s_task (w_subs s));
  i_pcs_d : forall t t' x st x' st', t <> t' -> pc_task (w_pc s t) = Some (x, st) ->
            pc_task (w_pc s t') = Some (x', st') -> x <> x';
  i_runs : forall r, In r (w_runs s) -> r_b r < r_e r /\ r_e r <= b /\ r_pos r = 0;
  i_krun : forall i x rb dr, w_k s i = KRun x rb dr -> rb <= b;
  i_nd : NoDup (w_queue s ++ ran s);
  i_held : forall i x, k_held (w_k s i) = Some x -> ~ In x (w_queue s ++ ran s);
  i_held_d : forall i j x y, i <> j -> k_held (w_k s i) = Some x -> k_held (w_k s j) = Some y -> x <> y;
  i_pl_ok : forall x, In x (w_queue s ++ ran s) \/ held_by s x -> okset (w_subs s) x;
  i_ok_pl : forall x, okset (w_subs s) x -> In x (w_queue s ++ ran s) \/ held_by s x;
  i_drc : forall i, needs_closed (w_k s i) = true -> w_closed s = true;
  i_exit : forall i, w_k s i = KExit -> w_queue s = [];
  i_close : close_inv b s;
  i_wk : w_wk s <> [] }.

Definition WInv (s : wstate) : Prop := WInvB (w_now s) s.

(* ---- small facts --------------------------------------------------------------------- *)

Lemma okset_cons_notok sb subs x : s_res sb <> ROk -> (okset (sb :: subs) x <-> okset subs x).
Proof.
  intro H. split.
  - intros (s0 & [<-|Hin] & E1 & E2); [contradiction|]. exists s0. auto.
  - intros (s0 & Hin & E). exists s0. split; [right; exact Hin|exact E].
Qed.

Lemma okset_cons_ok x0 sh st e subs x :
  okset (Sub x0 sh st e ROk :: subs) x <-> x = x0 \/ okset subs x.
Proof.
  split.
  - intros (s0 & [<-|Hin] & E1 & E2); [left; symmetry; exact E1|right; exists s0; auto].
  - intros [->|(s0 & Hin & E)].
    + eexists. split; [left; reflexivity|split; reflexivity].
    + exists s0. split; [right; exact Hin|exact E].
Qed.

Lemma okset_in subs x : okset subs x -> In x (map s_task subs).
Proof. intros (s0 & Hin & E & _). rewrite <- E. apply in_map. exact Hin. Qed.

Lemma all_exited_nth l : all_exited l = true -> forall i, nth i l KIdle = KExit \/ nth i l KIdle = KIdle.
Proof.
  intros H i. destruct (nth_In_or_default i l KIdle) as [Hin|E]; [|right; exact E].
  unfold all_exited in H. rewrite forallb_forall in H. specialize (H _ Hin).
  destruct (nth i l KIdle); try discriminate. left; reflexivity.
Qed.

Lemma all_exited_ex l i : (i < length l)%nat -> nth i l KIdle <> KExit -> all_exited l = false.
Proof.
  intros Hi Hne. apply not_true_is_false. intro H. unfold all_exited in H. rewrite forallb_forall in H.
  specialize (H _ (nth_In l KIdle Hi)). destruct (nth i l KIdle); try discriminate. apply Hne. reflexivity.
Qed.

(* ---- preservation ------------------------------------------------------------------------ *)

Lemma inv_mono b b' s : b <= b' -> WInvB b s -> WInvB b' s.
Proof.
  intros Hb [H1 H2 H3 H4 H5 H6 H7 H8 H9 H10 H11 H12 H13 H14 H15]. constructor; auto.
  - intros sb Hsb. destruct (H1 sb Hsb) as (A & B & C & D). repeat split; auto; lia.
  - intros t x st E. destruct (H3 t x st E) as (A & B & C). repeat split; auto; lia.
  - intros r Hr. destruct (H5 r Hr) as (A & B & C). repeat split; auto; lia.
  - intros i x rb dr E. specialize (H6 i x rb dr E). lia.
  - unfold close_inv in *. destruct (w_close s); auto.
    + destruct H14 as (A & B & C). repeat split; auto; lia.
    + destruct H14 as (A & B & C). repeat split; auto; lia.
    + destruct H14 as (A & B & C & cb & ce & D & E & F & G). repeat split; auto.
      exists cb, ce. repeat split; auto; lia.
Qed.

Lemma inv_tick s : WInv s -> WInvB (w_now s) (w_tick s).
Proof. intros [H1 H2 H3 H4 H5 H6 H7 H8 H9 H10 H11 H12 H13 H14 H15]. constructor; auto. Qed.

(* In the lemmas below the state is the one after the tick: everything recorded so
   far is bounded by b < now. *)

Ltac prj := cbn [w_now w_closed w_slots w_queue w_pcs w_wk w_close w_subs w_runs w_clos
                 w_pc w_k w_set_pc w_set_k w_with w_ret w_set_close ran held_by close_inv
                 s_task s_shard s_b s_e s_res r_task r_b r_e r_pos map] in *.

Ltac unf := unfold ran, held_by, close_inv in *; unfold w_set_pc, w_set_k, w_with, w_ret, w_set_close in *; unfold w_pc, w_k in *; prj.

(* T1: a thread calls Submit *)
Lemma inv_call b s t wait : WInvB b s -> b < w_now s -> w_pc s t = WIdle ->
  WInv (w_set_pc s t (WLock (w_now s) (w_now s) wait)).
Proof.
  intros HI Hb Hpc. pose proof (inv_mono b (w_now s) s ltac:(lia) HI) as HM.
  destruct HI as [H1 _ H3 _ _ _ _ _ _ _ _ _ _ _ _].
  destruct HM as [M1 M2 M3 M4 M5 M6 M7 M8 M9 M10 M11 M12 M13 M14 M15].
  destruct s as [now closed slots queue pcs wk close subs runs clos]. unfold WInv. unf.
  constructor; unf; auto.
  - intros t0 x st. rewrite nth_set_nth. destruct (Nat.eqb_spec t t0) as [->|Hne]; [|apply M3].
    cbn [pc_task]. intro E. inversion E; subst. repeat split; try lia.
    intro Hin. apply in_map_iff in Hin. destruct Hin as (sb & Es & Hin).
    destruct (H1 sb Hin) as (A & _). lia.
  - intros t0 t' x st x' st' Hne. rewrite !nth_set_nth.
    destruct (Nat.eqb_spec t t0) as [E0|N0]; destruct (Nat.eqb_spec t t') as [E1|N1]; try congruence; try subst t0; try subst t'.
    + cbn [pc_task]. intros E E'. inversion E; subst. destruct (H3 _ _ _ E') as (A & _). lia.
    + cbn [pc_task]. intros E E'. inversion E'; subst. destruct (H3 _ _ _ E) as (A & _). lia.
    + apply M4. exact Hne.
Qed.

(* T4: a thread moves to another pc with the same task *)
Lemma inv_pc_same b s t p : WInvB b s -> pc_task p = pc_task (w_pc s t) -> forall sl,
  WInvB b (w_set_pc (w_with s sl (w_queue s)) t p).
Proof.
  intros [M1 M2 M3 M4 M5 M6 M7 M8 M9 M10 M11 M12 M13 M14 M15] Hp sl.
  destruct s as [now closed slots queue pcs wk close subs runs clos]. unf.
  constructor; unf; auto.
  - intros t0 x st. rewrite nth_set_nth. destruct (Nat.eqb_spec t t0) as [->|Hne]; [|apply M3].
    rewrite Hp. apply M3.
  - intros t0 t' x st x' st' Hne. rewrite !nth_set_nth.
    destruct (Nat.eqb_spec t t0) as [E0|N0]; destruct (Nat.eqb_spec t t') as [E1|N1]; try congruence; try subst t0; try subst t'.
    + rewrite Hp. apply M4. exact Hne.
    + rewrite Hp. apply M4. exact Hne.
    + apply M4. exact Hne.
Qed.

(* T2: Submit returns a rejection *)
Lemma inv_ret_rej b s t x st r sl : WInvB b s -> b < w_now s -> pc_task (w_pc s t) = Some (x, st) ->
  r <> ROk -> WInv (w_ret (w_with s sl (w_queue s)) t x st r).
Proof.
  intros HI Hb Hpc Hr. pose proof (inv_mono b (w_now s) s ltac:(lia) HI) as HM.
  destruct HI as [_ _ H3 _ _ _ _ _ _ _ _ _ _ _ _].
  destruct HM as [M1 M2 M3 M4 M5 M6 M7 M8 M9 M10 M11 M12 M13 M14 M15].
  destruct s as [now closed slots queue pcs wk close subs runs clos]. unfold WInv. unf.
  destruct (H3 _ _ _ Hpc) as (Hx & Hst & Hfresh).
  constructor; unf; auto.
  - intros sb [<-|Hin]; [|apply M1; exact Hin]. prj. repeat split; try lia.
  - constructor; [exact Hfresh|exact M2].
  - intros t0 x0 st0. rewrite nth_set_nth. destruct (Nat.eqb_spec t t0) as [->|Hne]; [discriminate|].
    intro E. destruct (M3 _ _ _ E) as (A & B & C). repeat split; auto.
    intros [E0|Hin]; [|apply C; exact Hin]. subst x0. apply (M4 t t0 x st x st0 Hne Hpc E). reflexivity.
  - intros t0 t' x0 st0 x' st' Hne. rewrite !nth_set_nth.
    destruct (Nat.eqb_spec t t0) as [E0|N0]; destruct (Nat.eqb_spec t t') as [E1|N1]; try discriminate.
    apply M4. exact Hne.
  - intros x0 Hx0. apply okset_cons_notok; [exact Hr|]. apply M10. exact Hx0.
  - intros x0 Hx0. apply okset_cons_notok in Hx0; [|exact Hr]. apply M11. exact Hx0.
Qed.

(* T3: Submit enqueues and returns nil *)
Lemma inv_ret_ok b s t x st sl : WInvB b s -> b < w_now s -> pc_task (w_pc s t) = Some (x, st) ->
  w_closed s = false -> WInv (w_ret (w_with s sl (w_queue s ++ [x])) t x st ROk).
Proof.
  intros HI Hb Hpc Hcl. pose proof (inv_mono b (w_now s) s ltac:(lia) HI) as HM.
  destruct HI as [_ _ H3 _ _ _ _ _ _ _ _ _ _ _ _].
  destruct HM as [M1 M2 M3 M4 M5 M6 M7 M8 M9 M10 M11 M12 M13 M14 M15].
  destruct s as [now closed slots queue pcs wk close subs runs clos]. unfold WInv. unf.
  destruct (H3 _ _ _ Hpc) as (Hx & Hst & Hfresh).
  assert (Hnew : ~ In x (queue ++ map r_task runs) /\ ~ (exists i, k_held (nth i wk KIdle) = Some x)).
  { split; intro Hin; apply Hfresh; apply okset_in; apply M10; [left|right]; exact Hin. }
  destruct Hnew as [Hnq Hnh].
  constructor; unf; auto.
  - intros sb [<-|Hin]; [|apply M1; exact Hin]. prj. repeat split; try lia.
  - constructor; [exact Hfresh|exact M2].
  - intros t0 x0 st0. rewrite nth_set_nth. destruct (Nat.eqb_spec t t0) as [->|Hne]; [discriminate|].
    intro E. destruct (M3 _ _ _ E) as (A & B & C). repeat split; auto.
    intros [E0|Hin]; [|apply C; exact Hin]. subst x0. apply (M4 t t0 x st x st0 Hne Hpc E). reflexivity.
  - intros t0 t' x0 st0 x' st' Hne. rewrite !nth_set_nth.
    destruct (Nat.eqb_spec t t0) as [E0|N0]; destruct (Nat.eqb_spec t t') as [E1|N1]; try discriminate.
    apply M4. exact Hne.
  - rewrite <- app_assoc. cbn [app]. apply NoDup_insert; [exact M7|exact Hnq].
  - intros i x0 E Hin. rewrite <- app_assoc in Hin. cbn [app] in Hin.
    apply in_app_or in Hin. destruct Hin as [Hin|[E0|Hin]].
    + apply (M8 i x0 E). apply in_or_app. left; exact Hin.
    + subst x0. apply Hnh. exists i. exact E.
    + apply (M8 i x0 E). apply in_or_app. right; exact Hin.
  - intros x0 Hx0. apply okset_cons_ok. destruct Hx0 as [Hin|Hh].
    + rewrite <- app_assoc in Hin. cbn [app] in Hin. apply in_app_or in Hin. destruct Hin as [Hin|[E0|Hin]].
      * right. apply M10. left. apply in_or_app. left; exact Hin.
      * left. symmetry; exact E0.
      * right. apply M10. left. apply in_or_app. right; exact Hin.
    + right. apply M10. right. exact Hh.
  - intros x0 Hx0. apply okset_cons_ok in Hx0. rewrite <- app_assoc. cbn [app]. destruct Hx0 as [->|Hx0].
    + left. apply in_or_app. right. left. reflexivity.
    + destruct (M11 x0 Hx0) as [Hin|Hh]; [|right; exact Hh]. left.
      apply in_app_or in Hin. apply in_or_app. destruct Hin; [left|right; right]; assumption.
  - intros i E. specialize (M13 i E). subst queue.
    specialize (M12 i). rewrite E in M12. specialize (M12 eq_refl). congruence.
  - destruct close; auto; try (destruct M14 as (A & _); congruence).
Qed.

Lemma set_nth_ne {A} i (x d : A) l : set_nth i x d l <> [].
Proof. destruct i, l; cbn [set_nth]; discriminate. Qed.

(* a worker changes its pc without touching queue or records *)
Lemma inv_k_upd b s i k sl : WInvB b s -> (i < length (w_wk s))%nat -> w_k s i <> KExit ->
  k_held k = k_held (w_k s i) -> (needs_closed k = true -> w_closed s = true) ->
  (k = KExit -> w_queue s = []) -> (forall x rb dr, k = KRun x rb dr -> rb <= b) ->
  WInvB b (w_set_k (w_with s sl (w_queue s)) i k).
Proof.
  intros [M1 M2 M3 M4 M5 M6 M7 M8 M9 M10 M11 M12 M13 M14 M15] Hi Hne Hh Hc He Hr.
  destruct s as [now closed slots queue pcs wk close subs runs clos]. unf.
  constructor; unf; auto.
  - intros j x rb dr. rewrite nth_set_nth. destruct (Nat.eqb_spec i j) as [E|N0]; [apply Hr|apply M6].
  - intros j x. rewrite nth_set_nth. destruct (Nat.eqb_spec i j) as [E|N0]; [subst j; rewrite Hh|]; apply M8.
  - intros j j' x y Hjj. rewrite !nth_set_nth.
    destruct (Nat.eqb_spec i j) as [E0|N0]; destruct (Nat.eqb_spec i j') as [E1|N1]; try congruence;
      try subst j; try subst j'; try rewrite Hh; apply M9; exact Hjj.
  - intros x [Hin|(j & Hj)]; apply M10; [left; exact Hin|right].
    rewrite nth_set_nth in Hj. destruct (Nat.eqb_spec i j) as [E|N0]; [exists i; rewrite <- Hh; exact Hj|exists j; exact Hj].
  - intros x Hx. destruct (M11 x Hx) as [Hin|(j & Hj)]; [left; exact Hin|right].
    exists j. rewrite nth_set_nth. destruct (Nat.eqb_spec i j) as [E|N0]; [subst j; rewrite Hh|]; exact Hj.
  - intros j. rewrite nth_set_nth. destruct (Nat.eqb_spec i j) as [E|N0]; [exact Hc|apply M12].
  - intros j. rewrite nth_set_nth. destruct (Nat.eqb_spec i j) as [E|N0]; [exact He|apply M13].
  - destruct close; auto. destruct M14 as (_ & _ & A & _).
    rewrite (all_exited_ex wk i Hi Hne) in A. discriminate.
  - apply set_nth_ne.
Qed.

(* T5: a worker receives the oldest queued item *)
Lemma inv_k_pop b s i x r dr : WInvB b s -> w_queue s = x :: r -> k_held (w_k s i) = None ->
  (dr = true -> w_closed s = true) ->
  WInvB b (w_set_k (w_with s (w_slots s) r) i (KGot x dr)).
Proof.
  intros [M1 M2 M3 M4 M5 M6 M7 M8 M9 M10 M11 M12 M13 M14 M15] Hq Hh Hc.
  destruct s as [now closed slots queue pcs wk close subs runs clos]. unf. subst queue.
  cbn [app] in *. pose proof (NoDup_cons_iff x (r ++ map r_task runs)) as [Hnd _]. specialize (Hnd M7).
  destruct Hnd as [Hx Hnd].
  constructor; unf; auto.
  - intros j x0 rb dr0. rewrite nth_set_nth. destruct (Nat.eqb_spec i j) as [E|N0]; [discriminate|apply M6].
  - intros j x0. rewrite nth_set_nth. destruct (Nat.eqb_spec i j) as [E|N0].
    + cbn [k_held]. intro E0. inversion E0; subst. exact Hx.
    + intros E0 Hin. apply (M8 j x0 E0). right. exact Hin.
  - intros j j' x0 y Hjj. rewrite !nth_set_nth.
    destruct (Nat.eqb_spec i j) as [E0|N0]; destruct (Nat.eqb_spec i j') as [E1|N1]; try congruence.
    + cbn [k_held]. intros E E'. inversion E; subst. intro Exy. subst y. apply (M8 j' x0 E'). left; reflexivity.
    + cbn [k_held]. intros E E'. inversion E'; subst. intro Exy. subst x0. apply (M8 j y E). left; reflexivity.
    + apply M9. exact Hjj.
  - intros x0 [Hin|(j & Hj)]; apply M10.
    + left. right. exact Hin.
    + rewrite nth_set_nth in Hj. destruct (Nat.eqb_spec i j) as [E|N0].
      * cbn [k_held] in Hj. inversion Hj; subst. left. left. reflexivity.
      * right. exists j. exact Hj.
  - intros x0 Hx0. destruct (M11 x0 Hx0) as [[E|Hin]|(j & Hj)].
    + subst x0. right. exists i. rewrite nth_set_nth, Nat.eqb_refl. reflexivity.
    + left. exact Hin.
    + right. exists j. rewrite nth_set_nth. destruct (Nat.eqb_spec i j) as [E|N0]; [subst j; congruence|exact Hj].
  - intros j. rewrite nth_set_nth. destruct (Nat.eqb_spec i j) as [E|N0]; [exact Hc|apply M12].
  - intros j. rewrite nth_set_nth. destruct (Nat.eqb_spec i j) as [E|N0]; [discriminate|].
    intro E. specialize (M13 j E). discriminate.
  - destruct close; auto. destruct M14 as (_ & A & _). discriminate.
  - apply set_nth_ne.
Qed.

(* T7: a handler returns *)
Lemma inv_k_done b s i x rb dr : WInvB b s -> b < w_now s -> w_k s i = KRun x rb dr ->
  (i < length (w_wk s))%nat ->
  let s' := w_set_k s i (if dr then KDrain else KIdle) in
  WInv (WSt (w_now s') (w_closed s') (w_slots s') (w_queue s') (w_pcs s') (w_wk s') (w_close s')
            (w_subs s') (Run x 0 rb (w_now s) 0 :: w_runs s') (w_clos s')).
Proof.
  intros HI Hb Hk Hi. pose proof (inv_mono b (w_now s) s ltac:(lia) HI) as HM.
  destruct HI as [_ _ _ _ _ H6 _ _ _ _ _ _ _ _ _].
  destruct HM as [M1 M2 M3 M4 M5 M6 M7 M8 M9 M10 M11 M12 M13 M14 M15].
  destruct s as [now closed slots queue pcs wk close subs runs clos]. unfold WInv. unf.
  specialize (H6 _ _ _ _ Hk).
  assert (Hhx : k_held (nth i wk KIdle) = Some x) by (rewrite Hk; reflexivity).
  assert (Hnew : k_held (if dr then KDrain else KIdle) = None) by (destruct dr; reflexivity).
  constructor; unf; auto.
  - intros r [<-|Hr]; [prj; repeat split; lia|apply M5; exact Hr].
  - intros j x0 rb0 dr0. rewrite nth_set_nth. destruct (Nat.eqb_spec i j) as [E|N0]; [destruct dr; discriminate|apply M6].
  - apply NoDup_insert; [exact M7|apply (M8 i x Hhx)].
  - intros j x0. rewrite nth_set_nth. destruct (Nat.eqb_spec i j) as [E|N0]; [rewrite Hnew; intro E9; discriminate E9|].
    intros E Hin. apply in_app_or in Hin. destruct Hin as [Hin|[E0|Hin]].
    + apply (M8 j x0 E). apply in_or_app. left; exact Hin.
    + subst x0. apply (M9 i j x x N0 Hhx E). reflexivity.
    + apply (M8 j x0 E). apply in_or_app. right; exact Hin.
  - intros j j' x0 y Hjj. rewrite !nth_set_nth.
    destruct (Nat.eqb_spec i j) as [E0|N0]; destruct (Nat.eqb_spec i j') as [E1|N1]; try congruence; cbv iota.
    apply M9. exact Hjj.
  - intros x0 [Hin|(j & Hj)]; apply M10.
    + apply in_app_or in Hin. destruct Hin as [Hin|[E0|Hin]].
      * left. apply in_or_app. left; exact Hin.
      * subst x0. right. exists i. exact Hhx.
      * left. apply in_or_app. right; exact Hin.
    + rewrite nth_set_nth in Hj. destruct (Nat.eqb_spec i j) as [E|N0]; [rewrite Hnew in Hj; discriminate|].
      right. exists j. exact Hj.
  - intros x0 Hx0. destruct (M11 x0 Hx0) as [Hin|(j & Hj)].
    + left. apply in_app_or in Hin. apply in_or_app. destruct Hin; [left|right; right]; assumption.
    + destruct (Nat.eqb_spec i j) as [E|N0].
      * subst j. rewrite Hhx in Hj. inversion Hj; subst. left. apply in_or_app. right. left. reflexivity.
      * right. exists j. rewrite nth_set_nth. destruct (Nat.eqb_spec i j); [congruence|exact Hj].
  - intros j. rewrite nth_set_nth. destruct (Nat.eqb_spec i j) as [E|N0]; [|apply M12].
    intro Hn. destruct dr; [apply (M12 i); rewrite Hk; reflexivity|discriminate Hn].
  - intros j. rewrite nth_set_nth. destruct (Nat.eqb_spec i j) as [E|N0]; [destruct dr; discriminate|apply M13].
  - destruct close; auto. destruct M14 as (_ & _ & A & _).
    rewrite (all_exited_ex wk i Hi) in A; [discriminate|]. rewrite Hk. discriminate.
  - apply set_nth_ne.
Qed.

Lemma w_with_id s : w_with s (w_slots s) (w_queue s) = s.
Proof. destruct s; reflexivity. Qed.

(* T10–T12: Close *)
Lemma inv_close_call b s : WInvB b s -> b < w_now s -> w_close s = CIdle ->
  WInv (w_set_close s (w_closed s) (CStart (w_now s)) (w_clos s)).
Proof.
  intros HI Hb Hc. apply (inv_mono b (w_now s)) in HI; [|lia].
  destruct HI as [M1 M2 M3 M4 M5 M6 M7 M8 M9 M10 M11 M12 M13 M14 M15].
  destruct s as [now closed slots queue pcs wk close subs runs clos]. unfold WInv. unf. subst close.
  constructor; unf; auto. destruct M14 as (A & B). repeat split; auto; lia.
Qed.

Lemma inv_close_lock b s cb : WInvB b s -> w_close s = CStart cb ->
  WInvB b (w_set_close s true (CWait cb) (w_clos s)).
Proof.
  intros [M1 M2 M3 M4 M5 M6 M7 M8 M9 M10 M11 M12 M13 M14 M15] Hc.
  destruct s as [now closed slots queue pcs wk close subs runs clos]. unf. subst close.
  constructor; unf; auto. destruct M14 as (A & B & C). repeat split; auto.
Qed.

Lemma inv_close_done b s cb : WInvB b s -> b < w_now s -> w_close s = CWait cb ->
  all_exited (w_wk s) = true ->
  WInv (w_set_close s (w_closed s) CDone (Clo cb (w_now s) true :: w_clos s)).
Proof.
  intros HI Hb Hc Hex. pose proof (inv_mono b (w_now s) s ltac:(lia) HI) as HM.
  destruct HI as [_ _ _ _ H5 _ _ _ _ _ _ _ _ H14 _].
  destruct HM as [M1 M2 M3 M4 M5 M6 M7 M8 M9 M10 M11 M12 M13 M14 M15].
  destruct s as [now closed slots queue pcs wk close subs runs clos]. unfold WInv. unf. subst close.
  constructor; unf; auto. destruct H14 as (A & B & C). subst clos. repeat split; auto.
  - destruct wk as [|k0 wk']; [congruence|]. apply (M13 0%nat).
    destruct (all_exited_nth _ Hex 0%nat) as [E|E]; [exact E|].
    cbn [nth] in *. unfold all_exited in Hex. cbn [forallb] in Hex. rewrite E in Hex. discriminate.
  - exists cb, now. repeat split; try lia. intros r Hr. destruct (H5 r Hr) as (_ & D & _). lia.
Qed.

Ltac bnd := unfold WInv; cbn [w_now w_set_pc w_with w_set_k w_set_close w_ret]; lia.

Lemma inv_step s e : WInv s -> WInv (w_step s e).
Proof.
  intro HI0. pose proof (inv_tick s HI0) as HB. unfold Model.WorkQueue_worker.w_step.
  set (s1 := w_tick s) in *. assert (Hb : w_now s < w_now s1) by (unfold s1; cbn; lia).
  assert (HM : WInv s1) by (apply (inv_mono (w_now s)); [lia|exact HB]).
  destruct e as [t wait|t alt|i alt| |].
  - destruct (w_pc s1 t) eqn:Hpc; try exact HM. apply (inv_call (w_now s)); auto.
  - unfold w_thread_step. destruct (w_pc s1 t) as [|x st wait|x st|x st] eqn:Hpc; [exact HM| | |].
    + destruct (w_closed s1) eqn:Hcl.
      * rewrite <- (w_with_id s1). apply (inv_ret_rej (w_now s)); auto; [rewrite Hpc; reflexivity|discriminate].
      * destruct (0 <? w_slots s1).
        -- destruct (queue_has_room cf s1); [|exact HM].
           apply (inv_ret_ok (w_now s)); auto. rewrite Hpc; reflexivity.
        -- destruct wait.
           ++ rewrite <- (w_with_id s1). apply (inv_mono (w_now s)); [bnd|].
              apply inv_pc_same; [exact HB|rewrite Hpc; reflexivity].
           ++ rewrite <- (w_with_id s1). apply (inv_ret_rej (w_now s)); auto; [rewrite Hpc; reflexivity|discriminate].
    + destruct alt.
      * destruct (w_closed s1); [|exact HM].
        rewrite <- (w_with_id s1). apply (inv_ret_rej (w_now s)); auto; [rewrite Hpc; reflexivity|discriminate].
      * destruct (0 <? w_slots s1); [|exact HM]. apply (inv_mono (w_now s)); [bnd|].
        apply inv_pc_same; [exact HB|rewrite Hpc; reflexivity].
    + destruct (w_closed s1) eqn:Hcl.
      * apply (inv_ret_rej (w_now s)); auto; [rewrite Hpc; reflexivity|discriminate].
      * destruct (queue_has_room cf s1).
        -- apply (inv_ret_ok (w_now s)); auto. rewrite Hpc; reflexivity.
        -- apply (inv_mono (w_now s)); [bnd|]. apply inv_pc_same; [exact HB|rewrite Hpc; reflexivity].
  - unfold w_worker_step. destruct (Nat.ltb_spec i (length (w_wk s1))) as [Hi|Hi]; cbn [negb]; [|exact HM].
    destruct (w_k s1 i) as [|x dr|x rb dr| |] eqn:Hk.
    + destruct alt.
      * destruct (w_closed s1) eqn:Hcl; [|exact HM]. rewrite <- (w_with_id s1).
        apply inv_k_upd; try exact HM; try exact Hi; rewrite ?Hk; try discriminate; auto.
      * destruct (w_queue s1) as [|x r] eqn:Hq; [exact HM|].
        apply inv_k_pop; auto; [rewrite Hk; reflexivity|discriminate].
    + apply inv_k_upd; try exact HM; try exact Hi; rewrite ?Hk; try discriminate; auto.
      * cbn [needs_closed]. intro E. apply (i_drc _ _ HM i). rewrite Hk. exact E.
      * intros x0 rb0 dr0 E. inversion E; subst. bnd.
    + apply (inv_k_done (w_now s)); auto.
    + assert (Hcl : w_closed s1 = true) by (apply (i_drc _ _ HM i); rewrite Hk; reflexivity).
      destruct (w_queue s1) as [|x r] eqn:Hq.
      * rewrite <- (w_with_id s1). rewrite Hq.
        replace (w_with s1 (w_slots s1) []) with (w_with s1 (w_slots s1) (w_queue s1)) by (rewrite Hq; reflexivity).
        apply inv_k_upd; try exact HM; try exact Hi; rewrite ?Hk; try discriminate; auto.
      * apply inv_k_pop; auto. rewrite Hk; reflexivity.
    + exact HM.
  - destruct (w_close s1) eqn:Hc; try exact HM. apply (inv_close_call (w_now s)); auto.
  - destruct (w_close s1) as [|cb|cb|cb|] eqn:Hc; try exact HM.
    + apply (inv_mono (w_now s)); [bnd|]. apply inv_close_lock; assumption.
    + destruct (all_exited (w_wk s1)) eqn:Hex; [|exact HM]. apply (inv_close_done (w_now s)); auto.
Qed.

Hypothesis workers_pos : c_workers cf <> 0.

Lemma nth_repeat_idle i n : nth i (repeat KIdle n) KIdle = KIdle.
Proof.
  destruct (nth_In_or_default i (repeat KIdle n) KIdle) as [H|H]; [apply repeat_spec in H|]; exact H.
Qed.

Lemma inv_init : WInv (w_init cf).
Proof.
  unfold WInv, w_init. constructor; unf; intros;
    repeat match goal with
           | H : context [nth _ (repeat KIdle _) KIdle] |- _ => rewrite nth_repeat_idle in H
           | H : context [nth ?t [] WIdle] |- _ => destruct t; cbn [nth pc_task] in H
           end;
    try discriminate; try contradiction; try (constructor; fail); auto.
  all: try match goal with H : _ \/ _ |- _ => destruct H as [[]|(i0 & Hi0)]; rewrite nth_repeat_idle in Hi0; discriminate end.
  all: try match goal with H : okset [] _ |- _ => destruct H as (sb & [] & _) end.
  destruct (N.to_nat (c_workers cf)) eqn:E; [lia|]. discriminate.
Qed.

Lemma inv_fold evs : forall s, WInv s -> WInv (fold_left w_step evs s).
Proof. induction evs as [|e evs IH]; intros s H; [exact H|]. cbn [fold_left]. apply IH. apply inv_step. exact H. Qed.

Theorem inv_run evs : WInv (w_run evs).
Proof. apply inv_fold. exact inv_init. Qed.

(* ---- consequences --------------------------------------------------------------------------- *)

Lemma w_at_most_once evs : NoDup (map r_task (w_runs (w_run evs))).
Proof. pose proof (inv_run evs) as HI. apply (NoDup_app_r (w_queue (w_run evs))). apply (i_nd _ _ HI). Qed.

Lemma w_rejected_never_runs evs sb :
  In sb (w_subs (w_run evs)) -> s_res sb <> ROk -> ~ In (s_task sb) (map r_task (w_runs (w_run evs))).
Proof.
  intros Hin Hr Hran. pose proof (inv_run evs) as HI.
  destruct (i_pl_ok _ _ HI (s_task sb)) as (sb' & Hin' & Et & Er).
  { left. apply in_or_app. right. exact Hran. }
  assert (sb' = sb) by (eapply NoDup_map_inj; [apply (i_subs_nd _ _ HI)|exact Hin'|exact Hin|exact Et]).
  subst sb'. contradiction.
Qed.

Lemma w_close_waits evs c sb :
  In c (w_clos (w_run evs)) -> In sb (w_subs (w_run evs)) -> s_res sb = ROk ->
  exists r, In r (w_runs (w_run evs)) /\ r_task r = s_task sb /\ r_e r < l_e c.
Proof.
  intros Hc Hin Hr. pose proof (inv_run evs) as HI. pose proof (i_close _ _ HI) as HC.
  unfold close_inv in HC. destruct (w_close (w_run evs)).
  - destruct HC as (_ & E). rewrite E in Hc. destruct Hc.
  - destruct HC as (_ & E & _). rewrite E in Hc. destruct Hc.
  - destruct HC.
  - destruct HC as (_ & E & _). rewrite E in Hc. destruct Hc.
  - destruct HC as (_ & Hq & Hex & cb & ce & E & _ & _ & Hruns). rewrite E in Hc.
    destruct Hc as [<-|[]]. cbn [l_e].
    destruct (i_ok_pl _ _ HI (s_task sb)) as [Hpl|(i & Hi)].
    + exists sb. auto.
    + rewrite Hq in Hpl. cbn [app] in Hpl. unfold ran in Hpl. apply in_map_iff in Hpl.
      destruct Hpl as (r & Er & Hr'). exists r. repeat split; auto.
    + exfalso. unfold w_k in Hi. destruct (all_exited_nth _ Hex i) as [E0|E0]; rewrite E0 in Hi; discriminate.
Qed.

Hypothesis kind_worker : c_kind cf = KWorker.

Theorem w_monitor evs : C37_monitor (w_hist (w_run evs)) = 0.
Proof.
  assert (A : allowed 0 (C37_monitor (w_hist (w_run evs)))).
  { apply monitor_allowed; [discriminate| | | | |].
    - apply ok_once_intro. unfold terminal_ids, w_hist. cbn [h_runs h_cans map]. rewrite app_nil_r. apply w_at_most_once.
    - apply ok_rejected_intro. intros sb Hin Hr. unfold terminal_ids, w_hist. cbn [h_runs h_cans map]. rewrite app_nil_r.
      apply w_rejected_never_runs; [exact Hin|]. intro E. rewrite E in Hr. discriminate.
    - reflexivity.
    - unfold ok_mailbox, w_hist. cbn [h_cfg]. rewrite kind_worker. reflexivity.
    - intros c Hc _ sb Hin Hr. left. apply task_code_zero.
      assert (Er : s_res sb = ROk) by (destruct (s_res sb); try discriminate; reflexivity).
      destruct (w_close_waits evs c sb Hc Hin Er) as (r & Hr1 & Hr2 & Hr3).
      eapply terminal_before_run; eauto. }
  destruct A as [A|A]; exact A.
Qed.

Theorem w_accepts evs : C37_mismatch (w_hist (w_run evs)) = false.
Proof.
  pose proof (inv_run evs) as HI. unfold C37_mismatch. apply negb_false_iff.
  repeat (apply andb_true_iff; split).
  - apply nodupb_NoDup. apply (i_subs_nd _ _ HI).
  - apply forallb_forall. intros sb Hin. apply N.ltb_lt. apply (i_subs _ _ HI sb Hin).
  - apply forallb_forall. intros r Hin. apply N.ltb_lt. apply (i_runs _ _ HI r Hin).
  - apply forallb_forall. intros c Hc. apply N.ltb_lt. cbn [w_hist h_clos] in Hc.
    pose proof (i_close _ _ HI) as HC. unfold close_inv in HC. destruct (w_close (w_run evs)).
    + destruct HC as (_ & E). rewrite E in Hc. destruct Hc.
    + destruct HC as (_ & E & _). rewrite E in Hc. destruct Hc.
    + destruct HC.
    + destruct HC as (_ & E & _). rewrite E in Hc. destruct Hc.
    + destruct HC as (_ & _ & _ & cb & ce & E & Hlt & _). rewrite E in Hc. destruct Hc as [<-|[]]. exact Hlt.
  - reflexivity.
  - unfold batch_size_ok. apply forallb_forall. intros r Hin. apply N.ltb_lt.
    destruct (i_runs _ _ HI r Hin) as (_ & _ & E). rewrite E. lia.
  - unfold shards_ok. apply forallb_forall. intros sb Hin. apply N.ltb_lt.
    destruct (i_subs _ _ HI sb Hin) as (_ & _ & _ & E). rewrite E. lia.
Qed.

End WorkerProof.
