(* Proof/AckTracker_inv.v — the tracker invariant and the simulation between the
   model of the code (Model/AckTracker.v, first half) and the specification
   tracker that the monitor runs (second half of the same file). *)
From WK Require Import Base.Base Gen.Consts_C32 Model.AckTracker.
From WK Require Import Proof.AckTracker_map Proof.AckTracker_entry Proof.AckTracker_index.
From Coq Require Import Permutation.
Open Scope N_scope.

(* ---- invariant -------------------------------------------------------------------- *)
Record entry_ok (next : N) (k : key) (e : entry) : Prop := {
  eo_wf : entry_wf e;
  eo_alive : entry_alive e;
  eo_keyed : entry_keyed k e;
  eo_bound : forall tok, In tok (map fst (abs_live e)) -> tok <= next }.

Definition key_valid (k : key) : Prop := let '(u, s, m) := k in u <> 0 /\ s <> 0 /\ m <> 0.

Record Inv (t : tracker) : Prop := {
  inv_nodup : NoDup (al_keys (t_byMessage t));
  inv_count : t_count t = Z.of_nat (length (t_byMessage t));
  inv_index : session_index_ok (t_byMessage t) (t_bySession t);
  inv_entries : forall k e, kget k (t_byMessage t) = Some e -> entry_ok (t_next t) k e /\ key_valid k;
  inv_limit : (0 < t_limit t)%Z -> forall sk ms, sget sk (t_bySession t) = Some ms ->
                                                 (Z.of_nat (length ms) <= t_limit t)%Z }.

(* ---- simulation relation ------------------------------------------------------------ *)
Definition rel_entry (e : entry) (se : sentry) : Prop :=
  s_committed se = abs_committed e /\ Permutation (abs_live e) (s_live se).

Record Rel (bm : list (key * entry)) (s : sstate) : Prop := {
  rel_nodup : NoDup (al_keys s);
  rel_some : forall k e, kget k bm = Some e -> exists se, kget k s = Some se /\ rel_entry e se;
  rel_none : forall k, kget k bm = None -> kget k s = None }.

Definition Sim (t : tracker) (s : sstate) : Prop := Inv t /\ Rel (t_byMessage t) s.

Lemma rel_nil : Rel [] [].
Proof. constructor; [constructor|discriminate|reflexivity]. Qed.

Lemma rel_has bm s k : Rel bm s -> spec_has s k = match kget k bm with Some _ => true | None => false end.
Proof.
  intros R. unfold spec_has. destruct (kget k bm) as [e|] eqn:G.
  - destruct (rel_some _ _ R _ _ G) as [se [H _]]. rewrite H. reflexivity.
  - rewrite (rel_none _ _ R _ G). reflexivity.
Qed.

Lemma rel_length bm s : NoDup (al_keys bm) -> Rel bm s -> length s = length bm.
Proof.
  intros ND R. transitivity (length (al_keys s)); [unfold al_keys; rewrite map_length; reflexivity|].
  transitivity (length (al_keys bm)); [|unfold al_keys; rewrite map_length; reflexivity].
  apply nodup_same_length; [apply (rel_nodup _ _ R)|exact ND|].
  intro k. split; intro H.
  - destruct (kget k bm) eqn:G; [apply (k_get_some_key _ _ _ G)|].
    apply (rel_none _ _ R) in G. apply k_get_none_iff in G. contradiction.
  - destruct (kget k s) eqn:G; [apply (k_get_some_key _ _ _ G)|].
    exfalso. destruct (kget k bm) eqn:G2.
    + destruct (rel_some _ _ R _ _ G2) as [se [H1 _]]. congruence.
    + apply k_get_none_iff in G2. contradiction.
Qed.

Lemma rel_set bm s k e se : Rel bm s -> rel_entry e se -> Rel (al_set key_eqb k e bm) (al_set key_eqb k se s).
Proof.
  intros R RE. constructor.
  - apply k_set_nodup. apply (rel_nodup _ _ R).
  - intros k' e'. destruct (key_eq_dec k k') as [E|E].
    + subst k'. rewrite !k_get_set_same. intro H. inversion H. subst e'. exists se. split; [reflexivity|exact RE].
    + rewrite !k_get_set_other by exact E. apply (rel_some _ _ R).
  - intros k'. destruct (key_eq_dec k k') as [E|E].
    + subst k'. rewrite k_get_set_same. discriminate.
    + rewrite !k_get_set_other by exact E. apply (rel_none _ _ R).
Qed.

Lemma rel_del bm s k : Rel bm s -> Rel (al_del key_eqb k bm) (al_del key_eqb k s).
Proof.
  intros R. constructor.
  - apply k_del_nodup. apply (rel_nodup _ _ R).
  - intros k' e'. destruct (key_eq_dec k k') as [E|E].
    + subst k'. rewrite k_get_del_same. discriminate.
    + rewrite !k_get_del_other by exact E. apply (rel_some _ _ R).
  - intros k'. destruct (key_eq_dec k k') as [E|E].
    + subst k'. rewrite !k_get_del_same. reflexivity.
    + rewrite !k_get_del_other by exact E. apply (rel_none _ _ R).
Qed.

Lemma sim_count t s : Sim t s -> scount s = t_count t.
Proof.
  intros [I R]. unfold scount. rewrite (inv_count t I). f_equal. apply rel_length; [apply (inv_nodup t I)|exact R].
Qed.

Lemma al_set_length_present {V} k (v v0 : V) bm :
  NoDup (al_keys bm) -> kget k bm = Some v0 -> length (al_set key_eqb k v bm) = length bm.
Proof. intros ND G. unfold al_set. simpl. apply (k_del_length _ _ _ ND G). Qed.

Lemma al_set_length_absent {V} k (v : V) bm :
  kget k bm = None -> length (al_set key_eqb k v bm) = S (length bm).
Proof. intros G. unfold al_set. simpl. rewrite k_del_notin by exact G. reflexivity. Qed.

Lemma entry_ok_mono n n' k e : n <= n' -> entry_ok n k e -> entry_ok n' k e.
Proof. intros L [H1 H2 H3 H4]. constructor; try assumption. intros tok H. apply H4 in H. lia. Qed.

Lemma valid_key_of p : validPendingRecvAck p = true -> key_valid (key_of p).
Proof.
  unfold validPendingRecvAck, key_valid, key_of. rewrite !andb_true_iff, !negb_true_iff, !N.eqb_neq. tauto.
Qed.

Lemma invalid_absent t p : Inv t -> validPendingRecvAck p = false -> kget (key_of p) (t_byMessage t) = None.
Proof.
  intros I V. destruct (kget (key_of p) (t_byMessage t)) eqn:G; [|reflexivity].
  destruct (inv_entries t I _ _ G) as [_ KV]. exfalso.
  unfold key_valid, key_of in KV. unfold validPendingRecvAck in V.
  destruct KV as [K1 [K2 K3]]. apply N.eqb_neq in K1, K2, K3. rewrite K1, K2, K3 in V. discriminate.
Qed.

Lemma key_of_set_at p z : key_of (set_at p z) = key_of p.
Proof. reflexivity. Qed.

Ltac proj := cbn [t_byMessage t_bySession t_count t_next t_limit t_shards with_maps].

(* ---- bind ----------------------------------------------------------------------------- *)
Lemma bind_locked_sim t s now p :
  Sim t s -> validPendingRecvAck p = true ->
  let '(t', tok, added) := bind_locked t now p in
  (tok = 0 /\ t' = t /\ added = false)
  \/ (tok = t_next t + 1 /\ t_next t' = tok /\ t_limit t' = t_limit t /\ t_shards t' = t_shards t
      /\ added = negb (spec_has s (key_of p))
      /\ t_count t' = (if added then t_count t + 1 else t_count t)%Z
      /\ (forall k', k' <> key_of p -> kget k' (t_byMessage t') = kget k' (t_byMessage t))
      /\ exists s', spec_bind s now p tok = Some s' /\ Sim t' s').
Proof.
  intros [I R] V. unfold bind_locked.
  set (p' := if (p_at p =? 0)%Z then set_at p now else p).
  assert (KP : key_of p' = key_of p) by (unfold p'; destruct (p_at p =? 0)%Z; reflexivity).
  assert (SP : skey_of p' = skey_of p) by (unfold p'; destruct (p_at p =? 0)%Z; reflexivity).
  assert (MP : p_mid p' = p_mid p) by (unfold p'; destruct (p_at p =? 0)%Z; reflexivity).
  assert (AP : p_at p' = eff_at now p) by (unfold p', eff_at; destruct (p_at p =? 0)%Z; reflexivity).
  rewrite KP, SP, MP.
  set (messages := match sget (skey_of p) (t_bySession t) with Some ms => ms | None => [] end).
  destruct ((0 <? t_limit t)%Z && negb (match kget (key_of p) (t_byMessage t) with Some _ => true | None => false end)
            && (t_limit t <=? Z.of_nat (length messages))%Z) eqn:LIM.
  { left. auto. }
  right.
  set (tok := t_next t + 1).
  assert (TZ : tok <> 0) by (unfold tok; lia).
  pose proof (valid_key_of p V) as KV.
  assert (KEY : key_of p = (p_uid p, p_sid p, p_mid p)) by reflexivity.
  assert (SKEY : skey_of p = (p_uid p, p_sid p)) by reflexivity.
  destruct (kget (key_of p) (t_byMessage t)) as [e|] eqn:G.
  - (* re-delivery on an outstanding identity *)
    destruct (inv_entries t I _ _ G) as [EO _]. destruct EO as [W A K B].
    destruct (rel_some _ _ R _ _ G) as [se [GS [RC RP]]].
    assert (FRESH : ~ In tok (map fst (abs_live e))).
    { intro H. apply B in H. unfold tok in H. lia. }
    destruct (addAttempt_abs e p' tok W TZ FRESH) as [C1 [C2 [C3 [C4 _]]]].
    simpl negb. cbv iota.
    split; [reflexivity|]. split; [reflexivity|]. split; [reflexivity|]. split; [reflexivity|].
    split; [rewrite (rel_has _ _ _ R), G; reflexivity|]. split; [reflexivity|].
    split; [intros k' Hk; proj; apply k_get_set_other; congruence|].
    unfold spec_bind. rewrite GS.
    assert (NM : live_mem tok (s_live se) = false).
    { rewrite <- (live_mem_perm tok _ _ RP). destruct (live_mem tok (abs_live e)) eqn:M; [|reflexivity].
      apply live_mem_in in M. contradiction. }
    rewrite NM. eexists. split; [reflexivity|]. split.
    + constructor; proj.
      * apply k_set_nodup. apply (inv_nodup t I).
      * rewrite (al_set_length_present _ _ _ _ (inv_nodup t I) G). apply (inv_count t I).
      * rewrite KEY, SKEY. apply si_add. apply (inv_index t I).
      * intros k0 e0. destruct (key_eq_dec (key_of p) k0) as [E|E].
        -- subst k0. rewrite k_get_set_same. intro H. inversion H. subst e0. split; [|exact KV].
           constructor; [exact C3|exact C4| |].
           ++ apply addAttempt_keyed; [exact KP|exact W|left; exact K].
           ++ intros x Hx. eapply Permutation_in in Hx; [|apply Permutation_map; exact C2].
              rewrite map_app in Hx. apply in_app_or in Hx. destruct Hx as [Hx|[Hx|[]]].
              ** apply B in Hx. unfold tok. lia.
              ** simpl in Hx. subst x. lia.
        -- rewrite k_get_set_other by exact E. intro H. destruct (inv_entries t I _ _ H) as [H1 H2].
           split; [|exact H2]. eapply entry_ok_mono; [|exact H1]. unfold tok. lia.
      * intros LP sk ms. destruct (skey_eq_dec (skey_of p) sk) as [E|E].
        -- subst sk. rewrite s_get_set_same. intro H. inversion H. subst ms. clear H.
           rewrite add_mid_length.
           assert (MM : mem_mid (p_mid p) messages = true).
           { apply mem_mid_in. assert (HK : has_key (t_byMessage t) (p_uid p, p_sid p, p_mid p)).
             { unfold has_key. rewrite <- KEY, G. discriminate. }
             apply (si_proj _ _ (inv_index t I)) in HK. destruct HK as [ms [H1 H2]].
             unfold messages. rewrite SKEY, H1. exact H2. }
           rewrite MM. unfold messages. destruct (sget (skey_of p) (t_bySession t)) eqn:GS2.
           ++ apply (inv_limit t I LP _ _ GS2).
           ++ simpl. lia.
        -- rewrite s_get_set_other by exact E. apply (inv_limit t I LP).
    + proj. apply rel_set; [exact R|]. split; simpl.
      * rewrite C1. exact RC.
      * eapply Permutation_trans; [exact C2|]. rewrite AP. apply Permutation_app_tail. exact RP.
  - (* a new identity *)
    pose proof (rel_none _ _ R _ G) as GS.
    destruct (addAttempt_abs zero_entry p' tok zero_entry_wf TZ (fun H => H)) as [C1 [C2 [C3 [C4 _]]]].
    simpl negb. cbv iota.
    split; [reflexivity|]. split; [reflexivity|]. split; [reflexivity|]. split; [reflexivity|].
    split; [rewrite (rel_has _ _ _ R), G; reflexivity|]. split; [reflexivity|].
    split; [intros k' Hk; proj; apply k_get_set_other; congruence|].
    unfold spec_bind. rewrite GS. eexists. split; [reflexivity|]. split.
    + constructor; proj.
      * apply k_set_nodup. apply (inv_nodup t I).
      * rewrite (al_set_length_absent _ _ _ G). rewrite (inv_count t I). lia.
      * rewrite KEY, SKEY. apply si_add. apply (inv_index t I).
      * intros k0 e0. destruct (key_eq_dec (key_of p) k0) as [E|E].
        -- subst k0. rewrite k_get_set_same. intro H. inversion H. subst e0. split; [|exact KV].
           constructor; [exact C3|exact C4| |].
           ++ apply addAttempt_keyed; [exact KP|exact zero_entry_wf|right; reflexivity].
           ++ intros x Hx. eapply Permutation_in in Hx; [|apply Permutation_map; exact C2].
              simpl in Hx. destruct Hx as [Hx|[]]. subst x. lia.
        -- rewrite k_get_set_other by exact E. intro H. destruct (inv_entries t I _ _ H) as [H1 H2].
           split; [|exact H2]. eapply entry_ok_mono; [|exact H1]. unfold tok. lia.
      * intros LP sk ms. destruct (skey_eq_dec (skey_of p) sk) as [E|E].
        -- subst sk. rewrite s_get_set_same. intro H. inversion H. subst ms. clear H.
           rewrite add_mid_length.
           apply Z.ltb_lt in LP. rewrite LP in LIM. simpl in LIM. apply Z.leb_gt in LIM.
           destruct (mem_mid (p_mid p) messages); lia.
        -- rewrite s_get_set_other by exact E. apply (inv_limit t I LP).
    + proj. apply rel_set; [exact R|]. split; simpl.
      * rewrite C1. reflexivity.
      * eapply Permutation_trans; [exact C2|]. rewrite AP. simpl. apply Permutation_refl.
Qed.
