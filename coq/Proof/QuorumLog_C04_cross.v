(* Proof/QuorumLog_C04_cross.v — C04 across nodes: the empty-log witness (known finding C04-K1), a
   positive theorem (a durability round cannot succeed once more than N - Q voters hold another entry at
   the proposal's first index — e.g. the newer authority's quorum-durable barrier), bounded checks. *)
From WK Require Import Base.Base.
From WK Require Import Model.ReplicaLog Model.QuorumLog Model.Cluster Model.Monitor_C01 Model.Monitor_C04.
From WK Require Import Proof.ReplicaLog Proof.QuorumLog_Commit Proof.QuorumLog_C01 Proof.Cluster_Lift Proof.QuorumLog_C01_partial.
From Coq Require Import ZifyBool ZifyN.
Open Scope N_scope.

(* ---- the witness (corpus/C04/cross_node_empty_log.json) -------------------------------------------------------- *)

Definition x_cfg : qconfig := QCfg SMem 3 2 2 3 65536 0.
Definition x_r1 : record := Rec (TUser 7) 1 1 42 5 false 1.
Definition x_r2 : record := Rec (TUser 8) 1 2 43 5 false 1.
Definition x_r3 : record := Rec (TUser 9) 1 3 44 5 false 1.
(* authority (1,1,1) on node 1, the newer (1,2,2) on node 2 — both over an empty log, so no barrier is
   written — then the deposed leader 1 proposes: acknowledged; the new leader's first proposal conflicts *)
Definition x_ops : list qop :=
  [ OInstall 1 (1, 1, 1) false 2 no_faults;
    OInstall 2 (1, 2, 2) false 2 no_faults;
    OCommit 1 (1, 1, 1) (TUser 1) [x_r1] false no_faults;
    OCommit 2 (1, 2, 2) (TUser 2) [x_r2] false no_faults ].

Lemma cross_node_empty_log_receipt :
  fst (run_model x_cfg (cluster_init x_cfg) x_ops) =
    [ RInstalled (1, 1, 1) 0 0; RInstalled (1, 2, 2) 0 0; RReceipt (1, 1, 1) (TUser 1) 1 1 1; RErr EConflict ] /\
  C04_monitor (model_case x_cfg x_ops) = 2.
Proof. split; vm_compute; reflexivity. Qed.

(* ---- a round is blocked by entries other voters already hold at its first index -------------------------------- *)

Lemma holds_first_entry rp m recs es :
  DeriveProposalEntries m recs = Some es -> holds_proposal rp m recs = true ->
  exists e1, hd_error es = Some e1 /\ ent_at rp (m_base m + 1) = Some e1.
Proof.
  intros Hd Hh. unfold holds_proposal in Hh. rewrite Hd in Hh.
  unfold DeriveProposalEntries in Hd.
  destruct (_ || _ || _ || _ || _ || _ || _) eqn:C in Hd; [discriminate|].
  destruct (if m_base m =? 0 then _ else _) in Hd; [discriminate|].
  pose proof (derive_loop_entries _ _ _ _ _ _ _ Hd) as Hent.
  pose proof (derive_loop_length _ _ _ _ _ _ _ Hd) as Hlen.
  destruct es as [|e1 es'].
  - exfalso. destruct recs; [|discriminate]. unfold lenN in C. cbn in C. discriminate.
  - exists e1. split; [reflexivity|]. cbn in Hh. apply andb_true_iff in Hh. destruct Hh as [Hh _].
    destruct (Hent 0%nat e1 eq_refl) as (Hi & _). rewrite Hi in Hh. replace (m_base m + 1 + N.of_nat 0) with (m_base m + 1) in Hh by lia.
    destruct (ent_at rp (m_base m + 1)) as [x|]; [|discriminate]. apply ident_eqb_eq in Hh. subst. reflexivity.
Qed.

(* the positive cross-node statement, for ANY durability round (business proposal of a deposed leader in
   particular): if a set F of voters, more than N - wq of them, already hold at the proposal's first index
   an entry that is not the proposal's first entry, the round fails — no receipt *)
Lemma round_blocked_by_foreign_entries n local voters wq rot p es F n' res :
  NoDup voters -> DeriveProposalEntries (dp_manifest p) (dp_records p) = Some es ->
  NoDup F -> incl F (local :: round_followers voters local rot) ->
  (forall f, In f F -> exists x, ent_at (net_rep n f) (m_base (dp_manifest p) + 1) = Some x /\ hd_error es <> Some x) ->
  (length (local :: round_followers voters local rot) < length F + N.to_nat wq)%nat ->
  runDurableRound n local voters wq rot p = (n', res) -> rr_ok res = false.
Proof.
  intros Hnd Hd HF Hincl Hfor Hcount Hr. destruct (rr_ok res) eqn:Hok; [|reflexivity]. exfalso.
  destruct (runDurableRound_quorum _ _ _ _ _ _ _ _ Hnd Hr Hok) as (_ & S & S1 & S2 & S3).
  pose proof (Cluster_Lift.runDurableRound_ok Rp Rp_refl Rp_trans Rp_sync _ _ _ _ _ _ _ _ Hr) as [_ Kp].
  set (H := filter (holdsP p n') S).
  assert (HH : NoDup H) by (apply NoDup_filter; exact S1).
  assert (HHincl : incl H (local :: round_followers voters local rot)).
  { intros x Hx. apply filter_In in Hx. apply S2. tauto. }
  assert (Hdisj : forall x, In x H -> ~ In x F).
  { intros x Hx Hf. apply filter_In in Hx. destruct Hx as [_ Hh]. unfold holdsP in Hh.
    destruct (holds_first_entry _ _ _ _ Hd Hh) as (e1 & He1 & Hat).
    destruct (Hfor _ Hf) as (y & Hy & Hne).
    pose proof (Rp_ent_at _ _ _ _ (Kp x) Hy) as Hy'. rewrite Hat in Hy'. inversion Hy'; subst. congruence. }
  assert (Hlen : (length (H ++ F) <= length (local :: round_followers voters local rot))%nat).
  { apply NoDup_incl_length.
    - clear - HH HF Hdisj. induction H as [|h H IH]; cbn; [exact HF|]. inversion HH; subst. constructor.
      + intro X. apply in_app_or in X. destruct X as [X | X]; [contradiction|]. exact (Hdisj h (or_introl eq_refl) X).
      + apply IH; [assumption|]. intros x Hx. apply Hdisj. right. exact Hx.
    - intros x Hx. apply in_app_or in Hx. destruct Hx; [apply HHincl | apply Hincl]; assumption. }
  rewrite app_length in Hlen. unfold H_count, countb in S3. fold H in S3. unfold lenN in S3. lia.
Qed.

(* ---- bounded exhaustive checks of the whole monitor on the model ------------------------------------------------ *)

Fixpoint schedules04 (alphabet : list qop) (len : nat) : list (list qop) :=
  match len with
  | O => [[]]
  | S k => [] :: flat_map (fun s => map (fun op => op :: s) alphabet) (schedules04 alphabet k)
  end.

Definition x_alphabet : list qop :=
  [ OInstall 2 (1, 2, 2) false 2 no_faults;
    OCommit 1 (1, 1, 1) (TUser 1) [x_r1] false no_faults;
    OCommit 1 (1, 1, 1) (TUser 3) [x_r3] false no_faults;
    OCommit 2 (1, 2, 2) (TUser 2) [x_r2] false no_faults;
    ORestart 2; ODown 3; OUp 3 ].

Definition c04_codes_in (allowed : list N) (prefix : list qop) (len : nat) : bool :=
  forallb (fun s => existsb (N.eqb (C04_monitor (model_case x_cfg (prefix ++ s)))) allowed) (schedules04 x_alphabet len).

(* the newer authority may be installed over an empty log: only 0 or the known-finding code 2 *)
Lemma c04_bounded_empty_log : c04_codes_in [0; 2] [OInstall 1 (1, 1, 1) false 2 no_faults] 4 = true.
Proof. vm_compute. reflexivity. Qed.

(* one proposal is acknowledged before anything else (the log is non-empty at every later install, so the
   newer authority writes its barrier): the monitor returns 0 — the deposed leader never gets a new receipt *)
Lemma c04_bounded_non_empty_log :
  c04_codes_in [0] [OInstall 1 (1, 1, 1) false 2 no_faults;
                    OCommit 1 (1, 1, 1) (TUser 5) [Rec (TUser 5) 2 2 40 5 false 1] false no_faults] 4 = true.
Proof. vm_compute. reflexivity. Qed.
