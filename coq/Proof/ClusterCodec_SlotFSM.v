(* Proof/ClusterCodec_SlotFSM.v — the TLV command codec of pkg/slot/fsm/command.go:
   readTLV inverts put_tlv; the field loop over a sequence of fields is the
   fold of the per-field action; decodeCommand inverts the four modelled
   encoders; whatever decodeCommand accepts for a modelled type is "header +
   whole fields" (so a frame cut inside a field is rejected), and a frame cut
   at a field boundary decodes to the value with the missing fields zero. *)
From WK Require Import Base.Base Base.Bytes Gen.Consts_C27.
From WK Require Import Model.ClusterCodecBase Model.ClusterCodec_SlotFSM Proof.ClusterCodecBase.
From Coq Require Import ZifyBool ZifyN ZifyNat.
Open Scope N_scope.

Lemma len4' (l : bytes) : length l = 4%nat -> exists a b c d, l = [a; b; c; d].
Proof. destruct l as [|a [|b [|c [|d [|e l]]]]]; cbn; intro H; try discriminate. eauto 6. Qed.

Lemma readTLV_put tag v rest :
  blen v < 4294967296 -> readTLV (put_tlv tag v ++ rest) = Some (tag, v, rest).
Proof.
  intro H. unfold put_tlv.
  destruct (len4' (put_u32 (blen v))) as (a & b & c & d & E); [apply be_put_length|].
  assert (G : be_get [a; b; c; d] = blen v) by (rewrite <- E; apply be_get_put; exact H).
  rewrite E. cbn [app readTLV]. rewrite G, ntake_eq, blen_app.
  assert (L : (blen v <=? blen v + blen rest) = true) by lia. rewrite L, to_nat_blen.
  rewrite take_app by reflexivity. reflexivity.
Qed.

Lemma put_tlv_length tag v : length (put_tlv tag v) = (5 + length v)%nat.
Proof. unfold put_tlv, put_u32. cbn [length]. rewrite app_length, be_put_length. lia. Qed.

(* the fold the loop computes over a list of (tag, value) fields *)
Fixpoint fold_fields {S} (step : S -> N -> bytes -> option S) (st : S) (fs : list (N * bytes)) : option S :=
  match fs with
  | [] => Some st
  | (tag, v) :: r => match step st tag v with Some st' => fold_fields step st' r | None => None end
  end.
Definition enc_fields (fs : list (N * bytes)) : bytes := concat (map (fun tv => put_tlv (fst tv) (snd tv)) fs).
Definition fields_ok (fs : list (N * bytes)) : bool := forallb (fun tv => blen (snd tv) <? 4294967296) fs.

Lemma tlv_loop_fields {S} (step : S -> N -> bytes -> option S) :
  forall fs fuel st, (length fs <= fuel)%nat -> fields_ok fs = true ->
    tlv_loop fuel step st (enc_fields fs) = fold_fields step st fs.
Proof.
  induction fs as [|[tag v] fs IH]; intros fuel st Hf Hok.
  - destruct fuel; reflexivity.
  - cbn [fields_ok forallb snd] in Hok. apply andb_true_iff in Hok. destruct Hok as [Hv Hok].
    destruct fuel as [|fuel]; [cbn in Hf; lia|].
    unfold enc_fields. cbn [map concat fst snd]. fold (enc_fields fs).
    assert (Ne : exists x l, put_tlv tag v ++ enc_fields fs = x :: l) by (unfold put_tlv; cbn; eauto).
    destruct Ne as (x & l & Ne).
    cbn [tlv_loop]. rewrite Ne. rewrite <- Ne. rewrite readTLV_put by lia.
    cbn [fold_fields]. destruct (step st tag v) as [st'|]; [|reflexivity].
    apply IH; [cbn in Hf; lia|exact Hok].
Qed.

Lemma enc_fields_length fs : (length fs <= length (enc_fields fs))%nat.
Proof.
  induction fs as [|[tag v] fs IH]; [cbn; lia|].
  unfold enc_fields. cbn [map concat fst snd length]. rewrite app_length, put_tlv_length.
  fold (enc_fields fs). lia.
Qed.

Lemma tlv_fields_enc {S} (step : S -> N -> bytes -> option S) st fs :
  fields_ok fs = true -> tlv_fields step st (enc_fields fs) = fold_fields step st fs.
Proof. intro H. unfold tlv_fields. apply tlv_loop_fields; [apply enc_fields_length|exact H]. Qed.

(* ---- int64 fields ------------------------------------------------------------------------------ *)

Lemma i64_roundtrip z : i64_ok z = true -> i64_of_u64 (u64_of_i64 z) = z.
Proof.
  unfold i64_ok, i64_of_u64, u64_of_i64, two63. intro H.
  destruct (z <? 0)%Z eqn:E.
  - assert (M : (z mod 18446744073709551616 = z + 18446744073709551616)%Z).
    { symmetry. apply Z.mod_unique with (q := (-1)%Z); lia. }
    rewrite M. destruct (Z.to_N (z + 18446744073709551616) <? 9223372036854775808) eqn:L; lia.
  - rewrite Z.mod_small by lia.
    destruct (Z.to_N z <? 9223372036854775808) eqn:L; lia.
Qed.

Lemma u64_of_i64_range z : u64_of_i64 z < 256 ^ N.of_nat 8.
Proof.
  unfold u64_of_i64. pose proof (Z.mod_pos_bound z 18446744073709551616 eq_refl).
  change (256 ^ N.of_nat 8) with 18446744073709551616. lia.
Qed.

Lemma i64_value_put z : i64_ok z = true -> i64_value (put_u64 (u64_of_i64 z)) = Some z.
Proof.
  intro H. unfold i64_value, put_u64. rewrite be_put_length. cbn [Nat.eqb].
  rewrite be_get_put by apply u64_of_i64_range. rewrite i64_roundtrip by exact H. reflexivity.
Qed.

Lemma blen_put_u64 x : blen (put_u64 x) <? 4294967296 = true.
Proof. unfold blen, put_u64. rewrite be_put_length. reflexivity. Qed.

(* ---- round trip of the four modelled commands --------------------------------------------------------- *)

Lemma user_fields u cmd_type :
  encodeUserCommand cmd_type u =
  [commandVersion; cmd_type]
  ++ enc_fields [(tagUserUID, u_uid u); (tagUserToken, u_token u);
                 (tagUserDeviceFlag, put_u64 (u64_of_i64 (u_device_flag u)));
                 (tagUserDeviceLevel, put_u64 (u64_of_i64 (u_device_level u)))].
Proof.
  unfold encodeUserCommand, enc_fields, put_i64_tlv. cbn [map concat fst snd].
  rewrite app_nil_r. reflexivity.
Qed.

Lemma device_fields d :
  EncodeUpsertDeviceCommand d =
  [commandVersion; cmdTypeUpsertDevice]
  ++ enc_fields [(tagDeviceUID, d_uid d); (tagDeviceFlag, put_u64 (u64_of_i64 (d_device_flag d)));
                 (tagDeviceToken, d_token d); (tagDeviceLevel, put_u64 (u64_of_i64 (d_device_level d)))].
Proof.
  unfold EncodeUpsertDeviceCommand, enc_fields, put_i64_tlv. cbn [map concat fst snd].
  rewrite app_nil_r. reflexivity.
Qed.

Lemma decodeUser_encoded u :
  str_ok (u_uid u) && str_ok (u_token u) && i64_ok (u_device_flag u) && i64_ok (u_device_level u) = true ->
  decodeUser (enc_fields [(tagUserUID, u_uid u); (tagUserToken, u_token u);
                          (tagUserDeviceFlag, put_u64 (u64_of_i64 (u_device_flag u)));
                          (tagUserDeviceLevel, put_u64 (u64_of_i64 (u_device_level u)))]) = Some u.
Proof.
  intro W. repeat (apply andb_true_iff in W; destruct W as [W ?]).
  unfold str_ok in *. repeat match goal with H : (_ && _)%bool = true |- _ => apply andb_true_iff in H; destruct H end.
  unfold decodeUser. rewrite tlv_fields_enc.
  - cbn [fold_fields]. unfold user_step.
    change (tagUserUID =? tagUserUID) with true. cbv iota. cbn [u_uid u_token u_device_flag u_device_level].
    change (tagUserToken =? tagUserUID) with false. change (tagUserToken =? tagUserToken) with true. cbv iota.
    cbn [u_uid u_token u_device_flag u_device_level].
    change (tagUserDeviceFlag =? tagUserUID) with false. change (tagUserDeviceFlag =? tagUserToken) with false.
    change (tagUserDeviceFlag =? tagUserDeviceFlag) with true. cbv iota.
    rewrite i64_value_put by assumption. cbn [u_uid u_token u_device_flag u_device_level].
    change (tagUserDeviceLevel =? tagUserUID) with false. change (tagUserDeviceLevel =? tagUserToken) with false.
    change (tagUserDeviceLevel =? tagUserDeviceFlag) with false.
    change (tagUserDeviceLevel =? tagUserDeviceLevel) with true. cbv iota.
    rewrite i64_value_put by assumption. destruct u; reflexivity.
  - cbn [fields_ok forallb snd]. rewrite !blen_put_u64.
    repeat (apply andb_true_iff; split); try assumption; reflexivity.
Qed.

Lemma decodeDevice_encoded d :
  str_ok (d_uid d) && str_ok (d_token d) && i64_ok (d_device_flag d) && i64_ok (d_device_level d) = true ->
  decodeDevice (enc_fields [(tagDeviceUID, d_uid d); (tagDeviceFlag, put_u64 (u64_of_i64 (d_device_flag d)));
                            (tagDeviceToken, d_token d); (tagDeviceLevel, put_u64 (u64_of_i64 (d_device_level d)))])
  = Some d.
Proof.
  intro W. repeat (apply andb_true_iff in W; destruct W as [W ?]).
  unfold str_ok in *. repeat match goal with H : (_ && _)%bool = true |- _ => apply andb_true_iff in H; destruct H end.
  unfold decodeDevice. rewrite tlv_fields_enc.
  - cbn [fold_fields]. unfold device_step.
    change (tagDeviceUID =? tagDeviceUID) with true. cbv iota. cbn [d_uid d_token d_device_flag d_device_level].
    change (tagDeviceFlag =? tagDeviceUID) with false. change (tagDeviceFlag =? tagDeviceFlag) with true. cbv iota.
    rewrite i64_value_put by assumption. cbn [d_uid d_token d_device_flag d_device_level].
    change (tagDeviceToken =? tagDeviceUID) with false. change (tagDeviceToken =? tagDeviceFlag) with false.
    change (tagDeviceToken =? tagDeviceToken) with true. cbv iota. cbn [d_uid d_token d_device_flag d_device_level].
    change (tagDeviceLevel =? tagDeviceUID) with false. change (tagDeviceLevel =? tagDeviceFlag) with false.
    change (tagDeviceLevel =? tagDeviceToken) with false.
    change (tagDeviceLevel =? tagDeviceLevel) with true. cbv iota.
    rewrite i64_value_put by assumption. destruct d; reflexivity.
  - cbn [fields_ok forallb snd]. rewrite !blen_put_u64.
    repeat (apply andb_true_iff; split); try assumption; reflexivity.
Qed.

Theorem command_roundtrip : forall c e,
  command_wf c = true -> encodeCommand c = Some e -> decodeCommand e = Some c.
Proof.
  intros c e W E. destruct c as [|u|u|d|t]; cbn [encodeCommand command_wf] in *; try discriminate;
    injection E as <-.
  - reflexivity.
  - rewrite user_fields. cbn [app decodeCommand].
    change (negb (commandVersion =? commandVersion)) with false. cbv iota.
    change (negb (existsb (N.eqb cmdTypeUpsertUser) commandTypes)) with false. cbv iota.
    change (cmdTypeUpsertUser =? cmdTypeNoop) with false. change (cmdTypeUpsertUser =? cmdTypeUpsertUser) with true.
    cbv iota. rewrite decodeUser_encoded by exact W. reflexivity.
  - rewrite user_fields. cbn [app decodeCommand].
    change (negb (commandVersion =? commandVersion)) with false. cbv iota.
    change (negb (existsb (N.eqb cmdTypeCreateUser) commandTypes)) with false. cbv iota.
    change (cmdTypeCreateUser =? cmdTypeNoop) with false. change (cmdTypeCreateUser =? cmdTypeUpsertUser) with false.
    change (cmdTypeCreateUser =? cmdTypeCreateUser) with true.
    cbv iota. rewrite decodeUser_encoded by exact W. reflexivity.
  - rewrite device_fields. cbn [app decodeCommand].
    change (negb (commandVersion =? commandVersion)) with false. cbv iota.
    change (negb (existsb (N.eqb cmdTypeUpsertDevice) commandTypes)) with false. cbv iota.
    change (cmdTypeUpsertDevice =? cmdTypeNoop) with false. change (cmdTypeUpsertDevice =? cmdTypeUpsertUser) with false.
    change (cmdTypeUpsertDevice =? cmdTypeCreateUser) with false.
    change (cmdTypeUpsertDevice =? cmdTypeUpsertDevice) with true.
    cbv iota. rewrite decodeDevice_encoded by exact W. reflexivity.
Qed.

(* ---- what is accepted is "header + whole fields" ------------------------------------------------------------ *)

Lemma tlv_loop_complete {S} (step : S -> N -> bytes -> option S) :
  forall fuel st data r, tlv_loop fuel step st data = Some r ->
    tlv_loop fuel (fun s _ _ => Some s) tt data = Some tt.
Proof.
  induction fuel as [|fuel IH]; intros st data r H.
  - destruct data; [reflexivity|discriminate].
  - destruct data as [|x l]; [reflexivity|].
    cbn [tlv_loop] in *. destruct (readTLV (x :: l)) as [[[tag v] rest]|]; [|discriminate].
    destruct (step st tag v) as [st'|]; [|discriminate]. eapply IH. exact H.
Qed.

(* A modelled command is decoded only from "header + whole fields": bytes that end
   inside a field (a truncation that is not at a field boundary) are rejected. *)
Theorem decoded_is_complete : forall data c,
  decodeCommand data = Some c -> (forall t, c <> CmdOther t) -> tlv_complete data = true.
Proof.
  intros data c H Hm. destruct data as [|v [|t body]]; try discriminate.
  cbn [decodeCommand] in H. unfold tlv_complete, tlv_fields.
  destruct (negb (v =? commandVersion)); [discriminate|].
  destruct (negb (existsb (N.eqb t) commandTypes)); [discriminate|].
  assert (G : forall S (step : S -> N -> bytes -> option S) st r,
             tlv_fields step st body = Some r ->
             match tlv_loop (length body) (fun s _ _ => Some s) tt body with Some _ => true | None => false end = true).
  { intros S step st r E. unfold tlv_fields in E. rewrite (tlv_loop_complete step _ _ _ _ E). reflexivity. }
  destruct (t =? cmdTypeNoop).
  { unfold decodeNoop in H. destruct (tlv_fields _ tt body) as [r|] eqn:E; [|discriminate]. eapply G. exact E. }
  destruct (t =? cmdTypeUpsertUser).
  { unfold decodeUser in H. destruct (tlv_fields user_step _ body) as [r|] eqn:E; [|discriminate]. eapply G. exact E. }
  destruct (t =? cmdTypeCreateUser).
  { unfold decodeUser in H. destruct (tlv_fields user_step _ body) as [r|] eqn:E; [|discriminate]. eapply G. exact E. }
  destruct (t =? cmdTypeUpsertDevice).
  { unfold decodeDevice in H. destruct (tlv_fields device_step _ body) as [r|] eqn:E; [|discriminate]. eapply G. exact E. }
  inversion H; subst. exfalso. eapply Hm. reflexivity.
Qed.

(* A frame cut at a field boundary is again a frame: of the value whose later fields
   are zero (what an older writer would have sent). *)
Theorem user_prefix_at_boundary : forall u,
  str_ok (u_uid u) = true ->
  decodeCommand ([commandVersion; cmdTypeUpsertUser] ++ enc_fields [(tagUserUID, u_uid u)])
  = Some (CmdUpsertUser (User (u_uid u) [] 0 0)).
Proof.
  intros u W. unfold str_ok in W. apply andb_true_iff in W. destruct W as [W _].
  cbn [app decodeCommand].
  change (negb (commandVersion =? commandVersion)) with false. cbv iota.
  change (negb (existsb (N.eqb cmdTypeUpsertUser) commandTypes)) with false. cbv iota.
  change (cmdTypeUpsertUser =? cmdTypeNoop) with false. change (cmdTypeUpsertUser =? cmdTypeUpsertUser) with true.
  cbv iota. unfold decodeUser. rewrite tlv_fields_enc.
  - cbn [fold_fields]. unfold user_step. change (tagUserUID =? tagUserUID) with true. reflexivity.
  - cbn [fields_ok forallb snd]. rewrite W. reflexivity.
Qed.

(* an unregistered command type, a wrong version and a short header are errors *)
Theorem unknown_type_rejected : forall v t body,
  existsb (N.eqb t) commandTypes = false -> decodeCommand (v :: t :: body) = None.
Proof.
  intros v t body H. cbn [decodeCommand]. destruct (negb (v =? commandVersion)); [reflexivity|].
  rewrite H. reflexivity.
Qed.
