(* Proof/ChanAppend_pipeline.v — the append pipeline of one channel ([pstep]:
   submit / issue the next append effect / run an issued effect against the
   ports / apply a finished effect's completion, in ANY interleaving and for ANY
   behaviour of ports satisfying the appender contract).  Invariant [PInv]:
   nothing is lost or duplicated between submission and delivery, every
   delivered success is backed by a record of the channel log, the log never
   holds a sender + client number twice.  With at most one append in flight
   ([POrd], the default AppendInflightBatchesPerChannel) committed completions
   carry increasing sequences in submission order. *)
From WK Require Import Base.Base Gen.Consts_C29 Model.ChanAppend Model.ChanAppend_C29
     Proof.ChanAppend_coalesce Proof.ChanAppend_expand Proof.ChanAppend_writer Proof.ChanAppend_run.
From Coq Require Import Sorted Permutation.
Open Scope N_scope.

(* ---- lists --------------------------------------------------------------------------------- *)

Lemma sorted_app_inv (l1 l2 : list psend) :
  StronglySorted tag_lt (l1 ++ l2) ->
  StronglySorted tag_lt l1 /\ StronglySorted tag_lt l2
  /\ (forall a b, In a l1 -> In b l2 -> ps_tag a < ps_tag b).
Proof.
  induction l1 as [|x l1 IH]; cbn [app]; intro H.
  - split; [constructor|]. split; [exact H|]. intros a b [].
  - inversion H as [|y l Hs Hall]; subst. destruct (IH Hs) as [I1 [I2 I3]].
    rewrite Forall_app in Hall. destruct Hall as [A1 A2]. split; [constructor; assumption|].
    split; [exact I2|]. intros a b [Ha|Ha] Hb.
    + subst a. rewrite Forall_forall in A2. apply A2. exact Hb.
    + apply I3; assumption.
Qed.

Lemma sorted_app_intro (l1 l2 : list psend) :
  StronglySorted tag_lt l1 -> StronglySorted tag_lt l2 ->
  (forall a b, In a l1 -> In b l2 -> ps_tag a < ps_tag b) -> StronglySorted tag_lt (l1 ++ l2).
Proof.
  induction l1 as [|x l1 IH]; cbn [app]; intros H1 H2 H3; [exact H2|].
  inversion H1 as [|y l Hs Hall]; subst. constructor.
  - apply IH; auto. intros a b Ha Hb. apply H3; [right; exact Ha|exact Hb].
  - apply Forall_app. split; [exact Hall|]. apply Forall_forall. intros b Hb. apply H3; [left; reflexivity|exact Hb].
Qed.

Lemma sorted_remove_mid (a b c : list psend) :
  StronglySorted tag_lt (a ++ b ++ c) -> StronglySorted tag_lt (a ++ c).
Proof.
  intro H. destruct (sorted_app_inv _ _ H) as [H1 [H2 H3]]. destruct (sorted_app_inv _ _ H2) as [H4 [H5 H6]].
  apply sorted_app_intro; auto. intros x y Hx Hy. apply H3; [exact Hx|apply in_or_app; right; exact Hy].
Qed.

Lemma sorted_tags_nodup (l : list psend) : StronglySorted tag_lt l -> NoDup (map ps_tag l).
Proof.
  induction 1 as [|x l Hs IH Hall]; cbn [map]; constructor; [|exact IH].
  intro Hin. apply in_map_iff in Hin. destruct Hin as [y [E Hy]].
  rewrite Forall_forall in Hall. specialize (Hall y Hy). unfold tag_lt in Hall. lia.
Qed.

Lemma nth_error_split_remove {A} (l : list A) k x :
  nth_error l k = Some x -> exists l1 l2, l = l1 ++ x :: l2 /\ remove_nth k l = l1 ++ l2 /\ length l1 = k.
Proof.
  revert k. induction l as [|y l IH]; intros k H; [destruct k; discriminate|].
  destruct k as [|k]; cbn [nth_error remove_nth] in *.
  - inversion H; subst. exists [], l. auto.
  - destruct (IH k H) as [l1 [l2 [E1 [E2 E3]]]]. exists (y :: l1), l2. cbn [app length]. rewrite <- E1, E2. auto.
Qed.

Lemma tag_items_spec call : forall raw idx tag,
  let items := tag_items call idx tag raw in
  length items = length raw
  /\ StronglySorted tag_lt items
  /\ (forall it, In it items -> tag <= ps_tag it /\ ps_tag it < tag + N.of_nat (length raw)).
Proof.
  induction raw as [|[[[c mid] al] dead] raw IH]; intros idx tag; cbn [tag_items length].
  - split; [reflexivity|]. split; [constructor|]. intros it [].
  - destruct (IH (idx + 1) (tag + 1)) as [I1 [I2 I3]].
    split; [cbn [length]; f_equal; exact I1|]. split.
    + constructor; [exact I2|]. apply Forall_forall. intros y Hy. destruct (I3 y Hy) as [Y1 _].
      unfold tag_lt. cbn [ps_tag]. lia.
    + intros it [E|Hin].
      * subst it. cbn [ps_tag]. lia.
      * destruct (I3 it Hin). lia.
Qed.

Lemma flat_map_snoc {A B} (f : A -> list B) l x : flat_map f (l ++ [x]) = flat_map f l ++ f x.
Proof. rewrite flat_map_app. cbn [flat_map]. rewrite app_nil_r. reflexivity. Qed.

(* the writer functions that do not touch the queue fields *)
Lemma record_fields s ev :
  ws_pending (recordAppendCompletion s ev) = ws_pending s /\ ws_next (recordAppendCompletion s ev) = ws_next s
  /\ ws_limit (recordAppendCompletion s ev) = ws_limit s /\ ws_hw (recordAppendCompletion s ev) = ws_hw s
  /\ ws_inflight (recordAppendCompletion s ev) = ws_inflight s.
Proof.
  unfold recordAppendCompletion.
  destruct (ev_seq ev <? ws_drain s); [auto|].
  destruct ((ev_seq ev =? ws_drain s) && negb (match ws_ready s with Some _ => true | None => false end)); auto.
Qed.

Lemma pop_fields s o s' :
  popNextAppendCompletion s = (o, s') ->
  ws_pending s' = ws_pending s /\ ws_next s' = ws_next s /\ ws_limit s' = ws_limit s /\ ws_hw s' = ws_hw s
  /\ ws_inflight s' = ws_inflight s.
Proof.
  unfold popNextAppendCompletion, pop_map.
  destruct (ws_ready s) as [r|].
  - destruct (ev_seq r =? ws_drain s).
    + intro H; inversion H; subst; cbn; auto.
    + destruct (map_get (ws_drain s) (ws_completed s)); intro H; inversion H; subst; cbn; auto.
  - destruct (map_get (ws_drain s) (ws_completed s)); intro H; inversion H; subst; cbn; auto.
Qed.

Lemma drain_fields fuel : forall s out s',
  drain fuel s = (out, s') ->
  ws_pending s' = ws_pending s /\ ws_next s' = ws_next s /\ ws_limit s' = ws_limit s /\ ws_hw s' = ws_hw s
  /\ ws_inflight s - N.of_nat (length out) <= ws_inflight s'.
Proof.
  induction fuel as [|fuel IH]; intros s out s' H; cbn [drain] in H.
  - inversion H; subst. cbn [length]. repeat split; auto; lia.
  - destruct (popNextAppendCompletion s) as [[e|] s1] eqn:P.
    + destruct (drain fuel (finishAppend s1 (N.of_nat (length (ev_items e))))) as [evs s2] eqn:D.
      inversion H; subst. clear H.
      destruct (pop_fields _ _ _ P) as [A1 [A2 [A3 [A4 A5]]]].
      destruct (IH _ _ _ D) as [B1 [B2 [B3 [B4 B5]]]]. cbn [finishAppend ws_pending ws_next ws_limit ws_hw ws_inflight] in *.
      repeat split; try congruence. cbn [length]. rewrite A5 in B5. lia.
    + pose proof (pop_none_state _ _ P) as E1. subst s1. inversion H; subst. cbn [length].
      repeat split; auto; lia.
Qed.

Lemma apply_fields s ev out s' :
  applyAppendCompletion s ev = (out, s') ->
  ws_pending s' = ws_pending s /\ ws_next s' = ws_next s /\ ws_limit s' = ws_limit s /\ ws_hw s' = ws_hw s
  /\ ws_inflight s - N.of_nat (length out) <= ws_inflight s'.
Proof.
  unfold applyAppendCompletion. intro H.
  destruct (record_fields s ev) as [A1 [A2 [A3 [A4 A5]]]].
  destruct (drain_fields _ _ _ _ H) as [B1 [B2 [B3 [B4 B5]]]].
  rewrite A5 in B5. repeat split; try congruence; exact B5.
Qed.

(* ---- multisets by counting ------------------------------------------------------------------ *)

Lemma cmd_eq_dec (a b : cmd) : {a = b} + {a <> b}.
Proof. decide equality; apply (list_eq_dec N.eq_dec). Defined.

Lemma psend_eq_dec (a b : psend) : {a = b} + {a <> b}.
Proof. decide equality; try apply N.eq_dec; try apply bool_dec; apply cmd_eq_dec. Defined.

Notation cnt := (count_occ psend_eq_dec).
Notation cntN := (count_occ N.eq_dec).

Lemma cnt_perm l1 l2 : Permutation l1 l2 -> forall x, cnt l1 x = cnt l2 x.
Proof. intro H. apply (Permutation_count_occ psend_eq_dec). exact H. Qed.

Lemma cnt_in l x : In x l <-> (0 < cnt l x)%nat.
Proof. apply count_occ_In. Qed.

(* ---- the pipeline invariant --------------------------------------------------------------------- *)

Section Pipe.
  Variable St : Type.
  Variable do_append : St -> areq -> areply * St.
  Variable do_nlookup : St -> bytes -> bytes -> nreply * St.
  Variable hashf : bytes -> N.
  Variable fp : cmd -> N.
  Variable slog : St -> list prec.
  Variable Wf : list prec -> Prop.
  Hypothesis Happ : append_contract St do_append slog Wf.
  Hypothesis Hlook : lookup_contract St do_nlookup hashf slog.

  Definition step := pstep St do_append do_nlookup hashf fp.

  Definition inflight_events (p : pstate St) : list event := p_done p ++ buffered (p_ws p).
  Definition all_comps (p : pstate St) : list comp := p_delivered p ++ flat_map ev_items (inflight_events p).
  Definition queued (p : pstate St) : list psend := flat_map ef_items (p_running p) ++ ws_pending (p_ws p).
  Definition eff_seqs (p : pstate St) : list N := map ef_seq (p_running p) ++ map ev_seq (inflight_events p).
  Definition outstanding (p : pstate St) : nat := (length (p_running p) + length (inflight_events p))%nat.

  Record PInv (p : pstate St) : Prop := {
    pi_log : LogOK (slog (p_store p));
    pi_wf : Wf (slog (p_store p));
    (* conservation: every submitted item is queued, in flight or delivered — exactly once *)
    pi_cons : forall x, cnt (map cp_item (all_comps p) ++ queued p) x = cnt (p_submitted p) x;
    pi_sorted : StronglySorted tag_lt (p_submitted p);
    pi_bound : forall it, In it (p_submitted p) -> ps_tag it < p_next_tag p;
    pi_queue : StronglySorted tag_lt (queued p);
    pi_backed : forall c, In c (all_comps p) -> backed hashf (slog (p_store p)) c;
    pi_commit : forall c, In c (all_comps p) -> cp_committed c = true ->
                is_success (cp_res c) = true
                /\ In (PRec (r_seq (cp_res c)) (r_id (cp_res c)) (tagof c) (ps_cmd (cp_item c))) (slog (p_store p));
    pi_logtags : forall r, In r (slog (p_store p)) ->
                 exists c, In c (all_comps p) /\ tagof c = pr_tag r /\ ps_cmd (cp_item c) = pr_cmd r;
    pi_buf : BufOK (p_ws p);
    pi_seqs : NoDup (eff_seqs p);
    pi_seqb : forall q, In q (eff_seqs p) -> ws_drain (p_ws p) <= q /\ q < ws_next (p_ws p);
    pi_dn : ws_drain (p_ws p) <= ws_next (p_ws p);
    pi_inflight : N.of_nat (outstanding p) <= ws_inflight (p_ws p) }.

  Lemma in_submitted p x : PInv p -> In x (map cp_item (all_comps p) ++ queued p) -> In x (p_submitted p).
  Proof. intros I H. apply cnt_in. rewrite <- (pi_cons _ I). apply cnt_in. exact H. Qed.

  Lemma comp_tag_bound p c : PInv p -> In c (all_comps p) -> tagof c < p_next_tag p.
  Proof.
    intros I H. apply (pi_bound _ I). apply (in_submitted _ _ I). apply in_or_app. left.
    apply in_map. exact H.
  Qed.

  Lemma queued_tag_bound p it : PInv p -> In it (queued p) -> ps_tag it < p_next_tag p.
  Proof. intros I H. apply (pi_bound _ I). apply (in_submitted _ _ I). apply in_or_app. right. exact H. Qed.

  (* an item is never both queued and completed *)
  Lemma comp_not_queued p c it : PInv p -> In c (all_comps p) -> In it (queued p) -> tagof c <> ps_tag it.
  Proof.
    intros I Hc Hq E.
    pose proof (sorted_tags_nodup _ (pi_sorted _ I)) as Hnd.
    assert (Hp : Permutation (map cp_item (all_comps p) ++ queued p) (p_submitted p)).
    { apply (Permutation_count_occ psend_eq_dec). apply (pi_cons _ I). }
    apply (Permutation_map ps_tag) in Hp. apply Permutation_sym in Hp.
    pose proof (Permutation_NoDup Hp Hnd) as Hnd2. rewrite map_app in Hnd2.
    clear -Hnd2 Hc Hq E. revert Hnd2.
    generalize (map ps_tag (map cp_item (all_comps p))) as l1, (in_map ps_tag _ _ (in_map cp_item _ _ Hc)).
    intros l1 H1 Hnd. unfold tagof in E. rewrite E in H1.
    apply in_split in H1. destruct H1 as [a [b Eb]]. subst l1.
    rewrite <- app_assoc in Hnd. cbn [app] in Hnd. apply NoDup_remove_2 in Hnd.
    apply Hnd. apply in_or_app. right. apply in_or_app. right. apply in_map. exact Hq.
  Qed.

  (* ---- PSubmit ---------------------------------------------------------------------------------- *)

  Lemma enqueue_buffered s items : buffered (enqueuePrepared s items) = buffered s.
  Proof. reflexivity. Qed.

  Lemma errcomps_items items cls : map cp_item (appendBatchErrorCompletions items cls) = items.
  Proof. unfold appendBatchErrorCompletions. rewrite map_map. apply map_id. Qed.

  Lemma step_submit p raw : PInv p -> PInv (step p (PSubmit raw)).
  Proof.
    intros I. unfold step, pstep.
    set (items := tag_items (p_next_call p) 0 (p_next_tag p) raw).
    destruct (tag_items_spec (p_next_call p) raw 0 (p_next_tag p)) as [T1 [T2 T3]]. fold items in T1, T2, T3.
    assert (Hnew : forall a b, In a (p_submitted p) -> In b items -> ps_tag a < ps_tag b).
    { intros a b Ha Hb. pose proof (pi_bound _ I a Ha). destruct (T3 b Hb). lia. }
    assert (Hsorted' : StronglySorted tag_lt (p_submitted p ++ items)).
    { apply sorted_app_intro; [apply (pi_sorted _ I)|exact T2|exact Hnew]. }
    assert (Hbound' : forall it, In it (p_submitted p ++ items) ->
                      ps_tag it < p_next_tag p + N.of_nat (length items)).
    { intros it Hit. apply in_app_iff in Hit. destruct Hit as [Hit|Hit].
      - pose proof (pi_bound _ I it Hit). lia.
      - destruct (T3 it Hit). rewrite T1. lia. }
    destruct I as [I1 IW I2 I3 I4 I5 I6 I7 I8 I9 I10 I11 I12 I13].
    destruct (canAdmit (p_ws p) (Z.of_nat (length items))) eqn:CA.
    - match goal with |- PInv ?q => set (p' := q) end.
      assert (Ea : all_comps p' = all_comps p) by reflexivity.
      assert (Es : eff_seqs p' = eff_seqs p) by reflexivity.
      assert (Eq : queued p' = queued p ++ items).
      { unfold queued, p'. cbn [p_running p_ws ws_pending enqueuePrepared]. apply app_assoc. }
      constructor; rewrite ?Ea, ?Es.
      + exact I1.
      + exact IW.
      + intro x. rewrite Eq. unfold p'. cbn [p_submitted]. specialize (I2 x).
        rewrite !count_occ_app in *. lia.
      + exact Hsorted'.
      + exact Hbound'.
      + rewrite Eq. apply sorted_app_intro; [exact I5|exact T2|].
        intros a b Ha Hb. apply Hnew; [|exact Hb].
        apply cnt_in. rewrite <- I2. apply cnt_in. apply in_or_app. right. exact Ha.
      + exact I6.
      + exact I7.
      + exact I8.
      + destruct I9 as [B1 B2 B3]. constructor; assumption.
      + exact I10.
      + exact I11.
      + exact I12.
      + exact I13.
    - match goal with |- PInv ?q => set (p' := q) end.
      set (E := appendBatchErrorCompletions items E_CHANNEL_BUSY).
      assert (Hin : forall c, In c (all_comps p') <-> In c (all_comps p) \/ In c E).
      { intro c. unfold all_comps, inflight_events, p'. cbn [p_delivered p_done p_ws].
        rewrite !in_app_iff. tauto. }
      assert (HE : forall c, In c E -> is_success (cp_res c) = false /\ cp_committed c = false).
      { intros c Hc. unfold E, appendBatchErrorCompletions in Hc. apply in_map_iff in Hc.
        destruct Hc as [it [Ec _]]. subst c. split; reflexivity. }
      assert (Es : eff_seqs p' = eff_seqs p) by reflexivity.
      constructor; rewrite ?Es.
      + exact I1.
      + exact IW.
      + intro x. unfold all_comps, inflight_events, queued, p' in *.
        cbn [p_delivered p_done p_ws p_running p_submitted]. specialize (I2 x). fold E.
        rewrite !map_app in *. unfold E. rewrite errcomps_items. rewrite !count_occ_app in *. lia.
      + exact Hsorted'.
      + exact Hbound'.
      + exact I5.
      + intros c Hc. apply Hin in Hc. destruct Hc as [Hc|Hc]; [apply I6; exact Hc|].
        intro Hs. rewrite (proj1 (HE c Hc)) in Hs. discriminate.
      + intros c Hc K. apply Hin in Hc. destruct Hc as [Hc|Hc]; [apply I7; assumption|].
        rewrite (proj2 (HE c Hc)) in K. discriminate.
      + intros r Hr. destruct (I8 r Hr) as [c [C1 C2]]. exists c. split; [apply Hin; left; exact C1|exact C2].
      + exact I9.
      + exact I10.
      + exact I11.
      + exact I12.
      + exact I13.
  Qed.

  (* ---- PAdvance -------------------------------------------------------------------------------- *)

  Lemma next_batch_spec s sq items s' :
    nextAppendBatch s = (Some (sq, items), s') ->
    sq = ws_next s /\ items = ws_pending s /\ ws_pending s' = [] /\ ws_next s' = ws_next s + 1
    /\ ws_inflight s' = ws_inflight s + 1 /\ ws_drain s' = ws_drain s /\ ws_ready s' = ws_ready s
    /\ ws_completed s' = ws_completed s /\ ws_limit s' = ws_limit s /\ canStartAppend s = true.
  Proof.
    unfold nextAppendBatch. destruct (is_nil (ws_pending s)); [discriminate|].
    destruct (canStartAppend s) eqn:C; cbn [negb]; [|discriminate].
    intro H. inversion H; subst. cbn. repeat split; reflexivity.
  Qed.

  Lemma step_advance p : PInv p -> PInv (step p PAdvance).
  Proof.
    intros I. unfold step, pstep.
    destruct (nextAppendBatch (p_ws p)) as [[[sq items]|] ws'] eqn:NB; [|exact I].
    destruct (next_batch_spec _ _ _ _ NB) as [E1 [E2 [E3 [E4 [E5 [E6 [E7 [E8 [E9 _]]]]]]]]].
    match goal with |- PInv ?q => set (p' := q) end.
    assert (Eb : buffered ws' = buffered (p_ws p)) by (unfold buffered; rewrite E7, E8; reflexivity).
    assert (Ea : all_comps p' = all_comps p).
    { unfold all_comps, inflight_events, p'. cbn [p_delivered p_done p_ws]. rewrite Eb. reflexivity. }
    assert (Eq : queued p' = queued p).
    { unfold queued, p'. cbn [p_running p_ws]. rewrite flat_map_snoc, E3, app_nil_r. cbn [ef_items]. rewrite E2. reflexivity. }
    assert (Es : forall q, In q (eff_seqs p') <-> q = sq \/ In q (eff_seqs p)).
    { intro q. unfold eff_seqs, inflight_events, p'. cbn [p_running p_done p_ws]. rewrite Eb.
      rewrite map_app. cbn [map ef_seq]. rewrite !in_app_iff. cbn [In]. intuition. }
    destruct I as [I1 IW I2 I3 I4 I5 I6 I7 I8 I9 I10 I11 I12 I13].
    constructor; rewrite ?Ea, ?Eq.
    - exact I1.
    - exact IW.
    - exact I2.
    - exact I3.
    - exact I4.
    - exact I5.
    - exact I6.
    - exact I7.
    - exact I8.
    - destruct I9 as [B1 B2 B3]. unfold p'. cbn [p_ws]. constructor.
      + intros k e Hin. rewrite E8 in Hin. apply (B1 _ _ Hin).
      + rewrite E8. exact B2.
      + intros e He. rewrite E7 in He. rewrite E6. apply B3. exact He.
    - unfold eff_seqs, inflight_events, p'. cbn [p_running p_done p_ws]. rewrite Eb.
      rewrite map_app. cbn [map ef_seq]. rewrite <- app_assoc. cbn [app].
      apply (NoDup_Add (a := sq) (l := eff_seqs p)); [unfold eff_seqs, inflight_events; apply Add_app|].
      split; [exact I10|]. intro Hin. destruct (I11 _ Hin) as [_ Hlt]. lia.
    - intros q Hq. apply Es in Hq. unfold p'. cbn [p_ws]. rewrite E6, E4.
      destruct Hq as [Hq|Hq]; [subst q; lia|]. destruct (I11 q Hq). lia.
    - unfold p'. cbn [p_ws]. rewrite E6, E4. lia.
    - unfold outstanding, inflight_events, p' in *. cbn [p_running p_done p_ws]. rewrite Eb, E5.
      rewrite app_length. cbn [length]. lia.
  Qed.

  (* ---- PRun --------------------------------------------------------------------------------------- *)

  Lemma perm_move_seq (a1 a2 d b : list N) x :
    Permutation ((a1 ++ x :: a2) ++ (d ++ b)) ((a1 ++ a2) ++ ((d ++ [x]) ++ b)).
  Proof.
    apply (Permutation_count_occ N.eq_dec). intro q.
    rewrite !count_occ_app. cbn [count_occ]. destruct (N.eq_dec x q); lia.
  Qed.

  Lemma step_run p k : PInv p -> PInv (step p (PRun k)).
  Proof.
    intros I. unfold step, pstep.
    destruct (nth_error (p_running p) k) as [ef|] eqn:Nk; [|exact I].
    destruct (run St do_append do_nlookup hashf fp (p_store p) ef) as [ev s'] eqn:R.
    match goal with |- PInv ?q => set (p' := q) end.
    destruct (nth_error_split_remove _ _ _ Nk) as [r1 [r2 [E1 [E2 _]]]].
    assert (Eq : queued p = flat_map ef_items r1 ++ ef_items ef ++ flat_map ef_items r2 ++ ws_pending (p_ws p)).
    { unfold queued. rewrite E1, flat_map_app. cbn [flat_map]. rewrite <- !app_assoc. reflexivity. }
    assert (Eq' : queued p' = flat_map ef_items r1 ++ flat_map ef_items r2 ++ ws_pending (p_ws p)).
    { unfold queued, p'. cbn [p_running p_ws]. rewrite E2, flat_map_app, <- app_assoc. reflexivity. }
    pose proof (pi_queue _ I) as Hq. rewrite Eq in Hq.
    assert (Hefs : StronglySorted tag_lt (ef_items ef)).
    { apply sorted_app_inv in Hq. destruct Hq as [_ [Hq _]]. apply sorted_app_inv in Hq. tauto. }
    destruct (run_spec St do_append do_nlookup hashf fp slog Wf Happ Hlook _ _ _ _ (pi_wf _ I) (pi_log _ I) Hefs R)
      as [ext [X1 [XW [X2 [X3 [X4 [X5 X6]]]]]]].
    assert (Ea : all_comps p' = p_delivered p ++ (flat_map ev_items (p_done p) ++ ev_items ev)
                                 ++ flat_map ev_items (buffered (p_ws p))).
    { unfold all_comps, inflight_events, p'. cbn [p_delivered p_done p_ws].
      rewrite flat_map_app, flat_map_snoc. reflexivity. }
    assert (Ea0 : all_comps p = p_delivered p ++ flat_map ev_items (p_done p)
                                ++ flat_map ev_items (buffered (p_ws p))).
    { unfold all_comps, inflight_events. rewrite flat_map_app. reflexivity. }
    assert (Hin : forall c, In c (all_comps p') <-> In c (all_comps p) \/ In c (ev_items ev)).
    { intro c. rewrite Ea, Ea0. rewrite !in_app_iff. tauto. }
    assert (Hsub : forall r, In r (slog (p_store p)) -> In r (slog s')).
    { intros r Hr. rewrite X1. apply in_or_app. left. exact Hr. }
    rewrite Forall_forall in X5.
    destruct I as [I1 IW I2 I3 I4 I5 I6 I7 I8 I9 I10 I11 I12 I13].
    constructor.
    - unfold p'. cbn [p_store]. rewrite X1. eapply LogOK_ext; eauto.
    - exact XW.
    - intro x. rewrite Ea, Eq'. specialize (I2 x). rewrite Ea0, Eq in I2.
      pose proof (cnt_perm _ _ X4 x) as Hx.
      unfold p'. cbn [p_submitted]. rewrite <- I2.
      rewrite !map_app, !count_occ_app. rewrite !map_app, !count_occ_app in *. lia.
    - exact I3.
    - exact I4.
    - rewrite Eq'. eapply sorted_remove_mid. exact Hq.
    - intros c Hc. apply Hin in Hc. unfold p'. cbn [p_store]. destruct Hc as [Hc|Hc].
      + eapply backed_mono; [exact Hsub|apply I6; exact Hc].
      + rewrite X1. eapply eorigin_backed. apply X5. exact Hc.
    - intros c Hc K. apply Hin in Hc. unfold p'. cbn [p_store]. destruct Hc as [Hc|Hc].
      + destruct (I7 c Hc K) as [S1 S2]. split; [exact S1|apply Hsub; exact S2].
      + destruct (eorigin_committed _ _ _ _ _ _ _ (X5 c Hc) K) as [S1 S2].
        split; [exact S1|]. rewrite X1. apply in_or_app. right. exact S2.
    - intros r Hr. unfold p' in Hr. cbn [p_store] in Hr. rewrite X1 in Hr. apply in_app_iff in Hr.
      destruct Hr as [Hr|Hr].
      + destruct (I8 r Hr) as [c [C1 C2]]. exists c. split; [apply Hin; left; exact C1|exact C2].
      + destruct (eo_from _ _ _ X2 r Hr) as [it [T1 [T2 T3]]].
        apply (Permutation_in _ (Permutation_sym X4)) in T1. apply in_map_iff in T1.
        destruct T1 as [c [C1 C2]]. exists c. split; [apply Hin; right; exact C2|].
        unfold tagof. rewrite C1. split; symmetry; assumption.
    - exact I9.
    - apply (Permutation_NoDup (l := eff_seqs p)); [|exact I10].
      unfold eff_seqs, inflight_events, p'. cbn [p_running p_done p_ws].
      rewrite E2, E1. rewrite !map_app. cbn [map]. rewrite X3. apply perm_move_seq.
    - intros q Hq'. apply I11.
      assert (Hp : Permutation (eff_seqs p) (eff_seqs p')).
      { unfold eff_seqs, inflight_events, p'. cbn [p_running p_done p_ws].
        rewrite E2, E1. rewrite !map_app. cbn [map]. rewrite X3. apply perm_move_seq. }
      apply (Permutation_in _ (Permutation_sym Hp)). exact Hq'.
    - exact I12.
    - unfold outstanding, inflight_events, p' in *. cbn [p_running p_done p_ws].
      rewrite E2. rewrite E1 in I13. rewrite !app_length in *. cbn [length] in *. lia.
  Qed.

  (* ---- PApply ------------------------------------------------------------------------------------- *)

  Lemma consec_covers k l v : consec k l -> k <= v -> v < k + N.of_nat (length l) -> In v l.
  Proof.
    revert k. induction l as [|x l IH]; intros k H H1 H2; cbn [length] in H2; [lia|].
    destruct H as [E H]. subst x. destruct (N.eq_dec v k) as [Ev|Ev]; [left; congruence|].
    right. apply (IH (k + 1)); [exact H|lia|lia].
  Qed.

  Lemma NoDup_app_r {A} (l1 l2 : list A) : NoDup (l1 ++ l2) -> NoDup l2.
  Proof. induction l1 as [|x l1 IH]; cbn [app]; intro H; [exact H|]. inversion H; auto. Qed.

  Lemma NoDup_app_l {A} (l1 l2 : list A) : NoDup (l1 ++ l2) -> NoDup l1.
  Proof.
    induction l1 as [|x l1 IH]; cbn [app]; intro H; [constructor|].
    inversion H as [|y l Hy Hnd]; subst. constructor; [|apply IH; exact Hnd].
    intro Hin. apply Hy. apply in_or_app. left. exact Hin.
  Qed.

  Lemma NoDup_app_disjoint {A} (l1 l2 : list A) x : NoDup (l1 ++ l2) -> In x l1 -> In x l2 -> False.
  Proof.
    induction l1 as [|y l1 IH]; cbn [app]; intros H H1 H2; [contradiction|].
    inversion H as [|z l Hz Hnd]; subst. destruct H1 as [H1|H1].
    - subst y. apply Hz. apply in_or_app. right. exact H2.
    - apply IH; assumption.
  Qed.

  Lemma perm_apply_shape {A} (d1 d2 B B' evs : list A) ev :
    Permutation (ev :: B) (evs ++ B') -> Permutation ((d1 ++ ev :: d2) ++ B) (evs ++ (d1 ++ d2) ++ B').
  Proof.
    intro H. rewrite <- app_assoc. cbn [app].
    eapply perm_trans; [apply Permutation_sym; apply Permutation_middle|].
    rewrite app_assoc.
    eapply perm_trans; [apply Permutation_middle|].
    eapply perm_trans; [apply Permutation_app_head; exact H|].
    apply Permutation_app_swap_app.
  Qed.

  Lemma step_apply p k : PInv p -> PInv (step p (PApply k)).
  Proof.
    intros I. unfold step, pstep.
    destruct (nth_error (p_done p) k) as [ev|] eqn:Nk; [|exact I].
    destruct (applyAppendCompletion (p_ws p) ev) as [evs ws'] eqn:A.
    match goal with |- PInv ?q => set (p' := q) end.
    destruct (nth_error_split_remove _ _ _ Nk) as [d1 [d2 [E1 [E2 _]]]].
    pose proof (pi_seqs _ I) as Hnd. pose proof (pi_seqb _ I) as Hb.
    assert (Hevin : In (ev_seq ev) (eff_seqs p)).
    { unfold eff_seqs, inflight_events. rewrite E1. rewrite !map_app. cbn [map].
      apply in_or_app. right. apply in_or_app. left. apply in_or_app. right. left. reflexivity. }
    assert (Hnew : ~ In (ev_seq ev) (map ev_seq (buffered (p_ws p)))).
    { intro Hin. unfold eff_seqs, inflight_events in Hnd. rewrite E1 in Hnd. rewrite !map_app in Hnd. cbn [map] in Hnd.
      apply NoDup_app_r in Hnd. rewrite <- app_assoc in Hnd. apply NoDup_app_r in Hnd. cbn [app] in Hnd.
      inversion Hnd as [|x l Hx _]; subst. apply Hx. apply in_or_app. right. exact Hin. }
    destruct (apply_perm _ _ _ _ (pi_buf _ I) (proj1 (Hb _ Hevin)) Hnew A) as [Hperm HB'].
    destruct (apply_fields _ _ _ _ A) as [F1 [F2 [F3 [F4 F5]]]].
    destruct (apply_spec _ _ _ _ (bo_entries _ (pi_buf _ I)) A) as [Hc [Hd _]].
    assert (Hev : Permutation (inflight_events p) (evs ++ inflight_events p')).
    { unfold inflight_events, p'. cbn [p_done p_ws]. rewrite E2, E1. apply perm_apply_shape. exact Hperm. }
    assert (Hac : Permutation (all_comps p) (all_comps p')).
    { unfold all_comps at 2. unfold p' at 1. cbn [p_delivered]. unfold all_comps.
      rewrite <- app_assoc. apply Permutation_app_head. rewrite <- flat_map_app.
      apply Permutation_flat_map. exact Hev. }
    assert (Hin : forall c, In c (all_comps p') <-> In c (all_comps p)).
    { intro c. split; intro H; [apply (Permutation_in _ (Permutation_sym Hac))|apply (Permutation_in _ Hac)]; exact H. }
    assert (Eq : queued p' = queued p) by (unfold queued, p'; cbn [p_running p_ws]; rewrite F1; reflexivity).
    assert (Hsq : Permutation (eff_seqs p) (map ev_seq evs ++ eff_seqs p')).
    { unfold eff_seqs. unfold p' at 1. cbn [p_running].
      eapply perm_trans; [apply Permutation_app_head; apply Permutation_map; exact Hev|].
      rewrite map_app. rewrite !app_assoc. apply Permutation_app_tail. apply Permutation_app_comm. }
    pose proof (Permutation_NoDup Hsq Hnd) as Hnd2.
    assert (Hevs : forall q, In q (map ev_seq evs) -> In q (eff_seqs p)).
    { intros q Hq. apply (Permutation_in _ (Permutation_sym Hsq)). apply in_or_app. left. exact Hq. }
    destruct I as [I1 IW I2 I3 I4 I5 I6 I7 I8 I9 I10 I11 I12 I13].
    constructor.
    - exact I1.
    - exact IW.
    - intro x. rewrite Eq. unfold p'. cbn [p_submitted]. rewrite <- I2.
      rewrite !count_occ_app. f_equal. apply cnt_perm. apply Permutation_map. apply Permutation_sym. exact Hac.
    - exact I3.
    - exact I4.
    - rewrite Eq. exact I5.
    - intros c Hcc. apply I6. apply Hin. exact Hcc.
    - intros c Hcc K. apply I7; [apply Hin; exact Hcc|exact K].
    - intros r Hr. destruct (I8 r Hr) as [c [C1 C2]]. exists c. split; [apply Hin; exact C1|exact C2].
    - exact HB'.
    - eapply NoDup_app_r. exact Hnd2.
    - intros q Hq. unfold p'. cbn [p_ws]. rewrite F2, Hd.
      assert (Hq0 : In q (eff_seqs p)).
      { apply (Permutation_in _ (Permutation_sym Hsq)). apply in_or_app. right. exact Hq. }
      destruct (I11 q Hq0) as [Q1 Q2]. split; [|exact Q2].
      destruct (N.lt_ge_cases q (ws_drain (p_ws p) + N.of_nat (length evs))) as [L|L]; [|exact L].
      exfalso. apply (NoDup_app_disjoint _ _ q Hnd2); [|exact Hq].
      apply (consec_covers (ws_drain (p_ws p))); [exact Hc|exact Q1|rewrite map_length; exact L].
    - unfold p'. cbn [p_ws]. rewrite F2, Hd.
      destruct evs as [|e0 evs0] eqn:Ee; [cbn [length]; lia|].
      assert (Hlast : In (ws_drain (p_ws p) + N.of_nat (length (e0 :: evs0)) - 1) (map ev_seq (e0 :: evs0))).
      { apply (consec_covers (ws_drain (p_ws p))); [exact Hc| |rewrite map_length]; cbn [length]; lia. }
      destruct (I11 _ (Hevs _ Hlast)) as [_ Q2]. cbn [length] in *. lia.
    - change (p_ws p') with ws'.
      assert (Hl : outstanding p = (length evs + outstanding p')%nat).
      { unfold outstanding. pose proof (Permutation_length Hev) as L. rewrite app_length in L.
        unfold p' at 1. cbn [p_running]. lia. }
      rewrite Hl, Nnat.Nat2N.inj_add in I13. lia.
  Qed.

  (* every step of the pipeline preserves the invariant *)
  Theorem step_inv p e : PInv p -> PInv (step p e).
  Proof.
    destruct e as [raw| |k|k]; [apply step_submit|apply step_advance|apply step_run|apply step_apply].
  Qed.

  (* ---- at most one append in flight: committed completions are ordered ------------------------ *)

  Record POrd (p : pstate St) : Prop := {
    po_limit : (ws_limit (p_ws p) <= 1)%Z;
    po_one : (outstanding p <= 1)%nat;
    (* everything committed so far precedes everything still queued *)
    po_before : forall c it, In c (all_comps p) -> cp_committed c = true -> In it (queued p) -> tagof c < ps_tag it;
    po_order : forall c1 c2, In c1 (all_comps p) -> In c2 (all_comps p) ->
               cp_committed c1 = true -> cp_committed c2 = true -> tagof c1 < tagof c2 ->
               r_seq (cp_res c1) < r_seq (cp_res c2) }.

  Lemma step_ord p e : PInv p -> POrd p -> POrd (step p e).
  Proof.
    intros I [O1 O2 O3 O4]. pose proof (step_inv p e I) as I'. revert I'. unfold step.
    destruct e as [raw| |k|k]; cbn [pstep].
    - (* submit *)
      set (items := tag_items (p_next_call p) 0 (p_next_tag p) raw).
      destruct (tag_items_spec (p_next_call p) raw 0 (p_next_tag p)) as [T1 [T2 T3]]. fold items in T1, T2, T3.
      destruct (canAdmit (p_ws p) (Z.of_nat (length items))); intros _.
      + match goal with |- POrd ?q => set (p' := q) end.
        assert (Ea : all_comps p' = all_comps p) by reflexivity.
        assert (Eq : queued p' = queued p ++ items).
        { unfold queued, p'. cbn [p_running p_ws ws_pending enqueuePrepared]. apply app_assoc. }
        constructor; rewrite ?Ea.
        * exact O1.
        * exact O2.
        * intros c it Hc K Hit. rewrite Eq in Hit. apply in_app_iff in Hit. destruct Hit as [Hit|Hit].
          -- apply O3; assumption.
          -- pose proof (comp_tag_bound _ _ I Hc). destruct (T3 it Hit). lia.
        * exact O4.
      + match goal with |- POrd ?q => set (p' := q) end.
        set (E := appendBatchErrorCompletions items E_CHANNEL_BUSY).
        assert (Hin : forall c, In c (all_comps p') <-> In c (all_comps p) \/ In c E).
        { intro c. unfold all_comps, inflight_events, p'. cbn [p_delivered p_done p_ws].
          rewrite !in_app_iff. tauto. }
        assert (HE : forall c, In c E -> cp_committed c = false).
        { intros c Hc. unfold E, appendBatchErrorCompletions in Hc. apply in_map_iff in Hc.
          destruct Hc as [it [Ec _]]. subst c. reflexivity. }
        constructor.
        * exact O1.
        * exact O2.
        * intros c it Hc K Hit. apply Hin in Hc. destruct Hc as [Hc|Hc]; [apply O3; assumption|].
          rewrite (HE c Hc) in K. discriminate.
        * intros c1 c2 H1 H2 K1 K2. apply Hin in H1. apply Hin in H2.
          destruct H1 as [H1|H1]; [|rewrite (HE c1 H1) in K1; discriminate].
          destruct H2 as [H2|H2]; [|rewrite (HE c2 H2) in K2; discriminate].
          apply O4; assumption.
    - (* advance *)
      destruct (nextAppendBatch (p_ws p)) as [[[sq items]|] ws'] eqn:NB; intros _; [|constructor; assumption].
      destruct (next_batch_spec _ _ _ _ NB) as [E1 [E2 [E3 [E4 [E5 [E6 [E7 [E8 [E9 CS]]]]]]]]].
      match goal with |- POrd ?q => set (p' := q) end.
      assert (Eb : buffered ws' = buffered (p_ws p)) by (unfold buffered; rewrite E7, E8; reflexivity).
      assert (Ea : all_comps p' = all_comps p).
      { unfold all_comps, inflight_events, p'. cbn [p_delivered p_done p_ws]. rewrite Eb. reflexivity. }
      assert (Eq : queued p' = queued p).
      { unfold queued, p'. cbn [p_running p_ws]. rewrite flat_map_snoc, E3, app_nil_r. cbn [ef_items]. rewrite E2. reflexivity. }
      constructor; rewrite ?Ea, ?Eq; auto.
      + unfold p'. cbn [p_ws]. rewrite E9. exact O1.
      + (* an append may start only when none is in flight *)
        unfold canStartAppend in CS. destruct (is_nil (ws_pending (p_ws p))); [discriminate|].
        apply Z.ltb_lt in CS.
        assert (H0 : ws_inflight (p_ws p) = 0).
        { destruct (ws_limit (p_ws p) <=? 0)%Z; lia. }
        pose proof (pi_inflight _ I) as Hin. rewrite H0 in Hin.
        unfold outstanding, inflight_events, p' in *. cbn [p_running p_done p_ws]. rewrite Eb.
        rewrite app_length. cbn [length]. lia.
    - (* run *)
      destruct (nth_error (p_running p) k) as [ef|] eqn:Nk; [|intros _; constructor; assumption].
      destruct (run St do_append do_nlookup hashf fp (p_store p) ef) as [ev s'] eqn:R. intros _.
      match goal with |- POrd ?q => set (p' := q) end.
      (* the effect is the only outstanding one *)
      assert (Hrun : p_running p = [ef] /\ inflight_events p = []).
      { unfold outstanding in O2. destruct (p_running p) as [|x [|y l]] eqn:ER.
        - destruct k; discriminate.
        - destruct k as [|k]; [|destruct k; discriminate]. inversion Nk; subst x.
          split; [reflexivity|]. destruct (inflight_events p); [reflexivity|cbn [length] in O2; lia].
        - cbn [length] in O2. lia. }
      destruct Hrun as [ER EI].
      assert (Ek : k = 0%nat) by (rewrite ER in Nk; destruct k as [|k]; [reflexivity|destruct k; discriminate]).
      subst k.
      assert (Eq : queued p = ef_items ef ++ ws_pending (p_ws p)).
      { unfold queued. rewrite ER. cbn [flat_map]. rewrite app_nil_r. reflexivity. }
      assert (Eq' : queued p' = ws_pending (p_ws p)).
      { unfold queued, p'. cbn [p_running p_ws]. rewrite ER. reflexivity. }
      pose proof (pi_queue _ I) as Hq. rewrite Eq in Hq.
      destruct (sorted_app_inv _ _ Hq) as [Hefs [_ Hlt]].
      destruct (run_spec St do_append do_nlookup hashf fp slog Wf Happ Hlook _ _ _ _ (pi_wf _ I) (pi_log _ I) Hefs R)
        as [ext [X1 [XW [X2 [X3 [X4 [X5 X6]]]]]]].
      unfold inflight_events in EI. apply app_eq_nil in EI. destruct EI as [ED EB].
      assert (Hin : forall c, In c (all_comps p') <-> In c (all_comps p) \/ In c (ev_items ev)).
      { intro c. unfold all_comps, inflight_events, p'. cbn [p_delivered p_done p_ws].
        rewrite ED, EB. cbn [app flat_map]. rewrite !app_nil_r, !in_app_iff. cbn [In]. tauto. }
      assert (Hnewtag : forall c, In c (ev_items ev) -> In (cp_item c) (ef_items ef)).
      { intros c Hc. apply (Permutation_in _ X4). apply in_map. exact Hc. }
      rewrite Forall_forall in X5.
      constructor.
      + exact O1.
      + unfold outstanding, inflight_events, p' in *. cbn [p_running p_done p_ws].
        rewrite ER, ED, EB. cbn. lia.
      + intros c it Hc K Hit. rewrite Eq' in Hit. apply Hin in Hc. destruct Hc as [Hc|Hc].
        * apply O3; [exact Hc|exact K|]. rewrite Eq. apply in_or_app. right. exact Hit.
        * apply Hlt; [apply Hnewtag; exact Hc|exact Hit].
      + intros c1 c2 H1 H2 K1 K2 Ht. apply Hin in H1. apply Hin in H2.
        destruct H1 as [H1|H1]; destruct H2 as [H2|H2].
        * apply O4; assumption.
        * destruct (pi_commit _ I c1 H1 K1) as [_ S1].
          destruct (eorigin_committed _ _ _ _ _ _ _ (X5 c2 H2) K2) as [_ S2].
          pose proof (eo_above _ _ _ X2 _ _ S1 S2) as Hab. cbn [pr_seq] in Hab. exact Hab.
        * exfalso. assert (Hq1 : In (cp_item c1) (queued p)).
          { rewrite Eq. apply in_or_app. left. apply Hnewtag. exact H1. }
          pose proof (O3 c2 (cp_item c1) H2 K2 Hq1) as Hb'. unfold tagof in *. lia.
        * apply X6; assumption.
    - (* apply *)
      destruct (nth_error (p_done p) k) as [ev|] eqn:Nk; [|intros _; constructor; assumption].
      destruct (applyAppendCompletion (p_ws p) ev) as [evs ws'] eqn:A. intro I'.
      match goal with |- POrd ?q => set (p' := q) in * end.
      destruct (apply_fields _ _ _ _ A) as [F1 [F2 [F3 [F4 F5]]]].
      (* the invariant of the new state gives the multiset of completions back *)
      assert (Hcnt : forall x, cnt (map cp_item (all_comps p')) x = cnt (map cp_item (all_comps p)) x).
      { intro x. pose proof (pi_cons _ I' x) as C1. pose proof (pi_cons _ I x) as C2.
        assert (Eq : queued p' = queued p) by (unfold queued, p'; cbn [p_running p_ws]; rewrite F1; reflexivity).
        rewrite Eq in C1. unfold p' in C1 at 2. cbn [p_submitted] in C1. rewrite count_occ_app in *. lia. }
      destruct (nth_error_split_remove _ _ _ Nk) as [d1 [d2 [E1 [E2 _]]]].
      pose proof (pi_seqs _ I) as Hnd. pose proof (pi_seqb _ I) as Hb.
      assert (Hevin : In (ev_seq ev) (eff_seqs p)).
      { unfold eff_seqs, inflight_events. rewrite E1. rewrite !map_app. cbn [map].
        apply in_or_app. right. apply in_or_app. left. apply in_or_app. right. left. reflexivity. }
      assert (Hnew : ~ In (ev_seq ev) (map ev_seq (buffered (p_ws p)))).
      { intro Hin. unfold eff_seqs, inflight_events in Hnd. rewrite E1 in Hnd. rewrite !map_app in Hnd. cbn [map] in Hnd.
        apply NoDup_app_r in Hnd. rewrite <- app_assoc in Hnd. apply NoDup_app_r in Hnd. cbn [app] in Hnd.
        inversion Hnd as [|x l Hx _]; subst. apply Hx. apply in_or_app. right. exact Hin. }
      destruct (apply_perm _ _ _ _ (pi_buf _ I) (proj1 (Hb _ Hevin)) Hnew A) as [Hperm _].
      assert (Hev : Permutation (inflight_events p) (evs ++ inflight_events p')).
      { unfold inflight_events, p'. cbn [p_done p_ws]. rewrite E2, E1. apply perm_apply_shape. exact Hperm. }
      assert (Hac : Permutation (all_comps p) (all_comps p')).
      { unfold all_comps at 2. unfold p' at 1. cbn [p_delivered]. unfold all_comps.
        rewrite <- app_assoc. apply Permutation_app_head. rewrite <- flat_map_app.
        apply Permutation_flat_map. exact Hev. }
      assert (Hin : forall c, In c (all_comps p') -> In c (all_comps p)).
      { intros c H. apply (Permutation_in _ (Permutation_sym Hac)). exact H. }
      assert (Eq : queued p' = queued p) by (unfold queued, p'; cbn [p_running p_ws]; rewrite F1; reflexivity).
      constructor.
      + unfold p'. cbn [p_ws]. rewrite F3. exact O1.
      + unfold outstanding in *. pose proof (Permutation_length Hev) as L. rewrite app_length in L.
        unfold p' at 1. cbn [p_running]. lia.
      + intros c it Hc K Hit. rewrite Eq in Hit. apply O3; auto.
      + intros c1 c2 H1 H2. apply O4; auto.
  Qed.

  (* ---- atomic failures: a success backed by the item's own record is a committed completion ---- *)

  Definition PFresh (p : pstate St) : Prop :=
    forall c, In c (all_comps p) -> is_success (cp_res c) = true ->
    forall r, In r (slog (p_store p)) -> pr_seq r = r_seq (cp_res c) -> pr_tag r = tagof c ->
    cp_committed c = true.

  Lemma log_seq_unique log r r' : LogOK log -> In r log -> In r' log -> pr_seq r = pr_seq r' -> r = r'.
  Proof.
    intros [Hnd _] Hr Hr' E. induction log as [|x l IH]; [contradiction|].
    cbn [map] in Hnd. inversion Hnd as [|y m Hx Hnd']; subst.
    destruct Hr as [Hr|Hr]; destruct Hr' as [Hr'|Hr'].
    - congruence.
    - subst x. exfalso. apply Hx. rewrite E. apply in_map. exact Hr'.
    - subst x. exfalso. apply Hx. rewrite <- E. apply in_map. exact Hr.
    - apply IH; auto.
  Qed.

  Lemma step_fresh p e :
    atomic_failures St do_append slog -> PInv p -> PFresh p -> PFresh (step p e).
  Proof.
    intros At I F. pose proof (step_inv p e I) as I'. revert I'. unfold step.
    destruct e as [raw| |k|k]; cbn [pstep].
    - set (items := tag_items (p_next_call p) 0 (p_next_tag p) raw).
      destruct (canAdmit (p_ws p) (Z.of_nat (length items))); intros _.
      + exact F.
      + intros c Hc Hs. unfold all_comps, inflight_events in Hc. cbn [p_delivered p_done p_ws] in Hc.
        rewrite <- app_assoc in Hc. apply in_app_iff in Hc. destruct Hc as [Hc|Hc].
        * apply F; [apply in_or_app; left; exact Hc|exact Hs].
        * apply in_app_iff in Hc. destruct Hc as [Hc|Hc]; [|apply F; [apply in_or_app; right; exact Hc|exact Hs]].
          unfold appendBatchErrorCompletions in Hc. apply in_map_iff in Hc. destruct Hc as [it [E _]].
          subst c. discriminate.
    - destruct (nextAppendBatch (p_ws p)) as [[[sq items]|] ws'] eqn:NB; intros _; [|exact F].
      destruct (next_batch_spec _ _ _ _ NB) as [E1 [E2 [E3 [E4 [E5 [E6 [E7 [E8 _]]]]]]]].
      intros c Hc. apply F. unfold all_comps, inflight_events in *. cbn [p_delivered p_done p_ws] in Hc.
      unfold buffered in *. rewrite E7, E8 in Hc. exact Hc.
    - destruct (nth_error (p_running p) k) as [ef|] eqn:Nk; [|intros _; exact F].
      destruct (run St do_append do_nlookup hashf fp (p_store p) ef) as [ev s'] eqn:R. intro I'.
      match goal with |- PFresh ?q => set (p' := q) in * end.
      destruct (nth_error_split_remove _ _ _ Nk) as [r1 [r2 [E1 [E2 _]]]].
      assert (Eq : queued p = flat_map ef_items r1 ++ ef_items ef ++ flat_map ef_items r2 ++ ws_pending (p_ws p)).
      { unfold queued. rewrite E1, flat_map_app. cbn [flat_map]. rewrite <- !app_assoc. reflexivity. }
      pose proof (pi_queue _ I) as Hq. rewrite Eq in Hq.
      assert (Hefs : StronglySorted tag_lt (ef_items ef)).
      { apply sorted_app_inv in Hq. destruct Hq as [_ [Hq _]]. apply sorted_app_inv in Hq. tauto. }
      destruct (run_spec St do_append do_nlookup hashf fp slog Wf Happ Hlook _ _ _ _ (pi_wf _ I) (pi_log _ I) Hefs R)
        as [ext [X1 [XW [X2 [X3 [X4 [X5 X6]]]]]]].
      rewrite Forall_forall in X5.
      assert (Hin : forall c, In c (all_comps p') -> In c (all_comps p) \/ In c (ev_items ev)).
      { intro c. unfold all_comps, inflight_events, p'. cbn [p_delivered p_done p_ws].
        rewrite !flat_map_app. cbn [flat_map]. rewrite ?app_nil_r, !in_app_iff. tauto. }
      pose proof (pi_log _ I') as HL'. unfold p' in HL'. cbn [p_store] in HL'.
      intros c Hc Hs r Hr Hseq Htag. unfold p' in Hr. cbn [p_store] in Hr.
      destruct (Hin c Hc) as [Hc0|Hc0].
      + (* an older completion: its record was already in the log *)
        destruct (pi_backed _ I c Hc0 Hs) as [r0 [R1 [R2 _]]].
        assert (r0 = r).
        { apply (log_seq_unique _ _ _ HL'); [rewrite X1; apply in_or_app; left; exact R1|exact Hr|congruence]. }
        subst r0. apply (F c Hc0 Hs r R1 Hseq Htag).
      + rewrite X1 in Hr, HL'.
        eapply (eorigin_fresh St do_append hashf slog (slog (p_store p)) ext c At (lo_seqs _ HL')); eauto.
        intros r0 Hr0 E0. destruct (pi_logtags _ I r0 Hr0) as [c0 [C1 [C2 _]]].
        apply (comp_not_queued p c0 (cp_item c) I C1).
        * rewrite Eq. apply in_or_app. right. apply in_or_app. left.
          apply (Permutation_in _ X4). apply in_map. exact Hc0.
        * unfold tagof in *. congruence.
    - destruct (nth_error (p_done p) k) as [ev|] eqn:Nk; [|intros _; exact F].
      destruct (applyAppendCompletion (p_ws p) ev) as [evs ws'] eqn:A. intro I'.
      match goal with |- PFresh ?q => set (p' := q) in * end.
      destruct (nth_error_split_remove _ _ _ Nk) as [d1 [d2 [E1 [E2 _]]]].
      pose proof (pi_seqs _ I) as Hnd. pose proof (pi_seqb _ I) as Hb.
      assert (Hevin : In (ev_seq ev) (eff_seqs p)).
      { unfold eff_seqs, inflight_events. rewrite E1. rewrite !map_app. cbn [map].
        apply in_or_app. right. apply in_or_app. left. apply in_or_app. right. left. reflexivity. }
      assert (Hnew : ~ In (ev_seq ev) (map ev_seq (buffered (p_ws p)))).
      { intro Hin. unfold eff_seqs, inflight_events in Hnd. rewrite E1 in Hnd. rewrite !map_app in Hnd. cbn [map] in Hnd.
        apply NoDup_app_r in Hnd. rewrite <- app_assoc in Hnd. apply NoDup_app_r in Hnd. cbn [app] in Hnd.
        inversion Hnd as [|x l Hx _]; subst. apply Hx. apply in_or_app. right. exact Hin. }
      destruct (apply_perm _ _ _ _ (pi_buf _ I) (proj1 (Hb _ Hevin)) Hnew A) as [Hperm _].
      assert (Hev : Permutation (inflight_events p) (evs ++ inflight_events p')).
      { unfold inflight_events, p'. cbn [p_done p_ws]. rewrite E2, E1. apply perm_apply_shape. exact Hperm. }
      assert (Hac : Permutation (all_comps p) (all_comps p')).
      { unfold all_comps at 2. unfold p' at 1. cbn [p_delivered]. unfold all_comps.
        rewrite <- app_assoc. apply Permutation_app_head. rewrite <- flat_map_app.
        apply Permutation_flat_map. exact Hev. }
      intros c Hc. apply F. apply (Permutation_in _ (Permutation_sym Hac)). exact Hc.
  Qed.

  (* ---- every reachable state ------------------------------------------------------------------------ *)

  Definition reach (s0 : St) (hw limit : Z) (evs : list pev) : pstate St :=
    prun St do_append do_nlookup hashf fp s0 hw limit evs.

  Lemma PInv_init s0 hw limit : slog s0 = [] -> Wf [] -> PInv (pinit St s0 hw limit).
  Proof.
    intros E W. constructor; cbn [pinit p_store p_ws p_submitted p_next_tag]; rewrite ?E.
    - constructor; [constructor|intros r r' []].
    - exact W.
    - intro x. reflexivity.
    - constructor.
    - intros it [].
    - constructor.
    - intros c [].
    - intros c [].
    - intros r [].
    - constructor; cbn; [intros k e []|constructor|discriminate].
    - constructor.
    - intros q [].
    - cbn. lia.
    - cbn. lia.
  Qed.

  Lemma fold_inv (P : pstate St -> Prop) :
    (forall p e, PInv p -> P p -> P (step p e)) ->
    forall evs p, PInv p -> P p -> PInv (fold_left step evs p) /\ P (fold_left step evs p).
  Proof.
    intros Hstep. induction evs as [|e evs IH]; intros p I H; cbn [fold_left]; [auto|].
    apply IH; [apply step_inv; exact I|apply Hstep; assumption].
  Qed.

  Theorem reach_inv s0 hw limit evs : slog s0 = [] -> Wf [] -> PInv (reach s0 hw limit evs).
  Proof.
    intros E W. unfold reach, prun.
    apply (fold_inv (fun _ => True) (fun _ _ _ _ => I) evs _ (PInv_init s0 hw limit E W) I).
  Qed.

  Theorem reach_ord s0 hw limit evs :
    slog s0 = [] -> Wf [] -> (limit <= 1)%Z -> POrd (reach s0 hw limit evs).
  Proof.
    intros E W L. unfold reach, prun.
    apply (fold_inv POrd (fun p e => step_ord p e) evs _ (PInv_init s0 hw limit E W)).
    constructor; cbn; [exact L|lia|intros c it []|intros c1 c2 []].
  Qed.

  Theorem reach_fresh s0 hw limit evs :
    slog s0 = [] -> Wf [] -> atomic_failures St do_append slog -> PFresh (reach s0 hw limit evs).
  Proof.
    intros E W A. unfold reach, prun.
    apply (fold_inv PFresh (fun p e => step_fresh p e A) evs _ (PInv_init s0 hw limit E W)).
    intros c [].
  Qed.

  Lemma delivered_in p c : In c (p_delivered p) -> In c (all_comps p).
  Proof. intro H. apply in_or_app. left. exact H. Qed.

  (* ---- the properties, on every reachable state ---------------------------------------------------- *)

  (* every item receives at most one result, only submitted items receive results,
     and once nothing is in flight every submitted item has received exactly one *)
  Theorem pipeline_exactly_one s0 hw limit evs :
    slog s0 = [] -> Wf [] ->
    let p := reach s0 hw limit evs in
    NoDup (map tagof (p_delivered p))
    /\ (forall c, In c (p_delivered p) -> In (cp_item c) (p_submitted p))
    /\ (quiescent St p = true -> Permutation (map cp_item (p_delivered p)) (p_submitted p)).
  Proof.
    intros E W p. pose proof (reach_inv s0 hw limit evs E W) as I. fold p in I.
    assert (Hp : Permutation (map cp_item (all_comps p) ++ queued p) (p_submitted p)).
    { apply (Permutation_count_occ psend_eq_dec). apply (pi_cons _ I). }
    split; [|split].
    - pose proof (sorted_tags_nodup _ (pi_sorted _ I)) as Hnd.
      apply (Permutation_map ps_tag) in Hp. apply Permutation_sym in Hp.
      pose proof (Permutation_NoDup Hp Hnd) as Hnd2.
      unfold all_comps in Hnd2. rewrite !map_app in Hnd2. rewrite <- !app_assoc in Hnd2.
      apply NoDup_app_l in Hnd2. rewrite map_map in Hnd2. exact Hnd2.
    - intros c Hc. apply (in_submitted _ _ I). apply in_or_app. left. apply in_map. apply delivered_in. exact Hc.
    - intro Q. unfold quiescent in Q. repeat (apply andb_true_iff in Q; destruct Q as [Q ?]).
      destruct (ws_pending (p_ws p)) eqn:E1; [|discriminate].
      destruct (p_running p) eqn:E2; [|discriminate].
      destruct (p_done p) eqn:E3; [|discriminate].
      destruct (ws_ready (p_ws p)) eqn:E4; [discriminate|].
      destruct (ws_completed (p_ws p)) eqn:E5; [|discriminate].
      unfold all_comps, inflight_events, queued, buffered in Hp. rewrite E1, E2, E3, E4, E5 in Hp.
      cbn [app flat_map map] in Hp. rewrite !app_nil_r in Hp. exact Hp.
  Qed.

  (* every delivered success names a record of the channel log carrying the
     item's sender and client number (its own record, or — for a keyed item —
     one with the same payload up to the stored payload hash) *)
  Theorem pipeline_backed s0 hw limit evs c :
    slog s0 = [] -> Wf [] ->
    let p := reach s0 hw limit evs in
    In c (p_delivered p) -> backed hashf (slog (p_store p)) c.
  Proof.
    intros E W p Hc. apply (pi_backed _ (reach_inv s0 hw limit evs E W)). apply delivered_in. exact Hc.
  Qed.

  (* the channel log never holds a sender + client number twice *)
  Theorem pipeline_no_second_message s0 hw limit evs r r' :
    slog s0 = [] -> Wf [] ->
    let log := slog (p_store (reach s0 hw limit evs)) in
    In r log -> In r' log -> keyed (pr_cmd r) = true -> same_key (pr_cmd r) (pr_cmd r') = true -> r = r'.
  Proof.
    intros E W log. apply (lo_keys _ (pi_log _ (reach_inv s0 hw limit evs E W))).
  Qed.

  Lemma same_key_intro a b : c_uid a = c_uid b -> c_cno a = c_cno b -> same_key a b = true.
  Proof.
    intros E1 E2. unfold same_key. rewrite E1, E2.
    rewrite (proj2 (bytes_eqb_eq _ _) eq_refl), (proj2 (bytes_eqb_eq _ _) eq_refl). reflexivity.
  Qed.

  Lemma same_key_fields a b : same_key a b = true -> c_uid a = c_uid b /\ c_cno a = c_cno b.
  Proof.
    unfold same_key. intro H. apply andb_true_iff in H. destruct H as [H1 H2].
    apply bytes_eqb_eq in H1. apply bytes_eqb_eq in H2. auto.
  Qed.

  Lemma keyed_fields a b : c_uid a = c_uid b -> c_cno a = c_cno b -> keyed a = keyed b.
  Proof. intros E1 E2. unfold keyed. rewrite E1, E2. reflexivity. Qed.

  (* two successful sends with the same (non-empty) sender and client number name
     the SAME stored message: a retry returns the original id and sequence *)
  Theorem pipeline_retry_same_result s0 hw limit evs c1 c2 :
    slog s0 = [] -> Wf [] ->
    let p := reach s0 hw limit evs in
    In c1 (p_delivered p) -> In c2 (p_delivered p) ->
    is_success (cp_res c1) = true -> is_success (cp_res c2) = true ->
    keyed (ps_cmd (cp_item c1)) = true ->
    same_key (ps_cmd (cp_item c1)) (ps_cmd (cp_item c2)) = true ->
    r_id (cp_res c1) = r_id (cp_res c2) /\ r_seq (cp_res c1) = r_seq (cp_res c2).
  Proof.
    intros E W p H1 H2 S1 S2 K Hk.
    pose proof (reach_inv s0 hw limit evs E W) as I. fold p in I.
    destruct (pi_backed _ I c1 (delivered_in _ _ H1) S1) as [r1 [A1 [A2 [A3 [A4 [A5 _]]]]]].
    destruct (pi_backed _ I c2 (delivered_in _ _ H2) S2) as [r2 [B1 [B2 [B3 [B4 [B5 _]]]]]].
    destruct (same_key_fields _ _ Hk) as [Hu Hc].
    assert (r1 = r2).
    { apply (lo_keys _ (pi_log _ I)); auto.
      - rewrite (keyed_fields _ (ps_cmd (cp_item c1)) A4 A5). exact K.
      - apply same_key_intro; congruence. }
    subst r2. split; congruence.
  Qed.

  (* a reused key with a different payload (different, non-zero payload hash) never
     succeeds next to the original: of two sends with one key whose payload hashes
     differ, at most one is ever answered with success *)
  Theorem pipeline_reuse_rejected s0 hw limit evs c1 c2 :
    slog s0 = [] -> Wf [] ->
    let p := reach s0 hw limit evs in
    In c1 (p_delivered p) -> In c2 (p_delivered p) ->
    is_success (cp_res c1) = true ->
    keyed (ps_cmd (cp_item c1)) = true ->
    same_key (ps_cmd (cp_item c1)) (ps_cmd (cp_item c2)) = true ->
    hashf (c_pay (ps_cmd (cp_item c1))) <> hashf (c_pay (ps_cmd (cp_item c2))) ->
    hashf (c_pay (ps_cmd (cp_item c1))) <> 0 -> hashf (c_pay (ps_cmd (cp_item c2))) <> 0 ->
    is_success (cp_res c2) = false.
  Proof.
    intros E W p H1 H2 S1 K Hk Hne Hz1 Hz2.
    destruct (is_success (cp_res c2)) eqn:S2; [|reflexivity]. exfalso.
    pose proof (reach_inv s0 hw limit evs E W) as I. fold p in I.
    destruct (pi_backed _ I c1 (delivered_in _ _ H1) S1) as [r1 [A1 [A2 [A3 [A4 [A5 A6]]]]]].
    destruct (pi_backed _ I c2 (delivered_in _ _ H2) S2) as [r2 [B1 [B2 [B3 [B4 [B5 B6]]]]]].
    destruct (same_key_fields _ _ Hk) as [Hu Hc].
    assert (r1 = r2).
    { apply (lo_keys _ (pi_log _ I)); auto.
      - rewrite (keyed_fields _ (ps_cmd (cp_item c1)) A4 A5). exact K.
      - apply same_key_intro; congruence. }
    subst r2.
    assert (X1 : hashf (c_pay (pr_cmd r1)) = hashf (c_pay (ps_cmd (cp_item c1)))).
    { destruct A6 as [[_ A6]|[_ [A6|[A6|A6]]]]; congruence. }
    assert (X2 : hashf (c_pay (pr_cmd r1)) = hashf (c_pay (ps_cmd (cp_item c2)))).
    { destruct B6 as [[_ B6]|[_ [B6|[B6|B6]]]]; congruence. }
    congruence.
  Qed.

  (* default configuration (at most one append in flight per channel): committed
     completions carry strictly increasing sequences in submission order *)
  Theorem pipeline_committed_increasing s0 hw limit evs c1 c2 :
    slog s0 = [] -> Wf [] -> (limit <= 1)%Z ->
    let p := reach s0 hw limit evs in
    In c1 (p_delivered p) -> In c2 (p_delivered p) ->
    cp_committed c1 = true -> cp_committed c2 = true -> tagof c1 < tagof c2 ->
    r_seq (cp_res c1) < r_seq (cp_res c2).
  Proof.
    intros E W L p H1 H2. pose proof (reach_ord s0 hw limit evs E W L) as O.
    apply (po_order _ O); apply delivered_in; assumption.
  Qed.

  (* a NEW message: a success whose record was appended for this very submission *)
  Definition is_fresh (p : pstate St) (c : comp) : Prop :=
    is_success (cp_res c) = true /\
    exists r, In r (slog (p_store p)) /\ pr_seq r = r_seq (cp_res c) /\ pr_tag r = tagof c.

  (* ... and when a failed append commits nothing, every new message is a committed
     completion, so ALL new messages of the channel are ordered *)
  Theorem pipeline_seq_increasing s0 hw limit evs c1 c2 :
    slog s0 = [] -> Wf [] -> (limit <= 1)%Z -> atomic_failures St do_append slog ->
    let p := reach s0 hw limit evs in
    In c1 (p_delivered p) -> In c2 (p_delivered p) ->
    is_fresh p c1 -> is_fresh p c2 -> tagof c1 < tagof c2 ->
    r_seq (cp_res c1) < r_seq (cp_res c2).
  Proof.
    intros E W L A p H1 H2 [S1 [r1 [R1 [R2 R3]]]] [S2 [r2 [Q1 [Q2 Q3]]]] Ht.
    pose proof (reach_fresh s0 hw limit evs E W A) as F. fold p in F.
    apply (pipeline_committed_increasing s0 hw limit evs c1 c2 E W L H1 H2); [| |exact Ht].
    - apply (F c1 (delivered_in _ _ H1) S1 r1 R1 R2 R3).
    - apply (F c2 (delivered_in _ _ H2) S2 r2 Q1 Q2 Q3).
  Qed.
End Pipe.
