(* Proof/Archive.v — C38, part 1: the repository map, record equalities, and
   VerifyPublishedArchive accepts exactly the repositories that satisfy the declarative
   predicate [consistentb] (sound and complete). *)
From WK Require Import Base.Base Gen.Consts_C38 Model.Archive.
Open Scope N_scope.

(* ---- boolean plumbing ----------------------------------------------------------------- *)
Ltac split_andb :=
  repeat match goal with
         | H : _ && _ = true |- _ => apply andb_true_iff in H; destruct H
         end.
Ltac eqb_hyps :=
  repeat match goal with
         | H : bytes_eqb _ _ = true |- _ => apply bytes_eqb_eq in H
         | H : N.eqb _ _ = true |- _ => apply N.eqb_eq in H
         | H : Z.eqb _ _ = true |- _ => apply Z.eqb_eq in H
         | H : Bool.eqb _ _ = true |- _ => apply Bool.eqb_prop in H
         end.

Lemma bytes_eqb_refl a : bytes_eqb a a = true.
Proof. apply bytes_eqb_eq. reflexivity. Qed.

Lemma negb_false_true b : negb b = false -> b = true.
Proof. destruct b; [reflexivity|discriminate]. Qed.
Lemma orb_false_l2 a b : a || b = false -> a = false /\ b = false.
Proof. apply orb_false_iff. Qed.

(* ---- record equalities ------------------------------------------------------------------ *)
Lemma chunk_desc_eqb_eq a b : chunk_desc_eqb a b = true -> a = b.
Proof.
  destruct a, b. unfold chunk_desc_eqb. simpl.
  intro E. split_andb. eqb_hyps. subst. reflexivity.
Qed.
Lemma chunk_desc_eqb_refl a : chunk_desc_eqb a a = true.
Proof. unfold chunk_desc_eqb. rewrite !bytes_eqb_refl, !N.eqb_refl. reflexivity. Qed.

Lemma chunk_ref_eqb_eq a b : chunk_ref_eqb a b = true -> a = b.
Proof.
  destruct a, b. unfold chunk_ref_eqb. simpl.
  intro E. split_andb. eqb_hyps.
  match goal with Hd : chunk_desc_eqb _ _ = true |- _ => apply chunk_desc_eqb_eq in Hd end.
  subst. reflexivity.
Qed.
Lemma chunk_ref_eqb_refl a : chunk_ref_eqb a a = true.
Proof.
  unfold chunk_ref_eqb. rewrite !bytes_eqb_refl, !N.eqb_refl, chunk_desc_eqb_refl, Bool.eqb_reflx. reflexivity.
Qed.

Lemma list_eqb_eq {A} (eqb : A -> A -> bool) (Heq : forall x y, eqb x y = true -> x = y) :
  forall a b, list_eqb eqb a b = true -> a = b.
Proof.
  induction a as [|x a IH]; destruct b as [|y b]; simpl; intro E; try reflexivity; try discriminate.
  apply andb_true_iff in E. destruct E as [E1 E2]. apply Heq in E1. apply IH in E2. subst. reflexivity.
Qed.
Lemma list_eqb_refl {A} (eqb : A -> A -> bool) (Hr : forall x, eqb x x = true) : forall a, list_eqb eqb a a = true.
Proof. induction a as [|x a IH]; simpl; [reflexivity|]. rewrite Hr, IH. reflexivity. Qed.

Lemma slot_cut_eqb_eq a b : slot_cut_eqb a b = true -> a = b.
Proof.
  destruct a, b. unfold slot_cut_eqb. simpl.
  intro E. split_andb. eqb_hyps. subst. reflexivity.
Qed.
Lemma slot_cut_eqb_refl a : slot_cut_eqb a a = true.
Proof. unfold slot_cut_eqb. rewrite !N.eqb_refl, Z.eqb_refl. reflexivity. Qed.

Lemma slot_manifest_eqb_eq a b : slot_manifest_eqb a b = true -> a = b.
Proof.
  destruct a, b. unfold slot_manifest_eqb. simpl.
  intro E. split_andb. eqb_hyps.
  match goal with Hd : slot_cut_eqb _ _ = true |- _ => apply slot_cut_eqb_eq in Hd end.
  match goal with Hd : list_eqb _ _ _ = true |- _ => apply (list_eqb_eq _ chunk_ref_eqb_eq) in Hd end.
  subst. reflexivity.
Qed.
Lemma slot_manifest_eqb_refl a : slot_manifest_eqb a a = true.
Proof.
  unfold slot_manifest_eqb.
  rewrite !bytes_eqb_refl, !N.eqb_refl, slot_cut_eqb_refl, (list_eqb_refl _ chunk_ref_eqb_refl). reflexivity.
Qed.

Lemma slot_ref_eqb_eq a b : slot_ref_eqb a b = true -> a = b.
Proof.
  destruct a, b. unfold slot_ref_eqb. simpl.
  intro E. split_andb. eqb_hyps. subst. reflexivity.
Qed.
Lemma slot_ref_eqb_refl a : slot_ref_eqb a a = true.
Proof. unfold slot_ref_eqb. rewrite !bytes_eqb_refl, !N.eqb_refl. reflexivity. Qed.

Lemma archive_manifest_eqb_eq a b : archive_manifest_eqb a b = true -> a = b.
Proof.
  destruct a, b. unfold archive_manifest_eqb. simpl.
  intro E. split_andb. eqb_hyps.
  match goal with Hd : list_eqb _ _ _ = true |- _ => apply (list_eqb_eq _ slot_ref_eqb_eq) in Hd end.
  subst. reflexivity.
Qed.
Lemma archive_manifest_eqb_refl a : archive_manifest_eqb a a = true.
Proof.
  unfold archive_manifest_eqb.
  rewrite !bytes_eqb_refl, !N.eqb_refl, !Z.eqb_refl, (list_eqb_refl _ slot_ref_eqb_refl). reflexivity.
Qed.

Lemma complete_marker_eqb_eq a b : complete_marker_eqb a b = true -> a = b.
Proof.
  destruct a, b. unfold complete_marker_eqb. simpl.
  intro E. split_andb. eqb_hyps. subst. reflexivity.
Qed.
Lemma complete_marker_eqb_refl a : complete_marker_eqb a a = true.
Proof. unfold complete_marker_eqb. rewrite !bytes_eqb_refl, !N.eqb_refl. reflexivity. Qed.

Lemma msg_manifest_eqb_eq a b : msg_manifest_eqb a b = true -> a = b.
Proof.
  destruct a, b. unfold msg_manifest_eqb. simpl.
  intro E. split_andb. eqb_hyps.
  match goal with Hd : list_eqb _ _ _ = true |- _ => apply (list_eqb_eq _ chunk_ref_eqb_eq) in Hd end.
  subst. reflexivity.
Qed.
Lemma msg_manifest_eqb_refl a : msg_manifest_eqb a a = true.
Proof.
  unfold msg_manifest_eqb. rewrite !bytes_eqb_refl, !N.eqb_refl, (list_eqb_refl _ chunk_ref_eqb_refl). reflexivity.
Qed.

Lemma repo_marker_eqb_eq a b : repo_marker_eqb a b = true -> a = b.
Proof.
  destruct a, b. unfold repo_marker_eqb. simpl.
  intro E. split_andb. eqb_hyps. subst. reflexivity.
Qed.
Lemma repo_marker_eqb_refl a : repo_marker_eqb a a = true.
Proof. unfold repo_marker_eqb. rewrite !bytes_eqb_refl, !N.eqb_refl, !Z.eqb_refl. reflexivity. Qed.

(* ---- facts about validateArchiveManifest ------------------------------------------------- *)
Lemma validate_slot_refs_each : forall slots seen lb sb rc mx out,
  validate_slot_refs slots seen lb sb rc mx = Some out ->
  Forall (fun r => sr_hash_slot r < DefaultHashSlotCount
                   /\ validate_slot_manifest_key (sr_hash_slot r) (sr_key r) = true
                   /\ validate_sha256 (sr_sha r) = true) slots.
Proof.
  induction slots as [|r rest IH]; intros seen lb sb rc mx out E; [constructor|].
  cbn [validate_slot_refs] in E.
  destruct ((DefaultHashSlotCount <=? sr_hash_slot r) || N.testbit seen (sr_hash_slot r)) eqn:E1; [discriminate|].
  destruct (negb (validate_slot_manifest_key (sr_hash_slot r) (sr_key r))) eqn:E2; [discriminate|].
  destruct (negb (validate_sha256 (sr_sha r))) eqn:E3; [discriminate|].
  apply orb_false_iff in E1. destruct E1 as [E1 _]. apply N.leb_gt in E1.
  apply negb_false_true in E2. apply negb_false_true in E3.
  constructor; [auto|]. eapply IH. exact E.
Qed.

Lemma validate_archive_slots : forall m,
  validate_archive_manifest m = None ->
  N.of_nat (length (am_slots m)) = DefaultHashSlotCount
  /\ Forall (fun r => sr_hash_slot r < DefaultHashSlotCount
                      /\ validate_slot_manifest_key (sr_hash_slot r) (sr_key r) = true
                      /\ validate_sha256 (sr_sha r) = true) (am_slots m).
Proof.
  intros m V. unfold validate_archive_manifest in V.
  repeat match type of V with
         | (if ?c then Some _ else _) = None => destruct c eqn:?; [discriminate|]
         end.
  match goal with Hc : negb (_ =? _)%Z || negb (N.of_nat _ =? _) = false |- _ =>
    apply orb_false_iff in Hc; destruct Hc as [_ Hlen]; apply negb_false_true in Hlen; apply N.eqb_eq in Hlen end.
  split; [assumption|].
  destruct (validate_slot_refs (am_slots m) 0 0 0 0 0) as [out|] eqn:Er; [|discriminate].
  eapply validate_slot_refs_each. exact Er.
Qed.

(* ====================================================================================== *)
Section Generic.
  Variable body : Type.
  Variable blen : body -> N.
  Variable H : body -> bytes.
  Variable unz : body -> option (N * bytes).
  Variable json_archive : body -> option archive_manifest.
  Variable json_slot : body -> option slot_manifest.
  Variable json_marker : body -> option complete_marker.
  Variable canon_archive : archive_manifest -> body -> bool.
  Variable canon_slot : slot_manifest -> body -> bool.
  Variable canon_marker : complete_marker -> body -> bool.

  Local Notation store := (store body).
  Local Notation get := (get body).
  Local Notation put := (put body).
  Local Notation del := (del body).
  Local Notation read := (read_stored_object body blen).
  Local Notation honest := (honest_object body blen).
  Local Notation load_archive := (load_archive_manifest body json_archive canon_archive).
  Local Notation load_slot := (load_slot_manifest body json_slot canon_slot).
  Local Notation load_marker := (load_complete_marker body blen H json_archive json_marker canon_archive canon_marker).
  Local Notation decode := (decode_chunk body blen H unz).
  Local Notation vchunks := (verify_chunks body blen H unz).
  Local Notation at_key := (load_stored_slot_at_key body blen H unz json_slot canon_slot).
  Local Notation slotref := (load_stored_slot_reference body blen H unz json_slot canon_slot).
  Local Notation meta := (load_published_archive_metadata body blen H json_archive json_marker canon_archive canon_marker).
  Local Notation vslots := (verify_slots body blen H unz json_slot canon_slot).
  Local Notation verify := (verify_published_archive body blen H unz json_archive json_slot json_marker
                              canon_archive canon_slot canon_marker).
  Local Notation chunk_ok := (chunk_consistentb body blen H unz).
  Local Notation slot_ok := (slot_consistentb body blen H unz json_slot canon_slot).
  Local Notation consistent := (consistentb body blen H unz json_archive json_slot json_marker
                                  canon_archive canon_slot canon_marker).

  (* ---- the map ---------------------------------------------------------------------------- *)
  Lemma get_put_same k b sz st : get (put k b sz st) k = Some (b, sz).
  Proof. unfold Archive.put. cbn [Archive.get]. rewrite bytes_eqb_refl. reflexivity. Qed.
  Lemma get_put_other k k' b sz st : k <> k' -> get (put k b sz st) k' = get st k'.
  Proof.
    intro Hne. unfold Archive.put. cbn [Archive.get].
    destruct (bytes_eqb k k') eqn:E; [apply bytes_eqb_eq in E; contradiction|reflexivity].
  Qed.
  Lemma get_del_same k st : get (del k st) k = None.
  Proof. unfold Archive.del. cbn [Archive.get]. rewrite bytes_eqb_refl. reflexivity. Qed.
  Lemma get_del_other k k' st : k <> k' -> get (del k st) k' = get st k'.
  Proof.
    intro Hne. unfold Archive.del. cbn [Archive.get].
    destruct (bytes_eqb k k') eqn:E; [apply bytes_eqb_eq in E; contradiction|reflexivity].
  Qed.

  (* ---- ReadStoredObject = "honest object within the cap" --------------------------------- *)
  Lemma read_ok_iff st key maxb b : read st key maxb = Ok b <-> honest st key maxb = Some b.
  Proof.
    unfold read_stored_object, honest_object.
    destruct (get st key) as [[b0 sz]|]; [|split; discriminate].
    destruct (sz =? 0) eqn:Ez; cbn [orb].
    - apply N.eqb_eq in Ez. subst sz.
      replace (0 <? 0) with false by reflexivity. rewrite andb_false_r. cbn [andb]. split; discriminate.
    - apply N.eqb_neq in Ez.
      destruct (maxb <? sz) eqn:Em.
      + apply N.ltb_lt in Em. assert (Hle : (sz <=? maxb) = false) by (apply N.leb_gt; exact Em).
        rewrite Hle, andb_false_r. split; discriminate.
      + apply N.ltb_ge in Em.
        destruct (blen b0 =? sz) eqn:Eb; cbn [negb orb].
        * apply N.eqb_eq in Eb. rewrite Eb. rewrite N.eqb_refl.
          assert (Hlt : (maxb <? sz) = false) by (apply N.ltb_ge; exact Em). rewrite Hlt.
          assert (H0 : (0 <? sz) = true) by (apply N.ltb_lt; lia). rewrite H0.
          assert (H1 : (sz <=? maxb) = true) by (apply N.leb_le; exact Em). rewrite H1.
          cbn [andb]. split; intro E; inversion E; reflexivity.
        * assert (Hs : (sz =? blen b0) = false) by (rewrite N.eqb_sym; exact Eb). rewrite Hs. cbn [andb].
          split; discriminate.
  Qed.

  Lemma honest_get st key maxb b : honest st key maxb = Some b ->
    get st key = Some (b, blen b) /\ 0 < blen b /\ blen b <= maxb.
  Proof.
    unfold honest_object. destruct (get st key) as [[b0 sz]|]; [|discriminate].
    destruct ((sz =? blen b0) && (0 <? sz) && (sz <=? maxb)) eqn:E; [|discriminate].
    intro E1. inversion E1; subst b0. split_andb. eqb_hyps. subst sz.
    match goal with Ha : (0 <? _) = true |- _ => apply N.ltb_lt in Ha end.
    match goal with Ha : (_ <=? _) = true |- _ => apply N.leb_le in Ha end.
    auto.
  Qed.

  (* ---- the chunk loop ---------------------------------------------------------------------- *)
  Lemma verify_chunks_ok_iff st root : forall cs,
    vchunks st root cs = Ok tt <-> forallb (chunk_ok st root) cs = true.
  Proof.
    induction cs as [|c rest IH]; [split; reflexivity|].
    cbn [verify_chunks forallb]. unfold chunk_consistentb at 1.
    destruct (get st (root ++ cr_key c)) as [[b sz]|]; [|cbn [andb]; split; discriminate].
    unfold decode_chunk.
    destruct (validate_chunk_descriptor (cr_desc c)); cbn [negb andb];
      [|destruct (negb (sz =? cd_stored_bytes (cr_desc c))); split; discriminate].
    destruct (sz =? cd_stored_bytes (cr_desc c)); cbn [negb andb]; [|split; discriminate].
    destruct (unz b) as [[ll lh]|]; [|rewrite !andb_false_r; cbn [andb]; split; discriminate].
    destruct (blen b =? cd_stored_bytes (cr_desc c)); cbn [negb orb andb]; [|split; discriminate].
    destruct (bytes_eqb (H b) (cd_stored_sha (cr_desc c))); cbn [negb orb andb]; [|split; discriminate].
    destruct (ll =? cd_logical_bytes (cr_desc c)); cbn [negb orb andb]; [|split; discriminate].
    destruct (bytes_eqb lh (cd_logical_sha (cr_desc c))); cbn [negb orb andb]; [|split; discriminate].
    exact IH.
  Qed.

  Lemma verify_chunks_res st root cs : forall u, vchunks st root cs = Ok u -> u = tt.
  Proof. intros []. reflexivity. Qed.

  (* ---- one slot reference ------------------------------------------------------------------ *)
  (* LoadStoredSlotReference(expected, verifyChunks = true) succeeds iff the reference is
     well-formed and the slot is consistent (at its own hash-slot position); it then returns
     the reference itself *)
  Lemma slotref_ok_iff st id r :
    (exists a sm, slotref st id r true = Ok (a, sm)) <->
    (sr_hash_slot r < DefaultHashSlotCount
     /\ validate_slot_manifest_key (sr_hash_slot r) (sr_key r) = true
     /\ validate_sha256 (sr_sha r) = true
     /\ slot_ok st id (sr_hash_slot r) r = true).
  Proof.
    unfold load_stored_slot_reference, slot_consistentb.
    rewrite N.eqb_refl. cbn [andb].
    destruct (DefaultHashSlotCount <=? sr_hash_slot r) eqn:Eh; cbn [orb].
    { apply N.leb_le in Eh. split; [intros (a & sm & E); discriminate|intros (Hlt & _); lia]. }
    apply N.leb_gt in Eh.
    destruct (validate_slot_manifest_key (sr_hash_slot r) (sr_key r)) eqn:Ek; cbn [negb orb];
      [|split; [intros (a & sm & E); discriminate|intros (_ & Hk & _); discriminate]].
    destruct (validate_sha256 (sr_sha r)) eqn:Es; cbn [negb];
      [|split; [intros (a & sm & E); discriminate|intros (_ & _ & Hs & _); discriminate]].
    unfold load_stored_slot_at_key.
    destruct (read st (root_of id ++ sr_key r) maxStoredManifestBytes) as [b|e] eqn:Er.
    - apply read_ok_iff in Er. rewrite Er.
      destruct (load_slot b) as [sm|e] eqn:El.
      + destruct (sm_hash_slot sm =? sr_hash_slot r) eqn:Ehs; cbn [negb andb].
        * destruct (vchunks st (root_of id) (sm_chunks sm)) as [u|e] eqn:Ev.
          -- assert (u = tt) by (eapply verify_chunks_res; exact Ev). subst u.
             apply verify_chunks_ok_iff in Ev. rewrite Ev, andb_true_r.
             unfold slot_ref_eqb.
             cbn [sr_hash_slot sr_key sr_sha sr_logical sr_stored sr_records sr_max_id].
             rewrite N.eqb_refl, bytes_eqb_refl. cbn [andb].
             destruct (bytes_eqb (H b) (sr_sha r) && (sm_logical sm =? sr_logical r) && (sm_stored sm =? sr_stored r)
                       && (sm_records sm =? sr_records r) && (sm_max_id sm =? sr_max_id r)) eqn:Eall.
             ++ split; [intros _; auto|intros _; eexists; eexists; reflexivity].
             ++ split; [intros (a & sm' & E); discriminate|intros (_ & _ & _ & Hx); discriminate].
          -- assert (Hf : forallb (chunk_ok st (root_of id)) (sm_chunks sm) = false).
             { destruct (forallb (chunk_ok st (root_of id)) (sm_chunks sm)) eqn:Ef; [|reflexivity].
               apply verify_chunks_ok_iff in Ef. rewrite Ef in Ev. discriminate. }
             rewrite Hf, !andb_false_r.
             split; [intros (a & sm' & E); discriminate|intros (_ & _ & _ & Hx); discriminate].
        * split; [intros (a & sm' & E); discriminate|intros (_ & _ & _ & Hx); discriminate].
      + split; [intros (a & sm' & E); discriminate|intros (_ & _ & _ & Hx); discriminate].
    - assert (Hn : honest st (root_of id ++ sr_key r) maxStoredManifestBytes = None).
      { destruct (honest st (root_of id ++ sr_key r) maxStoredManifestBytes) as [b|] eqn:Eh2; [|reflexivity].
        apply read_ok_iff in Eh2. rewrite Eh2 in Er. discriminate. }
      rewrite Hn.
      split; [intros (a & sm' & E); discriminate|intros (_ & _ & _ & Hx); discriminate].
  Qed.

  Lemma slotref_returns_expected st id r v a sm : slotref st id r v = Ok (a, sm) -> a = r.
  Proof.
    unfold load_stored_slot_reference.
    destruct ((DefaultHashSlotCount <=? sr_hash_slot r)
              || negb (validate_slot_manifest_key (sr_hash_slot r) (sr_key r))
              || negb (validate_sha256 (sr_sha r))); [discriminate|].
    destruct (at_key st id (sr_hash_slot r) (sr_key r) v) as [[a0 m0]|e]; [|discriminate].
    destruct (slot_ref_eqb a0 r) eqn:E; [|discriminate].
    intro E1. inversion E1; subst. apply slot_ref_eqb_eq. exact E.
  Qed.


  (* ---- loadStoredSlotAtKey ---------------------------------------------------------------------- *)
  Lemma at_key_ok st id hs key v ref sm :
    at_key st id hs key v = Ok (ref, sm) ->
    exists b, honest st (root_of id ++ key) maxStoredManifestBytes = Some b /\ load_slot b = Ok sm
              /\ sm_hash_slot sm = hs
              /\ ref = SR hs key (H b) (sm_logical sm) (sm_stored sm) (sm_records sm) (sm_max_id sm)
              /\ (v = true -> forallb (chunk_ok st (root_of id)) (sm_chunks sm) = true).
  Proof.
    unfold load_stored_slot_at_key.
    destruct (read st (root_of id ++ key) maxStoredManifestBytes) as [b|e] eqn:Er; [|discriminate].
    apply read_ok_iff in Er.
    destruct (load_slot b) as [sm0|e] eqn:El; [|discriminate].
    destruct (sm_hash_slot sm0 =? hs) eqn:Eh; cbn [negb]; [|discriminate]. apply N.eqb_eq in Eh.
    destruct v.
    - destruct (vchunks st (root_of id) (sm_chunks sm0)) as [u|e] eqn:Ev; [|discriminate].
      intro E. inversion E; subst. exists b. repeat split; auto.
      intros _. apply verify_chunks_ok_iff. destruct u. exact Ev.
    - intro E. inversion E; subst. exists b. repeat split; auto. discriminate.
  Qed.

  (* ---- the slot loop ---------------------------------------------------------------------- *)
  Lemma verify_slots_ok_iff st id : forall slots i,
    i + N.of_nat (length slots) <= 65536 ->
    Forall (fun r => sr_hash_slot r < DefaultHashSlotCount
                     /\ validate_slot_manifest_key (sr_hash_slot r) (sr_key r) = true
                     /\ validate_sha256 (sr_sha r) = true) slots ->
    (vslots st id i slots = Ok tt <-> forallb_idx (slot_ok st id) i slots = true).
  Proof.
    induction slots as [|r rest IH]; intros i Hlen Hwf; [split; reflexivity|].
    cbn [verify_slots forallb_idx]. inversion Hwf as [|? ? (Hh & Hk & Hs) Hwf']; subst.
    cbn [length] in Hlen. rewrite Nat2N.inj_succ in Hlen.
    destruct (slotref st id r true) as [[a sm]|e] eqn:Er.
    - assert (a = r) by (eapply slotref_returns_expected; exact Er). subst a.
      assert (Hok : slot_ok st id (sr_hash_slot r) r = true).
      { apply (proj1 (slotref_ok_iff st id r)). eexists; eexists; exact Er. }
      rewrite N.mod_small by lia.
      destruct (sr_hash_slot r =? i) eqn:Ei; cbn [negb].
      + apply N.eqb_eq in Ei. rewrite Ei in Hok. rewrite Hok. cbn [andb].
        apply IH; [lia|assumption].
      + assert (Hf : slot_ok st id i r = false).
        { unfold slot_consistentb. rewrite Ei. reflexivity. }
        rewrite Hf. cbn [andb]. split; discriminate.
    - assert (Hf : slot_ok st id i r = false).
      { destruct (slot_ok st id i r) eqn:Ef; [|reflexivity].
        assert (Ei : sr_hash_slot r = i).
        { unfold slot_consistentb in Ef. apply andb_true_iff in Ef. destruct Ef as [Ef _]. apply N.eqb_eq. exact Ef. }
        subst i.
        destruct (proj2 (slotref_ok_iff st id r)) as (a & sm & E); [auto|]. rewrite E in Er. discriminate. }
      rewrite Hf. cbn [andb]. split; discriminate.
  Qed.

  Lemma verify_slots_res st id i slots : forall u, vslots st id i slots = Ok u -> u = tt.
  Proof. intros []. reflexivity. Qed.

  (* ---- LoadCompleteMarker -------------------------------------------------------------------- *)
  Lemma load_marker_ok kb mb k : load_marker kb mb = Ok k ->
    json_marker kb = Some k /\ validate_complete_marker k = None /\ canon_marker k kb = true
    /\ cm_bytes k = blen mb /\ cm_sha k = H mb /\ exists m, load_archive mb = Ok m.
  Proof.
    unfold load_complete_marker.
    destruct (json_marker kb) as [k0|]; [|discriminate].
    destruct (validate_complete_marker k0) eqn:Ev; [discriminate|].
    destruct (canon_marker k0 kb) eqn:Ec; cbn [negb]; [|discriminate].
    destruct (cm_bytes k0 =? blen mb) eqn:Eb; cbn [negb]; [|discriminate].
    destruct (bytes_eqb (cm_sha k0) (H mb)) eqn:Es; cbn [negb]; [|discriminate].
    destruct (load_archive mb) as [m|e] eqn:El; [|discriminate].
    intro E. inversion E; subst k0. eqb_hyps. repeat split; auto. exists m. reflexivity.
  Qed.

  (* ---- VerifyPublishedArchive = consistentb -------------------------------------------------- *)
  Theorem verify_sound st id m : verify st id = Ok m -> consistent st id m = true.
  Proof.
    unfold verify_published_archive.
    destruct (meta st id) as [m0|e] eqn:Em; [|discriminate].
    destruct (vslots st id 0 (am_slots m0)) as [u|e] eqn:Ev; [|discriminate].
    intro E. inversion E; subst m0. clear E.
    assert (u = tt) by (eapply verify_slots_res; exact Ev). subst u.
    unfold load_published_archive_metadata in Em.
    destruct (bytes_eqb id []) eqn:Eid; [discriminate|].
    destruct (get st (corrupt_key id)) eqn:Ec; [discriminate|].
    destruct (read st (manifest_key id) maxStoredManifestBytes) as [mb|e] eqn:Erm; [|discriminate].
    destruct (read st (complete_key id) maxStoredManifestBytes) as [kb|e] eqn:Erk; [|discriminate].
    destruct (load_marker kb mb) as [k|e] eqn:Elk; [|discriminate].
    destruct (load_archive mb) as [m1|e] eqn:Ela; [|discriminate].
    destruct (bytes_eqb (am_id m1) id) eqn:Eid2; [|discriminate].
    inversion Em; subst m1. clear Em.
    apply read_ok_iff in Erm. apply read_ok_iff in Erk.
    apply load_marker_ok in Elk. destruct Elk as (Hj & Hv & Hc & Hb & Hs & _).
    unfold consistentb. rewrite Eid, Ec, Erm, Erk, Ela, Hj, Hv, Hc. cbn [negb andb].
    rewrite archive_manifest_eqb_refl, Eid2, Hb, N.eqb_refl, Hs, bytes_eqb_refl. cbn [andb].
    assert (Hval : validate_archive_manifest m = None).
    { unfold load_archive_manifest in Ela. destruct (json_archive mb) as [m2|]; [|discriminate].
      destruct (validate_archive_manifest m2) eqn:Ev2; [discriminate|].
      destruct (canon_archive m2 mb); [|discriminate]. inversion Ela; subst. exact Ev2. }
    destruct (validate_archive_slots m Hval) as (Hlen & Hwf).
    apply (verify_slots_ok_iff st id (am_slots m) 0); [|assumption|assumption].
    rewrite Hlen. unfold DefaultHashSlotCount. lia.
  Qed.

  Theorem verify_complete st id m : consistent st id m = true -> verify st id = Ok m.
  Proof.
    unfold consistentb. intro C.
    destruct (bytes_eqb id []) eqn:Eid; [discriminate|]. cbn [negb andb] in C.
    destruct (get st (corrupt_key id)) eqn:Ec; [discriminate|]. cbn [andb] in C.
    destruct (honest st (manifest_key id) maxStoredManifestBytes) as [mb|] eqn:Ehm; [|discriminate].
    destruct (honest st (complete_key id) maxStoredManifestBytes) as [kb|] eqn:Ehk; [|discriminate].
    destruct (load_archive mb) as [m'|e] eqn:Ela; [|discriminate].
    destruct (json_marker kb) as [k|] eqn:Ejk; [|discriminate].
    split_andb.
    match goal with Ha : archive_manifest_eqb _ _ = true |- _ => apply archive_manifest_eqb_eq in Ha; subst m' end.
    destruct (validate_complete_marker k) eqn:Evk; [discriminate|].
    apply read_ok_iff in Ehm. apply read_ok_iff in Ehk.
    unfold verify_published_archive, load_published_archive_metadata.
    rewrite Eid, Ec, Ehm, Ehk.
    unfold load_complete_marker. rewrite Ejk, Evk.
    match goal with Ha : canon_marker k kb = true |- _ => rewrite Ha end.
    match goal with Ha : (cm_bytes k =? blen mb) = true |- _ => rewrite Ha end.
    match goal with Ha : bytes_eqb (cm_sha k) (H mb) = true |- _ => rewrite Ha end.
    cbn [negb]. rewrite Ela.
    match goal with Ha : bytes_eqb (am_id m) id = true |- _ => rewrite Ha end.
    assert (Hval : validate_archive_manifest m = None).
    { unfold load_archive_manifest in Ela. destruct (json_archive mb) as [m2|]; [|discriminate].
      destruct (validate_archive_manifest m2) eqn:Ev2; [discriminate|].
      destruct (canon_archive m2 mb); [|discriminate]. inversion Ela; subst. exact Ev2. }
    destruct (validate_archive_slots m Hval) as (Hlen & Hwf).
    match goal with Ha : forallb_idx _ 0 (am_slots m) = true |- _ =>
      apply (verify_slots_ok_iff st id (am_slots m) 0) in Ha; [rewrite Ha; reflexivity| |assumption] end.
    rewrite Hlen. unfold DefaultHashSlotCount. lia.
  Qed.

  Theorem verify_iff_consistent st id m : verify st id = Ok m <-> consistent st id m = true.
  Proof. split; [apply verify_sound|apply verify_complete]. Qed.
End Generic.
