(* Proof/WkEnc.v — C25: round trip, key agreement and tamper evidence of
   Model/WkEnc.v, for ARBITRARY primitives satisfying the stated algebraic laws
   (AES: decryption inverts encryption on 16-byte blocks and encryption maps
   blocks to blocks; MD5: 16 output bytes; X25519: Diffie-Hellman commutativity,
   32 output bytes).  No property of MD5 beyond its output shape is assumed:
   tamper evidence concludes "rejected, or here is an explicit MD5 collision". *)
From WK Require Import Base.Base Base.Bytes Gen.Consts_C25 Model.WkEnc.
From WK Require Import Proof.WkEnc_b64 Proof.WkEnc_blocks.
From Coq Require Import ZifyBool ZifyN ZifyNat.
Open Scope N_scope.

(* ---- the assumptions on the primitives ------------------------------------------------- *)

Definition aes_ok (aesE aesD : bytes -> bytes -> bytes) : Prop :=
  (forall k b, is_block b -> aesD k (aesE k b) = b) /\
  (forall k b, is_block b -> is_block (aesE k b)).

Definition md5_ok (md5 : bytes -> bytes) : Prop :=
  forall m, length (md5 m) = 16%nat /\ all_bytes (md5 m) = true.

Definition dh_ok (x25519 : bytes -> bytes -> option bytes) : Prop :=
  (forall a b pa pb, x25519 a X25519Basepoint = Some pa -> x25519 b X25519Basepoint = Some pb ->
                     x25519 a pb = x25519 b pa) /\
  (forall a p r, x25519 a p = Some r -> length r = 32%nat /\ all_bytes r = true).

(* an explicit collision of the hash *)
Definition md5_collision (md5 : bytes -> bytes) : Prop :=
  exists x y, x <> y /\ md5 x = md5 y.

(* usable session keys: at least one block of key and of IV *)
Definition usable (keys : session_keys) : Prop :=
  (16 <= length (AESKey keys))%nat /\ (16 <= length (AESIV keys))%nat.

Lemma bytes_eqb_refl a : bytes_eqb a a = true.
Proof. apply bytes_eqb_eq. reflexivity. Qed.

Lemma bytes_eqb_neq a b : a <> b -> bytes_eqb a b = false.
Proof. intro H. destruct (bytes_eqb a b) eqn:E; [|reflexivity]. apply bytes_eqb_eq in E. contradiction. Qed.

Lemma keys_eqb_eq a b : keys_eqb a b = true <-> a = b.
Proof.
  destruct a as [k1 i1], b as [k2 i2]. unfold keys_eqb. cbn [AESKey AESIV].
  rewrite andb_true_iff, !bytes_eqb_eq. split; [intros [-> ->]; reflexivity|intro H; inversion H; split; reflexivity].
Qed.

Lemma NewSessionCrypto_usable keys : usable keys ->
  NewSessionCrypto keys = Ok (SC (firstn 16 (AESKey keys)) (firstn 16 (AESIV keys))).
Proof.
  intros [Hk Hi]. unfold NewSessionCrypto. rewrite block_len_16.
  destruct (Nat.ltb_spec (length (AESKey keys)) 16); [lia|].
  destruct (Nat.ltb_spec (length (AESIV keys)) 16); [lia|]. reflexivity.
Qed.

Lemma NewSessionCrypto_ok keys sc : NewSessionCrypto keys = Ok sc ->
  usable keys /\ sc = SC (firstn 16 (AESKey keys)) (firstn 16 (AESIV keys)).
Proof.
  unfold NewSessionCrypto. rewrite block_len_16.
  destruct (Nat.ltb_spec (length (AESKey keys)) 16); [discriminate|].
  destruct (Nat.ltb_spec (length (AESIV keys)) 16); [discriminate|]. cbn [orb].
  intro E. inversion E. split; [split; assumption|reflexivity].
Qed.

Lemma NewSessionCrypto_err keys e : NewSessionCrypto keys = Err e -> ~ usable keys.
Proof.
  intros E [Hk Hi]. rewrite NewSessionCrypto_usable in E by (split; assumption). discriminate.
Qed.

Lemma sc_iv_block keys sc : NewSessionCrypto keys = Ok sc -> all_bytes (AESIV keys) = true -> is_block (sc_iv sc).
Proof.
  intros E B. apply NewSessionCrypto_ok in E. destruct E as [[_ Hi] ->]. cbn [sc_iv]. split.
  - rewrite firstn_length. lia.
  - apply all_bytes_firstn. exact B.
Qed.

Section AesLaws.

Variable aesE aesD : bytes -> bytes -> bytes.
Hypothesis AES : aes_ok aesE aesD.

(* ---- CBC -------------------------------------------------------------------------------------- *)

Lemma cbc_enc_blocks key : forall blocks prev, is_block prev -> Forall is_block blocks ->
  Forall is_block (cbc_enc aesE key prev blocks).
Proof.
  destruct AES as [_ EB].
  induction blocks as [|b r IH]; intros prev Hp Hb; [constructor|].
  inversion Hb as [|? ? Hb1 Hb2]; subst. cbn [cbc_enc].
  assert (Hc : is_block (aesE key (xorBlock b prev))) by (apply EB; apply xorBlock_block; assumption).
  constructor; [exact Hc|]. apply IH; assumption.
Qed.

Lemma cbc_dec_enc key : forall blocks prev, is_block prev -> Forall is_block blocks ->
  cbc_dec aesD key prev (cbc_enc aesE key prev blocks) = blocks.
Proof.
  destruct AES as [DE EB].
  induction blocks as [|b r IH]; intros prev Hp Hb; [reflexivity|].
  inversion Hb as [|? ? Hb1 Hb2]; subst. cbn [cbc_enc cbc_dec].
  assert (Hx : is_block (xorBlock b prev)) by (apply xorBlock_block; assumption).
  rewrite DE by exact Hx. rewrite xorBlock_involutive by (destruct Hb1, Hp; congruence).
  f_equal. apply IH; [apply EB; exact Hx|exact Hb2].
Qed.

Lemma cbc_enc_length key : forall blocks prev, length (cbc_enc aesE key prev blocks) = length blocks.
Proof. induction blocks as [|b r IH]; intro prev; [reflexivity|]. cbn [cbc_enc length]. rewrite IH. reflexivity. Qed.

(* ---- EncryptPayload / DecryptPayload ----------------------------------------------------------- *)

(* the ciphertext of a padded buffer: non-empty, whole blocks, bytes; decrypts to the buffer *)
Lemma encrypt_blocks sc p : is_block (sc_iv sc) -> all_bytes p = true ->
  let ct := encryptCBCBlocks aesE sc (pkcs7_pad p) in
  all_bytes ct = true /\ is_nil ct = false /\ Nat.modulo (length ct) 16 = 0%nat /\
  decryptCBCBlocks aesD sc ct = pkcs7_pad p.
Proof.
  intros Hiv Hp. cbv zeta. unfold encryptCBCBlocks, decryptCBCBlocks.
  destruct (pkcs7_pad_length p) as (m & Lm & Hm).
  destruct (split_blocks m (pkcs7_pad p) Lm) as (bs & E & F & L).
  assert (FB : Forall is_block bs).
  { apply forall_blocks; [exact F|]. rewrite <- E. apply pkcs7_pad_bytes. exact Hp. }
  assert (CH : chunks (pkcs7_pad p) = bs) by (rewrite E; apply chunks_concat; exact F).
  rewrite !CH.
  pose proof (cbc_enc_blocks (sc_key sc) bs (sc_iv sc) Hiv FB) as CB.
  set (cs := cbc_enc aesE (sc_key sc) (sc_iv sc) bs) in *.
  assert (Lc : length (concat cs) = (16 * m)%nat).
  { rewrite concat_length16 by (apply blocks_len16; exact CB). unfold cs. rewrite cbc_enc_length. f_equal. exact L. }
  repeat split.
  - apply blocks_bytes. exact CB.
  - destruct (concat cs); [cbn [length] in Lc; lia|reflexivity].
  - transitivity (Nat.modulo (16 * m) 16); [f_equal; exact Lc|].
    rewrite Nat.mul_comm. apply Nat.mod_mul. discriminate.
  - rewrite chunks_concat by (apply blocks_len16; exact CB). unfold cs.
    rewrite cbc_dec_enc by assumption. symmetry. exact E.
Qed.

Theorem decrypt_encrypt_crypto sc p : is_block (sc_iv sc) -> all_bytes p = true ->
  exists e, EncryptPayloadWithCrypto aesE p (Some sc) = Ok e /\
            DecryptPayloadWithCrypto aesD e (Some sc) = Ok p.
Proof.
  intros Hiv Hp. eexists. split; [reflexivity|].
  destruct (encrypt_blocks sc p Hiv Hp) as (B & NZ & M & D).
  unfold DecryptPayloadWithCrypto. rewrite b64_decode_encode by exact B.
  rewrite NZ, block_len_16, M. cbn [orb negb Nat.eqb].
  rewrite D, pkcs7_unpad_pad. reflexivity.
Qed.

(* c25_decrypt_encrypt *)
Theorem decrypt_encrypt keys p e : all_bytes (AESIV keys) = true -> all_bytes p = true ->
  EncryptPayload aesE p keys = Ok e -> DecryptPayload aesD e keys = Ok p.
Proof.
  intros Hiv Hp. unfold EncryptPayload, DecryptPayload, with_keys.
  destruct (NewSessionCrypto keys) as [sc|err] eqn:K; [|discriminate].
  destruct (decrypt_encrypt_crypto sc p (sc_iv_block keys sc K Hiv) Hp) as (e' & E1 & E2).
  rewrite E1. intro E. inversion E; subst. exact E2.
Qed.

Theorem encrypt_total keys p : usable keys -> exists e, EncryptPayload aesE p keys = Ok e.
Proof.
  intro U. unfold EncryptPayload, with_keys. rewrite NewSessionCrypto_usable by exact U.
  eexists. reflexivity.
Qed.

(* the bytes handed to MD5 determine the sign bytes *)
Lemma msg_key_preimage_inj sc s1 s2 : is_block (sc_iv sc) -> all_bytes s1 = true -> all_bytes s2 = true ->
  msg_key_preimage aesE s1 sc = msg_key_preimage aesE s2 sc -> s1 = s2.
Proof.
  intros Hiv H1 H2 E.
  destruct (decrypt_encrypt_crypto sc s1 Hiv H1) as (e1 & A1 & B1).
  destruct (decrypt_encrypt_crypto sc s2 Hiv H2) as (e2 & A2 & B2).
  cbn [EncryptPayloadWithCrypto] in A1, A2. inversion A1 as [A1']. inversion A2 as [A2'].
  unfold msg_key_preimage in E. rewrite E in A1'. rewrite A1' in A2'. subst e2.
  rewrite B1 in B2. inversion B2. reflexivity.
Qed.

End AesLaws.

(* ---- validation ------------------------------------------------------------------------------------ *)

Section MacLaws.

Variable aesE aesD : bytes -> bytes -> bytes.
Variable md5 : bytes -> bytes.
Hypothesis AES : aes_ok aesE aesD.
Hypothesis MD5 : md5_ok md5.

Lemma SendMsgKey_usable keys sc p : NewSessionCrypto keys = Ok sc ->
  SendMsgKey aesE md5 p keys = Ok (hexMD5String (md5 (msg_key_preimage aesE (send_sign_bytes p) sc))).
Proof. intro K. unfold SendMsgKey, with_keys. rewrite K. reflexivity. Qed.

Lemma Validate_crypto_eq keys sc p : NewSessionCrypto keys = Ok sc ->
  ValidateSendPacketWithCrypto aesE md5 p (Some sc) = ValidateSendPacket aesE md5 p keys.
Proof.
  intro K. unfold ValidateSendPacket. rewrite (SendMsgKey_usable keys sc p K). reflexivity.
Qed.

(* the honest packet validates *)
Theorem validate_honest keys p k : SendMsgKey aesE md5 p keys = Ok k -> sp_msgkey p = k ->
  ValidateSendPacket aesE md5 p keys = 0.
Proof.
  intros E H. unfold ValidateSendPacket. rewrite E, H, bytes_eqb_refl. reflexivity.
Qed.

(* c25_tamper_key: same covered bytes, different message key: rejected *)
Theorem tamper_key keys p p' k : SendMsgKey aesE md5 p keys = Ok k ->
  send_sign_bytes p' = send_sign_bytes p -> sp_msgkey p' <> k ->
  ValidateSendPacket aesE md5 p' keys = E_MsgKeyMismatch.
Proof.
  intros E S N. unfold ValidateSendPacket.
  assert (E' : SendMsgKey aesE md5 p' keys = Ok k).
  { rewrite <- E. unfold SendMsgKey, with_keys, SendMsgKeyWithCrypto. rewrite S. reflexivity. }
  rewrite E', bytes_eqb_neq by exact N. reflexivity.
Qed.

(* c25_tamper_covered: same message key, different covered bytes: rejected, or an MD5 collision *)
Theorem tamper_covered keys p p' k :
  all_bytes (AESIV keys) = true -> all_bytes (send_sign_bytes p) = true -> all_bytes (send_sign_bytes p') = true ->
  SendMsgKey aesE md5 p keys = Ok k -> sp_msgkey p' = k ->
  send_sign_bytes p' <> send_sign_bytes p ->
  ValidateSendPacket aesE md5 p' keys = E_MsgKeyMismatch \/ md5_collision md5.
Proof.
  intros Hiv B B' E Hk N.
  unfold SendMsgKey, with_keys in E. destruct (NewSessionCrypto keys) as [sc|err] eqn:K; [|discriminate].
  cbn [SendMsgKeyWithCrypto msgKeyWithCrypto] in E. inversion E as [Ek]. clear E.
  unfold ValidateSendPacket. rewrite (SendMsgKey_usable keys sc p' K).
  destruct (bytes_eqb (sp_msgkey p') (hexMD5String (md5 (msg_key_preimage aesE (send_sign_bytes p') sc)))) eqn:Q;
    [|left; reflexivity].
  right. apply bytes_eqb_eq in Q. rewrite Hk, <- Ek in Q.
  apply hexMD5String_inj in Q; [|apply MD5|apply MD5].
  exists (msg_key_preimage aesE (send_sign_bytes p) sc), (msg_key_preimage aesE (send_sign_bytes p') sc).
  split; [|exact Q].
  intro P. apply N. symmetry. revert P. apply (msg_key_preimage_inj aesE aesD AES); [exact (sc_iv_block keys sc K Hiv)|exact B|exact B'].
Qed.

(* a packet with the same covered bytes and the same key is accepted, whatever its fields are *)
Theorem same_sign_bytes_accepted keys p p' k : SendMsgKey aesE md5 p keys = Ok k ->
  send_sign_bytes p' = send_sign_bytes p -> sp_msgkey p' = k ->
  ValidateSendPacket aesE md5 p' keys = 0.
Proof.
  intros E S Hk. apply (validate_honest keys p' k); [|exact Hk].
  rewrite <- E. unfold SendMsgKey, with_keys, SendMsgKeyWithCrypto. rewrite S. reflexivity.
Qed.

(* the covered bytes of two packets that differ only in the payload differ *)
Lemma sign_bytes_payload p p' :
  sp_seq p' = sp_seq p -> sp_msgno p' = sp_msgno p -> sp_chid p' = sp_chid p -> sp_chtype p' = sp_chtype p ->
  sp_payload p' <> sp_payload p -> send_sign_bytes p' <> send_sign_bytes p.
Proof.
  intros E1 E2 E3 E4 N S. unfold send_sign_bytes in S. rewrite E1, E2, E3, E4 in S.
  repeat apply app_inv_head in S. contradiction.
Qed.

(* c25_tamper_payload *)
Theorem tamper_payload keys p p' k :
  all_bytes (AESIV keys) = true -> all_bytes (send_sign_bytes p) = true -> all_bytes (send_sign_bytes p') = true ->
  SendMsgKey aesE md5 p keys = Ok k -> sp_msgkey p' = k ->
  sp_seq p' = sp_seq p -> sp_msgno p' = sp_msgno p -> sp_chid p' = sp_chid p -> sp_chtype p' = sp_chtype p ->
  sp_payload p' <> sp_payload p ->
  ValidateSendPacket aesE md5 p' keys = E_MsgKeyMismatch \/ md5_collision md5.
Proof.
  intros Hiv B B' E Hk E1 E2 E3 E4 N.
  apply (tamper_covered keys p p' k); try assumption. apply sign_bytes_payload; assumption.
Qed.

End MacLaws.

(* ---- key agreement ------------------------------------------------------------------------------------ *)

Section DhLaws.

Variable md5 : bytes -> bytes.
Variable x25519 : bytes -> bytes -> option bytes.
Hypothesis MD5 : md5_ok md5.
Hypothesis DH : dh_ok x25519.

Lemma fit_exact n b : length b = n -> fit n b = b.
Proof. intro H. unfold fit. rewrite firstn_app, H, Nat.sub_diag, <- H, firstn_all. cbn [firstn]. apply app_nil_r. Qed.

Lemma DecodePublicKey_encode pub : length pub = 32%nat -> all_bytes pub = true ->
  DecodePublicKey (EncodePublicKey pub) = Ok pub.
Proof.
  intros L B. unfold DecodePublicKey, EncodePublicKey. rewrite b64_decode_encode by exact B.
  rewrite L. reflexivity.
Qed.

(* c25_same_keys: the client that sent its genuine public key and receives the server's key and salt
   derives exactly the server's session keys *)
Theorem same_keys cpriv cpub rnd skeys spub_enc :
  x25519 cpriv X25519Basepoint = Some cpub ->
  NegotiateServerSession md5 x25519 (EncodePublicKey cpub) rnd = Ok (skeys, spub_enc) ->
  DeriveClientSession md5 x25519 cpriv spub_enc (AESIV skeys) = Ok skeys.
Proof.
  destruct DH as [COMM SHAPE]. intros Hc N.
  destruct (SHAPE _ _ _ Hc) as [Lc Bc].
  unfold NegotiateServerSession in N. rewrite (DecodePublicKey_encode cpub Lc Bc) in N.
  unfold GenerateKeyPair in N.
  destruct (x25519 (fit 32 rnd) X25519Basepoint) as [spub|] eqn:Hs; [|discriminate].
  destruct (SHAPE _ _ _ Hs) as [Ls Bs]. rewrite (fit_exact 32 spub Ls) in N.
  unfold sharedSecret in N.
  destruct (x25519 (fit 32 rnd) cpub) as [secret|] eqn:Hsec; [|discriminate].
  inversion N; subst. clear N.
  unfold DeriveClientSession. rewrite (DecodePublicKey_encode spub Ls Bs).
  unfold sharedSecret. rewrite (COMM cpriv (fit 32 rnd) cpub spub Hc Hs), Hsec. reflexivity.
Qed.

(* the negotiated keys have the size NewSessionCrypto needs *)
Theorem negotiated_usable ckey rnd skeys spub_enc :
  NegotiateServerSession md5 x25519 ckey rnd = Ok (skeys, spub_enc) ->
  length (AESKey skeys) = 16%nat /\ length (AESIV skeys) = iv_size.
Proof.
  unfold NegotiateServerSession. destruct (DecodePublicKey ckey); [|discriminate].
  destruct (GenerateKeyPair x25519 rnd) as [[sp spub]|]; [|discriminate].
  destruct (sharedSecret x25519 sp a); [|discriminate]. intro E. inversion E; subst. cbn [AESKey AESIV]. split.
  - unfold deriveAESKey. rewrite firstn_length. unfold hexLower. rewrite hex_with_length.
    destruct (MD5 (b64_encode b)) as [L _]. rewrite L. reflexivity.
  - unfold randomIV. rewrite map_length. unfold fit. rewrite firstn_length, app_length, repeat_length. lia.
Qed.

End DhLaws.
