(* Proof/QuorumLog_Commit.v — structural lemmas about Commit and runDurableRound
   (Model/QuorumLog.v) shared by the proofs of C03 and C01: every path Commit can take once a
   proposal is admitted, what a durability round does to the local replica, and that a round
   only succeeds when the local write was durable. *)
From WK Require Import Base.Base.
From WK Require Import Model.ReplicaLog Model.QuorumLog Proof.ReplicaLog.
Open Scope N_scope.

(* ---- replica maps -------------------------------------------------------------------------------- *)

Lemma get_rep_put l v r v' : get_rep (put_rep l v r) v' = if v' =? v then r else get_rep l v'.
Proof.
  induction l as [|[w t] l IH]; cbn.
  - destruct (v' =? v); reflexivity.
  - destruct (v =? w) eqn:E; cbn.
    + apply N.eqb_eq in E. subst w. destruct (v' =? v); reflexivity.
    + destruct (v' =? w) eqn:E2.
      * apply N.eqb_eq in E2. subst w. rewrite N.eqb_sym, E. reflexivity.
      * exact IH.
Qed.

Lemma net_rep_set n v r v' : net_rep (net_set n v r) v' = if v' =? v then r else net_rep n v'.
Proof. unfold net_rep, net_set. cbn. apply get_rep_put. Qed.

Lemma net_set_fields n v r :
  nt_kind (net_set n v r) = nt_kind n /\ nt_down (net_set n v r) = nt_down n /\
  nt_flt (net_set n v r) = nt_flt n /\ nt_replaced (net_set n v r) = nt_replaced n.
Proof. repeat split. Qed.

(* ---- one durability round and the local replica ---------------------------------------------------- *)

(* a follower submission never touches another node's replica *)
Lemma submitReplica_other n local v p n' o w :
  submitReplica n local v p = (n', o) -> w <> v -> net_rep n' w = net_rep n w.
Proof.
  unfold submitReplica. intros H Hw.
  destruct (unreachable n local v); [inversion H; reflexivity|].
  destruct (negb (net_known n v) || negb (replicate_request_valid (dp_leader p) v p)); [inversion H; reflexivity|].
  destruct (sync (nt_kind n) (net_rep n v) (dp_mutation p)) as [[rp o1] nf].
  assert (Hset : net_rep (net_set n v rp) w = net_rep n w).
  { rewrite net_rep_set. destruct (w =? v) eqn:E; [apply N.eqb_eq in E; contradiction | reflexivity]. }
  destruct (memN v (fl_lose (nt_flt n))); [inversion H; subst; exact Hset|].
  destruct o1; try (inversion H; subst; exact Hset).
  destruct (0 <? nf); inversion H; subst; exact Hset.
Qed.

Lemma submit_all_other local p w : forall vs n q n' q',
  submit_all n local p vs q = (n', q') -> ~ In w vs -> net_rep n' w = net_rep n w.
Proof.
  induction vs as [|v vs IH]; intros n q n' q' H Hin; cbn in H.
  - inversion H. reflexivity.
  - destruct (submitReplica n local v p) as [n1 o] eqn:E.
    rewrite (IH _ _ _ _ H (fun X => Hin (or_intror X))).
    eapply submitReplica_other; eauto. intro X. apply Hin. left. symmetry. exact X.
Qed.

(* the result loop: the local replica is never written, and success requires a durable local vote *)
Lemma round_loop_local w : forall fuel n local wq p queue next ld votes out cf lf n' res,
  round_loop fuel n local wq p queue next ld votes out cf lf = (n', res) ->
  ~ In w next ->
  net_rep n' w = net_rep n w /\
  (rr_ok res = true -> rr_local res = true /\ wq <=? rr_votes res = true /\ rr_outcome res = ODurable) /\
  (rr_local res = true -> ld = true \/ exists o, In (true, o) queue /\ outcome_durable o = true).
Proof.
  induction fuel as [|fuel IH]; intros n local wq p queue next ld votes out cf lf n' res H Hin; cbn in H.
  - inversion H; subst. cbn. split; [reflexivity|]. split; [discriminate|]. auto.
  - destruct queue as [|[isLocal o] queue'].
    + inversion H; subst. cbn. split; [reflexivity|]. split; [discriminate|]. auto.
    + set (ld' := ld || (outcome_durable o && isLocal)) in *.
      set (votes' := if outcome_durable o then votes + 1 else votes) in *.
      assert (Hld : ld' = true -> ld = true \/ exists o0, In (true, o0) ((isLocal, o) :: queue') /\ outcome_durable o0 = true).
      { unfold ld'. intro X. apply orb_true_iff in X. destruct X as [X | X]; [auto|].
        apply andb_true_iff in X. destruct X as [X1 X2]. subst isLocal. right. exists o. split; [left; reflexivity | exact X1]. }
      destruct (ld' && (wq <=? votes')) eqn:Hq.
      * destruct (submit_all n local p next []) as [n1 q1] eqn:Hs. inversion H; subst. cbn.
        apply andb_true_iff in Hq. destruct Hq as [Hq1 Hq2].
        split; [eapply submit_all_other; eauto|]. split; [auto|]. intros _. apply Hld. exact Hq1.
      * destruct (isLocal && negb (outcome_durable o)) eqn:Hlf.
        -- destruct (submit_all n local p next queue') as [n1 q1] eqn:Hs.
           destruct (IH _ _ _ _ _ _ _ _ _ _ _ _ _ H (fun X => X)) as (I1 & I2 & I3).
           split; [rewrite I1; eapply submit_all_other; eauto|]. split; [exact I2|].
           intro X. destruct (I3 X) as [Y | (o0 & Y1 & Y2)].
           ++ apply Hld. exact Y.
           ++ (* a local completion later in the queue: impossible to be new, followers are never local *)
              right. exists o0. split; [|exact Y2].
              assert (Hq1 : forall vs n0 q0 n2 q2, submit_all n0 local p vs q0 = (n2, q2) ->
                              In (true, o0) q2 -> In (true, o0) q0).
              { clear. induction vs as [|v vs IHv]; intros n0 q0 n2 q2 G Hi; cbn in G.
                - inversion G; subst. exact Hi.
                - destruct (submitReplica n0 local v p) as [n3 o3].
                  specialize (IHv _ _ _ _ G Hi). apply in_app_or in IHv. destruct IHv as [Z | Z]; [exact Z|].
                  cbn in Z. destruct Z as [Z | []]. discriminate. }
              right. eapply Hq1; eauto.
        -- destruct (negb lf && negb isLocal && negb (outcome_durable o)).
           ++ destruct next as [|v next'].
              ** destruct (IH _ _ _ _ _ _ _ _ _ _ _ _ _ H Hin) as (I1 & I2 & I3).
                 split; [exact I1|]. split; [exact I2|]. intro X. destruct (I3 X) as [Y | (o0 & Y1 & Y2)].
                 --- apply Hld. exact Y.
                 --- right. exists o0. split; [right; exact Y1 | exact Y2].
              ** destruct (submitReplica n local v p) as [n1 o1] eqn:Hs.
                 destruct (IH _ _ _ _ _ _ _ _ _ _ _ _ _ H (fun X => Hin (or_intror X))) as (I1 & I2 & I3).
                 split; [rewrite I1; eapply submitReplica_other; eauto; intro X; apply Hin; left; symmetry; exact X|].
                 split; [exact I2|]. intro X. destruct (I3 X) as [Y | (o0 & Y1 & Y2)].
                 --- apply Hld. exact Y.
                 --- right. exists o0. split; [|exact Y2]. apply in_app_or in Y1.
                     destruct Y1 as [Z | Z]; [right; exact Z|]. cbn in Z. destruct Z as [Z | []]. discriminate.
           ++ destruct (IH _ _ _ _ _ _ _ _ _ _ _ _ _ H Hin) as (I1 & I2 & I3).
              split; [exact I1|]. split; [exact I2|]. intro X. destruct (I3 X) as [Y | (o0 & Y1 & Y2)].
              --- apply Hld. exact Y.
              --- right. exists o0. split; [right; exact Y1 | exact Y2].
Qed.

Lemma In_firstn_l {A} (x : A) k (l : list A) : In x (firstn k l) -> In x l.
Proof. intro H. rewrite <- (firstn_skipn k l). apply in_or_app. left. exact H. Qed.
Lemma In_skipn_l {A} (x : A) k (l : list A) : In x (skipn k l) -> In x l.
Proof. intro H. rewrite <- (firstn_skipn k l). apply in_or_app. right. exact H. Qed.

Lemma rotate_In {A} (x : A) : forall k l, In x (rotate l k) <-> In x l.
Proof.
  induction k as [|k IH]; intro l; cbn; [tauto|].
  destruct l as [|y r]; [tauto|]. rewrite IH, in_app_iff. cbn. tauto.
Qed.

Lemma round_followers_not_local voters local rot : ~ In local (round_followers voters local rot).
Proof.
  unfold round_followers. intro H.
  assert (X : In local (filter (fun v => negb (v =? local)) voters)).
  { destruct (1 <? lenN (filter (fun v => negb (v =? local)) voters)); [apply rotate_In in H|]; exact H. }
  apply filter_In in X. destruct X as [_ X]. rewrite N.eqb_refl in X. discriminate.
Qed.

(* runDurableRound: the local replica is written by the local submission only; a successful
   round had a durable local completion, at least wq durable votes, and outcome Durable *)
Lemma runDurableRound_local n local voters wq rot p n' res :
  runDurableRound n local voters wq rot p = (n', res) ->
  exists n1 o1, submitLocal n local p = (n1, o1) /\
    net_rep n' local = net_rep n1 local /\
    (rr_ok res = true -> rr_local res = true /\ wq <=? rr_votes res = true /\ rr_outcome res = ODurable) /\
    (rr_local res = true -> outcome_durable o1 = true).
Proof.
  unfold runDurableRound. cbv zeta. intro H.
  destruct (submitLocal n local p) as [n1 o1] eqn:E1. exists n1, o1. split; [reflexivity|].
  destruct (submit_all n1 local p (firstn (N.to_nat (wq - 1)) (round_followers voters local rot)) [(true, o1)])
    as [n2 queue] eqn:E2.
  pose proof (round_followers_not_local voters local rot) as Hnl.
  assert (Hf : ~ In local (firstn (N.to_nat (wq - 1)) (round_followers voters local rot))).
  { intro X. apply Hnl. eapply In_firstn_l; eauto. }
  assert (Hs : ~ In local (skipn (N.to_nat (wq - 1)) (round_followers voters local rot))).
  { intro X. apply Hnl. eapply In_skipn_l; eauto. }
  destruct (round_loop_local local _ _ _ _ _ _ _ _ _ _ _ _ _ _ H Hs) as (I1 & I2 & I3).
  split; [rewrite I1; eapply submit_all_other; eauto|]. split; [exact I2|].
  intro X. destruct (I3 X) as [Y | (o0 & Y1 & Y2)]; [discriminate|].
  (* the only local completion in the initial queue is the local submission *)
  assert (Hq : forall vs n0 q0 n3 q3, submit_all n0 local p vs q0 = (n3, q3) -> In (true, o0) q3 -> In (true, o0) q0).
  { clear. induction vs as [|v vs IHv]; intros n0 q0 n3 q3 G Hi; cbn in G.
    - inversion G; subst. exact Hi.
    - destruct (submitReplica n0 local v p) as [n4 o4].
      specialize (IHv _ _ _ _ G Hi). apply in_app_or in IHv. destruct IHv as [Z | Z]; [exact Z|].
      cbn in Z. destruct Z as [Z | []]. discriminate. }
  specialize (Hq _ _ _ _ _ E2 Y1). cbn in Hq. destruct Hq as [Z | []]. inversion Z; subst. exact Y2.
Qed.

(* the local submission is one Sync on the local replica *)
Lemma submitLocal_effect n local p n1 o1 :
  submitLocal n local p = (n1, o1) ->
  (net_rep n1 local = net_rep n local /\ outcome_durable o1 = false) \/
  (exists rp o nf, sync (nt_kind n) (net_rep n local) (dp_mutation p) = (rp, o, nf) /\
                   net_rep n1 local = rp /\ (outcome_durable o1 = true -> o1 = o)).
Proof.
  unfold submitLocal. destruct (memN local (fl_drop (nt_flt n))).
  - intro H. inversion H; subst. left. auto.
  - destruct (sync (nt_kind n) (net_rep n local) (dp_mutation p)) as [[rp o] nf] eqn:E.
    intro H. right. exists rp, o, nf. split; [reflexivity|].
    destruct (memN local (fl_lose (nt_flt n))); inversion H; subst;
      (split; [rewrite net_rep_set, N.eqb_refl; reflexivity|]); [discriminate | auto].
Qed.

(* ---- every path of an admitted Commit ---------------------------------------------------------------- *)

Definition commit_admitted (cfg : qconfig) (st : qchannel) (a : authority) (p : proposal) : Prop :=
  (authid_eqb (pr_expected p) authid_zero || tag_is_zero (pr_cmd p) || (lenN (pr_records p) =? 0) ||
   (cf_maxrecs cfg <? lenN (pr_records p)) || negb (validProposalRecords (pr_records p))) = false /\
  qc_ready st = true /\ qc_auth st = Some a /\ authid_eqb (pr_expected p) (a_id a) = true /\ a_wf a = false.

Inductive commit_shape (cfg : qconfig) (n : net) (st : qchannel) (local : N) (p : proposal) (a : authority)
  : net -> qchannel -> commit_result -> Prop :=
| CS_retained_conflict rt :
    get_retained (qc_retained st) (pr_cmd p) = Some rt -> sameProposalContent (rt_prop rt) (pr_records p) = false ->
    commit_shape cfg n st local p a n st (CErr EConflict)
| CS_retained_hit rt :
    get_retained (qc_retained st) (pr_cmd p) = Some rt -> sameProposalContent (rt_prop rt) (pr_records p) = true ->
    rt_durable rt = true -> commit_shape cfg n st local p a n st (COk (rt_receipt rt))
| CS_retained_retry rt n' st' r :
    get_retained (qc_retained st) (pr_cmd p) = Some rt -> sameProposalContent (rt_prop rt) (pr_records p) = true ->
    rt_durable rt = false -> retryPending cfg n st a local rt = (n', st', r) ->
    commit_shape cfg n st local p a n' st' r
| CS_pending_conflict pend :
    get_retained (qc_retained st) (pr_cmd p) = None -> qc_pending st = Some pend ->
    tag_eqb (m_cmd (dp_manifest (rt_prop pend))) (pr_cmd p) = true ->
    sameProposalContent (rt_prop pend) (pr_records p) = false ->
    commit_shape cfg n st local p a n st (CErr EConflict)
| CS_pending_retry pend n' st' r :
    get_retained (qc_retained st) (pr_cmd p) = None -> qc_pending st = Some pend ->
    tag_eqb (m_cmd (dp_manifest (rt_prop pend))) (pr_cmd p) = true ->
    sameProposalContent (rt_prop pend) (pr_records p) = true ->
    retryPending cfg n st a local pend = (n', st', r) ->
    commit_shape cfg n st local p a n' st' r
| CS_backpressured pend :
    get_retained (qc_retained st) (pr_cmd p) = None -> qc_pending st = Some pend ->
    tag_eqb (m_cmd (dp_manifest (rt_prop pend))) (pr_cmd p) = false ->
    commit_shape cfg n st local p a n st (CErr EBackpressured)
| CS_seal_failed :
    get_retained (qc_retained st) (pr_cmd p) = None -> qc_pending st = None ->
    sealBusinessProposal a (qc_frontier st) (qc_hw st) (pr_cmd p) (pr_records p) (pr_sa p) = None ->
    commit_shape cfg n st local p a n st (CErr EInvalid)
| CS_round_failed d n' res :
    get_retained (qc_retained st) (pr_cmd p) = None -> qc_pending st = None ->
    sealBusinessProposal a (qc_frontier st) (qc_hw st) (pr_cmd p) (pr_records p) (pr_sa p) = Some d ->
    runDurableRound n local (a_voters a) (a_q a) (cf_rot cfg) d = (n', res) ->
    rr_ok res = false -> rr_outcome res <> OConflict ->
    commit_shape cfg n st local p a n' (set_pending st (Some (Retained d receipt_zero false))) (CErr EQuorumUnavailable)
| CS_reconcile d n' res st3 out :
    get_retained (qc_retained st) (pr_cmd p) = None -> qc_pending st = None ->
    sealBusinessProposal a (qc_frontier st) (qc_hw st) (pr_cmd p) (pr_records p) (pr_sa p) = Some d ->
    runDurableRound n local (a_voters a) (a_q a) (cf_rot cfg) d = (n', res) ->
    rr_ok res = false -> rr_outcome res = OConflict ->
    reconcileCommandConflict cfg n' (set_pending (set_pending st (Some (Retained d receipt_zero false))) None) a local p = (st3, out) ->
    commit_shape cfg n st local p a n' st3 out
| CS_finish d n' res st2 out :
    get_retained (qc_retained st) (pr_cmd p) = None -> qc_pending st = None ->
    sealBusinessProposal a (qc_frontier st) (qc_hw st) (pr_cmd p) (pr_records p) (pr_sa p) = Some d ->
    runDurableRound n local (a_voters a) (a_q a) (cf_rot cfg) d = (n', res) ->
    rr_ok res = true ->
    finishCommit cfg (set_pending st (Some (Retained d receipt_zero false))) a (Retained d receipt_zero false) res = (st2, out) ->
    commit_shape cfg n st local p a n' st2 out.

Lemma Commit_shape cfg n st local p a n' st' r :
  commit_admitted cfg st a p -> Commit cfg n st local p = (n', st', r) ->
  commit_shape cfg n st local p a n' st' r.
Proof.
  intros (Hv & Hrd & Hau & Hex & Hwf). unfold Commit. rewrite Hv, Hrd, Hau, Hex, Hwf. cbn [negb].
  destruct (get_retained (qc_retained st) (pr_cmd p)) as [rt|] eqn:Hget.
  - destruct (sameProposalContent (rt_prop rt) (pr_records p)) eqn:Hs; cbn [negb].
    + destruct (rt_durable rt) eqn:Hd.
      * intro H. inversion H; subst. eapply CS_retained_hit; eauto.
      * intro H. eapply CS_retained_retry; eauto.
    + intro H. inversion H; subst. eapply CS_retained_conflict; eauto.
  - destruct (qc_pending st) as [pend|] eqn:Hp.
    + destruct (tag_eqb (m_cmd (dp_manifest (rt_prop pend))) (pr_cmd p)) eqn:Ht.
      * destruct (sameProposalContent (rt_prop pend) (pr_records p)) eqn:Hs; cbn [negb].
        -- intro H. eapply CS_pending_retry; eauto.
        -- intro H. inversion H; subst. eapply CS_pending_conflict; eauto.
      * intro H. inversion H; subst. eapply CS_backpressured; eauto.
    + destruct (sealBusinessProposal a (qc_frontier st) (qc_hw st) (pr_cmd p) (pr_records p) (pr_sa p)) as [d|] eqn:Hseal.
      2:{ intro H. inversion H; subst. eapply CS_seal_failed; eauto. }
      destruct (runDurableRound n local (a_voters a) (a_q a) (cf_rot cfg) d) as [n1 res] eqn:Hr.
      destruct (rr_ok res) eqn:Hok; cbn [negb].
      * destruct (finishCommit cfg (set_pending st (Some (Retained d receipt_zero false))) a
                               (Retained d receipt_zero false) res) as [st2 out] eqn:Hf.
        intro H. inversion H; subst. eapply CS_finish; eauto.
      * destruct (rr_outcome res) eqn:Ho;
          try (intro H; inversion H; subst; eapply CS_round_failed; eauto; rewrite Ho; discriminate).
        destruct (reconcileCommandConflict cfg n1 _ a local p) as [st3 out] eqn:Hrec.
        intro H. inversion H; subst. eapply CS_reconcile; eauto.
Qed.
