(* Proof/Membership_C16.v — part 1: along any sequence of mutations (direct calls,
   a committed batch, the calls interleaved in a directory pass) a membership /
   CMD row only advances unless the sequence contains a delete / recreate
   boundary for its key, as classified by the monitor's folds. *)
From WK Require Import Base.Base.
From WK Require Import Gen.Consts_C16 Model.Membership Model.Membership_C16 Proof.Membership.
Open Scope N_scope.

(* ---- effect of one mutation on the two stores ------------------------------------ *)

Lemma get_row_stage st k0 ex next k :
  get_row (stageUserChannelMembership st k0 ex next) k
  = if mkey_eqb k0 k then Some next else get_row st k.
Proof. unfold get_row, stageUserChannelMembership. cbn [st_rows]. apply assoc_get_put. Qed.

Lemma get_cmd_stage st k0 ex next k :
  get_cmd (stageUserChannelMembership st k0 ex next) k = get_cmd st k.
Proof. reflexivity. Qed.

Lemma get_row_delete st k0 k :
  get_row (deleteUserChannelMembership st k0) k = if mkey_eqb k0 k then None else get_row st k.
Proof.
  unfold deleteUserChannelMembership. destruct (get_row st k0) eqn:H.
  - unfold get_row. cbn [st_rows]. apply assoc_get_del.
  - destruct (mkey_eqb k0 k) eqn:E; [|reflexivity]. apply mkey_eqb_eq in E. subst. exact H.
Qed.

Lemma get_cmd_delete st k0 k : get_cmd (deleteUserChannelMembership st k0) k = get_cmd st k.
Proof. unfold deleteUserChannelMembership. destruct (get_row st k0); reflexivity. Qed.

Lemma get_cmd_put st k0 c k :
  get_cmd (put_cmd st k0 c) k = if mkey_eqb k0 k then Some c else get_cmd st k.
Proof. unfold get_cmd, put_cmd. cbn [st_cmd]. apply assoc_get_put. Qed.

Lemma get_row_put_cmd st k0 c k : get_row (put_cmd st k0 c) k = get_row st k.
Proof. reflexivity. Qed.

(* upsertWith: the row of its key becomes the resolver's result *)
Lemma upsertWith_row resolve st slot m k :
  get_row (snd (upsertWith resolve st slot m)) k
  = if mkey_eqb (membership_key slot m) k
    then match get_row st k with
         | Some ex => Some (resolve ex true m)
         | None => Some (resolve m false m)
         end
    else get_row st k.
Proof.
  unfold upsertWith.
  destruct (mkey_eqb (membership_key slot m) k) eqn:E.
  - apply mkey_eqb_eq in E. subst k.
    destruct (get_row st (membership_key slot m)) as [ex|] eqn:Hg.
    + destruct (membership_eqb ex (resolve ex true m)) eqn:Heq; cbn [snd].
      * apply membership_eqb_eq in Heq. rewrite Hg. f_equal. exact Heq.
      * rewrite get_row_stage, mkey_eqb_refl. reflexivity.
    + cbn [snd]. rewrite get_row_stage, mkey_eqb_refl. reflexivity.
  - destruct (get_row st (membership_key slot m)) as [ex|] eqn:Hg.
    + destruct (membership_eqb ex (resolve ex true m)); cbn [snd]; [reflexivity|].
      rewrite get_row_stage, E. reflexivity.
    + cbn [snd]. rewrite get_row_stage, E. reflexivity.
Qed.

Lemma upsertWith_cmd resolve st slot m k : get_cmd (snd (upsertWith resolve st slot m)) k = get_cmd st k.
Proof.
  unfold upsertWith. destruct (get_row st (membership_key slot m)) as [ex|].
  - destruct (membership_eqb ex (resolve ex true m)); reflexivity.
  - reflexivity.
Qed.

Lemma mutate_row st k0 f k :
  get_row (snd (mutateUserChannelMembership st k0 f)) k
  = if mkey_eqb k0 k
    then match get_row st k with
         | Some ex => Some (if m_tombstone ex then ex else f ex)
         | None => None
         end
    else get_row st k.
Proof.
  unfold mutateUserChannelMembership.
  destruct (mkey_eqb k0 k) eqn:E.
  - apply mkey_eqb_eq in E. subst k.
    destruct (get_row st k0) as [ex|] eqn:Hg; [|cbn [snd]; exact Hg].
    destruct (m_tombstone ex); [cbn [snd]; exact Hg|].
    destruct (membership_eqb (f ex) ex) eqn:Heq; cbn [snd].
    + apply membership_eqb_eq in Heq. rewrite Hg, Heq. reflexivity.
    + rewrite get_row_stage, mkey_eqb_refl. reflexivity.
  - destruct (get_row st k0) as [ex|]; [|reflexivity].
    destruct (m_tombstone ex); [reflexivity|].
    destruct (membership_eqb (f ex) ex); cbn [snd]; [reflexivity|].
    rewrite get_row_stage, E. reflexivity.
Qed.

Lemma mutate_cmd_unchanged st k0 f k : get_cmd (snd (mutateUserChannelMembership st k0 f)) k = get_cmd st k.
Proof.
  unfold mutateUserChannelMembership. destruct (get_row st k0) as [ex|]; [|reflexivity].
  destruct (m_tombstone ex); [reflexivity|]. destruct (membership_eqb (f ex) ex); reflexivity.
Qed.

Lemma mutate_cmd_row st k0 f k :
  get_cmd (snd (mutateUserCMDChannelMembership st k0 f)) k
  = if mkey_eqb k0 k
    then match get_cmd st k with
         | Some ex => Some (if c_tombstone ex then ex else f ex)
         | None => None
         end
    else get_cmd st k.
Proof.
  unfold mutateUserCMDChannelMembership.
  destruct (mkey_eqb k0 k) eqn:E.
  - apply mkey_eqb_eq in E. subst k.
    destruct (get_cmd st k0) as [ex|] eqn:Hg; [|cbn [snd]; exact Hg].
    destruct (c_tombstone ex); [cbn [snd]; exact Hg|].
    destruct (cmd_membership_eqb (f ex) ex) eqn:Heq; cbn [snd].
    + apply cmd_membership_eqb_eq in Heq. rewrite Hg, Heq. reflexivity.
    + rewrite get_cmd_put, mkey_eqb_refl. reflexivity.
  - destruct (get_cmd st k0) as [ex|]; [|reflexivity].
    destruct (c_tombstone ex); [reflexivity|].
    destruct (cmd_membership_eqb (f ex) ex); cbn [snd]; [reflexivity|].
    rewrite get_cmd_put, E. reflexivity.
Qed.

Lemma mutate_cmd_rows_unchanged st k0 f k :
  get_row (snd (mutateUserCMDChannelMembership st k0 f)) k = get_row st k.
Proof.
  unfold mutateUserCMDChannelMembership. destruct (get_cmd st k0) as [ex|]; [|reflexivity].
  destruct (c_tombstone ex); [reflexivity|]. destruct (cmd_membership_eqb (f ex) ex); reflexivity.
Qed.

Lemma cmd_upsert_row st slot c k :
  get_cmd (snd (mut_apply st (MCmdUpsert slot c))) k
  = if mkey_eqb (cmd_membership_key slot c) k
    then match get_cmd st k with
         | Some ex => Some (resolveUserCMDChannelMembership ex true c)
         | None => Some (resolveUserCMDChannelMembership c false c)
         end
    else get_cmd st k.
Proof.
  cbn [mut_apply].
  destruct (mkey_eqb (cmd_membership_key slot c) k) eqn:E.
  - apply mkey_eqb_eq in E. subst k.
    destruct (get_cmd st (cmd_membership_key slot c)) as [ex|] eqn:Hg.
    + destruct (cmd_membership_eqb ex (resolveUserCMDChannelMembership ex true c)) eqn:Heq; cbn [snd].
      * apply cmd_membership_eqb_eq in Heq. rewrite Hg. f_equal. exact Heq.
      * rewrite get_cmd_put, mkey_eqb_refl. reflexivity.
    + cbn [snd]. rewrite get_cmd_put, mkey_eqb_refl. reflexivity.
  - destruct (get_cmd st (cmd_membership_key slot c)) as [ex|].
    + destruct (cmd_membership_eqb ex (resolveUserCMDChannelMembership ex true c)); cbn [snd]; [reflexivity|].
      rewrite get_cmd_put, E. reflexivity.
    + cbn [snd]. rewrite get_cmd_put, E. reflexivity.
Qed.

Lemma cmd_upsert_rows_unchanged st slot c k :
  get_row (snd (mut_apply st (MCmdUpsert slot c))) k = get_row st k.
Proof.
  cbn [mut_apply]. destruct (get_cmd st (cmd_membership_key slot c)) as [ex|].
  - destruct (cmd_membership_eqb ex (resolveUserCMDChannelMembership ex true c)); reflexivity.
  - reflexivity.
Qed.

(* an error leaves the state unchanged *)
Lemma mut_apply_error st u e st' : mut_apply st u = (e, st') -> e <> ENone -> st' = st.
Proof.
  destruct u; cbn [mut_apply]; unfold upsertWith, mutateUserChannelMembership, mutateUserCMDChannelMembership;
    repeat match goal with
           | |- context [match ?x with _ => _ end] => destruct x
           end;
    intros H Hne; inversion H; subst; try reflexivity; contradiction.
Qed.

(* ---- sequences of mutations ---------------------------------------------------------- *)

(* each mutation of the list is applied or not (skipped because invalid, because it
   follows the end of a pass, or because the whole batch was refused) *)
Inductive reach : mstate -> list mut -> mstate -> Prop :=
| reach_nil st : reach st [] st
| reach_skip st u r st' : reach st r st' -> reach st (u :: r) st'
| reach_apply st u r st' : reach (snd (mut_apply st u)) r st' -> reach st (u :: r) st'.

Lemma reach_all_skipped us : forall st, reach st us st.
Proof. induction us as [|u r IH]; intro st; [constructor|apply reach_skip, IH]. Qed.

Lemma direct_apply_reach st u : reach st [u] (snd (direct_apply st u)).
Proof.
  unfold direct_apply. destruct (mut_valid u); cbn [snd].
  - apply reach_apply. constructor.
  - apply reach_skip. constructor.
Qed.

Lemma batch_build_reach : forall ops w w', batch_build w ops = (ENone, w') -> reach w ops w'.
Proof.
  induction ops as [|u r IH]; intros w w'; cbn [batch_build].
  - intro H. inversion H. constructor.
  - destruct (negb (mut_valid u)).
    + intro H. apply reach_skip. apply IH. exact H.
    + destruct (mut_apply w u) as [e w1] eqn:Hu.
      destruct e; cbn [db_err_eqb]; try (intro H; inversion H; fail).
      intro H. apply reach_apply. rewrite Hu. cbn [snd]. apply IH. exact H.
Qed.

(* ---- the monitor's fold, one step at a time --------------------------------------------- *)

Definition head_boundary (k : mkey) (asv : N) (mt ms : bool) (u : mut) : bool :=
  match u with
  | MDelete k' => mkey_eqb k' k
  | MUpsert slot m =>
    mkey_eqb (membership_key slot m) k && (negb (m_tombstone m) && (asv <? m_source_version m) && mt)
  | MEnsure slot m =>
    mkey_eqb (membership_key slot m) k && ((asv <? m_source_version m) && ms)
  | _ => false
  end.

Definition flags_after (k : mkey) (mt ms : bool) (u : mut) : bool * bool :=
  match u with
  | MUpsert slot m =>
    if mkey_eqb (membership_key slot m) k
    then (mt || m_tombstone m, ms || negb (m_source_version m =? 0)) else (mt, ms)
  | MEnsure slot m =>
    if mkey_eqb (membership_key slot m) k
    then (mt, ms || negb (m_source_version m =? 0)) else (mt, ms)
  | _ => (mt, ms)
  end.

Lemma boundary_fold_cons k asv mt ms u r :
  boundary_fold k asv mt ms (u :: r)
  = head_boundary k asv mt ms u
    || boundary_fold k asv (fst (flags_after k mt ms u)) (snd (flags_after k mt ms u)) r.
Proof.
  destruct u; cbn [boundary_fold head_boundary flags_after orb fst snd]; try reflexivity.
  - destruct (mkey_eqb (membership_key slot m) k); cbn [andb orb fst snd]; [|reflexivity].
    destruct (negb (m_tombstone m) && (asv <? m_source_version m) && mt); reflexivity.
  - destruct (mkey_eqb (membership_key slot m) k); cbn [andb orb fst snd]; [|reflexivity].
    destruct ((asv <? m_source_version m) && ms); reflexivity.
Qed.

Lemma flags_after_mono k mt ms u :
  (mt = true -> fst (flags_after k mt ms u) = true) /\ (ms = true -> snd (flags_after k mt ms u) = true).
Proof.
  destruct u; cbn [flags_after fst snd]; try (split; auto);
    destruct (mkey_eqb (membership_key slot m) k); cbn [fst snd]; auto;
    intros ->; reflexivity.
Qed.

(* one applied mutation: unless it is a boundary for k, the row of k stays, advances,
   and the flags keep over-approximating it *)
Lemma mut_apply_row_step k a asv st u r mt ms :
  asv = m_source_version a ->
  get_row st k = Some r -> m_advances a r ->
  (m_tombstone r = true -> mt = true) -> (m_source_version r <> 0 -> ms = true) ->
  head_boundary k asv mt ms u = false ->
  exists r', get_row (snd (mut_apply st u)) k = Some r' /\ m_advances a r'
             /\ (m_tombstone r' = true -> fst (flags_after k mt ms u) = true)
             /\ (m_source_version r' <> 0 -> snd (flags_after k mt ms u) = true).
Proof.
  intros Hasv Hg Hadv Hmt Hms Hhb.
  assert (Same : forall st1, get_row st1 k = get_row st k ->
            exists r', get_row st1 k = Some r' /\ m_advances a r'
                       /\ (m_tombstone r' = true -> fst (flags_after k mt ms u) = true)
                       /\ (m_source_version r' <> 0 -> snd (flags_after k mt ms u) = true)).
  { intros st1 E. exists r. rewrite E. split; [exact Hg|]. split; [exact Hadv|].
    destruct (flags_after_mono k mt ms u) as [M1 M2]. split; auto. }
  assert (Closure : forall k0 f, closure_ok f -> (flags_after k mt ms u = (mt, ms)) ->
            exists r', get_row (snd (mutateUserChannelMembership st k0 f)) k = Some r' /\ m_advances a r'
                       /\ (m_tombstone r' = true -> fst (flags_after k mt ms u) = true)
                       /\ (m_source_version r' <> 0 -> snd (flags_after k mt ms u) = true)).
  { intros k0 f Hf Hfl. rewrite mutate_row. destruct (mkey_eqb k0 k) eqn:E.
    - rewrite Hg. destruct (m_tombstone r) eqn:Ht.
      + exists r. rewrite Hfl. cbn [fst snd]. split; [first [reflexivity|exact Hg]|]. split; [exact Hadv|]. split; [intros _; apply Hmt; reflexivity|exact Hms].
      + destruct (Hf r) as (A & _ & T & S). cbv zeta in *. exists (f r). rewrite Hfl. cbn [fst snd].
        split; [reflexivity|]. split; [eapply m_advances_trans; eassumption|].
        split; [rewrite T, Ht; discriminate|rewrite S; exact Hms].
    - exists r. rewrite Hfl. cbn [fst snd]. split; [first [reflexivity|exact Hg]|]. split; [exact Hadv|]. split; assumption. }
  destruct u; cbn [mut_apply].
  - (* MUpsert *)
    rewrite upsertWith_row. cbn [head_boundary flags_after] in *.
    destruct (mkey_eqb (membership_key slot m) k) eqn:E; cbn [fst snd andb] in *.
    2:{ exists r. split; [exact Hg|]. split; [exact Hadv|]. split; assumption. }
    rewrite Hg. pose proof (resolve_upsert_spec r m) as Spec. cbv zeta in Spec.
    destruct Spec as [(T1 & T2 & Hlt & _) | (A & _ & T & S & _)].
    + exfalso. rewrite (Hmt T1), T2 in Hhb. cbn [negb andb] in Hhb.
      assert (asv <? m_source_version m = true) as L.
      { apply N.ltb_lt. subst asv. destruct Hadv as [_ _ Hsv]. lia. }
      rewrite L in Hhb. discriminate.
    + eexists. split; [reflexivity|]. split; [eapply m_advances_trans; eassumption|]. split.
      * intro C. destruct (T C) as [C1|C1]; [rewrite (Hmt C1); reflexivity|rewrite C1; apply orb_true_r].
      * intro C. destruct (S C) as [C1|C1]; [rewrite (Hms C1); reflexivity|].
        apply N.eqb_neq in C1. rewrite C1. apply orb_true_r.
  - (* MEnsure *)
    rewrite upsertWith_row. cbn [head_boundary flags_after] in *.
    destruct (mkey_eqb (membership_key slot m) k) eqn:E; cbn [fst snd andb] in *.
    2:{ exists r. split; [exact Hg|]. split; [exact Hadv|]. split; assumption. }
    rewrite Hg. pose proof (resolve_ensure_spec r m) as Spec. cbv zeta in Spec.
    destruct Spec as [(Hlt & Hnz) | (A & _ & T & S & _)].
    + exfalso. rewrite (Hms Hnz) in Hhb.
      assert (asv <? m_source_version m = true) as L.
      { apply N.ltb_lt. subst asv. destruct Hadv as [_ _ Hsv]. lia. }
      rewrite L in Hhb. discriminate.
    + eexists. split; [reflexivity|]. split; [eapply m_advances_trans; eassumption|]. split.
      * intro C. rewrite T in C. exact (Hmt C).
      * intro C. destruct (S C) as [C1|C1]; [rewrite (Hms C1); reflexivity|].
        apply N.eqb_neq in C1. rewrite C1. apply orb_true_r.
  - apply Closure; [apply advanceReadSeq_ok|reflexivity].
  - apply Closure; [apply activate_ok|reflexivity].
  - apply Closure; [apply activate_ok|reflexivity].
  - apply Closure; [apply hide_ok|reflexivity].
  - (* MDelete *)
    cbn [snd head_boundary flags_after fst] in *. rewrite get_row_delete, Hhb. exists r. split; [exact Hg|]. split; [exact Hadv|]. split; assumption.
  - apply Same. apply cmd_upsert_rows_unchanged.
  - apply Same. apply mutate_cmd_rows_unchanged.
  - apply Same. apply mutate_cmd_rows_unchanged.
  - apply Same. apply mutate_cmd_rows_unchanged.
  - apply Same. apply mutate_cmd_rows_unchanged.
Qed.

Lemma boundary_fold_sound k a : forall us st st' r mt ms,
  reach st us st' ->
  get_row st k = Some r -> m_advances a r ->
  (m_tombstone r = true -> mt = true) -> (m_source_version r <> 0 -> ms = true) ->
  boundary_fold k (m_source_version a) mt ms us = false ->
  exists b, get_row st' k = Some b /\ m_advances a b.
Proof.
  induction us as [|u rest IH]; intros st st' r mt ms Hreach Hg Hadv Hmt Hms Hfold.
  - inversion Hreach; subst. exists r. split; assumption.
  - rewrite boundary_fold_cons in Hfold. apply orb_false_iff in Hfold. destruct Hfold as [Hhb Hrest].
    inversion Hreach; subst.
    + destruct (flags_after_mono k mt ms u) as [M1 M2].
      eapply (IH st st' r (fst (flags_after k mt ms u)) (snd (flags_after k mt ms u)));
        [eassumption|exact Hg|exact Hadv|intro C; apply M1, Hmt, C|intro C; apply M2, Hms, C|exact Hrest].
    + destruct (mut_apply_row_step k a (m_source_version a) st u r mt ms eq_refl Hg Hadv Hmt Hms Hhb)
        as (r' & Hg' & Hadv' & Hmt' & Hms').
      eapply (IH _ st' r' (fst (flags_after k mt ms u)) (snd (flags_after k mt ms u)));
        [eassumption|exact Hg'|exact Hadv'|exact Hmt'|exact Hms'|exact Hrest].
Qed.

Lemma membership_boundary_sound k a us st st' :
  reach st us st' -> get_row st k = Some a -> membership_boundary k a us = false ->
  exists b, get_row st' k = Some b /\ m_advances a b.
Proof.
  intros Hreach Hg Hb. unfold membership_boundary in Hb.
  apply (boundary_fold_sound k a us st st' a (m_tombstone a) (negb (m_source_version a =? 0)) Hreach Hg).
  - apply m_advances_refl.
  - intro C. exact C.
  - intro C. apply N.eqb_neq in C. rewrite C. reflexivity.
  - exact Hb.
Qed.

(* ---- CMD rows ---------------------------------------------------------------------------------- *)

Definition cmd_head_boundary (k : mkey) (mt : bool) (u : mut) : bool :=
  match u with
  | MCmdUpsert slot c => mkey_eqb (cmd_membership_key slot c) k && negb (c_tombstone c) && mt
  | _ => false
  end.

Definition cmd_flag_after (k : mkey) (mt : bool) (u : mut) : bool :=
  match u with
  | MCmdTombstoneShard k' _ => mt || mkey_eqb k' k
  | MCmdTombstoneBatch slot c => mt || mkey_eqb (cmd_membership_key slot c) k
  | _ => mt
  end.

Lemma cmd_boundary_fold_cons k mt u r :
  cmd_boundary_fold k mt (u :: r)
  = cmd_head_boundary k mt u || cmd_boundary_fold k (cmd_flag_after k mt u) r.
Proof.
  destruct u; cbn [cmd_boundary_fold cmd_head_boundary cmd_flag_after orb]; reflexivity.
Qed.

Lemma cmd_flag_after_mono k mt u : mt = true -> cmd_flag_after k mt u = true.
Proof. intros ->. destruct u; reflexivity. Qed.

Lemma cmd_mutate_step k a st k0 f r mt mt' :
  cmd_closure_ok f ->
  get_cmd st k = Some r -> c_ack_seq a <= c_ack_seq r -> (c_tombstone r = true -> mt = true) ->
  (mt = true -> mt' = true) ->
  (forall row, c_tombstone (f row) = true -> c_tombstone row = true \/ (mkey_eqb k0 k = true -> mt' = true)) ->
  exists r', get_cmd (snd (mutateUserCMDChannelMembership st k0 f)) k = Some r'
             /\ c_ack_seq a <= c_ack_seq r' /\ (c_tombstone r' = true -> mt' = true).
Proof.
  intros Hf Hg Hack Hmt Hmono Htomb. rewrite mutate_cmd_row.
  destruct (mkey_eqb k0 k) eqn:E.
  - rewrite Hg. destruct (c_tombstone r) eqn:Ht.
    + exists r. repeat split; auto.
    + exists (f r). split; [reflexivity|]. split; [pose proof (Hf r); lia|].
      intro C. destruct (Htomb r C) as [C1|C1]; [congruence|apply C1; reflexivity].
  - exists r. repeat split; auto.
Qed.

Lemma cmd_apply_row_step k a st u r mt :
  get_cmd st k = Some r -> c_ack_seq a <= c_ack_seq r -> (c_tombstone r = true -> mt = true) ->
  cmd_head_boundary k mt u = false ->
  exists r', get_cmd (snd (mut_apply st u)) k = Some r' /\ c_ack_seq a <= c_ack_seq r'
             /\ (c_tombstone r' = true -> cmd_flag_after k mt u = true).
Proof.
  intros Hg Hack Hmt Hhb.
  assert (Same : forall st1, get_cmd st1 k = get_cmd st k ->
            exists r', get_cmd st1 k = Some r' /\ c_ack_seq a <= c_ack_seq r'
                       /\ (c_tombstone r' = true -> cmd_flag_after k mt u = true)).
  { intros st1 E. exists r. rewrite E. repeat split; auto.
    intro C. apply cmd_flag_after_mono. auto. }
  destruct u; cbn [mut_apply].
  - apply Same. apply upsertWith_cmd.
  - apply Same. apply upsertWith_cmd.
  - apply Same. apply mutate_cmd_unchanged.
  - apply Same. apply mutate_cmd_unchanged.
  - apply Same. apply mutate_cmd_unchanged.
  - apply Same. apply mutate_cmd_unchanged.
  - apply Same. cbn [snd]. apply get_cmd_delete.
  - (* MCmdUpsert *)
    pose proof (cmd_upsert_row st slot c k) as Hrow. cbn [mut_apply] in Hrow. rewrite Hrow.
    cbn [cmd_head_boundary cmd_flag_after] in *.
    destruct (mkey_eqb (cmd_membership_key slot c) k) eqn:E; cbn [andb] in *.
    2:{ exists r. split; [exact Hg|]. split; [exact Hack|exact Hmt]. }
    rewrite Hg. pose proof (resolve_cmd_spec r c) as Spec. cbv zeta in Spec.
    destruct Spec as [(T1 & T2) | (A & T)].
    + exfalso. rewrite (Hmt T1), T2 in Hhb. discriminate.
    + eexists. split; [reflexivity|]. split; [lia|]. intro C. rewrite T in C. exact (Hmt C).
  - cbn [cmd_flag_after].
    apply (cmd_mutate_step k a st k0 _ r mt mt (cmdAdvanceAckShard_ok ackSeq updatedAt) Hg Hack Hmt (fun C => C)).
    intros row C. left. exact C.
  - cbn [cmd_flag_after].
    apply (cmd_mutate_step k a st (cmd_membership_key slot c) _ r mt mt
             (cmdAdvanceAckBatch_ok (c_ack_seq c) (c_updated_at c)) Hg Hack Hmt (fun C => C)).
    intros row C. left. unfold cmdAdvanceAckBatch in C.
    destruct (c_ack_seq row <? c_ack_seq c); [m_cbn; exact C|exact C].
  - apply (cmd_mutate_step k a st k0 _ r mt (cmd_flag_after k mt (MCmdTombstoneShard k0 tombstoneAt))
             (cmdTombstone_ok tombstoneAt tombstoneAt) Hg Hack Hmt (cmd_flag_after_mono k mt _)).
    intros row _. right. intro E. cbn [cmd_flag_after]. rewrite E. apply orb_true_r.
  - apply (cmd_mutate_step k a st (cmd_membership_key slot c) _ r mt
             (cmd_flag_after k mt (MCmdTombstoneBatch slot c))
             (cmdTombstone_ok (c_tombstone_at c) (c_updated_at c)) Hg Hack Hmt (cmd_flag_after_mono k mt _)).
    intros row _. right. intro E. cbn [cmd_flag_after]. rewrite E. apply orb_true_r.
Qed.

Lemma cmd_boundary_fold_sound k a : forall us st st' r mt,
  reach st us st' ->
  get_cmd st k = Some r -> c_ack_seq a <= c_ack_seq r -> (c_tombstone r = true -> mt = true) ->
  cmd_boundary_fold k mt us = false ->
  exists b, get_cmd st' k = Some b /\ c_ack_seq a <= c_ack_seq b.
Proof.
  induction us as [|u rest IH]; intros st st' r mt Hreach Hg Hack Hmt Hfold.
  - inversion Hreach; subst. exists r. split; assumption.
  - rewrite cmd_boundary_fold_cons in Hfold. apply orb_false_iff in Hfold. destruct Hfold as [Hhb Hrest].
    inversion Hreach; subst.
    + eapply (IH st st' r (cmd_flag_after k mt u));
        [eassumption|exact Hg|exact Hack|intro C; apply cmd_flag_after_mono, Hmt, C|exact Hrest].
    + destruct (cmd_apply_row_step k a st u r mt Hg Hack Hmt Hhb) as (r' & Hg' & Hack' & Hmt').
      eapply (IH _ st' r' (cmd_flag_after k mt u));
        [eassumption|exact Hg'|exact Hack'|exact Hmt'|exact Hrest].
Qed.

Lemma cmd_boundary_sound k a us st st' :
  reach st us st' -> get_cmd st k = Some a -> cmd_boundary k a us = false ->
  exists b, get_cmd st' k = Some b /\ c_ack_seq a <= c_ack_seq b.
Proof.
  intros Hreach Hg Hb. unfold cmd_boundary in Hb.
  apply (cmd_boundary_fold_sound k a us st st' a (c_tombstone a) Hreach Hg); [lia|intro C; exact C|exact Hb].
Qed.
