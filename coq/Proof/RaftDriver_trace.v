(* Proof/RaftDriver_trace.v — C12: what the event list of the driver model looks
   like in every reachable state: the apply order (the monitor's check_order) and
   persist-before-send / persist-before-apply (check_persist). *)
From WK Require Import Base.Base Model.RaftDriver Proof.RaftDriver_lists Proof.RaftDriver_exec
  Proof.RaftDriver_inv Proof.RaftDriver_steps.
From Coq Require Import Sorted ZifyBool ZifyN ZifyNat.
Open Scope N_scope.

(* ---- the two monitor walks as state-returning folds ------------------------------------------- *)

Fixpoint order_run (G : list entry) (cur : N) (evs : list event) : option N :=
  match evs with
  | [] => Some cur
  | EvRestore i :: r => order_run G i r
  | EvApply _ ents :: r =>
      if negb (match ents with [] => true | _ => false end) && increasing_from cur ents && no_gap G cur ents
      then order_run G (lastApplied ents cur) r else None
  | _ :: r => order_run G cur r
  end.

Lemma check_order_run G evs : forall cur,
  check_order G cur evs = match order_run G cur evs with Some _ => true | None => false end.
Proof.
  induction evs as [|ev r IH]; intro cur; [reflexivity|].
  destruct ev; cbn [check_order order_run]; try apply IH.
  destruct (negb (match ents with [] => true | _ => false end) && increasing_from cur ents && no_gap G cur ents);
    [apply IH | reflexivity].
Qed.

Lemma order_run_app G a : forall cur b,
  order_run G cur (a ++ b) = match order_run G cur a with Some c => order_run G c b | None => None end.
Proof.
  induction a as [|ev a IH]; intros cur b; [reflexivity|].
  destruct ev; cbn [app order_run]; try apply IH.
  destruct (negb (match ents with [] => true | _ => false end) && increasing_from cur ents && no_gap G cur ents);
    [apply IH | reflexivity].
Qed.

Fixpoint persist_run (d : dur) (evs : list event) : option dur :=
  match evs with
  | [] => Some d
  | EvSave hs ents snap :: r => persist_run (dur_save d hs ents snap) r
  | EvBoot _ t v c _ sn _ :: r => persist_run (mkDur (u_log d) (mkHS t v c) sn) r
  | EvSend ms :: r => if forallb (msg_ok d) ms then persist_run d r else None
  | EvApply _ ents :: r => if forallb (applied_ok d) ents then persist_run d r else None
  | _ :: r => persist_run d r
  end.

Lemma check_persist_run evs : forall d,
  check_persist d evs = match persist_run d evs with Some _ => true | None => false end.
Proof.
  induction evs as [|ev r IH]; intro d; [reflexivity|].
  destruct ev; cbn [check_persist persist_run]; try apply IH.
  - destruct (forallb (msg_ok d) ms); [apply IH | reflexivity].
  - destruct (forallb (applied_ok d) ents); [apply IH | reflexivity].
Qed.

Lemma persist_run_app a : forall d b,
  persist_run d (a ++ b) = match persist_run d a with Some c => persist_run c b | None => None end.
Proof.
  induction a as [|ev a IH]; intros d b; [reflexivity|].
  destruct ev; cbn [app persist_run]; try apply IH.
  - destruct (forallb (msg_ok d) ms); [apply IH | reflexivity].
  - destruct (forallb (applied_ok d) ents); [apply IH | reflexivity].
Qed.

Section Trace.

Variable clog : N -> entry.
Hypothesis clog_idx : forall i, e_idx (clog i) = i.
Variable GS : entry -> Prop.
Variable TrackHyp : node -> list entry -> Prop.
Hypothesis TrackHyp_submitted :
  forall s s' ents, v_submitted s' = v_submitted s -> TrackHyp s ents -> TrackHyp s' ents.

Notation INV := (INV clog GS).
Notation mop_valid := (mop_valid clog GS TrackHyp).

(* a set of applied entries that only contains commands of the committed log *)
Definition Gsound (G : list entry) : Prop :=
  forall g, In g G -> g = clog (e_idx g) /\ is_normal g = true /\ 0 < e_idx g.

Definition ORD (s : node) : Prop :=
  forall G, Gsound G -> order_run G 0 (n_tr s) = Some (sm_idx s).

Definition PERS (s : node) : Prop := persist_run dur0 (n_tr s) = Some (dur_of s).

(* ---- helpers ---------------------------------------------------------------------------------------- *)

Lemma increasing_from_sorted c : forall cur,
  sorted c -> (forall e, In e c -> cur < e_idx e) -> increasing_from cur c = true.
Proof.
  induction c as [|x c IH]; intros cur Hs Hgt; [reflexivity|].
  cbn [increasing_from]. apply andb_true_iff. split.
  - apply N.ltb_lt. apply Hgt. left. reflexivity.
  - unfold sorted in Hs. inversion Hs as [|? ? Hs' Hf]; subst. apply IH; [exact Hs'|].
    intros e He. rewrite Forall_forall in Hf. apply Hf, He.
Qed.

Lemma has_idx_In c e : In e c -> has_idx c (e_idx e) = true.
Proof.
  intro H. unfold has_idx. apply existsb_exists. exists e. split; [exact H | apply N.eqb_refl].
Qed.

Lemma order_step_call G s c :
  INV s -> Gsound G -> call_ok clog (g_pos s) c ->
  order_run G (sm_idx s) [EvApply (1 <? N.of_nat (length c)) c] = Some (lastApplied c (sm_idx s)).
Proof.
  intros I HG Hc. pose proof (call_ok_last_gt clog clog_idx _ _ Hc) as Hgt.
  destruct Hc as (Hne & Hs & Hsd & Hcomp). destruct I.
  cbn [order_run].
  assert (E1 : negb (match c with [] => true | _ => false end) = true) by (destruct c; [congruence | reflexivity]).
  assert (E2 : increasing_from (sm_idx s) c = true).
  { apply increasing_from_sorted; [exact Hs|]. intros e He. destruct (Hsd e He) as (_ & _ & H). lia. }
  assert (E3 : no_gap G (sm_idx s) c = true).
  { unfold no_gap. apply forallb_forall. intros g Hg.
    destruct ((sm_idx s <? e_idx g) && (e_idx g <=? lastApplied c (sm_idx s))) eqn:E; [|reflexivity].
    apply andb_true_iff in E. destruct E as [Ea Eb]. apply N.ltb_lt in Ea. apply N.leb_le in Eb.
    rewrite (lastApplied_default c (sm_idx s) (g_pos s) Hne) in Eb.
    destruct (HG g Hg) as (Hg1 & Hg2 & _). rewrite Hg1 in Hg2.
    destruct (N.le_gt_cases (e_idx g) (g_pos s)) as [Hle|Hgt'].
    - (* it would already be in the state machine, at or below its index *)
      assert (In (clog (e_idx g)) (sm_hist s)) by (apply i_complete; [lia | exact Hg2]).
      destruct (i_sound _ H) as (_ & _ & B). rewrite clog_idx in B. lia.
    - assert (In (clog (e_idx g)) c) by (apply Hcomp; [lia | exact Hg2]).
      rewrite <- (clog_idx (e_idx g)) at 1. apply has_idx_In. exact H. }
  rewrite E1, E2, E3. reflexivity.
Qed.

Lemma ORD_append_other s s' ev :
  n_tr s' = n_tr s ++ [ev] -> sm_idx s' = sm_idx s ->
  (match ev with EvRestore _ | EvApply _ _ => False | _ => True end) ->
  ORD s -> ORD s'.
Proof.
  intros Et Es Hev H G HG. rewrite Et, order_run_app, (H G HG), Es.
  destruct ev; try contradiction; reflexivity.
Qed.

Lemma ORD_same s s' : n_tr s' = n_tr s -> sm_idx s' = sm_idx s -> ORD s -> ORD s'.
Proof. intros Et Es H G HG. rewrite Et, Es. apply H, HG. Qed.

Lemma same_core_tr s s' : same_core s s' -> n_tr s' = n_tr s /\ sm_idx s' = sm_idx s /\ dur_of s' = dur_of s.
Proof.
  unfold same_core, dur_of.
  intros (Edur & Elog & Ehs & Esnap & Esnapc & Eapp & Esmi & Esmh & Eup & Efail & Eapplying & Evapp & Eq & Epos & Etr).
  rewrite Elog, Ehs, Esnap. repeat split; assumption.
Qed.

(* ---- ORD ----------------------------------------------------------------------------------------------- *)

Lemma ORD_exec o s : INV s -> ORD s -> live s -> mop_valid o s -> ORD (exec o s).
Proof.
  intros I H L V. destruct o as [hs ents snap|ents|ms|i c|c|idx|ents|t| |upto|l|i|i].
  - destruct (exec_save_live hs ents snap s L) as [(_ & _ & _ & E)|E]; rewrite E; [exact H|].
    unfold save_body. destruct snap as [[[i t] c]|]; cbn zeta;
      (eapply ORD_append_other; [nsimpl; reflexivity | nsimpl; reflexivity | exact Logic.I | exact H]).
  - pose proof (exec_track_facts ents s L) as C. cbn zeta in C. destruct (same_core_tr _ _ C) as (A & B & _).
    eapply ORD_same; eassumption.
  - rewrite (exec_live _ _ L). destruct ms as [|m ms]; [exact H|].
    eapply ORD_append_other; [nsimpl; reflexivity | nsimpl; reflexivity | exact Logic.I | exact H].
  - rewrite (exec_live _ _ L). intros G HG. nsimpl. rewrite order_run_app, (H G HG). reflexivity.
  - rewrite (exec_live _ _ L). intros G HG. nsimpl. rewrite order_run_app, (H G HG).
    cbn [RaftDriver_inv.mop_valid] in V. destruct V as [Vc _]. apply order_step_call; assumption.
  - rewrite (exec_live _ _ L). destruct (idx <=? v_applied s); [exact H|].
    destruct (markApplied (durable_sm s) (sm_idx s) idx).
    + eapply ORD_append_other; [nsimpl; reflexivity | nsimpl; reflexivity | exact Logic.I | exact H].
    + eapply ORD_same; [nsimpl; reflexivity | nsimpl; reflexivity | exact H].
    + eapply ORD_same; [nsimpl; reflexivity | nsimpl; reflexivity | exact H].
  - destruct (exec_resolve_facts ents s L) as (C & _). cbn zeta in C. destruct (same_core_tr _ _ C) as (A & B & _).
    eapply ORD_same; eassumption.
  - rewrite (exec_live _ _ L). eapply ORD_same; [nsimpl; reflexivity | nsimpl; reflexivity | exact H].
  - rewrite (exec_live _ _ L). eapply ORD_same; [nsimpl; reflexivity | nsimpl; reflexivity | exact H].
  - rewrite (exec_live _ _ L). eapply ORD_same; [nsimpl; reflexivity | nsimpl; reflexivity | exact H].
  - pose proof (exec_refresh_facts l s L) as C. cbn zeta in C. destruct (same_core_tr _ _ C) as (A & B & _).
    eapply ORD_same; eassumption.
  - rewrite (exec_live _ _ L). destruct (durable_sm s); [|exact H].
    eapply ORD_append_other; [nsimpl; reflexivity | nsimpl; reflexivity | exact Logic.I | exact H].
  - rewrite (exec_live _ _ L).
    eapply ORD_append_other; [nsimpl; reflexivity | nsimpl; reflexivity | exact Logic.I | exact H].
Qed.

Lemma ORD_crash hard s : INV s -> ORD s -> ORD (crash hard s).
Proof.
  intros I H. unfold crash. destruct (v_up s); cbn [negb]; [|exact H].
  pose proof (failLeadershipDependent_core s) as C. destruct (same_core_tr _ _ C) as (A & B & _).
  eapply ORD_append_other; [nsimpl; reflexivity | nsimpl; reflexivity | exact Logic.I|].
  eapply ORD_same; eassumption.
Qed.

Lemma ORD_newSlot first s : INV s -> ORD s -> v_up s = false -> ORD (newSlot first s).
Proof.
  intros I H U. unfold newSlot. rewrite U.
  set (ev0 := EvBoot first (hs_term (d_hs s)) (hs_vote (d_hs s)) (hs_commit (d_hs s)) (d_applied s) (d_snap s) (sm_idx s)).
  set (start := newSlot_applied (durable_sm s) (d_snap s) (d_applied s) (sm_idx s)).
  set (s1 := set_pos start (set_volatile true false start start [] (emit ev0 s))).
  assert (H1 : ORD s1).
  { eapply ORD_append_other; [unfold s1; nsimpl; reflexivity | unfold s1; nsimpl; reflexivity | exact Logic.I | exact H]. }
  destruct (negb (d_snap s =? 0)).
  - assert (L1 : live s1) by (split; reflexivity).
    rewrite (exec_live _ _ L1).
    set (s2 := emit (EvRestore (d_snap s)) (set_sm (d_snap s) (d_snapc s) (d_snap s) s1)).
    assert (H2 : ORD s2).
    { intros G HG. unfold s2. nsimpl. rewrite order_run_app.
      replace (n_tr s ++ [ev0]) with (n_tr s1) by (unfold s1; nsimpl; reflexivity).
      rewrite (H1 G HG). reflexivity. }
    apply (ORD_append_other s2 _ (EvBooted start)); [reflexivity | reflexivity | exact Logic.I | exact H2].
  - apply (ORD_append_other s1 _ (EvBooted start)); [reflexivity | reflexivity | exact Logic.I | exact H1].
Qed.

Lemma ORD_propose cmd acc s : INV s -> ORD s -> ORD (step_node (SPropose cmd acc) s).
Proof.
  intros I H. cbn [step_node]. destruct (v_up s && negb (v_failed s)); [|exact H].
  destruct acc; (eapply ORD_same; [nsimpl; reflexivity | nsimpl; reflexivity | exact H]).
Qed.

(* ---- PERS ----------------------------------------------------------------------------------------------- *)

Lemma PERS_append s s' ev d' :
  n_tr s' = n_tr s ++ [ev] -> persist_run (dur_of s) [ev] = Some d' -> dur_of s' = d' -> PERS s -> PERS s'.
Proof.
  intros Et Hev Ed H. unfold PERS in *. rewrite Et, persist_run_app, H, Hev, Ed. reflexivity.
Qed.

Lemma PERS_same s s' : n_tr s' = n_tr s -> dur_of s' = dur_of s -> PERS s -> PERS s'.
Proof. unfold PERS. intros -> ->. auto. Qed.

Lemma PERS_exec o s : INV s -> PERS s -> live s -> mop_valid o s -> PERS (exec o s).
Proof.
  intros I H L V. destruct o as [hs ents snap|ents|ms|i c|c|idx|ents|t| |upto|l|i|i].
  - destruct (exec_save_live hs ents snap s L) as [(_ & _ & _ & E)|E]; rewrite E; [exact H|].
    unfold save_body. destruct snap as [[[i t] c]|]; cbn zeta;
      (eapply PERS_append; [nsimpl; reflexivity | cbn [persist_run]; reflexivity | unfold dur_of, dur_save; nsimpl; reflexivity | exact H]).
  - pose proof (exec_track_facts ents s L) as C. cbn zeta in C. destruct (same_core_tr _ _ C) as (A & _ & B).
    eapply PERS_same; eassumption.
  - rewrite (exec_live _ _ L). destruct ms as [|m ms]; [exact H|].
    cbn [RaftDriver_inv.mop_valid] in V.
    eapply PERS_append; [nsimpl; reflexivity | cbn [persist_run]; rewrite V; reflexivity | unfold dur_of; nsimpl; reflexivity | exact H].
  - rewrite (exec_live _ _ L).
    eapply PERS_append; [nsimpl; reflexivity | cbn [persist_run]; reflexivity | unfold dur_of; nsimpl; reflexivity | exact H].
  - rewrite (exec_live _ _ L). cbn [RaftDriver_inv.mop_valid] in V. destruct V as [_ Vp].
    eapply PERS_append; [nsimpl; reflexivity | cbn [persist_run]; rewrite Vp; reflexivity | unfold dur_of; nsimpl; reflexivity | exact H].
  - rewrite (exec_live _ _ L). destruct (idx <=? v_applied s); [exact H|].
    destruct (markApplied (durable_sm s) (sm_idx s) idx).
    + eapply PERS_append; [nsimpl; reflexivity | cbn [persist_run]; reflexivity | unfold dur_of; nsimpl; reflexivity | exact H].
    + eapply PERS_same; [nsimpl; reflexivity | unfold dur_of; nsimpl; reflexivity | exact H].
    + eapply PERS_same; [nsimpl; reflexivity | unfold dur_of; nsimpl; reflexivity | exact H].
  - destruct (exec_resolve_facts ents s L) as (C & _). cbn zeta in C. destruct (same_core_tr _ _ C) as (A & _ & B).
    eapply PERS_same; eassumption.
  - rewrite (exec_live _ _ L). eapply PERS_same; [nsimpl; reflexivity | unfold dur_of; nsimpl; reflexivity | exact H].
  - rewrite (exec_live _ _ L). eapply PERS_same; [nsimpl; reflexivity | unfold dur_of; nsimpl; reflexivity | exact H].
  - rewrite (exec_live _ _ L). eapply PERS_same; [nsimpl; reflexivity | unfold dur_of; nsimpl; reflexivity | exact H].
  - pose proof (exec_refresh_facts l s L) as C. cbn zeta in C. destruct (same_core_tr _ _ C) as (A & _ & B).
    eapply PERS_same; eassumption.
  - rewrite (exec_live _ _ L). destruct (durable_sm s); [|exact H].
    eapply PERS_append; [nsimpl; reflexivity | cbn [persist_run]; reflexivity | unfold dur_of; nsimpl; reflexivity | exact H].
  - rewrite (exec_live _ _ L).
    eapply PERS_append; [nsimpl; reflexivity | cbn [persist_run]; reflexivity | unfold dur_of, dur_save; nsimpl; reflexivity | exact H].
Qed.

Lemma PERS_crash hard s : INV s -> PERS s -> PERS (crash hard s).
Proof.
  intros I H. unfold crash. destruct (v_up s); cbn [negb]; [|exact H].
  pose proof (failLeadershipDependent_core s) as C. destruct (same_core_tr _ _ C) as (A & _ & B).
  assert (H1 : PERS (failLeadershipDependent s)) by (eapply PERS_same; eassumption).
  eapply PERS_append; [nsimpl; reflexivity | cbn [persist_run]; reflexivity | unfold dur_of in *; nsimpl; reflexivity | exact H1].
Qed.

Lemma PERS_newSlot first s : INV s -> PERS s -> v_up s = false -> PERS (newSlot first s).
Proof.
  intros I H U. unfold newSlot. rewrite U.
  set (ev0 := EvBoot first (hs_term (d_hs s)) (hs_vote (d_hs s)) (hs_commit (d_hs s)) (d_applied s) (d_snap s) (sm_idx s)).
  set (start := newSlot_applied (durable_sm s) (d_snap s) (d_applied s) (sm_idx s)).
  set (s1 := set_pos start (set_volatile true false start start [] (emit ev0 s))).
  assert (H1 : PERS s1).
  { eapply PERS_append; [unfold s1; nsimpl; reflexivity | unfold ev0; cbn [persist_run]; reflexivity | | exact H].
    unfold s1, dur_of. nsimpl. cbn [u_log]. destruct (d_hs s). reflexivity. }
  destruct (negb (d_snap s =? 0)).
  - assert (L1 : live s1) by (split; reflexivity).
    rewrite (exec_live _ _ L1).
    set (s2 := emit (EvRestore (d_snap s)) (set_sm (d_snap s) (d_snapc s) (d_snap s) s1)).
    assert (H2 : PERS s2).
    { apply (PERS_append s1 s2 (EvRestore (d_snap s)) (dur_of s1)); [reflexivity | reflexivity | reflexivity | exact H1]. }
    apply (PERS_append s2 _ (EvBooted start) (dur_of s2)); [reflexivity | reflexivity | reflexivity | exact H2].
  - apply (PERS_append s1 _ (EvBooted start) (dur_of s1)); [reflexivity | reflexivity | reflexivity | exact H1].
Qed.

Lemma PERS_propose cmd acc s : INV s -> PERS s -> PERS (step_node (SPropose cmd acc) s).
Proof.
  intros I H. cbn [step_node]. destruct (v_up s && negb (v_failed s)); [|exact H].
  destruct acc; (eapply PERS_same; [nsimpl; reflexivity | unfold dur_of; nsimpl; reflexivity | exact H]).
Qed.

(* ---- every reachable state ------------------------------------------------------------------------------ *)

Theorem run_ORD sched :
  sched_ok clog GS TrackHyp sched start_node -> ORD (run true sched).
Proof.
  intro Hok. apply (run_P clog clog_idx GS TrackHyp TrackHyp_submitted ORD); try assumption.
  - apply ORD_exec.
  - apply ORD_crash.
  - apply ORD_newSlot.
  - apply ORD_propose.
  - intros G HG. reflexivity.
Qed.

Theorem run_PERS sched :
  sched_ok clog GS TrackHyp sched start_node -> PERS (run true sched).
Proof.
  intro Hok. apply (run_P clog clog_idx GS TrackHyp TrackHyp_submitted PERS); try assumption.
  - apply PERS_exec.
  - apply PERS_crash.
  - apply PERS_newSlot.
  - apply PERS_propose.
  - reflexivity.
Qed.

End Trace.
