(* Proof/GatewaySend_order.v — ordering invariant of the sendExecutor transition
   system.  Per session s (one shard per session, one drain per shard):
     accepted(s) = handled(s) ++ [ClientSeqs of s still in the shard pipeline]
   where the pipeline of a shard is the drain worker's batch followed by the
   mailbox queue; SENDACKs of s are a subsequence of handled(s); and, with
   CloseOnHandlerError and a non-panicking handler, handled(s) = acked(s) ++ r
   with r non-empty only if the session is closed. *)
From Coq Require Import Sorting.Sorted.
From WK Require Import Base.Base Model.GatewaySend Proof.GatewaySend_lib Proof.GatewaySend_split
  Proof.GatewaySend_acct.
Open Scope N_scope.

Definition spc_q (p : spc) : option N :=
  match p with
  | SIdle => None
  | SGate q _ _ | SReserve q _ _ | SReserveShard q _ _ | SEnqueue q _ _
  | SUndoShard q _ _ | SUndoQueue q _ _ | SUndoAdm q _ _ | SReject q _ _ => Some q
  end.

Definition fresh_bound (st : state) (s : nat) : N :=
  match spc_q (spcs st s) with Some q => q | None => nextq st s end.

Record Order (c : cfg) (st : state) : Prop := {
  o_shard : forall k x, In x (pipe st k) -> shard_of c (t_s x) = k;
  o_acc : forall s, accq (sends st) s = finq (disps st) s ++ qs_of s (pipe st (shard_of c s));
  o_cursub : forall k n cur curall rest, wpcs st k = WDisp n cur curall rest -> incl cur curall;
  o_sub : forall s, subseqb (ackq (wire st) s) (finq (disps st) s) = true;
  o_inflight : forall s q, spc_q (spcs st s) = Some q -> nextq st s = q + 1;
  o_fresh : forall s q, In q (accq (sends st) s) -> q < fresh_bound st s;
  o_sorted : forall s, StronglySorted N.lt (accq (sends st) s) }.

Lemma order_init c : Order c init.
Proof.
  constructor; cbn; intros; try contradiction; try discriminate; try reflexivity.
  constructor.
Qed.

Lemma order_tick c st : Order c st -> Order c (tick st).
Proof. intros [? ? ? ? ? ? ?]. constructor; assumption. Qed.

(* ---- how one step changes the pipelines --------------------------------------------------- *)

Definition pipe_upd (st : state) (k : nat) (l : list task) (st' : state) : Prop :=
  forall k0, pipe st' k0 = if Nat.eqb k0 k then l else pipe st k0.

Lemma pipe_upd_at st k l st' : pipe_upd st k l st' -> pipe st' k = l.
Proof. intro H. rewrite (H k), Nat.eqb_refl. reflexivity. Qed.

Lemma pipe_upd_other st k l st' k0 : pipe_upd st k l st' -> k0 <> k -> pipe st' k0 = pipe st k0.
Proof. intros H Hne. rewrite (H k0). apply Nat.eqb_neq in Hne. rewrite Hne. reflexivity. Qed.

Lemma oshard_upd c st k l st' :
  (forall k x, In x (pipe st k) -> shard_of c (t_s x) = k) ->
  pipe_upd st k l st' -> (forall x, In x l -> shard_of c (t_s x) = k) ->
  forall k0 x, In x (pipe st' k0) -> shard_of c (t_s x) = k0.
Proof.
  intros Ho Hp Hl k0 x Hin. destruct (Nat.eq_dec k0 k) as [->|Hne].
  - rewrite (pipe_upd_at _ _ _ _ Hp) in Hin. apply Hl. exact Hin.
  - rewrite (pipe_upd_other _ _ _ _ _ Hp Hne) in Hin. apply Ho. exact Hin.
Qed.

(* nothing enters or leaves the pipeline of shard k *)
Lemma oacc_same c st k st' :
  (forall s, accq (sends st) s = finq (disps st) s ++ qs_of s (pipe st (shard_of c s))) ->
  pipe_upd st k (pipe st k) st' ->
  (forall s, accq (sends st') s = accq (sends st) s) ->
  (forall s, finq (disps st') s = finq (disps st) s) ->
  forall s, accq (sends st') s = finq (disps st') s ++ qs_of s (pipe st' (shard_of c s)).
Proof.
  intros Ho Hp Hs Hd s. rewrite Hs, Hd, Ho.
  destruct (Nat.eq_dec (shard_of c s) k) as [E|Hne].
  - rewrite E. rewrite (pipe_upd_at _ _ _ _ Hp). reflexivity.
  - rewrite (pipe_upd_other _ _ _ _ _ Hp Hne). reflexivity.
Qed.

(* session s0's SEND (seq q) is accepted into the queue of its shard k *)
Lemma oacc_enq c st k st' x :
  (forall s, accq (sends st) s = finq (disps st) s ++ qs_of s (pipe st (shard_of c s))) ->
  shard_of c (t_s x) = k ->
  pipe_upd st k (pipe st k ++ [x]) st' ->
  (forall s, accq (sends st') s = accq (sends st) s ++ (if Nat.eqb (t_s x) s then [t_q x] else [])) ->
  (forall s, finq (disps st') s = finq (disps st) s) ->
  forall s, accq (sends st') s = finq (disps st') s ++ qs_of s (pipe st' (shard_of c s)).
Proof.
  intros Ho Hk Hp Hs Hd s. rewrite Hs, Hd, Ho.
  destruct (Nat.eq_dec (shard_of c s) k) as [E|Hne].
  - rewrite E. rewrite (pipe_upd_at _ _ _ _ Hp). rewrite qs_of_app, <- app_assoc. f_equal. f_equal.
    unfold qs_of. cbn [filter]. destruct (Nat.eqb (t_s x) s); reflexivity.
  - rewrite (pipe_upd_other _ _ _ _ _ Hp Hne).
    destruct (Nat.eqb (t_s x) s) eqn:E; [|rewrite app_nil_r; reflexivity].
    apply Nat.eqb_eq in E. subst s. congruence.
Qed.

(* the handler is finished with the first [items] of shard k's pipeline *)
Lemma oacc_drop c st k st' items rest :
  (forall k x, In x (pipe st k) -> shard_of c (t_s x) = k) ->
  (forall s, accq (sends st) s = finq (disps st) s ++ qs_of s (pipe st (shard_of c s))) ->
  pipe st k = items ++ rest ->
  pipe_upd st k rest st' ->
  (forall s, accq (sends st') s = accq (sends st) s) ->
  (forall s, finq (disps st') s = finq (disps st) s ++ qs_of s items) ->
  forall s, accq (sends st') s = finq (disps st') s ++ qs_of s (pipe st' (shard_of c s)).
Proof.
  intros Hsh Ho Hpk Hp Hs Hd s. rewrite Hs, Hd, Ho.
  destruct (Nat.eq_dec (shard_of c s) k) as [E|Hne].
  - rewrite E. rewrite (pipe_upd_at _ _ _ _ Hp). rewrite Hpk, qs_of_app, app_assoc. reflexivity.
  - rewrite (pipe_upd_other _ _ _ _ _ Hp Hne).
    assert (Hnil : qs_of s items = []).
    { destruct (qs_of s items) eqn:Eq; [reflexivity|]. exfalso.
      destruct (qs_of_nonempty s items) as [x [Hin Hx]]; [rewrite Eq; discriminate|].
      apply Hne. rewrite <- Hx. apply Hsh. rewrite Hpk. apply in_or_app. left. exact Hin. }
    rewrite Hnil, app_nil_r. reflexivity.
Qed.

(* ---- SENDACK subsequence ----------------------------------------------------------------------- *)

Lemma osub_disps w d d2 :
  (forall s, subseqb (ackq w s) (finq d s) = true) ->
  forall s, subseqb (ackq w s) (finq (d ++ d2) s) = true.
Proof. intros H s. rewrite finq_app. apply subseqb_app_r. apply H. Qed.

Lemma osub_ack w d s0 q t t' :
  (forall s, subseqb (ackq w s) (finq d s) = true) ->
  forall s, subseqb (ackq (w ++ [HWire s0 0 q t]) s) (finq (d ++ [HDisp s0 q t']) s) = true.
Proof.
  intros H s. rewrite ackq_app, finq_app, ackq_one. unfold finq at 2. cbn [filter hd_s].
  destruct (Nat.eqb s0 s); cbn [andb map hd_q N.eqb].
  - apply subseqb_snoc. apply H.
  - rewrite !app_nil_r. apply H.
Qed.

Lemma ackq_push w s0 w0 tag t s : w0 <> 0 -> ackq (w ++ [HWire s0 w0 tag t]) s = ackq w s.
Proof.
  intro H. rewrite ackq_app, ackq_one. apply N.eqb_neq in H. rewrite H, andb_false_r, app_nil_r. reflexivity.
Qed.

Lemma accq_rej h s0 q b t0 t1 s : accq (h ++ [HSend s0 q b t0 t1 false]) s = accq h s.
Proof. rewrite accq_app, accq_one, andb_false_r, app_nil_r. reflexivity. Qed.

Lemma accq_acc h s0 q b t0 t1 s :
  accq (h ++ [HSend s0 q b t0 t1 true]) s = accq h s ++ (if Nat.eqb s0 s then [q] else []).
Proof. rewrite accq_app, accq_one, andb_true_r. reflexivity. Qed.

Ltac by_idx i k :=
  destruct (Nat.eq_dec i k) as [->|?];
  [rewrite ?upd_same in * | rewrite ?upd_other in * by assumption].

Ltac pipe_tac k :=
  let k0 := fresh "k0" in let E := fresh "E" in
  intro k0; unfold pipe; sp; unfold upd; destruct (Nat.eqb k0 k) eqn:E;
  [apply Nat.eqb_eq in E; subst k0; use_pcs; cbn [wk_items app]; rewrite <- ?app_assoc; try reflexivity
  | reflexivity].

Ltac f_inflight s :=
  let s0 := fresh "s0" in let q0 := fresh "q0" in let Hq := fresh "Hq" in
  intros s0 q0 Hq; destruct (Nat.eq_dec s0 s) as [->|?];
  [rewrite ?upd_same in *; cbn [spc_q] in *;
   match goal with H : forall s q, spc_q (spcs ?st s) = Some q -> _, Hp : spcs ?st s = _ |- _ =>
     try discriminate; apply H; rewrite Hp; cbn [spc_q]; congruence end
  | rewrite ?upd_other in * by assumption; auto].

Ltac f_fresh s :=
  let s0 := fresh "s0" in let q0 := fresh "q0" in let Hq := fresh "Hq" in
  intros s0 q0 Hq; unfold fresh_bound in *; sp; destruct (Nat.eq_dec s0 s) as [->|?];
  [rewrite ?upd_same in *; cbn [spc_q] in *;
   match goal with H : forall s q, In q (accq _ s) -> _, Hp : spcs ?st s = _ |- _ =>
     specialize (H s q0); rewrite Hp in H; cbn [spc_q] in H end
  | rewrite ?upd_other in * by assumption; auto].

Lemma order_send c st s b : Order c st -> Order c (stepT c st (ESend s b)).
Proof.
  intros O. cbn [stepT]. destruct (spcs st s) eqn:Hpc; try exact O.
  destruct ((s <? c_nsess c)%nat && negb (sclosed st s)); [|exact O].
  destruct O. constructor; sp; try assumption.
  - intros s0 q0 Hq. by_idx s0 s.
    + cbn [spc_q] in Hq. congruence.
    + auto.
  - intros s0 q0 Hq. unfold fresh_bound in *. sp. by_idx s0 s.
    + cbn [spc_q]. specialize (o_fresh0 s q0 Hq). rewrite Hpc in o_fresh0. exact o_fresh0.
    + auto.
Qed.

Lemma order_sub c st s : cfg_ok c -> (s < c_nsess c)%nat -> Order c st -> Order c (sub_step c s st).
Proof.
  intros Hc Hs O. unfold sub_step. set (k := shard_of c s) in *.
  destruct (spcs st s) eqn:Hpc; try exact O.
  - destruct (closed st); destruct O; constructor; sp; try assumption; try solve [f_inflight s];
      try solve [f_fresh s; auto].
  - destruct (c_cap c <=? queued st); destruct O; constructor; sp; try assumption; try solve [f_inflight s];
      try solve [f_fresh s; auto].
  - destruct (c_shardcap c <=? shq st k); destruct O; constructor; sp; try assumption; try solve [f_inflight s];
      try solve [f_fresh s; auto].
  - destruct (mclosed st || (c_shardcap c <=? len (mbox st k))).
    + destruct O; constructor; sp; try assumption; try solve [f_inflight s]; try solve [f_fresh s; auto].
    + set (x := T s q b).
      assert (Hwi : wk_items (if is_widle (wpcs st k) then WPending else wpcs st k) = wk_items (wpcs st k))
        by (destruct (wpcs st k); reflexivity).
      match goal with |- Order c ?S => set (st' := S) end.
      assert (Hp : pipe_upd st k (pipe st k ++ [x]) st').
      { subst st'. intro k0. unfold pipe. sp. unfold upd. destruct (Nat.eqb k0 k) eqn:E; [|reflexivity].
        apply Nat.eqb_eq in E. subst k0. rewrite Hwi, app_assoc. reflexivity. }
      destruct O. constructor.
      * apply (oshard_upd c st k _ st' o_shard0 Hp). intros x' Hin. apply in_app_or in Hin.
        destruct Hin as [Hin|[<-|[]]]; [apply o_shard0; exact Hin | reflexivity].
      * apply (oacc_enq c st k st' x o_acc0 eq_refl Hp).
        -- intro s0. subst st'. sp. apply accq_acc.
        -- intro s0. reflexivity.
      * subst st'. sp. intros k0 n cur curall rest Hw. by_idx k0 k; [|eauto].
        destruct (wpcs st k) eqn:Hwk; cbn [is_widle] in Hw; try discriminate. inversion Hw; subst. eauto.
      * exact o_sub0.
      * subst st'. sp. f_inflight s.
      * subst st'. sp. intros s0 q0 Hq. unfold fresh_bound. sp. rewrite accq_acc in Hq.
        apply in_app_or in Hq. by_idx s0 s.
        -- cbn [spc_q]. rewrite (o_inflight0 s q) by (rewrite Hpc; reflexivity).
           destruct Hq as [Hq|Hq].
           ++ specialize (o_fresh0 s q0 Hq). unfold fresh_bound in o_fresh0. rewrite Hpc in o_fresh0.
              cbn [spc_q] in o_fresh0. lia.
           ++ rewrite Nat.eqb_refl in Hq. destruct Hq as [<-|[]]. lia.
        -- destruct Hq as [Hq|Hq]; [apply o_fresh0; exact Hq|].
           destruct (Nat.eqb s s0) eqn:E; [apply Nat.eqb_eq in E; congruence | contradiction].
      * subst st'. sp. intro s0. rewrite accq_acc. destruct (Nat.eqb s s0) eqn:E.
        -- apply Nat.eqb_eq in E. subst s0. apply sorted_snoc; [apply o_sorted0|].
           intros y Hy. specialize (o_fresh0 s y Hy). unfold fresh_bound in o_fresh0. rewrite Hpc in o_fresh0.
           exact o_fresh0.
        -- rewrite app_nil_r. apply o_sorted0.
  - destruct O; constructor; sp; try assumption; try solve [f_inflight s]; try solve [f_fresh s; auto].
  - destruct O; constructor; sp; try assumption; try solve [f_inflight s]; try solve [f_fresh s; auto].
  - destruct O; constructor; sp; try assumption; try solve [f_inflight s]; try solve [f_fresh s; auto].
  - (* SReject *) destruct O; constructor; sp; try assumption; try solve [f_inflight s].
    + intro s0. rewrite accq_rej. apply o_acc0.
    + intros s0 q0 Hq. rewrite accq_rej in Hq. unfold fresh_bound. sp. by_idx s0 s.
      * cbn [spc_q]. rewrite (o_inflight0 s q) by (rewrite Hpc; reflexivity).
        specialize (o_fresh0 s q0 Hq). unfold fresh_bound in o_fresh0. rewrite Hpc in o_fresh0.
        cbn [spc_q] in o_fresh0. lia.
      * apply o_fresh0. exact Hq.
    + intro s0. rewrite accq_rej. apply o_sorted0.
Qed.

(* ---- drain worker steps ---------------------------------------------------------------------------- *)

Definition cursub (st : state) : Prop :=
  forall k n cur curall rest, wpcs st k = WDisp n cur curall rest -> incl cur curall.

Lemma order_neutral c st st' k :
  Order c st -> pipe_upd st k (pipe st k) st' ->
  sends st' = sends st -> disps st' = disps st -> wire st' = wire st ->
  spcs st' = spcs st -> nextq st' = nextq st -> cursub st' -> Order c st'.
Proof.
  intros [? ? ? ? ? ? ?] Hp Hs Hd Hw Hsp Hn Hc. constructor.
  - apply (oshard_upd c st k _ st' o_shard0 Hp). intros x Hx. apply o_shard0. exact Hx.
  - apply (oacc_same c st k st' o_acc0 Hp); intro s; rewrite ?Hs, ?Hd; reflexivity.
  - exact Hc.
  - rewrite Hw, Hd. exact o_sub0.
  - rewrite Hsp, Hn. exact o_inflight0.
  - unfold fresh_bound. rewrite Hsp, Hn, Hs. exact o_fresh0.
  - rewrite Hs. exact o_sorted0.
Qed.

Lemma order_handled c st st' k items rest t :
  Order c st -> pipe st k = items ++ rest -> pipe_upd st k rest st' ->
  sends st' = sends st ->
  disps st' = disps st ++ map (fun x => HDisp (t_s x) (t_q x) t) items ->
  (forall s, subseqb (ackq (wire st') s) (finq (disps st') s) = true) ->
  spcs st' = spcs st -> nextq st' = nextq st -> cursub st' -> Order c st'.
Proof.
  intros [? ? ? ? ? ? ?] Hpk Hp Hs Hd Hsub Hsp Hn Hc. constructor.
  - apply (oshard_upd c st k _ st' o_shard0 Hp). intros x Hx. apply o_shard0. rewrite Hpk.
    apply in_or_app. right. exact Hx.
  - apply (oacc_drop c st k st' items rest o_shard0 o_acc0 Hpk Hp).
    + intro s. rewrite Hs. reflexivity.
    + intro s. rewrite Hd, finq_app, finq_drop. reflexivity.
  - exact Hc.
  - exact Hsub.
  - rewrite Hsp, Hn. exact o_inflight0.
  - unfold fresh_bound. rewrite Hsp, Hn, Hs. exact o_fresh0.
  - rewrite Hs. exact o_sorted0.
Qed.

Ltac cursub_tac k :=
  let k0 := fresh "k0" in let Hw0 := fresh "Hw0" in
  unfold cursub; sp; intros k0 ? ? ? ? Hw0; by_idx k0 k;
  [try discriminate; try (inversion Hw0; subst; try apply incl_refl)
  | try match goal with O : Order _ ?st |- _ => eapply (o_cursub _ st O); eassumption end].

Lemma advance_pipe st k n rest k0 :
  pipe (advance k n rest st) k0 = if Nat.eqb k0 k then concat rest ++ mbox st k else pipe st k0.
Proof.
  unfold advance, pipe. destruct rest; sp; unfold upd; destruct (Nat.eqb k0 k) eqn:E; try reflexivity;
    apply Nat.eqb_eq in E; subst k0; reflexivity.
Qed.

Lemma advance_cursub st k n rest :
  (forall k0 n cur curall rest, k0 <> k -> wpcs st k0 = WDisp n cur curall rest -> incl cur curall) ->
  cursub (advance k n rest st).
Proof.
  intros H. unfold cursub, advance. destruct rest; sp; intros k0 ? ? ? ? Hw0; by_idx k0 k;
    try discriminate; try (inversion Hw0; subst; apply incl_refl); eapply H; eassumption.
Qed.

Lemma advance_sends st k n rest : sends (advance k n rest st) = sends st.
Proof. unfold advance. destruct rest; reflexivity. Qed.
Lemma advance_disps st k n rest : disps (advance k n rest st) = disps st.
Proof. unfold advance. destruct rest; reflexivity. Qed.
Lemma advance_wire st k n rest : wire (advance k n rest st) = wire st.
Proof. unfold advance. destruct rest; reflexivity. Qed.
Lemma advance_spcs st k n rest : spcs (advance k n rest st) = spcs st.
Proof. unfold advance. destruct rest; reflexivity. Qed.
Lemma advance_nextq st k n rest : nextq (advance k n rest st) = nextq st.
Proof. unfold advance. destruct rest; reflexivity. Qed.

(* drop [cur] (no SENDACK for them), then advance *)
Lemma order_drop_advance c st k n cur rest :
  Order c st -> wk_items (wpcs st k) = cur ++ concat rest ->
  Order c (advance k n rest (drop_items cur st)).
Proof.
  intros O Hw.
  apply (order_handled c st _ k cur (concat rest ++ mbox st k) (now st) O).
  - unfold pipe. rewrite Hw, <- app_assoc. reflexivity.
  - intro k0. rewrite advance_pipe. reflexivity.
  - rewrite advance_sends. reflexivity.
  - rewrite advance_disps. reflexivity.
  - rewrite advance_wire, advance_disps. sp. apply osub_disps. apply (o_sub c st O).
  - rewrite advance_spcs. reflexivity.
  - rewrite advance_nextq. reflexivity.
  - apply advance_cursub. sp. intros. eapply (o_cursub c st O); eassumption.
Qed.

Lemma order_advance c st k n rest :
  Order c st -> wk_items (wpcs st k) = concat rest -> Order c (advance k n rest st).
Proof.
  intros O Hw.
  apply (order_neutral c st _ k O).
  - intro k0. rewrite advance_pipe. destruct (Nat.eqb k0 k); [|reflexivity]. unfold pipe. rewrite Hw. reflexivity.
  - apply advance_sends.
  - apply advance_disps.
  - apply advance_wire.
  - apply advance_spcs.
  - apply advance_nextq.
  - apply advance_cursub. intros. eapply (o_cursub c st O); eassumption.
Qed.

Lemma order_work c st k ch : cfg_ok c -> (k < c_shards c)%nat -> Order c st -> Order c (work_step c k ch st).
Proof.
  intros Hc Hk O. unfold work_step.
  destruct (wpcs st k) eqn:Hw; try exact O.
  - (* WPending *) apply (order_neutral c st _ k O); try reflexivity; [pipe_tac k | cursub_tac k].
  - (* WNext *) destruct (mbox st k) eqn:Hm;
      (apply (order_neutral c st _ k O); try reflexivity; [pipe_tac k | cursub_tac k]).
  - (* WCollect *)
    destruct (eff_maxrec (c_maxrec c) <=? length items)%nat.
    + apply (order_neutral c st _ k O); try reflexivity; [pipe_tac k | cursub_tac k].
    + destruct ch; destruct (mbox st k) eqn:Hm; try exact O;
        (apply (order_neutral c st _ k O); try reflexivity; [pipe_tac k | cursub_tac k]).
  - (* WConsumeShard *) apply (order_neutral c st _ k O); try reflexivity; [pipe_tac k | cursub_tac k].
  - (* WConsume *)
    pose proof (units_concat c t_b items) as Hcat.
    assert (O1 : Order c (set_queued (queued st - len items) st)).
    { destruct O; constructor; assumption. }
    apply order_advance; [exact O1|]. sp. rewrite Hw. cbn [wk_items]. symmetry. exact Hcat.
  - (* WDisp *)
    pose proof (o_cursub c st O k _ _ _ _ Hw) as Hsub.
    assert (Hdef : Order c match cur with
                          | [] => advance k n rest st
                          | x :: cur' => set_wpc k (WDisp n cur' curall rest)
                              (drop_items [x] (if sclosed st (t_s x) then st
                                 else set_wire (wire st ++ [HWire (t_s x) 0 (t_q x) (now st)]) st))
                          end).
    { destruct cur as [|x cur'].
      - apply order_advance; [exact O|]. rewrite Hw. reflexivity.
      - destruct (sclosed st (t_s x));
          (apply (order_handled c st _ k [x] (cur' ++ concat rest ++ mbox st k) (now st) O);
           try reflexivity; [unfold pipe; rewrite Hw; cbn [wk_items app]; rewrite <- ?app_assoc; reflexivity
                            | pipe_tac k | sp | cursub_tac k]).
        + apply osub_disps. apply (o_sub c st O).
        + intros a Ha. apply Hsub. right. exact Ha.
        + cbn [map]. apply osub_ack. apply (o_sub c st O).
        + intros a Ha. apply Hsub. right. exact Ha. }
    destruct ch; try exact Hdef.
    + (* CFail *) apply (order_neutral c st _ k O); try reflexivity; [pipe_tac k | cursub_tac k].
    + (* CPanic *) apply order_drop_advance; [exact O|]. rewrite Hw. reflexivity.
  - (* WErr *)
    destruct toclose as [|s0 tc].
    + apply order_drop_advance; [exact O|]. rewrite Hw. reflexivity.
    + apply (order_neutral c st _ k O); try reflexivity; [pipe_tac k | cursub_tac k].
  - (* WComplete *)
    destruct (r =? 0); (apply (order_neutral c st _ k O); try reflexivity; [pipe_tac k | cursub_tac k]).
  - (* WFinish *)
    destruct (mbox st k) eqn:Hm; [|destruct (mclosed st)];
      (apply (order_neutral c st _ k O); try reflexivity; [pipe_tac k | cursub_tac k]).
Qed.

Lemma order_frame c st st' :
  Order c st -> sends st' = sends st -> disps st' = disps st -> wpcs st' = wpcs st -> mbox st' = mbox st ->
  spcs st' = spcs st -> nextq st' = nextq st -> (forall s, ackq (wire st') s = ackq (wire st) s) ->
  Order c st'.
Proof.
  intros [? ? ? ? ? ? ?] Hs Hd Hw Hm Hsp Hn Ha.
  assert (Hp : forall k, pipe st' k = pipe st k) by (intro k; unfold pipe; rewrite Hw, Hm; reflexivity).
  constructor.
  - intros k x. rewrite Hp. apply o_shard0.
  - intro s. rewrite Hs, Hd, Hp. apply o_acc0.
  - intros k n cur curall rest. rewrite Hw. apply o_cursub0.
  - intro s. rewrite Ha, Hd. apply o_sub0.
  - rewrite Hsp, Hn. exact o_inflight0.
  - unfold fresh_bound. rewrite Hsp, Hn, Hs. exact o_fresh0.
  - rewrite Hs. exact o_sorted0.
Qed.

Lemma order_stepT c st e : cfg_ok c -> Order c st -> Order c (stepT c st e).
Proof.
  intros Hc O. destruct e; cbn [stepT].
  - apply order_send. exact O.
  - destruct (s <? c_nsess c)%nat eqn:Hs; [|exact O]. ltb_hyp. apply order_sub; assumption.
  - destruct (k <? c_shards c)%nat eqn:Hk; [|exact O]. ltb_hyp. apply order_work; assumption.
  - destruct (dpcs st d); try exact O. apply (order_frame c st _ O); reflexivity.
  - unfold drain_step. destruct (dpcs st d); try exact O.
    + apply (order_frame c st _ O); reflexivity.
    + apply (order_frame c st _ O); reflexivity.
    + destruct (drained st); [apply (order_frame c st _ O); reflexivity|].
      destruct timeout; [apply (order_frame c st _ O); reflexivity | exact O].
  - destruct (dstarted st && negb (drained st) && (admitted st =? 0)); [|exact O].
    apply (order_frame c st _ O); reflexivity.
  - destruct (cstarted st && drained st && negb (mclosed st)); [|exact O].
    apply (order_frame c st _ O); reflexivity.
  - destruct (s <? c_nsess c)%nat; [|exact O]. apply (order_frame c st _ O); reflexivity.
  - destruct ((s <? c_nsess c)%nat && negb (w =? 0)) eqn:Hg; [|exact O]. ltb_hyp.
    destruct (sclosed st s); apply (order_frame c st _ O); try reflexivity.
    intro s0. sp. apply ackq_push. assumption.
Qed.

Lemma order_step c st e : cfg_ok c -> Order c st -> Order c (step c st e).
Proof. intros Hc O. rewrite step_eq. apply order_stepT; [exact Hc|]. apply order_tick. exact O. Qed.

Lemma order_run c evs : cfg_ok c -> Order c (run c evs).
Proof.
  intro Hc. unfold run. rewrite <- fold_left_rev_right.
  induction (rev evs) as [|e l IH]; cbn [fold_right]; [apply order_init|].
  apply order_step; assumption.
Qed.
