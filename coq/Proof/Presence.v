(* Proof/Presence.v — the clauses of C33 as statements about the model of
   internal/runtime/presence, for every reachable directory state. *)
From WK Require Import Base.Base Gen.Consts_C33 Model.Presence Proof.AckTracker_map Proof.Presence_map
     Proof.Presence_inv Proof.Presence_ops Proof.Presence_dir.
From Coq Require Import Permutation Sorted.
Open Scope N_scope.

(* ---- 1. fencing ------------------------------------------------------------------------------- *)
(* what "the target is not the installed authority" means *)
Lemma validate_none_iff d g :
  validateTargetLocked d g = None <->
  (d_local d <> 0 /\ g_leader g <> d_local d)
  \/ nget (g_hs g) (d_slots d) = None
  \/ exists s, nget (g_hs g) (d_slots d) = Some s /\ sameAuthorityIdentity (sl_target s) g = false.
Proof.
  unfold validateTargetLocked.
  destruct (N.eqb_spec (d_local d) 0) as [L|L]; destruct (N.eqb_spec (g_leader g) (d_local d)) as [M|M]; simpl;
    destruct (nget (g_hs g) (d_slots d)) as [s|] eqn:G;
    try destruct (sameAuthorityIdentity (sl_target s) g) eqn:S;
    split; intro H; try discriminate; try reflexivity; auto;
    try (right; right; exists s; auto; fail);
    try (destruct H as [[H1 H2]|[H|[s0 [H1 H2]]]]; try congruence; inversion H1; subst; congruence).
Qed.

Lemma sameAuthorityIdentity_false l r :
  sameAuthorityIdentity l r = false <->
  g_hs l <> g_hs r \/ g_slot l <> g_slot r \/ g_leader l <> g_leader r \/ g_term l <> g_term r \/ g_epoch l <> g_epoch r.
Proof.
  unfold sameAuthorityIdentity. rewrite !andb_false_iff, !N.eqb_neq. tauto.
Qed.

Lemma fenced d o g :
  op_target o = Some g -> validateTargetLocked d g = None ->
  fst (step d o) = d /\ out_err (snd (step d o)) = Some ENotLeader
  /\ match snd (step d o) with
     | RRegister _ tok acts => tok = 0 /\ acts = []
     | RRoutes _ rs => rs = []
     | _ => True
     end.
Proof.
  intros T V. destruct o; simpl in T; try discriminate; inversion T; subst; cbn [step].
  - unfold RegisterRoute. rewrite V. simpl. auto.
  - unfold CommitRoute. rewrite V. simpl. auto.
  - unfold AbortRoute. rewrite V. simpl. auto.
  - unfold UnregisterRoute. rewrite V. simpl. auto.
  - unfold TouchRoutes. rewrite V. simpl. auto.
  - unfold EndpointsByUIDs. rewrite V. simpl. auto.
  - unfold EndpointsByUID. rewrite V. simpl. auto.
Qed.

Lemma fenced_groups d gs i g uids :
  nth_error gs i = Some (g, uids) -> validateTargetLocked d g = None ->
  nth_error (EndpointsByTargets d gs) i = Some (ENotLeader, []).
Proof.
  intros H V. unfold EndpointsByTargets. rewrite nth_error_map, H. simpl. unfold EndpointsByUIDs. rewrite V. reflexivity.
Qed.

(* ---- 2. unregister fences ----------------------------------------------------------------------- *)
Lemma active_above_fence d hs s k r t :
  reachable d -> nget hs (d_slots d) = Some s -> iget k (sl_active s) = Some r ->
  iget k (sl_tomb s) = Some t -> t < r_oseq r.
Proof.
  intros R G A T. apply reachable_inv in R. destruct (di_slots d R _ _ G) as [I _].
  pose proof (si_tomb s I _ _ A) as X. unfold tombstoned in X. rewrite T in X. apply N.leb_gt. exact X.
Qed.

(* an op that does not end the authority tenure of hash slot hs *)
Definition keeps_tenure (hs : N) (cur : target) (o : op) : Prop :=
  match o with
  | OLose h => h <> hs
  | OBecome g => g_hs g = hs -> sameAuthorityIdentity cur g = true
  | _ => True
  end.

Lemma same_identity_trans a b c :
  sameAuthorityIdentity a b = true -> sameAuthorityIdentity b c = true -> sameAuthorityIdentity a c = true.
Proof.
  unfold sameAuthorityIdentity. rewrite !andb_true_iff, !N.eqb_eq. intuition congruence.
Qed.
Lemma same_identity_refl a : sameAuthorityIdentity a a = true.
Proof. unfold sameAuthorityIdentity. rewrite !N.eqb_refl. reflexivity. Qed.

Definition fence_ge (s : slot) (k : ikey) (q : N) : Prop := exists t, iget k (sl_tomb s) = Some t /\ q <= t.

Lemma fence_persists d o hs s k q :
  DInv d -> nget hs (d_slots d) = Some s -> fence_ge s k q -> keeps_tenure hs (sl_target s) o ->
  exists s', nget hs (d_slots (fst (step d o))) = Some s' /\ fence_ge s' k q
             /\ sameAuthorityIdentity (sl_target s) (sl_target s') = true.
Proof.
  intros I G F KT.
  assert (STAY : exists s', nget hs (d_slots d) = Some s' /\ fence_ge s' k q
                            /\ sameAuthorityIdentity (sl_target s) (sl_target s') = true).
  { exists s. split; [exact G|]. split; [exact F|apply same_identity_refl]. }
  (* a targeted op that rewrites slot g_hs g with a slot of the same target and a pointwise larger fence *)
  assert (PUT : forall g s0 s1, validateTargetLocked d g = Some s0 -> sl_target s1 = sl_target s0 ->
                  (g_hs g = hs -> fence_ge s0 k q -> fence_ge s1 k q) ->
                  exists s', nget hs (d_slots (put_slot d (g_hs g) s1)) = Some s' /\ fence_ge s' k q
                             /\ sameAuthorityIdentity (sl_target s) (sl_target s') = true).
  { intros g s0 s1 V TG FG. apply validate_some in V. destruct V as [V _].
    rewrite put_slot_get. destruct (N.eqb_spec hs (g_hs g)) as [E|E].
    - subst hs. rewrite V in G. inversion G. subst s0. exists s1. split; [reflexivity|]. split; [apply FG; auto|].
      rewrite TG. apply same_identity_refl.
    - exact STAY. }
  destruct o; cbn [step].
  - (* become *)
    simpl. unfold BecomeAuthority. simpl in KT.
    destruct (N.eq_dec (g_hs g) hs) as [E|E].
    + subst hs. rewrite G. rewrite (KT eq_refl).
      destruct (g_rev (sl_target s) <=? g_rev g); [|exact STAY].
      rewrite put_slot_get, N.eqb_refl. eexists. split; [reflexivity|]. split; [exact F|]. simpl. apply (KT eq_refl).
    + assert (X : forall s1, exists s', nget hs (d_slots (put_slot d (g_hs g) s1)) = Some s' /\ fence_ge s' k q
                                       /\ sameAuthorityIdentity (sl_target s) (sl_target s') = true).
      { intro s1. rewrite put_slot_get. destruct (N.eqb_spec hs (g_hs g)); [congruence|exact STAY]. }
      destruct (nget (g_hs g) (d_slots d)) as [cur|]; [|apply X].
      destruct (sameAuthorityIdentity (sl_target cur) g); [|apply X].
      destruct (g_rev (sl_target cur) <=? g_rev g); [apply X|exact STAY].
  - (* lose *)
    simpl in *. rewrite n_get_del_other by exact KT. exact STAY.
  - (* register *)
    unfold RegisterRoute. destruct (validateTargetLocked d g) as [s0|] eqn:V; [|exact STAY].
    destruct (di_slots d I _ _ (proj1 (validate_some _ _ _ V))) as [IS _].
    pose proof (registerLocked_inv s0 r IS) as R. destruct (registerLocked s0 r) as [[[s1 e] tok] acts].
    destruct R as [_ [R2 R3]]. simpl. apply (PUT g s0 s1 V R3). unfold fence_ge. rewrite R2. auto.
  - (* commit *)
    unfold CommitRoute. destruct (validateTargetLocked d g) as [s0|] eqn:V; [|exact STAY].
    destruct (di_slots d I _ _ (proj1 (validate_some _ _ _ V))) as [IS _].
    pose proof (commitRouteLocked_inv s0 tok IS) as R. destruct (commitRouteLocked s0 tok) as [s1 e].
    destruct R as [_ [R2 R3]]. simpl. apply (PUT g s0 s1 V R3). unfold fence_ge. rewrite R2. auto.
  - (* abort *)
    unfold AbortRoute. destruct (validateTargetLocked d g) as [s0|] eqn:V; [|exact STAY].
    destruct (nget tok (sl_pending s0)); [|exact STAY]. simpl.
    apply (PUT g s0 _ V); [reflexivity|auto].
  - (* unregister *)
    unfold UnregisterRoute. destruct (validateTargetLocked d g) as [s0|] eqn:V; [|exact STAY].
    destruct (di_slots d I _ _ (proj1 (validate_some _ _ _ V))) as [IS _].
    destruct (unregisterLocked_inv s0 k0 oseq IS) as [_ [R2 R3]]. simpl.
    apply (PUT g s0 _ V R2). intros _ [t [T1 T2]]. unfold fence_ge. rewrite R3, raise_fence_get.
    destruct (ikey_eqb k0 k) eqn:E; [|exists t; auto].
    apply ikey_eqb_spec in E. subst k0. rewrite T1. eexists. split; [reflexivity|].
    destruct (t <? oseq) eqn:L; [apply N.ltb_lt in L; lia|exact T2].
  - (* touch *)
    unfold TouchRoutes. destruct (validateTargetLocked d g) as [s0|] eqn:V; [|exact STAY].
    destruct (di_slots d I _ _ (proj1 (validate_some _ _ _ V))) as [IS _].
    destruct (fold_touch_inv rs s0 IS) as [_ [R2 R3]]. cbn [fst d_slots].
    apply (PUT g s0 _ V R3). unfold fence_ge. rewrite R2. auto.
  - (* expire *)
    unfold ExpireRoutesDetailed.
    pose proof (expire_slots_get (d_slots d) nowS nowN ttl hs) as EG.
    destruct (expire_slots (d_slots d) nowS nowN ttl) as [slots' [[[[a b] c] e] f]]. simpl in *.
    rewrite EG, G. destruct (di_slots d I _ _ G) as [IS _].
    destruct (expireLocked_inv s nowS nowN ttl IS) as [_ [R2 R3]].
    eexists. split; [reflexivity|]. split; [unfold fence_ge; rewrite R3; exact F|rewrite R2; apply same_identity_refl].
  - simpl. destruct (EndpointsByUIDs d g uids). exact STAY.
  - simpl. destruct (EndpointsByUID d g uid). exact STAY.
  - exact STAY.
  - simpl. destruct (Snapshot d) as [[[[[a b] c] e] f] g]. exact STAY.
Qed.

(* the tenure of the authority identity [cur] of hash slot hs lasts through ops *)
Fixpoint tenure_lasts (hs : N) (cur : target) (ops : list op) : Prop :=
  match ops with
  | [] => True
  | o :: rest => keeps_tenure hs cur o /\ tenure_lasts hs cur rest
  end.

Lemma keeps_tenure_same hs a b o :
  sameAuthorityIdentity a b = true -> keeps_tenure hs a o -> keeps_tenure hs b o.
Proof.
  intros S. destruct o; simpl; auto. intros H E. specialize (H E).
  unfold sameAuthorityIdentity in *. rewrite !andb_true_iff, !N.eqb_eq in *. intuition congruence.
Qed.

Lemma tenure_lasts_same hs a b ops :
  sameAuthorityIdentity a b = true -> tenure_lasts hs a ops -> tenure_lasts hs b ops.
Proof.
  intro S. induction ops as [|o rest IH]; simpl; [auto|]. intros [H1 H2].
  split; [eapply keeps_tenure_same; eassumption|apply IH; exact H2].
Qed.

Lemma fence_persists_run ops : forall d hs s k q,
  DInv d -> nget hs (d_slots d) = Some s -> fence_ge s k q -> tenure_lasts hs (sl_target s) ops ->
  exists s', nget hs (d_slots (fst (run d ops))) = Some s' /\ fence_ge s' k q.
Proof.
  induction ops as [|o rest IH]; intros d hs s k q I G F T.
  - simpl. exists s. auto.
  - simpl in T. destruct T as [T1 T2]. cbn [run].
    destruct (fence_persists d o hs s k q I G F T1) as [s1 [G1 [F1 S1]]].
    pose proof (step_inv d o I) as I1. destruct (step d o) as [d1 r]. simpl in *.
    destruct (IH d1 hs s1 k q I1 G1 F1 (tenure_lasts_same _ _ _ _ S1 T2)) as [s' [G' F']].
    destruct (run d1 rest) as [d' tr]. simpl in *. exists s'. auto.
Qed.

(* after an accepted UnregisterRoute(id, q), for as long as the authority identity
   of the hash slot lasts, id is active only with an owner sequence above q *)
Lemma run_app ops1 ops2 d : fst (run d (ops1 ++ ops2)) = fst (run (fst (run d ops1)) ops2).
Proof.
  revert d. induction ops1 as [|o rest IH]; intro d; simpl; [reflexivity|].
  destruct (step d o) as [d1 r1]. specialize (IH d1).
  destruct (run d1 rest) as [d2 tr2]. destruct (run d1 (rest ++ ops2)) as [d3 tr3]. simpl in *. exact IH.
Qed.

Lemma reachable_run d ops : reachable d -> reachable (fst (run d ops)).
Proof. intros [l [ops0 E]]. exists l, (ops0 ++ ops). rewrite run_app, E. reflexivity. Qed.

Lemma tombstone d g k q ops :
  reachable d -> validateTargetLocked d g <> None ->
  let d1 := fst (UnregisterRoute d g k q) in
  forall s1, nget (g_hs g) (d_slots d1) = Some s1 ->
  tenure_lasts (g_hs g) (sl_target s1) ops ->
  forall s2 r, nget (g_hs g) (d_slots (fst (run d1 ops))) = Some s2 ->
               iget k (sl_active s2) = Some r -> q < r_oseq r.
Proof.
  intros R V d1 s1 G1 T s2 r G2 A.
  assert (R1 : reachable d1).
  { pose proof (reachable_run d [OUnregister g k q] R) as X. simpl in X.
    unfold d1. destruct (UnregisterRoute d g k q). exact X. }
  pose proof (reachable_inv _ R) as I. pose proof (reachable_inv _ R1) as I1.
  assert (F1 : fence_ge s1 k q).
  { unfold d1, UnregisterRoute in G1. destruct (validateTargetLocked d g) as [s0|] eqn:V0; [|contradiction].
    cbn [fst] in G1. rewrite put_slot_get, N.eqb_refl in G1. inversion G1. subst s1.
    destruct (di_slots d I _ _ (proj1 (validate_some _ _ _ V0))) as [IS _].
    destruct (unregisterLocked_inv s0 k q IS) as [_ [_ R3]]. unfold fence_ge. rewrite R3, raise_fence_get, ikey_eqb_refl.
    eexists. split; [reflexivity|]. destruct (iget k (sl_tomb s0)) as [t|]; [|lia].
    destruct (t <? q) eqn:L; [lia|apply N.ltb_ge in L; exact L]. }
  destruct (fence_persists_run ops d1 (g_hs g) s1 k q I1 G1 F1 T) as [s2' [G2' [t [T1 T2]]]].
  rewrite G2 in G2'. inversion G2'. subst s2'.
  pose proof (active_above_fence _ _ _ _ _ _ (reachable_run d1 ops R1) G2 A T1). lia.
Qed.

(* ---- 3. expiry -------------------------------------------------------------------------------------- *)
Lemma expire_exact d nowS nowN ttl :
  reachable d ->
  let d' := fst (ExpireRoutesDetailed d nowS nowN ttl) in
  forall hs, match nget hs (d_slots d), nget hs (d_slots d') with
             | Some s, Some s' =>
               sl_active s' = filter (fun kr : ikey * route => negb (route_due nowS nowN ttl (snd kr))) (sl_active s)
               /\ sl_target s' = sl_target s /\ sl_tomb s' = sl_tomb s
             | None, None => True
             | _, _ => False
             end.
Proof.
  intros R d' hs. apply reachable_inv in R. unfold d', ExpireRoutesDetailed.
  pose proof (expire_slots_get (d_slots d) nowS nowN ttl hs) as EG.
  destruct (expire_slots (d_slots d) nowS nowN ttl) as [slots' [[[[a b] c] e] f]]. simpl in *.
  rewrite EG. destruct (nget hs (d_slots d)) as [s|] eqn:G; [|exact I].
  destruct (di_slots d R _ _ G) as [IS _].
  pose proof (expireLocked_spec s nowS nowN ttl IS) as E.
  destruct (expireLocked s nowS nowN ttl) as [s' [[[[a1 b1] c1] e1] f1]]. simpl. tauto.
Qed.

(* ---- 4. lookups --------------------------------------------------------------------------------------- *)
Lemma flat_routes_keys (act : list (ikey * route)) ks :
  (forall k, In k ks -> exists r, iget k act = Some r /\ makeRouteIdentityKey r = k) ->
  map makeRouteIdentityKey (flat_map (fun k => match iget k act with Some r => [r] | None => [] end) ks) = ks.
Proof.
  induction ks as [|k rest IH]; intro H; simpl; [reflexivity|].
  destruct (H k (or_introl eq_refl)) as [r [G K]]. rewrite G. simpl. rewrite K. f_equal.
  apply IH. intros k' Hk. apply H. right. exact Hk.
Qed.

(* the routes of one uid: exactly the active routes of that uid, strictly
   increasing by (uid, session, node, boot) *)
Lemma endpoints_sorted s u :
  SInv s ->
  Permutation (endpointsByUIDLocked s u) (map snd (filter (fun kr : ikey * route => r_uid (snd kr) =? u) (sl_active s)))
  /\ StronglySorted (fun a b => lessIdentityKey (makeRouteIdentityKey a) (makeRouteIdentityKey b) = true)
                    (endpointsByUIDLocked s u).
Proof.
  intro I. unfold endpointsByUIDLocked, sortRoutes.
  set (L := flat_map (fun k => match iget k (sl_active s) with Some r => [r] | None => [] end) (uid_keys u s)).
  assert (KEYS : map makeRouteIdentityKey L = uid_keys u s).
  { unfold L. apply flat_routes_keys. intros k Hk. apply (si_by_proj s I) in Hk. destruct Hk as [r [G _]].
    exists r. split; [exact G|apply (si_act_key s I _ _ G)]. }
  assert (NDK : NoDup (map makeRouteIdentityKey L)) by (rewrite KEYS; apply (si_by_nodup s I)).
  split.
  - eapply Permutation_trans; [apply sort_by_perm|].
    apply NoDup_Permutation.
    + apply (NoDup_map_inv _ _ NDK).
    + assert (Y : map (fun kr : ikey * route => makeRouteIdentityKey (snd kr))
                      (filter (fun kr : ikey * route => r_uid (snd kr) =? u) (sl_active s))
                  = al_keys (filter (fun kr : ikey * route => r_uid (snd kr) =? u) (sl_active s))).
      { unfold al_keys. apply map_ext_in. intros [k r] Hin. apply filter_In in Hin. destruct Hin as [Hin _]. simpl.
        apply (si_act_key s I). apply (i_in_get _ _ _ (si_act_nodup s I) Hin). }
      apply (NoDup_map_inv makeRouteIdentityKey). rewrite map_map. rewrite Y.
      apply al_filter_nodup. apply (si_act_nodup s I).
    + intro r. split.
      * intro Hr. unfold L in Hr. apply in_flat_map in Hr. destruct Hr as [k [Hk Hr]].
        destruct (iget k (sl_active s)) as [r'|] eqn:G; [|destruct Hr]. destruct Hr as [Hr|[]]. subst r'.
        apply (si_by_proj s I) in Hk. destruct Hk as [r2 [G2 U2]]. rewrite G in G2. inversion G2. subst r2.
        apply in_map_iff. exists (k, r). split; [reflexivity|]. apply filter_In. split; [apply (i_get_some_in _ _ _ G)|].
        simpl. apply N.eqb_eq. exact U2.
      * intro Hr. apply in_map_iff in Hr. destruct Hr as [[k r'] [E Hin]]. simpl in E. subst r'.
        apply filter_In in Hin. destruct Hin as [Hin U]. simpl in U. apply N.eqb_eq in U.
        pose proof (i_in_get _ _ _ (si_act_nodup s I) Hin) as G.
        unfold L. apply in_flat_map. exists k. split.
        -- apply (si_by_proj s I). exists r. auto.
        -- rewrite G. left. reflexivity.
  - apply (sort_by_sorted makeRouteIdentityKey). exact NDK.
Qed.

(* ---- 5. a pending route is promoted only when every current conflict was acknowledged ---- *)
Lemma conflict_commit s tok s' :
  commitRouteLocked s tok = (s', EOk) ->
  exists r acked, nget tok (sl_pending s) = Some (r, acked)
                  /\ forall ck, In ck (conflictsLocked s r) -> In ck acked.
Proof.
  unfold commitRouteLocked. destruct (nget tok (sl_pending s)) as [[r acked]|]; [|discriminate].
  destruct (tombstoned s (makeRouteIdentityKey r) (r_oseq r)); [discriminate|].
  destruct (r_oseq r <? seq_of (makeRouteIdentityKey r) (sl_ownerSeq s)); [discriminate|].
  destruct (forallb (fun ck => mem_key ck acked) (conflictsLocked s r)) eqn:F; simpl; [|discriminate].
  intros _. exists r, acked. split; [reflexivity|]. intros ck Hck.
  rewrite forallb_forall in F. apply mem_key_in. apply F. exact Hck.
Qed.
