(* Proof/HashSlot_table.v — the hash-slot table operations: well-formedness
   (length of the assignment = hash-slot count) is preserved, Lookup is a total
   function, every effective mutation bumps the version by one and changes the
   content, physical (non-zero) assignments are preserved. *)
From WK Require Import Base.Base Base.Bytes Gen.Consts_C20 Model.HashSlot.
From Coq Require Import ZifyBool ZifyN ZifyNat.
Open Scope N_scope.

(* ---- set_nth ------------------------------------------------------------------ *)

Lemma set_nth_length {A} (v : A) : forall l n, length (set_nth n v l) = length l.
Proof. induction l as [|x l IH]; intros [|n]; cbn [set_nth length]; try reflexivity. rewrite IH. reflexivity. Qed.

Lemma nth_set_nth_same {A} (v d : A) : forall l n, (n < length l)%nat -> nth n (set_nth n v l) d = v.
Proof.
  induction l as [|x l IH]; intros [|n] H; cbn [length] in H; try lia; cbn [set_nth nth]; [reflexivity|].
  apply IH. lia.
Qed.

Lemma nth_set_nth_other {A} (v d : A) : forall l n k, n <> k -> nth k (set_nth n v l) d = nth k l d.
Proof.
  induction l as [|x l IH]; intros [|n] [|k] H; cbn [set_nth nth]; try reflexivity; try congruence.
  apply IH. congruence.
Qed.

Lemma set_nth_same {A} (d : A) : forall l n, (n < length l)%nat -> set_nth n (nth n l d) l = l.
Proof.
  induction l as [|x l IH]; intros [|n] H; cbn [length] in H; try lia; cbn [set_nth nth]; [reflexivity|].
  rewrite IH by lia. reflexivity.
Qed.

Lemma set_nth_beyond {A} (v : A) : forall l n, (length l <= n)%nat -> set_nth n v l = l.
Proof.
  induction l as [|x l IH]; intros [|n] H; cbn [length] in H; try lia; cbn [set_nth]; try reflexivity.
  rewrite IH by lia. reflexivity.
Qed.

Lemma Forall_set_nth {A} (P : A -> Prop) (v : A) : forall l n, Forall P l -> P v -> Forall P (set_nth n v l).
Proof.
  induction l as [|x l IH]; intros [|n] Hl Hv; cbn [set_nth]; try assumption.
  - inversion Hl; subst. constructor; assumption.
  - inversion Hl; subst. constructor; [assumption|]. apply IH; assumption.
Qed.

(* ---- migrations ------------------------------------------------------------------ *)

Lemma mig_find_put_same m ms : mig_find (m_hs m) (mig_put m ms) = Some m.
Proof.
  induction ms as [|x r IH]; cbn [mig_put mig_find].
  - rewrite N.eqb_refl. reflexivity.
  - destruct (m_hs m <? m_hs x) eqn:E1.
    + cbn [mig_find]. rewrite N.eqb_refl. reflexivity.
    + destruct (m_hs m =? m_hs x) eqn:E2.
      * cbn [mig_find]. rewrite N.eqb_refl. reflexivity.
      * cbn [mig_find]. rewrite N.eqb_sym, E2. exact IH.
Qed.

Lemma mig_find_del_same hs ms : mig_find hs (mig_del hs ms) = None.
Proof.
  induction ms as [|x r IH]; cbn [mig_del mig_find]; [reflexivity|].
  destruct (m_hs x =? hs) eqn:E; [exact IH|]. cbn [mig_find]. rewrite E. exact IH.
Qed.

Lemma mig_find_hs hs ms m : mig_find hs ms = Some m -> m_hs m = hs.
Proof.
  induction ms as [|x r IH]; cbn [mig_find]; [discriminate|].
  destruct (m_hs x =? hs) eqn:E; [|exact IH].
  intro H. inversion H; subst. apply N.eqb_eq. exact E.
Qed.

Lemma mig_find_in hs ms m : mig_find hs ms = Some m -> In m ms.
Proof.
  induction ms as [|x r IH]; cbn [mig_find]; [discriminate|].
  destruct (m_hs x =? hs); intro H; [inversion H; left; reflexivity|right; apply IH; exact H].
Qed.

Lemma in_mig_put m ms x : In x (mig_put m ms) -> x = m \/ In x ms.
Proof.
  induction ms as [|y r IH]; cbn [mig_put].
  - intros [H|[]]. left. symmetry. exact H.
  - destruct (m_hs m <? m_hs y).
    + intros [H|H]; [left; symmetry; exact H|right; exact H].
    + destruct (m_hs m =? m_hs y).
      * intros [H|H]; [left; symmetry; exact H|right; right; exact H].
      * intros [H|H]; [right; left; exact H|]. destruct (IH H) as [E|E]; [left; exact E|right; right; exact E].
Qed.

Lemma in_mig_del hs ms x : In x (mig_del hs ms) -> In x ms.
Proof.
  induction ms as [|y r IH]; cbn [mig_del]; [intros []|].
  destruct (m_hs y =? hs); [intro H; right; apply IH; exact H|].
  intros [H|H]; [left; exact H|right; apply IH; exact H].
Qed.

(* ---- well-formedness ------------------------------------------------------------- *)

Definition wf (t : table) : Prop := N.of_nat (length (t_assign t)) = t_count t.

Lemma snap_wf_iff t : snap_wf t = true <-> wf t.
Proof. unfold snap_wf, wf. apply N.eqb_eq. Qed.

Lemma repeat_length' {A} (x : A) n : length (repeat x n) = n.
Proof. apply repeat_length. Qed.

Lemma new_wf count phys : wf (new_hash_slot_table count phys).
Proof.
  unfold new_hash_slot_table, wf.
  destruct ((count =? 0) || (phys <=? 0)%Z); cbn [t_assign t_count].
  - rewrite repeat_length. lia.
  - rewrite firstn_length, app_length, repeat_length. lia.
Qed.

Lemma reassign_wf t hs s : wf t -> wf (reassign t hs s).
Proof.
  unfold reassign, wf. intro H.
  destruct (alen t <=? hs); [exact H|]. destruct (at_hs t hs =? s); [exact H|].
  cbn [t_assign t_count]. rewrite set_nth_length. exact H.
Qed.

Lemma start_wf t hs a b : wf t -> wf (start_migration t hs a b).
Proof.
  unfold start_migration, wf. intro H.
  destruct (alen t <=? hs); [exact H|].
  destruct ((a =? 0) || (b =? 0) || (a =? b) || negb (at_hs t hs =? a)); [exact H|].
  destruct (mig_find hs (t_migs t)); exact H.
Qed.

Lemma advance_wf t hs ph : wf t -> wf (advance_migration t hs ph).
Proof.
  unfold advance_migration, wf. intro H.
  destruct (mig_find hs (t_migs t)) as [m|]; [|exact H]. destruct (m_phase m =? ph); exact H.
Qed.

Lemma finalize_wf t hs : wf t -> wf (finalize_migration t hs).
Proof.
  unfold finalize_migration, wf. intro H.
  destruct (mig_find hs (t_migs t)) as [m|]; [|exact H]. cbn [t_assign t_count].
  destruct (hs <? alen t); [rewrite set_nth_length|]; exact H.
Qed.

Lemma abort_wf t hs : wf t -> wf (abort_migration t hs).
Proof.
  unfold abort_migration, wf. intro H.
  destruct (mig_find hs (t_migs t)); exact H.
Qed.

Lemma apply_plan_wf p : forall t, wf t -> wf (apply_plan t p).
Proof.
  unfold apply_plan. induction p as [|m p IH]; intros t H; cbn [fold_left]; [exact H|].
  apply IH. apply reassign_wf. exact H.
Qed.

Lemma apply_plan_count p : forall t, t_count (apply_plan t p) = t_count t.
Proof.
  unfold apply_plan. induction p as [|m p IH]; intros t; cbn [fold_left]; [reflexivity|].
  rewrite IH. unfold reassign. destruct (alen t <=? mv_hs m); [reflexivity|].
  destruct (at_hs t (mv_hs m) =? mv_to m); reflexivity.
Qed.

(* ---- C20 clause 1: Lookup is a total function of the hash slot ------------------- *)

(* every hash slot below the count has exactly one owner, the entry of the assignment;
   beyond the count Lookup answers 0 ("no slot") *)
Lemma lookup_total t hs : wf t ->
  (hs < t_count t -> lookup t hs = nth (N.to_nat hs) (t_assign t) 0) /\
  (t_count t <= hs -> lookup t hs = 0).
Proof.
  unfold wf, lookup, alen, at_hs. intro H. split; intro L.
  - destruct (N.of_nat (length (t_assign t)) <=? hs) eqn:E; [lia|reflexivity].
  - destruct (N.of_nat (length (t_assign t)) <=? hs) eqn:E; [reflexivity|lia].
Qed.

(* hash_slots_of partitions the hash slots: hs is listed for slot s iff s owns hs *)
Lemma in_indices_of l s : forall i hs,
  In hs (indices_of i l s) <-> (i <= hs /\ hs < i + N.of_nat (length l) /\ nth (N.to_nat (hs - i)) l 0 = s).
Proof.
  induction l as [|x l IH]; intros i hs; cbn [indices_of length].
  - split; [intros []|]. intros [H1 [H2 _]]. lia.
  - assert (Hx : In hs (indices_of (i + 1) l s) <->
                   (i + 1 <= hs /\ hs < i + 1 + N.of_nat (length l) /\ nth (N.to_nat (hs - (i + 1))) l 0 = s))
      by (apply IH).
    destruct (x =? s) eqn:E.
    + apply N.eqb_eq in E. cbn [In]. rewrite Hx. split.
      * intros [H|[H1 [H2 H3]]].
        -- subst hs. replace (N.to_nat (i - i)) with O by lia. cbn [nth]. split; [lia|]. split; [lia|exact E].
        -- split; [lia|]. split; [lia|].
           replace (N.to_nat (hs - i)) with (S (N.to_nat (hs - (i + 1)))) by lia. cbn [nth]. exact H3.
      * intros [H1 [H2 H3]]. destruct (N.eq_dec i hs) as [D|D]; [left; exact D|right].
        split; [lia|]. split; [lia|].
        replace (N.to_nat (hs - i)) with (S (N.to_nat (hs - (i + 1)))) in H3 by lia. cbn [nth] in H3. exact H3.
    + apply N.eqb_neq in E. rewrite Hx. split.
      * intros [H1 [H2 H3]]. split; [lia|]. split; [lia|].
        replace (N.to_nat (hs - i)) with (S (N.to_nat (hs - (i + 1)))) by lia. cbn [nth]. exact H3.
      * intros [H1 [H2 H3]]. destruct (N.eq_dec i hs) as [D|D].
        -- subst hs. replace (N.to_nat (i - i)) with O in H3 by lia. cbn [nth] in H3. contradiction.
        -- split; [lia|]. split; [lia|].
           replace (N.to_nat (hs - i)) with (S (N.to_nat (hs - (i + 1)))) in H3 by lia. cbn [nth] in H3. exact H3.
Qed.

Lemma hash_slots_of_spec t s hs : wf t ->
  (In hs (hash_slots_of t s) <-> hs < t_count t /\ lookup t hs = s).
Proof.
  intro H. unfold hash_slots_of. rewrite in_indices_of. unfold wf in H.
  rewrite N.sub_0_r. split.
  - intros [_ [H2 H3]]. split; [lia|]. destruct (lookup_total t hs H) as [L _]. rewrite L by lia. exact H3.
  - intros [H2 H3]. destruct (lookup_total t hs H) as [L _]. rewrite L in H3 by lia. split; [lia|]. split; [lia|exact H3].
Qed.

(* ---- C20 clause 3: the version ------------------------------------------------------ *)

(* a mutation either leaves the table untouched or bumps the version by one and
   changes the assignment or the migration set *)
Definition effect (t t' : table) : Prop :=
  t' = t \/ (t_version t' = bump (t_version t)
             /\ (t_assign t' <> t_assign t \/ t_migs t' <> t_migs t)).

Lemma reassign_effect t hs s : effect t (reassign t hs s).
Proof.
  unfold effect, reassign. destruct (alen t <=? hs) eqn:E1; [left; reflexivity|].
  destruct (at_hs t hs =? s) eqn:E2; [left; reflexivity|]. right. cbn [t_version t_assign t_migs].
  split; [reflexivity|]. left. intro H.
  apply N.eqb_neq in E2. apply E2. unfold at_hs. rewrite <- H at 1.
  apply nth_set_nth_same. unfold alen in E1. lia.
Qed.

Lemma start_effect t hs a b : effect t (start_migration t hs a b).
Proof.
  unfold effect, start_migration. destruct (alen t <=? hs); [left; reflexivity|].
  destruct ((a =? 0) || (b =? 0) || (a =? b) || negb (at_hs t hs =? a)); [left; reflexivity|].
  destruct (mig_find hs (t_migs t)) eqn:F; [left; reflexivity|]. right. cbn [t_version t_assign t_migs].
  split; [reflexivity|]. right. intro H.
  pose proof (mig_find_put_same (Mig hs a b PhaseSnapshot) (t_migs t)) as P. cbn [m_hs] in P.
  rewrite H, F in P. discriminate.
Qed.

Lemma advance_effect t hs ph : effect t (advance_migration t hs ph).
Proof.
  unfold effect, advance_migration. destruct (mig_find hs (t_migs t)) as [m|] eqn:F; [|left; reflexivity].
  destruct (m_phase m =? ph) eqn:E; [left; reflexivity|]. right. cbn [t_version t_assign t_migs].
  split; [reflexivity|]. right. intro H.
  pose proof (mig_find_put_same (Mig (m_hs m) (m_src m) (m_tgt m) ph) (t_migs t)) as P. cbn [m_hs] in P.
  rewrite H, (mig_find_hs _ _ _ F), F in P. inversion P as [Q]. rewrite Q in E. cbn [m_phase] in E.
  rewrite N.eqb_refl in E. discriminate.
Qed.

Lemma finalize_effect t hs : effect t (finalize_migration t hs).
Proof.
  unfold effect, finalize_migration. destruct (mig_find hs (t_migs t)) as [m|] eqn:F; [|left; reflexivity].
  right. cbn [t_version t_assign t_migs]. split; [reflexivity|]. right. intro H.
  pose proof (mig_find_del_same hs (t_migs t)) as P. rewrite H, F in P. discriminate.
Qed.

Lemma abort_effect t hs : effect t (abort_migration t hs).
Proof.
  unfold effect, abort_migration. destruct (mig_find hs (t_migs t)) as [m|] eqn:F; [|left; reflexivity].
  right. cbn [t_version t_assign t_migs]. split; [reflexivity|]. right. intro H.
  pose proof (mig_find_del_same hs (t_migs t)) as P. rewrite H, F in P. discriminate.
Qed.

Lemma bump_lt v : v < u64max -> bump v = v + 1.
Proof. unfold bump, wrap64, u64max. intro H. apply N.mod_small. lia. Qed.

(* strict increase below the uint64 wrap *)
Lemma effect_version_strict t t' : effect t t' -> t_version t < u64max -> t' <> t ->
  t_version t < t_version t'.
Proof.
  intros [E|[E _]] L D; [contradiction|]. rewrite E, bump_lt by exact L. lia.
Qed.

(* a whole applied plan: the version never decreases, moves by at most the plan
   length, and moves at all when the table changes *)
Lemma apply_plan_version p : forall t, t_version t + N.of_nat (length p) < u64max ->
  t_version t <= t_version (apply_plan t p) <= t_version t + N.of_nat (length p)
  /\ (apply_plan t p <> t -> t_version t < t_version (apply_plan t p))
  /\ t_migs (apply_plan t p) = t_migs t.
Proof.
  unfold apply_plan. induction p as [|m p IH]; intros t L; cbn [fold_left length].
  - split; [lia|]. split; [intro H; contradiction|reflexivity].
  - cbn [length] in L. set (t1 := reassign t (mv_hs m) (mv_to m)).
    assert (M1 : t_migs t1 = t_migs t).
    { unfold t1, reassign. destruct (alen t <=? mv_hs m); [reflexivity|].
      destruct (at_hs t (mv_hs m) =? mv_to m); reflexivity. }
    destruct (reassign_effect t (mv_hs m) (mv_to m)) as [E|[E _]]; fold t1 in E.
    + rewrite E. destruct (IH t) as [A [B C]]; [lia|]. split; [lia|]. split; [exact B|exact C].
    + assert (V : t_version t1 = t_version t + 1) by (rewrite E; apply bump_lt; lia).
      destruct (IH t1) as [A [B C]]; [lia|]. split; [lia|]. split; [intros _; lia|].
      rewrite C. exact M1.
Qed.

(* ---- physical assignments are preserved ------------------------------------------ *)

Definition fully_assigned (t : table) : Prop :=
  Forall (fun s => s <> 0) (t_assign t) /\ Forall (fun m => m_tgt m <> 0) (t_migs t).

Lemma all_nz_iff l : all_nz l = true <-> Forall (fun s => s <> 0) l.
Proof.
  unfold all_nz. rewrite forallb_forall, Forall_forall. split; intros H x I; specialize (H x I).
  - apply negb_true_iff, N.eqb_neq in H. exact H.
  - apply negb_true_iff, N.eqb_neq. exact H.
Qed.

Lemma good_iff t : good t = true <-> fully_assigned t.
Proof.
  unfold good, fully_assigned. rewrite andb_true_iff, all_nz_iff.
  split; intros [A B]; (split; [exact A|]).
  - apply Forall_forall. intros x I. rewrite forallb_forall in B. specialize (B x I).
    apply negb_true_iff, N.eqb_neq in B. exact B.
  - apply forallb_forall. intros x I. rewrite Forall_forall in B. specialize (B x I).
    apply negb_true_iff, N.eqb_neq. exact B.
Qed.

Lemma repeat_Forall {A} (P : A -> Prop) x n : P x -> Forall P (repeat x n).
Proof. intro H. induction n; cbn [repeat]; constructor; assumption. Qed.

Lemma new_fill_nz fuel : forall i base rem, Forall (fun s => s <> 0) (new_fill fuel i base rem).
Proof.
  induction fuel as [|f IH]; intros i base rem; cbn [new_fill]; [constructor|].
  apply Forall_app. split; [apply repeat_Forall; lia|apply IH].
Qed.

Lemma new_fill_length fuel : forall i base rem,
  N.of_nat (length (new_fill fuel i base rem)) =
  N.of_nat fuel * base + (N.min (i + N.of_nat fuel) rem - N.min i rem).
Proof.
  induction fuel as [|f IH]; intros i base rem; cbn [new_fill]; [cbn [length]; lia|].
  rewrite app_length, repeat_length, Nnat.Nat2N.inj_add, IH.
  destruct (i <? rem) eqn:E; lia.
Qed.

(* NewHashSlotTable with at least one physical slot maps every hash slot to a physical slot *)
Lemma new_fully_assigned count phys : (1 <= phys)%Z -> fully_assigned (new_hash_slot_table count phys).
Proof.
  intro Hp. unfold new_hash_slot_table, fully_assigned.
  destruct (count =? 0) eqn:E0.
  - apply N.eqb_eq in E0. subst count. cbn [orb t_assign t_migs repeat N.to_nat]. split; constructor.
  - assert (E1 : (phys <=? 0)%Z = false) by lia. rewrite E1. cbn [orb t_assign t_migs].
    split; [|constructor].
    set (p := Z.to_N phys). assert (Pp : 1 <= p) by lia.
    set (filled := new_fill (N.to_nat (N.min p count)) 0 (count / p) (count mod p)).
    assert (L : N.of_nat (length filled) = count).
    { unfold filled. rewrite new_fill_length, N2Nat.id.
      pose proof (N.div_mod count p ltac:(lia)) as DM.
      pose proof (N.mod_lt count p ltac:(lia)) as ML.
      destruct (N.le_gt_cases p count) as [C|C].
      - rewrite (N.min_l p count) by lia. lia.
      - rewrite (N.min_r p count) by lia.
        rewrite (N.div_small count p) by lia. rewrite (N.mod_small count p) by lia. lia. }
    rewrite firstn_app. replace (N.to_nat count - length filled)%nat with O by lia.
    rewrite firstn_O, app_nil_r, firstn_all2 by lia. apply new_fill_nz.
Qed.

Lemma reassign_fully t hs s : s <> 0 -> fully_assigned t -> fully_assigned (reassign t hs s).
Proof.
  unfold fully_assigned, reassign. intros Hs [A B].
  destruct (alen t <=? hs); [split; assumption|]. destruct (at_hs t hs =? s); [split; assumption|].
  cbn [t_assign t_migs]. split; [apply Forall_set_nth; assumption|exact B].
Qed.

Lemma start_fully t hs a b : fully_assigned t -> fully_assigned (start_migration t hs a b).
Proof.
  unfold fully_assigned, start_migration. intros [A B].
  destruct (alen t <=? hs); [split; assumption|].
  destruct ((a =? 0) || (b =? 0) || (a =? b) || negb (at_hs t hs =? a)) eqn:G; [split; assumption|].
  destruct (mig_find hs (t_migs t)); [split; assumption|]. cbn [t_assign t_migs]. split; [exact A|].
  apply Forall_forall. intros x I. destruct (in_mig_put _ _ _ I) as [E|E].
  - subst x. cbn [m_tgt]. apply orb_false_iff in G. destruct G as [G _].
    apply orb_false_iff in G. destruct G as [G _]. apply orb_false_iff in G. destruct G as [_ G].
    apply N.eqb_neq. exact G.
  - rewrite Forall_forall in B. apply B. exact E.
Qed.

Lemma advance_fully t hs ph : fully_assigned t -> fully_assigned (advance_migration t hs ph).
Proof.
  unfold fully_assigned, advance_migration. intros [A B].
  destruct (mig_find hs (t_migs t)) as [m|] eqn:F; [|split; assumption].
  destruct (m_phase m =? ph); [split; assumption|]. cbn [t_assign t_migs]. split; [exact A|].
  rewrite Forall_forall in B. apply Forall_forall. intros x I. destruct (in_mig_put _ _ _ I) as [E|E].
  - subst x. cbn [m_tgt]. apply B. apply (mig_find_in _ _ _ F).
  - apply B. exact E.
Qed.

Lemma finalize_fully t hs : fully_assigned t -> fully_assigned (finalize_migration t hs).
Proof.
  unfold fully_assigned, finalize_migration. intros [A B].
  destruct (mig_find hs (t_migs t)) as [m|] eqn:F; [|split; assumption].
  cbn [t_assign t_migs]. rewrite Forall_forall in B. split.
  - destruct (hs <? alen t); [|exact A]. apply Forall_set_nth; [exact A|]. apply B. apply (mig_find_in _ _ _ F).
  - apply Forall_forall. intros x I. apply B. apply (in_mig_del _ _ _ I).
Qed.

Lemma abort_fully t hs : fully_assigned t -> fully_assigned (abort_migration t hs).
Proof.
  unfold fully_assigned, abort_migration. intros [A B].
  destruct (mig_find hs (t_migs t)) as [m|] eqn:F; [|split; assumption].
  cbn [t_assign t_migs]. split; [exact A|]. rewrite Forall_forall in B.
  apply Forall_forall. intros x I. apply B. apply (in_mig_del _ _ _ I).
Qed.

Lemma apply_plan_fully p : forall t, Forall (fun m => mv_to m <> 0) p -> fully_assigned t -> fully_assigned (apply_plan t p).
Proof.
  unfold apply_plan. induction p as [|m p IH]; intros t Hp H; cbn [fold_left]; [exact H|].
  inversion Hp; subst. apply IH; [assumption|]. apply reassign_fully; assumption.
Qed.

(* the assignment after applying a plan is the plain list update of the moves *)
Lemma apply_plan_assign p : forall t,
  t_assign (apply_plan t p) = apply_moves p (t_assign t).
Proof.
  unfold apply_plan, apply_moves. induction p as [|m p IH]; intros t; cbn [fold_left]; [reflexivity|].
  rewrite IH. f_equal. unfold reassign, alen, at_hs.
  destruct (N.of_nat (length (t_assign t)) <=? mv_hs m) eqn:E1.
  - rewrite set_nth_beyond by lia. reflexivity.
  - destruct (nth (N.to_nat (mv_hs m)) (t_assign t) 0 =? mv_to m) eqn:E2; [|reflexivity].
    apply N.eqb_eq in E2. rewrite <- E2. rewrite set_nth_same by lia. reflexivity.
Qed.
