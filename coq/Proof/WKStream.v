(* Proof/WKStream.v — C23: DecodeFrame is determined by the prefix it consumes,
   reports no progress on an incomplete frame, never panics on non-empty input;
   the adapter loop and the gateway buffering yield the original frames for any
   chunking of a valid stream. *)
From WK Require Import Base.Base Base.Bytes Gen.Consts_C22 Model.WKProto Model.WKStream.
From WK Require Import Proof.WKProto Proof.WKProto_types Proof.WKProto_frame.
From Coq Require Import ZifyBool ZifyN ZifyNat.
Open Scope N_scope.

(* ---- decodeLength looks only at the bytes it counts -------------------------------- *)

Lemma decodeLength_aux_prefix : forall k data mult off acc rl rll,
  decodeLength_aux k data mult off acc = Some (rl, rll) ->
  off + 1 <= rll /\
  forall j x, (N.to_nat (rll - off) <= j)%nat ->
    decodeLength_aux k (firstn j data ++ x) mult off acc = Some (rl, rll).
Proof.
  induction k as [|k IH]; intros data mult off acc rl rll H.
  - cbn [decodeLength_aux] in *. inversion H; subst. split; [lia|]. intros. reflexivity.
  - cbn [decodeLength_aux] in H. destruct data as [|d r]; [discriminate|].
    destruct (negb (cont_bit d)) eqn:C.
    + inversion H; subst. split; [lia|]. intros j x Hj.
      destruct j as [|j]; [lia|]. cbn [firstn app decodeLength_aux]. rewrite C. reflexivity.
    + destruct (IH r (mult + 7) (off + 1) (acc + d mod 128 * 2 ^ mult) rl rll H) as [B P].
      split; [lia|]. intros j x Hj.
      destruct j as [|j]; [lia|]. cbn [firstn app decodeLength_aux]. rewrite C.
      apply P. lia.
Qed.

Lemma decodeLength_prefix data rl rll : decodeLength data = Some (rl, rll) ->
  1 <= rll /\ forall j x, (N.to_nat rll <= j)%nat -> decodeLength (firstn j data ++ x) = Some (rl, rll).
Proof.
  unfold decodeLength. intro H. destruct (decodeLength_aux_prefix 4 data 0 0 0 rl rll H) as [B P].
  split; [lia|]. intros j x Hj. apply P. rewrite N.sub_0_r. exact Hj.
Qed.

(* ---- list slicing --------------------------------------------------------------------- *)

Lemma body_slice_prefix (l x : bytes) (a b : nat) : (b + a <= length l)%nat ->
  firstn a (skipn b (firstn (b + a) l ++ x)) = firstn a (skipn b l).
Proof.
  intro H.
  rewrite skipn_app, firstn_app.
  rewrite firstn_length_le by exact H.
  replace (b - (b + a))%nat with 0%nat by lia.
  rewrite skipn_firstn_comm. replace (b + a - b)%nat with a by lia.
  rewrite firstn_length, skipn_length.
  replace (a - Nat.min a (length l - b))%nat with 0%nat by lia.
  rewrite firstn_O, app_nil_r, firstn_firstn, Nat.min_id. reflexivity.
Qed.

(* ---- DecodeFrame: prefix-determined, consumed within the input --------------------------- *)

Definition with_fsize (m : meta) (s : N) : meta := Meta (m_type m) (m_remlen m) s (m_end m).

Lemma DecodeFrame_prefix bs v f m n : DecodeFrame bs v = DFrame f m n ->
  1 <= n /\ n <= blen bs /\
  forall x, DecodeFrame (firstn (N.to_nat n) bs ++ x) v = DFrame f (with_fsize m (n + blen x)) n.
Proof.
  unfold DecodeFrame. destruct bs as [|b rest]; [discriminate|].
  destruct (FramerFromUint8 b) as [ft fl] eqn:FB.
  destruct ((ft =? PING) || (ft =? PONG)) eqn:PP.
  - (* PING / PONG *)
    destruct (ft =? UNKNOWN) eqn:U; [discriminate|].
    destruct (ft =? PING) eqn:P1.
    + intro H.
      assert (E : f = FPing fl /\ m = Meta ft 0 (blen (b :: rest)) false /\ n = 1) by (repeat split; congruence).
      destruct E as [E1 [E2 E3]]. subst f m n. clear H. rewrite blen_cons. split; [lia|]. split; [lia|].
      intro x. change (N.to_nat 1) with 1%nat. cbn [firstn app]. rewrite FB, P1. cbn [orb]. rewrite U.
      unfold with_fsize. cbn [m_type m_remlen m_end]. rewrite blen_cons. reflexivity.
    + destruct (ft =? PONG) eqn:P2; [|discriminate].
      intro H.
      assert (E : f = FPong fl /\ m = Meta ft 0 (blen (b :: rest)) false /\ n = 1) by (repeat split; congruence).
      destruct E as [E1 [E2 E3]]. subst f m n. clear H. rewrite blen_cons. split; [lia|]. split; [lia|].
      intro x. change (N.to_nat 1) with 1%nat. cbn [firstn app]. rewrite FB, P1, P2. cbn [orb]. rewrite U.
      unfold with_fsize. cbn [m_type m_remlen m_end]. rewrite blen_cons. reflexivity.
  - destruct (decodeLength rest) as [[rl rll]|] eqn:DL; [|discriminate].
    destruct (ft =? UNKNOWN) eqn:U; [discriminate|].
    apply orb_false_iff in PP. destruct PP as [P1 P2]. rewrite P1, P2.
    destruct (MaxRemaingLength <? rl) eqn:MX; [discriminate|].
    destruct (blen (b :: rest) <? rl + 1 + rll) eqn:LN; [discriminate|].
    destruct (packetDecodeMap ft) as [dec|] eqn:PD; [|discriminate].
    destruct (dec fl (firstn (N.to_nat rl) (skipn (N.to_nat (1 + rll)) (b :: rest))) v) as [f0|] eqn:DB;
      [|discriminate].
    intro H.
    assert (E : f0 = f /\ m = Meta ft rl (blen (b :: rest)) false /\ n = 1 + rll + rl)
      by (repeat split; congruence).
    destruct E as [E1 [E2 E3]]. subst f0 m n. clear H.
    destruct (decodeLength_prefix rest rl rll DL) as [R1 RP].
    split; [lia|]. split; [lia|].
    intro x.
    assert (Ln : (N.to_nat (1 + rll + rl) <= length (b :: rest))%nat) by (unfold blen in LN; lia).
    replace (N.to_nat (1 + rll + rl)) with (S (N.to_nat (rll + rl))) by lia.
    cbn [firstn app]. rewrite FB. cbn [orb]. rewrite P1, P2. cbn [orb].
    rewrite (RP (N.to_nat (rll + rl)) x) by lia.
    rewrite U, MX.
    assert (SZ : blen (b :: firstn (N.to_nat (rll + rl)) rest ++ x) = 1 + rll + rl + blen x).
    { rewrite blen_cons, blen_app. unfold blen at 1. rewrite firstn_length_le by (cbn [length] in Ln; lia). lia. }
    rewrite SZ.
    assert (G : (1 + rll + rl + blen x <? rl + 1 + rll) = false) by lia. rewrite G.
    rewrite PD.
    assert (BS : firstn (N.to_nat rl) (skipn (N.to_nat (1 + rll)) (b :: firstn (N.to_nat (rll + rl)) rest ++ x))
                 = firstn (N.to_nat rl) (skipn (N.to_nat (1 + rll)) (b :: rest))).
    { change (b :: firstn (N.to_nat (rll + rl)) rest ++ x)
        with ((b :: firstn (N.to_nat (rll + rl)) rest) ++ x).
      change (b :: firstn (N.to_nat (rll + rl)) rest) with (firstn (S (N.to_nat (rll + rl))) (b :: rest)).
      replace (S (N.to_nat (rll + rl))) with (N.to_nat (1 + rll) + N.to_nat rl)%nat by lia.
      apply body_slice_prefix. lia. }
    rewrite BS, DB. unfold with_fsize. cbn [m_type m_remlen m_end].
    f_equal.
Qed.

(* DecodeFrame panics only on empty input *)
Lemma DecodeFrame_no_panic b rest v : DecodeFrame (b :: rest) v <> DPanic.
Proof.
  unfold DecodeFrame. destruct (FramerFromUint8 b) as [ft fl].
  destruct ((ft =? PING) || (ft =? PONG)); [|destruct (decodeLength rest) as [[rl rll]|]];
    repeat match goal with
           | |- (if ?c then _ else _) <> _ => destruct c
           | |- match ?c with _ => _ end <> _ => destruct c
           end; discriminate.
Qed.

(* ---- a strict prefix of an encoded frame is "need more data" ------------------------------ *)

Lemma decodeLength_aux_strict_prefix : forall k fuel n p q mult off acc,
  (k <= fuel)%nat -> 0 < n -> n < 128 ^ N.of_nat k ->
  p ++ q = encodeVariable_aux fuel n -> q <> [] ->
  decodeLength_aux k p mult off acc = None.
Proof.
  induction k as [|k IH]; intros fuel n p q mult off acc Hk Hn Hlt E Q.
  - cbn in Hlt. lia.
  - destruct fuel as [|fuel]; [lia|].
    cbn [encodeVariable_aux] in E.
    assert (Z : (n =? 0) = false) by lia. rewrite Z in E.
    destruct p as [|d p']; [reflexivity|].
    cbn [app] in E. injection E as E1 E2.
    cbn [decodeLength_aux].
    destruct (0 <? n / 128) eqn:D.
    + assert (C : cont_bit d = true).
      { subst d. unfold cont_bit. apply N.eqb_eq.
        replace (n mod 128 + 128) with (n mod 128 + 1 * 128) by lia.
        rewrite N.div_add by discriminate.
        rewrite (N.div_small (n mod 128) 128) by (apply N.mod_lt; discriminate). reflexivity. }
      rewrite C. cbn [negb].
      apply (IH fuel (n / 128) p' q); [lia|lia| |exact E2|exact Q].
      rewrite Nnat.Nat2N.inj_succ, N.pow_succ_r' in Hlt.
      apply N.div_lt_upper_bound; [discriminate|exact Hlt].
    + assert (Q0 : n / 128 = 0) by lia. rewrite Q0, encodeVariable_aux_zero in E2.
      destruct p'; [|discriminate]. cbn [app] in E2. contradiction.
Qed.

Lemma frame_bytes_nonempty f v : frame_bytes f v <> [].
Proof. unfold frame_bytes. destruct (is_pingpong f); discriminate. Qed.

Lemma DecodeFrame_incomplete v f p q : within_limits v f = true ->
  p ++ q = frame_bytes f v -> p <> [] -> q <> [] -> DecodeFrame p v = DNeed.
Proof.
  intros H E Pn Qn. unfold frame_bytes in E.
  destruct (is_pingpong f) eqn:NP.
  - (* one byte: no non-empty strict prefix *)
    destruct p as [|a p]; [contradiction|]. cbn [app] in E. injection E as _ E2.
    destruct p; [|discriminate]. cbn [app] in E2. contradiction.
  - destruct (within_limits_split v f H) as [F L].
    destruct (body_bounds v f H NP) as [B1 B2].
    set (body := body_bytes f v) in *.
    destruct p as [|h p']; [contradiction|]. cbn [app] in E. injection E as Eh E2. subst h.
    unfold DecodeFrame.
    rewrite (header_roundtrip f NP). cbv beta iota zeta.
    pose proof NP as NP'. unfold is_pingpong in NP'. rewrite NP'.
    apply orb_false_iff in NP'. destruct NP' as [N1 N2].
    destruct (app_eq_app _ _ _ _ E2) as [l [[Ea Eb]|[Ea Eb]]].
    + (* p' = var ++ l, body = l ++ q : the length is complete, the body is not *)
      subst p'. rewrite decodeLength_enc by (unfold MaxRemaingLength in *; lia).
      cbv beta iota. rewrite type_not_unknown, N1, N2.
      assert (M : (MaxRemaingLength <? blen body) = false) by lia. rewrite M.
      assert (LT : (blen (ToFixHeaderUint8 f :: encodeVariable2 (blen body) ++ l)
                    <? blen body + 1 + blen (encodeVariable2 (blen body))) = true).
      { rewrite blen_cons, blen_app. rewrite Eb, blen_app.
        assert (0 < blen q) by (destruct q; [contradiction|rewrite blen_cons; lia]). lia. }
      rewrite LT. reflexivity.
    + (* var = p' ++ l, l ++ body = q : the length itself is incomplete *)
      destruct l as [|x l].
      * (* p' is the whole varint, nothing of the body: as above with l = [] *)
        rewrite app_nil_r in Ea. subst p'.
        rewrite <- (app_nil_r (encodeVariable2 (blen body))) at 1.
        rewrite decodeLength_enc by (unfold MaxRemaingLength in *; lia).
        cbv beta iota. rewrite type_not_unknown, N1, N2.
        assert (M : (MaxRemaingLength <? blen body) = false) by lia. rewrite M.
        assert (LT : (blen (ToFixHeaderUint8 f :: encodeVariable2 (blen body))
                      <? blen body + 1 + blen (encodeVariable2 (blen body))) = true).
        { rewrite blen_cons. lia. }
        rewrite LT. reflexivity.
      * assert (DN : decodeLength p' = None).
        { unfold decodeLength. apply (decodeLength_aux_strict_prefix 4 5 (blen body) p' (x :: l));
            [lia|lia|unfold MaxRemaingLength in *; lia|symmetry; exact Ea|discriminate]. }
        rewrite DN. reflexivity.
Qed.
