(* Proof/GatewaySend_lib.v — list / sum / history-projection lemmas used by the
   GatewaySend invariant proofs. *)
From Coq Require Import Sorting.Sorted.
From WK Require Import Base.Base Model.GatewaySend.
Open Scope N_scope.

(* ---- upd, sums over thread indexes ------------------------------------------------ *)

Lemma upd_same {A} (f : nat -> A) k v : upd f k v k = v.
Proof. unfold upd. rewrite Nat.eqb_refl. reflexivity. Qed.

Lemma upd_other {A} (f : nat -> A) k v i : i <> k -> upd f k v i = f i.
Proof. intro H. unfold upd. apply Nat.eqb_neq in H. rewrite H. reflexivity. Qed.

Fixpoint sumf (f : nat -> N) (n : nat) : N :=
  match n with O => 0 | S m => sumf f m + f m end.

Lemma sumf_ext f g n : (forall i, (i < n)%nat -> f i = g i) -> sumf f n = sumf g n.
Proof.
  induction n as [|n IH]; intro H; cbn [sumf]; [reflexivity|].
  rewrite IH by (intros; apply H; lia). rewrite H by lia. reflexivity.
Qed.

(* f' differs from f at k only *)
Lemma sumf_change f f' n k :
  (k < n)%nat -> (forall i, i <> k -> f' i = f i) ->
  sumf f' n + f k = sumf f n + f' k.
Proof.
  induction n as [|n IH]; intros Hk H; [lia|]. cbn [sumf].
  destruct (Nat.eq_dec k n) as [->|Hne].
  - rewrite (sumf_ext f' f n) by (intros; apply H; lia). lia.
  - rewrite (H n) by lia. specialize (IH ltac:(lia) H). lia.
Qed.

Lemma sumf_zero f n : sumf f n = 0 -> forall i, (i < n)%nat -> f i = 0.
Proof.
  induction n as [|n IH]; intros H i Hi; [lia|]. cbn [sumf] in H.
  destruct (Nat.eq_dec i n) as [->|Hne]; [lia|]. apply IH; lia.
Qed.

Lemma sumf_ge f n i : (i < n)%nat -> f i <= sumf f n.
Proof.
  induction n as [|n IH]; intro Hi; [lia|]. cbn [sumf].
  destruct (Nat.eq_dec i n) as [->|Hne]; [lia|]. specialize (IH ltac:(lia)). lia.
Qed.

Lemma len_app {A} (a b : list A) : len (a ++ b) = len a + len b.
Proof. unfold len. rewrite app_length. lia. Qed.

Lemma len_cons {A} (x : A) l : len (x :: l) = len l + 1.
Proof. unfold len. cbn [length]. lia. Qed.

Lemma len_nil {A} : len (@nil A) = 0.
Proof. reflexivity. Qed.

Lemma len_zero {A} (l : list A) : len l = 0 -> l = [].
Proof. destruct l; [reflexivity|]. rewrite len_cons. lia. Qed.

(* ---- per-session projections ------------------------------------------------------------ *)

Definition qs_of (s : nat) (l : list task) : list N :=
  map t_q (filter (fun x => Nat.eqb (t_s x) s) l).

Lemma qs_of_app s a b : qs_of s (a ++ b) = qs_of s a ++ qs_of s b.
Proof. unfold qs_of. rewrite filter_app, map_app. reflexivity. Qed.

Lemma qs_of_cons_same s x l : t_s x = s -> qs_of s (x :: l) = t_q x :: qs_of s l.
Proof. intro H. unfold qs_of. cbn [filter]. rewrite H, Nat.eqb_refl. reflexivity. Qed.

Lemma qs_of_cons_other s x l : t_s x <> s -> qs_of s (x :: l) = qs_of s l.
Proof. intro H. unfold qs_of. cbn [filter]. apply Nat.eqb_neq in H. rewrite H. reflexivity. Qed.

Lemma qs_of_nil s : qs_of s [] = [].
Proof. reflexivity. Qed.

Lemma qs_of_in s l q : In q (qs_of s l) -> exists x, In x l /\ t_s x = s /\ t_q x = q.
Proof.
  unfold qs_of. intro H. apply in_map_iff in H. destruct H as [x [Hq Hx]].
  apply filter_In in Hx. destruct Hx as [Hx Hs]. apply Nat.eqb_eq in Hs. eauto.
Qed.

Lemma qs_of_nonempty s l : qs_of s l <> [] -> exists x, In x l /\ t_s x = s.
Proof.
  destruct (qs_of s l) as [|q r] eqn:E; [congruence|]. intros _.
  destruct (qs_of_in s l q) as [x [H1 [H2 _]]]; [rewrite E; left; reflexivity|]. eauto.
Qed.

Lemma accq_app h1 h2 s : accq (h1 ++ h2) s = accq h1 s ++ accq h2 s.
Proof. unfold accq. rewrite filter_app, map_app. reflexivity. Qed.
Lemma finq_app h1 h2 s : finq (h1 ++ h2) s = finq h1 s ++ finq h2 s.
Proof. unfold finq. rewrite filter_app, map_app. reflexivity. Qed.
Lemma ackq_app h1 h2 s : ackq (h1 ++ h2) s = ackq h1 s ++ ackq h2 s.
Proof. unfold ackq. rewrite filter_app, map_app. reflexivity. Qed.

Lemma accq_one s' q b t0 t1 acc s :
  accq [HSend s' q b t0 t1 acc] s = if Nat.eqb s' s && acc then [q] else [].
Proof. unfold accq. cbn. destruct (Nat.eqb s' s && acc); reflexivity. Qed.

Lemma ackq_one s' w tag t s :
  ackq [HWire s' w tag t] s = if Nat.eqb s' s && (w =? 0) then [tag] else [].
Proof. unfold ackq. cbn. destruct (Nat.eqb s' s && (w =? 0)); reflexivity. Qed.

(* the handler gives up / finishes a list of items: their disp records *)
Lemma finq_drop items t s :
  finq (map (fun x => HDisp (t_s x) (t_q x) t) items) s = qs_of s items.
Proof.
  unfold finq, qs_of. induction items as [|x r IH]; [reflexivity|].
  cbn [map filter hd_s]. destruct (Nat.eqb (t_s x) s); cbn [map hd_q]; rewrite IH; reflexivity.
Qed.

(* ---- prefix / subsequence / increasing -------------------------------------------------------- *)

Lemma prefixb_app a r : prefixb a (a ++ r) = true.
Proof. induction a as [|x a IH]; [reflexivity|]. cbn. rewrite N.eqb_refl. exact IH. Qed.

Lemma subseqb_nil_l b : subseqb [] b = true.
Proof. destruct b; reflexivity. Qed.

Lemma subseqb_single q f : subseqb [q] (f ++ [q]) = true.
Proof.
  induction f as [|y f IH]; cbn [app subseqb].
  - rewrite N.eqb_refl. reflexivity.
  - destruct (q =? y); [apply subseqb_nil_l | exact IH].
Qed.

Lemma subseqb_snoc f : forall a q, subseqb a f = true -> subseqb (a ++ [q]) (f ++ [q]) = true.
Proof.
  induction f as [|y f IH]; intros a q H.
  - destruct a; [cbn; rewrite N.eqb_refl; reflexivity | discriminate H].
  - destruct a as [|x a'].
    + apply (subseqb_single q (y :: f)).
    + cbn [app subseqb] in *. destruct (x =? y).
      * apply IH. exact H.
      * apply (IH (x :: a') q H).
Qed.

Lemma subseqb_app_r f : forall a r, subseqb a f = true -> subseqb a (f ++ r) = true.
Proof.
  induction f as [|y f IH]; intros a r H.
  - destruct a; [apply subseqb_nil_l | discriminate H].
  - destruct a as [|x a']; [reflexivity|]. cbn [app subseqb] in *.
    destruct (x =? y); apply IH; exact H.
Qed.

Lemma subseqb_refl a : subseqb a a = true.
Proof. induction a as [|x a IH]; [reflexivity|]. cbn. rewrite N.eqb_refl. exact IH. Qed.

Lemma incrb_sorted l : StronglySorted N.lt l -> incrb l = true.
Proof.
  induction 1 as [|x l Hs IH Hall]; [reflexivity|].
  destruct l as [|y r]; [reflexivity|]. cbn [incrb].
  inversion Hall; subst. apply andb_true_iff. split; [apply N.ltb_lt; assumption | exact IH].
Qed.

Lemma sorted_snoc l x :
  StronglySorted N.lt l -> (forall y, In y l -> y < x) -> StronglySorted N.lt (l ++ [x]).
Proof.
  induction 1 as [|y l Hs IH Hall]; intro H; cbn [app].
  - constructor; constructor.
  - constructor.
    + apply IH. intros z Hz. apply H. right. exact Hz.
    + apply Forall_app. split; [exact Hall|]. constructor; [|constructor]. apply H. left. reflexivity.
Qed.

Lemma sorted_filter {A} (key : A -> N) (p : A -> bool) l :
  StronglySorted N.lt (map key l) -> StronglySorted N.lt (map key (filter p l)).
Proof.
  induction l as [|x l IH]; intro H; [constructor|]. cbn [map] in H. inversion H; subst.
  cbn [filter]. destruct (p x); [|apply IH; assumption]. cbn [map]. constructor; [apply IH; assumption|].
  rewrite Forall_forall in *. intros y Hy. apply in_map_iff in Hy. destruct Hy as [z [Hz Hin]].
  apply filter_In in Hin. destruct Hin as [Hin _]. apply H3. apply in_map_iff. eauto.
Qed.

Lemma sorted_nodup l : StronglySorted N.lt l -> NoDup l.
Proof.
  induction 1 as [|x l Hs IH Hall]; constructor; [|exact IH].
  intro Hin. rewrite Forall_forall in Hall. specialize (Hall x Hin). lia.
Qed.

Lemma nodup_app_l {A} (a b : list A) : NoDup (a ++ b) -> NoDup a.
Proof.
  induction a as [|x a IH]; intro H; [constructor|]. cbn [app] in H. inversion H; subst.
  constructor; [|apply IH; assumption]. intro Hin. apply H2. apply in_or_app. left. exact Hin.
Qed.

(* pairs with distinct (session, seq) *)
Lemma nodup_pairs_spec (l : list (nat * N)) : NoDup l -> nodup_pairs l = true.
Proof.
  induction 1 as [|[s q] l Hni Hnd IH]; [reflexivity|]. cbn [nodup_pairs].
  apply andb_true_iff. split; [|exact IH]. apply negb_true_iff.
  destruct (existsb _ l) eqn:E; [|reflexivity]. exfalso. apply Hni.
  apply existsb_exists in E. destruct E as [[s' q'] [Hin Heq]]. cbn [fst snd] in Heq.
  apply andb_true_iff in Heq. destruct Heq as [H1 H2].
  apply Nat.eqb_eq in H1. apply N.eqb_eq in H2. subst. exact Hin.
Qed.

(* a list of (session, seq) pairs has no duplicates when every session's
   projection has none *)
Lemma nodup_by_session (l : list hdisp) :
  (forall s, NoDup (finq l s)) -> NoDup (map (fun e => (hd_s e, hd_q e)) l).
Proof.
  induction l as [|e l IH]; intro H; [constructor|]. cbn [map]. constructor.
  - intro Hin. apply in_map_iff in Hin. destruct Hin as [e' [Heq Hin]]. inversion Heq as [[Hs Hq]].
    specialize (H (hd_s e)). unfold finq in H. cbn [filter] in H. rewrite Nat.eqb_refl in H.
    cbn [map] in H. inversion H as [|? ? Hni _]; subst. apply Hni.
    apply in_map_iff. exists e'. split; [exact Hq|]. apply filter_In. split; [exact Hin|].
    apply Nat.eqb_eq. exact Hs.
  - apply IH. intro s. specialize (H s). unfold finq in *. cbn [filter] in H.
    destruct (Nat.eqb (hd_s e) s); [|exact H]. cbn [map] in H. inversion H; assumption.
Qed.

(* ---- dedup --------------------------------------------------------------------------------- *)

Lemma in_dedup x l : In x l -> In x (dedup l).
Proof.
  induction l as [|y l IH]; intro H; [contradiction|]. cbn [dedup].
  destruct (Nat.eq_dec x y) as [->|Hne]; [left; reflexivity|]. right.
  destruct H as [->|H]; [congruence|]. apply filter_In. split; [apply IH; exact H|].
  apply negb_true_iff. apply Nat.eqb_neq. exact Hne.
Qed.
