(* Proof/GatewaySend.v — the C28 / C41 theorems about the sendExecutor transition
   system, assembled from the invariants Acct (accounting), Order / Strict
   (per-session order, SENDACKs), Wire / Fence / Done (stamped history). *)
From Coq Require Import Sorting.Sorted.
From WK Require Import Base.Base Model.GatewaySend Proof.GatewaySend_lib Proof.GatewaySend_split
  Proof.GatewaySend_acct Proof.GatewaySend_order Proof.GatewaySend_ack Proof.GatewaySend_log
  Gen.Consts_C28.
Open Scope N_scope.

(* a state in which no thread of the pipeline has a step left *)
Definition quiescent (st : state) : Prop :=
  (forall s, spcs st s = SIdle) /\ (forall k, wpcs st k = WIdle).

Lemma quiescent_pipe c st k : Acct c st -> quiescent st -> pipe st k = [].
Proof.
  intros A [_ Hw]. unfold pipe. rewrite Hw. cbn [wk_items app].
  destruct (mbox st k) eqn:E; [reflexivity|]. exfalso. apply (a_sched c st A k); [rewrite E; discriminate | apply Hw].
Qed.

Lemma sumf_all_zero f n : (forall i, f i = 0) -> sumf f n = 0.
Proof. intro H. induction n; cbn [sumf]; [reflexivity|]. rewrite IHn, H. reflexivity. Qed.

Lemma quiescent_admitted c st : Acct c st -> quiescent st -> admitted st = 0.
Proof.
  intros A Q. rewrite (a_adm c st A). destruct Q as [Hs Hw].
  rewrite !sumf_all_zero; [reflexivity| |].
  - intro k. rewrite Hw. cbn [whold].
    destruct (mbox st k) eqn:E; [reflexivity|]. exfalso. apply (a_sched c st A k); [rewrite E; discriminate | apply Hw].
  - intro s. rewrite Hs. reflexivity.
Qed.

(* ---- per-session order --------------------------------------------------------------------- *)

Lemma acks_prefix c evs s :
  cfg_ok c -> c_closeonerr c = true -> Forall nopanic evs ->
  exists r, accq (sends (run c evs)) s = ackq (wire (run c evs)) s ++ r.
Proof.
  intros Hc Hce Hnp. pose proof (order_run c evs Hc) as O. pose proof (strict_run c evs Hc Hce Hnp) as S.
  destruct (s_ack _ S s) as [r [H1 _]]. rewrite (o_acc c _ O s), H1, <- app_assoc. eauto.
Qed.

Lemma acks_nodup c evs s :
  cfg_ok c -> NoDup (ackq (wire (run c evs)) s).
Proof.
  (* acks are a subsequence of handled, handled is a prefix of accepted, accepted is increasing *)
  intros Hc. pose proof (order_run c evs Hc) as O.
  assert (Hsub : forall a f, subseqb a f = true -> NoDup f -> NoDup a).
  { intros a f. revert a. induction f as [|y f IH]; intros a H Hn.
    - destruct a; [constructor|discriminate].
    - destruct a as [|x a']; [constructor|]. cbn [subseqb] in H. inversion Hn; subst.
      destruct (x =? y) eqn:E.
      + apply N.eqb_eq in E. subst. constructor; [|apply IH; assumption].
        intro Hin. apply H2.
        assert (Hincl : forall a f, subseqb a f = true -> forall z, In z a -> In z f).
        { clear. intros a f. revert a. induction f as [|y f IH]; intros a H z Hz.
          - destruct a; [contradiction|discriminate].
          - destruct a as [|x a']; [contradiction|]. cbn [subseqb] in H. destruct (x =? y) eqn:E.
            + apply N.eqb_eq in E. subst. destruct Hz as [<-|Hz]; [left; reflexivity|right; eapply IH; eassumption].
            + right. eapply IH; eassumption. }
        eapply Hincl; eassumption.
      + apply IH; assumption. }
  apply (Hsub _ _ (o_sub c _ O s)).
  apply (nodup_app_l _ (qs_of s (pipe (run c evs) (shard_of c s)))). rewrite <- (o_acc c _ O s).
  apply sorted_nodup. apply (o_sorted c _ O).
Qed.

(* ---- the monitor on model histories ----------------------------------------------------------- *)

Lemma ok_acks_model c evs s :
  cfg_ok c -> (c_closeonerr c = true -> Forall nopanic evs) ->
  ok_acks (c_closeonerr c) (hist_of (run c evs)) s = true.
Proof.
  intros Hc Hnp. unfold ok_acks, hist_of. cbn [h_wire h_sends].
  destruct (c_closeonerr c) eqn:Hce.
  - destruct (acks_prefix c evs s Hc Hce (Hnp eq_refl)) as [r ->]. apply prefixb_app.
  - pose proof (order_run c evs Hc) as O. rewrite (o_acc c _ O s). apply subseqb_app_r. apply (o_sub c _ O).
Qed.

Lemma ok_fifo_model c evs s : ok_fifo (hist_of (run c evs)) s = true.
Proof.
  unfold ok_fifo, wire_of, hist_of. cbn [h_wire]. apply incrb_sorted. apply sorted_filter.
  apply (w_sorted _ _ (wire_run c evs)).
Qed.

Lemma ok_issue_model c evs i : In i (issues (run c evs)) -> ok_issue (hist_of (run c evs)) i = true.
Proof.
  intro Hi. unfold ok_issue, hist_of. cbn [h_wire].
  pose proof (w_issue_ok _ _ (wire_run c evs) i Hi) as H. unfold issue_count in H. rewrite H.
  destruct (hi_ok i); reflexivity.
Qed.

Lemma ok_wire_entry_model c evs e : In e (wire (run c evs)) -> ok_wire_entry (hist_of (run c evs)) e = true.
Proof.
  intro He. unfold ok_wire_entry, hist_of. cbn [h_issues].
  destruct (w_src _ _ (wire_run c evs) e He) as [H|[i [H1 [H2 H3]]]].
  - rewrite H. reflexivity.
  - apply orb_true_iff. right. apply existsb_exists. exists i. split; [exact H1|]. rewrite H2, H3. reflexivity.
Qed.

Lemma ok_fence_model c evs : cfg_ok c -> ok_fence (hist_of (run c evs)) = true.
Proof.
  intro Hc. unfold ok_fence, hist_of. cbn [h_sends h_drains]. apply forallb_forall. intros x Hx.
  destruct (hs_acc x) eqn:Ha; [|reflexivity]. cbn [negb orb]. apply forallb_forall. intros d Hd.
  apply negb_true_iff. apply N.ltb_ge. apply (f_fence _ _ (fence_run c evs Hc) x d Hx Ha Hd).
Qed.

Lemma ok_drained_model c evs : cfg_ok c -> ok_drained (hist_of (run c evs)) = true.
Proof.
  intro Hc. unfold ok_drained, hist_of. cbn [h_sends h_drains]. apply forallb_forall. intros d Hd.
  destruct (hr_ok d) eqn:Hok; [|reflexivity]. cbn [negb orb]. apply forallb_forall. intros x Hx.
  destruct (hs_acc x) eqn:Ha; [|reflexivity]. cbn [negb orb]. unfold handled_before. cbn [h_disps].
  destruct (d_done _ _ (done_run c evs Hc) d x Hd Hok Hx Ha) as [e [H1 [H2 [H3 H4]]]].
  apply existsb_exists. exists e. split; [exact H1|]. rewrite H2, H3, Nat.eqb_refl, N.eqb_refl.
  apply N.ltb_lt in H4. rewrite H4. reflexivity.
Qed.

Lemma in_accq_inv h s q : In q (accq h s) -> exists x, In x h /\ hs_s x = s /\ hs_q x = q /\ hs_acc x = true.
Proof.
  unfold accq. intro H. apply in_map_iff in H. destruct H as [x [Hq Hx]]. apply filter_In in Hx.
  destruct Hx as [Hx Hc]. apply andb_true_iff in Hc. destruct Hc as [Hs Ha]. apply Nat.eqb_eq in Hs. eauto.
Qed.

Lemma ok_dispatch_model c evs : cfg_ok c -> ok_dispatch (hist_of (run c evs)) = true.
Proof.
  intro Hc. pose proof (order_run c evs Hc) as O. unfold ok_dispatch, hist_of. cbn [h_sends h_disps].
  apply andb_true_iff. split.
  - apply forallb_forall. intros e He.
    assert (Hin : In (hd_q e) (accq (sends (run c evs)) (hd_s e))).
    { rewrite (o_acc c _ O). apply in_or_app. left. unfold finq. apply in_map. apply filter_In.
      split; [exact He|apply Nat.eqb_refl]. }
    destruct (in_accq_inv _ _ _ Hin) as [x [H1 [H2 [H3 H4]]]].
    apply existsb_exists. exists x. split; [exact H1|]. rewrite H2, H3, H4, Nat.eqb_refl, N.eqb_refl. reflexivity.
  - apply nodup_pairs_spec. apply nodup_by_session. intro s.
    apply (nodup_app_l _ (qs_of s (pipe (run c evs) (shard_of c s)))). rewrite <- (o_acc c _ O s).
    apply sorted_nodup. apply (o_sorted c _ O).
Qed.

Theorem safety_model c evs :
  cfg_ok c -> (c_closeonerr c = true -> Forall nopanic evs) ->
  safety_ok (c_closeonerr c) (c_nsess c) (hist_of (run c evs)) = true.
Proof.
  intros Hc Hnp. unfold safety_ok.
  assert (H1 : forallb (fun s => ok_acks (c_closeonerr c) (hist_of (run c evs)) s && ok_fifo (hist_of (run c evs)) s)
                 (seq 0 (c_nsess c)) = true).
  { apply forallb_forall. intros s _. apply andb_true_iff. split; [apply ok_acks_model; assumption|apply ok_fifo_model]. }
  assert (H2 : forallb (ok_issue (hist_of (run c evs))) (h_issues (hist_of (run c evs))) = true).
  { apply forallb_forall. intros i Hi. apply ok_issue_model. exact Hi. }
  assert (H3 : forallb (ok_wire_entry (hist_of (run c evs))) (h_wire (hist_of (run c evs))) = true).
  { apply forallb_forall. intros e He. apply ok_wire_entry_model. exact He. }
  rewrite H1, H2, H3, (ok_fence_model c evs Hc), (ok_drained_model c evs Hc), (ok_dispatch_model c evs Hc).
  reflexivity.
Qed.

Theorem final_model c evs :
  cfg_ok c -> (c_closeonerr c = true -> Forall nopanic evs) -> quiescent (run c evs) ->
  final_ok (c_closeonerr c) (c_nsess c) (hist_of (run c evs)) = true.
Proof.
  intros Hc Hnp Q. pose proof (order_run c evs Hc) as O. pose proof (acct_run c evs Hc) as A.
  assert (Hfin : forall s, accq (sends (run c evs)) s = finq (disps (run c evs)) s).
  { intro s. rewrite (o_acc c _ O s), (quiescent_pipe c _ _ A Q), qs_of_nil, app_nil_r. reflexivity. }
  unfold final_ok. apply andb_true_iff. split.
  - unfold complete_ok, hist_of. cbn [h_sends h_disps]. apply forallb_forall. intros x Hx.
    destruct (hs_acc x) eqn:Ha; [|reflexivity]. cbn [negb orb].
    pose proof (in_accq _ x Hx Ha) as Hin. rewrite Hfin in Hin.
    destruct (in_finq _ _ _ Hin) as [e [He [Hs Hq]]]. apply existsb_exists. exists e. split; [exact He|].
    rewrite Hs, Hq, Nat.eqb_refl, N.eqb_refl. reflexivity.
  - apply forallb_forall. intros s _. unfold ok_acks_final, hist_of. cbn [h_closed h_wire h_sends].
    destruct (c_closeonerr c) eqn:Hce; [|reflexivity]. cbn [negb orb].
    pose proof (strict_run c evs Hc Hce (Hnp eq_refl)) as S. destruct (s_ack _ S s) as [r [H1 H2]].
    destruct (sclosed (run c evs) s) eqn:Hcl; [reflexivity|]. cbn [orb].
    assert (r = []) as -> by (destruct r; [reflexivity|]; exfalso; assert (false = true) by (apply H2; discriminate); discriminate).
    rewrite Hfin, H1, app_nil_r. apply Nat.eqb_refl.
Qed.

(* c28_model_satisfies_monitor *)
Theorem model_satisfies_monitor c evs final :
  cfg_ok c -> (c_closeonerr c = true -> Forall nopanic evs) -> (final = true -> quiescent (run c evs)) ->
  monitor (c_closeonerr c) (c_nsess c) final true (hist_of (run c evs)) = 0.
Proof.
  intros Hc Hnp Hq. unfold monitor. rewrite (safety_model c evs Hc Hnp).
  destruct final; [|reflexivity]. rewrite (final_model c evs Hc Hnp (Hq eq_refl)). reflexivity.
Qed.

(* ... and [fdrain = true] is what the model does: from a quiescent state a
   DrainSends call without deadline returns nil *)
Theorem drain_returns_when_quiescent c evs d :
  cfg_ok c -> quiescent (run c evs) -> dpcs (run c evs) d = DIdle ->
  let st := run c (evs ++ [EDrainCall d false; EDrain d false; EDrain d false; EWaiter; EDrain d false]) in
  exists t0 t1, In (HDrain t0 t1 true) (drains st) /\ dpcs st d = DIdle.
Proof.
  intros Hc Q Hd. pose proof (acct_run c evs Hc) as A. pose proof (quiescent_admitted c _ A Q) as H0.
  unfold run. rewrite fold_left_app. fold (run c evs). set (s0 := run c evs) in *.
  cbn [fold_left]. rewrite !step_eq.
  (* EDrainCall *)
  set (s1 := stepT c (tick s0) (EDrainCall d false)).
  assert (E1 : dpcs s1 d = DSet (now s0 + 1) false /\ admitted s1 = 0 /\ drains s1 = drains s0).
  { subst s1. cbn [stepT]. sp. rewrite Hd. sp. rewrite upd_same. auto. }
  destruct E1 as [E1 [E1a E1d]].
  set (s2 := stepT c (tick s1) (EDrain d false)).
  assert (E2 : dpcs s2 d = DOnce (now s0 + 1) false /\ admitted s2 = 0 /\ drains s2 = drains s0).
  { subst s2. cbn [stepT]. unfold drain_step. sp. rewrite E1. sp. rewrite upd_same. auto. }
  destruct E2 as [E2 [E2a E2d]].
  set (s3 := stepT c (tick s2) (EDrain d false)).
  assert (E3 : dpcs s3 d = DWait (now s0 + 1) false /\ admitted s3 = 0 /\ dstarted s3 = true /\ drains s3 = drains s0).
  { subst s3. cbn [stepT]. unfold drain_step. sp. rewrite E2. sp. rewrite upd_same. auto. }
  destruct E3 as [E3 [E3a [E3s E3d]]].
  set (s4 := stepT c (tick s3) EWaiter).
  assert (E4 : dpcs s4 d = DWait (now s0 + 1) false /\ drained s4 = true /\ drains s4 = drains s0).
  { subst s4. cbn [stepT]. sp. rewrite E3s, E3a. cbn [andb N.eqb]. destruct (drained s3) eqn:Edr; cbn [negb andb]; sp; auto. }
  destruct E4 as [E4 [E4d E4r]].
  cbn [stepT]. unfold drain_step. sp. rewrite E4, E4d. unfold drain_return. sp.
  exists (now s0 + 1), (now s4 + 1). split; [apply in_or_app; right; left; reflexivity | apply upd_same].
Qed.

(* ---- state-level statements ---------------------------------------------------------------------- *)

(* after the drain step has closed admission the WaitGroup never grows again
   (no SEND passes the gate), and admission stays closed *)
Lemma stepT_closed c st e : closed st = true -> closed (stepT c st e) = true.
Proof.
  intro H. destruct e; cbn [stepT]; unfold sub_step, work_step, drain_step, drain_return, advance, drop_items;
    try rewrite H;
    repeat match goal with
           | |- context [match ?x with _ => _ end] => destruct x
           | |- context [if ?x then _ else _] => destruct x
           end; sp; try exact H; reflexivity.
Qed.

Lemma stepT_admitted c st e : closed st = true -> admitted (stepT c st e) <= admitted st.
Proof.
  intro H. destruct e; cbn [stepT]; unfold sub_step, work_step, drain_step, drain_return, advance, drop_items;
    try rewrite H;
    repeat match goal with
           | |- context [match ?x with _ => _ end] => destruct x
           | |- context [if ?x then _ else _] => destruct x
           end; sp; lia.
Qed.

Theorem no_admission_after_stop c evs more :
  closed (run c evs) = true ->
  closed (run c (evs ++ more)) = true /\ admitted (run c (evs ++ more)) <= admitted (run c evs).
Proof.
  unfold run. rewrite fold_left_app. generalize (fold_left (step c) evs init) as st. intros st H.
  revert st H. induction more as [|e l IH]; intros st H; cbn [fold_left]; [split; [exact H|lia]|].
  assert (H1 : closed (step c st e) = true) by (rewrite step_eq; apply stepT_closed; exact H).
  assert (H2 : admitted (step c st e) <= admitted st) by (rewrite step_eq; apply (stepT_admitted c (tick st) e H)).
  destruct (IH _ H1) as [H3 H4]. split; [exact H3|lia].
Qed.

(* once the terminal drain has completed, every accepted SEND has been handled *)
Theorem drained_all_handled c evs x :
  cfg_ok c -> drained (run c evs) = true -> In x (sends (run c evs)) -> hs_acc x = true ->
  exists e, In e (disps (run c evs)) /\ hd_s e = hs_s x /\ hd_q e = hs_q x.
Proof.
  intros Hc Hd Hx Ha. pose proof (order_run c evs Hc) as O. pose proof (acct_run c evs Hc) as A.
  destruct (a_drained c _ A Hd) as [_ H0].
  destruct (acct_zero c _ (shard_of c (hs_s x)) A H0) as [Hm Hw].
  pose proof (o_acc c _ O (hs_s x)) as Hacc. unfold pipe in Hacc. rewrite Hm, Hw in Hacc.
  cbn [app] in Hacc. rewrite qs_of_nil, app_nil_r in Hacc.
  pose proof (in_accq _ x Hx Ha) as Hin. rewrite Hacc in Hin. apply in_finq in Hin. exact Hin.
Qed.

(* in a quiescent state nothing is admitted and every accepted SEND has been handled *)
Theorem quiescent_all_handled c evs x :
  cfg_ok c -> quiescent (run c evs) -> In x (sends (run c evs)) -> hs_acc x = true ->
  admitted (run c evs) = 0 /\
  exists e, In e (disps (run c evs)) /\ hd_s e = hs_s x /\ hd_q e = hs_q x.
Proof.
  intros Hc Q Hx Ha. pose proof (order_run c evs Hc) as O. pose proof (acct_run c evs Hc) as A.
  split; [apply (quiescent_admitted c); assumption|].
  pose proof (o_acc c _ O (hs_s x)) as Hacc. rewrite (quiescent_pipe c _ _ A Q), qs_of_nil, app_nil_r in Hacc.
  pose proof (in_accq _ x Hx Ha) as Hin. rewrite Hacc in Hin. apply in_finq in Hin. exact Hin.
Qed.

(* a caller whose deadline expires changes nothing but its own bookkeeping *)
Theorem deadline_does_not_cancel c st d :
  let st' := stepT c st (EDrain d true) in
  mbox st' = mbox st /\ wpcs st' = wpcs st /\ spcs st' = spcs st /\ admitted st' = admitted st
  /\ sends st' = sends st /\ disps st' = disps st /\ wire st' = wire st /\ mclosed st' = mclosed st
  /\ (closed st = true -> closed st' = true) /\ (drained st = true -> drained st' = true).
Proof.
  cbn [stepT]. unfold drain_step, drain_return. destruct (dpcs st d); [| | |destruct (drained st) eqn:E];
    sp; repeat split; auto; congruence.
Qed.

(* the background drain is started once and its completion is never undone *)
Theorem drain_flags_monotone c st e :
  (dstarted st = true -> dstarted (stepT c st e) = true) /\
  (drained st = true -> drained (stepT c st e) = true).
Proof.
  split; intro H; destruct e; cbn [stepT]; unfold sub_step, work_step, drain_step, drain_return, advance, drop_items;
    try rewrite H;
    repeat match goal with
           | |- context [match ?x with _ => _ end] => destruct x
           | |- context [if ?x then _ else _] => destruct x
           end; sp; try exact H; reflexivity.
Qed.

(* the mailbox is closed only after the drain: its own admission never refuses
   (closed) an admitted SEND, and its queue bound is implied by the shard reservation *)
Theorem mailbox_closed_after_drain c evs :
  cfg_ok c -> mclosed (run c evs) = true -> drained (run c evs) = true /\ admitted (run c evs) = 0.
Proof.
  intros Hc H. pose proof (acct_run c evs Hc) as A. pose proof (a_mclosed c _ A H) as Hd.
  split; [exact Hd|]. apply (a_drained c _ A Hd).
Qed.

Lemma acks_subseq c evs s :
  cfg_ok c -> subseqb (ackq (wire (run c evs)) s) (accq (sends (run c evs)) s) = true.
Proof.
  intros Hc. pose proof (order_run c evs Hc) as O.
  rewrite (o_acc c _ O s). apply subseqb_app_r. apply (o_sub c _ O).
Qed.

Lemma acks_complete c evs s :
  cfg_ok c -> c_closeonerr c = true -> Forall nopanic evs ->
  quiescent (run c evs) -> sclosed (run c evs) s = false ->
  ackq (wire (run c evs)) s = accq (sends (run c evs)) s.
Proof.
  intros Hc Hce Hnp Q Hcl.
  pose proof (order_run c evs Hc) as O. pose proof (acct_run c evs Hc) as A.
  pose proof (strict_run c evs Hc Hce Hnp) as S. destruct (s_ack _ S s) as [r [H1 H2]].
  rewrite (o_acc c _ O s), (quiescent_pipe c _ _ A Q), qs_of_nil, app_nil_r, H1.
  destruct r; [rewrite app_nil_r; reflexivity|]. rewrite H2 in Hcl by discriminate. discriminate.
Qed.

Lemma outbound_fifo c evs :
  StronglySorted N.lt (map hw_t (wire (run c evs)))
  /\ (forall i, In i (issues (run c evs)) ->
        length (filter (issue_matches i) (wire (run c evs))) = if hi_ok i then 1%nat else 0%nat)
  /\ (forall e, In e (wire (run c evs)) ->
        hw_w e = 0 \/ exists i, In i (issues (run c evs)) /\ hi_ok i = true /\ issue_matches i e = true).
Proof.
  pose proof (wire_run c evs) as W. split; [apply (w_sorted _ _ W)|].
  split; [apply (w_issue_ok _ _ W) | apply (w_src _ _ W)].
Qed.

Lemma fence_realtime c evs x d :
  cfg_ok c -> In x (sends (run c evs)) -> hs_acc x = true -> In d (drains (run c evs)) ->
  hs_t0 x <= hr_t1 d.
Proof. intros Hc. apply (f_fence _ _ (fence_run c evs Hc)). Qed.

Lemma drain_completes c evs d x :
  cfg_ok c -> In d (drains (run c evs)) -> hr_ok d = true -> In x (sends (run c evs)) -> hs_acc x = true ->
  exists e, In e (disps (run c evs)) /\ hd_s e = hs_s x /\ hd_q e = hs_q x /\ hd_t e < hr_t1 d.
Proof. intros Hc. apply (d_done _ _ (done_run c evs Hc)). Qed.

(* the regenerated defaults: the strict hypothesis (CloseOnHandlerError) is the
   default, and the Gallina geometry functions reproduce the default executor *)
Lemma default_config :
  default_close_on_handler_error = true
  /\ logical_shard_count async_send_ordering_shards_per_worker default_async_send_workers
       default_async_send_queue_capacity = default_shards
  /\ shard_capacity default_async_send_queue_capacity default_shards = default_shard_capacity
  /\ (default_async_send_queue_capacity <=? default_shards * default_shard_capacity) = true
  /\ (0 <? default_async_send_batch_max_records) = true /\ (0 <? default_async_send_batch_max_bytes) = true.
Proof. vm_compute. repeat split; reflexivity. Qed.
