(* Proof/Membership_scan.v — the activation index stays consistent with the rows
   (exactly one entry per row, keyed by its current ActivatedAt), and a complete
   directory pass with arbitrary positive page sizes lists every row of the
   (slot, uid) exactly once in key order, also when mutations of other users
   are interleaved between the pages. *)
From WK Require Import Base.Base.
From Coq Require Import Sorting.Sorted.
From WK Require Import Gen.Consts_C16 Model.Membership Model.Membership_C16
  Proof.Membership Proof.Membership_C16 Proof.Membership_order.
Open Scope N_scope.

(* ---- identities ---------------------------------------------------------------------- *)

Lemma resolve_upsert_identity ex next :
  resolveUserChannelMembership ex true next = next
  \/ same_identity ex (resolveUserChannelMembership ex true next).
Proof.
  pose proof (resolve_upsert_spec ex next) as S. cbv zeta in S.
  destruct S as [(_ & _ & _ & E) | (_ & I & _)]; [left; exact E|right; exact I].
Qed.

Lemma resolve_ensure_identity ex inc :
  same_identity ex (resolveEnsuredUserChannelMembership ex true inc).
Proof.
  unfold resolveEnsuredUserChannelMembership. cbn [negb].
  destruct (m_source_version inc <=? m_source_version ex); [repeat split; reflexivity|].
  match goal with |- context [bump_updated_at ?x ?v] =>
    pose proof (bump_updated_at_fields x v) as F end.
  cbv zeta in F. destruct F as (F1 & F2 & F3 & _).
  destruct (m_source_version ex =? 0); m_cbn; repeat split; congruence.
Qed.

Lemma key_of_same_identity slot a b :
  same_identity a b -> membership_key slot b = membership_key slot a.
Proof. intros (U & C & T). unfold membership_key. rewrite U, C, T. reflexivity. Qed.

(* ---- the invariant ------------------------------------------------------------------------ *)

Record st_inv (st : mstate) : Prop := StInv {
  inv_entry_row : forall e, In e (st_index st) ->
    exists row, get_row st (entry_primary e) = Some row /\ activation_entry (ie_slot e) row = e;
  inv_row_entry : forall k row, get_row st k = Some row ->
    In (activation_entry (k_slot k) row) (st_index st)
    /\ membership_key (k_slot k) row = k /\ validateIdentity k = true;
  inv_nodup : NoDup (st_index st) }.

Lemma st_inv_empty : st_inv mstate_empty.
Proof. constructor; cbn; [intros e []|intros k row H; discriminate|constructor]. Qed.

Lemma index_del_In idx e x : In x (index_del idx e) <-> In x idx /\ x <> e.
Proof.
  unfold index_del. rewrite filter_In. split; intros [H1 H2]; split; auto.
  - intro C. subst. rewrite idx_entry_eqb_refl in H2. discriminate.
  - destruct (idx_entry_eqb x e) eqn:E; [|reflexivity]. apply idx_entry_eqb_eq in E. contradiction.
Qed.

Lemma index_del_NoDup idx e : NoDup idx -> NoDup (index_del idx e).
Proof. apply NoDup_filter. Qed.

Lemma index_put_In idx e x : In x (index_put idx e) <-> x = e \/ (In x idx /\ x <> e).
Proof. unfold index_put. cbn [In]. rewrite index_del_In. intuition. Qed.

Lemma index_put_NoDup idx e : NoDup idx -> NoDup (index_put idx e).
Proof.
  intro H. unfold index_put. constructor; [|apply index_del_NoDup; exact H].
  intro C. apply index_del_In in C. destruct C as [_ C]. apply C. reflexivity.
Qed.

Lemma st_inv_same st st' :
  st_rows st' = st_rows st -> st_index st' = st_index st -> st_inv st -> st_inv st'.
Proof.
  intros Er Ei [I1 I2 I3]. unfold get_row in *. constructor; rewrite ?Er, ?Ei; unfold get_row; rewrite ?Er; assumption.
Qed.

(* writing row [next] under key k (whose row was [ex]) *)
Lemma stage_inv st k ex next :
  st_inv st -> get_row st k = ex -> membership_key (k_slot k) next = k -> validateIdentity k = true ->
  st_inv (stageUserChannelMembership st k ex next).
Proof.
  intros [I1 I2 I3] Hex Hkey Hval.
  set (idx' := match ex with
               | Some old => index_del (st_index st) (activation_entry (k_slot k) old)
               | None => st_index st
               end).
  assert (Hidx' : forall x, In x idx' <->
            In x (st_index st) /\ (forall old, ex = Some old -> x <> activation_entry (k_slot k) old)).
  { intro x. unfold idx'. destruct ex as [old|].
    - rewrite index_del_In. split.
      + intros [H1 H2]. split; [exact H1|]. intros old' E. inversion E; subst. exact H2.
      + intros [H1 H2]. split; [exact H1|]. apply H2. reflexivity.
    - split; [intro H; split; [exact H|intros old E; discriminate]|intros [H _]; exact H]. }
  assert (Hnd' : NoDup idx').
  { unfold idx'. destruct ex; [apply index_del_NoDup|]; exact I3. }
  constructor.
  - (* entries point to matching rows *)
    intros e He. unfold stageUserChannelMembership in He. cbn [st_index] in He. fold idx' in He.
    apply index_put_In in He. rewrite get_row_stage.
    destruct He as [-> | [He Hne]].
    + assert (Hp : entry_primary (activation_entry (k_slot k) next) = k) by exact Hkey.
      rewrite Hp, mkey_eqb_refl. exists next. split; reflexivity.
    + apply Hidx' in He. destruct He as [He Hold].
      destruct (I1 e He) as (row & Hrow & Hent).
      destruct (mkey_eqb k (entry_primary e)) eqn:E.
      * exfalso. apply mkey_eqb_eq in E. rewrite <- E in Hrow.
        apply (Hold row); [congruence|].
        rewrite <- Hent. f_equal. rewrite E. reflexivity.
      * exists row. split; assumption.
  - (* rows have their entry *)
    intros k' row' Hrow'. rewrite get_row_stage in Hrow'.
    unfold stageUserChannelMembership. cbn [st_index]. fold idx'.
    destruct (mkey_eqb k k') eqn:E.
    + apply mkey_eqb_eq in E. subst k'. inversion Hrow'; subst row'.
      split; [apply index_put_In; left; reflexivity|]. split; assumption.
    + destruct (I2 k' row' Hrow') as (Hin & Hk' & Hv'). split; [|split; assumption].
      apply mkey_eqb_neq in E.
      assert (Hprim : entry_primary (activation_entry (k_slot k') row') = k') by exact Hk'.
      apply index_put_In. right. split.
      * apply Hidx'. split; [exact Hin|]. intros old Eold C.
        apply E. rewrite <- Hprim, C.
        change (entry_primary (activation_entry (k_slot k) old)) with (membership_key (k_slot k) old).
        symmetry. apply (I2 k old). congruence.
      * intro C. apply E. rewrite <- Hprim, C.
        change (entry_primary (activation_entry (k_slot k) next)) with (membership_key (k_slot k) next).
        symmetry. exact Hkey.
  - unfold stageUserChannelMembership. cbn [st_index]. fold idx'. apply index_put_NoDup. exact Hnd'.
Qed.

Lemma delete_inv st k : st_inv st -> st_inv (deleteUserChannelMembership st k).
Proof.
  intros [I1 I2 I3]. unfold deleteUserChannelMembership.
  destruct (get_row st k) as [old|] eqn:Hold; [|constructor; assumption].
  assert (Hget : forall k', get_row (MState (assoc_del (st_rows st) k)
                                (index_del (st_index st) (activation_entry (k_slot k) old)) (st_cmd st)) k'
                            = if mkey_eqb k k' then None else get_row st k').
  { intro k'. unfold get_row. cbn [st_rows]. apply assoc_get_del. }
  destruct (I2 k old Hold) as (_ & Hkold & _).
  constructor.
  - intros e He. cbn [st_index] in He. apply index_del_In in He. destruct He as [He Hne].
    destruct (I1 e He) as (row & Hrow & Hent). rewrite Hget.
    destruct (mkey_eqb k (entry_primary e)) eqn:E.
    + exfalso. apply mkey_eqb_eq in E. rewrite <- E in Hrow. apply Hne.
      rewrite <- Hent. assert (row = old) as -> by congruence. f_equal. rewrite E. reflexivity.
    + exists row. split; assumption.
  - intros k' row' Hrow'. rewrite Hget in Hrow'. destruct (mkey_eqb k k') eqn:E; [discriminate|].
    destruct (I2 k' row' Hrow') as (Hin & Hk' & Hv'). split; [|split; assumption].
    cbn [st_index]. apply index_del_In. split; [exact Hin|].
    apply mkey_eqb_neq in E. intro C. apply E.
    assert (Hprim : entry_primary (activation_entry (k_slot k') row') = k') by exact Hk'.
    rewrite <- Hprim, C. symmetry. exact Hkold.
  - cbn [st_index]. apply index_del_NoDup. exact I3.
Qed.

Lemma resolve_absent_upsert m : resolveUserChannelMembership m false m = m.
Proof. reflexivity. Qed.
Lemma resolve_absent_ensure m : resolveEnsuredUserChannelMembership m false m = m.
Proof. reflexivity. Qed.

Lemma upsertWith_inv resolve st slot m :
  (forall ex, resolve ex true m = m \/ same_identity ex (resolve ex true m)) ->
  resolve m false m = m ->
  st_inv st -> validateIdentity (membership_key slot m) = true ->
  st_inv (snd (upsertWith resolve st slot m)).
Proof.
  intros Hid Habs Hinv Hval. unfold upsertWith.
  destruct (get_row st (membership_key slot m)) as [ex|] eqn:Hg.
  - destruct (membership_eqb ex (resolve ex true m)); cbn [snd]; [exact Hinv|].
    apply stage_inv; auto. cbn [membership_key k_slot].
    destruct (Hid ex) as [E|I]; [rewrite E; reflexivity|].
    change (membership_key slot (resolve ex true m) = membership_key slot m).
    rewrite (key_of_same_identity slot _ _ I).
    exact (proj1 (proj2 (inv_row_entry st Hinv _ _ Hg))).
  - cbn [snd]. apply stage_inv; auto. rewrite Habs. reflexivity.
Qed.

Lemma mutate_inv st k f :
  closure_ok f -> st_inv st -> st_inv (snd (mutateUserChannelMembership st k f)).
Proof.
  intros Hf Hinv. unfold mutateUserChannelMembership.
  destruct (get_row st k) as [ex|] eqn:Hg; [|exact Hinv].
  destruct (m_tombstone ex); [exact Hinv|].
  destruct (membership_eqb (f ex) ex); cbn [snd]; [exact Hinv|].
  destruct (inv_row_entry st Hinv _ _ Hg) as (_ & Hk & Hv).
  apply stage_inv; auto.
  destruct (Hf ex) as (_ & I & _). cbv zeta in I.
  rewrite (key_of_same_identity (k_slot k) _ _ I). exact Hk.
Qed.

Lemma mutate_cmd_inv st k f : st_inv st -> st_inv (snd (mutateUserCMDChannelMembership st k f)).
Proof.
  intro Hinv. unfold mutateUserCMDChannelMembership.
  destruct (get_cmd st k) as [ex|]; [|exact Hinv].
  destruct (c_tombstone ex); [exact Hinv|].
  destruct (cmd_membership_eqb (f ex) ex); cbn [snd]; [exact Hinv|].
  eapply st_inv_same; [| |exact Hinv]; reflexivity.
Qed.

Lemma mut_apply_inv st u : st_inv st -> mut_valid u = true -> st_inv (snd (mut_apply st u)).
Proof.
  intros Hinv Hval. destruct u; cbn [mut_apply mut_valid] in *.
  - apply upsertWith_inv; auto. intro ex. apply resolve_upsert_identity.
  - apply upsertWith_inv; auto. intro ex. right. apply resolve_ensure_identity.
  - apply mutate_inv; [apply advanceReadSeq_ok|exact Hinv].
  - apply mutate_inv; [apply activate_ok|exact Hinv].
  - apply mutate_inv; [apply activate_ok|exact Hinv].
  - apply mutate_inv; [apply hide_ok|exact Hinv].
  - cbn [snd]. apply delete_inv. exact Hinv.
  - destruct (get_cmd st (cmd_membership_key slot c)) as [ex|].
    + destruct (cmd_membership_eqb ex (resolveUserCMDChannelMembership ex true c)); cbn [snd]; [exact Hinv|].
      eapply st_inv_same; [| |exact Hinv]; reflexivity.
    + cbn [snd]. eapply st_inv_same; [| |exact Hinv]; reflexivity.
  - apply mutate_cmd_inv. exact Hinv.
  - apply mutate_cmd_inv. exact Hinv.
  - apply mutate_cmd_inv. exact Hinv.
  - apply mutate_cmd_inv. exact Hinv.
Qed.

Lemma direct_apply_inv st u : st_inv st -> st_inv (snd (direct_apply st u)).
Proof.
  intro Hinv. unfold direct_apply. destruct (mut_valid u) eqn:V; [|exact Hinv].
  apply mut_apply_inv; assumption.
Qed.

Lemma batch_build_inv : forall ops w e w', st_inv w -> batch_build w ops = (e, w') -> st_inv w'.
Proof.
  induction ops as [|u r IH]; intros w e w' Hinv; cbn [batch_build].
  - intro H. inversion H; subst. exact Hinv.
  - destruct (negb (mut_valid u)) eqn:V.
    + apply IH. exact Hinv.
    + apply negb_false_iff in V. destruct (mut_apply w u) as [e1 w1] eqn:Hu.
      destruct (db_err_eqb e1 ENone).
      * apply IH. pose proof (mut_apply_inv w u Hinv V) as H1. rewrite Hu in H1. exact H1.
      * intro H. inversion H; subst. exact Hinv.
Qed.

(* ---- the entries of one (slot, uid) prefix ------------------------------------------------------ *)

Definition belongs (slot : N) (uid : bytes) (e : idx_entry) : bool :=
  (ie_slot e =? slot) && bytes_eqb (ie_uid e) uid.

Lemma belongs_prefix slot uid e : belongs slot uid e = true <-> same_prefix slot uid e.
Proof.
  unfold belongs, same_prefix. rewrite andb_true_iff, N.eqb_eq. split; intros [H1 H2]; split; auto.
  - apply bytes_eqb_eq. exact H2.
  - apply bytes_eqb_eq. exact H2.
Qed.

Lemma uid_entries_unfold st slot uid :
  uid_entries st slot uid = entry_sort (filter (belongs slot uid) (st_index st)).
Proof. reflexivity. Qed.

Lemma uid_entries_In st slot uid e :
  In e (uid_entries st slot uid) <-> In e (st_index st) /\ same_prefix slot uid e.
Proof. rewrite uid_entries_unfold, entry_sort_In, filter_In, belongs_prefix. reflexivity. Qed.

Lemma uid_entries_sorted st slot uid : st_inv st -> StronglySorted elt (uid_entries st slot uid).
Proof.
  intro Hinv. rewrite uid_entries_unfold. apply (entry_sort_sorted slot uid).
  - apply Forall_forall. intros x Hx. apply filter_In in Hx. apply belongs_prefix. apply Hx.
  - apply NoDup_filter. apply (inv_nodup st Hinv).
Qed.

(* an entry whose row exists, matches it, and belongs to (slot, uid) *)
Definition entry_good (st : mstate) (slot : N) (uid : bytes) (e : idx_entry) : Prop :=
  same_prefix slot uid e
  /\ exists row, entry_row st e = Some row /\ activation_entry slot row = e
                 /\ validateKeyString (m_channel_id row) = true.

Lemma uid_entries_good st slot uid :
  st_inv st -> Forall (entry_good st slot uid) (uid_entries st slot uid).
Proof.
  intro Hinv. apply Forall_forall. intros e He. apply uid_entries_In in He. destruct He as [He Hp].
  split; [exact Hp|]. destruct (inv_entry_row st Hinv e He) as (row & Hrow & Hent).
  destruct (inv_row_entry st Hinv _ _ Hrow) as (_ & Hk & Hv).
  exists row. unfold entry_row. rewrite Hrow, Hent, idx_entry_eqb_refl.
  destruct Hp as [Hs _]. split; [reflexivity|]. split; [rewrite <- Hs; exact Hent|].
  unfold validateIdentity in Hv. apply andb_true_iff in Hv. destruct Hv as [_ Hv].
  assert (k_channel_id (entry_primary e) = m_channel_id row) as E.
  { rewrite <- Hk. reflexivity. }
  rewrite <- E. exact Hv.
Qed.

Lemma entry_rows_app st a b : entry_rows st (a ++ b) = entry_rows st a ++ entry_rows st b.
Proof.
  induction a as [|e a IH]; [reflexivity|]. cbn [app entry_rows].
  destruct (entry_row st e); [cbn [app]; f_equal|]; exact IH.
Qed.

Lemma entry_rows_good_length st slot uid l :
  Forall (entry_good st slot uid) l -> length (entry_rows st l) = length l.
Proof.
  induction 1 as [|e l (Hp & row & Hr & _) _ IH]; [reflexivity|].
  cbn [entry_rows]. rewrite Hr. cbn [length]. f_equal. exact IH.
Qed.

Lemma entry_rows_firstn st slot uid : forall n l,
  Forall (entry_good st slot uid) l -> firstn n (entry_rows st l) = entry_rows st (firstn n l).
Proof.
  induction n as [|n IH]; intros l Hl; [reflexivity|].
  destruct l as [|e l]; [reflexivity|]. inversion Hl as [|? ? (Hp & row & Hr & _) Hl']; subst.
  cbn [entry_rows firstn]. rewrite Hr. cbn [firstn]. f_equal. apply IH. exact Hl'.
Qed.

Lemma In_firstn {A} (x : A) : forall n l, In x (firstn n l) -> In x l.
Proof.
  induction n as [|n IH]; intros l H; [destruct H|].
  destruct l as [|y l]; [destruct H|]. cbn [firstn In] in *. destruct H as [H|H]; [left; exact H|right; apply IH; exact H].
Qed.

Definition entry_cursor (e : idx_entry) : page_cursor :=
  PageCursor (ie_activated_at e) (ie_channel_id e) (ie_channel_type e).

Lemma cursor_entry_entry_cursor slot uid e :
  same_prefix slot uid e -> cursor_entry slot uid (entry_cursor e) = e.
Proof. intros [Hs Hu]. destruct e. cbn in *. subst. reflexivity. Qed.

(* the cursor a page ending with entry e returns *)
Lemma entry_rows_last st slot uid l e :
  Forall (entry_good st slot uid) (l ++ [e]) ->
  exists row rest, rev (entry_rows st (l ++ [e])) = row :: rest /\ row_cursor row = entry_cursor e.
Proof.
  intro H. apply Forall_app in H. destruct H as [_ He]. inversion He as [|? ? Hge0 _]; subst. destruct Hge0 as (Hp & row & Hr & Hent & _).
  rewrite entry_rows_app. cbn [entry_rows]. rewrite Hr. rewrite rev_app_distr. cbn [rev app].
  exists row, (rev (entry_rows st l)). split; [reflexivity|].
  unfold row_cursor, entry_cursor. rewrite <- Hent. reflexivity.
Qed.

(* ---- one page -------------------------------------------------------------------------------------- *)

(* the cursor is either the start of the pass or the key of the last listed entry *)
Definition aligned (P : list idx_entry) (cursor : page_cursor) : Prop :=
  (P = [] /\ cursor = page_cursor_zero)
  \/ (exists P' e, P = P' ++ [e] /\ cursor = entry_cursor e).

Lemma validateKeyString_nonempty s : validateKeyString s = true -> s <> [].
Proof. destruct s; [discriminate|discriminate]. Qed.

Lemma entry_cursor_not_zero st slot uid e :
  entry_good st slot uid e -> page_cursor_is_zero (entry_cursor e) = false.
Proof.
  intros (_ & row & _ & Hent & Hv). unfold page_cursor_is_zero, entry_cursor. cbn [pc_activated_at pc_channel_id pc_channel_type].
  rewrite <- Hent. cbn [activation_entry ie_channel_id].
  destruct (m_channel_id row) eqn:E; [discriminate|].
  rewrite andb_false_r. reflexivity.
Qed.

Lemma entry_cursor_valid st slot uid e :
  entry_good st slot uid e -> (0 <= ie_activated_at e)%Z ->
  validateUserChannelMembershipCursor (entry_cursor e) = true.
Proof.
  intros Hg Hact. unfold validateUserChannelMembershipCursor.
  rewrite (entry_cursor_not_zero st slot uid e Hg).
  destruct Hg as (_ & row & _ & Hent & Hv). unfold entry_cursor. cbn [pc_activated_at pc_channel_id].
  rewrite <- Hent in *. cbn [activation_entry ie_channel_id ie_activated_at] in *.
  destruct (m_channel_id row) eqn:E; [discriminate|].
  rewrite Hv. apply Z.ltb_ge in Hact. rewrite Hact. reflexivity.
Qed.

Lemma page_spec st slot uid cursor limit P S :
  st_inv st ->
  validateKeyString uid = true -> (0 < limit)%Z ->
  uid_entries st slot uid = P ++ S -> aligned P cursor ->
  (forall e, In e (uid_entries st slot uid) -> (0 <= ie_activated_at e)%Z) ->
  let n := Z.to_nat limit in
  exists next,
    listUserChannelMembershipPage st slot uid cursor limit
    = (entry_rows st (firstn n S), next, Nat.leb (length S) n, PageOk)
    /\ (forall l e, firstn n S = l ++ [e] -> next = entry_cursor e).
Proof.
  intros Hinv Huid Hlim HM Hal Hact n.
  pose proof (uid_entries_sorted st slot uid Hinv) as Hsorted.
  pose proof (uid_entries_good st slot uid Hinv) as Hgood.
  rewrite HM in Hsorted, Hgood.
  assert (HgS : Forall (entry_good st slot uid) S) by (apply Forall_app in Hgood; apply Hgood).
  assert (Hcur : validateUserChannelMembershipCursor cursor = true
                 /\ (if page_cursor_is_zero cursor then uid_entries st slot uid
                     else filter (fun e => entry_ltb (cursor_entry slot uid cursor) e) (uid_entries st slot uid)) = S).
  { destruct Hal as [[-> ->] | (P' & e & -> & ->)].
    - split; [reflexivity|]. cbn [page_cursor_is_zero page_cursor_zero pc_activated_at pc_channel_id pc_channel_type].
      cbn. exact HM.
    - assert (Hge : entry_good st slot uid e).
      { apply Forall_app in Hgood. destruct Hgood as [Hg _]. apply Forall_app in Hg. destruct Hg as [_ Hg].
        inversion Hg; assumption. }
      split.
      + apply (entry_cursor_valid st slot uid e Hge). apply Hact. rewrite HM.
        apply in_or_app. left. apply in_or_app. right. left. reflexivity.
      + rewrite (entry_cursor_not_zero st slot uid e Hge).
        rewrite (cursor_entry_entry_cursor slot uid e (proj1 Hge)).
        rewrite HM. rewrite <- app_assoc. cbn [app].
        change (fun e0 => entry_ltb e e0) with (entry_ltb e).
        apply filter_after_last. rewrite <- app_assoc in Hsorted. exact Hsorted. }
  destruct Hcur as [Hval Hes].
  unfold listUserChannelMembershipPage.
  rewrite Huid, Hval. cbn [negb orb].
  assert ((limit <=? 0)%Z = false) as -> by (apply Z.leb_gt; exact Hlim).
  rewrite Hes. fold n.
  rewrite (entry_rows_good_length st slot uid S HgS).
  rewrite (entry_rows_firstn st slot uid n S HgS).
  eexists. split; [reflexivity|].
  intros l e Hle. rewrite Hle.
  assert (Hgl : Forall (entry_good st slot uid) (l ++ [e])).
  { rewrite <- Hle. apply Forall_forall. intros x Hx. rewrite Forall_forall in HgS. apply HgS.
    eapply In_firstn; exact Hx. }
  destruct (entry_rows_last st slot uid l e Hgl) as (row & rest & Hrev & Hc).
  rewrite Hrev. exact Hc.
Qed.

(* ---- mutations of other users leave the scanned prefix alone ------------------------------------------ *)

Definition mut_mkey (u : mut) : option mkey :=
  match u with
  | MUpsert slot m | MEnsure slot m => Some (membership_key slot m)
  | MAdvanceRead k _ _ | MSetActivated k _ _ | MActivate k _ _ | MHide k _ _ | MDelete k => Some k
  | _ => None
  end.

Lemma mut_mkey_uid u k : mut_mkey u = Some k -> k_uid k = mut_uid u.
Proof. destruct u; cbn; intro H; inversion H; reflexivity. Qed.

Lemma mut_apply_shape st u :
  let st' := snd (mut_apply st u) in
  (st_rows st' = st_rows st /\ st_index st' = st_index st)
  \/ (exists k next, mut_mkey u = Some k /\ st' = stageUserChannelMembership st k (get_row st k) next)
  \/ (exists k, mut_mkey u = Some k /\ st' = deleteUserChannelMembership st k).
Proof.
  assert (Up : forall resolve slot m,
            let st' := snd (upsertWith resolve st slot m) in
            (st_rows st' = st_rows st /\ st_index st' = st_index st)
            \/ (exists k next, Some (membership_key slot m) = Some k
                               /\ st' = stageUserChannelMembership st k (get_row st k) next)
            \/ (exists k, Some (membership_key slot m) = Some k /\ st' = deleteUserChannelMembership st k)).
  { intros resolve slot m. unfold upsertWith.
    destruct (get_row st (membership_key slot m)) as [ex|] eqn:Hg.
    - destruct (membership_eqb ex (resolve ex true m)); cbn [snd]; [left; split; reflexivity|].
      right. left. exists (membership_key slot m), (resolve ex true m). rewrite Hg. split; reflexivity.
    - cbn [snd]. right. left. exists (membership_key slot m), (resolve m false m). rewrite Hg. split; reflexivity. }
  assert (Mu : forall k f,
            let st' := snd (mutateUserChannelMembership st k f) in
            (st_rows st' = st_rows st /\ st_index st' = st_index st)
            \/ (exists k0 next, Some k = Some k0 /\ st' = stageUserChannelMembership st k0 (get_row st k0) next)
            \/ (exists k0, Some k = Some k0 /\ st' = deleteUserChannelMembership st k0)).
  { intros k f. unfold mutateUserChannelMembership.
    destruct (get_row st k) as [ex|] eqn:Hg; [|left; split; reflexivity].
    destruct (m_tombstone ex); [left; split; reflexivity|].
    destruct (membership_eqb (f ex) ex); cbn [snd]; [left; split; reflexivity|].
    right. left. exists k, (f ex). rewrite Hg. split; reflexivity. }
  assert (Cm : forall k f,
            let st' := snd (mutateUserCMDChannelMembership st k f) in
            st_rows st' = st_rows st /\ st_index st' = st_index st).
  { intros k f. unfold mutateUserCMDChannelMembership.
    destruct (get_cmd st k) as [ex|]; [|split; reflexivity].
    destruct (c_tombstone ex); [split; reflexivity|].
    destruct (cmd_membership_eqb (f ex) ex); split; reflexivity. }
  destruct u; cbn [mut_apply mut_mkey]; try apply Up; try apply Mu; try (left; apply Cm).
  - cbn [snd]. right. right. exists k. split; reflexivity.
  - left. destruct (get_cmd st (cmd_membership_key slot c)) as [ex|].
    + destruct (cmd_membership_eqb ex (resolveUserCMDChannelMembership ex true c)); split; reflexivity.
    + split; reflexivity.
Qed.

Lemma filter_belongs_del slot uid idx e :
  belongs slot uid e = false -> filter (belongs slot uid) (index_del idx e) = filter (belongs slot uid) idx.
Proof.
  intro Hb. unfold index_del. induction idx as [|x r IH]; [reflexivity|].
  cbn [filter]. destruct (idx_entry_eqb x e) eqn:E; cbn [negb].
  - apply idx_entry_eqb_eq in E. subst x. rewrite Hb. exact IH.
  - cbn [filter]. destruct (belongs slot uid x); [f_equal|]; exact IH.
Qed.

Lemma filter_belongs_put slot uid idx e :
  belongs slot uid e = false -> filter (belongs slot uid) (index_put idx e) = filter (belongs slot uid) idx.
Proof.
  intro Hb. unfold index_put. cbn [filter]. rewrite Hb. apply filter_belongs_del. exact Hb.
Qed.

Lemma entry_row_same_rows st st' e :
  get_row st' (entry_primary e) = get_row st (entry_primary e) -> entry_row st' e = entry_row st e.
Proof. intro H. unfold entry_row. rewrite H. reflexivity. Qed.

Lemma belongs_other_uid slot uid s m k :
  k_uid k <> uid -> membership_key s m = k -> belongs slot uid (activation_entry s m) = false.
Proof.
  intros Hne Hk. unfold belongs. cbn [activation_entry ie_uid ie_slot].
  assert (m_uid m = k_uid k) as -> by (rewrite <- Hk; reflexivity).
  destruct (bytes_eqb (k_uid k) uid) eqn:E; [|apply andb_false_r].
  apply bytes_eqb_eq in E. contradiction.
Qed.

Lemma other_uid_frame st u slot uid :
  st_inv st -> bytes_eqb (mut_uid u) uid = false ->
  let st' := snd (direct_apply st u) in
  filter (belongs slot uid) (st_index st') = filter (belongs slot uid) (st_index st)
  /\ (forall e, ie_uid e = uid -> entry_row st' e = entry_row st e).
Proof.
  intros Hinv Hne. unfold direct_apply. destruct (mut_valid u) eqn:V; [|split; reflexivity].
  pose proof (mut_apply_inv st u Hinv V) as Hinv'.
  assert (Hneq : mut_uid u <> uid).
  { intro C. rewrite C, bytes_eqb_refl in Hne. discriminate. }
  destruct (mut_apply_shape st u) as [[Er Ei] | [(k & next & Hk & Est) | (k & Hk & Est)]].
  - split; [rewrite Ei; reflexivity|]. intros e _. unfold entry_row, get_row. rewrite Er. reflexivity.
  - set (st' := snd (mut_apply st u)) in *.
    assert (Hku : k_uid k <> uid) by (rewrite (mut_mkey_uid u k Hk); exact Hneq).
    assert (Hnext : get_row st' k = Some next) by (rewrite Est, get_row_stage, mkey_eqb_refl; reflexivity).
    destruct (inv_row_entry st' Hinv' k next Hnext) as (_ & Hknext & _).
    split.
    + rewrite Est. unfold stageUserChannelMembership. cbn [st_index].
      rewrite filter_belongs_put by (eapply belongs_other_uid; eassumption).
      destruct (get_row st k) as [old|] eqn:Hold; [|reflexivity].
      apply filter_belongs_del. eapply belongs_other_uid; [exact Hku|].
      exact (proj1 (proj2 (inv_row_entry st Hinv k old Hold))).
    + intros e He. apply entry_row_same_rows. rewrite Est, get_row_stage.
      destruct (mkey_eqb k (entry_primary e)) eqn:E; [|reflexivity].
      apply mkey_eqb_eq in E. exfalso. apply Hku. rewrite E. exact He.
  - set (st' := snd (mut_apply st u)) in *.
    assert (Hku : k_uid k <> uid) by (rewrite (mut_mkey_uid u k Hk); exact Hneq).
    split.
    + rewrite Est. unfold deleteUserChannelMembership.
      destruct (get_row st k) as [old|] eqn:Hold; [|reflexivity]. cbn [st_index].
      apply filter_belongs_del. eapply belongs_other_uid; [exact Hku|].
      exact (proj1 (proj2 (inv_row_entry st Hinv k old Hold))).
    + intros e He. apply entry_row_same_rows. rewrite Est, get_row_delete.
      destruct (mkey_eqb k (entry_primary e)) eqn:E; [|reflexivity].
      apply mkey_eqb_eq in E. exfalso. apply Hku. rewrite E. exact He.
Qed.

Lemma entry_rows_ext st st' l :
  (forall e, In e l -> entry_row st' e = entry_row st e) -> entry_rows st' l = entry_rows st l.
Proof.
  induction l as [|e l IH]; intro H; [reflexivity|].
  cbn [entry_rows]. rewrite (H e (or_introl eq_refl)), IH; [reflexivity|].
  intros x Hx. apply H. right. exact Hx.
Qed.

(* ---- the pass ------------------------------------------------------------------------------------------- *)

Lemma nth_limit_pos limits i : Forall (fun l => (0 < l)%Z) limits -> (0 < nth_limit limits i)%Z.
Proof.
  intro H. unfold nth_limit. destruct limits as [|l0 r] eqn:E; [lia|]. rewrite <- E in *.
  destruct (nth_in_or_default (Nat.modulo i (length limits)) limits 1%Z) as [Hin|Hd].
  - rewrite Forall_forall in H. apply H. exact Hin.
  - rewrite Hd. lia.
Qed.

Lemma pages_well_formed_cons rows next ps :
  pages_well_formed ps = true ->
  pages_well_formed (PageObs rows next false PageOk :: ps) = true.
Proof. destruct ps as [|p r]; [discriminate|]. intro H. cbn [pages_well_formed negb andb page_err_eqb]. exact H. Qed.

Lemma scan_pass_spec slot uid limits :
  validateKeyString uid = true -> Forall (fun l => (0 < l)%Z) limits ->
  forall fuel st between i cursor P S ps es st',
    st_inv st ->
    Forall (fun u => bytes_eqb (mut_uid u) uid = false) between ->
    uid_entries st slot uid = P ++ S -> aligned P cursor ->
    (forall e, In e (uid_entries st slot uid) -> (0 <= ie_activated_at e)%Z) ->
    (length S < fuel)%nat ->
    scan_pass fuel st slot uid limits between i cursor = (ps, es, st') ->
    pages_well_formed ps = true /\ pages_rows ps = entry_rows st S /\ st_inv st'.
Proof.
  intros Huid Hlimits. induction fuel as [|fuel IH];
    intros st between i cursor P S ps es st' Hinv Hbetween HM Hal Hact Hlen Hpass; [lia|].
  pose proof (nth_limit_pos limits i Hlimits) as Hlim.
  destruct (page_spec st slot uid cursor (nth_limit limits i) P S Hinv Huid Hlim HM Hal Hact)
    as (next & Hpage & Hnext).
  set (n := Z.to_nat (nth_limit limits i)) in *.
  assert (Hn : (1 <= n)%nat) by (unfold n; lia).
  cbn [scan_pass] in Hpass. rewrite Hpage in Hpass.
  destruct (Nat.leb (length S) n) eqn:Hdone.
  - (* last page *)
    inversion Hpass; subst. apply Nat.leb_le in Hdone.
    split; [reflexivity|]. split; [|exact Hinv].
    cbn [pages_rows]. rewrite app_nil_r, firstn_all2 by exact Hdone. reflexivity.
  - apply Nat.leb_gt in Hdone.
    assert (HS : S = firstn n S ++ skipn n S) by (symmetry; apply firstn_skipn).
    assert (Hlen1 : length (firstn n S) = n) by (apply firstn_length_le; lia).
    destruct (exists_last (l := firstn n S)) as (l & e & Hle).
    { intro C. rewrite C in Hlen1. cbn in Hlen1. lia. }
    specialize (Hnext l e Hle). subst next.
    assert (Hlen2 : (length (skipn n S) < fuel)%nat).
    { rewrite skipn_length. lia. }
    assert (Hgood : Forall (entry_good st slot uid) (uid_entries st slot uid))
      by (apply uid_entries_good; exact Hinv).
    assert (Hal' : aligned (P ++ firstn n S) (entry_cursor e)).
    { right. exists (P ++ l), e. rewrite Hle, app_assoc. split; reflexivity. }
    assert (HM' : uid_entries st slot uid = (P ++ firstn n S) ++ skipn n S).
    { rewrite <- app_assoc, <- HS. exact HM. }
    assert (Huids : forall x, In x (uid_entries st slot uid) -> ie_uid x = uid).
    { intros x Hx. apply uid_entries_In in Hx. apply Hx. }
    destruct between as [|u between'].
    + destruct (scan_pass fuel st slot uid limits [] (Datatypes.S i) (entry_cursor e)) as [[ps' es'] st1] eqn:Hrec.
      inversion Hpass; subst.
      destruct (IH st [] (Datatypes.S i) (entry_cursor e) (P ++ firstn n S) (skipn n S) ps' es st'
                   Hinv Hbetween HM' Hal' Hact Hlen2 Hrec) as (Hwf & Hrows & Hinv1).
      split; [apply pages_well_formed_cons; exact Hwf|]. split; [|exact Hinv1].
      cbn [pages_rows]. rewrite Hrows, <- entry_rows_app, <- HS. reflexivity.
    + inversion Hbetween as [|? ? Hu Hbetween']; subst.
      destruct (direct_apply st u) as [eu st1] eqn:Hdir.
      destruct (scan_pass fuel st1 slot uid limits between' (Datatypes.S i) (entry_cursor e)) as [[ps' es'] st2] eqn:Hrec.
      inversion Hpass; subst.
      pose proof (other_uid_frame st u slot uid Hinv Hu) as Hframe. cbv zeta in Hframe.
      rewrite Hdir in Hframe. cbn [snd] in Hframe. destruct Hframe as [Hidx Hrows1].
      assert (Hinv1 : st_inv st1).
      { pose proof (direct_apply_inv st u Hinv) as H1. rewrite Hdir in H1. exact H1. }
      assert (HMeq : uid_entries st1 slot uid = uid_entries st slot uid).
      { rewrite !uid_entries_unfold, Hidx. reflexivity. }
      assert (Hact1 : forall x, In x (uid_entries st1 slot uid) -> (0 <= ie_activated_at x)%Z).
      { rewrite HMeq. exact Hact. }
      assert (HM1 : uid_entries st1 slot uid = (P ++ firstn n S) ++ skipn n S) by (rewrite HMeq; exact HM').
      destruct (IH st1 between' (Datatypes.S i) (entry_cursor e) (P ++ firstn n S) (skipn n S) ps' es' st'
                   Hinv1 Hbetween' HM1 Hal' Hact1 Hlen2 Hrec) as (Hwf & Hrows & Hinv2).
      split; [apply pages_well_formed_cons; exact Hwf|]. split; [|exact Hinv2].
      cbn [pages_rows]. rewrite Hrows.
      rewrite (entry_rows_ext st st1 (skipn n S)).
      * rewrite <- entry_rows_app, <- HS. reflexivity.
      * intros x Hx. apply Hrows1. apply Huids. rewrite HM.
        apply in_or_app. right. rewrite HS. apply in_or_app. right. exact Hx.
Qed.

(* ---- the listing computed from Get observations equals the index listing ------------------------------ *)

Definition directory_listing (st : mstate) (slot : N) (uid : bytes) : list membership :=
  entry_rows st (uid_entries st slot uid).

(* every row of the state has its key in the alphabet *)
Definition rows_covered (mkeys : list mkey) (st : mstate) : Prop :=
  forall k row, get_row st k = Some row -> In k mkeys.

Lemma present_rows_In st slot uid : forall keys m,
  In m (present_rows slot uid keys (map (get_row st) keys)) <->
  exists k, In k keys /\ k_slot k = slot /\ k_uid k = uid /\ get_row st k = Some m.
Proof.
  induction keys as [|k keys IH]; intro m; cbn [map present_rows].
  - split; [intros []|intros (k & [] & _)].
  - destruct (get_row st k) as [row|] eqn:Hg.
    + destruct ((k_slot k =? slot) && bytes_eqb (k_uid k) uid) eqn:B.
      * apply andb_true_iff in B. destruct B as [B1 B2]. apply N.eqb_eq in B1. apply bytes_eqb_eq in B2.
        cbn [In]. rewrite IH. split.
        -- intros [->|(k' & Hin & H)]; [exists k; repeat split; auto; left; reflexivity|].
           exists k'. split; [right; exact Hin|exact H].
        -- intros (k' & [->|Hin] & Hs & Hu & Hr); [left; congruence|].
           right. exists k'. repeat split; auto.
      * rewrite IH. split.
        -- intros (k' & Hin & H). exists k'. split; [right; exact Hin|exact H].
        -- intros (k' & [->|Hin] & Hs & Hu & Hr).
           ++ exfalso. rewrite Hs, Hu, N.eqb_refl, bytes_eqb_refl in B. discriminate.
           ++ exists k'. repeat split; auto.
    + rewrite IH. split.
      * intros (k' & Hin & H). exists k'. split; [right; exact Hin|exact H].
      * intros (k' & [->|Hin] & Hs & Hu & Hr); [congruence|]. exists k'. repeat split; auto.
Qed.

Lemma present_rows_entries_NoDup st slot uid : st_inv st -> forall keys, NoDup keys ->
  NoDup (map (activation_entry slot) (present_rows slot uid keys (map (get_row st) keys))).
Proof.
  intros Hinv. induction keys as [|k keys IH]; intro Hnd; cbn [map present_rows]; [constructor|].
  inversion Hnd as [|? ? Hnin Hnd']; subst.
  destruct (get_row st k) as [row|] eqn:Hg; [|apply IH; exact Hnd'].
  destruct ((k_slot k =? slot) && bytes_eqb (k_uid k) uid) eqn:B; [|apply IH; exact Hnd'].
  cbn [map]. constructor; [|apply IH; exact Hnd'].
  intro C. apply in_map_iff in C. destruct C as (m' & He & Hm').
  apply present_rows_In in Hm'. destruct Hm' as (k' & Hin & Hs & Hu & Hr).
  apply andb_true_iff in B. destruct B as [B1 _]. apply N.eqb_eq in B1.
  destruct (inv_row_entry st Hinv k row Hg) as (_ & Hk & _).
  destruct (inv_row_entry st Hinv k' m' Hr) as (_ & Hk' & _).
  apply Hnin. assert (k' = k) as <-; [|exact Hin].
  rewrite <- Hk, <- Hk', B1, Hs.
  change (entry_primary (activation_entry slot m') = entry_primary (activation_entry slot row)).
  rewrite He. reflexivity.
Qed.

Lemma row_insert_entries slot m : forall l,
  map (activation_entry slot) (row_insert slot m l)
  = entry_insert (activation_entry slot m) (map (activation_entry slot) l).
Proof.
  induction l as [|x r IH]; [reflexivity|]. cbn [row_insert map entry_insert].
  destruct (entry_ltb (activation_entry slot x) (activation_entry slot m)); cbn [map]; [f_equal; exact IH|reflexivity].
Qed.

Lemma expected_listing_entries slot rows :
  map (activation_entry slot) (fold_right (row_insert slot) [] rows)
  = entry_sort (map (activation_entry slot) rows).
Proof.
  induction rows as [|m r IH]; [reflexivity|].
  cbn [fold_right map entry_sort]. rewrite row_insert_entries, IH. reflexivity.
Qed.

Lemma row_insert_In slot m : forall l x, In x (row_insert slot m l) <-> x = m \/ In x l.
Proof.
  induction l as [|y r IH]; intro x; cbn [row_insert].
  - cbn. intuition.
  - destruct (entry_ltb (activation_entry slot y) (activation_entry slot m)); cbn [In].
    + rewrite IH. intuition.
    + intuition.
Qed.

Lemma sorted_rows_In slot : forall rows x, In x (fold_right (row_insert slot) [] rows) <-> In x rows.
Proof.
  induction rows as [|m r IH]; intro x; [reflexivity|].
  cbn [fold_right]. rewrite row_insert_In, IH. cbn. intuition.
Qed.

Lemma entry_rows_of_rows st slot : forall l,
  Forall (fun m => get_row st (membership_key slot m) = Some m) l ->
  entry_rows st (map (activation_entry slot) l) = l.
Proof.
  induction 1 as [|m l Hm _ IH]; [reflexivity|].
  cbn [map entry_rows]. unfold entry_row.
  change (entry_primary (activation_entry slot m)) with (membership_key slot m). rewrite Hm.
  cbn [activation_entry ie_slot]. rewrite idx_entry_eqb_refl. f_equal. exact IH.
Qed.

Lemma entry_insert_length e : forall l, length (entry_insert e l) = S (length l).
Proof.
  induction l as [|x r IH]; [reflexivity|]. cbn [entry_insert].
  destruct (entry_ltb x e); cbn [length]; [rewrite IH|]; reflexivity.
Qed.

Lemma entry_sort_length : forall l, length (entry_sort l) = length l.
Proof.
  induction l as [|e r IH]; [reflexivity|]. cbn [entry_sort fold_right]. fold (entry_sort r).
  rewrite entry_insert_length, IH. reflexivity.
Qed.

Section Listing.
  Variables (st : mstate) (slot : N) (uid : bytes) (mkeys : list mkey).
  Hypothesis Hinv : st_inv st.
  Hypothesis Hcov : rows_covered mkeys st.
  Hypothesis Hnd : NoDup mkeys.

  Let R := present_rows slot uid mkeys (map (get_row st) mkeys).

  Lemma present_entries_In e :
    In e (map (activation_entry slot) R) <-> In e (filter (belongs slot uid) (st_index st)).
  Proof.
    rewrite in_map_iff, filter_In. split.
    - intros (m & He & Hm). apply present_rows_In in Hm. destruct Hm as (k & Hin & Hs & Hu & Hr).
      destruct (inv_row_entry st Hinv k m Hr) as (Hidx & Hk & _). subst e. split.
      + rewrite <- Hs. exact Hidx.
      + apply belongs_prefix. split; [reflexivity|]. cbn [activation_entry ie_uid].
        rewrite <- Hu, <- Hk. reflexivity.
    - intros [Hidx Hb]. apply belongs_prefix in Hb. destruct Hb as [Hs Hu].
      destruct (inv_entry_row st Hinv e Hidx) as (row & Hrow & Hent).
      exists row. split; [rewrite <- Hs; exact Hent|].
      apply present_rows_In. exists (entry_primary e). split; [eapply Hcov; exact Hrow|].
      repeat split; auto.
  Qed.

  Lemma sorted_present_entries : entry_sort (map (activation_entry slot) R) = uid_entries st slot uid.
  Proof.
    apply sorted_unique.
    - apply (entry_sort_sorted slot uid).
      + apply Forall_forall. intros e He. apply present_entries_In in He. apply filter_In in He.
        apply belongs_prefix. apply He.
      + apply present_rows_entries_NoDup; assumption.
    - apply uid_entries_sorted. exact Hinv.
    - intro e. rewrite entry_sort_In, uid_entries_unfold, entry_sort_In. apply present_entries_In.
  Qed.

  Lemma expected_listing_model : expected_listing slot uid mkeys (map (get_row st) mkeys) = directory_listing st slot uid.
  Proof.
    unfold expected_listing, directory_listing. fold R.
    rewrite <- sorted_present_entries, <- expected_listing_entries.
    symmetry. apply entry_rows_of_rows. apply Forall_forall. intros m Hm.
    apply sorted_rows_In in Hm. apply present_rows_In in Hm. destruct Hm as (k & _ & Hs & _ & Hr).
    destruct (inv_row_entry st Hinv k m Hr) as (_ & Hk & _). rewrite <- Hs, Hk. exact Hr.
  Qed.

  Lemma present_length : length R = length (uid_entries st slot uid).
  Proof. rewrite <- sorted_present_entries, entry_sort_length, map_length. reflexivity. Qed.

  Lemma present_activation_nonneg :
    forallb (fun m => (0 <=? m_activated_at m)%Z) R = true ->
    forall e, In e (uid_entries st slot uid) -> (0 <= ie_activated_at e)%Z.
  Proof.
    intros H e He. rewrite <- sorted_present_entries in He. apply (proj1 (entry_sort_In _ _)) in He.
    apply in_map_iff in He. destruct He as (m & <- & Hm).
    rewrite forallb_forall in H. apply Z.leb_le. apply (H m Hm).
  Qed.
End Listing.

(* the listing: exactly the rows of (slot, uid), once each, in key order *)
Lemma directory_listing_In st slot uid m : st_inv st ->
  (In m (directory_listing st slot uid) <->
   exists k, k_slot k = slot /\ k_uid k = uid /\ get_row st k = Some m).
Proof.
  intro Hinv. unfold directory_listing.
  pose proof (uid_entries_good st slot uid Hinv) as Hgood. rewrite Forall_forall in Hgood.
  split.
  - intro H.
    assert (G : forall l, (forall e, In e l -> In e (uid_entries st slot uid)) -> In m (entry_rows st l) ->
                exists e, In e l /\ entry_row st e = Some m).
    { induction l as [|e l IH]; intros Hl Hm; [destruct Hm|]. cbn [entry_rows] in Hm.
      destruct (entry_row st e) as [row|] eqn:Hr.
      - destruct Hm as [->|Hm]; [exists e; split; [left; reflexivity|exact Hr]|].
        destruct (IH (fun x Hx => Hl x (or_intror Hx)) Hm) as (e' & He' & Hr'). exists e'. split; [right|]; assumption.
      - destruct (IH (fun x Hx => Hl x (or_intror Hx)) Hm) as (e' & He' & Hr'). exists e'. split; [right|]; assumption. }
    destruct (G _ (fun e He => He) H) as (e & He & Hr).
    apply uid_entries_In in He. destruct He as [_ [Hs Hu]].
    exists (entry_primary e). repeat split; auto.
    unfold entry_row in Hr. destruct (get_row st (entry_primary e)) as [row|]; [|discriminate].
    destruct (idx_entry_eqb (activation_entry (ie_slot e) row) e); [congruence|discriminate].
  - intros (k & Hs & Hu & Hr).
    destruct (inv_row_entry st Hinv k m Hr) as (Hidx & Hk & _).
    set (e := activation_entry (k_slot k) m).
    assert (He : In e (uid_entries st slot uid)).
    { apply uid_entries_In. split; [exact Hidx|]. split; [exact Hs|]. cbn [e activation_entry ie_uid].
      rewrite <- Hu, <- Hk. reflexivity. }
    assert (Hrow : entry_row st e = Some m).
    { unfold entry_row. change (entry_primary e) with (membership_key (k_slot k) m). rewrite Hk, Hr.
      cbn [e activation_entry ie_slot]. rewrite idx_entry_eqb_refl. reflexivity. }
    clear Hgood. induction (uid_entries st slot uid) as [|x l IH]; [destruct He|].
    cbn [entry_rows]. destruct He as [->|He].
    + rewrite Hrow. left. reflexivity.
    + destruct (entry_row st x); [right|]; apply IH; exact He.
Qed.

Lemma directory_listing_entries st slot uid : st_inv st ->
  map (activation_entry slot) (directory_listing st slot uid) = uid_entries st slot uid.
Proof.
  intro Hinv. unfold directory_listing.
  pose proof (uid_entries_good st slot uid Hinv) as Hgood.
  induction Hgood as [|e l (Hp & row & Hr & Hent & _) _ IH]; [reflexivity|].
  cbn [entry_rows]. rewrite Hr. cbn [map]. rewrite Hent, IH. reflexivity.
Qed.
