(* Proof/Presence_inv.v — the authority-slot invariant: byUID and the expiry index are
   projections of the active routes; active routes sit above their unregister fence. *)
From WK Require Import Base.Base Gen.Consts_C33 Model.Presence Proof.AckTracker_map Proof.Presence_map.
From Coq Require Import Permutation.
Open Scope N_scope.

Notation iget := (al_get ikey_eqb).
Notation nget := (al_get N.eqb).

Definition normalized (r : route) : Prop := r_seen r = 0%Z -> r_conn r = 0%Z.

Lemma normalize_normalized r : normalized (normalizeRouteSeen r).
Proof.
  unfold normalized, normalizeRouteSeen. destruct (r_seen r =? 0)%Z eqn:E; simpl; [auto|].
  apply Z.eqb_neq in E. intro. contradiction.
Qed.

Lemma normalize_idem r : normalized r -> normalizeRouteSeen r = r.
Proof.
  unfold normalized, normalizeRouteSeen. intro H. destruct (r_seen r =? 0)%Z eqn:E; [|reflexivity].
  apply Z.eqb_eq in E. destruct r. simpl in *. rewrite (H E), E. reflexivity.
Qed.

Lemma normalize_key r : makeRouteIdentityKey (normalizeRouteSeen r) = makeRouteIdentityKey r.
Proof. unfold normalizeRouteSeen. destruct (r_seen r =? 0)%Z; reflexivity. Qed.
Lemma normalize_oseq r : r_oseq (normalizeRouteSeen r) = r_oseq r.
Proof. unfold normalizeRouteSeen. destruct (r_seen r =? 0)%Z; reflexivity. Qed.
Lemma normalize_uid r : r_uid (normalizeRouteSeen r) = r_uid r.
Proof. unfold normalizeRouteSeen. destruct (r_seen r =? 0)%Z; reflexivity. Qed.

Lemma seen_of_normalized r : normalized r -> routeSeenUnix r = r_seen r.
Proof.
  unfold normalized, routeSeenUnix. intro H. destruct (r_seen r =? 0)%Z eqn:E; simpl; [|reflexivity].
  apply Z.eqb_eq in E. rewrite (H E), E. reflexivity.
Qed.

Definition key_uid (k : ikey) : N := let '(u, _, _, _) := k in u.

Record SInv (s : slot) : Prop := {
  si_act_nodup : NoDup (al_keys (sl_active s));
  si_act_key : forall k r, iget k (sl_active s) = Some r -> makeRouteIdentityKey r = k /\ normalized r;
  si_by_nodup : forall u, NoDup (uid_keys u s);
  si_by_proj : forall u k, In k (uid_keys u s) <-> exists r, iget k (sl_active s) = Some r /\ r_uid r = u;
  si_expiry : forall k, iget k (sl_expiry s) =
                        match iget k (sl_active s) with
                        | Some r => if (r_seen r =? 0)%Z then None else Some (r_seen r)
                        | None => None
                        end;
  si_exp_nodup : NoDup (al_keys (sl_expiry s));
  si_tomb : forall k r, iget k (sl_active s) = Some r -> tombstoned s k (r_oseq r) = false }.

Lemma SInv_new g : SInv (newAuthoritySlot g).
Proof.
  constructor.
  - constructor.
  - intros k r H. discriminate.
  - intro u. constructor.
  - intros u k. split; [intros []|intros [r [H _]]; discriminate].
  - reflexivity.
  - constructor.
  - intros k r H. discriminate.
Qed.

(* uid_keys after the two byUID updates *)
Lemma uid_keys_set s act by_ ex u ks u' :
  uid_keys u' (with_active s act (al_set N.eqb u ks by_) ex) = if u' =? u then ks else uid_keys u' (with_active s act by_ ex).
Proof.
  unfold uid_keys. cbn [sl_byUID with_active]. destruct (N.eqb_spec u' u) as [E|E].
  - subst. rewrite n_get_set_same. reflexivity.
  - rewrite n_get_set_other by congruence. reflexivity.
Qed.

(* ---- removeActiveLocked ------------------------------------------------------------------ *)
Lemma removeActive_active s k r : sl_active (removeActiveLocked s k r) = al_del ikey_eqb k (sl_active s).
Proof. reflexivity. Qed.
Lemma removeActive_expiry s k r : sl_expiry (removeActiveLocked s k r) = al_del ikey_eqb k (sl_expiry s).
Proof. reflexivity. Qed.
Lemma removeActive_other s k r :
  sl_target (removeActiveLocked s k r) = sl_target s /\ sl_pending (removeActiveLocked s k r) = sl_pending s
  /\ sl_ownerSeq (removeActiveLocked s k r) = sl_ownerSeq s /\ sl_tomb (removeActiveLocked s k r) = sl_tomb s
  /\ sl_nextID (removeActiveLocked s k r) = sl_nextID s.
Proof. repeat split; reflexivity. Qed.

Definition row_of (u : N) (m : list (N * list ikey)) : list ikey :=
  match nget u m with Some ks => ks | None => [] end.

Lemma uid_keys_row u s : uid_keys u s = row_of u (sl_byUID s).
Proof. reflexivity. Qed.

Lemma removeActive_byUID s k r :
  sl_byUID (removeActiveLocked s k r) =
  match nget (r_uid r) (sl_byUID s) with
  | None => sl_byUID s
  | Some ks => match del_key k ks with
               | [] => al_del N.eqb (r_uid r) (sl_byUID s)
               | ks' => al_set N.eqb (r_uid r) ks' (sl_byUID s)
               end
  end.
Proof. reflexivity. Qed.

Lemma removeActive_uid_keys s k r u :
  (forall x, In x (uid_keys u (removeActiveLocked s k r)) <->
             In x (uid_keys u s) /\ ~ (u = r_uid r /\ x = k))
  /\ (NoDup (uid_keys u s) -> NoDup (uid_keys u (removeActiveLocked s k r))).
Proof.
  rewrite !uid_keys_row, removeActive_byUID. generalize (sl_byUID s). intro m. unfold row_of.
  destruct (nget (r_uid r) m) as [ks|] eqn:G.
  - destruct (del_key k ks) as [|d0 dl] eqn:DK.
    + destruct (N.eq_dec u (r_uid r)) as [E|E].
      * subst u. rewrite n_get_del_same, G. split; [|intros; constructor].
        intro x. split; [intros []|]. intros [H1 H2].
        assert (X : In x (del_key k ks)) by (apply del_key_in; split; [intro; subst; apply H2; auto|exact H1]).
        rewrite DK in X. destruct X.
      * rewrite n_get_del_other by congruence. split; [|auto].
        intro x. split; [intro H; split; [exact H|intros [X _]; contradiction]|intros [H _]; exact H].
    + rewrite <- DK. destruct (N.eq_dec u (r_uid r)) as [E|E].
      * subst u. rewrite n_get_set_same, G. split.
        -- intro x. rewrite del_key_in. split.
           ++ intros [H1 H2]. split; [exact H2|intros [_ X]; contradiction].
           ++ intros [H1 H2]. split; [intro X; apply H2; auto|exact H1].
        -- apply del_key_nodup.
      * rewrite n_get_set_other by congruence. split; [|auto].
        intro x. split; [intro H; split; [exact H|intros [X _]; contradiction]|intros [H _]; exact H].
  - split; [|auto]. intro x. split; [|intros [H _]; exact H].
    intro H. split; [exact H|]. intros [X Y]. subst. rewrite G in H. destruct H.
Qed.

Lemma removeActive_inv s k r :
  SInv s -> iget k (sl_active s) = Some r -> SInv (removeActiveLocked s k r).
Proof.
  intros I G. destruct (si_act_key s I _ _ G) as [KR _].
  constructor.
  - rewrite removeActive_active. apply i_del_nodup. apply (si_act_nodup s I).
  - intros k' r'. rewrite removeActive_active. destruct (ikey_eq_dec k k') as [E|E].
    + subst. rewrite i_get_del_same. discriminate.
    + rewrite i_get_del_other by exact E. apply (si_act_key s I).
  - intro u. apply (removeActive_uid_keys s k r u). apply (si_by_nodup s I).
  - intros u k'. rewrite (proj1 (removeActive_uid_keys s k r u)). rewrite (si_by_proj s I). rewrite removeActive_active.
    destruct (ikey_eq_dec k k') as [E|E].
    + subst k'. rewrite i_get_del_same. split.
      * intros [[r' [H1 H2]] H3]. exfalso. apply H3. split; [congruence|reflexivity].
      * intros [r' [H1 _]]. discriminate.
    + rewrite i_get_del_other by exact E. split; [intros [H _]; exact H|].
      intro H. split; [exact H|]. intros [_ X]. congruence.
  - intro k'. rewrite removeActive_active, removeActive_expiry. destruct (ikey_eq_dec k k') as [E|E].
    + subst. rewrite !i_get_del_same. reflexivity.
    + rewrite !i_get_del_other by exact E. apply (si_expiry s I).
  - rewrite removeActive_expiry. apply i_del_nodup. apply (si_exp_nodup s I).
  - intros k' r'. rewrite removeActive_active. unfold tombstoned. simpl. destruct (ikey_eq_dec k k') as [E|E].
    + subst. rewrite i_get_del_same. discriminate.
    + rewrite i_get_del_other by exact E. apply (si_tomb s I).
Qed.

Ltac sproj := cbn [sl_active sl_byUID sl_expiry sl_tomb sl_target sl_pending sl_ownerSeq sl_nextID with_active].

(* ---- upsertActiveLocked ------------------------------------------------------------------- *)
Lemma upsert_facts s r0 :
  SInv s -> tombstoned s (makeRouteIdentityKey r0) (r_oseq r0) = false ->
  let r := normalizeRouteSeen r0 in
  let k := makeRouteIdentityKey r0 in
  let s' := upsertActiveLocked s r0 in
  SInv s'
  /\ sl_active s' = al_set ikey_eqb k r (sl_active s)
  /\ sl_target s' = sl_target s /\ sl_pending s' = sl_pending s /\ sl_ownerSeq s' = sl_ownerSeq s
  /\ sl_tomb s' = sl_tomb s /\ sl_nextID s' = sl_nextID s.
Proof.
  intros I T. cbv zeta. unfold upsertActiveLocked. rewrite normalize_key.
  set (r := normalizeRouteSeen r0). set (k := makeRouteIdentityKey r0).
  set (s1 := match iget k (sl_active s) with Some existing => removeActiveLocked s k existing | None => s end).
  assert (I1 : SInv s1).
  { unfold s1. destruct (iget k (sl_active s)) eqn:G; [apply removeActive_inv; assumption|exact I]. }
  assert (A1 : sl_active s1 = al_del ikey_eqb k (sl_active s)).
  { unfold s1. destruct (iget k (sl_active s)) eqn:G; [reflexivity|]. symmetry. apply i_del_notin. exact G. }
  assert (E1 : sl_expiry s1 = al_del ikey_eqb k (sl_expiry s)).
  { unfold s1. destruct (iget k (sl_active s)) eqn:G; [reflexivity|]. symmetry. apply i_del_notin.
    rewrite (si_expiry s I), G. reflexivity. }
  assert (O1 : sl_target s1 = sl_target s /\ sl_pending s1 = sl_pending s /\ sl_ownerSeq s1 = sl_ownerSeq s
               /\ sl_tomb s1 = sl_tomb s /\ sl_nextID s1 = sl_nextID s).
  { unfold s1. destruct (iget k (sl_active s)); [apply removeActive_other|repeat split; reflexivity]. }
  destruct O1 as [O1 [O2 [O3 [O4 O5]]]].
  assert (NK : iget k (sl_active s1) = None) by (rewrite A1; apply i_get_del_same).
  assert (RN : normalized r) by apply normalize_normalized.
  assert (RK : makeRouteIdentityKey r = k) by apply normalize_key.
  assert (AS : al_set ikey_eqb k r (sl_active s1) = al_set ikey_eqb k r (sl_active s)).
  { rewrite A1. unfold al_set. f_equal. apply i_del_notin. apply i_get_del_same. }
  split; [|sproj; repeat split; assumption].
  constructor; sproj.
  - apply i_set_nodup. apply (si_act_nodup s1 I1).
  - intros k' r'. destruct (ikey_eq_dec k k') as [E|E].
    + subst k'. rewrite i_get_set_same. intro H. inversion H. subst r'. split; assumption.
    + rewrite i_get_set_other by exact E. apply (si_act_key s1 I1).
  - intro u. rewrite uid_keys_set. destruct (u =? r_uid r).
    + apply add_key_nodup. apply (si_by_nodup s1 I1).
    + apply (si_by_nodup s1 I1 u).
  - intros u k'. rewrite uid_keys_set.
    assert (SAME : forall v, uid_keys v (with_active s1 (al_set ikey_eqb k r (sl_active s1)) (sl_byUID s1)
                                                    (scheduleExpiryLocked (sl_expiry s1) k r)) = uid_keys v s1) by reflexivity.
    rewrite SAME. destruct (N.eqb_spec u (r_uid r)) as [E|E].
    + subst u. rewrite add_key_in, (si_by_proj s1 I1). destruct (ikey_eq_dec k k') as [E2|E2].
      * subst k'. rewrite i_get_set_same. split; [intros _; exists r; auto|intros _; left; reflexivity].
      * rewrite i_get_set_other by exact E2. split; [intros [X|X]; [congruence|exact X]|intro X; right; exact X].
    + rewrite (si_by_proj s1 I1). destruct (ikey_eq_dec k k') as [E2|E2].
      * subst k'. rewrite i_get_set_same, NK. split; [intros [x [X _]]; discriminate|].
        intros [x [X1 X2]]. inversion X1. subst x. congruence.
      * rewrite i_get_set_other by exact E2. reflexivity.
  - intro k'. unfold scheduleExpiryLocked, unscheduleExpiryLocked. rewrite (seen_of_normalized r RN).
    destruct (ikey_eq_dec k k') as [E|E].
    + subst k'. rewrite i_get_set_same. destruct (r_seen r =? 0)%Z; [apply i_get_del_same|apply i_get_set_same].
    + rewrite i_get_set_other by exact E.
      assert (X : iget k' (al_del ikey_eqb k (sl_expiry s1)) = iget k' (sl_expiry s1)) by (apply i_get_del_other; exact E).
      destruct (r_seen r =? 0)%Z; [|rewrite i_get_set_other by exact E]; rewrite X; apply (si_expiry s1 I1).
  - unfold scheduleExpiryLocked, unscheduleExpiryLocked.
    destruct (routeSeenUnix r =? 0)%Z; [|apply i_set_nodup]; apply i_del_nodup; apply (si_exp_nodup s1 I1).
  - intros k' r'. unfold tombstoned. sproj. rewrite O4. destruct (ikey_eq_dec k k') as [E|E].
    + subst k'. rewrite i_get_set_same. intro H. inversion H. subst r'. unfold r. rewrite normalize_oseq. exact T.
    + rewrite i_get_set_other by exact E. intro H. pose proof (si_tomb s1 I1 _ _ H) as X.
      unfold tombstoned in X. rewrite O4 in X. exact X.
Qed.
