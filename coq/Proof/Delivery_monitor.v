(* Proof/Delivery_monitor.v — the property monitor accepts every observation the
   model of processPlan / PushOwner can produce. *)
From WK Require Import Base.Base Gen.Consts_C31 Model.Delivery Model.Delivery_C31
     Proof.Delivery_local Proof.Delivery_retry Proof.Delivery_cover.
From Coq Require Import Permutation.
Open Scope N_scope.

(* ---------------------------------------------------------- constants ---- *)

Lemma bounded_pos_pos v d : 0 < d -> (0 < bounded_pos v d)%nat.
Proof. unfold bounded_pos. destruct (Z.leb_spec v 0); lia. Qed.

Lemma c_retry_pos c : (0 < c_retry c)%nat.
Proof. apply bounded_pos_pos. unfold c31_default_retry_attempts. lia. Qed.

Lemma c_batch_pos c : (0 < c_batch c)%nat.
Proof. apply bounded_pos_pos. unfold c31_default_push_batch. lia. Qed.

(* --------------------------------------------------------- by_owner ---- *)

Lemma by_owner_app o a b : by_owner o (a ++ b) = by_owner o a ++ by_owner o b.
Proof. unfold by_owner. apply filter_app. Qed.

Lemma by_owner_all o l : Forall (fun a => a_owner a = o) l -> by_owner o l = l.
Proof.
  induction 1 as [|a l Ha _ IH]; simpl; [reflexivity|].
  rewrite Ha, N.eqb_refl, IH. reflexivity.
Qed.

Lemma by_owner_none o l : Forall (fun a => a_owner a <> o) l -> by_owner o l = [].
Proof.
  induction 1 as [|a l Ha _ IH]; simpl; [reflexivity|].
  apply N.eqb_neq in Ha. rewrite Ha. exact IH.
Qed.

Lemma walk_firsts_incl maxa : forall l k prev ok f,
  walk maxa k prev l = (ok, f) -> incl f l.
Proof.
  induction l as [|a l IH]; intros k prev ok f E; cbn [walk] in E.
  - inversion E. intros x [].
  - destruct prev as [p|].
    + destruct (att_more p && (k <? maxa)%nat).
      * destruct (walk maxa (S k) (Some a) l) as [ok' f'] eqn:E'. inversion E; subst.
        intros x Hx. right. exact (IH _ _ _ _ E' x Hx).
      * destruct (walk maxa 1 (Some a) l) as [ok' f'] eqn:E'. inversion E; subst.
        intros x [<-|Hx]; [left; reflexivity| right; exact (IH _ _ _ _ E' x Hx)].
    + destruct (walk maxa 1 (Some a) l) as [ok' f'] eqn:E'. inversion E; subst.
      intros x [<-|Hx]; [left; reflexivity| right; exact (IH _ _ _ _ E' x Hx)].
Qed.

(* ------------------------------------------- routes stay inside the plan ---- *)

(* the remote owner reports as Retryable only routes of R *)
Definition remote_contract (R : list route) (orc : list oout) : Prop :=
  forall acc retry drop err, In (ORemote acc retry drop err) orc -> incl retry R.

Lemma remote_contract_tl R orc : remote_contract R orc -> remote_contract R (orc_tl orc).
Proof.
  destruct orc; simpl; [auto|]. unfold remote_contract. simpl.
  intros H acc retry drop err Hin. eapply H. right. exact Hin.
Qed.

Lemma lspec_writes_in hw msgid owner rs : forall orc cx w,
  In w (l_writes (lspec hw msgid owner rs orc cx)) -> In (w_route w) rs.
Proof.
  induction rs as [|r rs IH]; intros orc cx w; cbn [lspec].
  - simpl. tauto.
  - destruct cx; [cbn [l_writes]; intros H; right; eapply IH; exact H|].
    destruct (negb (route_valid msgid owner r)); [cbn [l_writes]; intros H; right; eapply IH; exact H|].
    destruct (orc_next orc) as [|d c]; [cbn [l_writes]; intros H; right; eapply IH; exact H|].
    destruct hw; [|cbn [l_writes]; intros H; right; eapply IH; exact H].
    destruct (disp_class d =? 1); [|destruct (disp_class d =? 2)]; cbn [l_writes];
      (intros [<-|H]; [left; reflexivity| right; eapply IH; exact H]).
Qed.

Section Incl.
Variables (c : cfg) (ev : event) (o : N) (R : list route).
Hypothesis Ho : o <> 0.

Lemma attempt_incl rs oo a cx1 :
  do_attempt c ev o rs oo false = (a, cx1) ->
  no_reject (oracle_local oo) ->
  (forall acc retry drop err, oo = ORemote acc retry drop err -> incl retry R) ->
  incl rs R ->
  incl (att_routes a) R /\ incl (next_routes a rs) R.
Proof.
  intros E NR HC Hin.
  pose proof (do_attempt_facts _ _ _ _ _ _ _ E Ho NR) as F.
  destruct (a_local a) eqn:Hl.
  - destruct (af_loc _ _ _ _ _ _ _ F Hl) as (He & Hs). cbn zeta in Hs.
    destruct Hs as (Hw & Hr & _ & _ & _). split.
    + unfold att_routes. rewrite Hl, Hw. intros x Hx. apply in_map_iff in Hx.
      destruct Hx as (w & <- & Hw0). apply Hin. eapply lspec_writes_in. exact Hw0.
    + unfold next_routes. rewrite He. cbn [N.eqb]. rewrite Hr. intros x Hx. apply Hin.
      eapply lspec_retry_in. exact Hx.
  - split.
    + unfold att_routes. rewrite Hl, (af_routes _ _ _ _ _ _ _ F). exact Hin.
    + unfold next_routes. destruct (a_err a =? 0) eqn:He; [|exact Hin].
      rewrite (af_local _ _ _ _ _ _ _ F) in Hl. unfold do_attempt in E. rewrite Hl in E.
      destruct (negb (c_has_remote c)); [inversion E; subst; exact Hin|].
      destruct oo as [l|acc retry drop err].
      * inversion E; subst. intros x [].
      * destruct (err =? 2); inversion E; subst; cbn [a_retry]; [exact Hin| eapply HC; reflexivity].
Qed.

Lemma pwr_incl : forall n rs orc cx l st orc' cx',
  pushWithRetry c ev o n rs orc cx = (l, st, orc', cx') ->
  orc_ok orc -> remote_contract R orc -> incl rs R ->
  Forall (fun a => incl (att_routes a) R /\ a_owner a = o) l /\ remote_contract R orc'.
Proof.
  induction n as [|n IH]; intros rs orc cx l st orc' cx' E OK RC Hin; cbn [pushWithRetry] in E.
  { inversion E; subst. split; [constructor| exact RC]. }
  destruct cx; [inversion E; subst; split; [constructor| exact RC]|].
  destruct (do_attempt c ev o rs (orc_hd orc) false) as [a cx1] eqn:Ea.
  assert (HC : forall acc retry drop err, orc_hd orc = ORemote acc retry drop err -> incl retry R).
  { intros acc retry drop err Hh. destruct orc as [|oo t]; [discriminate|]. simpl in Hh. subst oo.
    eapply RC. left. reflexivity. }
  destruct (attempt_incl _ _ _ _ Ea (orc_ok_hd _ OK) HC Hin) as [Ia In'].
  pose proof (af_owner _ _ _ _ _ _ _ (do_attempt_facts _ _ _ _ _ _ _ Ea Ho (orc_ok_hd _ OK))) as Hown.
  assert (Hone : Forall (fun a0 => incl (att_routes a0) R /\ a_owner a0 = o) [a])
    by (constructor; [split; assumption| constructor]).
  destruct ((a_err a =? 0) && is_nil (a_retry a));
    [inversion E; subst l st orc' cx'; split; [exact Hone| apply remote_contract_tl; exact RC]|].
  destruct n as [|n']; [inversion E; subst l st orc' cx'; split; [exact Hone| apply remote_contract_tl; exact RC]|].
  destruct cx1; [inversion E; subst l st orc' cx'; split; [exact Hone| apply remote_contract_tl; exact RC]|].
  destruct (pushWithRetry c ev o (S n') (if a_err a =? 0 then a_retry a else rs) (orc_tl orc) false)
    as [[[l2 st2] orc2] cx2] eqn:E2.
  inversion E; subst l st orc' cx'. clear E.
  destruct (IH _ _ _ _ _ _ _ E2 (orc_ok_tl _ OK) (remote_contract_tl _ _ RC) In') as [A B].
  split; [constructor; [split; assumption| exact A]| exact B].
Qed.

Lemma run_batches_incl : forall bs orc cx l st cxf,
  run_batches c ev o bs orc cx = (l, st, cxf) ->
  orc_ok orc -> remote_contract R orc -> (forall b, In b bs -> incl b R) ->
  Forall (fun a => incl (att_routes a) R /\ a_owner a = o) l.
Proof.
  induction bs as [|b bs IH]; intros orc cx l st cxf E OK RC Hb; cbn [run_batches] in E.
  { inversion E; subst. constructor. }
  destruct (pushWithRetry c ev o (c_retry c) b orc cx) as [[[l1 st1] orc1] cx1] eqn:E1.
  destruct (pwr_incl _ _ _ _ _ _ _ _ E1 OK RC (Hb b (or_introl eq_refl))) as [A B].
  destruct (negb (st1 =? 0) && cx1); [inversion E; subst; exact A|].
  destruct (run_batches c ev o bs orc1 cx1) as [[l2 st2] cx2] eqn:E2.
  inversion E; subst. apply Forall_app. split; [exact A|].
  eapply IH; [exact E2| eapply pwr_orc_ok; eauto| exact B| intros b0 Hb0; apply Hb; right; exact Hb0].
Qed.

End Incl.

(* -------------------------------------------------------- all owners ---- *)

Section Owners.
Variables (c : cfg) (ev : event).

Lemma run_batches_cancelled' o bs orc :
  run_batches c ev o bs orc true = ([], (match bs with [] => 0 | _ => 5 end), true).
Proof.
  destruct bs as [|b bs]; [reflexivity|]. cbn [run_batches].
  pose proof (c_retry_pos c) as Hp. destruct (c_retry c) as [|n]; [lia|]. reflexivity.
Qed.

Lemma run_owners_cancelled g orc :
  exists st, run_owners c ev g orc true = ([], st, true).
Proof.
  induction g as [|[o rs] g IH]; cbn [run_owners]; [eexists; reflexivity|].
  rewrite run_batches_cancelled'.
  destruct IH as [st2 ->]. eexists. reflexivity.
Qed.

Definition keys_ok (g : groups) : Prop :=
  NoDup (g_keys g) /\ forall o, In o (g_keys g) -> o <> 0 /\ g_get o g <> [].

Lemma keys_ok_tail o rs g : keys_ok ((o, rs) :: g) -> keys_ok g /\ ~ In o (g_keys g) /\ o <> 0 /\ rs <> [].
Proof.
  intros [ND H]. simpl in ND. inversion ND as [|? ? Hn ND']; subst.
  split; [|split; [exact Hn|]].
  - split; [exact ND'|]. intros o' Ho'. destruct (H o' (or_intror Ho')) as [A B]. split; [exact A|].
    simpl in B. destruct (o =? o') eqn:E; [|exact B].
    apply N.eqb_eq in E. subst. contradiction.
  - destruct (H o (or_introl eq_refl)) as [A B]. simpl in B. rewrite N.eqb_refl in B. auto.
Qed.

Lemma run_owners_facts : forall g orc atts st cxf,
  run_owners c ev g orc false = (atts, st, cxf) ->
  keys_ok g -> (forall o, orc_ok (orc o)) ->
  cxf = existsb att_cancel atts
  /\ Forall (fun a => In (a_owner a) (g_keys g)) atts
  /\ forall o, exists firsts,
       walk (c_retry c) 0 None (by_owner o atts) = (true, firsts)
       /\ (cxf = false -> Forall2 (first_of c ev o) (chunks (c_batch c) (g_get o g)) firsts).
Proof.
  induction g as [|[o1 rs1] g IH]; intros orc atts st cxf E KO OK.
  { cbn [run_owners] in E. inversion E; subst. split; [reflexivity|]. split; [constructor|].
    intros o. exists []. split; [reflexivity|]. intros _. unfold chunks. simpl. constructor. }
  destruct (keys_ok_tail _ _ _ KO) as (KO' & Hn1 & Ho1 & Hrs1).
  cbn [run_owners] in E.
  destruct (run_batches c ev o1 (chunks (c_batch c) rs1) (orc o1) false) as [[l st1] cx1] eqn:E1.
  destruct (run_batches_walk c ev o1 Ho1 _ _ 0%nat None _ _ _ E1 (c_retry_pos c) (OK o1)
              (fun b Hb => chunks_nonempty _ _ _ (c_batch_pos c) Hb) I)
    as (f1 & W1 & Wcx1 & Wown1 & Wf1).
  destruct cx1.
  - (* context ended while the first owner ran *)
    destruct (run_owners_cancelled g orc) as [st2 E2]. rewrite E2 in E.
    inversion E; subst atts st cxf. clear E. rewrite app_nil_r.
    split; [exact Wcx1|]. split.
    + eapply Forall_impl; [|exact Wown1]. intros a Ha. left. symmetry. exact Ha.
    + intros o. destruct (N.eq_dec o o1) as [->|Hne].
      * exists f1. rewrite by_owner_all by exact Wown1. split; [exact W1| discriminate].
      * exists []. rewrite by_owner_none; [split; [reflexivity| discriminate]|].
        eapply Forall_impl; [|exact Wown1]. intros a Ha. congruence.
  - destruct (run_owners c ev g orc false) as [[l2 st2] cx2] eqn:E2.
    inversion E; subst atts st cxf. clear E.
    destruct (IH orc l2 st2 cx2 E2 KO' OK) as (C2 & O2 & F2).
    split; [rewrite existsb_app, <- Wcx1, <- C2; reflexivity|]. split.
    + apply Forall_app. split.
      * eapply Forall_impl; [|exact Wown1]. intros a Ha. left. symmetry. exact Ha.
      * eapply Forall_impl; [|exact O2]. intros a Ha. right. exact Ha.
    + intros o. rewrite by_owner_app. destruct (N.eq_dec o o1) as [->|Hne].
      * exists f1. rewrite by_owner_all by exact Wown1.
        rewrite by_owner_none, app_nil_r.
        -- split; [exact W1|]. intros _. cbn [g_get]. rewrite N.eqb_refl. apply Wf1. reflexivity.
        -- eapply Forall_impl; [|exact O2]. intros a Ha E. apply Hn1. rewrite <- E. exact Ha.
      * destruct (F2 o) as (f2 & W2 & Wf2). exists f2.
        rewrite by_owner_none; [|eapply Forall_impl; [|exact Wown1]; intros a Ha; congruence].
        cbn [app g_get]. assert (E : o1 =? o = false) by (apply N.eqb_neq; congruence).
        rewrite E. split; [exact W2| exact Wf2].
Qed.

Lemma run_owners_incl : forall g orc cx atts st cxf,
  run_owners c ev g orc cx = (atts, st, cxf) ->
  keys_ok g -> (forall o, orc_ok (orc o)) ->
  (forall o, In o (g_keys g) -> remote_contract (g_get o g) (orc o)) ->
  Forall (fun a => In (a_owner a) (g_keys g) /\ incl (att_routes a) (g_get (a_owner a) g)) atts.
Proof.
  induction g as [|[o1 rs1] g IH]; intros orc cx atts st cxf E KO OK RC; cbn [run_owners] in E.
  { inversion E; subst. constructor. }
  destruct (keys_ok_tail _ _ _ KO) as (KO' & Hn1 & Ho1 & Hrs1).
  destruct (run_batches c ev o1 (chunks (c_batch c) rs1) (orc o1) cx) as [[l st1] cx1] eqn:E1.
  destruct (run_owners c ev g orc cx1) as [[l2 st2] cx2] eqn:E2.
  inversion E; subst atts st cxf. clear E.
  apply Forall_app. split.
  - assert (A := run_batches_incl c ev o1 rs1 Ho1 _ _ _ _ _ _ E1 (OK o1)).
    pose proof (RC o1 (or_introl eq_refl)) as RC1. cbn [g_get] in RC1. rewrite N.eqb_refl in RC1.
    specialize (A RC1).
    assert (Hb : forall b, In b (chunks (c_batch c) rs1) -> incl b rs1).
    { intros b Hb x Hx. rewrite <- (chunks_concat (c_batch c) rs1 (c_batch_pos c)).
      apply in_concat. exists b. auto. }
    specialize (A Hb). eapply Forall_impl; [|exact A].
    intros a [Ia Ha]. rewrite Ha. cbn [g_get g_keys map fst]. rewrite N.eqb_refl.
    split; [left; reflexivity| exact Ia].
  - assert (RC' : forall o, In o (g_keys g) -> remote_contract (g_get o g) (orc o)).
    { intros o Hin. pose proof (RC o (or_intror Hin)) as R0. cbn [g_get] in R0.
      assert (E : o1 =? o = false) by (apply N.eqb_neq; intro; subst; contradiction).
      rewrite E in R0. exact R0. }
    assert (A := IH orc cx1 l2 st2 cx2 E2 KO' OK RC').
    eapply Forall_impl; [|exact A]. intros a [Ka Ia].
    split; [right; exact Ka|]. cbn [g_get].
    assert (E : o1 =? a_owner a = false) by (apply N.eqb_neq; intro E0; rewrite <- E0 in Ka; contradiction).
    rewrite E. exact Ia.
Qed.

End Owners.
