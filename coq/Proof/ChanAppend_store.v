(* Proof/ChanAppend_store.v — the strict-store ports of Model/ChanAppend_C29.v (the
   fake cluster node of the harness on the real pkg/db/message store, with ALL
   its scripted faults: failure before commit, failure after commit, short result
   vectors, item-local errors, lookup errors, spurious misses) satisfy the
   appender contract the C29 theorems assume.  So the hypotheses are satisfiable,
   and by an instance the harness ties to the code on every run. *)
From WK Require Import Base.Base Gen.Consts_C29 Model.ChanAppend Model.ChanAppend_C29
     Proof.ChanAppend_coalesce Proof.ChanAppend_run Proof.ChanAppend_pipeline.
Open Scope N_scope.

(* sequences are exactly 1, 2, 3, ... *)
Definition contig (log : list prec) : Prop :=
  forall i r, nth_error log i = Some r -> pr_seq r = N.of_nat i + 1.

Lemma contig_nil : contig [].
Proof. intros i r H. destruct i; discriminate. Qed.

Lemma stamp_length : forall recs sq, length (stamp sq recs) = length recs.
Proof. induction recs as [|it r IH]; intro sq; cbn [stamp length]; [reflexivity|]. rewrite IH. reflexivity. Qed.

Lemma stamp_nth : forall recs sq i,
  nth_error (stamp sq recs) i =
  match nth_error recs i with
  | Some it => Some (PRec (sq + N.of_nat i) (ps_mid it) (ps_tag it) (ps_cmd it))
  | None => None
  end.
Proof.
  induction recs as [|it r IH]; intros sq i; [destruct i; reflexivity|].
  destruct i as [|i]; cbn [stamp nth_error].
  - replace (sq + N.of_nat 0) with sq by lia. reflexivity.
  - rewrite IH. destruct (nth_error r i); [|reflexivity]. do 2 f_equal. lia.
Qed.

Lemma stamp_in recs sq r :
  In r (stamp sq recs) -> exists i it, nth_error recs i = Some it
     /\ r = PRec (sq + N.of_nat i) (ps_mid it) (ps_tag it) (ps_cmd it).
Proof.
  intro H. apply In_nth_error in H. destruct H as [i Hi]. rewrite stamp_nth in Hi.
  destruct (nth_error recs i) as [it|] eqn:E; [|discriminate]. inversion Hi. eauto.
Qed.

Lemma contig_app log recs : contig log -> contig (log ++ stamp (N.of_nat (length log) + 1) recs).
Proof.
  intros C i r H. destruct (Nat.lt_ge_cases i (length log)) as [L|L].
  - rewrite nth_error_app1 in H by exact L. apply C. exact H.
  - rewrite nth_error_app2 in H by exact L. rewrite stamp_nth in H.
    destruct (nth_error recs (i - length log)); [|discriminate]. inversion H. cbn [pr_seq]. lia.
Qed.

Lemma contig_bound log r : contig log -> In r log -> pr_seq r <= N.of_nat (length log).
Proof.
  intros C H. apply In_nth_error in H. destruct H as [i Hi].
  assert (L : (i < length log)%nat) by (apply nth_error_Some; congruence).
  rewrite (C _ _ Hi). lia.
Qed.

Lemma existsb_false {A} (f : A -> bool) l : existsb f l = false -> forall x, In x l -> f x = false.
Proof.
  intros H x Hx. destruct (f x) eqn:E; [|reflexivity].
  assert (existsb f l = true) by (apply existsb_exists; eauto). congruence.
Qed.

(* what ChannelLog.validateAppendRow guarantees about sender + client-number pairs *)
Lemma validate_keys log alloc : forall recs ids keys,
  store_validate log alloc ids keys recs = true ->
  (forall it, In it recs -> keyed (ps_cmd it) = true ->
     (forall r, In r log -> same_key (ps_cmd it) (pr_cmd r) = false)
     /\ (forall c, In c keys -> same_key (ps_cmd it) c = false))
  /\ (forall i j a b, (i < j)%nat -> nth_error recs i = Some a -> nth_error recs j = Some b ->
        keyed (ps_cmd a) = true -> same_key (ps_cmd a) (ps_cmd b) = false).
Proof.
  induction recs as [|it r IH]; intros ids keys H; cbn [store_validate] in H.
  - split; [intros it []|intros i j a b _ Hi; destruct i; discriminate].
  - repeat (apply andb_true_iff in H; destruct H as [H ?]).
    match goal with Ht : store_validate _ _ _ _ r = true |- _ => destruct (IH _ _ Ht) as [I1 I2] end.
    match goal with Hk : (if keyed (ps_cmd it) then _ else true) = true |- _ => rename Hk into Hkey end.
    split.
    + intros x [Hx|Hx] Kx.
      * subst x. rewrite Kx in Hkey. apply andb_true_iff in Hkey. destruct Hkey as [K1 K2].
        apply negb_true_iff in K1. apply negb_true_iff in K2. split.
        -- intros r0 Hr0. apply (existsb_false _ _ K2 r0 Hr0).
        -- intros c Hc. apply (existsb_false _ _ K1 c Hc).
      * destruct (I1 x Hx Kx) as [J1 J2]. split; [exact J1|].
        intros c Hc. apply J2. destruct (keyed (ps_cmd it)); [right; exact Hc|exact Hc].
    + intros i j a b Hij Ha Hb Ka. destruct j as [|j]; [lia|]. cbn [nth_error] in Hb.
      destruct i as [|i]; cbn [nth_error] in Ha.
      * inversion Ha; subst a. destruct (same_key (ps_cmd it) (ps_cmd b)) eqn:S; [|reflexivity].
        exfalso. assert (Kb : keyed (ps_cmd b) = true) by (rewrite <- (same_key_keyed _ _ S); exact Ka).
        apply nth_error_In in Hb. destruct (I1 b Hb Kb) as [_ J2].
        rewrite Ka in J2. specialize (J2 (ps_cmd it) (or_introl eq_refl)).
        rewrite same_key_sym in J2. congruence.
      * apply (I2 i j a b); [lia|exact Ha|exact Hb|exact Ka].
Qed.

Lemma stamp_seqs recs sq : NoDup (map pr_seq (stamp sq recs)).
Proof.
  revert sq. induction recs as [|it r IH]; intro sq; cbn [stamp map]; constructor; [|apply IH].
  intro Hin. apply in_map_iff in Hin. destruct Hin as [x [E Hx]]. apply stamp_in in Hx.
  destruct Hx as [i [y [_ Ey]]]. subst x. cbn [pr_seq] in E. lia.
Qed.

Lemma stored_ext_ok log alloc recs items :
  contig log -> store_validate log alloc [] [] recs = true ->
  (forall it, In it recs -> In it items) ->
  ext_ok log (stamp (N.of_nat (length log) + 1) recs) items.
Proof.
  intros C V Hsub. destruct (validate_keys _ _ _ _ _ V) as [V1 V2]. constructor.
  - intros r Hr. apply stamp_in in Hr. destruct Hr as [i [it [Hi E]]]. subst r.
    exists it. split; [apply Hsub; eapply nth_error_In; eauto|]. split; reflexivity.
  - apply stamp_seqs.
  - intros r r' Hr Hr'. apply stamp_in in Hr'. destruct Hr' as [i [it [_ E]]]. subst r'.
    pose proof (contig_bound _ _ C Hr). cbn [pr_seq]. lia.
  - intros r r' Hr Hr' K. apply stamp_in in Hr. destruct Hr as [i [it [Hi E]]]. subst r.
    cbn [pr_cmd] in *. apply (proj1 (V1 it (nth_error_In _ _ Hi) K)). exact Hr'.
  - intros r r' Hr Hr' K S. apply stamp_in in Hr. apply stamp_in in Hr'.
    destruct Hr as [i [a [Hi E]]]. destruct Hr' as [j [b [Hj E']]]. subst r r'. cbn [pr_cmd] in *.
    destruct (Nat.lt_trichotomy i j) as [L|[L|L]].
    + rewrite (V2 i j a b L Hi Hj K) in S. discriminate.
    + subst j. rewrite Hi in Hj. inversion Hj. reflexivity.
    + assert (Kb : keyed (ps_cmd b) = true) by (rewrite <- (same_key_keyed _ _ S); exact K).
      rewrite same_key_sym in S. rewrite (V2 j i b a L Hj Hi Kb) in S. discriminate.
Qed.

Lemma nth_error_remove_nth {A} (l : list A) : forall j i,
  nth_error (remove_nth j l) i = if (i <? j)%nat then nth_error l i else nth_error l (S i).
Proof.
  induction l as [|x l IH]; intros j i.
  - destruct j; cbn [remove_nth]; destruct (i <? _)%nat; destruct i; reflexivity.
  - destruct j as [|j]; cbn [remove_nth].
    + reflexivity.
    + destruct i as [|i]; cbn [nth_error]; [reflexivity|]. rewrite IH.
      change (S i <? S j)%nat with (i <? j)%nat. reflexivity.
Qed.

Lemma nth_error_insert_nth {A} (x : A) : forall j l i,
  (j <= length l)%nat ->
  nth_error (insert_nth j x l) i =
  if (i <? j)%nat then nth_error l i else if (i =? j)%nat then Some x else nth_error l (i - 1).
Proof.
  induction j as [|j IH]; intros l i H; cbn [insert_nth].
  - destruct i as [|i]; cbn [nth_error Nat.ltb Nat.leb Nat.eqb Nat.sub]; [reflexivity|].
    rewrite ?Nat.sub_0_r. reflexivity.
  - destruct l as [|y l]; [cbn in H; lia|]. destruct i as [|i]; cbn [nth_error]; [reflexivity|].
    rewrite IH by (cbn in H; lia).
    change (S i <? S j)%nat with (i <? j)%nat. change (S i =? S j)%nat with (i =? j)%nat.
    destruct (i <? j)%nat eqn:E1; [reflexivity|]. destruct (i =? j)%nat eqn:E2; [reflexivity|].
    apply Nat.ltb_ge in E1. apply Nat.eqb_neq in E2.
    destruct i as [|i]; [lia|]. cbn [Nat.sub nth_error]. rewrite Nat.sub_0_r. reflexivity.
Qed.

Lemma nth_error_firstn_some {A} (l : list A) k i a : nth_error (firstn k l) i = Some a -> nth_error l i = Some a.
Proof.
  revert k i. induction l as [|x l IH]; intros k i H; [rewrite firstn_nil in H; destruct i; discriminate|].
  destruct k as [|k]; [destruct i; discriminate|]. destruct i as [|i]; cbn [firstn nth_error] in *; [exact H|].
  eapply IH; eauto.
Qed.

Definition results_of (stored : list prec) : list ares := map (fun p => ARes (pr_id p) (pr_seq p) 0) stored.

Lemma results_nth recs sq i a :
  nth_error (results_of (stamp sq recs)) i = Some a ->
  exists it, nth_error recs i = Some it /\ a = ARes (ps_mid it) (sq + N.of_nat i) 0.
Proof.
  unfold results_of. rewrite nth_error_map, stamp_nth.
  destruct (nth_error recs i) as [it|]; [|discriminate]. cbn. intro H. inversion H. eauto.
Qed.

Lemma norm_cls_nz cls : norm_cls cls <> 0.
Proof. unfold norm_cls. destruct (cls =? 0) eqn:E; [discriminate|apply N.eqb_neq in E; exact E]. Qed.

(* the successes of an Ok reply over the whole request *)
Lemma plain_results items base rs :
  (forall i a, nth_error rs i = Some a -> nth_error (results_of (stamp base items)) i = Some a) ->
  (forall i it a, nth_error items i = Some it -> nth_error rs i = Some a -> a_err a = 0 ->
                  In (PRec (a_seq a) (a_id a) (ps_tag it) (ps_cmd it)) (stamp base items))
  /\ (forall i j ai aj, (i < j)%nat -> nth_error rs i = Some ai -> nth_error rs j = Some aj ->
                        a_err ai = 0 -> a_err aj = 0 -> a_seq ai < a_seq aj).
Proof.
  intro Hrs. split.
  - intros i it a Hi Ha _. apply Hrs in Ha. apply results_nth in Ha. destruct Ha as [it' [Hi' Ea]].
    rewrite Hi in Hi'. inversion Hi'; subst it' a. cbn [a_seq a_id].
    eapply nth_error_In. rewrite stamp_nth, Hi. reflexivity.
  - intros i j ai aj Hij Hi Hj _ _. apply Hrs in Hi. apply Hrs in Hj.
    apply results_nth in Hi. apply results_nth in Hj.
    destruct Hi as [x [_ Ei]]. destruct Hj as [y [_ Ej]]. subst ai aj. cbn [a_seq]. lia.
Qed.

Theorem ss_append_contract : append_contract sstore ss_do_append ss_log contig.
Proof.
  intros s q rep s' C H. unfold ss_do_append in H.
  set (s0 := SS (ss_log s) (tl (ss_app s)) (ss_look s)
               (PCApp (q_attempt q) (q_alloc q) (req_recs (q_items q)) :: ss_calls s)) in *.
  assert (Hnone : forall cls, cls <> 0 -> (rep, s') = (AErr cls, s0) ->
          exists ext, ss_log s' = ss_log s ++ ext /\ contig (ss_log s') /\ ext_ok (ss_log s) ext (q_items q) /\
            match rep with AOk _ => False | AErr c => c <> 0 end).
  { intros cls Hc E. inversion E; subst. exists []. rewrite app_nil_r. cbn [ss_log s0].
    split; [reflexivity|]. split; [exact C|]. split; [apply ext_ok_nil|exact Hc]. }
  set (f := hd FOk (ss_app s)) in *.
  set (skip := match f with
               | FItemErr j _ => if j <? N.of_nat (length (q_items q)) then Some (N.to_nat j) else None
               | _ => None end) in *.
  set (recs := match skip with Some j => remove_nth j (q_items q) | None => q_items q end) in *.
  assert (Hsub : forall it, In it recs -> In it (q_items q)).
  { intros it Hit. unfold recs in Hit. destruct skip as [j|]; [|exact Hit].
    apply In_nth_error in Hit. destruct Hit as [i Hi]. rewrite nth_error_remove_nth in Hi.
    destruct (i <? j)%nat; eapply nth_error_In; eauto. }
  destruct f as [|cls|cls|k|j cls] eqn:Ef.
  2:{ destruct (Hnone _ (norm_cls_nz cls) (eq_sym H)) as [ext [X1 [X2 [X3 X4]]]].
      exists ext. inversion H; subst. auto. }
  all: destruct (store_validate (ss_log s) (q_alloc q) [] [] recs) eqn:V;
    [|destruct (Hnone E_APPEND_FAILED ltac:(discriminate) (eq_sym H)) as [ext [X1 [X2 [X3 X4]]]];
      exists ext; inversion H; subst; auto].
  all: set (base := N.of_nat (length (ss_log s)) + 1) in *.
  all: set (stored := stamp base recs) in *.
  all: pose proof (stored_ext_ok _ _ _ _ C V Hsub) as Hext; fold base in Hext; fold stored in Hext.
  all: pose proof (contig_app _ recs C) as C'; fold base in C'; fold stored in C'.
  all: assert (Hplain : skip = None -> forall rs,
         (forall i a, nth_error rs i = Some a -> nth_error (results_of stored) i = Some a) ->
         (forall i it a, nth_error (q_items q) i = Some it -> nth_error rs i = Some a -> a_err a = 0 ->
                         In (PRec (a_seq a) (a_id a) (ps_tag it) (ps_cmd it)) stored)
         /\ (forall i j ai aj, (i < j)%nat -> nth_error rs i = Some ai -> nth_error rs j = Some aj ->
                               a_err ai = 0 -> a_err aj = 0 -> a_seq ai < a_seq aj))
    by (intros Hs rs Hrs; unfold stored, recs in *; rewrite Hs in *; apply plain_results; exact Hrs).
  - (* FOk *)
    inversion H; subst. exists stored. cbn [ss_log]. split; [reflexivity|]. split; [exact C'|]. split; [exact Hext|].
    apply (Hplain eq_refl). auto.
  - (* FFailAfter *)
    inversion H; subst. exists stored. cbn [ss_log]. split; [reflexivity|]. split; [exact C'|]. split; [exact Hext|].
    apply norm_cls_nz.
  - (* FShort *)
    inversion H; subst. exists stored. cbn [ss_log]. split; [reflexivity|]. split; [exact C'|]. split; [exact Hext|].
    apply (Hplain eq_refl). intros i a Hi. eapply nth_error_firstn_some; eauto.
  - (* FItemErr *)
    unfold skip in *. destruct (j <? N.of_nat (length (q_items q))) eqn:Ej.
    + apply N.ltb_lt in Ej. inversion H; subst. exists stored. cbn [ss_log].
      split; [reflexivity|]. split; [exact C'|]. split; [exact Hext|].
      set (jj := N.to_nat j) in *.
      assert (Hjl : (jj <= length (results_of stored))%nat).
      { unfold results_of, stored, recs. rewrite map_length, stamp_length.
        assert (Hl : forall (l : list psend) n, (n < length l)%nat -> length (remove_nth n l) = (length l - 1)%nat).
        { induction l as [|x l IHl]; intros n Hn; [cbn in Hn; lia|]. destruct n; cbn [remove_nth length]; [lia|].
          rewrite IHl by (cbn in Hn; lia). cbn in Hn. lia. }
        rewrite Hl by lia. lia. }
      assert (Hres : forall i a, nth_error (insert_nth jj (ARes 0 0 (norm_cls cls)) (results_of stored)) i = Some a ->
                a_err a = 0 -> exists it i', nth_error (q_items q) i = Some it /\ nth_error recs i' = Some it
                                      /\ a = ARes (ps_mid it) (base + N.of_nat i') 0
                                      /\ i' = (if (i <? jj)%nat then i else (i - 1)%nat) /\ i <> jj).
      { intros i a Hi Ha. rewrite nth_error_insert_nth in Hi by exact Hjl.
        destruct (i <? jj)%nat eqn:E1.
        - apply results_nth in Hi. destruct Hi as [it [Hr Ea]]. exists it, i.
          unfold recs in Hr. rewrite nth_error_remove_nth, E1 in Hr.
          apply Nat.ltb_lt in E1. repeat split; auto. unfold recs. rewrite nth_error_remove_nth.
          replace (i <? jj)%nat with true by (symmetry; apply Nat.ltb_lt; exact E1). exact Hr. lia.
        - destruct (i =? jj)%nat eqn:E2.
          + inversion Hi; subst a. cbn [a_err] in Ha. exfalso. apply (norm_cls_nz cls). exact Ha.
          + apply Nat.ltb_ge in E1. apply Nat.eqb_neq in E2.
            apply results_nth in Hi. destruct Hi as [it [Hr Ea]]. exists it, (i - 1)%nat.
            pose proof Hr as Hr0. unfold recs in Hr. rewrite nth_error_remove_nth in Hr.
            replace (i - 1 <? jj)%nat with false in Hr by (symmetry; apply Nat.ltb_ge; lia).
            replace (S (i - 1)) with i in Hr by lia. repeat split; auto. }
      split.
      * intros i it a Hi Ha Hz. destruct (Hres i a Ha Hz) as [it' [i' [R1 [R2 [R3 _]]]]].
        rewrite Hi in R1. inversion R1; subst it'. subst a. cbn [a_seq a_id].
        eapply nth_error_In. unfold stored. rewrite stamp_nth, R2. reflexivity.
      * intros i1 i2 a1 a2 Hlt H1 H2 Z1 Z2.
        destruct (Hres i1 a1 H1 Z1) as [x1 [k1 [_ [_ [E1 [K1 N1]]]]]].
        destruct (Hres i2 a2 H2 Z2) as [x2 [k2 [_ [_ [E2 [K2 N2]]]]]].
        subst a1 a2 k1 k2. cbn [a_seq].
        destruct (Nat.ltb_spec i1 jj); destruct (Nat.ltb_spec i2 jj); lia.
    + inversion H; subst. exists stored. cbn [ss_log]. split; [reflexivity|]. split; [exact C'|]. split; [exact Hext|].
      apply (Hplain eq_refl). auto.
Qed.

Theorem ss_lookup_contract : lookup_contract sstore ss_do_nlookup idempotencyPayloadHash ss_log.
Proof.
  intros s u c rep s' H. unfold ss_do_nlookup in H.
  destruct (hd LFOk (ss_look s)).
  - destruct (find (fun p => bytes_eqb (c_uid (pr_cmd p)) u && bytes_eqb (c_cno (pr_cmd p)) c) (ss_log s)) as [p|] eqn:F.
    + inversion H; subst. cbn [ss_log]. split; [reflexivity|].
      apply find_some in F. destruct F as [F1 F2]. apply andb_true_iff in F2. destruct F2 as [F2 F3].
      apply bytes_eqb_eq in F2. apply bytes_eqb_eq in F3. exists p. repeat split; auto.
    + inversion H; subst. cbn [ss_log]. split; [reflexivity|exact I].
  - inversion H; subst. cbn [ss_log]. split; [reflexivity|exact I].
  - inversion H; subst. cbn [ss_log]. split; [reflexivity|discriminate].
Qed.

(* ---- the pipeline over the strict store ------------------------------------------------------ *)

Definition ss_reach (af : list afault) (lf : list lfault) (hw limit : Z) (evs : list pev) : pstate sstore :=
  reach sstore ss_do_append ss_do_nlookup idempotencyPayloadHash logicalSendFingerprint (SS [] af lf []) hw limit evs.

(* C29-K2: one batch [keyed; KEYLESS; keyed], the append commits and then reports
   ErrAppendFailed.  The keyed siblings are recovered by lookup, the keyless item
   misses its lookup and is appended a second time: it is stored twice and its
   sequence (4) is above that of the later-submitted third item (3). *)
Definition k2_events : list pev :=
  [PSubmit [(Cmd [117; 49] [97] [112], 101, true, 0);
            (Cmd [117; 50] [] [113], 102, true, 0);
            (Cmd [117; 51] [99] [114], 103, true, 0)];
   PAdvance; PRun 0; PApply 0].

Definition dflt_prec : prec := PRec 0 0 0 dflt_cmd.

Theorem seq_increasing_refuted :
  let p := ss_reach [FFailAfter E_APPEND_FAILED] [] 0 1 k2_events in
  quiescent sstore p = true /\
  exists c1 c2, In c1 (p_delivered p) /\ In c2 (p_delivered p)
    /\ is_fresh sstore ss_log p c1 /\ is_fresh sstore ss_log p c2
    /\ tagof c1 < tagof c2 /\ r_seq (cp_res c2) < r_seq (cp_res c1).
Proof.
  intro p. split; [vm_compute; reflexivity|].
  exists (nth 1 (p_delivered p) dflt_comp), (nth 2 (p_delivered p) dflt_comp).
  split; [apply nth_In; vm_compute; lia|]. split; [apply nth_In; vm_compute; lia|].
  split.
  { split; [vm_compute; reflexivity|]. exists (nth 3 (ss_log (p_store p)) dflt_prec).
    split; [apply nth_In; vm_compute; lia|]. split; vm_compute; reflexivity. }
  split.
  { split; [vm_compute; reflexivity|]. exists (nth 2 (ss_log (p_store p)) dflt_prec).
    split; [apply nth_In; vm_compute; lia|]. split; vm_compute; reflexivity. }
  split; vm_compute; reflexivity.
Qed.

(* the same run: the keyless send is in the log twice (same message id, two sequences) *)
Theorem keyless_stored_twice :
  let p := ss_reach [FFailAfter E_APPEND_FAILED] [] 0 1 k2_events in
  map (fun r => (pr_seq r, pr_id r, pr_tag r)) (ss_log (p_store p)) = [(1, 101, 0); (2, 102, 1); (3, 103, 2); (4, 102, 1)].
Proof. vm_compute. reflexivity. Qed.

(* non-vacuity of the hypotheses of the pipeline theorems: the strict store starts
   empty and well formed, and its ports satisfy both contracts *)
Theorem ss_hypotheses : forall af lf,
  ss_log (SS [] af lf []) = [] /\ contig []
  /\ append_contract sstore ss_do_append ss_log contig
  /\ lookup_contract sstore ss_do_nlookup idempotencyPayloadHash ss_log.
Proof.
  intros. split; [reflexivity|]. split; [apply contig_nil|]. split; [apply ss_append_contract|apply ss_lookup_contract].
Qed.
