(* Proof/RuntimeMeta.v — lemmas about Model/RuntimeMeta.v:
   normalization is idempotent, the advance relation is a preorder, and the
   monotonic resolver / retention advance only ever replace a stored row by one
   that advances it. *)
From WK Require Import Base.Base.
From WK Require Import Gen.Consts_C15 Model.RuntimeMeta.
Open Scope N_scope.

(* projections and field updates reduce by [rm_cbn]; nothing arithmetic is unfolded *)
Ltac rm_cbn :=
  cbn [rm_channel_id rm_channel_type rm_channel_epoch rm_leader_epoch rm_route_generation
       rm_replicas rm_isr rm_leader rm_min_isr rm_status rm_features rm_lease_until_ms
       rm_retention_through_seq rm_retention_updated_at_ms rm_write_fence_token
       rm_write_fence_version rm_write_fence_reason rm_write_fence_until_ms
       rm_directory_generation
       set_route_generation set_replicas_isr set_lease_until_ms set_retention set_write_fence
       set_directory_generation] in *.

(* ---- MonotonicResult values are pairwise distinct ----------------------------- *)

Lemma monotonic_results_distinct :
  MonotonicApplied <> MonotonicIgnoredStale /\ MonotonicApplied <> MonotonicConflict
  /\ MonotonicIgnoredStale <> MonotonicConflict /\ MonotonicApplied <> 0.
Proof. repeat split; vm_compute; discriminate. Qed.

(* ---- normalizeUint64Set --------------------------------------------------------- *)

(* strictly ascending *)
Fixpoint ssorted (l : list N) : Prop :=
  match l with
  | [] => True
  | x :: r => match r with [] => True | y :: _ => x < y end /\ ssorted r
  end.

Lemma insert_uniq_head x l :
  match insert_uniq x l with
  | [] => False
  | h :: _ => h = x \/ (exists y r, l = y :: r /\ h = y /\ y < x)
  end.
Proof.
  destruct l as [|y r]; cbn [insert_uniq]; [left; reflexivity|].
  destruct (x <? y) eqn:Hlt; [left; reflexivity|].
  destruct (x =? y) eqn:Heq.
  - apply N.eqb_eq in Heq. left. symmetry. exact Heq.
  - right. exists y, r. apply N.ltb_ge in Hlt. apply N.eqb_neq in Heq.
    repeat split. lia.
Qed.

Lemma insert_uniq_ssorted x : forall l, ssorted l -> ssorted (insert_uniq x l).
Proof.
  induction l as [|y r IH]; intro Hs; [cbn; auto|].
  cbn [insert_uniq].
  destruct (x <? y) eqn:Hlt.
  - apply N.ltb_lt in Hlt. cbn [ssorted]. split; [exact Hlt|exact Hs].
  - destruct (x =? y) eqn:Heq; [exact Hs|].
    apply N.ltb_ge in Hlt. apply N.eqb_neq in Heq.
    destruct Hs as [Hh Hr]. specialize (IH Hr).
    pose proof (insert_uniq_head x r) as Hhead.
    destruct (insert_uniq x r) as [|h t] eqn:Hins; [contradiction|].
    cbn [ssorted]. split; [|exact IH].
    destruct Hhead as [-> | (y' & r' & -> & -> & Hy')]; [lia|exact Hh].
Qed.

Lemma normalizeUint64Set_ssorted l : ssorted (normalizeUint64Set l).
Proof.
  induction l as [|x r IH]; [cbn; auto|].
  cbn [normalizeUint64Set fold_right]. apply insert_uniq_ssorted. exact IH.
Qed.

Lemma normalizeUint64Set_fixed : forall l, ssorted l -> normalizeUint64Set l = l.
Proof.
  induction l as [|x r IH]; intro Hs; [reflexivity|].
  cbn [normalizeUint64Set fold_right]. fold (normalizeUint64Set r).
  destruct Hs as [Hh Hr]. rewrite (IH Hr).
  destruct r as [|y t]; [reflexivity|].
  cbn [insert_uniq]. apply N.ltb_lt in Hh. rewrite Hh. reflexivity.
Qed.

Lemma normalizeUint64Set_idem l : normalizeUint64Set (normalizeUint64Set l) = normalizeUint64Set l.
Proof. apply normalizeUint64Set_fixed, normalizeUint64Set_ssorted. Qed.

(* ---- normalized rows ------------------------------------------------------------ *)

(* what normalizeChannelRuntimeMeta establishes; every stored row has it *)
Definition rm_normalized (m : runtime_meta) : Prop :=
  ssorted (rm_replicas m) /\ ssorted (rm_isr m) /\ rm_route_generation m <> 0
  /\ (rm_channel_type m = personChannelType -> rm_directory_generation m <> 0).

Lemma maxUint64_ge_1 a b c : maxUint64 [a; b; c; 1] <> 0.
Proof. unfold maxUint64. cbn [fold_left]. lia. Qed.

Lemma normalize_normalized m : rm_normalized (normalizeChannelRuntimeMeta m).
Proof.
  unfold normalizeChannelRuntimeMeta, rm_normalized.
  rm_cbn.
  destruct (rm_route_generation m =? 0) eqn:Hrg; rm_cbn;
    destruct ((rm_channel_type m =? personChannelType)%Z && (rm_directory_generation m =? 0)) eqn:Hdg;
    rm_cbn; (split; [apply normalizeUint64Set_ssorted|]); (split; [apply normalizeUint64Set_ssorted|]);
    (split; [first [apply maxUint64_ge_1 | apply N.eqb_neq; exact Hrg]|]);
    intro Hty; try discriminate.
  - apply andb_false_iff in Hdg. destruct Hdg as [Hdg|Hdg].
    + apply Z.eqb_neq in Hdg. contradiction.
    + apply N.eqb_neq in Hdg. exact Hdg.
  - apply andb_false_iff in Hdg. destruct Hdg as [Hdg|Hdg].
    + apply Z.eqb_neq in Hdg. contradiction.
    + apply N.eqb_neq in Hdg. exact Hdg.
Qed.

Lemma normalized_fixed m : rm_normalized m -> normalizeChannelRuntimeMeta m = m.
Proof.
  intros (Hr & Hi & Hrg & Hdg).
  unfold normalizeChannelRuntimeMeta. rm_cbn.
  rewrite (normalizeUint64Set_fixed _ Hr), (normalizeUint64Set_fixed _ Hi).
  apply N.eqb_neq in Hrg. rewrite Hrg. rm_cbn.
  destruct ((rm_channel_type m =? personChannelType)%Z) eqn:Hty; cbn [andb].
  - apply Z.eqb_eq in Hty. specialize (Hdg Hty). apply N.eqb_neq in Hdg. rewrite Hdg.
    destruct m; reflexivity.
  - destruct m; reflexivity.
Qed.

Lemma normalize_idem m :
  normalizeChannelRuntimeMeta (normalizeChannelRuntimeMeta m) = normalizeChannelRuntimeMeta m.
Proof. apply normalized_fixed, normalize_normalized. Qed.

(* fields that normalization does not touch *)
Lemma normalize_keeps m :
  let n := normalizeChannelRuntimeMeta m in
  rm_channel_id n = rm_channel_id m /\ rm_channel_type n = rm_channel_type m
  /\ rm_channel_epoch n = rm_channel_epoch m /\ rm_leader_epoch n = rm_leader_epoch m
  /\ rm_leader n = rm_leader m /\ rm_lease_until_ms n = rm_lease_until_ms m
  /\ rm_retention_through_seq n = rm_retention_through_seq m
  /\ rm_write_fence_version n = rm_write_fence_version m.
Proof.
  unfold normalizeChannelRuntimeMeta. rm_cbn.
  destruct (rm_route_generation m =? 0); rm_cbn;
    destruct ((rm_channel_type m =? personChannelType)%Z && (rm_directory_generation m =? 0));
    rm_cbn; repeat split; reflexivity.
Qed.

(* ---- equality tests ---------------------------------------------------------------- *)

Lemma nlist_eqb_eq a b : nlist_eqb a b = true <-> a = b.
Proof. apply list_eqb_spec. intros. apply N.eqb_eq. Qed.

Lemma nlist_eqb_refl a : nlist_eqb a a = true.
Proof. apply nlist_eqb_eq. reflexivity. Qed.

Lemma bytes_eqb_refl a : bytes_eqb a a = true.
Proof. apply bytes_eqb_eq. reflexivity. Qed.

Lemma runtime_meta_eqb_refl m : runtime_meta_eqb m m = true.
Proof.
  unfold runtime_meta_eqb.
  rewrite ?bytes_eqb_refl, ?nlist_eqb_refl, ?N.eqb_refl, ?Z.eqb_refl. reflexivity.
Qed.

Lemma runtime_meta_eqb_eq a b : runtime_meta_eqb a b = true -> a = b.
Proof.
  unfold runtime_meta_eqb. intro H.
  repeat (apply andb_true_iff in H; let H' := fresh "E" in destruct H as [H H']).
  destruct a, b. rm_cbn.
  repeat match goal with
         | E : bytes_eqb _ _ = true |- _ => apply bytes_eqb_eq in E
         | E : nlist_eqb _ _ = true |- _ => apply nlist_eqb_eq in E
         | E : N.eqb _ _ = true |- _ => apply N.eqb_eq in E
         | E : Z.eqb _ _ = true |- _ => apply Z.eqb_eq in E
         end.
  subst. reflexivity.
Qed.

Lemma rm_key_eqb_eq a b : rm_key_eqb a b = true <-> a = b.
Proof.
  unfold rm_key_eqb. split.
  - intro H. apply andb_true_iff in H. destruct H as [H Ht].
    apply andb_true_iff in H. destruct H as [Hs Hi].
    apply N.eqb_eq in Hs. apply bytes_eqb_eq in Hi. apply Z.eqb_eq in Ht.
    destruct a, b. cbn in *. subst. reflexivity.
  - intros ->. rewrite N.eqb_refl, bytes_eqb_refl, Z.eqb_refl. reflexivity.
Qed.

Lemma rm_key_eqb_refl k : rm_key_eqb k k = true.
Proof. apply rm_key_eqb_eq. reflexivity. Qed.

Lemma rm_key_eqb_sym a b : rm_key_eqb a b = rm_key_eqb b a.
Proof.
  destruct (rm_key_eqb a b) eqn:H1, (rm_key_eqb b a) eqn:H2; try reflexivity.
  - apply rm_key_eqb_eq in H1. subst. rewrite rm_key_eqb_refl in H2. discriminate.
  - apply rm_key_eqb_eq in H2. subst. rewrite rm_key_eqb_refl in H1. discriminate.
Qed.

(* ---- the store ------------------------------------------------------------------------ *)

Lemma store_get_put s k m k' :
  store_get (store_put s k m) k' = if rm_key_eqb k k' then Some m else store_get s k'.
Proof.
  induction s as [|[k0 m0] r IH].
  - cbn [store_put store_get]. reflexivity.
  - cbn [store_put]. destruct (rm_key_eqb k0 k) eqn:H0.
    + apply rm_key_eqb_eq in H0. subst k0. cbn [store_get].
      destruct (rm_key_eqb k k'); reflexivity.
    + cbn [store_get]. destruct (rm_key_eqb k0 k') eqn:H1.
      * apply rm_key_eqb_eq in H1. subst k'. rewrite rm_key_eqb_sym, H0. reflexivity.
      * exact IH.
Qed.

Lemma store_get_del s k k' :
  store_get (store_del s k) k' = if rm_key_eqb k k' then None else store_get s k'.
Proof.
  induction s as [|[k0 m0] r IH].
  - cbn. destruct (rm_key_eqb k k'); reflexivity.
  - cbn [store_del]. destruct (rm_key_eqb k0 k) eqn:H0.
    + apply rm_key_eqb_eq in H0. subst k0. rewrite IH. cbn [store_get].
      destruct (rm_key_eqb k k'); reflexivity.
    + cbn [store_get]. destruct (rm_key_eqb k0 k') eqn:H1.
      * apply rm_key_eqb_eq in H1. subst k'. rewrite rm_key_eqb_sym, H0. reflexivity.
      * exact IH.
Qed.

(* ---- the advance relation as a proposition --------------------------------------------- *)

(* the 14 route fields coincide *)
Definition route_same (a b : runtime_meta) : Prop :=
  rm_channel_epoch a = rm_channel_epoch b /\ rm_leader_epoch a = rm_leader_epoch b
  /\ rm_leader a = rm_leader b /\ rm_replicas a = rm_replicas b /\ rm_isr a = rm_isr b
  /\ rm_min_isr a = rm_min_isr b /\ rm_status a = rm_status b
  /\ rm_lease_until_ms a = rm_lease_until_ms b
  /\ rm_retention_through_seq a = rm_retention_through_seq b
  /\ rm_retention_updated_at_ms a = rm_retention_updated_at_ms b
  /\ rm_write_fence_token a = rm_write_fence_token b
  /\ rm_write_fence_version a = rm_write_fence_version b
  /\ rm_write_fence_reason a = rm_write_fence_reason b
  /\ rm_write_fence_until_ms a = rm_write_fence_until_ms b.

Lemma runtimeRouteChanged_false a b : runtimeRouteChanged a b = false <-> route_same a b.
Proof.
  unfold runtimeRouteChanged, route_same. split.
  - intro H.
    repeat (apply orb_false_iff in H; let H' := fresh "E" in destruct H as [H H']).
    repeat match goal with
           | E : negb _ = false |- _ => apply negb_false_iff in E
           end.
    repeat match goal with
           | E : bytes_eqb _ _ = true |- _ => apply bytes_eqb_eq in E
           | E : nlist_eqb _ _ = true |- _ => apply nlist_eqb_eq in E
           | E : N.eqb _ _ = true |- _ => apply N.eqb_eq in E
           | E : Z.eqb _ _ = true |- _ => apply Z.eqb_eq in E
           end.
    repeat split; assumption.
  - intros (E1 & E2 & E3 & E4 & E5 & E6 & E7 & E8 & E9 & E10 & E11 & E12 & E13 & E14).
    rewrite E1, E2, E3, E4, E5, E6, E7, E8, E9, E10, E11, E12, E13, E14.
    rewrite ?N.eqb_refl, ?Z.eqb_refl, ?nlist_eqb_refl, ?bytes_eqb_refl. reflexivity.
Qed.

Lemma route_same_refl a : route_same a a.
Proof. unfold route_same. repeat split; reflexivity. Qed.

Lemma route_same_trans a b c : route_same a b -> route_same b c -> route_same a c.
Proof.
  unfold route_same.
  intros (E1 & E2 & E3 & E4 & E5 & E6 & E7 & E8 & E9 & E10 & E11 & E12 & E13 & E14)
         (F1 & F2 & F3 & F4 & F5 & F6 & F7 & F8 & F9 & F10 & F11 & F12 & F13 & F14).
  repeat split; etransitivity; eassumption.
Qed.

Lemma runtimeRouteChanged_trans a b c :
  runtimeRouteChanged a c = true -> runtimeRouteChanged a b = true \/ runtimeRouteChanged b c = true.
Proof.
  intro H.
  destruct (runtimeRouteChanged a b) eqn:Hab; [left; reflexivity|].
  destruct (runtimeRouteChanged b c) eqn:Hbc; [right; reflexivity|].
  apply runtimeRouteChanged_false in Hab. apply runtimeRouteChanged_false in Hbc.
  pose proof (route_same_trans _ _ _ Hab Hbc) as Hac.
  apply runtimeRouteChanged_false in Hac. rewrite Hac in H. discriminate.
Qed.

Record advances (a b : runtime_meta) : Prop := Advances {
  adv_epochs : rm_channel_epoch a < rm_channel_epoch b
               \/ (rm_channel_epoch a = rm_channel_epoch b /\ rm_leader_epoch a <= rm_leader_epoch b);
  adv_same_epochs : rm_channel_epoch a = rm_channel_epoch b -> rm_leader_epoch a = rm_leader_epoch b ->
                    rm_leader a = rm_leader b /\ (rm_lease_until_ms a <= rm_lease_until_ms b)%Z;
  adv_retention : rm_retention_through_seq a <= rm_retention_through_seq b;
  adv_fence : rm_write_fence_version a <= rm_write_fence_version b;
  adv_route_generation : rm_route_generation a <= rm_route_generation b;
  adv_route_strict : runtimeRouteChanged a b = true ->
                     rm_route_generation a < rm_route_generation b \/ rm_route_generation a = u64max }.

Lemma runtime_meta_advances_iff a b : runtime_meta_advances a b = true <-> advances a b.
Proof.
  unfold runtime_meta_advances, epochs_lex_le, same_epochs, route_generation_advances. split.
  - intro H.
    apply andb_true_iff in H. destruct H as [H Hrg].
    apply andb_true_iff in H. destruct H as [H Hf].
    apply andb_true_iff in H. destruct H as [H Hr].
    apply andb_true_iff in H. destruct H as [He Hs].
    apply andb_true_iff in Hrg. destruct Hrg as [Hrg1 Hrg2].
    apply N.leb_le in Hr, Hf, Hrg1.
    constructor; try assumption.
    + apply orb_true_iff in He. destruct He as [He|He].
      * left. apply N.ltb_lt. exact He.
      * right. apply andb_true_iff in He. destruct He as [He1 He2].
        apply N.eqb_eq in He1. apply N.leb_le in He2. split; assumption.
    + intros E1 E2. apply N.eqb_eq in E1. apply N.eqb_eq in E2. rewrite E1, E2 in Hs.
      cbn [andb negb orb] in Hs. apply andb_true_iff in Hs. destruct Hs as [Hs1 Hs2].
      apply N.eqb_eq in Hs1. apply Z.leb_le in Hs2. split; assumption.
    + intro Hch. rewrite Hch in Hrg2. cbn [negb orb] in Hrg2.
      apply orb_true_iff in Hrg2. destruct Hrg2 as [Hlt|Heq].
      * left. apply N.ltb_lt. exact Hlt.
      * right. apply N.eqb_eq. exact Heq.
  - intros [He Hs Hr Hf Hrg Hst].
    apply andb_true_iff. split.
    2:{ apply andb_true_iff. split; [apply N.leb_le; exact Hrg|].
        destruct (runtimeRouteChanged a b) eqn:Hch; [|reflexivity].
        cbn [negb orb]. destruct (Hst eq_refl) as [Hlt|Heq].
        - apply N.ltb_lt in Hlt. rewrite Hlt. reflexivity.
        - apply N.eqb_eq in Heq. rewrite Heq. apply orb_true_r. }
    apply andb_true_iff. split; [|apply N.leb_le; exact Hf].
    apply andb_true_iff. split; [|apply N.leb_le; exact Hr].
    apply andb_true_iff. split.
    + destruct He as [He|[He1 He2]].
      * apply N.ltb_lt in He. rewrite He. reflexivity.
      * apply N.eqb_eq in He1. apply N.leb_le in He2. rewrite He1, He2. apply orb_true_r.
    + destruct (rm_channel_epoch a =? rm_channel_epoch b) eqn:E1; [|reflexivity].
      destruct (rm_leader_epoch a =? rm_leader_epoch b) eqn:E2; [|reflexivity].
      cbn [andb negb orb]. apply N.eqb_eq in E1. apply N.eqb_eq in E2.
      destruct (Hs E1 E2) as [Hl Hle].
      apply N.eqb_eq in Hl. apply Z.leb_le in Hle. rewrite Hl, Hle. reflexivity.
Qed.

Lemma advances_refl a : advances a a.
Proof.
  constructor.
  - right. split; [reflexivity|lia].
  - intros _ _. split; [reflexivity|lia].
  - lia.
  - lia.
  - lia.
  - intro H. pose proof (route_same_refl a) as Hs. apply runtimeRouteChanged_false in Hs.
    rewrite Hs in H. discriminate.
Qed.

Lemma advances_trans a b c : advances a b -> advances b c -> advances a c.
Proof.
  intros [He1 Hs1 Hr1 Hf1 Hg1 Hst1] [He2 Hs2 Hr2 Hf2 Hg2 Hst2].
  constructor.
  - lia.
  - intros E1 E2.
    assert (rm_channel_epoch a = rm_channel_epoch b /\ rm_leader_epoch a = rm_leader_epoch b) as [Eb1 Eb2] by lia.
    assert (rm_channel_epoch b = rm_channel_epoch c /\ rm_leader_epoch b = rm_leader_epoch c) as [Ec1 Ec2] by lia.
    destruct (Hs1 Eb1 Eb2) as [L1 Z1]. destruct (Hs2 Ec1 Ec2) as [L2 Z2].
    split; [congruence|lia].
  - lia.
  - lia.
  - lia.
  - intro Hch. destruct (runtimeRouteChanged_trans a b c Hch) as [H|H].
    + destruct (Hst1 H) as [Hlt|Heq]; [left; lia|right; exact Heq].
    + destruct (Hst2 H) as [Hlt|Heq]; [left; lia|].
      destruct (N.eq_dec (rm_route_generation a) u64max) as [Ha|Ha]; [right; exact Ha|left; lia].
Qed.

(* ---- candidate_not_regressing ---------------------------------------------------------- *)

Lemma candidate_not_regressing_iff s c :
  candidate_not_regressing s c = true <->
  (rm_channel_epoch s < rm_channel_epoch c
   \/ (rm_channel_epoch s = rm_channel_epoch c /\ rm_leader_epoch s <= rm_leader_epoch c))
  /\ (rm_channel_epoch s = rm_channel_epoch c -> rm_leader_epoch s = rm_leader_epoch c ->
      rm_leader s = rm_leader c).
Proof.
  unfold candidate_not_regressing, epochs_lex_le, same_epochs. split.
  - intro H. apply andb_true_iff in H. destruct H as [He Hs]. split.
    + apply orb_true_iff in He. destruct He as [He|He].
      * left. apply N.ltb_lt. exact He.
      * right. apply andb_true_iff in He. destruct He as [He1 He2].
        apply N.eqb_eq in He1. apply N.leb_le in He2. split; assumption.
    + intros E1 E2. apply N.eqb_eq in E1. apply N.eqb_eq in E2. rewrite E1, E2 in Hs.
      cbn [andb negb orb] in Hs. apply N.eqb_eq. exact Hs.
  - intros [He Hs]. apply andb_true_iff. split.
    + destruct He as [He|[He1 He2]].
      * apply N.ltb_lt in He. rewrite He. reflexivity.
      * apply N.eqb_eq in He1. apply N.leb_le in He2. rewrite He1, He2. apply orb_true_r.
    + destruct (rm_channel_epoch s =? rm_channel_epoch c) eqn:E1; [|reflexivity].
      destruct (rm_leader_epoch s =? rm_leader_epoch c) eqn:E2; [|reflexivity].
      cbn [andb negb orb]. apply N.eqb_eq in E1. apply N.eqb_eq in E2.
      apply N.eqb_eq. apply Hs; assumption.
Qed.

(* ---- nextChannelRouteGeneration ------------------------------------------------------- *)

Lemma nextChannelRouteGeneration_spec g :
  (g <> u64max /\ nextChannelRouteGeneration g = g + 1)
  \/ (g = u64max /\ nextChannelRouteGeneration g = g).
Proof.
  unfold nextChannelRouteGeneration. destruct (g =? u64max) eqn:H.
  - right. apply N.eqb_eq in H. split; [exact H|reflexivity].
  - left. apply N.eqb_neq in H. split; [exact H|reflexivity].
Qed.

(* ---- preserveRuntimeMetaState --------------------------------------------------------- *)

Lemma preserve_spec ex c :
  let p := preserveRuntimeMetaState ex c in
  rm_channel_id p = rm_channel_id c /\ rm_channel_type p = rm_channel_type c
  /\ rm_channel_epoch p = rm_channel_epoch c /\ rm_leader_epoch p = rm_leader_epoch c
  /\ rm_route_generation p = rm_route_generation c
  /\ rm_replicas p = rm_replicas c /\ rm_isr p = rm_isr c /\ rm_leader p = rm_leader c
  /\ rm_lease_until_ms p = rm_lease_until_ms c
  /\ rm_retention_through_seq ex <= rm_retention_through_seq p
  /\ rm_write_fence_version ex <= rm_write_fence_version p
  /\ (rm_directory_generation c <> 0 -> rm_directory_generation p <> 0).
Proof.
  unfold preserveRuntimeMetaState.
  destruct (rm_directory_generation c <? rm_directory_generation ex) eqn:Hd; rm_cbn;
  destruct ((rm_retention_through_seq c <? rm_retention_through_seq ex)
            || ((rm_retention_through_seq c =? rm_retention_through_seq ex)
                && (rm_retention_updated_at_ms c <? rm_retention_updated_at_ms ex)%Z)) eqn:Hr; rm_cbn;
  destruct (rm_write_fence_version c <=? rm_write_fence_version ex) eqn:Hf; rm_cbn;
  repeat split; try reflexivity;
  try (apply N.ltb_lt in Hd); try (apply N.ltb_ge in Hd);
  try (apply N.leb_le in Hf); try (apply N.leb_gt in Hf);
  try lia;
  try (apply orb_false_iff in Hr; destruct Hr as [Hr1 Hr2]; apply N.ltb_ge in Hr1; lia).
Qed.

(* ---- bumpRuntimeRoute ------------------------------------------------------------------ *)

Lemma runtimeRouteChanged_set_rg a c v :
  runtimeRouteChanged a (set_route_generation c v) = runtimeRouteChanged a c.
Proof. reflexivity. Qed.

Lemma bump_spec ex c had :
  (had = true -> rm_route_generation ex <= rm_route_generation c) ->
  let r := bumpRuntimeRoute ex c had in
  r = set_route_generation c (rm_route_generation r)
  /\ rm_route_generation ex <= rm_route_generation r
  /\ rm_route_generation c <= rm_route_generation r
  /\ (runtimeRouteChanged ex c = true ->
      rm_route_generation ex < rm_route_generation r \/ rm_route_generation ex = u64max).
Proof.
  intro Hhad. unfold bumpRuntimeRoute.
  destruct (nextChannelRouteGeneration_spec (rm_route_generation ex)) as [[Hn1 Hn2]|[Hn1 Hn2]];
  destruct had; cbn [negb andb];
  try (specialize (Hhad eq_refl));
  try (destruct (rm_route_generation c <? rm_route_generation ex) eqn:Hlt;
       [apply N.ltb_lt in Hlt|apply N.ltb_ge in Hlt]);
  rewrite ?runtimeRouteChanged_set_rg; rm_cbn;
  destruct (runtimeRouteChanged ex c) eqn:Hch; cbn [andb];
  try (match goal with
       | |- context [?x <=? ?y] => destruct (x <=? y) eqn:Hle; [apply N.leb_le in Hle|apply N.leb_gt in Hle]
       end);
  rm_cbn; rewrite ?Hn2;
  (split; [destruct c; reflexivity|]); repeat split; try lia; try discriminate;
  intros _; try (left; lia); try (right; assumption).
Qed.

(* ---- resolveMonotonicChannelRuntimeMeta ------------------------------------------------ *)

Lemma resolve_absent ex c :
  resolveMonotonicChannelRuntimeMeta ex false c = (normalizeChannelRuntimeMeta c, MonotonicApplied).
Proof. reflexivity. Qed.

(* the result is one of the three enum values; a rejected write returns the stored row *)
Lemma resolve_rejected ex c next result :
  resolveMonotonicChannelRuntimeMeta ex true c = (next, result) ->
  result = MonotonicApplied
  \/ ((result = MonotonicIgnoredStale \/ result = MonotonicConflict)
      /\ next = normalizeChannelRuntimeMeta ex).
Proof.
  unfold resolveMonotonicChannelRuntimeMeta. cbn [negb].
  repeat match goal with
         | |- context [if ?b then _ else _] => destruct b
         end;
  intro H; inversion H; subst; auto.
Qed.

(* an accepted write on a normalized stored row *)
Lemma resolve_applied ex c next :
  rm_normalized ex ->
  resolveMonotonicChannelRuntimeMeta ex true c = (next, MonotonicApplied) ->
  advances ex next /\ candidate_not_regressing ex c = true /\ rm_normalized next
  /\ rm_channel_id next = rm_channel_id c /\ rm_channel_type next = rm_channel_type c.
Proof.
  intros Hnorm.
  pose proof monotonic_results_distinct as (D1 & D2 & D3 & D4).
  unfold resolveMonotonicChannelRuntimeMeta. cbn [negb].
  rewrite (normalized_fixed ex Hnorm).
  pose proof (normalize_keeps c) as Hk. cbv zeta in Hk.
  pose proof (normalize_normalized c) as Hcn.
  set (c' := normalizeChannelRuntimeMeta c) in *.
  destruct Hk as (Kid & Kty & Kce & Kle & Kld & Kls & Krt & Kwf).
  set (had := negb (rm_route_generation c =? 0)).
  destruct (had && (rm_route_generation c' <? rm_route_generation ex)) eqn:Hstale.
  { intro H. apply (f_equal snd) in H. cbn [snd] in H. congruence. }
  assert (Hhad : had = true -> rm_route_generation ex <= rm_route_generation c').
  { intro Hh. rewrite Hh in Hstale. cbn [andb] in Hstale. apply N.ltb_ge in Hstale. exact Hstale. }
  (* common tail: next = bump ex (preserve ex c2) had, where c2 agrees with c' except the lease *)
  assert (Tail : forall c2,
            rm_channel_id c2 = rm_channel_id c' -> rm_channel_type c2 = rm_channel_type c' ->
            rm_channel_epoch c2 = rm_channel_epoch c' -> rm_leader_epoch c2 = rm_leader_epoch c' ->
            rm_leader c2 = rm_leader c' -> rm_route_generation c2 = rm_route_generation c' ->
            rm_replicas c2 = rm_replicas c' -> rm_isr c2 = rm_isr c' ->
            rm_directory_generation c2 = rm_directory_generation c' ->
            (rm_channel_epoch ex < rm_channel_epoch c'
             \/ (rm_channel_epoch ex = rm_channel_epoch c' /\ rm_leader_epoch ex <= rm_leader_epoch c')) ->
            (rm_channel_epoch ex = rm_channel_epoch c' -> rm_leader_epoch ex = rm_leader_epoch c' ->
             rm_leader ex = rm_leader c' /\ (rm_lease_until_ms ex <= rm_lease_until_ms c2)%Z) ->
            let next := bumpRuntimeRoute ex (preserveRuntimeMetaState ex c2) had in
            advances ex next /\ candidate_not_regressing ex c = true /\ rm_normalized next
            /\ rm_channel_id next = rm_channel_id c /\ rm_channel_type next = rm_channel_type c).
  { intros c2 Eid Ety Ece Ele Eld Erg Erep Eisr Edg Hlex Hsame next0.
    pose proof (preserve_spec ex c2) as P. cbv zeta in P.
    set (p := preserveRuntimeMetaState ex c2) in *.
    destruct P as (Pid & Pty & Pce & Ple & Prg & Prep & Pisr & Pld & Pls & Prt & Pwf & Pdg).
    assert (Hhad' : had = true -> rm_route_generation ex <= rm_route_generation p).
    { intro Hh. rewrite Prg, Erg. apply Hhad. exact Hh. }
    pose proof (bump_spec ex p had Hhad') as B. cbv zeta in B. fold next0 in B.
    destruct B as (Bshape & Bge & Bgec & Bstrict).
    assert (Fce : rm_channel_epoch next0 = rm_channel_epoch c') by (rewrite Bshape; rm_cbn; congruence).
    assert (Fle : rm_leader_epoch next0 = rm_leader_epoch c') by (rewrite Bshape; rm_cbn; congruence).
    assert (Fld : rm_leader next0 = rm_leader c') by (rewrite Bshape; rm_cbn; congruence).
    assert (Fls : rm_lease_until_ms next0 = rm_lease_until_ms c2) by (rewrite Bshape; rm_cbn; congruence).
    assert (Frt : rm_retention_through_seq next0 = rm_retention_through_seq p) by (rewrite Bshape; reflexivity).
    assert (Fwf : rm_write_fence_version next0 = rm_write_fence_version p) by (rewrite Bshape; reflexivity).
    assert (Fch : runtimeRouteChanged ex next0 = runtimeRouteChanged ex p)
      by (rewrite Bshape; apply runtimeRouteChanged_set_rg).
    split; [|split; [|split; [|split]]].
    - constructor.
      + rewrite Fce, Fle. exact Hlex.
      + rewrite Fce, Fle, Fld, Fls. exact Hsame.
      + rewrite Frt. exact Prt.
      + rewrite Fwf. exact Pwf.
      + exact Bge.
      + rewrite Fch. exact Bstrict.
    - apply candidate_not_regressing_iff. rewrite <- Kce, <- Kle, <- Kld. split; [exact Hlex|].
      intros E1 E2. apply (Hsame E1 E2).
    - destruct Hcn as (Nr & Ni & Ng & Nd). unfold rm_normalized.
      rewrite Bshape. rm_cbn. rewrite Prep, Pisr, Pty, Erep, Eisr, Ety.
      repeat split; try assumption.
      + rewrite Prg, Erg in Bgec. lia.
      + intro Hty. apply Pdg. rewrite Edg. apply Nd. exact Hty.
    - rewrite Bshape. rm_cbn. congruence.
    - rewrite Bshape. rm_cbn. congruence. }
  destruct (rm_channel_epoch c' <? rm_channel_epoch ex) eqn:H1.
  { intro H. apply (f_equal snd) in H. cbn [snd] in H. congruence. }
  apply N.ltb_ge in H1.
  destruct (rm_channel_epoch ex <? rm_channel_epoch c') eqn:H2.
  { apply N.ltb_lt in H2. intro H. inversion H. subst next.
    apply Tail; try reflexivity; [left; exact H2|intros; lia]. }
  apply N.ltb_ge in H2.
  destruct (rm_leader_epoch c' <? rm_leader_epoch ex) eqn:H3.
  { intro H. apply (f_equal snd) in H. cbn [snd] in H. congruence. }
  apply N.ltb_ge in H3.
  destruct (rm_leader_epoch ex <? rm_leader_epoch c') eqn:H4.
  { apply N.ltb_lt in H4. intro H. inversion H. subst next.
    apply Tail; try reflexivity; [right; lia|intros; lia]. }
  apply N.ltb_ge in H4.
  destruct (negb (rm_leader c' =? rm_leader ex)) eqn:H5.
  { intro H. apply (f_equal snd) in H. cbn [snd] in H. congruence. }
  apply negb_false_iff in H5. apply N.eqb_eq in H5.
  intro H. inversion H. subst next.
  destruct (rm_lease_until_ms c' <? rm_lease_until_ms ex)%Z eqn:H6.
  - apply Z.ltb_lt in H6.
    apply Tail; try reflexivity; [right; lia|].
    intros _ _. rm_cbn. split; [symmetry; exact H5|lia].
  - apply Z.ltb_ge in H6.
    apply Tail; try reflexivity; [right; lia|].
    intros _ _. split; [symmetry; exact H5|lia].
Qed.

(* ---- retention advance ------------------------------------------------------------------ *)

Lemma advanceRetentionRow_advances ex req :
  rm_normalized ex ->
  rm_retention_through_seq ex < ra_retention_through_seq req ->
  advances ex (advanceRetentionRow ex req) /\ rm_normalized (advanceRetentionRow ex req).
Proof.
  intros (Nr & Ni & Ng & Nd) Hlt. unfold advanceRetentionRow.
  pose proof (nextChannelRouteGeneration_spec (rm_route_generation ex)) as Hn.
  split.
  - constructor; rm_cbn.
    + right. split; [reflexivity|lia].
    + intros _ _. split; [reflexivity|lia].
    + lia.
    + lia.
    + destruct Hn as [[H1 H2]|[H1 H2]]; rewrite H2; lia.
    + intros _. destruct Hn as [[H1 H2]|[H1 H2]]; rewrite H2; [left; lia|right; exact H1].
  - unfold rm_normalized. rm_cbn. repeat split; try assumption.
    destruct Hn as [[H1 H2]|[H1 H2]]; rewrite H2; lia.
Qed.
