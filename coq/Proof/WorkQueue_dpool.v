(* Proof/WorkQueue_dpool.v — BoundedPool / BoundedBatchPool: invariant over ALL
   interleavings of the atomic steps; the C37 monitor on every history of the
   model is 0 or exactly the known-finding code of the configuration. *)
From WK Require Import Base.Base Model.WorkQueue Model.WorkQueue_dpool Proof.WorkQueue.
Open Scope N_scope.

(* ---- counting ------------------------------------------------------------------------------ *)

Definition cnt (x : N) (l : list N) : nat := count_occ N.eq_dec l x.

Lemma cnt_nil x : cnt x [] = 0%nat.
Proof. reflexivity. Qed.

Lemma cnt_app x l1 l2 : cnt x (l1 ++ l2) = (cnt x l1 + cnt x l2)%nat.
Proof. unfold cnt. apply count_occ_app. Qed.

Lemma cnt_cons x y l : cnt x (y :: l) = ((if N.eqb y x then 1 else 0) + cnt x l)%nat.
Proof.
  unfold cnt. cbn [count_occ]. destruct (N.eq_dec y x) as [E|E].
  - subst. rewrite N.eqb_refl. reflexivity.
  - destruct (N.eqb_spec y x); [contradiction|reflexivity].
Qed.

Lemma cnt_In x l : In x l <-> (cnt x l >= 1)%nat.
Proof. unfold cnt. rewrite (count_occ_In N.eq_dec). lia. Qed.

Lemma cnt_notIn x l : ~ In x l <-> cnt x l = 0%nat.
Proof. rewrite cnt_In. lia. Qed.

Lemma NoDup_cnt l : NoDup l <-> forall x, (cnt x l <= 1)%nat.
Proof. unfold cnt. apply (NoDup_count_occ N.eq_dec). Qed.

Definition k_items (k : rpc) : list N := match k with RIdle => [] | RGot l | RRun l _ => l end.
Definition held (wk : list rpc) : list N := flat_map k_items wk.

Lemma cnt_held_set_nth x i k : forall wk, (i < length wk)%nat ->
  (cnt x (held (set_nth i k RIdle wk)) + cnt x (k_items (nth i wk RIdle)) = cnt x (held wk) + cnt x (k_items k))%nat.
Proof.
  induction i as [|i IH]; intros [|y r] Hi; cbn [length] in Hi; try lia.
  - cbn [set_nth nth held flat_map]. rewrite !cnt_app. fold (held r). lia.
  - cbn [set_nth nth held flat_map]. rewrite !cnt_app. fold (held r) (held (set_nth i k RIdle r)).
    specialize (IH r ltac:(lia)). lia.
Qed.

Lemma length_set_nth {A} i (x d : A) : forall l, (i < length l)%nat -> length (set_nth i x d l) = length l.
Proof.
  induction i as [|i IH]; intros [|y r] Hi; cbn [length] in Hi; try lia; cbn [set_nth length]; [reflexivity|].
  rewrite IH by lia. reflexivity.
Qed.

Lemma held_all_idle wk : all_idle wk = true -> held wk = [].
Proof.
  induction wk as [|k r IH]; [reflexivity|]. cbn [all_idle forallb held flat_map].
  intro H. apply andb_true_iff in H. destruct H as [Hk Hr]. destruct k; try discriminate.
  cbn [k_items app]. apply IH. exact Hr.
Qed.

Lemma all_idle_nth wk i : (i < length wk)%nat -> all_idle wk = true -> nth i wk RIdle = RIdle.
Proof.
  intros Hi H. unfold all_idle in H. rewrite forallb_forall in H.
  specialize (H _ (nth_In wk RIdle Hi)). destruct (nth i wk RIdle); try discriminate. reflexivity.
Qed.

Lemma map_task_mk_runs l rb re pos : map r_task (mk_runs l rb re pos) = l.
Proof. revert pos. induction l as [|x r IH]; intro pos; cbn [mk_runs map r_task]; [reflexivity|]. rewrite IH. reflexivity. Qed.

Lemma mk_runs_spec l rb re : forall pos r, In r (mk_runs l rb re pos) ->
  r_b r = rb /\ r_e r = re /\ r_shard r = 0 /\ pos <= r_pos r < pos + N.of_nat (length l).
Proof.
  induction l as [|x l IH]; intros pos r Hin; [destruct Hin|].
  cbn [mk_runs] in Hin. destruct Hin as [<-|Hin].
  - cbn. repeat split; lia.
  - destruct (IH _ _ Hin) as (A & B & C & D). repeat split; auto; try lia.
    cbn [length]. lia.
Qed.

Lemma map_task_cans (l : list N) at_ : map k_task (map (fun x => Can x at_) l) = l.
Proof. induction l as [|x r IH]; cbn [map k_task]; [reflexivity|]. rewrite IH. reflexivity. Qed.


(* ---- admission order: "every task of A was admitted (s_e) before every task of B" ------------- *)

Definition before (subs : list sub) (A B : list N) : Prop :=
  forall sa sc, In sa subs -> In sc subs -> In (s_task sa) A -> In (s_task sc) B -> s_e sa < s_e sc.

Lemma before_incl subs A B A' B' : incl A' A -> incl B' B -> before subs A B -> before subs A' B'.
Proof. intros HA HB H sa sc Ha Hc Ia Ic. apply H; auto. Qed.

Lemma before_nil_l subs B : before subs [] B.
Proof. intros sa sc _ _ []. Qed.

Lemma before_nil_r subs A : before subs A [].
Proof. intros sa sc _ _ _ []. Qed.

Lemma before_app_l subs A1 A2 B : before subs A1 B -> before subs A2 B -> before subs (A1 ++ A2) B.
Proof. intros H1 H2 sa sc Ha Hc Ia Ic. apply in_app_or in Ia. destruct Ia; [apply H1|apply H2]; auto. Qed.

Lemma before_app_r subs A B1 B2 : before subs A B1 -> before subs A B2 -> before subs A (B1 ++ B2).
Proof. intros H1 H2 sa sc Ha Hc Ia Ic. apply in_app_or in Ic. destruct Ic; [apply H1|apply H2]; auto. Qed.

(* a new Submit record whose task is in neither list changes nothing *)
Lemma before_cons_fresh subs sb A B : ~ In (s_task sb) A -> ~ In (s_task sb) B ->
  before subs A B -> before (sb :: subs) A B.
Proof.
  intros HA HB H sa sc [<-|Ha] [<-|Hc] Ia Ic; try contradiction. apply H; assumption.
Qed.

(* the queue in admission order *)
Definition qsorted (subs : list sub) (q : list N) : Prop :=
  forall l1 a l2, q = l1 ++ a :: l2 -> before subs [a] l2.

Lemma qsorted_tail subs a q : qsorted subs (a :: q) -> qsorted subs q.
Proof. intros H l1 a' l2 E. apply (H (a :: l1) a' l2). rewrite E. reflexivity. Qed.

Lemma qsorted_split subs pre q : qsorted subs (pre ++ q) -> before subs pre q /\ qsorted subs q.
Proof.
  induction pre as [|a pre IH]; cbn [app]; intro H.
  - split; [apply before_nil_l|exact H].
  - destruct (IH (qsorted_tail _ _ _ H)) as (B1 & B2). split; [|exact B2].
    change (a :: pre) with ([a] ++ pre). apply before_app_l; [|exact B1].
    eapply before_incl; [apply incl_refl| |apply (H [] a (pre ++ q) eq_refl)].
    intros y Hy. apply in_or_app. right; exact Hy.
Qed.

(* admission of a fresh task x (newest stamp) at the end of B *)
Lemma before_enqueue subs sbn x A B B' : s_task sbn = x -> ~ In x A ->
  (forall sb, In sb subs -> s_task sb <> x) -> (forall sb, In sb subs -> s_e sb < s_e sbn) ->
  (forall y, In y B' -> In y B \/ y = x) ->
  before subs A B -> before (sbn :: subs) A B'.
Proof.
  intros Et HA Hfresh Hlt HB H sa sc [<-|Ha] [<-|Hc] Ia Ic.
  - rewrite Et in Ia. contradiction.
  - rewrite Et in Ia. contradiction.
  - apply Hlt. exact Ha.
  - destruct (HB _ Ic) as [Ic'|E]; [apply H; assumption|]. exfalso. apply (Hfresh sc Hc E).
Qed.

Lemma qsorted_snoc subs sbn x q : s_task sbn = x -> ~ In x q ->
  (forall sb, In sb subs -> s_task sb <> x) -> (forall sb, In sb subs -> s_e sb < s_e sbn) ->
  qsorted subs q -> qsorted (sbn :: subs) (q ++ [x]).
Proof.
  intros Et Hq Hfresh Hlt Hs l1 a l2 E.
  destruct l2 as [|z l2'] using rev_ind; [apply before_nil_r|]. clear IHl2'.
  rewrite app_comm_cons, app_assoc in E. apply app_inj_tail in E. destruct E as [E Ez]. subst z.
  apply (before_enqueue subs sbn x [a] l2'); auto.
  - intros [<-|[]]. apply Hq. rewrite E. apply in_or_app. right. left. reflexivity.
  - intros y Hy. apply in_app_or in Hy. destruct Hy as [Hy|[<-|[]]]; auto.
  - apply (Hs l1 a l2'). exact E.
Qed.

Section DPoolProof.
Variable cf : cfg.

Notation d_step := (d_step cf).
Notation d_run := (d_run cf).
Notation d_hist := (d_hist cf).
Notation is_batch := (is_batch cf).
Notation ca := (ca cf).
Notation cr := (cr cf).
Notation bmax := (bmax cf).

Definition pc_task (p : ppc) : option (N * N) :=
  match p with
  | PIdle => None
  | PCheck x st _ | PSlot x st _ | PLock x st | PSend x st _ => Some (x, st)
  end.

(* the thread has passed Submit's first closed check *)
Definition pc_past (p : ppc) : option N :=
  match p with
  | PSlot _ st _ | PLock _ st | PSend _ st _ => Some st
  | _ => None
  end.

Definition pc_locked (p : ppc) : bool := match p with PSend _ _ true => true | _ => false end.

(* PSend is locked exactly in the batch pool; PLock exists only there *)
Definition pc_kind_ok (p : ppc) : Prop :=
  match p with
  | PSend _ _ l => l = is_batch
  | PLock _ _ => is_batch = true
  | _ => True
  end.

Definition disp_late (d : dpc) : bool :=
  match d with
  | DIdle dr | DCollect _ dr | DSubmit _ dr | DInvoke _ dr | DRetry _ dr => dr
  | DCancelQ | DExit => true
  end.

Definition disp_has_hand (d : dpc) : bool :=
  match d with DCollect _ _ | DSubmit _ _ | DInvoke _ _ | DRetry _ _ => true | _ => false end.

Definition okset (subs : list sub) (x : N) : Prop :=
  exists sb, In sb subs /\ s_task sb = x /\ s_res sb = ROk.

Definition places (s : dstate) : list N :=
  d_queue s ++ hand_of (d_disp s) ++ held (d_wk s) ++ map r_task (d_runs s) ++ map k_task (d_cans s) ++ d_lost s.

Definition close_inv (b : N) (s : dstate) : Prop :=
  match d_close s with
  | CIdle => d_closed s = false /\ d_stopped s = false /\ d_ctxdone s = false /\ d_clos s = []
  | CStart cb => d_closed s = false /\ d_stopped s = false /\ d_ctxdone s = false /\ d_clos s = []
                 /\ cb = d_cb s /\ cb <= b
  | CMid cb => d_closed s = true /\ d_stopped s = is_batch /\ d_ctxdone s = false /\ d_clos s = []
               /\ cb = d_cb s /\ cb <= b
  | CWait cb => d_closed s = true /\ d_stopped s = true /\ d_clos s = [] /\ cb = d_cb s /\ cb <= b
  | CDone => d_closed s = true /\ d_stopped s = true /\ d_disp s = DExit /\ all_idle (d_wk s) = true
             /\ exists ce, d_clos s = [Clo (d_cb s) ce true] /\ d_cb s < ce /\ ce <= b
                  /\ (forall r, In r (d_runs s) -> r_e r < ce)
                  /\ (forall k, In k (d_cans s) -> k_at k < ce)
                  /\ (forall sb, In sb (d_subs s) -> s_res sb = ROk -> s_b sb < ce)
                  /\ (forall t st, pc_past (d_pc s t) = Some st -> st < ce)
  end.

Record DInvB (b : N) (s : dstate) : Prop := {
  (* records and producer threads *)
  j_subs : forall sb, In sb (d_subs s) -> s_task sb <= b /\ s_b sb < s_e sb /\ s_e sb <= b /\ s_shard sb = 0;
  j_subs_nd : NoDup (map s_task (d_subs s));
  j_pcs : forall t x st, pc_task (d_pc s t) = Some (x, st) ->
            x <= b /\ st <= b /\ ~ In x (map s_task (d_subs s));
  j_pcs_d : forall t t' x st x' st', t <> t' -> pc_task (d_pc s t) = Some (x, st) ->
            pc_task (d_pc s t') = Some (x', st') -> x <> x';
  j_pck : forall t, pc_kind_ok (d_pc s t);
  j_lock : d_closed s = true -> forall t, pc_locked (d_pc s t) = false;
  (* stamps *)
  j_runs : forall r, In r (d_runs s) -> r_b r < r_e r /\ r_e r <= b /\ r_pos r < N.max 1 (c_batch cf);
  j_cans : forall k, In k (d_cans s) -> k_at k <= b;
  j_krun : forall i l rb, d_k s i = RRun l rb -> rb <= b;
  (* conservation *)
  j_once : forall x, (cnt x (places s) <= 1)%nat;
  j_pl_ok : forall x, In x (places s) -> okset (d_subs s) x;
  j_ok_pl : forall x, okset (d_subs s) x -> In x (places s);
  j_hand_len : (length (hand_of (d_disp s)) <= bmax)%nat;
  j_hand_ne : disp_has_hand (d_disp s) = true -> hand_of (d_disp s) <> [];
  j_k_len : forall i, (length (k_items (d_k s i)) <= bmax)%nat;
  (* flags *)
  j_stop : d_stopped s = true -> d_closed s = true;
  j_ctx : d_ctxdone s = true -> cr = true /\ d_closed s = true;
  j_late : disp_late (d_disp s) = true -> d_closed s = true;
  j_cq : d_disp s = DCancelQ -> ca = true;
  j_cans_cfg : d_cans s <> [] -> ca = true;
  j_lost : d_lost s <> [] -> ca = false /\ cr = true;
  (* what may remain in the queue once the dispatcher has left *)
  j_exit_b : is_batch = true -> d_disp s = DExit -> d_queue s <> [] ->
             (ca = true /\ d_cans s <> []) \/ (ca = false /\ cr = true);
  j_exit_p : is_batch = false -> d_disp s = DExit -> forall x, In x (d_queue s) ->
             exists sb, In sb (d_subs s) /\ s_task sb = x /\ s_res sb = ROk /\ d_cb s < s_e sb;
  j_close : close_inv b s;
  j_cb : d_cb s <= b;
  j_wk : d_wk s <> [];
  (* one FIFO queue, one dispatcher: what was taken earlier was admitted earlier *)
  j_fifo1 : before (d_subs s) (held (d_wk s) ++ map r_task (d_runs s) ++ map k_task (d_cans s))
                              (hand_of (d_disp s) ++ d_lost s ++ d_queue s);
  j_fifo2 : before (d_subs s) (hand_of (d_disp s) ++ d_lost s) (d_queue s);
  j_qsorted : qsorted (d_subs s) (d_queue s);
  j_lost_exit : d_lost s <> [] -> d_disp s = DExit }.

Definition DInv (s : dstate) : Prop := DInvB (d_now s) s.

(* ---- small facts ----------------------------------------------------------------------------- *)

Lemma okset_cons_notok sb subs x : s_res sb <> ROk -> (okset (sb :: subs) x <-> okset subs x).
Proof.
  intro H. split.
  - intros (s0 & [<-|Hin] & E1 & E2); [contradiction|]. exists s0. auto.
  - intros (s0 & Hin & E). exists s0. split; [right; exact Hin|exact E].
Qed.

Lemma okset_cons_ok x0 sh st e subs x :
  okset (Sub x0 sh st e ROk :: subs) x <-> x = x0 \/ okset subs x.
Proof.
  split.
  - intros (s0 & [<-|Hin] & E1 & E2); [left; symmetry; exact E1|right; exists s0; auto].
  - intros [->|(s0 & Hin & E)].
    + eexists. split; [left; reflexivity|split; reflexivity].
    + exists s0. split; [right; exact Hin|exact E].
Qed.

Lemma okset_in subs x : okset subs x -> In x (map s_task subs).
Proof. intros (s0 & Hin & E & _). rewrite <- E. apply in_map. exact Hin. Qed.

Lemma any_locked_false pcs : any_locked pcs = false -> forall t, pc_locked (nth t pcs PIdle) = false.
Proof.
  intros H t. destruct (nth_In_or_default t pcs PIdle) as [Hin|E]; [|rewrite E; reflexivity].
  apply not_true_is_false. intro Hl. apply not_true_iff_false in H. apply H.
  unfold any_locked. apply existsb_exists. exists (nth t pcs PIdle). split; [exact Hin|].
  destruct (nth t pcs PIdle) as [| | | |x st [|]]; try discriminate. reflexivity.
Qed.

Lemma set_nth_ne {A} i (x d : A) l : set_nth i x d l <> [].
Proof. destruct i, l; cbn [set_nth]; discriminate. Qed.

Ltac prj := cbn [d_now d_closed d_stopped d_ctxdone d_used d_queue d_pcs d_disp d_wk d_close d_cb d_lost
                 d_subs d_runs d_cans d_clos
                 s_task s_shard s_b s_e s_res r_task r_b r_e r_pos k_task k_at map] in *.

Ltac unf := unfold DInv, places, close_inv in *;
            unfold d_set_pc, d_ret, d_upd_pcs, d_uq, d_set_disp, d_set_k, d_cancel, d_drop, d_set_close, d_tick in *;
            unfold d_pc, d_k in *; prj.

(* ---- preservation ---------------------------------------------------------------------------- *)

Lemma inv_mono b b' s : b <= b' -> DInvB b s -> DInvB b' s.
Proof.
  intros Hb [ ]. constructor; auto.
  - intros sb Hsb. destruct (j_subs0 sb Hsb) as (A & B & C & D). repeat split; auto; lia.
  - intros t x st E. destruct (j_pcs0 t x st E) as (A & B & C). repeat split; auto; lia.
  - intros r Hr. destruct (j_runs0 r Hr) as (A & B & C). repeat split; auto; lia.
  - intros k Hk. specialize (j_cans0 k Hk). lia.
  - intros i l rb E. specialize (j_krun0 i l rb E). lia.
  - unfold close_inv in *. destruct (d_close s); auto.
    + destruct j_close0 as (A & B & C & D & E & F). repeat split; auto; lia.
    + destruct j_close0 as (A & B & C & D & E & F). repeat split; auto; lia.
    + destruct j_close0 as (A & B & C & D & E). repeat split; auto; lia.
    + destruct j_close0 as (A & B & C & D & ce & E & F & G & H). repeat split; auto.
      exists ce. repeat split; auto; try lia; apply H.
  - lia.
Qed.

Lemma inv_tick s : DInv s -> DInvB (d_now s) (d_tick s).
Proof. intros [ ]. constructor; auto. Qed.

(* a thread calls Submit *)
Lemma inv_call b s t wait : DInvB b s -> b < d_now s -> d_pc s t = PIdle ->
  DInv (d_set_pc s t (PCheck (d_now s) (d_now s) wait)).
Proof.
  intros HI Hb Hpc. pose proof (inv_mono b (d_now s) s ltac:(lia) HI) as HM.
  pose proof (j_subs _ _ HI) as H1. pose proof (j_pcs _ _ HI) as H3.
  destruct HM as [ ].
  destruct s as [now closed stopped ctxdone used queue pcs disp wk close cb lost subs runs cans clos]. unf.
  constructor; unf; auto.
  - intros t0 x st. rewrite nth_set_nth. destruct (Nat.eqb_spec t t0) as [E|Hne]; [|apply j_pcs0].
    cbn [pc_task]. intro E'. inversion E'; subst. repeat split; try lia.
    intro Hin. apply in_map_iff in Hin. destruct Hin as (sb & Es & Hin).
    destruct (H1 sb Hin) as (A & _). lia.
  - intros t0 t' x st x' st' Hne. rewrite !nth_set_nth.
    destruct (Nat.eqb_spec t t0) as [E0|N0]; destruct (Nat.eqb_spec t t') as [E1|N1]; try congruence.
    + cbn [pc_task]. intros E E'. inversion E; subst. destruct (H3 _ _ _ E') as (A & _). lia.
    + cbn [pc_task]. intros E E'. inversion E'; subst. destruct (H3 _ _ _ E) as (A & _). lia.
    + apply j_pcs_d0. exact Hne.
  - intros t0. rewrite nth_set_nth. destruct (Nat.eqb_spec t t0); [exact I|apply j_pck0].
  - intros Hc t0. rewrite nth_set_nth. destruct (Nat.eqb_spec t t0); [reflexivity|apply j_lock0; exact Hc].
  - destruct close; auto. destruct j_close0 as (A & B & C & D & ce & E & F & G & H1' & H2' & H3' & H4').
    repeat split; auto. exists ce. repeat split; auto.
    intros t0 st. rewrite nth_set_nth. destruct (Nat.eqb_spec t t0); [discriminate|apply H4'].
Qed.

(* a thread moves on with the same task; slots may change *)
Lemma inv_pc_move b s t p used' : DInvB b s -> pc_task p = pc_task (d_pc s t) -> pc_kind_ok p ->
  (d_closed s = true -> pc_locked p = false) ->
  (forall st, pc_past p = Some st -> pc_past (d_pc s t) = Some st \/ d_closed s = false) ->
  DInvB b (d_set_pc (d_uq s used' (d_queue s)) t p).
Proof.
  intros [ ] Hp Hk Hl Hpast.
  destruct s as [now closed stopped ctxdone used queue pcs disp wk close cb lost subs runs cans clos]. unf.
  constructor; unf; auto.
  - intros t0 x st. rewrite nth_set_nth. destruct (Nat.eqb_spec t t0) as [E|Hne]; [|apply j_pcs0].
    rewrite Hp. apply j_pcs0.
  - intros t0 t' x st x' st' Hne. rewrite !nth_set_nth.
    destruct (Nat.eqb_spec t t0) as [E0|N0]; destruct (Nat.eqb_spec t t') as [E1|N1]; try congruence;
      try subst t0; try subst t'; rewrite ?Hp; apply j_pcs_d0; exact Hne.
  - intros t0. rewrite nth_set_nth. destruct (Nat.eqb_spec t t0); [exact Hk|apply j_pck0].
  - intros Hc t0. rewrite nth_set_nth. destruct (Nat.eqb_spec t t0); [apply Hl; exact Hc|apply j_lock0; exact Hc].
  - destruct close; auto. destruct j_close0 as (A & B & C & D & ce & E & F & G & H1' & H2' & H3' & H4').
    repeat split; auto. exists ce. repeat split; auto.
    intros t0 st. rewrite nth_set_nth. destruct (Nat.eqb_spec t t0) as [E0|N0]; [|apply H4'].
    intro Eq. destruct (Hpast st Eq) as [Hold|Hcl]; [apply (H4' t); exact Hold|congruence].
Qed.

(* Submit returns a rejection *)
Lemma inv_ret_rej b s t x st r used' : DInvB b s -> b < d_now s -> pc_task (d_pc s t) = Some (x, st) ->
  r <> ROk -> DInv (d_ret (d_uq s used' (d_queue s)) t x st r).
Proof.
  intros HI Hb Hpc Hr. pose proof (inv_mono b (d_now s) s ltac:(lia) HI) as HM.
  pose proof (j_pcs _ _ HI) as H3. destruct HM as [ ].
  destruct s as [now closed stopped ctxdone used queue pcs disp wk close cb lost subs runs cans clos]. unf.
  destruct (H3 _ _ _ Hpc) as (Hx & Hst & Hfresh).
  constructor; unf; auto.
  - intros sb [<-|Hin]; [|apply j_subs0; exact Hin]. prj. repeat split; try lia.
  - constructor; [exact Hfresh|exact j_subs_nd0].
  - intros t0 x0 st0. rewrite nth_set_nth. destruct (Nat.eqb_spec t t0) as [E|Hne]; [discriminate|].
    intro E. destruct (j_pcs0 _ _ _ E) as (A & B & C). repeat split; auto.
    intros [E0|Hin]; [|apply C; exact Hin]. subst x0. apply (j_pcs_d0 t t0 x st x st0 Hne Hpc E). reflexivity.
  - intros t0 t' x0 st0 x' st' Hne. rewrite !nth_set_nth.
    destruct (Nat.eqb_spec t t0) as [E0|N0]; destruct (Nat.eqb_spec t t') as [E1|N1]; try discriminate.
    apply j_pcs_d0. exact Hne.
  - intros t0. rewrite nth_set_nth. destruct (Nat.eqb_spec t t0); [exact I|apply j_pck0].
  - intros Hc t0. rewrite nth_set_nth. destruct (Nat.eqb_spec t t0); [reflexivity|apply j_lock0; exact Hc].
  - intros x0 Hx0. apply okset_cons_notok; [exact Hr|]. apply j_pl_ok0. exact Hx0.
  - intros x0 Hx0. apply okset_cons_notok in Hx0; [|exact Hr]. apply j_ok_pl0. exact Hx0.
  - intros Hb0 Hd x0 Hx0. destruct (j_exit_p0 Hb0 Hd x0 Hx0) as (sb & A & B). exists sb. split; [right; exact A|exact B].
  - destruct close; auto. destruct j_close0 as (A & B & C & D & ce & E & F & G & H1' & H2' & H3' & H4').
    repeat split; auto. exists ce. repeat split; auto.
    + intros sb [<-|Hin]; [prj; intro Er; congruence|apply H3'; exact Hin].
    + intros t0 st0. rewrite nth_set_nth. destruct (Nat.eqb_spec t t0); [discriminate|apply H4'].
  - apply before_cons_fresh; auto; prj; intro Hin; apply Hfresh; apply okset_in; apply j_pl_ok0;
      rewrite !in_app_iff in *; tauto.
  - apply before_cons_fresh; auto; prj; intro Hin; apply Hfresh; apply okset_in; apply j_pl_ok0;
      rewrite !in_app_iff in *; tauto.
  - intros l1 a l2 E. apply before_cons_fresh; [| |apply (j_qsorted0 l1 a l2 E)]; prj; intro Hin; apply Hfresh;
      apply okset_in; apply j_pl_ok0; rewrite E; rewrite !in_app_iff in *; cbn [In] in *; tauto.
Qed.

Ltac cnt_norm := repeat (progress (rewrite ?map_app, ?map_task_cans, ?map_task_mk_runs, ?cnt_app, ?cnt_cons, ?cnt_nil in * )).

(* Submit's queue send succeeds: the task is admitted *)
Lemma inv_ret_ok b s t x st used' : DInvB b s -> b < d_now s -> pc_task (d_pc s t) = Some (x, st) ->
  pc_past (d_pc s t) = Some st -> (is_batch = true -> d_closed s = false) ->
  DInv (d_ret (d_uq s used' (d_queue s ++ [x])) t x st ROk).
Proof.
  intros HI Hb Hpc Hpast Hbc. pose proof (inv_mono b (d_now s) s ltac:(lia) HI) as HM.
  pose proof (j_pcs _ _ HI) as H3. pose proof (j_cb _ _ HI) as Hcb. pose proof (j_subs _ _ HI) as H1s. destruct HM as [ ].
  destruct s as [now closed stopped ctxdone used queue pcs disp wk close cb lost subs runs cans clos]. unf.
  destruct (H3 _ _ _ Hpc) as (Hx & Hst & Hfresh).
  assert (Hnew : cnt x (queue ++ hand_of disp ++ held wk ++ map r_task runs ++ map k_task cans ++ lost) = 0%nat).
  { apply cnt_notIn. intro Hin. apply Hfresh. apply okset_in. apply j_pl_ok0. exact Hin. }
  assert (Hcnt : forall y, cnt y ((queue ++ [x]) ++ hand_of disp ++ held wk ++ map r_task runs ++ map k_task cans ++ lost)
                  = ((if N.eqb x y then 1 else 0) + cnt y (queue ++ hand_of disp ++ held wk ++ map r_task runs ++ map k_task cans ++ lost))%nat).
  { intro y. cnt_norm. lia. }
  constructor; unf; auto.
  - intros sb [<-|Hin]; [|apply j_subs0; exact Hin]. prj. repeat split; try lia.
  - constructor; [exact Hfresh|exact j_subs_nd0].
  - intros t0 x0 st0. rewrite nth_set_nth. destruct (Nat.eqb_spec t t0) as [E|Hne]; [discriminate|].
    intro E. destruct (j_pcs0 _ _ _ E) as (A & B & C). repeat split; auto.
    intros [E0|Hin]; [|apply C; exact Hin]. subst x0. apply (j_pcs_d0 t t0 x st x st0 Hne Hpc E). reflexivity.
  - intros t0 t' x0 st0 x' st' Hne. rewrite !nth_set_nth.
    destruct (Nat.eqb_spec t t0) as [E0|N0]; destruct (Nat.eqb_spec t t') as [E1|N1]; try discriminate.
    apply j_pcs_d0. exact Hne.
  - intros t0. rewrite nth_set_nth. destruct (Nat.eqb_spec t t0); [exact I|apply j_pck0].
  - intros Hc t0. rewrite nth_set_nth. destruct (Nat.eqb_spec t t0); [reflexivity|apply j_lock0; exact Hc].
  - intro y. rewrite Hcnt. destruct (N.eqb_spec x y) as [E|E]; [subst y; rewrite Hnew; lia|apply j_once0].
  - intros y Hy. apply okset_cons_ok. apply cnt_In in Hy. rewrite Hcnt in Hy.
    destruct (N.eqb_spec x y) as [E|E]; [left; symmetry; exact E|right]. apply j_pl_ok0. apply cnt_In. lia.
  - intros y Hy. apply okset_cons_ok in Hy. apply cnt_In. rewrite Hcnt. destruct Hy as [->|Hy].
    + rewrite N.eqb_refl. lia.
    + apply j_ok_pl0 in Hy. apply cnt_In in Hy. lia.
  - intros Hb0 Hd _. exfalso. specialize (Hbc Hb0). rewrite Hd in j_late0. specialize (j_late0 eq_refl). congruence.
  - intros Hb0 Hd y Hy. apply in_app_or in Hy. destruct Hy as [Hy|[<-|[]]].
    + destruct (j_exit_p0 Hb0 Hd y Hy) as (sb & A & B). exists sb. split; [right; exact A|exact B].
    + eexists. split; [left; reflexivity|]. prj. repeat split; auto. lia.
  - destruct close; auto. destruct j_close0 as (A & B & C & D & ce & E & F & G & H1' & H2' & H3' & H4').
    repeat split; auto. exists ce. repeat split; auto.
    + intros sb [<-|Hin]; [prj; intros _; apply (H4' t); exact Hpast|apply H3'; exact Hin].
    + intros t0 st0. rewrite nth_set_nth. destruct (Nat.eqb_spec t t0); [discriminate|apply H4'].
  - apply (before_enqueue subs _ x _ (hand_of disp ++ lost ++ queue)); auto; prj.
    + intro Hin. apply cnt_notIn in Hnew. apply Hnew. rewrite !in_app_iff in *. tauto.
    + intros sb Hsb E. apply Hfresh. rewrite <- E. apply in_map. exact Hsb.
    + intros sb Hsb. destruct (H1s sb Hsb) as (_ & _ & X & _). lia.
    + intros y Hy. rewrite !in_app_iff in *. cbn [In] in Hy. intuition congruence.
  - apply (before_enqueue subs _ x _ queue); auto; prj.
    + intro Hin. apply cnt_notIn in Hnew. apply Hnew. rewrite !in_app_iff in *. tauto.
    + intros sb Hsb E. apply Hfresh. rewrite <- E. apply in_map. exact Hsb.
    + intros sb Hsb. destruct (H1s sb Hsb) as (_ & _ & X & _). lia.
    + intros y Hy. rewrite !in_app_iff in *. cbn [In] in Hy. intuition congruence.
  - apply qsorted_snoc; auto; prj.
    + intro Hin. apply cnt_notIn in Hnew. apply Hnew. rewrite !in_app_iff in *. tauto.
    + intros sb Hsb E. apply Hfresh. rewrite <- E. apply in_map. exact Hsb.
    + intros sb Hsb. destruct (H1s sb Hsb) as (_ & _ & X & _). lia.
Qed.

(* the dispatcher changes its program point, hand unchanged *)
Lemma inv_disp_pc b s d' : DInvB b s -> d_disp s <> DExit -> hand_of d' = hand_of (d_disp s) ->
  (disp_has_hand d' = true -> hand_of d' <> []) ->
  (disp_late d' = true -> d_closed s = true) -> (d' = DCancelQ -> ca = true) ->
  (d' = DExit -> d_queue s = []) ->
  DInvB b (d_set_disp s d').
Proof.
  intros [ ] Hne Hh Hhn Hl Hq He.
  destruct s as [now closed stopped ctxdone used queue pcs disp wk close cb lost subs runs cans clos]. unf.
  constructor; unf; rewrite ?Hh; auto.
  - rewrite <- Hh. exact Hhn.
  - intros _ Hd Hqn. specialize (He Hd). contradiction.
  - intros _ Hd x Hx. specialize (He Hd). subst queue. destruct Hx.
  - destruct close; auto. destruct j_close0 as (_ & _ & A & _). contradiction.
  - intro X. exfalso. apply Hne. apply j_lost_exit0. exact X.
Qed.

(* the dispatcher receives the oldest queued item into its hand *)
Lemma inv_disp_take b s x r d' : DInvB b s -> d_disp s <> DExit -> d_queue s = x :: r ->
  hand_of d' = hand_of (d_disp s) ++ [x] -> (length (hand_of d') <= bmax)%nat ->
  disp_late d' = disp_late (d_disp s) -> d' <> DExit -> d' <> DCancelQ ->
  DInvB b (d_set_disp (d_uq s (d_used s) r) d').
Proof.
  intros [ ] Hne Hq Hh Hlen Hl Hx1 Hx2.
  destruct s as [now closed stopped ctxdone used queue pcs disp wk close cb lost subs runs cans clos]. unf. subst queue.
  assert (Hcnt : forall y, cnt y (r ++ hand_of d' ++ held wk ++ map r_task runs ++ map k_task cans ++ lost)
                  = cnt y ((x :: r) ++ hand_of disp ++ held wk ++ map r_task runs ++ map k_task cans ++ lost)).
  { intro y. rewrite Hh. cbn [app]. cnt_norm. lia. }
  constructor; unf; auto.
  all: try solve [rewrite Hl; exact j_late0].
  all: try solve [intros; exfalso; contradiction].
  all: try solve [destruct close; auto; destruct j_close0 as (_ & _ & A & _); contradiction].
  - intro y. rewrite Hcnt. apply j_once0.
  - intros y Hy. apply j_pl_ok0. apply cnt_In. rewrite <- Hcnt. apply cnt_In. exact Hy.
  - intros y Hy. apply cnt_In. rewrite Hcnt. apply cnt_In. apply j_ok_pl0. exact Hy.
  - intros _. rewrite Hh. destruct (hand_of disp); discriminate.
  - rewrite Hh. eapply before_incl; [apply incl_refl| |exact j_fifo3].
    intros y Hy. rewrite !in_app_iff in *. cbn [In] in *. tauto.
  - rewrite Hh. intros sa sc Ha Hc Ia Ic. rewrite !in_app_iff in Ia. cbn [In] in Ia.
    destruct Ia as [[Ia|[Ia|[]]]|Ia].
    + apply j_fifo4; auto; [apply in_or_app; left; exact Ia|right; exact Ic].
    + apply (j_qsorted0 [] x r eq_refl sa sc); auto. left. exact Ia.
    + apply j_fifo4; auto; [apply in_or_app; right; exact Ia|right; exact Ic].
  - eapply qsorted_tail. exact j_qsorted0.
  - intro X. exfalso. apply Hne. apply j_lost_exit0. exact X.
Qed.

(* cancelTasks: items leave the queue / the hand through the CancelAccepted hook *)
Lemma inv_cancel b s q' used0 l d' : DInvB b s -> b < d_now s -> d_disp s <> DExit ->
  (forall y, (cnt y q' + cnt y l = cnt y (d_queue s) + cnt y (hand_of (d_disp s)))%nat) ->
  (exists pre, d_queue s = pre ++ q' /\ incl l (hand_of (d_disp s) ++ pre)) ->
  hand_of d' = [] -> disp_has_hand d' = false -> l <> [] -> ca = true -> d_closed s = true ->
  DInv (d_cancel (d_uq s used0 q') l d').
Proof.
  intros HI Hb Hne Hc Hpre Hh Hhh Hl Hca Hcl. apply (inv_mono b (d_now s)) in HI; [|lia]. destruct HI as [ ].
  destruct s as [now closed stopped ctxdone used queue pcs disp wk close cb lost subs runs cans clos]. unf.
  assert (Hcnt : forall y, cnt y (q' ++ hand_of d' ++ held wk ++ map r_task runs ++ map k_task (map (fun x => Can x now) l ++ cans) ++ lost)
                  = cnt y (queue ++ hand_of disp ++ held wk ++ map r_task runs ++ map k_task cans ++ lost)).
  { intro y. rewrite Hh. cnt_norm. specialize (Hc y). lia. }
  assert (Hb' : is_batch = true).
  { unfold Model.WorkQueue_dpool.ca in Hca. apply andb_true_iff in Hca. apply Hca. }
  constructor; unf; auto.
  - intros k Hk. apply in_app_or in Hk. destruct Hk as [Hk|Hk]; [|apply j_cans0; exact Hk].
    apply in_map_iff in Hk. destruct Hk as (y & <- & _). prj. lia.
  - intro y. rewrite Hcnt. apply j_once0.
  - intros y Hy. apply j_pl_ok0. apply cnt_In. rewrite <- Hcnt. apply cnt_In. exact Hy.
  - intros y Hy. apply cnt_In. rewrite Hcnt. apply cnt_In. apply j_ok_pl0. exact Hy.
  - rewrite Hh. cbn. lia.
  - rewrite Hhh. discriminate.
  - intros _. left. split; [exact Hca|]. destruct l; [congruence|discriminate].
  - intros E. congruence.
  - destruct close; auto. destruct j_close0 as (_ & _ & A & _). contradiction.
  - destruct Hpre as (pre & Eq & Hincl). rewrite Hh, map_app, map_task_cans. cbn [app].
    assert (Hl0 : lost = []) by (destruct lost; [reflexivity|]; destruct j_lost0 as (X & _); [discriminate|congruence]).
    subst lost queue. cbn [app] in *. destruct (qsorted_split _ _ _ j_qsorted0) as (Bpq & _).
    intros sa sc Ha Hc' Ia Ic. rewrite !in_app_iff in Ia.
    destruct Ia as [Ia|[Ia|[Ia|Ia]]].
    + apply j_fifo3; auto; rewrite !in_app_iff; tauto.
    + apply j_fifo3; auto; rewrite !in_app_iff; tauto.
    + apply Hincl in Ia. apply in_app_or in Ia. destruct Ia as [Ia|Ia].
      * apply j_fifo4; auto; rewrite !in_app_iff; tauto.
      * apply Bpq; auto.
    + apply j_fifo3; auto; rewrite !in_app_iff; tauto.
  - rewrite Hh. cbn [app].
    assert (Hl0 : lost = []) by (destruct lost; [reflexivity|]; destruct j_lost0 as (X & _); [discriminate|congruence]).
    subst lost. apply before_nil_l.
  - destruct Hpre as (pre & Eq & _). subst queue. apply (qsorted_split _ _ _ j_qsorted0).
  - intro X. exfalso. destruct (j_lost0 X) as (Y & _). congruence.
Qed.

(* retryExecutor on ctx.Done without CancelAcceptedOnClose: the batch is released, nothing runs *)
Lemma inv_drop b s h : DInvB b s -> d_disp s <> DExit -> h = hand_of (d_disp s) ->
  d_ctxdone s = true -> should_cancel cf s = false ->
  DInvB b (d_drop s h DExit).
Proof.
  intros [ ] Hne Hh Hctx Hsc.
  destruct s as [now closed stopped ctxdone used queue pcs disp wk close cb lost subs runs cans clos]. unf. subst h.
  destruct (j_ctx0 Hctx) as (Hcr & Hcl). unfold should_cancel in Hsc. prj. rewrite Hcl, andb_true_r in Hsc.
  assert (Hcnt : forall y, cnt y (queue ++ [] ++ held wk ++ map r_task runs ++ map k_task cans ++ hand_of disp ++ lost)
                  = cnt y (queue ++ hand_of disp ++ held wk ++ map r_task runs ++ map k_task cans ++ lost)).
  { intro y. cnt_norm. lia. }
  constructor; unf; auto.
  - intro y. rewrite Hcnt. apply j_once0.
  - intros y Hy. apply j_pl_ok0. apply cnt_In. rewrite <- Hcnt. apply cnt_In. exact Hy.
  - intros y Hy. apply cnt_In. rewrite Hcnt. apply cnt_In. apply j_ok_pl0. exact Hy.
  - cbn. lia.
  - discriminate.
  - discriminate.
  - intros Hb0 _. exfalso. unfold Model.WorkQueue_dpool.cr in Hcr. rewrite Hb0 in Hcr. discriminate.
  - destruct close; auto. destruct j_close0 as (_ & _ & A & _). contradiction.
  - eapply before_incl; [apply incl_refl| |exact j_fifo3].
    intros y Hy. cbn [hand_of app] in Hy. rewrite !in_app_iff in *. tauto.
Qed.

(* pool.Invoke accepts the batch into a free executor slot *)
Lemma inv_invoke_ok b s h dr i used' : DInvB b s -> d_disp s = DInvoke h dr -> (i < length (d_wk s))%nat ->
  d_k s i = RIdle ->
  DInvB b (d_set_k (d_set_disp (d_uq s used' (d_queue s)) (DIdle dr)) i (RGot h)).
Proof.
  intros [ ] Hd Hi Hk.
  destruct s as [now closed stopped ctxdone used queue pcs disp wk close cb lost subs runs cans clos]. unf. subst disp.
  cbn [hand_of disp_late disp_has_hand] in *.
  assert (Hcnt : forall y, cnt y (queue ++ [] ++ held (set_nth i (RGot h) RIdle wk) ++ map r_task runs ++ map k_task cans ++ lost)
                  = cnt y (queue ++ h ++ held wk ++ map r_task runs ++ map k_task cans ++ lost)).
  { intro y. cnt_norm. pose proof (cnt_held_set_nth y i (RGot h) wk Hi) as E. rewrite Hk in E. cbn [k_items] in E.
    rewrite cnt_nil in E. lia. }
  constructor; unf; auto.
  - intros j l rb. rewrite nth_set_nth. destruct (Nat.eqb_spec i j); [discriminate|apply j_krun0].
  - intro y. rewrite Hcnt. apply j_once0.
  - intros y Hy. apply j_pl_ok0. apply cnt_In. rewrite <- Hcnt. apply cnt_In. exact Hy.
  - intros y Hy. apply cnt_In. rewrite Hcnt. apply cnt_In. apply j_ok_pl0. exact Hy.
  - cbn. lia.
  - discriminate.
  - intros j. rewrite nth_set_nth. destruct (Nat.eqb_spec i j); [exact j_hand_len0|apply j_k_len0].
  - discriminate.
  - discriminate.
  - discriminate.
  - destruct close; auto. destruct j_close0 as (_ & _ & A & _). discriminate.
  - apply set_nth_ne.
  - assert (Hl0 : lost = []) by (destruct lost; [reflexivity|]; exfalso; assert (X : DInvoke h dr = DExit) by (apply j_lost_exit0; discriminate); discriminate).
    subst lost. cbn [app] in *.
    assert (Hmem : forall y, In y (held (set_nth i (RGot h) RIdle wk)) -> In y h \/ In y (held wk)).
    { intros y Hy. apply cnt_In in Hy. pose proof (cnt_held_set_nth y i (RGot h) wk Hi) as E. rewrite Hk in E.
      cbn [k_items] in E. rewrite cnt_nil in E.
      destruct (Nat.eq_dec (cnt y h) 0) as [Z|Z]; [right; apply cnt_In; lia|left; apply cnt_In; lia]. }
    intros sa sc Ha Hc Ia Ic. rewrite !in_app_iff in Ia. destruct Ia as [Ia|Ia].
    + destruct (Hmem _ Ia) as [Ih|Ih].
      * apply j_fifo4; auto. rewrite app_nil_r. exact Ih.
      * apply j_fifo3; auto; rewrite !in_app_iff; tauto.
    + apply j_fifo3; auto; rewrite !in_app_iff; tauto.
  - assert (Hl0 : lost = []) by (destruct lost; [reflexivity|]; exfalso; assert (X : DInvoke h dr = DExit) by (apply j_lost_exit0; discriminate); discriminate).
    subst lost. apply before_nil_l.
  - intro X. exfalso. assert (Y : DInvoke h dr = DExit) by (apply j_lost_exit0; exact X). discriminate.
Qed.

(* runBatch enters the handler *)
Lemma inv_work_start b s i l : DInvB b s -> b < d_now s -> (i < length (d_wk s))%nat -> d_k s i = RGot l ->
  DInv (d_set_k s i (RRun l (d_now s))).
Proof.
  intros HI Hb Hi Hk. apply (inv_mono b (d_now s)) in HI; [|lia]. destruct HI as [ ].
  destruct s as [now closed stopped ctxdone used queue pcs disp wk close cb lost subs runs cans clos]. unf.
  assert (Hcnt : forall y, cnt y (held (set_nth i (RRun l now) RIdle wk)) = cnt y (held wk)).
  { intro y. pose proof (cnt_held_set_nth y i (RRun l now) wk Hi) as E. rewrite Hk in E. cbn [k_items] in E. lia. }
  assert (Hc2 : forall y, cnt y (queue ++ hand_of disp ++ held (set_nth i (RRun l now) RIdle wk) ++ map r_task runs ++ map k_task cans ++ lost)
                  = cnt y (queue ++ hand_of disp ++ held wk ++ map r_task runs ++ map k_task cans ++ lost)).
  { intro y. rewrite !cnt_app, Hcnt. reflexivity. }
  constructor; unf; auto.
  - intros j l0 rb. rewrite nth_set_nth. destruct (Nat.eqb_spec i j); [|apply j_krun0].
    intro E. inversion E; subst. lia.
  - intro y. rewrite Hc2. apply j_once0.
  - intros y Hy. apply j_pl_ok0. apply cnt_In. rewrite <- Hc2. apply cnt_In. exact Hy.
  - intros y Hy. apply cnt_In. rewrite Hc2. apply cnt_In. apply j_ok_pl0. exact Hy.
  - intros j. rewrite nth_set_nth. destruct (Nat.eqb_spec i j); [|apply j_k_len0].
    specialize (j_k_len0 i). rewrite Hk in j_k_len0. exact j_k_len0.
  - destruct close; auto. destruct j_close0 as (_ & _ & _ & A & _).
    rewrite (all_idle_nth wk i Hi A) in Hk. discriminate.
  - apply set_nth_ne.
  - eapply before_incl; [|apply incl_refl|exact j_fifo3].
    intros y Hy. rewrite !in_app_iff in *. destruct Hy as [Hy|Hy]; [left|right; exact Hy].
    apply cnt_In. rewrite <- Hcnt. apply cnt_In. exact Hy.
Qed.

(* the handler returns *)
Lemma inv_work_end b s i l rb : DInvB b s -> b < d_now s -> (i < length (d_wk s))%nat -> d_k s i = RRun l rb ->
  let s' := d_set_k s i RIdle in
  DInv (DSt (d_now s') (d_closed s') (d_stopped s') (d_ctxdone s') (d_used s') (d_queue s') (d_pcs s') (d_disp s') (d_wk s')
          (d_close s') (d_cb s') (d_lost s') (d_subs s') (mk_runs l rb (d_now s) 0 ++ d_runs s') (d_cans s') (d_clos s')).
Proof.
  intros HI Hb Hi Hk. pose proof (j_krun _ _ HI i l rb Hk) as Hrb.
  apply (inv_mono b (d_now s)) in HI; [|lia]. destruct HI as [ ].
  destruct s as [now closed stopped ctxdone used queue pcs disp wk close cb lost subs runs cans clos]. unf.
  assert (Hc2 : forall y, cnt y (queue ++ hand_of disp ++ held (set_nth i RIdle RIdle wk) ++ map r_task (mk_runs l rb now 0 ++ runs) ++ map k_task cans ++ lost)
                  = cnt y (queue ++ hand_of disp ++ held wk ++ map r_task runs ++ map k_task cans ++ lost)).
  { intro y. pose proof (cnt_held_set_nth y i RIdle wk Hi) as E. rewrite Hk in E. cbn [k_items] in E.
    rewrite cnt_nil in E. cnt_norm. lia. }
  constructor; unf; auto.
  - intros r Hr. apply in_app_or in Hr. destruct Hr as [Hr|Hr]; [|apply j_runs0; exact Hr].
    destruct (mk_runs_spec _ _ _ _ _ Hr) as (A & B & C & D). rewrite A, B. repeat split; try lia.
    specialize (j_k_len0 i). rewrite Hk in j_k_len0. cbn [k_items] in j_k_len0.
    unfold Model.WorkQueue_dpool.bmax in j_k_len0. lia.
  - intros j l0 rb0. rewrite nth_set_nth. destruct (Nat.eqb_spec i j); [discriminate|apply j_krun0].
  - intro y. rewrite Hc2. apply j_once0.
  - intros y Hy. apply j_pl_ok0. apply cnt_In. rewrite <- Hc2. apply cnt_In. exact Hy.
  - intros y Hy. apply cnt_In. rewrite Hc2. apply cnt_In. apply j_ok_pl0. exact Hy.
  - intros j. rewrite nth_set_nth. destruct (Nat.eqb_spec i j); [cbn; lia|apply j_k_len0].
  - destruct close; auto. destruct j_close0 as (_ & _ & _ & A & _).
    rewrite (all_idle_nth wk i Hi A) in Hk. discriminate.
  - apply set_nth_ne.
  - eapply before_incl; [|apply incl_refl|exact j_fifo3].
    intros y Hy. rewrite map_app, map_task_mk_runs in Hy. rewrite !in_app_iff in *.
    pose proof (cnt_held_set_nth y i RIdle wk Hi) as E. rewrite Hk in E. cbn [k_items] in E. rewrite cnt_nil in E.
    destruct Hy as [Hy|[[Hy|Hy]|Hy]]; auto.
    + left. apply cnt_In. apply cnt_In in Hy. lia.
    + left. apply cnt_In. apply cnt_In in Hy. lia.
Qed.

(* Close *)
Lemma inv_close_call b s : DInvB b s -> b < d_now s -> d_close s = CIdle ->
  DInv (d_set_close s (d_closed s) (d_stopped s) (d_ctxdone s) (CStart (d_now s)) (d_now s) (d_clos s)).
Proof.
  intros HI Hb Hc. apply (inv_mono b (d_now s)) in HI; [|lia]. destruct HI as [ ].
  destruct s as [now closed stopped ctxdone used queue pcs disp wk close cb lost subs runs cans clos]. unf. subst close.
  destruct j_close0 as (A & B & C & D). subst.
  constructor; unf; auto.
  - intros _ Hd. rewrite Hd in j_late0. specialize (j_late0 eq_refl). discriminate.
  - repeat split; auto. lia.
  - lia.
Qed.

Lemma inv_close_store b s cb : DInvB b s -> d_close s = CStart cb ->
  (is_batch = true -> any_locked (d_pcs s) = false) ->
  DInvB b (d_set_close s true (if is_batch then true else d_stopped s) (d_ctxdone s) (CMid cb) (d_cb s) (d_clos s)).
Proof.
  intros [ ] Hc Hl.
  destruct s as [now closed stopped ctxdone used queue pcs disp wk close cb0 lost subs runs cans clos]. unf. subst close.
  destruct j_close0 as (A & B & C & D & E & F). subst.
  constructor; unf; auto.
  - intros _ t. destruct is_batch eqn:Hb.
    + apply any_locked_false. apply Hl. reflexivity.
    + specialize (j_pck0 t). destruct (nth t pcs PIdle) as [| | | |x st [|]]; try reflexivity.
      cbn [pc_kind_ok] in j_pck0. congruence.
  - intros Hx. discriminate.
  - repeat split; auto. destruct is_batch; reflexivity.
Qed.

Lemma inv_close_mid b s cb : DInvB b s -> d_close s = CMid cb ->
  DInvB b (d_set_close s (d_closed s) (if is_batch then d_stopped s else true)
                       (if is_batch then d_ctxdone s || cr else d_ctxdone s) (CWait cb) (d_cb s) (d_clos s)).
Proof.
  intros [ ] Hc.
  destruct s as [now closed stopped ctxdone used queue pcs disp wk close cb0 lost subs runs cans clos]. unf. subst close.
  destruct j_close0 as (A & B & C & D & E & F). subst.
  constructor; unf; auto.
  - destruct is_batch; cbn [orb]; [|discriminate]. intro Hcr. split; [exact Hcr|reflexivity].
  - repeat split; auto. destruct is_batch; reflexivity.
Qed.

Lemma inv_close_done b s cb : DInvB b s -> b < d_now s -> d_close s = CWait cb -> d_disp s = DExit ->
  all_idle (d_wk s) = true ->
  DInv (d_set_close s (d_closed s) (d_stopped s) (d_ctxdone s) CDone (d_cb s) (Clo cb (d_now s) true :: d_clos s)).
Proof.
  intros HI Hb Hc Hd Hidle. pose proof (inv_mono b (d_now s) s ltac:(lia) HI) as HM.
  destruct HI as [ ]. destruct HM as [ ].
  destruct s as [now closed stopped ctxdone used queue pcs disp wk close cb0 lost subs runs cans clos]. unf. subst close.
  destruct j_close0 as (A & B & C & D & E). subst.
  constructor; unf; auto.
  repeat split; auto. exists now. repeat split; auto; try lia.
  - intros r Hr. destruct (j_runs0 r Hr) as (_ & X & _). lia.
  - intros k Hk. specialize (j_cans0 k Hk). lia.
  - intros sb Hsb _. destruct (j_subs0 sb Hsb) as (_ & X & Y & _). lia.
  - intros t st Hp. assert (Ht : exists x, pc_task (nth t pcs PIdle) = Some (x, st)).
    { destruct (nth t pcs PIdle); try discriminate; cbn [pc_past pc_task] in *; inversion Hp; subst; eexists; reflexivity. }
    destruct Ht as (x & Ht). destruct (j_pcs0 _ _ _ Ht) as (_ & X & _). lia.
Qed.

Lemma d_uq_id s : d_uq s (d_used s) (d_queue s) = s.
Proof. destruct s; reflexivity. Qed.

Lemma bmax_pos : (1 <= bmax)%nat.
Proof. unfold Model.WorkQueue_dpool.bmax. lia. Qed.

Ltac bnd := unfold DInv; cbn [d_now d_set_pc d_upd_pcs d_uq d_set_disp d_set_k d_set_close d_ret d_cancel d_drop]; lia.

Lemma inv_thread_step s t alt : DInv s -> let s1 := d_tick s in DInv (d_thread_step cf s1 t alt).
Proof.
  intros HI0 s1. pose proof (inv_tick s HI0) as HB.
  assert (Hb : d_now s < d_now s1) by (unfold s1; cbn; lia).
  assert (HM : DInv s1) by (apply (inv_mono (d_now s)); [lia|exact HB]).
  fold s1 in HB. unfold d_thread_step.
  destruct (d_pc s1 t) as [|x st wait|x st wait|x st|x st locked] eqn:Hpc; [exact HM| | | |].
  - destruct (d_closed s1) eqn:Hcl.
    + rewrite <- (d_uq_id s1). apply (inv_ret_rej (d_now s)); auto; [rewrite Hpc; reflexivity|discriminate].
    + rewrite <- (d_uq_id s1). apply (inv_mono (d_now s)); [bnd|].
      apply inv_pc_move; auto; rewrite ?Hpc; try reflexivity; try exact I.
  - destruct alt.
    + destruct (d_stopped s1); [|exact HM].
      rewrite <- (d_uq_id s1). apply (inv_ret_rej (d_now s)); auto; [rewrite Hpc; reflexivity|discriminate].
    + destruct (d_used s1 <? dcap cf).
      * apply (inv_mono (d_now s)); [bnd|]. apply inv_pc_move; auto; rewrite ?Hpc.
        -- destruct is_batch; reflexivity.
        -- destruct is_batch eqn:Hbt; cbn [pc_kind_ok]; congruence.
        -- intros _. destruct is_batch; reflexivity.
        -- intros st0 E. left. destruct is_batch; cbn [pc_past] in *; exact E.
      * destruct (d_stopped s1); [exact HM|]. destruct wait; [exact HM|].
        rewrite <- (d_uq_id s1). apply (inv_ret_rej (d_now s)); auto; [rewrite Hpc; reflexivity|discriminate].
  - destruct (d_closed s1) eqn:Hcl.
    + apply (inv_ret_rej (d_now s)); auto; [rewrite Hpc; reflexivity|discriminate].
    + rewrite <- (d_uq_id s1). apply (inv_mono (d_now s)); [bnd|].
      apply inv_pc_move; auto; rewrite ?Hpc; try reflexivity.
      * cbn [pc_kind_ok]. pose proof (j_pck _ _ HM t) as K. rewrite Hpc in K. cbn [pc_kind_ok] in K. congruence.
      * intro E. congruence.
  - destruct alt.
    + destruct (d_stopped s1); [|exact HM].
      apply (inv_ret_rej (d_now s)); auto; [rewrite Hpc; reflexivity|discriminate].
    + destruct (room cf s1).
      * apply (inv_ret_ok (d_now s)); auto; rewrite ?Hpc; try reflexivity.
        intro Hbt. pose proof (j_pck _ _ HM t) as K. rewrite Hpc in K. cbn [pc_kind_ok] in K.
        destruct (d_closed s1) eqn:Hcl; [|reflexivity].
        pose proof (j_lock _ _ HM Hcl t) as L. rewrite Hpc in L. rewrite K, Hbt in L. discriminate.
      * destruct (d_stopped s1); [exact HM|].
        apply (inv_ret_rej (d_now s)); auto; [rewrite Hpc; reflexivity|discriminate].
Qed.

Lemma should_cancel_true s : should_cancel cf s = true -> ca = true /\ d_closed s = true.
Proof. unfold should_cancel. intro H. apply andb_true_iff in H. exact H. Qed.

Ltac d_fin Hn Hlt :=
  solve [ bnd | discriminate | reflexivity | assumption
        | intros; apply Hn; reflexivity | apply Hn; reflexivity
        | cbn [disp_late]; let E9 := fresh in intro E9; apply Hlt; exact E9
        | intros; apply Hlt; reflexivity
        | cbn [hand_of length]; rewrite ?app_length; cbn [length]; lia
        | let y := fresh "y" in intro y; cbn [hand_of]; rewrite ?cnt_cons, ?cnt_nil; lia
        | exists []; cbn [app hand_of]; split; [reflexivity|rewrite ?app_nil_r; apply incl_refl]
        | eexists [_]; cbn [app hand_of]; split; [reflexivity|apply incl_refl] ].
Ltac d_take s Hd Hn Hlt x r :=
  apply (inv_mono (d_now s)); [bnd|]; apply (inv_disp_take _ _ x r); auto; rewrite ?Hd; try d_fin Hn Hlt.
Ltac d_pcx s Hd Hn Hlt :=
  apply (inv_mono (d_now s)); [bnd|]; apply inv_disp_pc; auto; rewrite ?Hd; try d_fin Hn Hlt.
Ltac d_canc s Hd Hn Hlt :=
  apply (inv_cancel (d_now s)); auto; rewrite ?Hd; try d_fin Hn Hlt.

Lemma inv_disp_step s c : DInv s -> let s1 := d_tick s in DInv (d_disp_step cf s1 c).
Proof.
  intros HI0 s1. pose proof (inv_tick s HI0) as HB.
  assert (Hb : d_now s < d_now s1) by (unfold s1; cbn; lia).
  assert (HM : DInv s1) by (apply (inv_mono (d_now s)); [lia|exact HB]).
  fold s1 in HB. unfold d_disp_step.
  pose proof bmax_pos as Hbm.
  destruct (d_disp s1) as [dr|h dr|h dr|h dr|h dr| |] eqn:Hd.
  all: pose proof (j_hand_ne _ _ HM) as Hn; pose proof (j_late _ _ HM) as Hlt; rewrite Hd in Hn, Hlt;
       cbn [disp_has_hand disp_late hand_of] in Hn, Hlt.
  - (* DIdle *)
    destruct dr.
    + destruct (d_queue s1) as [|x r] eqn:Hq; [d_pcx s Hd Hn Hlt | d_take s Hd Hn Hlt x r].
    + destruct c; try exact HM.
      * destruct (d_queue s1) as [|x r] eqn:Hq; [exact HM|].
        destruct (should_cancel cf s1) eqn:Hsc.
        -- destruct (should_cancel_true _ Hsc) as (Hca & Hcl). d_canc s Hd Hn Hlt; rewrite ?Hq; try d_fin Hn Hlt.
        -- d_take s Hd Hn Hlt x r.
      * destruct (d_stopped s1) eqn:Hst; [|exact HM].
        pose proof (j_stop _ _ HM Hst) as Hcl. destruct ca eqn:Hca; d_pcx s Hd Hn Hlt.
  - (* DCollect *)
    destruct c; try exact HM.
    + destruct (d_queue s1) as [|x r] eqn:Hq; [exact HM|].
      destruct (Nat.ltb_spec (length h) bmax) as [Hl|Hge]; [|exact HM]. d_take s Hd Hn Hlt x r.
    + destruct (should_cancel cf s1) eqn:Hsc.
      * destruct (should_cancel_true _ Hsc) as (Hca & Hcl). rewrite <- (d_uq_id s1). d_canc s Hd Hn Hlt.
      * d_pcx s Hd Hn Hlt.
  - (* DSubmit *)
    destruct (should_cancel cf s1) eqn:Hsc.
    + destruct (should_cancel_true _ Hsc) as (Hca & Hcl). rewrite <- (d_uq_id s1). d_canc s Hd Hn Hlt.
    + d_pcx s Hd Hn Hlt.
  - (* DInvoke *)
    destruct c; try exact HM.
    + destruct (d_queue s1) as [|x r] eqn:Hq; [exact HM|].
      destruct (Nat.ltb_spec (length h) bmax) as [Hl|Hge]; [|exact HM]. d_take s Hd Hn Hlt x r.
    + destruct (Nat.ltb_spec i (length (d_wk s1))) as [Hi|Hi]; [|exact HM].
      destruct (d_k s1 i) eqn:Hk; try exact HM.
      apply (inv_mono (d_now s)); [bnd|]. apply inv_invoke_ok; auto.
    + d_pcx s Hd Hn Hlt.
  - (* DRetry *)
    destruct c; try exact HM.
    + destruct (ca && d_stopped s1) eqn:Hcs; [|exact HM]. apply andb_true_iff in Hcs. destruct Hcs as (Hca & Hst).
      pose proof (j_stop _ _ HM Hst) as Hcl. rewrite <- (d_uq_id s1). d_canc s Hd Hn Hlt.
    + d_pcx s Hd Hn Hlt.
    + destruct (d_ctxdone s1) eqn:Hctx; [|exact HM].
      destruct (should_cancel cf s1) eqn:Hsc.
      * destruct (should_cancel_true _ Hsc) as (Hca & Hcl). rewrite <- (d_uq_id s1). d_canc s Hd Hn Hlt.
      * apply (inv_mono (d_now s)); [bnd|]. apply inv_drop; auto; rewrite ?Hd; try d_fin Hn Hlt.
  - (* DCancelQ *)
    assert (Hca : ca = true) by (apply (j_cq _ _ HM); exact Hd).
    assert (Hcl : d_closed s1 = true) by (apply Hlt; reflexivity).
    destruct (d_queue s1) as [|x r] eqn:Hq; [d_pcx s Hd Hn Hlt | d_canc s Hd Hn Hlt; rewrite ?Hq; try d_fin Hn Hlt].
  - exact HM.
Qed.

Lemma inv_step s e : DInv s -> DInv (d_step s e).
Proof.
  intro HI0. pose proof (inv_tick s HI0) as HB. unfold Model.WorkQueue_dpool.d_step.
  destruct e as [t wait|t alt|c|i| |]; [| apply inv_thread_step; exact HI0 | apply inv_disp_step; exact HI0 | | |].
  all: set (s1 := d_tick s) in *; assert (Hb : d_now s < d_now s1) by (unfold s1; cbn; lia);
       assert (HM : DInv s1) by (apply (inv_mono (d_now s)); [lia|exact HB]).
  - destruct (d_pc s1 t) eqn:Hpc; try exact HM. apply (inv_call (d_now s)); auto.
  - unfold d_work_step. destruct (Nat.ltb_spec i (length (d_wk s1))) as [Hi|Hi]; cbn [negb]; [|exact HM].
    destruct (d_k s1 i) as [|l|l rb] eqn:Hk; [exact HM| |].
    + apply (inv_work_start (d_now s)); auto.
    + apply (inv_work_end (d_now s)); auto.
  - destruct (d_close s1) eqn:Hc; try exact HM. apply (inv_close_call (d_now s)); auto.
  - unfold d_close_step. destruct (d_close s1) as [|cb|cb|cb|] eqn:Hc; try exact HM.
    + destruct is_batch eqn:Hbt.
      * destruct (any_locked (d_pcs s1)) eqn:Hal; [exact HM|].
        apply (inv_mono (d_now s)); [bnd|].
        pose proof (inv_close_store (d_now s) s1 cb HB Hc) as X. rewrite Hbt in X. apply X. intros _. exact Hal.
      * apply (inv_mono (d_now s)); [bnd|].
        pose proof (inv_close_store (d_now s) s1 cb HB Hc) as X. rewrite Hbt in X. apply X. intro; discriminate.
    + pose proof (inv_close_mid (d_now s) s1 cb HB Hc) as X.
      destruct is_batch eqn:Hbt; (apply (inv_mono (d_now s)); [bnd|]); exact X.
    + destruct (d_disp s1) eqn:Hd; try exact HM.
      destruct (all_idle (d_wk s1)) eqn:Hid; [|exact HM].
      apply (inv_close_done (d_now s)); auto.
Qed.

Hypothesis workers_pos : c_workers cf <> 0.

Lemma nth_repeat_ridle i n : nth i (repeat RIdle n) RIdle = RIdle.
Proof.
  destruct (nth_In_or_default i (repeat RIdle n) RIdle) as [H|H]; [apply repeat_spec in H|]; exact H.
Qed.

Lemma held_repeat n : held (repeat RIdle n) = [].
Proof. induction n; cbn; auto. Qed.

Lemma inv_init : DInv (d_init cf).
Proof.
  unfold DInv, d_init. constructor; unf; rewrite ?held_repeat; cbn [hand_of app]; intros;
    repeat match goal with
           | H : context [nth _ (repeat RIdle _) RIdle] |- _ => rewrite nth_repeat_ridle in H
           | H : context [nth ?t [] PIdle] |- _ => destruct t; cbn [nth pc_task pc_past] in H
           | |- context [nth _ (repeat RIdle _) RIdle] => rewrite nth_repeat_ridle
           | |- context [nth ?t [] PIdle] => destruct t; cbn [nth]
           end;
    try discriminate; try contradiction; try (constructor; fail); try (cbn; lia); auto.
  all: try match goal with H : okset [] _ |- _ => destruct H as (sb & [] & _) end.
  all: try (exfalso; congruence).
  all: try (repeat split; reflexivity).
  all: try (intros sa sc []; fail).
  all: try (intros l1 a l2 E; destruct l1; discriminate).
  destruct (N.to_nat (c_workers cf)) eqn:E; [lia|]. discriminate.
Qed.

Lemma inv_fold evs : forall s, DInv s -> DInv (fold_left d_step evs s).
Proof. induction evs as [|e evs IH]; intros s H; [exact H|]. cbn [fold_left]. apply IH. apply inv_step. exact H. Qed.

Theorem inv_run evs : DInv (d_run evs).
Proof. apply inv_fold. exact inv_init. Qed.

(* ---- consequences --------------------------------------------------------------------------- *)

Lemma d_at_most_once evs :
  NoDup (map r_task (d_runs (d_run evs)) ++ map k_task (d_cans (d_run evs))).
Proof.
  pose proof (inv_run evs) as HI. apply NoDup_cnt. intro x. pose proof (j_once _ _ HI x) as H.
  unfold places in H. rewrite !cnt_app in *. lia.
Qed.

Lemma d_terminal_in_places evs x :
  In x (map r_task (d_runs (d_run evs)) ++ map k_task (d_cans (d_run evs))) -> In x (places (d_run evs)).
Proof.
  intro H. unfold places. apply cnt_In in H. apply cnt_In. rewrite !cnt_app in *. lia.
Qed.

Lemma d_rejected_never_runs evs sb :
  In sb (d_subs (d_run evs)) -> s_res sb <> ROk ->
  ~ In (s_task sb) (map r_task (d_runs (d_run evs)) ++ map k_task (d_cans (d_run evs))).
Proof.
  intros Hin Hr Hran. pose proof (inv_run evs) as HI.
  destruct (j_pl_ok _ _ HI (s_task sb) (d_terminal_in_places evs _ Hran)) as (sb' & Hin' & Et & Er).
  assert (sb' = sb) by (eapply NoDup_map_inj; [apply (j_subs_nd _ _ HI)|exact Hin'|exact Hin|exact Et]).
  subst sb'. contradiction.
Qed.

Lemma d_cancel_only_if_configured evs : d_cans (d_run evs) <> [] -> ca = true.
Proof. apply (j_cans_cfg _ _ (inv_run evs)). Qed.

(* what Close's return guarantees for an admitted task *)
Lemma d_close_waits evs c sb :
  In c (d_clos (d_run evs)) -> In sb (d_subs (d_run evs)) -> s_res sb = ROk ->
  let s := d_run evs in
  (exists r, In r (d_runs s) /\ r_task r = s_task sb /\ r_e r < l_e c)
  \/ (exists k, In k (d_cans s) /\ k_task k = s_task sb /\ k_at k < l_e c)
  \/ (~ In (s_task sb) (map r_task (d_runs s) ++ map k_task (d_cans s))
      /\ d_disp s = DExit /\ s_b sb < l_e c /\ l_b c = d_cb s
      /\ (In (s_task sb) (d_queue s) \/ In (s_task sb) (d_lost s))
      /\ (forall x, In x (d_subs s) -> s_e sb < s_b x ->
            ~ In (s_task x) (map r_task (d_runs s) ++ map k_task (d_cans s)))).
Proof.
  intros Hc Hin Hr s. pose proof (inv_run evs) as HI. fold s in HI. pose proof (j_close _ _ HI) as HC.
  unfold close_inv in HC. fold s in Hc, Hin.
  assert (Hlater : In (s_task sb) (d_queue s) \/ In (s_task sb) (d_lost s) ->
            forall x, In x (d_subs s) -> s_e sb < s_b x ->
            ~ In (s_task x) (map r_task (d_runs s) ++ map k_task (d_cans s))).
  { intros Hw x Hx Hlt Ht.
    assert (X : s_e x < s_e sb).
    { apply (j_fifo1 _ _ HI x sb Hx Hin); rewrite !in_app_iff in *; tauto. }
    destruct (j_subs _ _ HI x Hx) as (_ & Y & _). lia. }
  destruct (d_close s).
  - destruct HC as (_ & _ & _ & E). rewrite E in Hc. destruct Hc.
  - destruct HC as (_ & _ & _ & E & _). rewrite E in Hc. destruct Hc.
  - destruct HC as (_ & _ & _ & E & _). rewrite E in Hc. destruct Hc.
  - destruct HC as (_ & _ & E & _). rewrite E in Hc. destruct Hc.
  - destruct HC as (_ & _ & Hd & Hidle & ce & E & Hlt & _ & Hruns & Hcans & Hsubs & _). rewrite E in Hc.
    destruct Hc as [<-|[]]. cbn [l_e l_b].
    assert (Hpl : In (s_task sb) (places s)) by (apply (j_ok_pl _ _ HI); exists sb; auto).
    pose proof (j_once _ _ HI (s_task sb)) as Honce.
    unfold places in Hpl, Honce. rewrite Hd, (held_all_idle _ Hidle) in Hpl, Honce. cbn [hand_of app] in Hpl, Honce.
    rewrite !cnt_app in Honce.
    apply in_app_or in Hpl. destruct Hpl as [Hq|Hpl].
    + right; right. repeat split; auto.
      * intro Ht. apply cnt_In in Ht. apply cnt_In in Hq. rewrite cnt_app in Ht. lia.
    + apply in_app_or in Hpl. destruct Hpl as [Hran|Hpl].
      * left. apply in_map_iff in Hran. destruct Hran as (r & Er & Hr'). exists r. repeat split; auto.
      * apply in_app_or in Hpl. destruct Hpl as [Hcan|Hl].
        -- right; left. apply in_map_iff in Hcan. destruct Hcan as (k & Ek & Hk'). exists k. repeat split; auto.
        -- right; right. repeat split; auto.
           intro Ht. apply cnt_In in Ht. apply cnt_In in Hl. rewrite cnt_app in Ht. lia.
Qed.

Hypothesis kind_dp : c_kind cf = KPool \/ c_kind cf = KBatch.

(* the known-finding code of the configuration (0 = none) *)
Definition dcode : N := if is_batch then (if ca then 5 else if cr then 4 else 0) else 2.

Lemma dcode_ne1 : dcode <> 1.
Proof. unfold dcode. destruct is_batch, ca, cr; discriminate. Qed.

Theorem d_monitor evs : allowed dcode (C37_monitor (d_hist (d_run evs))).
Proof.
  pose proof (inv_run evs) as HI. set (s := d_run evs) in *.
  apply monitor_allowed; [exact dcode_ne1| | | | |].
  - apply ok_once_intro. apply d_at_most_once.
  - apply ok_rejected_intro. intros sb Hin Hr. apply d_rejected_never_runs; [exact Hin|].
    intro E. rewrite E in Hr. discriminate.
  - unfold ok_cancel_cfg, d_hist. cbn [h_cans h_cfg]. destruct (d_cans s) eqn:Ec; [reflexivity|].
    assert (Hca : ca = true) by (apply (j_cans_cfg _ _ HI); rewrite Ec; discriminate). exact Hca.
  - unfold ok_mailbox, d_hist. cbn [h_cfg]. destruct kind_dp as [E|E]; rewrite E; reflexivity.
  - intros c Hc _ sb Hin Hr.
    assert (Er : s_res sb = ROk) by (destruct (s_res sb); try discriminate; reflexivity).
    destruct (d_close_waits evs c sb Hc Hin Er) as [(r & A & B & C)|[(k & A & B & C)|(Hnt & Hd & Hsb & Hcb & Hwhere & Hlater)]].
    + left. apply task_code_zero. eapply terminal_before_run; eauto.
    + left. apply task_code_zero. eapply terminal_before_can; eauto.
    + fold s in Hnt, Hd, Hcb, Hwhere. unfold task_code.
      rewrite (terminal_before_false (d_hist s) _ _ Hnt), (has_terminal_false (d_hist s) _ Hnt).
      assert (Hnl : no_later_terminal (d_hist s) sb = true).
      { unfold no_later_terminal. apply forallb_forall. intros x Hx. apply negb_true_iff.
        destruct (is_ok (s_res x)); [|reflexivity]. destruct (N.ltb_spec (s_e sb) (s_b x)) as [Hl|Hl]; [|reflexivity].
        cbn [andb]. apply has_terminal_false. fold s in Hlater. apply (Hlater x Hx Hl). }
      rewrite Hnl.
      unfold Model.WorkQueue_dpool.d_hist. cbn [h_cfg h_cans h_clos]. unfold dcode.
      pose proof (j_lost _ _ HI) as Hlost. pose proof (j_exit_b _ _ HI) as Heb. pose proof (j_exit_p _ _ HI) as Hep.
      assert (Hib : is_batch = kind_eqb (c_kind cf) KBatch) by reflexivity.
      destruct kind_dp as [Ek|Ek]; rewrite Ek in *; cbn [kind_eqb] in Hib.
      * (* pool *)
        rewrite Hib. right.
        assert (Hq : In (s_task sb) (d_queue s)).
        { destruct Hwhere as [Hq|Hl]; [exact Hq|]. exfalso.
          assert (Hne : d_lost s <> []) by (intro E0; rewrite E0 in Hl; destruct Hl).
          destruct (Hlost Hne) as (_ & Hcr). unfold Model.WorkQueue_dpool.cr in Hcr. rewrite Hib in Hcr. discriminate. }
        destruct (Hep Hib Hd _ Hq) as (sb' & Hin' & Et & _ & Hse).
        assert (sb' = sb) by (eapply NoDup_map_inj; [apply (j_subs_nd _ _ HI)|exact Hin'|exact Hin|exact Et]). subst sb'.
        replace (existsb (fun c' => (s_b sb <? l_e c') && (l_b c' <? s_e sb)) (d_clos s)) with true; [reflexivity|].
        symmetry. apply existsb_exists. exists c. split; [exact Hc|].
        apply andb_true_iff. split; apply N.ltb_lt; [exact Hsb|rewrite Hcb; exact Hse].
      * (* batch *)
        rewrite Hib.
        assert (Eca : c_cancel_acc cf = ca) by (unfold Model.WorkQueue_dpool.ca; rewrite Hib; reflexivity).
        assert (Ecr : c_cancel_run cf = cr) by (unfold Model.WorkQueue_dpool.cr; rewrite Hib; reflexivity).
        rewrite Eca, Ecr.
        destruct ca eqn:Hca.
        -- right. assert (Hq : In (s_task sb) (d_queue s)).
           { destruct Hwhere as [Hq|Hl]; [exact Hq|]. exfalso.
             assert (Hne : d_lost s <> []) by (intro E0; rewrite E0 in Hl; destruct Hl).
             destruct (Hlost Hne) as (X & _). discriminate. }
           assert (Hqn : d_queue s <> []) by (intro E0; rewrite E0 in Hq; destruct Hq).
           destruct (Heb Hib Hd Hqn) as [(_ & Hcn)|(X & _)]; [|discriminate].
           destruct (d_cans s); [congruence|reflexivity].
        -- destruct cr eqn:Hcr; [right; reflexivity|]. exfalso.
           destruct Hwhere as [Hq|Hl].
           ++ assert (Hqn : d_queue s <> []) by (intro E0; rewrite E0 in Hq; destruct Hq).
              destruct (Heb Hib Hd Hqn) as [(X & _)|(_ & X)]; discriminate.
           ++ assert (Hne : d_lost s <> []) by (intro E0; rewrite E0 in Hl; destruct Hl).
              destruct (Hlost Hne) as (_ & X). discriminate.
Qed.

(* BoundedBatchPool without cancel-on-close flags: exactly once, Close waits *)
Corollary d_monitor_plain evs : is_batch = true -> ca = false -> cr = false ->
  C37_monitor (d_hist (d_run evs)) = 0.
Proof.
  intros Hb Hca Hcr. pose proof (d_monitor evs) as H. unfold dcode in H. rewrite Hb, Hca, Hcr in H.
  destruct H as [H|H]; exact H.
Qed.

Theorem d_accepts evs : C37_mismatch (d_hist (d_run evs)) = false.
Proof.
  pose proof (inv_run evs) as HI. unfold C37_mismatch. apply negb_false_iff.
  repeat (apply andb_true_iff; split).
  - apply nodupb_NoDup. apply (j_subs_nd _ _ HI).
  - apply forallb_forall. intros sb Hin. apply N.ltb_lt. apply (j_subs _ _ HI sb Hin).
  - apply forallb_forall. intros r Hin. apply N.ltb_lt. apply (j_runs _ _ HI r Hin).
  - apply forallb_forall. intros c Hc. apply N.ltb_lt. cbn [d_hist h_clos] in Hc.
    pose proof (j_close _ _ HI) as HC. unfold close_inv in HC. destruct (d_close (d_run evs)).
    + destruct HC as (_ & _ & _ & E). rewrite E in Hc. destruct Hc.
    + destruct HC as (_ & _ & _ & E & _). rewrite E in Hc. destruct Hc.
    + destruct HC as (_ & _ & _ & E & _). rewrite E in Hc. destruct Hc.
    + destruct HC as (_ & _ & E & _). rewrite E in Hc. destruct Hc.
    + destruct HC as (_ & _ & _ & _ & ce & E & Hlt & _). rewrite E in Hc. destruct Hc as [<-|[]]. exact Hlt.
  - reflexivity.
  - unfold batch_size_ok. apply forallb_forall. intros r Hin. apply N.ltb_lt. apply (j_runs _ _ HI r Hin).
  - unfold shards_ok. apply forallb_forall. intros sb Hin. apply N.ltb_lt.
    destruct (j_subs _ _ HI sb Hin) as (_ & _ & _ & E). rewrite E. lia.
Qed.

End DPoolProof.
