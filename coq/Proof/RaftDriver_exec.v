(* Proof/RaftDriver_exec.v — C12: unfolding lemmas for the micro-operations of the
   driver model, and the generic "valid sequence" machinery. *)
From WK Require Import Base.Base Model.RaftDriver Proof.RaftDriver_lists.
From Coq Require Import ZifyBool ZifyN ZifyNat.
Open Scope N_scope.

Ltac nsimpl :=
  cbn [durable_sm d_log d_hs d_snap d_snapc d_applied sm_idx sm_hist v_up v_failed v_applying v_applied
       v_queue v_submitted v_pending v_leader g_pos n_tr n_futs
       emit set_durable_log set_d_applied set_sm set_pos set_volatile set_futures] in *.

Definition live (s : node) : Prop := v_up s = true /\ v_failed s = false.

Lemma live_guard s : live s -> v_failed s || negb (v_up s) = false.
Proof. intros [-> ->]. reflexivity. Qed.

Lemma exec_dead o s : ~ live s -> exec o s = s.
Proof.
  intro H. unfold exec. destruct (v_failed s) eqn:F; [reflexivity|].
  destruct (v_up s) eqn:U; [exfalso; apply H; split; assumption | reflexivity].
Qed.

Lemma live_dec s : {live s} + {~ live s}.
Proof.
  unfold live. destruct (v_up s), (v_failed s); try (left; split; reflexivity);
    right; intros [A B]; discriminate.
Qed.

Lemma exec_live o s :
  live s ->
  exec o s =
  match o with
  | OSave hs ents snap =>
      match hs, ents, snap with
      | None, [], None => s
      | _, _, _ =>
          let log' := log_put (d_log s) ents in
          let hs' := match hs with Some h => h | None => d_hs s end in
          let '(sn, snc) := match snap with Some (i, _, c) => (i, c) | None => (d_snap s, d_snapc s) end in
          emit (EvSave hs ents (snap_meta snap)) (set_durable_log log' hs' sn snc s)
      end
  | OTrack ents =>
      let '(sub, pend) := trackReadyEntries ents (v_submitted s) (v_pending s) in
      set_futures sub pend (v_leader s) (n_futs s) s
  | OSend ms => match ms with [] => s | _ => emit (EvSend ms) s end
  | ORestore i c => emit (EvRestore i) (set_sm i c i s)
  | OCall ents =>
      emit (EvApply (1 <? N.of_nat (length ents)) ents)
           (set_sm (lastApplied ents (sm_idx s)) (sm_hist s ++ ents) (N.max (g_pos s) (lastApplied ents (sm_idx s))) s)
  | OMarkApplied index =>
      if index <=? v_applied s then s else
      match markApplied (durable_sm s) (sm_idx s) index with
      | MarkErr => set_volatile (v_up s) true (v_applying s) (v_applied s) (v_queue s) s
      | MarkSkip => set_pos (N.max (g_pos s) index)
                      (set_volatile (v_up s) (v_failed s) (v_applying s) index (v_queue s) s)
      | MarkStore => set_pos (N.max (g_pos s) index)
                      (set_volatile (v_up s) (v_failed s) (v_applying s) index (v_queue s)
                         (emit (EvMark index) (set_d_applied index s)))
      end
  | OResolve ents => completeResolutions ents s
  | OEnqueue t => set_volatile (v_up s) (v_failed s) (v_applying s) (v_applied s) (v_queue s ++ [t]) s
  | ODequeue => set_volatile (v_up s) (v_failed s) (v_applying s) (v_applied s) (tl (v_queue s)) s
  | OAccept upto => set_volatile (v_up s) (v_failed s) (N.max (v_applying s) upto) (v_applied s) (v_queue s) s
  | ORefresh leader => refreshStatus leader s
  | OCompactMark i => if durable_sm s then emit (EvMark i) (set_d_applied i s) else s
  | OCompactSave i =>
      emit (EvSave None [] (Some (i, 0))) (set_durable_log (d_log s) (d_hs s) i (sm_hist s) s)
  end.
Proof. intro H. unfold exec. rewrite (live_guard s H). reflexivity. Qed.

Definition save_body (hs : option hardstate) (ents : list entry) (snap : option (N * N * list entry)) (s : node) : node :=
  let log' := log_put (d_log s) ents in
  let hs' := match hs with Some h => h | None => d_hs s end in
  let '(sn, snc) := match snap with Some (i, _, c) => (i, c) | None => (d_snap s, d_snapc s) end in
  emit (EvSave hs ents (snap_meta snap)) (set_durable_log log' hs' sn snc s).

Lemma exec_save_live hs ents snap s :
  live s ->
  (hs = None /\ ents = [] /\ snap = None /\ exec (OSave hs ents snap) s = s)
  \/ exec (OSave hs ents snap) s = save_body hs ents snap s.
Proof.
  intro L. rewrite (exec_live _ _ L). unfold save_body.
  destruct hs, ents, snap; try (right; reflexivity). left. repeat split; reflexivity.
Qed.

Lemma exec_all_app a b s : exec_all (a ++ b) s = exec_all b (exec_all a s).
Proof. unfold exec_all. apply fold_left_app. Qed.

Lemma exec_all_cons o r s : exec_all (o :: r) s = exec_all r (exec o s).
Proof. reflexivity. Qed.

Lemma exec_all_nil s : exec_all [] s = s.
Proof. reflexivity. Qed.

(* ---- futures bookkeeping never touches anything else -------------------------------------- *)

Definition same_core (s s' : node) : Prop :=
  durable_sm s' = durable_sm s /\ d_log s' = d_log s /\ d_hs s' = d_hs s /\ d_snap s' = d_snap s
  /\ d_snapc s' = d_snapc s /\ d_applied s' = d_applied s /\ sm_idx s' = sm_idx s /\ sm_hist s' = sm_hist s
  /\ v_up s' = v_up s /\ v_failed s' = v_failed s /\ v_applying s' = v_applying s /\ v_applied s' = v_applied s
  /\ v_queue s' = v_queue s /\ g_pos s' = g_pos s /\ n_tr s' = n_tr s.

Lemma same_core_refl s : same_core s s.
Proof. unfold same_core. repeat split; reflexivity. Qed.

Lemma same_core_trans a b c : same_core a b -> same_core b c -> same_core a c.
Proof.
  unfold same_core. intros H1 H2.
  decompose [and] H1. decompose [and] H2. repeat split; congruence.
Qed.

Lemma same_core_set_futures sub pend l out s : same_core s (set_futures sub pend l out s).
Proof. unfold same_core. nsimpl. repeat split; reflexivity. Qed.

Lemma resolveProposal_core e s : same_core s (resolveProposal e s).
Proof.
  unfold resolveProposal. destruct (pend_get (v_pending s) (e_idx e)) as [[t f]|]; [|apply same_core_refl].
  destruct (t =? e_term e); [apply same_core_set_futures | apply same_core_refl].
Qed.

Lemma completeResolutions_core ents s : same_core s (completeResolutions ents s).
Proof.
  unfold completeResolutions. revert s. induction ents as [|e r IH]; intro s; cbn [fold_left].
  - apply same_core_refl.
  - eapply same_core_trans; [apply resolveProposal_core | apply IH].
Qed.

Lemma failLeadershipDependent_core s : same_core s (failLeadershipDependent s).
Proof. unfold failLeadershipDependent. apply same_core_set_futures. Qed.

Lemma refreshStatus_core l s : same_core s (refreshStatus l s).
Proof.
  unfold refreshStatus. destruct (v_leader s && negb l).
  - eapply same_core_trans; [apply failLeadershipDependent_core | apply same_core_set_futures].
  - apply same_core_set_futures.
Qed.

Lemma track_core ents s :
  same_core s (let '(sub, pend) := trackReadyEntries ents (v_submitted s) (v_pending s) in
               set_futures sub pend (v_leader s) (n_futs s) s).
Proof. destruct (trackReadyEntries ents (v_submitted s) (v_pending s)). apply same_core_set_futures. Qed.

(* liveness is part of the core *)
Lemma same_core_live s s' : same_core s s' -> live s -> live s'.
Proof. unfold same_core, live. intros H [A B]. decompose [and] H. split; congruence. Qed.
