(* Proof/Cluster_Lift.v — generic lifting: any reflexive, transitive relation on replicas that every
   Sync and every recovery suffix replacement satisfies is satisfied, replica by replica, by every
   owner-level operation (durability rounds, barrier, recovery repair, Install, Commit, follower gap
   repair).  Instantiated in Proof/QuorumLog_C01_partial.v. *)
From WK Require Import Base.Base.
From WK Require Import Model.ReplicaLog Model.QuorumLog Model.Cluster.
From WK Require Import Proof.ReplicaLog Proof.QuorumLog_Commit.
From Coq Require Import ZifyBool ZifyN.
Open Scope N_scope.

Section Lift.
  Variable R : replica -> replica -> Prop.
  Hypothesis R_refl : forall rp, R rp rp.
  Hypothesis R_trans : forall a b c, R a b -> R b c -> R a c.
  Hypothesis R_sync : forall k rp mu rp' o nf, sync k rp mu = (rp', o, nf) -> R rp rp'.
  Hypothesis R_replace : forall k rp q rp' lo, replace k rp q = inr (rp', lo) -> R rp rp'.

Definition net_ok (n n' : net) : Prop :=
  nt_kind n' = nt_kind n /\ forall v, R (net_rep n v) (net_rep n' v).

Lemma net_ok_refl n : net_ok n n.
Proof. split; [reflexivity | intro v; apply R_refl]. Qed.

Lemma net_ok_trans a b c : net_ok a b -> net_ok b c -> net_ok a c.
Proof.
  intros [K1 H1] [K2 H2]. split; [congruence|]. intro v. eapply R_trans; eauto.
Qed.

Lemma net_set_ok n v rp : R (net_rep n v) rp -> net_ok n (net_set n v rp).
Proof.
  intro H. split; [reflexivity|]. intro w. rewrite net_rep_set.
  destruct (w =? v) eqn:E; [apply N.eqb_eq in E; subst; exact H | apply R_refl].
Qed.


(* ---- durability rounds ------------------------------------------------------------------------------ *)

Lemma submitLocal_ok n local p n' o : submitLocal n local p = (n', o) -> net_ok n n'.
Proof.
  unfold submitLocal. destruct (memN local (fl_drop (nt_flt n))); [intro H; inversion H; apply net_ok_refl|].
  destruct (sync (nt_kind n) (net_rep n local) (dp_mutation p)) as [[rp o1] nf] eqn:E.
  intro H. assert (n' = net_set n local rp) by (destruct (memN local _); inversion H; reflexivity). subst.
  apply net_set_ok. eapply R_sync; eauto.
Qed.

Lemma submitReplica_ok n local v p n' o : submitReplica n local v p = (n', o) -> net_ok n n'.
Proof.
  unfold submitReplica. destruct (unreachable n local v); [intro H; inversion H; apply net_ok_refl|].
  destruct (negb (net_known n v) || negb (replicate_request_valid (dp_leader p) v p)); [intro H; inversion H; apply net_ok_refl|].
  destruct (sync (nt_kind n) (net_rep n v) (dp_mutation p)) as [[rp o1] nf] eqn:E.
  intro H. assert (n' = net_set n v rp).
  { destruct (memN v _); [inversion H; reflexivity|]. destruct o1; try (inversion H; reflexivity).
    destruct (0 <? nf); inversion H; reflexivity. }
  subst. apply net_set_ok. eapply R_sync; eauto.
Qed.

Lemma submit_all_ok local p : forall vs n q n' q', submit_all n local p vs q = (n', q') -> net_ok n n'.
Proof.
  induction vs as [|v vs IH]; intros n q n' q' H; cbn in H; [inversion H; apply net_ok_refl|].
  destruct (submitReplica n local v p) as [n1 o] eqn:E.
  eapply net_ok_trans; [eapply submitReplica_ok; eauto | eapply IH; eauto].
Qed.

Lemma round_loop_ok : forall fuel n local wq p queue next ld votes out cf lf n' res,
  round_loop fuel n local wq p queue next ld votes out cf lf = (n', res) -> net_ok n n'.
Proof.
  induction fuel as [|fuel IH]; intros n local wq p queue next ld votes out cf lf n' res H; cbn in H;
    [inversion H; apply net_ok_refl|].
  destruct queue as [|[isLocal o] queue']; [inversion H; apply net_ok_refl|].
  destruct (_ && _).
  - destruct (submit_all n local p next []) as [n1 q1] eqn:E. inversion H; subst. eapply submit_all_ok; eauto.
  - destruct (isLocal && negb (outcome_durable o)).
    + destruct (submit_all n local p next queue') as [n1 q1] eqn:E.
      eapply net_ok_trans; [eapply submit_all_ok; eauto | eapply IH; eauto].
    + destruct (_ && _ && _).
      * destruct next as [|v next']; [eapply IH; eauto|].
        destruct (submitReplica n local v p) as [n1 o1] eqn:E.
        eapply net_ok_trans; [eapply submitReplica_ok; eauto | eapply IH; eauto].
      * eapply IH; eauto.
Qed.

Lemma runDurableRound_ok n local voters wq rot p n' res :
  runDurableRound n local voters wq rot p = (n', res) -> net_ok n n'.
Proof.
  unfold runDurableRound. cbv zeta. destruct (submitLocal n local p) as [n1 o1] eqn:E1.
  destruct (submit_all n1 local p _ _) as [n2 queue] eqn:E2. intro H.
  eapply net_ok_trans; [eapply submitLocal_ok; eauto|].
  eapply net_ok_trans; [eapply submit_all_ok; eauto | eapply round_loop_ok; eauto].
Qed.

Lemma writeCurrentTermBarrier_ok n a recovered rot n' r :
  writeCurrentTermBarrier n a recovered rot = (n', r) -> net_ok n n'.
Proof.
  unfold writeCurrentTermBarrier.
  destruct (_ || _ || _); [intro H; inversion H; apply net_ok_refl|].
  destruct (_ && _); [intro H; inversion H; apply net_ok_refl|].
  destruct (recoveryBarrierContent a) as [cmd rec].
  destruct (SealProposalManifest _ _) as [[m es]|]; [|intro H; inversion H; apply net_ok_refl].
  destruct (runDurableRound n (a_leader a) (a_voters a) (a_q a) rot _) as [n1 res] eqn:E.
  intro H. assert (n' = n1).
  { destruct (negb (rr_ok res)); [inversion H; reflexivity|]. destruct (_ || _ || _); inversion H; reflexivity. }
  subst. eapply runDurableRound_ok; eauto.
Qed.

(* ---- recovery repair ----------------------------------------------------------------------------------- *)

Lemma local_replace_ok n local q n' r : local_replace n local q = (n', r) -> net_ok n n'.
Proof.
  unfold local_replace.
  assert (Hput : forall rp lo c, replace (nt_kind n) (net_rep n local) q = inr (rp, lo) ->
            net_ok n (Net (nt_kind n) (put_rep (nt_reps n) local rp) (nt_down n) (nt_flt n) c)).
  { intros rp lo c E. split; [reflexivity|]. intro v. unfold net_rep at 2. cbn [nt_reps]. rewrite get_rep_put.
    destruct (v =? local) eqn:Ev; [|apply R_refl]. apply N.eqb_eq in Ev. subst v.
    eapply R_replace; eauto. }
  assert (Hsame : forall c, net_ok n (Net (nt_kind n) (nt_reps n) (nt_down n) (nt_flt n) c)).
  { intro c. split; [reflexivity|]. intro v. apply R_refl. }
  destruct (fl_rb (nt_flt n)) as [b|].
  - destruct (b <=? nt_replaced n); [intro H; inversion H; apply net_ok_refl|].
    destruct (replace (nt_kind n) (net_rep n local) q) as [e | [rp lo]] eqn:E; intro H; inversion H; subst.
    + apply Hsame.
    + eapply Hput; eauto.
  - destruct (replace (nt_kind n) (net_rep n local) q) as [e | [rp lo]] eqn:E; intro H; inversion H; subst.
    + apply net_ok_refl.
    + apply (Hput rp lo (nt_replaced n)). first [exact E | reflexivity].
Qed.

Lemma repair_pages_ok : forall fuel n local sel maxBytes current from keepThrough previous firstPage n' r,
  repair_pages fuel n local sel maxBytes current from keepThrough previous firstPage = (n', r) -> net_ok n n'.
Proof.
  induction fuel as [|fuel IH]; intros n local sel maxBytes current from keepThrough previous firstPage n' r H; cbn in H;
    [inversion H; apply net_ok_refl|].
  destruct (sl_index sel <? from); [inversion H; apply net_ok_refl|].
  destruct (fetchRecoveryPage _ _ _ _ _ _ _ _) as [e | ps]; [inversion H; apply net_ok_refl|].
  destruct (negb (validRecoveryProposals _ _ _ _ _)); [inversion H; apply net_ok_refl|].
  destruct (last_proposal ps) as [lm lrecs].
  destruct (SealProposalManifest lm lrecs) as [[sm les]|]; [|inversion H; apply net_ok_refl].
  destruct (_ && _ && _); [inversion H; apply net_ok_refl|].
  destruct (local_replace n local _) as [n1 res] eqn:E.
  pose proof (local_replace_ok _ _ _ _ _ E) as K.
  destruct res as [e | lo]; [inversion H; subst; exact K|].
  destruct (negb (lo =? m_last lm)); [inversion H; subst; exact K|].
  destruct (loadRecoveryReplicaState n1 local []) as [e | [loaded es]]; [inversion H; subst; exact K|].
  destruct (negb (rstate_eqb loaded _)); [inversion H; subst; exact K|].
  eapply net_ok_trans; [exact K | eapply IH; eauto].
Qed.

Lemma repairQuorumPrefix_ok n local voters q sel maxBytes n' r :
  repairQuorumPrefix n local voters q sel maxBytes = (n', r) -> net_ok n n'.
Proof.
  unfold repairQuorumPrefix.
  destruct (_ || _); [intro H; inversion H; apply net_ok_refl|].
  destruct (loadRecoveryReplicaState n local []) as [e | [localSt es]]; [intro H; inversion H; apply net_ok_refl|].
  destruct (sl_index sel <? rs_committed localSt); [intro H; inversion H; apply net_ok_refl|].
  match goal with |- context[match ?prev with inl _ => _ | inr _ => _ end] => destruct prev as [e | previous] end;
    [intro H; inversion H; apply net_ok_refl|].
  destruct (_ && _ && _); [intro H; inversion H; apply net_ok_refl|].
  destruct (repair_pages _ n local sel maxBytes localSt _ _ previous true) as [n1 [e | [current from]]] eqn:E;
    pose proof (repair_pages_ok _ _ _ _ _ _ _ _ _ _ _ _ E) as K.
  - intro H. inversion H; subst. exact K.
  - destruct ((from =? 1) && (sl_index sel =? 0)).
    + destruct (local_replace n1 local _) as [n2 res] eqn:E2.
      pose proof (local_replace_ok _ _ _ _ _ E2) as K2.
      intro H. assert (n' = n2).
      { destruct res as [e | lo]; [inversion H; reflexivity|].
        destruct (lo =? 0); [destruct (_ || _ || _); inversion H; reflexivity | inversion H; reflexivity]. }
      subst. eapply net_ok_trans; eauto.
    + intro H. assert (n' = n1) by (destruct (_ || _ || _); inversion H; reflexivity). subst. exact K.
Qed.

(* ---- Install and Commit ------------------------------------------------------------------------------------ *)

Lemma Install_net_ok cfg n st local a n' st' r : Install cfg n st local a = (n', st', r) -> net_ok n n'.
Proof.
  unfold Install. destruct (_ || _ || _); [intro H; inversion H; apply net_ok_refl|].
  assert (Htail : forall st1,
    (if a_wf a then (n, st1, IErr EFenced)
     else match recoverQuorumPrefix n local (a_voters a) (a_q a) with
          | inl e0 => (n, st1, IErr e0)
          | inr sel0 =>
              match repairQuorumPrefix n local (a_voters a) (a_q a) sel0 (cf_pagebytes cfg) with
              | (n1, inl e0) => (n1, st1, IErr e0)
              | (n1, inr recovered) =>
                  if negb (rstate_is_zero recovered) && negb (frontierUsesAuthority recovered (a_id a))
                  then match writeCurrentTermBarrier n1 a recovered (cf_rot cfg) with
                       | (n2, inl e0) => (n2, st1, IErr e0)
                       | (n2, inr bs) => (n2, QChan (qc_auth st1) bs (rs_leo bs) true None [] [], IOk (a_id a) (rs_leo bs) (rs_leo bs))
                       end
                  else (n1, QChan (qc_auth st1) recovered (rs_leo recovered) true None [] [],
                        IOk (a_id a) (rs_leo recovered) (rs_leo recovered))
              end
          end) = (n', st', r) -> net_ok n n').
  { intros st1 Ht. destruct (a_wf a); [inversion Ht; apply net_ok_refl|].
    destruct (recoverQuorumPrefix n local (a_voters a) (a_q a)) as [e | sel]; [inversion Ht; apply net_ok_refl|].
    destruct (repairQuorumPrefix n local (a_voters a) (a_q a) sel (cf_pagebytes cfg)) as [n1 [e | recovered]] eqn:E;
      pose proof (repairQuorumPrefix_ok _ _ _ _ _ _ _ _ E) as K.
    - inversion Ht; subst. exact K.
    - destruct (_ && _).
      + destruct (writeCurrentTermBarrier n1 a recovered (cf_rot cfg)) as [n2 [e | bs]] eqn:E2;
          pose proof (writeCurrentTermBarrier_ok _ _ _ _ _ _ E2) as K2;
          inversion Ht; subst; eapply net_ok_trans; eauto.
      + inversion Ht; subst. exact K. }
  destruct (qc_auth st) as [cur|].
  - destruct (compareAuthorityID (a_id a) (a_id cur)).
    + destruct (negb (sameAuthority a cur)); [intro H; inversion H; apply net_ok_refl|].
      destruct (a_wf a) eqn:Hwf; [intro H; inversion H; apply net_ok_refl|].
      destruct (qc_ready st); [intro H; inversion H; apply net_ok_refl|].
      intro H. apply (Htail st). exact H.
    + intro H; inversion H; apply net_ok_refl.
    + apply Htail.
  - apply Htail.
Qed.

Lemma Commit_net_ok cfg n st local p n' st' r : Commit cfg n st local p = (n', st', r) -> net_ok n n'.
Proof.
  unfold Commit. destruct (_ || _ || _ || _ || _); [intro H; inversion H; apply net_ok_refl|].
  destruct (negb (qc_ready st)); [intro H; inversion H; apply net_ok_refl|].
  destruct (qc_auth st) as [a|]; [|intro H; inversion H; apply net_ok_refl].
  destruct (negb (authid_eqb (pr_expected p) (a_id a))); [intro H; inversion H; apply net_ok_refl|].
  destruct (a_wf a); [intro H; inversion H; apply net_ok_refl|].
  assert (Hretry : forall rt n1 st1 r1, retryPending cfg n st a local rt = (n1, st1, r1) -> net_ok n n1).
  { intros rt n1 st1 r1. unfold retryPending.
    destruct (runDurableRound n local (a_voters a) (a_q a) (cf_rot cfg) (rt_prop rt)) as [n2 res] eqn:E.
    intro H. assert (n1 = n2).
    { destruct (negb (rr_ok res)); [inversion H; reflexivity|].
      destruct (finishCommit cfg st a rt res) as [s2 o2]. inversion H; reflexivity. }
    subst. eapply runDurableRound_ok; eauto. }
  destruct (get_retained (qc_retained st) (pr_cmd p)) as [rt|].
  - destruct (negb (sameProposalContent _ _)); [intro H; inversion H; apply net_ok_refl|].
    destruct (rt_durable rt); [intro H; inversion H; apply net_ok_refl|]. apply Hretry.
  - destruct (qc_pending st) as [pend|].
    + destruct (tag_eqb _ _); [|intro H; inversion H; apply net_ok_refl].
      destruct (negb (sameProposalContent _ _)); [intro H; inversion H; apply net_ok_refl|]. apply Hretry.
    + destruct (sealBusinessProposal _ _ _ _ _ _) as [d|]; [|intro H; inversion H; apply net_ok_refl].
      destruct (runDurableRound n local (a_voters a) (a_q a) (cf_rot cfg) d) as [n1 res] eqn:E.
      pose proof (runDurableRound_ok _ _ _ _ _ _ _ _ E) as K.
      intro H. assert (n' = n1).
      { destruct (negb (rr_ok res)).
        - destruct (rr_outcome res); try (inversion H; reflexivity).
          destruct (reconcileCommandConflict _ _ _ _ _ _) as [s3 o3]. inversion H; reflexivity.
        - destruct (finishCommit _ _ _ _ _) as [s2 o2]. inversion H; reflexivity. }
      subst. exact K.
Qed.

(* ---- follower gap repair -------------------------------------------------------------------------------------- *)

Lemma repair_send_ok : forall ps n leader follower committed previous n' r,
  repair_send n leader follower committed ps previous = (n', r) -> net_ok n n'.
Proof.
  induction ps as [|[m recs] ps IH]; intros n leader follower committed previous n' r H; cbn in H;
    [inversion H; apply net_ok_refl|].
  destruct (negb (replicate_request_valid _ _ _)); [inversion H; apply net_ok_refl|].
  destruct (sync _ _ _) as [[rp o] nf] eqn:E.
  assert (K : net_ok n (net_set n follower rp)) by (apply net_set_ok; eapply R_sync; eauto).
  destruct (negb (outcome_durable o)); [inversion H; subst; exact K|].
  destruct (SealProposalManifest m recs) as [[sm es]|]; [|inversion H; subst; exact K].
  eapply net_ok_trans; [exact K | eapply IH; eauto].
Qed.

Lemma repair_loop_ok : forall fuel cfg n leader follower state from through previous n' r,
  repair_loop fuel cfg n leader follower state from through previous = (n', r) -> net_ok n n'.
Proof.
  induction fuel as [|fuel IH]; intros cfg n leader follower state from through previous n' r H; cbn in H;
    [inversion H; apply net_ok_refl|].
  destruct (through <? from); [inversion H; apply net_ok_refl|].
  destruct (fetch _ _ _) as [e | [st ps]]; [inversion H; apply net_ok_refl|].
  destruct ps as [|p0 ps0]; [inversion H; apply net_ok_refl|].
  destruct (repair_send n leader follower (rs_committed state) (p0 :: ps0) previous) as [n1 [pv|]] eqn:E;
    pose proof (repair_send_ok _ _ _ _ _ _ _ _ E) as K.
  - eapply net_ok_trans; [exact K | eapply IH; eauto].
  - inversion H; subst. exact K.
Qed.

Lemma RepairFollower_ok cfg n leader follower needFrom through n' r :
  RepairFollower cfg n leader follower needFrom through = (n', r) -> net_ok n n'.
Proof.
  unfold RepairFollower. destruct (_ || _); [intro H; inversion H; apply net_ok_refl|].
  destruct (load _ _ _) as [[state es]|]; [|intro H; inversion H; apply net_ok_refl].
  destruct (_ || _); [intro H; inversion H; apply net_ok_refl|].
  match goal with |- context[match ?prev with Some _ => _ | None => _ end] => destruct prev as [pv|] end;
    [|intro H; inversion H; apply net_ok_refl].
  apply repair_loop_ok.
Qed.

End Lift.
