(* Proof/JsonRpcBridge.v — C24: the frame bridge of pkg/protocol/jsonrpc carries every
   bridged field and the request id in both directions; determineMessageType is a total
   decision table; the monitor accepts every model trace. *)
From WK Require Import Base.Base Gen.Consts_C24 Model.JsonRpcBridge Proof.JsonRpcBridge_num.
From Coq Require Import ZifyBool ZifyN ZifyNat.
Open Scope N_scope.

(* ---- well-formed frames: the Go field types ---------------------------------------------------- *)

Definition i64 (z : Z) : Prop := (-9223372036854775808 <= z <= 9223372036854775807)%Z.

(* uint8 / uint64 / int64 typed fields are in range *)
Definition wf_frame (f : frame) : Prop :=
  match f with
  | FConnect _ v _ _ df _ _ _ => v < 256 /\ df < 256
  | FSend _ s _ _ _ _ _ _ ct _ _ => s < 256 /\ ct < 256
  | FRecvack _ m _ => i64 m
  | FDisconnect _ rc _ => rc < 256
  | FConnack _ v _ _ _ rc _ => v < 256 /\ rc < 256
  | FSendack _ m _ _ _ rc => i64 m /\ rc < 256
  | FRecv _ s _ _ m _ _ _ sid sf _ _ ct _ _ _ => s < 256 /\ i64 m /\ sid <= max_u64 /\ sf < 256 /\ ct < 256
  | _ => True
  end.

Lemma bytes_eqb_refl a : bytes_eqb a a = true.
Proof. apply bytes_eqb_eq. reflexivity. Qed.

Lemma flags_eqb_header fr : flags_eqb fr (headerToFramer (header_of_framer fr)) = true.
Proof. destruct fr as [[] [] [] [] [] ? ? ? ?]; reflexivity. Qed.

Lemma flags_eqb_opt_header fr : flags_eqb fr (framer_of_header (fromProtoHeader fr)) = true.
Proof. destruct fr as [[] [] [] [] [] ? ? ? ?]; reflexivity. Qed.

Lemma norm_version_idem v : norm_version (if (Z.of_N v =? 0)%Z then LatestVersion else to_u8 (Z.of_N v)) = norm_version v.
Proof.
  destruct (N.eq_dec v 0) as [->|H]; [reflexivity|].
  destruct (Z.of_N v =? 0)%Z eqn:E; [lia|].
Abort.

(* ---- inbound: frame -> client message -> ToFrame ------------------------------------------------- *)

Ltac eqbs := rewrite ?bytes_eqb_refl, ?N.eqb_refl, ?Z.eqb_refl, ?flags_eqb_header, ?flags_eqb_opt_header; cbn [andb].

Theorem inbound_roundtrip id f : wf_frame f -> inbound_supported f = true ->
  exists m f', msg_of_frame id f = Some m /\ ToFrame m = Some (f', expected_token id f) /\ frame_equiv f f' = true.
Proof.
  intros W S. destruct f; try discriminate; cbn [msg_of_frame].
  - (* CONNECT *)
    destruct W as [Wv Wd]. eexists. eexists. split; [reflexivity|]. split; [reflexivity|].
    cbn [frame_equiv connect_to_proto cp_header cp_version cp_clientKey cp_deviceID cp_deviceFlag cp_clientTimestamp cp_uid cp_token].
    rewrite (to_u8_of_N deviceFlag Wd). eqbs.
    assert (V : norm_version version = norm_version (if (Z.of_N version =? 0)%Z then LatestVersion else to_u8 (Z.of_N version))).
    { destruct (Z.of_N version =? 0)%Z eqn:E.
      - assert (version = 0) by lia. subst. reflexivity.
      - rewrite (to_u8_of_N version Wv). reflexivity. }
    rewrite <- V. eqbs. reflexivity.
  - (* SEND *)
    destruct W as [Ws Wc]. eexists. eexists. split; [reflexivity|]. split; [reflexivity|].
    cbn [frame_equiv send_to_proto sp_header sp_setting sp_msgKey sp_expire sp_clientMsgNo sp_streamNo sp_channelID sp_channelType sp_topic sp_payload].
    rewrite (to_u8_of_N channelType Wc), (setting_flags_roundtrip setting Ws). eqbs. reflexivity.
  - (* RECVACK *)
    eexists. eexists. split; [reflexivity|]. split; [reflexivity|].
    cbn [frame_equiv recvack_to_proto ra_header ra_messageID ra_messageSeq].
    rewrite (parse_int_format messageID W). eqbs. reflexivity.
  - (* DISCONNECT *)
    eexists. eexists. split; [reflexivity|]. split; [reflexivity|].
    cbn [frame_equiv disconnect_to_proto dp_reasonCode dp_reason].
    rewrite (to_u8_of_N reasonCode W). eqbs. reflexivity.
  - (* PING *)
    eexists. eexists. split; [reflexivity|]. split; reflexivity.
Qed.

(* ---- outbound: FromFrame -> the client's frame ---------------------------------------------------- *)

Theorem outbound_faithful id f : wf_frame f -> outbound_supported f = true ->
  exists m f', FromFrame id f = Some m
               /\ frame_of_msg m = Some (f', if is_response_frame f then Some id else None)
               /\ frame_equiv f f' = true.
Proof.
  intros W S. destruct f; try discriminate; cbn [FromFrame].
  - (* DISCONNECT *)
    eexists. eexists. split; [reflexivity|]. split; [reflexivity|].
    cbn [frame_equiv dp_reasonCode dp_reason]. rewrite (to_u8_of_N reasonCode W). eqbs. reflexivity.
  - (* CONNACK *)
    destruct W as [Wv Wr]. eexists. eexists. split; [reflexivity|]. split; [reflexivity|].
    cbn [frame_equiv FromProtoConnectAck cr_header cr_serverVersion cr_serverKey cr_salt cr_timeDiff cr_reasonCode cr_nodeID].
    rewrite (to_u8_of_N serverVersion Wv), (to_u8_of_N reasonCode Wr). eqbs. reflexivity.
  - (* SENDACK *)
    destruct W as [Wm Wr]. eexists. eexists. split; [reflexivity|]. split; [reflexivity|].
    cbn [frame_equiv FromProtoSendAck sr_header sr_messageID sr_messageSeq sr_reasonCode].
    rewrite (parse_int_format messageID Wm), (to_u8_of_N reasonCode Wr). eqbs. reflexivity.
  - (* RECV *)
    destruct W as (Ws & Wm & Wi & Wf & Wc). eexists. eexists. split; [reflexivity|]. split; [reflexivity|].
    cbn [frame_equiv rn_header rn_setting rn_msgKey rn_expire rn_messageID rn_messageSeq rn_clientMsgNo rn_streamNo rn_streamID
         rn_streamFlag rn_timestamp rn_channelID rn_channelType rn_topic rn_fromUID rn_payload].
    rewrite (parse_int_format messageID Wm), (parse_uint64_value_format streamId Wi), (to_u8_of_N streamFlag Wf),
      (to_u8_of_N channelType Wc), (setting_opt_roundtrip setting Ws). eqbs. reflexivity.
  - (* EVENT *)
    eexists. eexists. split; [reflexivity|]. split; [reflexivity|].
    cbn [frame_equiv ev_header ev_id ev_type ev_timestamp ev_data]. eqbs. reflexivity.
  - (* PONG *)
    eexists. eexists. split; [reflexivity|]. split; reflexivity.
Qed.

(* ---- the request id ------------------------------------------------------------------------------------ *)

Theorem reqid_preserved_in m f tok : ToFrame m = Some (f, tok) ->
  tok = match msg_id m with Some i => i | None => [] end.
Proof. destruct m; cbn [ToFrame msg_id]; intro E; inversion E; reflexivity. Qed.

Theorem reqid_preserved_out id f m : FromFrame id f = Some m -> is_response_frame f = true -> msg_id m = Some id.
Proof. destruct f; cbn [FromFrame is_response_frame]; intros E R; try discriminate; inversion E; reflexivity. Qed.

(* FromFrame writes the protocol version and the method name of the message type *)
Theorem from_frame_base id f m : FromFrame id f = Some m ->
  match m with
  | ConnectResponse v _ _ | SendResponse v _ _ | PongResponse v _ => v = jsonRPCVersion
  | RecvNotification v me _ => v = jsonRPCVersion /\ me = MethodRecv
  | EventNotification v me _ => v = jsonRPCVersion /\ me = MethodEvent
  | DisconnectNotification v me _ => v = jsonRPCVersion /\ me = MethodDisconnect
  | _ => False
  end.
Proof. destruct f; cbn [FromFrame]; intro E; try discriminate; inversion E; repeat split. Qed.

(* ---- determineMessageType ------------------------------------------------------------------------------- *)

Definition version_ok (p : probe) : bool :=
  match pr_jsonrpc p with
  | RawAbsent => true
  | RawString v => bytes_eqb v jsonRPCVersion
  | _ => false
  end.

Definition known_notification (m : str) : bool :=
  bytes_eqb m MethodRecv || bytes_eqb m MethodDisconnect || bytes_eqb m MethodRecvAck || bytes_eqb m MethodEvent.

(* the decision table: exactly one of request / response / notification / error, for every probe *)
Theorem classify_table p :
  determineMessageType p =
  if negb (version_ok p) then inr (match pr_jsonrpc p with RawOther => EUnmarshalFieldFailed | _ => EInvalidVersion end)
  else match present (pr_id p), negb (is_nil (pr_method p)) with
       | true, true => inl msgTypeRequest                       (* id and method *)
       | true, false =>                                         (* id, no method: a response needs result xor error *)
         match present (pr_result p), present (pr_error p) with
         | true, true => inr EResponseFormat
         | false, false => inr EOther
         | _, _ => inl msgTypeResponse
         end
       | false, true => if known_notification (pr_method p) then inl msgTypeNotification else inr EOther
       | false, false => inr EOther
       end.
Proof.
  unfold determineMessageType, version_ok, known_notification.
  destruct (pr_jsonrpc p) as [| |v|]; cbn [negb]; try reflexivity.
  2:{ destruct (bytes_eqb v jsonRPCVersion); cbn [negb]; [|reflexivity].
      destruct (present (pr_id p)), (is_nil (pr_method p)), (present (pr_result p)), (present (pr_error p)); reflexivity. }
  destruct (present (pr_id p)), (is_nil (pr_method p)), (present (pr_result p)), (present (pr_error p)); reflexivity.
Qed.

Theorem classify_total p :
  determineMessageType p = inl msgTypeRequest \/ determineMessageType p = inl msgTypeResponse
  \/ determineMessageType p = inl msgTypeNotification \/ exists e, determineMessageType p = inr e /\ 1 <= e <= 9.
Proof.
  rewrite classify_table.
  destruct (negb (version_ok p)).
  - right. right. right. destruct (pr_jsonrpc p); eexists; (split; [reflexivity|vm_compute; split; discriminate]).
  - destruct (present (pr_id p)), (negb (is_nil (pr_method p))); auto.
    + destruct (present (pr_result p)), (present (pr_error p)); auto;
        right; right; right; eexists; (split; [reflexivity|vm_compute; split; discriminate]).
    + destruct (known_notification (pr_method p)); auto.
      right. right. right. eexists. split; [reflexivity|vm_compute; split; discriminate].
    + right. right. right. eexists. split; [reflexivity|vm_compute; split; discriminate].
Qed.

(* the three types are pairwise distinct numbers, so the classification is unambiguous *)
Lemma msg_types_distinct : msgTypeRequest <> msgTypeResponse /\ msgTypeRequest <> msgTypeNotification
                           /\ msgTypeResponse <> msgTypeNotification.
Proof. vm_compute. repeat split; discriminate. Qed.

(* a decoded message keeps the id of the document; notifications have none *)
Theorem decode_id p b k i : decode_dispatch p b = OMsg k i ->
  match i with
  | Some id => pr_id p = RawString id
  | None => pr_id p = RawAbsent /\ (k = KRecvNotification \/ k = KRecvAckNotification \/ k = KDisconnectNotification \/ k = KEventNotification)
  end.
Proof.
  assert (T1 : (msgTypeRequest =? msgTypeRequest) = true) by reflexivity.
  assert (T2 : (msgTypeResponse =? msgTypeRequest) = false) by reflexivity.
  assert (T3 : (msgTypeResponse =? msgTypeResponse) = true) by reflexivity.
  assert (T4 : (msgTypeNotification =? msgTypeRequest) = false) by reflexivity.
  assert (T5 : (msgTypeNotification =? msgTypeResponse) = false) by reflexivity.
  unfold decode_dispatch. rewrite classify_table.
  destruct (negb (version_ok p)); [discriminate|].
  destruct (pr_id p) as [| |id|] eqn:I; cbn [present]; destruct (negb (is_nil (pr_method p))) eqn:M;
    try destruct (known_notification (pr_method p));
    try (destruct (present (pr_result p)), (present (pr_error p)));
    cbv beta iota; rewrite ?T1, ?T2, ?T3, ?T4, ?T5; cbv beta iota; try discriminate; unfold with_params.
  all: repeat match goal with |- context [if bytes_eqb ?a ?b then _ else _] => destruct (bytes_eqb a b) end; try discriminate.
  all: try (destruct (pr_params p); try discriminate).
  all: try (destruct (params_ok b); try discriminate).
  all: try (destruct (error_ok b); cbn [negb andb]; try discriminate).
  all: cbn [andb negb]; intro E; inversion E; subst; try reflexivity; split; auto.
Qed.

(* ---- observations about the code (not part of the property) ------------------------------------------ *)

(* the two halves serve opposite directions: nothing FromFrame builds is accepted by ToFrame *)
Theorem directions_disjoint id f m : FromFrame id f = Some m -> ToFrame m = None.
Proof. destruct f; cbn [FromFrame]; intro E; try discriminate; inversion E; reflexivity. Qed.

(* the PONG answer has neither "result" nor "error": the package's own Decode rejects it *)
Theorem pong_response_not_decodable id fr :
  model_out_decode (FromFrame id (FPong fr)) = OErr EOther.
Proof.
  cbn [FromFrame model_out_decode probe_of_msg]. unfold decode_dispatch. rewrite classify_table.
  destruct id; reflexivity.
Qed.

(* a response for an empty request id is written without "id" and is not decodable either *)
Theorem empty_id_response_not_decodable f m : is_response_frame f = true -> FromFrame [] f = Some m ->
  model_out_decode (Some m) = OErr EOther.
Proof.
  destruct f; cbn [is_response_frame FromFrame]; intros R E; try discriminate; inversion E; reflexivity.
Qed.

(* a DISCONNECT frame comes out as a notification, which Decode accepts and ToFrame refuses *)
Theorem disconnect_echo_refused id fr rc reason :
  exists m, FromFrame id (FDisconnect fr rc reason) = Some m
            /\ model_out_decode (Some m) = OMsg KDisconnectNotification None
            /\ ToFrame m = None.
Proof. eexists. split; [reflexivity|]. split; reflexivity. Qed.

(* fields outside the bridge: ToFrame never sets them *)
Theorem to_frame_untouched m f tok : ToFrame m = Some (f, tok) ->
  match f with
  | FConnect fr _ _ _ _ _ _ _ | FRecvack fr _ _ | FDisconnect fr _ _ | FPing fr =>
    fr_hsv fr = false /\ fr_type fr = 0 /\ fr_remlen fr = 0 /\ fr_size fr = 0%Z
  | FSend fr s _ _ cs _ _ _ _ _ _ =>
    fr_hsv fr = false /\ fr_type fr = 0 /\ fr_remlen fr = 0 /\ fr_size fr = 0%Z /\ cs = 0 /\ N.land s setting_mask = s
  | _ => False
  end.
Proof.
  destruct m; cbn [ToFrame]; intro E; try discriminate; inversion E; subst; cbn; repeat split.
  apply setting_to_proto_masked.
Qed.

(* ---- the monitor accepts every model trace ------------------------------------------------------------- *)

Definition wf_op (o : c24_op) : Prop :=
  match o with
  | OpIn _ f _ _ | OpOut _ f _ _ _ => wf_frame f
  | _ => True
  end.

(* over the wire: the client's message of a frame, with a non-empty id when it is a request, is
   decoded as the same kind of message *)
Lemma wire_transparent id f m : msg_of_frame id f = Some m ->
  id <> [] \/ is_request_frame f = false ->
  exists i, decode_dispatch (match probe_of_msg m with Some p => p | None => Probe RawAbsent RawAbsent [] RawAbsent RawAbsent RawAbsent end)
                            (JBits true true) = OMsg (kind_of_msg m) i
            /\ probe_of_msg m <> None.
Proof.
  intros E H. destruct f; try discriminate; cbn [msg_of_frame] in E; inversion E; subst; clear E; cbn [is_request_frame] in H.
  1,2,4,5: destruct H as [H|H]; [|discriminate]; destruct id as [|c r]; [contradiction|];
           eexists; split; [reflexivity|discriminate].
  eexists. split; [reflexivity|discriminate].
Qed.

Lemma model_in_wire id f wire : id <> [] \/ is_request_frame f = false ->
  model_in id f wire = model_in id f false.
Proof.
  intro H. destruct wire; [|reflexivity]. unfold model_in.
  destruct (msg_of_frame id f) as [m|] eqn:E; [|reflexivity].
  destruct (wire_transparent id f m E H) as (i & D & NP).
  unfold model_through. destruct (probe_of_msg m) as [p|]; [|contradiction].
  rewrite D, N.eqb_refl. reflexivity.
Qed.

Lemma option_bytes_eqb_refl o : option_eqb bytes_eqb o o = true.
Proof. destruct o; [apply bytes_eqb_refl|reflexivity]. Qed.

Theorem mon_model_op o : wf_op o -> mon_op (model_op o) = true.
Proof.
  destruct o as [id f wire res|m wire res|id f msg ws dec|p b dmt out x tok|e]; intro W; cbn [model_op mon_op wf_op] in *.
  - (* in *)
    destruct (inbound_supported f) eqn:S; [|reflexivity]. cbn [andb].
    destruct (negb (is_nil id) || negb (is_request_frame f)) eqn:C; [|reflexivity].
    assert (H : id <> [] \/ is_request_frame f = false).
    { destruct id; [right; destruct (is_request_frame f); [discriminate|reflexivity]|left; discriminate]. }
    rewrite (model_in_wire id f wire H).
    destruct (inbound_roundtrip id f W S) as (m & f' & E1 & E2 & E3).
    unfold model_in, model_through. rewrite E1, E2, E3, bytes_eqb_refl. reflexivity.
  - (* msg *)
    destruct (model_through m wire) as [[f tok]|] eqn:E; [|reflexivity].
    assert (T : ToFrame m = Some (f, tok)).
    { unfold model_through in E. destruct wire; [|exact E].
      destruct (probe_of_msg m); [|discriminate]. destruct (decode_dispatch p (JBits true true)); [discriminate|].
      destruct (kind =? kind_of_msg m); [exact E|discriminate]. }
    rewrite (reqid_preserved_in m f tok T). apply bytes_eqb_refl.
  - (* out *)
    destruct (outbound_supported f) eqn:S; [|reflexivity].
    destruct (outbound_faithful id f W S) as (m & f' & E1 & E2 & E3).
    rewrite E1, E2, E3. cbn [andb]. destruct (is_response_frame f); [apply bytes_eqb_refl|reflexivity].
  - (* doc *)
    cbn [andb]. destruct (decode_dispatch p b) as [e|k i]; [reflexivity|].
    cbn [to_frame_token]. destruct (kind_bridged k); [|destruct i; reflexivity].
    destruct i; [apply bytes_eqb_refl|reflexivity].
  - reflexivity.
Qed.

(* c24_model_satisfies_monitor *)
Theorem model_satisfies_monitor ops : Forall wf_op ops -> C24_monitor (C24Case (map model_op ops)) = 0.
Proof.
  intro W. unfold C24_monitor. cbn [c24_ops].
  induction W as [|o ops Wo _ IH]; [reflexivity|].
  cbn [map forallb]. rewrite (mon_model_op o Wo). exact IH.
Qed.

(* and a case built from the model's observations is never a mismatch *)
Lemma atoms_eqb_refl l : list_eqb atom_eqb l l = true.
Proof.
  induction l as [|a l IH]; [reflexivity|]. cbn [list_eqb]. rewrite IH.
  destruct a; cbn [atom_eqb]; rewrite ?N.eqb_refl, ?Z.eqb_refl, ?bytes_eqb_refl, ?Bool.eqb_reflx; reflexivity.
Qed.

Lemma res_eqb_refl r : res_eqb r r = true.
Proof. destruct r as [[f i]|]; [|reflexivity]. cbn [res_eqb]. unfold frame_eqb. rewrite atoms_eqb_refl, bytes_eqb_refl. reflexivity. Qed.

Lemma outcome_eqb_refl o : outcome_eqb o o = true.
Proof. destruct o; cbn [outcome_eqb]; rewrite ?N.eqb_refl, ?option_bytes_eqb_refl; reflexivity. Qed.

Lemma option_msg_eqb_refl o : option_eqb msg_eqb o o = true.
Proof. destruct o; [apply atoms_eqb_refl|reflexivity]. Qed.

Lemma sum_eqb_refl s : sum_eqb s s = true.
Proof. destruct s; apply N.eqb_refl. Qed.

Theorem model_no_mismatch ops : C24_mismatch (C24Case (map model_op ops)) = false.
Proof.
  unfold C24_mismatch. cbn [c24_ops]. induction ops as [|o ops IH]; [reflexivity|].
  cbn [map existsb]. rewrite IH, orb_false_r.
  destruct o; cbn [model_op]; unfold op_mismatch;
    rewrite ?res_eqb_refl, ?outcome_eqb_refl, ?option_bytes_eqb_refl, ?option_msg_eqb_refl, ?sum_eqb_refl; reflexivity.
Qed.
