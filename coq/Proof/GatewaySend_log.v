(* Proof/GatewaySend_log.v — invariants about the stamped history of the
   sendExecutor transition system: transport order = write-lock order (Wire),
   the DrainSends admission fence in real time (Fence), and "DrainSends
   returned nil => every accepted SEND has been handled" (Done). *)
From Coq Require Import Sorting.Sorted.
From WK Require Import Base.Base Model.GatewaySend Proof.GatewaySend_lib Proof.GatewaySend_split
  Proof.GatewaySend_acct Proof.GatewaySend_order.
Open Scope N_scope.

(* ================= Wire ================================================================= *)

Definition issue_count (w : list hwire) (i : hissue) : nat := length (filter (issue_matches i) w).

Record Wire (b : N) (st : state) : Prop := {
  w_wire : forall e, In e (wire st) -> hw_t e <= b;
  w_issues : forall i, In i (issues st) -> hi_t1 i <= b;
  w_sorted : StronglySorted N.lt (map hw_t (wire st));
  w_issue_ok : forall i, In i (issues st) -> issue_count (wire st) i = if hi_ok i then 1%nat else 0%nat;
  w_src : forall e, In e (wire st) ->
          hw_w e = 0 \/ exists i, In i (issues st) /\ hi_ok i = true /\ issue_matches i e = true }.

Lemma wire_init : Wire 0 init.
Proof. constructor; cbn; intros; try contradiction. constructor. Qed.

Lemma wire_weaken b b' st : b <= b' -> Wire b st -> Wire b' st.
Proof.
  intros Hb [? ? ? ? ?]. constructor; try assumption.
  - intros e He. specialize (w_wire0 e He). lia.
  - intros i Hi. specialize (w_issues0 i Hi). lia.
Qed.

Lemma wire_frame b st st' : Wire b st -> wire st' = wire st -> issues st' = issues st -> Wire b st'.
Proof. intros [? ? ? ? ?] Hw Hi. constructor; rewrite ?Hw, ?Hi; assumption. Qed.

Lemma issue_count_snoc w e i :
  issue_count (w ++ [e]) i = (issue_count w i + if issue_matches i e then 1 else 0)%nat.
Proof.
  unfold issue_count. rewrite filter_app, app_length. cbn [filter]. destruct (issue_matches i e); reflexivity.
Qed.

Lemma issue_nomatch_late i e : hi_t1 i < hw_t e -> issue_matches i e = false.
Proof.
  intro H. unfold issue_matches. apply andb_false_iff. right. apply N.leb_gt. exact H.
Qed.

Lemma issue_nomatch_early i e : hw_t e < hi_t0 i -> issue_matches i e = false.
Proof.
  intro H. unfold issue_matches. apply andb_false_iff. left. apply andb_false_iff. right. apply N.leb_gt. exact H.
Qed.

Lemma issue_match_self s w tag t ok : issue_matches (HIssue s w tag t t ok) (HWire s w tag t) = true.
Proof. unfold issue_matches. cbn. rewrite Nat.eqb_refl, !N.eqb_refl, N.leb_refl. reflexivity. Qed.

Lemma issue_count_none w i : (forall e, In e w -> hw_t e < hi_t0 i) -> issue_count w i = 0%nat.
Proof.
  unfold issue_count. induction w as [|e l IH]; intro H; [reflexivity|]. cbn [filter].
  rewrite issue_nomatch_early by (apply H; left; reflexivity). apply IH. intros. apply H. right. assumption.
Qed.

(* a frame stamped t > b is appended to the wire *)
Lemma wire_append b st st' e :
  Wire b st -> b < hw_t e -> wire st' = wire st ++ [e] -> issues st' = issues st ->
  (hw_w e = 0) -> Wire (hw_t e) st'.
Proof.
  intros [? ? ? ? ?] Hb Hw Hi H0. constructor; rewrite ?Hw, ?Hi.
  - intros e' He'. apply in_app_or in He'. destruct He' as [He'|[<-|[]]]; [specialize (w_wire0 e' He'); lia | lia].
  - intros i Hin. specialize (w_issues0 i Hin). lia.
  - rewrite map_app. apply sorted_snoc; [exact w_sorted0|]. intros y Hy. apply in_map_iff in Hy.
    destruct Hy as [e' [<- He']]. specialize (w_wire0 e' He'). lia.
  - intros i Hin. rewrite issue_count_snoc, issue_nomatch_late, Nat.add_0_r; [apply w_issue_ok0; exact Hin|].
    specialize (w_issues0 i Hin). lia.
  - intros e' He'. apply in_app_or in He'. destruct He' as [He'|[<-|[]]]; [apply w_src0; exact He' | left; exact H0].
Qed.

Lemma wire_push_ok b st st' s w tag t :
  Wire b st -> b < t -> w <> 0 ->
  wire st' = wire st ++ [HWire s w tag t] -> issues st' = issues st ++ [HIssue s w tag t t true] -> Wire t st'.
Proof.
  intros [? ? ? ? ?] Hb Hw0 Hw Hi. constructor; rewrite ?Hw, ?Hi.
  - intros e' He'. apply in_app_or in He'. destruct He' as [He'|[<-|[]]]; [specialize (w_wire0 e' He'); lia | cbn; lia].
  - intros i Hin. apply in_app_or in Hin. destruct Hin as [Hin|[<-|[]]]; [specialize (w_issues0 i Hin); lia | cbn; lia].
  - rewrite map_app. apply sorted_snoc; [exact w_sorted0|]. intros y Hy. apply in_map_iff in Hy.
    destruct Hy as [e' [<- He']]. specialize (w_wire0 e' He'). cbn. lia.
  - intros i Hin. apply in_app_or in Hin. rewrite issue_count_snoc. destruct Hin as [Hin|[<-|[]]].
    + rewrite issue_nomatch_late, Nat.add_0_r; [apply w_issue_ok0; exact Hin|]. specialize (w_issues0 i Hin). cbn. lia.
    + rewrite issue_match_self. cbn [hi_ok]. rewrite issue_count_none; [reflexivity|].
      intros e He. specialize (w_wire0 e He). cbn [hi_t0]. lia.
  - intros e' He'. apply in_app_or in He'. destruct He' as [He'|[<-|[]]].
    + destruct (w_src0 e' He') as [H|[i [H1 [H2 H3]]]]; [left; exact H|]. right. exists i. split; [apply in_or_app; left; exact H1|]. auto.
    + right. exists (HIssue s w tag t t true). split; [apply in_or_app; right; left; reflexivity|]. split; [reflexivity|].
      apply issue_match_self.
Qed.

Lemma wire_push_fail b st st' s w tag t :
  Wire b st -> b < t -> wire st' = wire st -> issues st' = issues st ++ [HIssue s w tag t t false] -> Wire t st'.
Proof.
  intros [? ? ? ? ?] Hb Hw Hi. constructor; rewrite ?Hw, ?Hi.
  - intros e' He'. specialize (w_wire0 e' He'). lia.
  - intros i Hin. apply in_app_or in Hin. destruct Hin as [Hin|[<-|[]]]; [specialize (w_issues0 i Hin); lia | cbn; lia].
  - exact w_sorted0.
  - intros i Hin. apply in_app_or in Hin. destruct Hin as [Hin|[<-|[]]]; [apply w_issue_ok0; exact Hin|].
    cbn [hi_ok]. apply issue_count_none. intros e He. specialize (w_wire0 e He). cbn [hi_t0]. lia.
  - intros e' He'. destruct (w_src0 e' He') as [H|[i [H1 [H2 H3]]]]; [left; exact H|]. right. exists i.
    split; [apply in_or_app; left; exact H1|]. auto.
Qed.

(* effect of a drain-worker step on the wire / issues *)
Lemma advance_issues st k n rest : issues (advance k n rest st) = issues st.
Proof. unfold advance. destruct rest; reflexivity. Qed.

Lemma work_wire c st k ch :
  issues (work_step c k ch st) = issues st /\
  (wire (work_step c k ch st) = wire st \/
   exists s q, wire (work_step c k ch st) = wire st ++ [HWire s 0 q (now st)]).
Proof.
  unfold work_step. destruct (wpcs st k); try (split; [reflexivity|left; reflexivity]).
  - destruct (mbox st k); split; try reflexivity; left; reflexivity.
  - destruct (eff_maxrec (c_maxrec c) <=? length items)%nat; [split; [reflexivity|left; reflexivity]|].
    destruct ch; destruct (mbox st k); split; try reflexivity; left; reflexivity.
  - rewrite advance_issues, advance_wire. split; [reflexivity|left; reflexivity].
  - destruct ch; try (destruct cur as [|x cur']; [rewrite advance_issues, advance_wire; split; [reflexivity|left; reflexivity]|];
                      destruct (sclosed st (t_s x)); sp; split; try reflexivity; [left; reflexivity | right; eauto]).
    + split; [reflexivity|left; reflexivity].
    + rewrite advance_issues, advance_wire. split; [reflexivity|left; reflexivity].
  - destruct toclose; [rewrite advance_issues, advance_wire|]; split; try reflexivity; left; reflexivity.
  - destruct (r =? 0); split; try reflexivity; left; reflexivity.
  - destruct (mbox st k); [|destruct (mclosed st)]; split; try reflexivity; left; reflexivity.
Qed.

Lemma sub_wire c st s : issues (sub_step c s st) = issues st /\ wire (sub_step c s st) = wire st.
Proof.
  unfold sub_step. destruct (spcs st s); try (split; reflexivity).
  - destruct (closed st); split; reflexivity.
  - destruct (c_cap c <=? queued st); split; reflexivity.
  - destruct (c_shardcap c <=? shq st (shard_of c s)); split; reflexivity.
  - destruct (mclosed st || (c_shardcap c <=? len (mbox st (shard_of c s)))); split; reflexivity.
Qed.

Lemma wire_stepT c b st e : Wire b st -> b < now st -> Wire (now st) (stepT c st e).
Proof.
  intros W Hb. assert (Wn : Wire (now st) st) by (apply (wire_weaken b); [lia|exact W]).
  destruct e; cbn [stepT].
  - destruct (spcs st s); try exact Wn.
    destruct ((s <? c_nsess c)%nat && negb (sclosed st s)); [|exact Wn].
    apply (wire_frame _ st _ Wn); reflexivity.
  - destruct (s <? c_nsess c)%nat; [|exact Wn]. destruct (sub_wire c st s) as [H1 H2].
    apply (wire_frame _ st _ Wn); assumption.
  - destruct (k <? c_shards c)%nat; [|exact Wn]. destruct (work_wire c st k c0) as [H1 [H2|[s [q H2]]]].
    + apply (wire_frame _ st _ Wn); assumption.
    + apply (wire_append b st _ (HWire s 0 q (now st)) W Hb H2 H1). reflexivity.
  - destruct (dpcs st d); try exact Wn. apply (wire_frame _ st _ Wn); reflexivity.
  - unfold drain_step. destruct (dpcs st d); try exact Wn.
    + apply (wire_frame _ st _ Wn); reflexivity.
    + apply (wire_frame _ st _ Wn); reflexivity.
    + destruct (drained st); [apply (wire_frame _ st _ Wn); reflexivity|].
      destruct timeout; [apply (wire_frame _ st _ Wn); reflexivity | exact Wn].
  - destruct (dstarted st && negb (drained st) && (admitted st =? 0)); [|exact Wn].
    apply (wire_frame _ st _ Wn); reflexivity.
  - destruct (cstarted st && drained st && negb (mclosed st)); [|exact Wn].
    apply (wire_frame _ st _ Wn); reflexivity.
  - destruct (s <? c_nsess c)%nat; [|exact Wn]. apply (wire_frame _ st _ Wn); reflexivity.
  - destruct ((s <? c_nsess c)%nat && negb (w =? 0)) eqn:Hg; [|exact Wn]. ltb_hyp.
    destruct (sclosed st s).
    + apply (wire_push_fail b st _ s w tag (now st) W Hb); reflexivity.
    + apply (wire_push_ok b st _ s w tag (now st) W Hb); try reflexivity. assumption.
Qed.

Lemma stepT_now c st e : now (stepT c st e) = now st.
Proof.
  destruct e; cbn [stepT]; unfold sub_step, work_step, drain_step, drain_return, advance, drop_items;
    repeat match goal with
           | |- context [match ?x with _ => _ end] => destruct x
           | |- context [if ?x then _ else _] => destruct x
           end; reflexivity.
Qed.

Lemma step_now c st e : now (step c st e) = now st + 1.
Proof. rewrite step_eq, stepT_now. reflexivity. Qed.

Lemma wire_run c evs : Wire (now (run c evs)) (run c evs).
Proof.
  unfold run. rewrite <- fold_left_rev_right.
  induction (rev evs) as [|e l IH]; cbn [fold_right]; [apply wire_init|].
  set (st0 := fold_right (fun y x => step c x y) init l) in *.
  rewrite step_now. rewrite step_eq. change (now st0 + 1) with (now (tick st0)).
  apply (wire_stepT c (now st0)).
  - apply (wire_frame _ _ _ IH); reflexivity.
  - cbn. lia.
Qed.

(* ================= Fence ================================================================ *)

Definition spc_t0 (p : spc) : option N :=
  match p with
  | SIdle => None
  | SGate _ _ t | SReserve _ _ t | SReserveShard _ _ t | SEnqueue _ _ t
  | SUndoShard _ _ t | SUndoQueue _ _ t | SUndoAdm _ _ t | SReject _ _ t => Some t
  end.

Record Fence (b : N) (st : state) : Prop := {
  f_sends : forall x, In x (sends st) -> hs_t0 x <= b;
  f_spc : forall s t0, spc_t0 (spcs st s) = Some t0 -> t0 <= b;
  f_nodrain : closed st = false -> drains st = [];
  f_fence : forall x d, In x (sends st) -> hs_acc x = true -> In d (drains st) -> hs_t0 x <= hr_t1 d;
  f_inflight : forall s t0 d, spc_t0 (spcs st s) = Some t0 -> shold (spcs st s) = 1 ->
               In d (drains st) -> t0 <= hr_t1 d }.

Lemma fence_init : Fence 0 init.
Proof. constructor; cbn; intros; try contradiction; try discriminate; reflexivity. Qed.

Lemma fence_weaken b b' st : b <= b' -> Fence b st -> Fence b' st.
Proof.
  intros Hb [? ? ? ? ?]. constructor; try assumption.
  - intros x Hx. specialize (f_sends0 x Hx). lia.
  - intros s t0 H. specialize (f_spc0 s t0 H). lia.
Qed.

Lemma fence_frame b st st' :
  Fence b st -> sends st' = sends st -> spcs st' = spcs st -> closed st' = closed st -> drains st' = drains st ->
  Fence b st'.
Proof. intros [? ? ? ? ?] H1 H2 H3 H4. constructor; rewrite ?H1, ?H2, ?H3, ?H4; assumption. Qed.

Ltac f_spc_tac s Hpc :=
  let s0 := fresh "s0" in let t1 := fresh "t1" in let H := fresh "H" in
  intros s0 t1 H; by_idx s0 s;
  [cbn [spc_t0] in H; try discriminate;
   match goal with F : forall s t0, spc_t0 (spcs _ s) = Some t0 -> _ |- _ => apply (F s); rewrite Hpc; exact H end
  | eauto].

Ltac f_infl_tac s Hpc :=
  let s0 := fresh "s0" in let t1 := fresh "t1" in let d := fresh "d" in
  let H := fresh "H" in let Hh := fresh "Hh" in let Hd := fresh "Hd" in
  intros s0 t1 d H Hh Hd; by_idx s0 s;
  [cbn [spc_t0 shold] in *; try discriminate;
   match goal with F : forall s t0 d, spc_t0 (spcs _ s) = Some t0 -> _ |- _ =>
     apply (F s t1 d); rewrite ?Hpc; cbn [spc_t0 shold]; auto end
  | eauto].

Lemma fence_sub c b st s : Fence b st -> Fence b (sub_step c s st).
Proof.
  intro F. unfold sub_step. set (k := shard_of c s).
  destruct (spcs st s) eqn:Hpc; try exact F.
  - (* SGate *) destruct (closed st) eqn:Hcl; destruct F; constructor; sp; try assumption;
      try solve [f_spc_tac s Hpc]; try solve [f_infl_tac s Hpc].
    intros s0 t1 d H Hh Hd. rewrite (f_nodrain0 Hcl) in Hd. contradiction.
  - destruct (c_cap c <=? queued st); destruct F; constructor; sp; try assumption;
      try solve [f_spc_tac s Hpc]; try solve [f_infl_tac s Hpc].
  - destruct (c_shardcap c <=? shq st k); destruct F; constructor; sp; try assumption;
      try solve [f_spc_tac s Hpc]; try solve [f_infl_tac s Hpc].
  - destruct (mclosed st || (c_shardcap c <=? len (mbox st k))); destruct F; constructor; sp; try assumption;
      try solve [f_spc_tac s Hpc]; try solve [f_infl_tac s Hpc].
    + intros x Hx. apply in_app_or in Hx. destruct Hx as [Hx|[<-|[]]]; [auto|]. cbn [hs_t0].
      apply (f_spc0 s). rewrite Hpc. reflexivity.
    + intros x d Hx Ha Hd. apply in_app_or in Hx. destruct Hx as [Hx|[<-|[]]]; [eauto|]. cbn [hs_t0].
      apply (f_inflight0 s t0 d); rewrite ?Hpc; auto.
  - destruct F; constructor; sp; try assumption; try solve [f_spc_tac s Hpc]; try solve [f_infl_tac s Hpc].
  - destruct F; constructor; sp; try assumption; try solve [f_spc_tac s Hpc]; try solve [f_infl_tac s Hpc].
  - destruct F; constructor; sp; try assumption; try solve [f_spc_tac s Hpc]; try solve [f_infl_tac s Hpc].
  - destruct F; constructor; sp; try assumption; try solve [f_spc_tac s Hpc]; try solve [f_infl_tac s Hpc].
    + intros x Hx. apply in_app_or in Hx. destruct Hx as [Hx|[<-|[]]]; [auto|]. cbn [hs_t0].
      apply (f_spc0 s). rewrite Hpc. reflexivity.
    + intros x d Hx Ha Hd. apply in_app_or in Hx. destruct Hx as [Hx|[<-|[]]]; [eauto|]. discriminate Ha.
Qed.

Lemma advance_drains st k n rest : drains (advance k n rest st) = drains st.
Proof. unfold advance. destruct rest; reflexivity. Qed.
Lemma advance_closed st k n rest : closed (advance k n rest st) = closed st.
Proof. unfold advance. destruct rest; reflexivity. Qed.

Lemma work_frame c st k ch :
  sends (work_step c k ch st) = sends st /\ spcs (work_step c k ch st) = spcs st /\
  closed (work_step c k ch st) = closed st /\ drains (work_step c k ch st) = drains st.
Proof.
  unfold work_step. destruct (wpcs st k); try (repeat split; reflexivity).
  - destruct (mbox st k); repeat split; reflexivity.
  - destruct (eff_maxrec (c_maxrec c) <=? length items)%nat; [repeat split; reflexivity|].
    destruct ch; destruct (mbox st k); repeat split; reflexivity.
  - rewrite advance_sends, advance_spcs, advance_closed, advance_drains. repeat split; reflexivity.
  - destruct ch; try (destruct cur as [|x cur'];
      [rewrite advance_sends, advance_spcs, advance_closed, advance_drains; repeat split; reflexivity|];
      destruct (sclosed st (t_s x)); repeat split; reflexivity).
    + repeat split; reflexivity.
    + rewrite advance_sends, advance_spcs, advance_closed, advance_drains. repeat split; reflexivity.
  - destruct toclose; [rewrite advance_sends, advance_spcs, advance_closed, advance_drains|]; repeat split; reflexivity.
  - destruct (r =? 0); repeat split; reflexivity.
  - destruct (mbox st k); [|destruct (mclosed st)]; repeat split; reflexivity.
Qed.

Lemma fence_return c b st d t0 stop ok :
  Acct c st -> Fence b st -> b < now st -> (exists x y, dpcs st d = DWait x y) ->
  Fence (now st) (drain_return d t0 stop ok st).
Proof.
  intros A F Hb [x [y Hd]].
  assert (Hcl : closed st = true).
  { destruct (closed st) eqn:E; [reflexivity|]. pose proof (a_dpc c st A E d) as H. rewrite Hd in H. contradiction. }
  unfold drain_return. destruct F. constructor; sp.
  - intros x0 Hx. specialize (f_sends0 x0 Hx). lia.
  - intros s t1 H. specialize (f_spc0 s t1 H). lia.
  - rewrite Hcl. discriminate.
  - intros x0 d0 Hx Ha Hd0. apply in_app_or in Hd0. destruct Hd0 as [Hd0|[<-|[]]]; [eauto|]. cbn [hr_t1].
    specialize (f_sends0 x0 Hx). lia.
  - intros s t1 d0 H Hh Hd0. apply in_app_or in Hd0. destruct Hd0 as [Hd0|[<-|[]]]; [eauto|]. cbn [hr_t1].
    specialize (f_spc0 s t1 H). lia.
Qed.

Lemma fence_stepT c b st e : Acct c st -> Fence b st -> b < now st -> Fence (now st) (stepT c st e).
Proof.
  intros A F Hb. assert (Fn : Fence (now st) st) by (apply (fence_weaken b); [lia|exact F]).
  destruct e; cbn [stepT].
  - destruct (spcs st s) eqn:Hpc; try exact Fn.
    destruct ((s <? c_nsess c)%nat && negb (sclosed st s)); [|exact Fn].
    destruct Fn; constructor; sp; try assumption.
    + intros s0 t1 H. by_idx s0 s; [cbn [spc_t0] in H; inversion H; lia | eauto].
    + intros s0 t1 d H Hh Hd. by_idx s0 s; [discriminate Hh | eauto].
  - destruct (s <? c_nsess c)%nat; [|exact Fn]. apply fence_sub. exact Fn.
  - destruct (k <? c_shards c)%nat; [|exact Fn]. destruct (work_frame c st k c0) as [H1 [H2 [H3 H4]]].
    apply (fence_frame _ st _ Fn); assumption.
  - destruct (dpcs st d); try exact Fn. apply (fence_frame _ st _ Fn); reflexivity.
  - unfold drain_step. destruct (dpcs st d) eqn:Hd; try exact Fn.
    + destruct Fn; constructor; sp; try assumption. discriminate.
    + apply (fence_frame _ st _ Fn); reflexivity.
    + destruct (drained st); [apply (fence_return c b); eauto|].
      destruct timeout; [apply (fence_return c b); eauto | exact Fn].
  - destruct (dstarted st && negb (drained st) && (admitted st =? 0)); [|exact Fn].
    apply (fence_frame _ st _ Fn); reflexivity.
  - destruct (cstarted st && drained st && negb (mclosed st)); [|exact Fn].
    apply (fence_frame _ st _ Fn); reflexivity.
  - destruct (s <? c_nsess c)%nat; [|exact Fn]. apply (fence_frame _ st _ Fn); reflexivity.
  - destruct ((s <? c_nsess c)%nat && negb (w =? 0)); [|exact Fn].
    destruct (sclosed st s); apply (fence_frame _ st _ Fn); reflexivity.
Qed.

Lemma run_fold c l : fold_right (fun y x => step c x y) init l = run c (rev l).
Proof. unfold run. rewrite <- fold_left_rev_right, rev_involutive. reflexivity. Qed.

Lemma fence_run c evs : cfg_ok c -> Fence (now (run c evs)) (run c evs).
Proof.
  intro Hc. unfold run. rewrite <- fold_left_rev_right.
  induction (rev evs) as [|e l IH]; cbn [fold_right]; [apply fence_init|].
  set (st0 := fold_right (fun y x => step c x y) init l) in *.
  assert (A : Acct c st0).
  { subst st0. rewrite run_fold. apply (acct_run c (rev l) Hc). }
  rewrite step_now. rewrite step_eq. change (now st0 + 1) with (now (tick st0)).
  apply (fence_stepT c (now st0)).
  - apply acct_tick. exact A.
  - apply (fence_frame _ _ _ IH); reflexivity.
  - cbn. lia.
Qed.

(* ================= Done ================================================================= *)

Record Done (b : N) (st : state) : Prop := {
  d_disps : forall e, In e (disps st) -> hd_t e <= b;
  d_okdrain : forall d, In d (drains st) -> hr_ok d = true -> drained st = true;
  d_done : forall d x, In d (drains st) -> hr_ok d = true -> In x (sends st) -> hs_acc x = true ->
           exists e, In e (disps st) /\ hd_s e = hs_s x /\ hd_q e = hs_q x /\ hd_t e < hr_t1 d }.

Lemma done_init : Done 0 init.
Proof. constructor; cbn; intros; contradiction. Qed.

Lemma done_weaken b b' st : b <= b' -> Done b st -> Done b' st.
Proof. intros Hb [? ? ?]. constructor; try assumption. intros e He. specialize (d_disps0 e He). lia. Qed.

Lemma done_frame b st st' :
  Done b st -> disps st' = disps st -> drains st' = drains st -> sends st' = sends st ->
  (drained st = true -> drained st' = true) -> Done b st'.
Proof.
  intros [? ? ?] H1 H2 H3 H4. constructor; rewrite ?H1, ?H2, ?H3; try assumption.
  intros d Hd Hok. apply H4. eauto.
Qed.

Lemma in_accq h x : In x h -> hs_acc x = true -> In (hs_q x) (accq h (hs_s x)).
Proof.
  intros Hin Ha. unfold accq. apply in_map. apply filter_In. split; [exact Hin|].
  rewrite Nat.eqb_refl, Ha. reflexivity.
Qed.

Lemma in_finq d s q : In q (finq d s) -> exists e, In e d /\ hd_s e = s /\ hd_q e = q.
Proof.
  unfold finq. intro H. apply in_map_iff in H. destruct H as [e [Hq He]]. apply filter_In in He.
  destruct He as [He Hs]. apply Nat.eqb_eq in Hs. eauto.
Qed.

(* disps only grows, with fresh stamps *)
Lemma done_grow b st st' l :
  Done b st -> b < now st -> disps st' = disps st ++ l -> (forall e, In e l -> hd_t e = now st) ->
  drains st' = drains st -> sends st' = sends st -> drained st' = drained st -> Done (now st) st'.
Proof.
  intros [? ? ?] Hb H1 Hl H2 H3 H4. constructor; rewrite ?H1, ?H2, ?H3, ?H4; try assumption.
  - intros e He. apply in_app_or in He. destruct He as [He|He]; [specialize (d_disps0 e He); lia | rewrite (Hl e He); lia].
  - intros d x Hd Hok Hx Ha. destruct (d_done0 d x Hd Hok Hx Ha) as [e [H5 H6]]. exists e. split; [apply in_or_app; left; exact H5|exact H6].
Qed.

Lemma advance_drained st k n rest : drained (advance k n rest st) = drained st.
Proof. unfold advance. destruct rest; reflexivity. Qed.

Lemma work_disps c st k ch :
  exists l, disps (work_step c k ch st) = disps st ++ l /\ (forall e, In e l -> hd_t e = now st) /\
            drained (work_step c k ch st) = drained st.
Proof.
  assert (Hnil : forall st', disps st' = disps st -> drained st' = drained st ->
                   exists l, disps st' = disps st ++ l /\ (forall e, In e l -> hd_t e = now st) /\ drained st' = drained st).
  { intros st' H1 H2. exists []. rewrite app_nil_r. repeat split; try assumption. intros e []. }
  assert (Hdrop : forall st' items, disps st' = disps st ++ map (fun x => HDisp (t_s x) (t_q x) (now st)) items ->
                   drained st' = drained st ->
                   exists l, disps st' = disps st ++ l /\ (forall e, In e l -> hd_t e = now st) /\ drained st' = drained st).
  { intros st' items H1 H2. eexists. repeat split; [exact H1| |exact H2]. intros e He. apply in_map_iff in He.
    destruct He as [x [<- _]]. reflexivity. }
  unfold work_step. destruct (wpcs st k); try (apply Hnil; reflexivity).
  - destruct (mbox st k); apply Hnil; reflexivity.
  - destruct (eff_maxrec (c_maxrec c) <=? length items)%nat; [apply Hnil; reflexivity|].
    destruct ch; destruct (mbox st k); apply Hnil; reflexivity.
  - apply Hnil; [rewrite advance_disps|rewrite advance_drained]; reflexivity.
  - destruct ch; try (destruct cur as [|x cur'];
      [apply Hnil; [rewrite advance_disps|rewrite advance_drained]; reflexivity|];
      destruct (sclosed st (t_s x)); apply (Hdrop _ [x]); reflexivity).
    + apply Hnil; reflexivity.
    + apply (Hdrop _ cur); [rewrite advance_disps|rewrite advance_drained]; reflexivity.
  - destruct toclose; [apply (Hdrop _ cur); [rewrite advance_disps|rewrite advance_drained]; reflexivity|].
    apply Hnil; reflexivity.
  - destruct (r =? 0); apply Hnil; reflexivity.
  - destruct (mbox st k); [|destruct (mclosed st)]; apply Hnil; reflexivity.
Qed.

Lemma sub_frame c st s :
  disps (sub_step c s st) = disps st /\ drains (sub_step c s st) = drains st /\
  drained (sub_step c s st) = drained st.
Proof.
  unfold sub_step. destruct (spcs st s); try (repeat split; reflexivity).
  - destruct (closed st); repeat split; reflexivity.
  - destruct (c_cap c <=? queued st); repeat split; reflexivity.
  - destruct (c_shardcap c <=? shq st (shard_of c s)); repeat split; reflexivity.
  - destruct (mclosed st || (c_shardcap c <=? len (mbox st (shard_of c s)))); repeat split; reflexivity.
Qed.

Lemma done_sub c b st s : (s < c_nsess c)%nat -> Acct c st -> Done b st -> Done b (sub_step c s st).
Proof.
  intros Hs A D. destruct (sub_frame c st s) as [H1 [H2 H3]].
  destruct D. constructor; rewrite ?H1, ?H2, ?H3; try assumption.
  intros d x Hd Hok Hx Ha.
  assert (Hold : In x (sends st) -> exists e, In e (disps st) /\ hd_s e = hs_s x /\ hd_q e = hs_q x /\ hd_t e < hr_t1 d)
    by (intro; eauto).
  revert Hx. unfold sub_step. destruct (spcs st s) eqn:Hpc; try exact Hold.
  - destruct (closed st); exact Hold.
  - destruct (c_cap c <=? queued st); exact Hold.
  - destruct (c_shardcap c <=? shq st (shard_of c s)); exact Hold.
  - destruct (mclosed st || (c_shardcap c <=? len (mbox st (shard_of c s)))); [exact Hold|].
    sp. intro Hx. apply in_app_or in Hx. destruct Hx as [Hx|[<-|[]]]; [apply Hold; exact Hx|].
    (* a SEND accepted after a successful drain: impossible *)
    exfalso. pose proof (d_okdrain0 d Hd Hok) as Hdr.
    destruct (a_drained c st A Hdr) as [_ H0]. pose proof (acct_zero_sub c st s A H0) as Hz.
    rewrite Hpc in Hz. discriminate Hz.
  - sp. intro Hx. apply in_app_or in Hx. destruct Hx as [Hx|[<-|[]]]; [apply Hold; exact Hx | discriminate Ha].
Qed.

Lemma done_return c b st d t0 stop ok :
  cfg_ok c -> Acct c st -> Order c st -> Done b st -> b < now st -> (ok = true -> drained st = true) ->
  Done (now st) (drain_return d t0 stop ok st).
Proof.
  intros Hc A O D Hb Hok. unfold drain_return. destruct D. constructor; sp.
  - intros e He. specialize (d_disps0 e He). lia.
  - intros d0 Hd0 Hk. apply in_app_or in Hd0. destruct Hd0 as [Hd0|[<-|[]]]; [eauto|]. apply Hok. exact Hk.
  - intros d0 x Hd0 Hk Hx Ha. apply in_app_or in Hd0. destruct Hd0 as [Hd0|[<-|[]]]; [eauto|].
    cbn [hr_ok hr_t1] in *. specialize (Hok Hk).
    destruct (a_drained c st A Hok) as [_ H0].
    destruct (acct_zero c st (shard_of c (hs_s x)) A H0) as [Hm Hw].
    pose proof (o_acc c st O (hs_s x)) as Hacc. unfold pipe in Hacc. rewrite Hm, Hw in Hacc.
    cbn [app] in Hacc. rewrite qs_of_nil, app_nil_r in Hacc.
    pose proof (in_accq _ x Hx Ha) as Hin. rewrite Hacc in Hin.
    destruct (in_finq _ _ _ Hin) as [e [He [Hs Hq]]]. exists e. repeat split; try assumption.
    specialize (d_disps0 e He). lia.
Qed.

Lemma done_stepT c b st e :
  cfg_ok c -> Acct c st -> Order c st -> Done b st -> b < now st -> Done (now st) (stepT c st e).
Proof.
  intros Hc A O D Hb. assert (Dn : Done (now st) st) by (apply (done_weaken b); [lia|exact D]).
  destruct e; cbn [stepT].
  - destruct (spcs st s); try exact Dn.
    destruct ((s <? c_nsess c)%nat && negb (sclosed st s)); [|exact Dn].
    apply (done_frame _ st _ Dn); auto.
  - destruct (s <? c_nsess c)%nat eqn:Hs; [|exact Dn]. ltb_hyp. apply (done_sub c); assumption.
  - destruct (k <? c_shards c)%nat; [|exact Dn].
    destruct (work_disps c st k c0) as [l [H1 [H2 H3]]]. destruct (work_frame c st k c0) as [H4 [_ [_ H5]]].
    apply (done_grow b st _ l D Hb H1 H2 H5 H4 H3).
  - destruct (dpcs st d); try exact Dn. apply (done_frame _ st _ Dn); auto.
  - unfold drain_step. destruct (dpcs st d) eqn:Hd; try exact Dn.
    + apply (done_frame _ st _ Dn); auto.
    + apply (done_frame _ st _ Dn); auto.
    + destruct (drained st) eqn:Hdr; [apply (done_return c b); auto|].
      destruct timeout; [apply (done_return c b); auto; discriminate | exact Dn].
  - destruct (dstarted st && negb (drained st) && (admitted st =? 0)); [|exact Dn].
    apply (done_frame _ st _ Dn); auto.
  - destruct (cstarted st && drained st && negb (mclosed st)); [|exact Dn].
    apply (done_frame _ st _ Dn); auto.
  - destruct (s <? c_nsess c)%nat; [|exact Dn]. apply (done_frame _ st _ Dn); auto.
  - destruct ((s <? c_nsess c)%nat && negb (w =? 0)); [|exact Dn].
    destruct (sclosed st s); apply (done_frame _ st _ Dn); auto.
Qed.

Lemma done_run c evs : cfg_ok c -> Done (now (run c evs)) (run c evs).
Proof.
  intro Hc. unfold run. rewrite <- fold_left_rev_right.
  induction (rev evs) as [|e l IH]; cbn [fold_right]; [apply done_init|].
  set (st0 := fold_right (fun y x => step c x y) init l) in *.
  assert (A : Acct c st0) by (subst st0; rewrite run_fold; apply (acct_run c (rev l) Hc)).
  assert (O : Order c st0) by (subst st0; rewrite run_fold; apply (order_run c (rev l) Hc)).
  rewrite step_now. rewrite step_eq. change (now st0 + 1) with (now (tick st0)).
  apply (done_stepT c (now st0)); try assumption.
  - apply acct_tick. exact A.
  - apply order_tick. exact O.
  - apply (done_frame _ _ _ IH); auto.
  - cbn. lia.
Qed.
