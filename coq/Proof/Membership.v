(* Proof/Membership.v — lemmas about Model/Membership.v, part 1: equality tests,
   the keyed stores, and the cursor behaviour of the resolvers and closures. *)
From WK Require Import Base.Base.
From WK Require Import Gen.Consts_C16 Model.Membership.
Open Scope N_scope.

Ltac m_cbn :=
  cbn [m_uid m_channel_id m_channel_type m_join_seq m_read_seq m_deleted_to_seq m_activated_at
       m_tombstone m_tombstone_at m_source_version m_updated_at
       c_uid c_command_channel_id c_channel_type c_start_seq c_ack_seq c_tombstone c_tombstone_at
       c_updated_at
       with_cursors with_activated_at with_tombstone with_source_version with_updated_at cmd_with] in *.

(* ---- equality tests ------------------------------------------------------------ *)

Lemma bytes_eqb_refl a : bytes_eqb a a = true.
Proof. apply bytes_eqb_eq. reflexivity. Qed.

Lemma mkey_eqb_eq a b : mkey_eqb a b = true <-> a = b.
Proof.
  unfold mkey_eqb. split.
  - intro H. apply andb_true_iff in H. destruct H as [H Ht].
    apply andb_true_iff in H. destruct H as [H Hc].
    apply andb_true_iff in H. destruct H as [Hs Hu].
    apply N.eqb_eq in Hs. apply bytes_eqb_eq in Hu. apply bytes_eqb_eq in Hc. apply Z.eqb_eq in Ht.
    destruct a, b. cbn in *. subst. reflexivity.
  - intros ->. rewrite N.eqb_refl, !bytes_eqb_refl, Z.eqb_refl. reflexivity.
Qed.

Lemma mkey_eqb_refl k : mkey_eqb k k = true.
Proof. apply mkey_eqb_eq. reflexivity. Qed.

Lemma mkey_eqb_sym a b : mkey_eqb a b = mkey_eqb b a.
Proof.
  destruct (mkey_eqb a b) eqn:H1, (mkey_eqb b a) eqn:H2; try reflexivity.
  - apply mkey_eqb_eq in H1. subst. rewrite mkey_eqb_refl in H2. discriminate.
  - apply mkey_eqb_eq in H2. subst. rewrite mkey_eqb_refl in H1. discriminate.
Qed.

Lemma mkey_eqb_neq a b : mkey_eqb a b = false <-> a <> b.
Proof.
  split.
  - intros H E. subst. rewrite mkey_eqb_refl in H. discriminate.
  - intro H. destruct (mkey_eqb a b) eqn:E; [|reflexivity]. apply mkey_eqb_eq in E. contradiction.
Qed.

Lemma bool_eqb_refl b : Bool.eqb b b = true.
Proof. destruct b; reflexivity. Qed.

Lemma membership_eqb_refl m : membership_eqb m m = true.
Proof.
  unfold membership_eqb.
  rewrite !bytes_eqb_refl, !N.eqb_refl, !Z.eqb_refl, bool_eqb_refl. reflexivity.
Qed.

Lemma membership_eqb_eq a b : membership_eqb a b = true -> a = b.
Proof.
  unfold membership_eqb. intro H.
  repeat (apply andb_true_iff in H; let H' := fresh "E" in destruct H as [H H']).
  destruct a, b. m_cbn.
  repeat match goal with
         | E : bytes_eqb _ _ = true |- _ => apply bytes_eqb_eq in E
         | E : N.eqb _ _ = true |- _ => apply N.eqb_eq in E
         | E : Z.eqb _ _ = true |- _ => apply Z.eqb_eq in E
         | E : Bool.eqb _ _ = true |- _ => apply Bool.eqb_prop in E
         end.
  subst. reflexivity.
Qed.

Lemma cmd_membership_eqb_refl c : cmd_membership_eqb c c = true.
Proof.
  unfold cmd_membership_eqb.
  rewrite !bytes_eqb_refl, !N.eqb_refl, !Z.eqb_refl, bool_eqb_refl. reflexivity.
Qed.

Lemma cmd_membership_eqb_eq a b : cmd_membership_eqb a b = true -> a = b.
Proof.
  unfold cmd_membership_eqb. intro H.
  repeat (apply andb_true_iff in H; let H' := fresh "E" in destruct H as [H H']).
  destruct a, b. m_cbn.
  repeat match goal with
         | E : bytes_eqb _ _ = true |- _ => apply bytes_eqb_eq in E
         | E : N.eqb _ _ = true |- _ => apply N.eqb_eq in E
         | E : Z.eqb _ _ = true |- _ => apply Z.eqb_eq in E
         | E : Bool.eqb _ _ = true |- _ => apply Bool.eqb_prop in E
         end.
  subst. reflexivity.
Qed.

Lemma idx_entry_eqb_eq a b : idx_entry_eqb a b = true <-> a = b.
Proof.
  unfold idx_entry_eqb. split.
  - intro H.
    repeat (apply andb_true_iff in H; let H' := fresh "E" in destruct H as [H H']).
    apply N.eqb_eq in H. apply bytes_eqb_eq in E2. apply Z.eqb_eq in E1.
    apply bytes_eqb_eq in E0. apply Z.eqb_eq in E.
    destruct a, b. cbn in *. subst. reflexivity.
  - intros ->. rewrite N.eqb_refl, !bytes_eqb_refl, !Z.eqb_refl. reflexivity.
Qed.

Lemma idx_entry_eqb_refl e : idx_entry_eqb e e = true.
Proof. apply idx_entry_eqb_eq. reflexivity. Qed.

(* ---- keyed stores -------------------------------------------------------------------- *)

Lemma assoc_get_put {V} (s : list (mkey * V)) k v k' :
  assoc_get (assoc_put s k v) k' = if mkey_eqb k k' then Some v else assoc_get s k'.
Proof.
  induction s as [|[k0 v0] r IH].
  - reflexivity.
  - cbn [assoc_put]. destruct (mkey_eqb k0 k) eqn:H0.
    + apply mkey_eqb_eq in H0. subst k0. cbn [assoc_get]. destruct (mkey_eqb k k'); reflexivity.
    + cbn [assoc_get]. destruct (mkey_eqb k0 k') eqn:H1.
      * apply mkey_eqb_eq in H1. subst k'. rewrite mkey_eqb_sym, H0. reflexivity.
      * exact IH.
Qed.

Lemma assoc_get_del {V} (s : list (mkey * V)) k k' :
  assoc_get (assoc_del s k) k' = if mkey_eqb k k' then None else assoc_get s k'.
Proof.
  induction s as [|[k0 v0] r IH].
  - cbn. destruct (mkey_eqb k k'); reflexivity.
  - cbn [assoc_del]. destruct (mkey_eqb k0 k) eqn:H0.
    + apply mkey_eqb_eq in H0. subst k0. rewrite IH. cbn [assoc_get]. destruct (mkey_eqb k k'); reflexivity.
    + cbn [assoc_get]. destruct (mkey_eqb k0 k') eqn:H1.
      * apply mkey_eqb_eq in H1. subst k'. rewrite mkey_eqb_sym, H0. reflexivity.
      * exact IH.
Qed.

(* ---- "cursors do not move backwards" ---------------------------------------------------- *)

Record m_advances (a b : membership) : Prop := MAdvances {
  ma_read : m_read_seq a <= m_read_seq b;
  ma_deleted : m_deleted_to_seq a <= m_deleted_to_seq b;
  ma_source : m_source_version a <= m_source_version b }.

Lemma m_advances_refl a : m_advances a a.
Proof. constructor; lia. Qed.

Lemma m_advances_trans a b c : m_advances a b -> m_advances b c -> m_advances a c.
Proof. intros [? ? ?] [? ? ?]. constructor; lia. Qed.

(* identity (uid, channel, type) of a row *)
Definition same_identity (a b : membership) : Prop :=
  m_uid a = m_uid b /\ m_channel_id a = m_channel_id b /\ m_channel_type a = m_channel_type b.

Lemma bump_updated_at_fields m v :
  let r := bump_updated_at m v in
  m_uid r = m_uid m /\ m_channel_id r = m_channel_id m /\ m_channel_type r = m_channel_type m
  /\ m_join_seq r = m_join_seq m /\ m_read_seq r = m_read_seq m
  /\ m_deleted_to_seq r = m_deleted_to_seq m /\ m_activated_at r = m_activated_at m
  /\ m_tombstone r = m_tombstone m /\ m_tombstone_at r = m_tombstone_at m
  /\ m_source_version r = m_source_version m.
Proof. unfold bump_updated_at. destruct (m_updated_at m <? v)%Z; m_cbn; repeat split; reflexivity. Qed.

(* resolveUserChannelMembership on an existing row: unless the incoming row is a
   live row with a newer source version landing on a tombstone (the recreate
   boundary), the cursors and the source version do not move backwards *)
Lemma resolve_upsert_spec ex next :
  let r := resolveUserChannelMembership ex true next in
  (m_tombstone ex = true /\ m_tombstone next = false /\ m_source_version ex < m_source_version next
   /\ r = next)
  \/ (m_advances ex r /\ same_identity ex r
      /\ (m_tombstone r = true -> m_tombstone ex = true \/ m_tombstone next = true)
      /\ (m_source_version r <> 0 -> m_source_version ex <> 0 \/ m_source_version next <> 0)
      /\ (m_activated_at r = m_activated_at ex)).
Proof.
  unfold resolveUserChannelMembership. cbn [negb].
  destruct (m_source_version next <? m_source_version ex) eqn:H1.
  { right. split; [apply m_advances_refl|]. repeat split; auto. }
  apply N.ltb_ge in H1.
  destruct (m_source_version next =? m_source_version ex) eqn:H2.
  { apply N.eqb_eq in H2.
    destruct (negb (m_tombstone ex) && m_tombstone next) eqn:H3.
    { right. split; [apply m_advances_refl|]. repeat split; auto. }
    destruct (m_tombstone ex && negb (m_tombstone next)) eqn:H4.
    - right. pose proof (bump_updated_at_fields (with_tombstone ex false 0%Z) (m_updated_at next)) as F.
      cbv zeta in F. destruct F as (F1 & F2 & F3 & F4 & F5 & F6 & F7 & F8 & F9 & F10). m_cbn.
      split; [constructor; lia|]. split; [repeat split; congruence|].
      split; [intro C; rewrite F8 in C; discriminate|]. split; [intro C; left; congruence|congruence].
    - right. split; [apply m_advances_refl|]. repeat split; auto. }
  apply N.eqb_neq in H2.
  destruct (m_tombstone next) eqn:H3.
  { right.
    pose proof (bump_updated_at_fields
                  (with_source_version (with_tombstone ex true (m_tombstone_at next)) (m_source_version next))
                  (m_updated_at next)) as F.
    cbv zeta in F. destruct F as (F1 & F2 & F3 & F4 & F5 & F6 & F7 & F8 & F9 & F10). m_cbn.
    split; [constructor; lia|]. split; [repeat split; congruence|].
    split; [intros _; right; reflexivity|]. split; [intro C; right; congruence|congruence]. }
  destruct (m_tombstone ex) eqn:H4.
  { left. repeat split; auto. lia. }
  right.
  pose proof (bump_updated_at_fields (with_source_version ex (m_source_version next)) (m_updated_at next)) as F.
  cbv zeta in F. destruct F as (F1 & F2 & F3 & F4 & F5 & F6 & F7 & F8 & F9 & F10). m_cbn.
  split; [constructor; lia|]. split; [repeat split; congruence|].
  split; [intro C; rewrite F8, H4 in C; discriminate|]. split; [intro C; right; congruence|congruence].
Qed.

(* an older source version is refused *)
Lemma resolve_upsert_stale ex next :
  m_source_version next < m_source_version ex -> resolveUserChannelMembership ex true next = ex.
Proof.
  intro H. unfold resolveUserChannelMembership. cbn [negb].
  apply N.ltb_lt in H. rewrite H. reflexivity.
Qed.

(* resolveEnsuredUserChannelMembership on an existing row: unless a newer source
   generation lands on a row that already has a non-zero one (the delete/recreate
   boundary), nothing moves backwards; the tombstone flag is never touched *)
Lemma resolve_ensure_spec ex inc :
  let r := resolveEnsuredUserChannelMembership ex true inc in
  (m_source_version ex < m_source_version inc /\ m_source_version ex <> 0)
  \/ (m_advances ex r /\ same_identity ex r
      /\ m_tombstone r = m_tombstone ex
      /\ (m_source_version r <> 0 -> m_source_version ex <> 0 \/ m_source_version inc <> 0)
      /\ (m_activated_at r = m_activated_at ex)).
Proof.
  unfold resolveEnsuredUserChannelMembership. cbn [negb].
  destruct (m_source_version inc <=? m_source_version ex) eqn:H1.
  { right. split; [apply m_advances_refl|]. repeat split; auto. }
  apply N.leb_gt in H1.
  destruct (m_source_version ex =? 0) eqn:H2.
  - apply N.eqb_eq in H2. right.
    match goal with |- context [bump_updated_at ?x ?v] =>
      pose proof (bump_updated_at_fields x v) as F end.
    cbv zeta in F. destruct F as (F1 & F2 & F3 & F4 & F5 & F6 & F7 & F8 & F9 & F10). m_cbn.
    split; [constructor; lia|]. split; [repeat split; congruence|].
    split; [congruence|]. split; [intro C; right; congruence|congruence].
  - apply N.eqb_neq in H2. left. split; assumption.
Qed.

Lemma resolve_ensure_stale ex inc :
  m_source_version inc <= m_source_version ex -> resolveEnsuredUserChannelMembership ex true inc = ex.
Proof.
  intro H. unfold resolveEnsuredUserChannelMembership. cbn [negb].
  apply N.leb_le in H. rewrite H. reflexivity.
Qed.

(* the personal-state closures never touch the source version or the tombstone
   flag and only raise the cursors *)
Definition closure_ok (f : membership -> membership) : Prop :=
  forall row, let r := f row in
    m_advances row r /\ same_identity row r /\ m_tombstone r = m_tombstone row
    /\ m_source_version r = m_source_version row.

Lemma advanceReadSeq_ok readSeq upd : closure_ok (fun row => advanceReadSeq row readSeq upd).
Proof.
  intro row. unfold advanceReadSeq. destruct (m_read_seq row <? readSeq) eqn:H.
  - apply N.ltb_lt in H.
    match goal with |- context [bump_updated_at ?x ?v] =>
      pose proof (bump_updated_at_fields x v) as F end.
    cbv zeta in F. destruct F as (F1 & F2 & F3 & F4 & F5 & F6 & F7 & F8 & F9 & F10). m_cbn.
    split; [constructor; lia|]. split; [repeat split; congruence|]. split; congruence.
  - split; [apply m_advances_refl|]. repeat split; reflexivity.
Qed.

Lemma activate_ok act upd : closure_ok (fun row => activate row act upd).
Proof.
  intro row. unfold activate. destruct (m_activated_at row <? act)%Z.
  - match goal with |- context [bump_updated_at ?x ?v] =>
      pose proof (bump_updated_at_fields x v) as F end.
    cbv zeta in F. destruct F as (F1 & F2 & F3 & F4 & F5 & F6 & F7 & F8 & F9 & F10). m_cbn.
    split; [constructor; lia|]. split; [repeat split; congruence|]. split; congruence.
  - split; [apply m_advances_refl|]. repeat split; reflexivity.
Qed.

Lemma hide_ok d upd : closure_ok (fun row => hide row d upd).
Proof.
  intro row. unfold hide.
  set (row1 := if m_deleted_to_seq row <? d
               then with_cursors row (m_join_seq row) (m_read_seq row) d else row).
  assert (R1 : m_advances row row1 /\ same_identity row row1 /\ m_tombstone row1 = m_tombstone row
               /\ m_source_version row1 = m_source_version row).
  { unfold row1. destruct (m_deleted_to_seq row <? d) eqn:H.
    - apply N.ltb_lt in H. m_cbn. split; [constructor; m_cbn; lia|]. repeat split; reflexivity.
    - split; [apply m_advances_refl|]. repeat split; reflexivity. }
  set (row2 := if negb (m_activated_at row1 =? 0)%Z then with_activated_at row1 0%Z else row1).
  assert (R2 : m_advances row row2 /\ same_identity row row2 /\ m_tombstone row2 = m_tombstone row
               /\ m_source_version row2 = m_source_version row).
  { unfold row2. destruct (negb (m_activated_at row1 =? 0)%Z); [|exact R1].
    destruct R1 as ([? ? ?] & (? & ? & ?) & ? & ?). m_cbn.
    split; [constructor; m_cbn; lia|]. repeat split; m_cbn; assumption. }
  destruct ((m_deleted_to_seq row <? d) || negb (m_activated_at row1 =? 0)%Z); [|exact R2].
  pose proof (bump_updated_at_fields row2 upd) as F.
  cbv zeta in F. destruct F as (F1 & F2 & F3 & F4 & F5 & F6 & F7 & F8 & F9 & F10).
  destruct R2 as ([? ? ?] & (? & ? & ?) & ? & ?).
  split; [constructor; lia|]. split; [repeat split; congruence|]. split; congruence.
Qed.

(* ---- CMD rows ------------------------------------------------------------------------------ *)

(* resolveUserCMDChannelMembership on an existing row: unless a live binding lands
   on a tombstone (rebinding), AckSeq does not move backwards *)
Lemma resolve_cmd_spec ex next :
  let r := resolveUserCMDChannelMembership ex true next in
  (c_tombstone ex = true /\ c_tombstone next = false)
  \/ (c_ack_seq ex <= c_ack_seq r /\ c_tombstone r = c_tombstone ex).
Proof.
  unfold resolveUserCMDChannelMembership. cbn [negb orb].
  destruct (c_tombstone ex) eqn:H1; cbn [andb].
  - destruct (c_tombstone next) eqn:H2; cbn [negb].
    + right. rewrite H1. split; [lia|reflexivity].
    + left. split; reflexivity.
  - right. m_cbn. split; [lia|reflexivity].
Qed.

Definition cmd_closure_ok (f : cmd_membership -> cmd_membership) : Prop :=
  forall row, c_ack_seq row <= c_ack_seq (f row).

Lemma cmdAdvanceAckShard_ok ack upd : cmd_closure_ok (fun row => cmdAdvanceAckShard row ack upd).
Proof. intro row. unfold cmdAdvanceAckShard. m_cbn. lia. Qed.

Lemma cmdAdvanceAckBatch_ok ack upd : cmd_closure_ok (fun row => cmdAdvanceAckBatch row ack upd).
Proof.
  intro row. unfold cmdAdvanceAckBatch. destruct (c_ack_seq row <? ack) eqn:H; [|lia].
  apply N.ltb_lt in H. m_cbn. lia.
Qed.

Lemma cmdTombstone_ok at_ upd : cmd_closure_ok (fun row => cmdTombstone row at_ upd).
Proof. intro row. unfold cmdTombstone. m_cbn. lia. Qed.
