(* Proof/Delivery_hist.v — histories of queue calls: the array / free-list queue
   answers every history exactly like the vector of per-shard FIFO lists, and
   per shard the plans come out in the order they went in. *)
From WK Require Import Base.Base Gen.Consts_C31 Model.Delivery Model.Delivery_C31 Model.Delivery_sys
     Proof.Delivery_queue Proof.Delivery_queue_pop.
Open Scope nat_scope.

Lemma inv_total_le q fl sl : QInv q fl sl -> aq_total (abs q sl) <= pq_cap q.
Proof.
  intros I. rewrite abs_total. rewrite <- (qi_count _ _ _ I), app_length. lia.
Qed.

Lemma run_refines : forall cs q fl sl,
  QInv q fl sl ->
  let '(q', rets) := pq_run q cs in
  let '(a', arets) := aq_run (pq_cap q) (abs q sl) cs in
  rets = arets
  /\ exists fl' sl', QInv q' fl' sl' /\ abs q' sl' = a' /\ pq_cap q' = pq_cap q /\ length sl' = length sl.
Proof.
  induction cs as [|cl cs IH]; intros q fl sl I; cbn [pq_run aq_run].
  - split; [reflexivity|]. exists fl, sl. auto.
  - destruct cl as [closed p|s]; cbn [pq_step aq_step].
    + destruct (pq_enqueue q closed p) as [q1 r] eqn:E.
      destruct (enqueue_refines _ _ _ _ _ _ _ I E) as (fl1 & sl1 & I1 & A1 & C1 & L1).
      rewrite A1. specialize (IH q1 fl1 sl1 I1). rewrite C1 in IH.
      destruct (pq_run q1 cs) as [q2 rets]. destruct (aq_run (pq_cap q) (abs q1 sl1) cs) as [a2 arets].
      destruct IH as (R & fl2 & sl2 & I2 & A2 & C2 & L2).
      split; [rewrite R; reflexivity|]. exists fl2, sl2.
      split; [exact I2|]. split; [exact A2|]. split; congruence.
    + destruct (pq_pop q s) as [q1 g] eqn:E.
      destruct (pop_refines _ _ _ _ _ _ I E) as (fl1 & sl1 & I1 & A1 & C1 & L1).
      rewrite A1. specialize (IH q1 fl1 sl1 I1). rewrite C1 in IH.
      destruct (pq_run q1 cs) as [q2 rets]. destruct (aq_run (pq_cap q) (abs q1 sl1) cs) as [a2 arets].
      destruct IH as (R & fl2 & sl2 & I2 & A2 & C2 & L2).
      split; [rewrite R; reflexivity|]. exists fl2, sl2.
      split; [exact I2|]. split; [exact A2|]. split; congruence.
Qed.

(* c31_queue_refines_fifo *)
Theorem queue_refines_fifo cap shards cs :
  0 < cap -> 0 < shards ->
  let '(q, rets) := pq_run (newq_nat cap shards) cs in
  let '(a, arets) := aq_run cap (repeat [] shards) cs in
  rets = arets
  /\ exists fl sl, QInv q fl sl /\ abs q sl = a /\ aq_total a <= cap /\ pq_cap q = cap.
Proof.
  intros Hc Hs.
  pose proof (run_refines cs _ _ _ (newq_inv cap shards Hc Hs)) as H.
  rewrite newq_abs in H. cbn [newq_nat pq_cap] in H.
  destruct (pq_run (newq_nat cap shards) cs) as [q rets].
  destruct (aq_run cap (repeat [] shards) cs) as [a arets].
  destruct H as (R & fl & sl & I & A & C & L).
  split; [exact R|]. exists fl, sl. split; [exact I|]. split; [exact A|].
  split; [|exact C]. rewrite <- A, <- C. apply (inv_total_le _ _ _ I).
Qed.

(* ---- per shard FIFO of the specification ---- *)

Lemma aq_run_length cap : forall cs a a' rets,
  aq_run cap a cs = (a', rets) -> length a' = length a.
Proof.
  induction cs as [|cl cs IH]; intros a a' rets E; cbn [aq_run] in E.
  - inversion E; reflexivity.
  - destruct (aq_step cap a cl) as [a1 x] eqn:E1.
    destruct (aq_run cap a1 cs) as [a2 xs] eqn:E2. inversion E; subst.
    rewrite (IH _ _ _ E2). destruct cl as [closed p|s]; cbn [aq_step] in E1.
    + unfold aq_enqueue in E1. destruct closed; [inversion E1; reflexivity|].
      destruct (cap <=? aq_total a); inversion E1; [reflexivity| apply upd_length].
    + unfold aq_pop in E1. destruct (nth s a []); inversion E1; [reflexivity| apply upd_length].
Qed.

Lemma aq_fifo cap : forall cs a a' rets s,
  aq_run cap a cs = (a', rets) -> s < length a ->
  nth s a [] ++ enq_of (length a) s cs rets = pop_of s cs rets ++ nth s a' [].
Proof.
  induction cs as [|cl cs IH]; intros a a' rets s E Hs; cbn [aq_run] in E.
  - inversion E; subst. simpl. rewrite app_nil_r. reflexivity.
  - destruct (aq_step cap a cl) as [a1 x] eqn:E1.
    destruct (aq_run cap a1 cs) as [a2 xs] eqn:E2. inversion E; subst a' rets. clear E.
    destruct cl as [closed p|s']; cbn [aq_step] in E1.
    + unfold aq_enqueue in E1.
      destruct closed.
      { inversion E1; subst. cbn [enq_of pop_of]. apply IH; assumption. }
      destruct (cap <=? aq_total a).
      { inversion E1; subst. cbn [enq_of pop_of]. apply IH; assumption. }
      inversion E1; subst a1 x. clear E1. cbn [enq_of pop_of].
      set (s0 := plan_shard (length a) p) in *.
      assert (Hl : length (upd s0 (nth s0 a [] ++ [p]) a) = length a) by apply upd_length.
      specialize (IH _ _ _ s E2). rewrite Hl in IH. specialize (IH Hs).
      destruct (Nat.eqb_spec s0 s) as [->|Hne].
      * rewrite nth_upd_eq in IH by exact Hs. rewrite <- app_assoc in IH. exact IH.
      * rewrite nth_upd_neq in IH by exact Hne. exact IH.
    + unfold aq_pop in E1. destruct (nth s' a []) as [|p r] eqn:En.
      { inversion E1; subst. cbn [enq_of pop_of]. apply IH; assumption. }
      inversion E1; subst a1 x. clear E1. cbn [enq_of pop_of].
      assert (Hl : length (upd s' r a) = length a) by apply upd_length.
      specialize (IH _ _ _ s E2). rewrite Hl in IH. specialize (IH Hs).
      destruct (Nat.eqb_spec s' s) as [->|Hne].
      * rewrite nth_upd_eq in IH by exact Hs. rewrite En. simpl. f_equal. exact IH.
      * rewrite nth_upd_neq in IH by exact Hne. exact IH.
Qed.

(* c31_channel_fifo, queue part: for every history of calls on the real
   structure, the plans dequeued from shard s are, in order, a prefix of the
   plans accepted into shard s; what is missing is still queued *)
Theorem queue_fifo cap shards cs s :
  0 < cap -> 0 < shards -> s < shards ->
  let '(q, rets) := pq_run (newq_nat cap shards) cs in
  exists queued, enq_of shards s cs rets = pop_of s cs rets ++ queued.
Proof.
  intros Hc Hsh Hs.
  pose proof (queue_refines_fifo cap shards cs Hc Hsh) as H.
  destruct (pq_run (newq_nat cap shards) cs) as [q rets].
  destruct (aq_run cap (repeat [] shards) cs) as [a arets] eqn:Ea.
  destruct H as (R & _). subst arets.
  pose proof (aq_fifo cap cs _ _ _ s Ea) as F. rewrite repeat_length in F. specialize (F Hs).
  rewrite nth_repeat in F by exact Hs. simpl in F.
  exists (nth s a []). exact F.
Qed.
