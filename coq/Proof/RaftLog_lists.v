(* Proof/RaftLog_lists.v — list facts behind the C14 refinement: logs whose
   indexes are contiguous, and what the row operations / filters / cuts of the
   code do to them. *)
From WK Require Import Base.Base Gen.Consts_C14 Model.RaftLog.
From Coq Require Import ZifyBool ZifyN ZifyNat.
Open Scope N_scope.

Ltac bdestr :=
  repeat match goal with
         | H : _ && _ = true |- _ => apply andb_true_iff in H; destruct H
         | H : _ || _ = false |- _ => apply orb_false_iff in H; destruct H
         | H : negb _ = true |- _ => apply negb_true_iff in H
         | H : negb _ = false |- _ => apply negb_false_iff in H
         end.

Definition len (l : list entry) : N := N.of_nat (length l).

Lemma len_cons e l : len (e :: l) = len l + 1.
Proof. unfold len. cbn [length]. lia. Qed.
Lemma len_nil : len [] = 0.
Proof. reflexivity. Qed.
Lemma len_app l1 l2 : len (l1 ++ l2) = len l1 + len l2.
Proof. unfold len. rewrite app_length. lia. Qed.
Lemma len_map f l : len (map f l) = len l.
Proof. unfold len. rewrite map_length. reflexivity. Qed.

(* ---- contiguity *)

Lemma contig_cons a e l :
  contiguous_from a (e :: l) = true <-> e_idx e = a /\ contiguous_from (a + 1) l = true.
Proof.
  cbn [contiguous_from]. rewrite andb_true_iff, N.eqb_eq. tauto.
Qed.

Lemma contig_app a l1 l2 :
  contiguous_from a (l1 ++ l2) = true <->
  contiguous_from a l1 = true /\ contiguous_from (a + len l1) l2 = true.
Proof.
  revert a. induction l1 as [|e l1 IH]; intro a.
  - cbn [app]. rewrite len_nil, N.add_0_r. cbn [contiguous_from]. tauto.
  - cbn [app]. rewrite !contig_cons, IH, len_cons.
    replace (a + 1 + len l1) with (a + (len l1 + 1)) by lia. tauto.
Qed.

Lemma contig_in a l e :
  contiguous_from a l = true -> In e l -> a <= e_idx e /\ e_idx e < a + len l.
Proof.
  revert a. induction l as [|x l IH]; intros a H Hin; [destruct Hin|].
  apply contig_cons in H. destruct H as [Hx Hl]. rewrite len_cons.
  destruct Hin as [->|Hin]; [lia|]. specialize (IH _ Hl Hin). lia.
Qed.

Lemma contig_nth a l k e :
  contiguous_from a l = true -> nth_error l k = Some e -> e_idx e = a + N.of_nat k.
Proof.
  revert a k. induction l as [|x l IH]; intros a k H Hn; [destruct k; discriminate|].
  apply contig_cons in H. destruct H as [Hx Hl].
  destruct k as [|k]; cbn [nth_error] in Hn.
  - inversion Hn; subst. lia.
  - rewrite (IH _ _ Hl Hn). lia.
Qed.

Lemma contig_in_nth a l e :
  contiguous_from a l = true -> In e l -> nth_error l (N.to_nat (e_idx e - a)) = Some e.
Proof.
  revert a. induction l as [|x l IH]; intros a H Hin; [destruct Hin|].
  apply contig_cons in H. destruct H as [Hx Hl].
  destruct Hin as [->|Hin].
  - replace (N.to_nat (e_idx e - a)) with O by lia. reflexivity.
  - pose proof (contig_in _ _ _ Hl Hin) as B.
    replace (N.to_nat (e_idx e - a)) with (S (N.to_nat (e_idx e - (a + 1)))) by lia.
    cbn [nth_error]. apply IH; assumption.
Qed.

Lemma contig_firstn a l k :
  contiguous_from a l = true -> contiguous_from a (firstn k l) = true.
Proof.
  revert a k. induction l as [|x l IH]; intros a k H; destruct k; try reflexivity.
  cbn [firstn]. apply contig_cons in H. destruct H as [Hx Hl].
  apply contig_cons. split; [assumption|]. apply IH. assumption.
Qed.

Lemma contig_skipn a l k :
  contiguous_from a l = true -> (k <= length l)%nat ->
  contiguous_from (a + N.of_nat k) (skipn k l) = true.
Proof.
  revert a k. induction l as [|x l IH]; intros a k H Hk.
  - destruct k; reflexivity.
  - destruct k as [|k].
    + cbn [skipn]. replace (a + N.of_nat 0) with a by lia. assumption.
    + cbn [skipn]. apply contig_cons in H. destruct H as [Hx Hl].
      replace (a + N.of_nat (S k)) with (a + 1 + N.of_nat k) by lia.
      apply IH; [assumption|]. cbn [length] in Hk. lia.
Qed.

Lemma skipn_all2 {A} (l : list A) k : (length l <= k)%nat -> skipn k l = [].
Proof.
  revert k. induction l as [|x l IH]; intros k H; destruct k; try reflexivity.
  - cbn [length] in H. lia.
  - cbn [skipn]. apply IH. cbn [length] in H. lia.
Qed.

Lemma firstn_all3 {A} (l : list A) k : (length l <= k)%nat -> firstn k l = l.
Proof.
  revert k. induction l as [|x l IH]; intros k H; destruct k; try reflexivity.
  - cbn [length] in H. lia.
  - cbn [firstn]. f_equal. apply IH. cbn [length] in H. lia.
Qed.

Lemma contig_first_idx a e l : contiguous_from a (e :: l) = true -> e_idx e = a.
Proof. intro H. apply contig_cons in H. tauto. Qed.

(* any list that is contiguous from somewhere is contiguous from its head *)
Lemma contig_head a l :
  contiguous_from a l = true ->
  match l with [] => true | e0 :: _ => contiguous_from (e_idx e0) l end = true.
Proof.
  destruct l as [|e l]; [reflexivity|]. intro H.
  pose proof (contig_first_idx _ _ _ H) as ->. assumption.
Qed.

(* ---- filters of a contiguous log *)

Lemma filter_false {A} (p : A -> bool) l : (forall x, In x l -> p x = false) -> filter p l = [].
Proof.
  induction l as [|x l IH]; intro H; [reflexivity|].
  cbn [filter]. rewrite (H x (or_introl eq_refl)). apply IH. intros y Hy. apply H. right. assumption.
Qed.

Lemma filter_true {A} (p : A -> bool) l : (forall x, In x l -> p x = true) -> filter p l = l.
Proof.
  induction l as [|x l IH]; intro H; [reflexivity|].
  cbn [filter]. rewrite (H x (or_introl eq_refl)). f_equal. apply IH. intros y Hy. apply H. right. assumption.
Qed.

(* the index window of loadEntries / memoryStore.Entries *)
Definition in_window (lo hi : N) (i : N) : bool := (lo <=? i) && ((hi =? 0) || (i <? hi)).

Lemma filter_window a l lo hi :
  contiguous_from a l = true ->
  filter (fun e => in_window lo hi (e_idx e)) l =
  firstn (N.to_nat ((if hi =? 0 then a + len l else hi) - N.max lo a))
         (skipn (N.to_nat (lo - a)) l).
Proof.
  revert a. induction l as [|e l IH]; intros a H.
  - cbn [filter]. rewrite skipn_nil, firstn_nil. reflexivity.
  - apply contig_cons in H. destruct H as [He Hl]. cbn [filter]. rewrite len_cons.
    specialize (IH _ Hl). unfold in_window at 1. rewrite He.
    destruct (lo <=? a) eqn:Hlo.
    + replace (N.to_nat (lo - a)) with O by lia. cbn [skipn].
      replace (N.max lo a) with a by lia.
      destruct ((hi =? 0) || (a <? hi)) eqn:Hhi; cbn [andb].
      * rewrite IH.
        replace (N.to_nat (lo - (a + 1))) with O by lia. cbn [skipn].
        replace (N.max lo (a + 1)) with (a + 1) by lia.
        destruct (hi =? 0) eqn:Hz.
        -- replace (N.to_nat (a + (len l + 1) - a)) with (S (N.to_nat (a + 1 + len l - (a + 1)))) by lia.
           reflexivity.
        -- cbn [orb] in Hhi.
           replace (N.to_nat (hi - a)) with (S (N.to_nat (hi - (a + 1)))) by lia. reflexivity.
      * apply orb_false_iff in Hhi. destruct Hhi as [Hz Hlt]. rewrite Hz.
        replace (N.to_nat (hi - a)) with O by lia. cbn [firstn].
        apply filter_false. intros x Hx. pose proof (contig_in _ _ _ Hl Hx).
        unfold in_window. rewrite Hz. cbn [orb]. lia.
    + cbn [andb]. rewrite IH.
      replace (N.max lo a) with lo by lia. replace (N.max lo (a + 1)) with lo by lia.
      replace (N.to_nat (lo - a)) with (S (N.to_nat (lo - (a + 1)))) by lia. cbn [skipn].
      replace (a + 1 + len l) with (a + (len l + 1)) by lia. reflexivity.
Qed.

(* idx > x  (trimEntriesAfterSnapshot, filterEntriesAfterSnapshot, DeleteRange [.., x+1)) *)
Lemma filter_gt_skipn a l x :
  contiguous_from a l = true ->
  filter (fun e => x <? e_idx e) l = skipn (N.to_nat (x + 1 - a)) l.
Proof.
  intro H.
  rewrite (filter_ext _ (fun e => in_window (x + 1) 0 (e_idx e))).
  2:{ intro e. unfold in_window. cbn [N.eqb orb]. rewrite andb_true_r. lia. }
  rewrite (filter_window a l (x + 1) 0 H). cbn [N.eqb].
  apply firstn_all3. rewrite skipn_length. unfold len. lia.
Qed.

(* idx < f  (DeleteRange [f, end), the cut of replaceEntriesFromIndex) *)
Lemma filter_lt_firstn a l f :
  contiguous_from a l = true ->
  filter (fun e => negb (f <=? e_idx e)) l = firstn (N.to_nat (f - a)) l.
Proof.
  intro H. destruct (f =? 0) eqn:Hf.
  - replace (N.to_nat (f - a)) with O by lia. cbn [firstn]. apply filter_false. intros. lia.
  - rewrite (filter_ext _ (fun e => in_window 0 f (e_idx e))).
    2:{ intro e. unfold in_window. rewrite Hf. cbn [orb]. lia. }
    rewrite (filter_window a l 0 f H). rewrite Hf.
    replace (N.to_nat (0 - a)) with O by lia. cbn [skipn].
    replace (N.max 0 a) with a by lia. reflexivity.
Qed.

Lemma take_below_firstn a l f :
  contiguous_from a l = true -> take_below f l = firstn (N.to_nat (f - a)) l.
Proof.
  revert a. induction l as [|e l IH]; intros a H.
  - rewrite firstn_nil. reflexivity.
  - apply contig_cons in H. destruct H as [He Hl]. cbn [take_below]. rewrite He.
    destruct (f <=? a) eqn:Hf.
    + replace (N.to_nat (f - a)) with O by lia. reflexivity.
    + replace (N.to_nat (f - a)) with (S (N.to_nat (f - (a + 1)))) by lia.
      cbn [firstn]. f_equal. apply IH. assumption.
Qed.

Lemma cloneCached_idx e : e_idx (cloneCachedEntry e) = e_idx e.
Proof. unfold cloneCachedEntry. destruct (is_cc_typ (e_typ e)); reflexivity. Qed.

Lemma take_below_map_clone f l :
  take_below f (map cloneCachedEntry l) = map cloneCachedEntry (take_below f l).
Proof.
  induction l as [|e l IH]; [reflexivity|].
  cbn [map take_below]. rewrite cloneCached_idx. destruct (f <=? e_idx e); [reflexivity|].
  cbn [map]. f_equal. assumption.
Qed.

Lemma filter_map_clone (p : N -> bool) l :
  filter (fun e => p (e_idx e)) (map cloneCachedEntry l) =
  map cloneCachedEntry (filter (fun e => p (e_idx e)) l).
Proof.
  induction l as [|e l IH]; [reflexivity|].
  cbn [map filter]. rewrite cloneCached_idx. destruct (p (e_idx e)); cbn [map]; rewrite IH; reflexivity.
Qed.

(* ---- rows: Set of entries at the tail *)

Lemma row_put_tail a l e :
  contiguous_from a l = true -> e_idx e = a + len l -> row_put e l = l ++ [e].
Proof.
  revert a. induction l as [|x l IH]; intros a H He; [reflexivity|].
  apply contig_cons in H. destruct H as [Hx Hl]. rewrite len_cons in He.
  cbn [row_put app]. rewrite Hx.
  replace (e_idx e <? a) with false by lia. replace (e_idx e =? a) with false by lia.
  f_equal. apply (IH (a + 1)); [assumption|lia].
Qed.

Lemma fold_row_put_tail a l es :
  contiguous_from a l = true -> contiguous_from (a + len l) es = true ->
  fold_left (fun acc e => row_put e acc) es l = l ++ es.
Proof.
  revert l. induction es as [|e es IH]; intros l Hl Hes.
  - rewrite app_nil_r. reflexivity.
  - apply contig_cons in Hes. destruct Hes as [He Hes]. cbn [fold_left].
    rewrite (row_put_tail a l e Hl He).
    rewrite IH.
    + rewrite <- app_assoc. reflexivity.
    + apply contig_app. split; [assumption|]. apply contig_cons. split; [assumption|reflexivity].
    + rewrite len_app, len_cons, len_nil. replace (a + (len l + (0 + 1))) with (a + len l + 1) by lia. assumption.
Qed.

Lemma row_get_contig a l i :
  contiguous_from a l = true ->
  row_get i l = if (a <=? i) && (i <? a + len l) then nth_error l (N.to_nat (i - a)) else None.
Proof.
  revert a. induction l as [|x l IH]; intros a H.
  - rewrite len_nil. cbn [row_get find]. destruct ((a <=? i) && (i <? a + 0)) eqn:E; [lia|reflexivity].
  - apply contig_cons in H. destruct H as [Hx Hl]. rewrite len_cons.
    unfold row_get in *. cbn [find]. rewrite Hx.
    destruct (a =? i) eqn:Hai.
    + replace ((a <=? i) && (i <? a + (len l + 1))) with true by lia.
      replace (N.to_nat (i - a)) with O by lia. reflexivity.
    + rewrite (IH _ Hl).
      destruct ((a + 1 <=? i) && (i <? a + 1 + len l)) eqn:E.
      * replace ((a <=? i) && (i <? a + (len l + 1))) with true by lia.
        replace (N.to_nat (i - a)) with (S (N.to_nat (i - (a + 1)))) by lia. reflexivity.
      * replace ((a <=? i) && (i <? a + (len l + 1))) with false by lia. reflexivity.
Qed.

Lemma find_idx_contig a l i :
  contiguous_from a l = true ->
  find (fun e => e_idx e =? i) l =
  if (a <=? i) && (i <? a + len l) then nth_error l (N.to_nat (i - a)) else None.
Proof. exact (row_get_contig a l i). Qed.

(* ---- last index *)

Lemma last_idx_of_app l e : last_idx_of (l ++ [e]) = Some (e_idx e).
Proof. unfold last_idx_of. rewrite rev_app_distr. reflexivity. Qed.

Lemma last_idx_of_contig a l :
  contiguous_from a l = true ->
  last_idx_of l = match l with [] => None | _ => Some (a + len l - 1) end.
Proof.
  intro H. destruct l as [|x l] using rev_ind; [reflexivity|].
  rewrite last_idx_of_app.
  apply contig_app in H. destruct H as [_ H]. apply contig_cons in H. destruct H as [Hx _].
  destruct (l ++ [x]) eqn:E; [destruct l; discriminate|]. rewrite <- E.
  rewrite len_app, len_cons, len_nil. f_equal. lia.
Qed.

Lemma last_idx_of_map_clone l : last_idx_of (map cloneCachedEntry l) = last_idx_of l.
Proof.
  unfold last_idx_of. rewrite <- map_rev. destruct (rev l); [reflexivity|].
  cbn [map]. rewrite cloneCached_idx. reflexivity.
Qed.

(* ---- the size window returns a prefix *)

Lemma limit_size_from_prefix mx n sz l : exists k, limit_size_from mx n sz l = firstn k l.
Proof.
  revert n sz. induction l as [|e l IH]; intros n sz.
  - exists O. reflexivity.
  - cbn [limit_size_from].
    destruct ((0 <? mx) && match n with O => false | S _ => true end && (mx <? sz + entry_size e)).
    + exists O. reflexivity.
    + destruct (IH (S n) (sz + entry_size e)) as [k Hk]. exists (S k). cbn [firstn]. rewrite Hk. reflexivity.
Qed.

Lemma limit_size_prefix mx l : exists k, limit_size mx l = firstn k l.
Proof. apply limit_size_from_prefix. Qed.

Lemma firstn_In {A} (l : list A) k x : In x (firstn k l) -> In x l.
Proof.
  revert k. induction l as [|y l IH]; intros k H; destruct k; cbn [firstn] in H; try destruct H.
  - left. assumption.
  - right. eapply IH. eassumption.
Qed.

Lemma skipn_In {A} (l : list A) k x : In x (skipn k l) -> In x l.
Proof.
  revert k. induction l as [|y l IH]; intros k H; destruct k; cbn [skipn] in H; try assumption.
  right. eapply IH. eassumption.
Qed.

(* ---- conf states *)

Lemma cs_insert_last c v :
  (forall x, In x c -> x < v) -> cs_insert v c = c ++ [v].
Proof.
  induction c as [|x c IH]; intro H; [reflexivity|].
  cbn [cs_insert app]. pose proof (H x (or_introl eq_refl)).
  replace (v <? x) with false by lia. replace (v =? x) with false by lia.
  f_equal. apply IH. intros y Hy. apply H. right. assumption.
Qed.

Lemma strictly_sorted_cons x c :
  strictly_sorted (x :: c) = true -> (forall y, In y c -> x < y) /\ strictly_sorted c = true.
Proof.
  revert x. induction c as [|z c IH]; intros x H.
  - split; [intros y []|reflexivity].
  - cbn [strictly_sorted] in H. apply andb_true_iff in H. destruct H as [Hxz Hc].
    split; [|exact Hc]. intros y [<-|Hy]; [lia|].
    destruct (IH z Hc) as [Hz _]. specialize (Hz y Hy). lia.
Qed.

Lemma restore_conf_sorted acc vs :
  acc <> [] \/ vs <> [] ->
  (forall v, In v vs -> 0 < v) ->
  strictly_sorted vs = true ->
  (forall x v, In x acc -> In v vs -> x < v) ->
  restore_conf acc vs = Some (acc ++ vs).
Proof.
  revert acc. induction vs as [|v vs IH]; intros acc Hne Hpos Hs Hlt.
  - rewrite app_nil_r. reflexivity.
  - cbn [restore_conf]. unfold apply_cc. cbn [fst snd].
    pose proof (Hpos v (or_introl eq_refl)).
    replace (v =? 0) with false by lia. rewrite N.eqb_refl.
    rewrite (cs_insert_last acc v).
    2:{ intros x Hx. apply Hlt; [assumption|left; reflexivity]. }
    destruct (acc ++ [v]) eqn:E; [destruct acc; discriminate|]. rewrite <- E.
    destruct (strictly_sorted_cons _ _ Hs) as [Hv Hs'].
    rewrite IH.
    + rewrite <- app_assoc. reflexivity.
    + left. rewrite E. discriminate.
    + intros. apply Hpos. right. assumption.
    + assumption.
    + intros x w Hx Hw. apply in_app_or in Hx. destruct Hx as [Hx|[<-|[]]].
      * apply Hlt; [assumption|right; assumption].
      * apply Hv. assumption.
Qed.

Lemma conf_ok_restore c : conf_ok c = true -> restore_conf [] c = Some c.
Proof.
  intro H. destruct c as [|x c]; [discriminate|].
  unfold conf_ok in H. apply andb_true_iff in H. destruct H as [Hx Hs].
  rewrite restore_conf_sorted; [reflexivity|right; discriminate| |assumption|intros ? ? []].
  intros v [<-|Hv]; [lia|].
  destruct (strictly_sorted_cons _ _ Hs) as [Hlt _]. specialize (Hlt v Hv). lia.
Qed.

(* deriveConfState does not look at payloads: the cached tail gives the same answer *)
Lemma derive_entries_clone c last cm l :
  derive_entries c last cm (map cloneCachedEntry l) = derive_entries c last cm l.
Proof.
  revert c. induction l as [|e l IH]; intro c; [reflexivity|].
  cbn [map derive_entries]. rewrite cloneCached_idx.
  assert (Ht : e_typ (cloneCachedEntry e) = e_typ e)
    by (unfold cloneCachedEntry; destruct (is_cc_typ (e_typ e)); reflexivity).
  assert (Hc : e_cc (cloneCachedEntry e) = e_cc e)
    by (unfold cloneCachedEntry; destruct (is_cc_typ (e_typ e)); reflexivity).
  rewrite Ht, Hc.
  destruct ((e_idx e <=? last) || (cm <? e_idx e)); [apply IH|].
  destruct (e_typ e =? c14_EntryConfChange); [|apply IH].
  destruct (e_cc e) as [cc|]; [|reflexivity].
  destruct (apply_cc c cc); [apply IH|reflexivity].
Qed.

Lemma deriveConfState_clone sm l cm :
  deriveConfState sm (map cloneCachedEntry l) cm = deriveConfState sm l cm.
Proof.
  unfold deriveConfState.
  destruct (match (if sm_idx sm =? 0 then [] else sm_conf sm) with [] => Some [] | _ :: _ => _ end); [|reflexivity].
  apply derive_entries_clone.
Qed.

(* entries at or below [last] play no role *)
Lemma derive_entries_skip c last cm l k :
  (forall e, In e (firstn k l) -> e_idx e <= last) ->
  derive_entries c last cm l = derive_entries c last cm (skipn k l).
Proof.
  revert k. induction l as [|e l IH]; intros k H; destruct k; try reflexivity.
  cbn [skipn derive_entries]. cbn [firstn] in H.
  pose proof (H e (or_introl eq_refl)).
  replace (e_idx e <=? last) with true by lia. cbn [orb].
  apply IH. intros x Hx. apply H. right. assumption.
Qed.

(* ---- eqb reflexivity *)

Lemma list_eqb_refl {A} (eqb : A -> A -> bool) (H : forall x, eqb x x = true) l : list_eqb eqb l l = true.
Proof. induction l as [|x l IH]; [reflexivity|]. cbn [list_eqb]. rewrite H, IH. reflexivity. Qed.

Lemma conf_eqb_refl c : conf_eqb c c = true.
Proof. apply list_eqb_refl. apply N.eqb_refl. Qed.
Lemma bytes_eqb_refl b : bytes_eqb b b = true.
Proof. apply list_eqb_refl. apply N.eqb_refl. Qed.
Lemma hs_eqb_refl h : hs_eqb h h = true.
Proof. unfold hs_eqb. rewrite !N.eqb_refl. reflexivity. Qed.
Lemma cc_eqb_refl c : cc_eqb c c = true.
Proof. destruct c as [[a b]|]; cbn; [rewrite !N.eqb_refl|]; reflexivity. Qed.
Lemma entry_eqb_refl e : entry_eqb e e = true.
Proof. unfold entry_eqb. rewrite !N.eqb_refl, bytes_eqb_refl, cc_eqb_refl. reflexivity. Qed.
Lemma entries_eqb_refl l : entries_eqb l l = true.
Proof. apply list_eqb_refl. apply entry_eqb_refl. Qed.
Lemma snap_eqb_refl s : snap_eqb s s = true.
Proof. unfold snap_eqb. rewrite !N.eqb_refl, conf_eqb_refl, bytes_eqb_refl. reflexivity. Qed.
Lemma fullobs_eqb_refl o : fullobs_eqb o o = true.
Proof.
  unfold fullobs_eqb. rewrite hs_eqb_refl, conf_eqb_refl, !N.eqb_refl, snap_eqb_refl, entries_eqb_refl. reflexivity.
Qed.

Lemma conf_eqb_eq a b : conf_eqb a b = true <-> a = b.
Proof. apply list_eqb_spec. intros. apply N.eqb_eq. Qed.

Lemma snap_eqb_fields a b :
  snap_eqb a b = true ->
  s_idx a = s_idx b /\ s_term a = s_term b /\ s_conf a = s_conf b /\ s_data a = s_data b.
Proof.
  unfold snap_eqb. intro H. bdestr.
  repeat split; try (apply N.eqb_eq; assumption).
  - apply conf_eqb_eq. assumption.
  - apply bytes_eqb_eq. assumption.
Qed.
