(* Proof/MsgStore_C09.v — C09: storage mutations are crash-atomic (on the model).

   1. every API call commits AT MOST ONE batch, which carries all its rows,
      secondary indexes, checkpoint, epoch point and retention state; the store
      is the fold of the committed batches;
   2. with Pebble's contract (a synced batch is atomic and durable at return,
      batches become durable in commit order = Model/KV.v crash_states) a crash
      while a call is in flight recovers the store before or after that call, and
      after the call has returned it recovers the store after it;
   3. every such state is related to the plain sequential logs by [Rkv], so it
      has consistent indexes, a log end equal to the last row (or the retained
      maximum) and passes the monitor's [recovered_is] / [kv_inv]. *)
From WK Require Import Base.Base Model.KV Gen.Consts_C07 Model.MsgStore Model.MsgStore_C07 Model.MsgStore_C09
     Proof.KV Proof.MsgStore_base Proof.MsgStore_rel Proof.MsgStore_reads Proof.MsgStore_frame
     Proof.MsgStore_mut Proof.MsgStore_step Proof.MsgStore_ops Proof.MsgStore_C07 Proof.MsgStore_discard.
From Coq Require Import Sorting.Permutation Sorting.Sorted.

Section OneBatch.
  Variable F : Type.
  Variable f_empty : F.
  Variable f_may : F -> bytes * bytes -> bool.
  Variable f_add : F -> bytes * bytes -> F.

  Notation mstate := (mstate F).
  Notation st_kv := (st_kv F).
  Notation st_log := (st_log F).
  Notation step := (MsgStore.step F f_empty f_may f_add).
  Notation step_dump := (MsgStore.step_dump F f_empty f_may f_add).

  (* nothing committed, or exactly one batch *)
  Definition at_most_one (st st' : mstate) : Prop :=
    (st_kv st' = st_kv st /\ st_log st' = st_log st)
    \/ exists b, st_kv st' = kapply (st_kv st) b /\ st_log st' = st_log st ++ [b].

  Definition quiet (st st' : mstate) : Prop := st_kv st' = st_kv st /\ st_log st' = st_log st.

  Lemma quiet_refl st : quiet st st.
  Proof. split; reflexivity. Qed.

  Lemma quiet_trans a b c : quiet a b -> quiet b c -> quiet a c.
  Proof. intros [H1 H2] [H3 H4]. split; congruence. Qed.

  Lemma volatile_quiet st st' : volatile_only F st st' -> quiet st st'.
  Proof. intros [H1 [H2 _]]. split; assumption. Qed.

  Lemma quiet_then st a b : quiet st a -> at_most_one a b -> at_most_one st b.
  Proof.
    intros [H1 H2] [[H3 H4]|[x [H3 H4]]]; [left; split; congruence|right; exists x; split; congruence].
  Qed.

  Lemma then_quiet st a b : at_most_one st a -> quiet a b -> at_most_one st b.
  Proof.
    intros [[H3 H4]|[x [H3 H4]]] [H1 H2]; [left; split; congruence|right; exists x; split; congruence].
  Qed.

  Lemma loadLEO_quiet st c : quiet st (fst (loadLEOLocked F st c)).
  Proof. unfold MsgStore.loadLEOLocked. destruct (cc_loaded F (st_cache F st c)); split; reflexivity. Qed.

  Lemma set_leo_quiet st c leo : quiet st (set_leo F st c leo).
  Proof. split; reflexivity. Qed.

  Lemma commit_one st b : at_most_one st (commit F st b).
  Proof. right. exists b. split; reflexivity. Qed.

  Lemma commit_set_leo_one st c b leo : at_most_one st (set_leo F (commit F st b) c leo).
  Proof. eapply then_quiet; [apply commit_one|apply set_leo_quiet]. Qed.

  Lemma validate_quiet st c rows sn mode : quiet st (fst (validate_rows F f_may f_add st c rows sn mode)).
  Proof. apply volatile_quiet. apply validate_rows_volatile. Qed.

  Lemma walk_quiet st c recs mode base : quiet st (fst (walkAppendRowsLocked F f_may f_add st c recs mode base)).
  Proof.
    unfold walkAppendRowsLocked. destruct (negb (valid_mode mode)); [apply quiet_refl|].
    pose proof (loadLEO_quiet st c) as H. destruct (loadLEOLocked F st c) as [st1 leo]. cbn [fst] in H.
    destruct (_ && _); [exact H|]. destruct recs as [|x recs]; [exact H|].
    pose proof (validate_quiet st1 c (rows_from c (leo + 1) (x :: recs)) (Seen [] []) mode) as H2.
    destruct (validate_rows F f_may f_add st1 c _ _ mode) as [st2 [sn|e]]; cbn [fst] in *; eapply quiet_trans; eassumption.
  Qed.

  Lemma cbatch_items_quiet all items : forall st, quiet st (fst (fst (fst (cbatch_items F f_may f_add st all items)))).
  Proof.
    induction items as [|[[c m] recs] items IH]; intro st; cbn [cbatch_items fst]; [apply quiet_refl|].
    destruct (1 <? count_chan all c)%nat.
    { specialize (IH st). destruct (cbatch_items F f_may f_add st all items) as [[[st' rs] bs] ls]. exact IH. }
    pose proof (loadLEO_quiet st c) as H1. destruct (loadLEOLocked F st c) as [st1 base]. cbn [fst] in H1.
    destruct recs as [|x recs].
    { specialize (IH st1). destruct (cbatch_items F f_may f_add st1 all items) as [[[st' rs] bs] ls]. cbn [fst] in *.
      eapply quiet_trans; eassumption. }
    destruct (compatibilityRowsFromRecords c (base + 1) (x :: recs)) as [rows|e].
    2:{ specialize (IH st1). destruct (cbatch_items F f_may f_add st1 all items) as [[[st' rs] bs] ls]. cbn [fst] in *.
        eapply quiet_trans; eassumption. }
    pose proof (validate_quiet st1 c rows (Seen [] []) (if m =? 1 then AppendServerAllocatedMessageID else AppendStrict)) as H2.
    destruct (validate_rows F f_may f_add st1 c rows (Seen [] []) _) as [st2 [sn|e]]; cbn [fst] in H2;
      specialize (IH st2); destruct (cbatch_items F f_may f_add st2 all items) as [[[st' rs] bs] ls]; cbn [fst] in *;
      (eapply quiet_trans; [exact H1|]; eapply quiet_trans; eassumption).
  Qed.

  Lemma fold_set_leo_quiet ls : forall st, quiet st (fold_left (fun s cl => set_leo F s (fst cl) (snd cl)) ls st).
  Proof.
    induction ls as [|x ls IH]; intro st; cbn [fold_left]; [apply quiet_refl|].
    eapply quiet_trans; [apply set_leo_quiet|apply IH].
  Qed.

  (* every op but the paged DiscardForRestore *)
  Definition not_paged (o : op) : Prop := match o with ODiscard _ => False | _ => True end.

  (* one API call = at most one committed batch *)
  Theorem step_one_batch st o : not_paged o -> at_most_one st (fst (step st o)).
  Proof.
    intro Hnp. destruct o; cbn [MsgStore.step]; try contradiction.
    - (* Append *)
      unfold Append. pose proof (walk_quiet st c recs mode base) as H.
      destruct (walkAppendRowsLocked F f_may f_add st c recs mode base) as [st1 [[|r rows]|e]]; cbn [fst] in *;
        try (left; exact H). eapply quiet_then; [exact H|apply commit_set_leo_one].
    - (* ApplyFetch *)
      unfold ApplyFetch. pose proof (walk_quiet st c recs AppendTrustedContiguous base) as H.
      destruct (walkAppendRowsLocked F f_may f_add st c recs AppendTrustedContiguous base) as [st1 [rows|e]]; cbn [fst] in *;
        [|left; exact H].
      destruct (match ck with Some k => _ | None => ok tt end); [|left; exact H].
      destruct (match ep with Some (epoch, off) => _ | None => ok false end) as [we|e]; [|left; exact H].
      destruct rows as [|r rows]; [destruct ck; [|destruct we]|destruct ck; [|destruct we]]; cbn [fst];
        try (left; exact H); try (eapply quiet_then; [exact H|apply commit_one]);
        try (eapply quiet_then; [exact H|apply commit_set_leo_one]).
    - (* CAppend *)
      unfold CAppend. pose proof (loadLEO_quiet st c) as H. destruct (loadLEOLocked F st c) as [st1 base]. cbn [fst] in H.
      destruct recs as [|x recs]; [left; exact H|].
      destruct (compatibilityRowsFromRecords c (base + 1) (x :: recs)) as [rows|e]; [|left; exact H].
      pose proof (validate_quiet st1 c rows (Seen [] []) mode) as H2.
      destruct (validate_rows F f_may f_add st1 c rows (Seen [] []) mode) as [st2 [sn|e]]; cbn [fst] in *.
      + eapply quiet_then; [eapply quiet_trans; eassumption|apply commit_set_leo_one].
      + left. eapply quiet_trans; eassumption.
    - (* CBatch *)
      unfold CBatch. pose proof (cbatch_items_quiet items items st) as H.
      destruct (cbatch_items F f_may f_add st items items) as [[[st1 rs] bs] ls]. cbn [fst] in H.
      destruct bs as [|b bs]; cbn [fst]; [left; exact H|].
      eapply quiet_then; [exact H|]. eapply then_quiet; [apply commit_one|apply fold_set_leo_quiet].
    - (* TruncateFrom *)
      unfold TruncateFrom. pose proof (loadLEO_quiet st c) as H. destruct (loadLEOLocked F st c) as [st1 leo]. cbn [fst] in H.
      destruct (leo <? _); [left; exact H|].
      destruct (retentionStateAfterTruncate _ c _); [|left; exact H].
      destruct (readForward _ c _ 0 0 0); [|left; exact H]. cbn [fst].
      eapply quiet_then; [exact H|apply commit_set_leo_one].
    - unfold CTruncate. pose proof (loadLEO_quiet st c) as H. destruct (loadLEOLocked F st c) as [st1 leo]. cbn [fst] in H.
      destruct (leo <? to); [left; exact H|]. destruct (to =? leo); [left; exact H|].
      destruct (retentionStateAfterTruncate _ c to); [|left; exact H].
      destruct (readForward _ c _ 0 0 0); [|left; exact H]. cbn [fst].
      eapply quiet_then; [exact H|apply commit_set_leo_one].
    - unfold TrimPrefixThroughLimit. destruct (through =? 0); [left; apply quiet_refl|].
      pose proof (loadLEO_quiet st c) as H. destruct (loadLEOLocked F st c) as [st1 leo]. cbn [fst] in H.
      destruct (match loadRetentionState _ c with Some x => x | None => (0, 0, 0) end) as [[l0 p0] r0].
      destruct (readForward _ c _ through _ _); [|left; exact H]. cbn [fst].
      eapply quiet_then; [exact H|apply commit_set_leo_one].
    - unfold StoreCheckpoint. destruct (validateCheckpoint _); [apply commit_one|left; apply quiet_refl].
    - unfold StoreCheckpointMonotonic. destruct (validateCheckpointMonotonicLocked _ c _ _ _); [|left; apply quiet_refl].
      unfold StoreCheckpoint. destruct (validateCheckpoint _); [apply commit_one|left; apply quiet_refl].
    - left. split; reflexivity.
    - left. split; reflexivity.
    - left. split; reflexivity.
    - unfold ReadReverse. destruct (fromSeq =? 0).
      + pose proof (loadLEO_quiet st c) as H. destruct (loadLEOLocked F st c) as [st1 leo]. cbn [fst] in H.
        destruct (readForward _ c 1 leo 0 0); left; exact H.
      + destruct (readForward _ c 1 fromSeq 0 0); left; apply quiet_refl.
    - left. split; reflexivity.
    - left. split; reflexivity.
    - left. split; reflexivity.
    - left. split; reflexivity.
    - left. split; reflexivity.
    - pose proof (loadLEO_quiet st c) as H. destruct (loadLEOLocked F st c) as [st1 leo]. left. exact H.
    - left. split; reflexivity.
    - left. split; reflexivity.
    - left. split; reflexivity.
  Qed.

  Lemma dump_chan_quiet st c nr : quiet st (fst (dump_chan F st c nr)).
  Proof. unfold dump_chan. pose proof (loadLEO_quiet st c) as H. destruct (loadLEOLocked F st c) as [st1 leo]. exact H. Qed.

  Lemma dump_chans_quiet cs : forall st, quiet st (fst (dump_chans F st cs)).
  Proof.
    induction cs as [|c cs IH]; intro st; cbn [dump_chans fst]; [apply quiet_refl|].
    pose proof (dump_chan_quiet st c None) as H1. destruct (dump_chan F st c None) as [st1 d]. cbn [fst] in H1.
    pose proof (IH st1) as H2. destruct (dump_chans F st1 cs) as [st2 ds]. cbn [fst] in *. eapply quiet_trans; eassumption.
  Qed.

  Theorem step_dump_one_batch compact st o : not_paged o -> at_most_one st (fst (fst (step_dump compact st o))).
  Proof.
    intro Hnp. unfold MsgStore.step_dump. pose proof (step_one_batch st o Hnp) as H. destruct (step st o) as [st1 x]. cbn [fst] in H.
    assert (Hq : quiet st1 (fst (match o with
              | OReopen => dump_chans F st1 all_chans
              | OCBatch _ => if compact then (st1, []) else dump_chans F st1 all_chans
              | _ => if is_mutation o && negb compact
                     then let '(st2, d) := dump_chan F st1 (op_chan o) (new_range o x) in (st2, [d])
                     else (st1, [])
              end))).
    { destruct o; try apply dump_chans_quiet;
        try (destruct compact; cbn [is_mutation andb negb fst]; [apply quiet_refl|]);
        try (cbn [is_mutation andb fst]; apply quiet_refl);
        try (pose proof (dump_chan_quiet st1 (op_chan (OAppend 0 0 0 [])) None); fail);
        try (match goal with |- context [dump_chan F st1 ?c ?nr] =>
               pose proof (dump_chan_quiet st1 c nr) as H2; destruct (dump_chan F st1 c nr) as [st2 d]; exact H2 end);
        try apply dump_chans_quiet. }
    destruct (match o with
              | OReopen => dump_chans F st1 all_chans
              | OCBatch _ => if compact then (st1, []) else dump_chans F st1 all_chans
              | _ => if is_mutation o && negb compact
                     then let '(st2, d) := dump_chan F st1 (op_chan o) (new_range o x) in (st2, [d])
                     else (st1, [])
              end) as [st2 ds]. cbn [fst] in *. eapply then_quiet; eassumption.
  Qed.

  (* the store is the fold of the committed batches *)
  Definition kv_is_log (st : mstate) : Prop := st_kv st = run_batches key_eqb [] (st_log st).

  Lemma kv_is_log_init : kv_is_log (st_init F f_empty).
  Proof. reflexivity. Qed.

  Lemma kv_is_log_step st st' : at_most_one st st' -> kv_is_log st -> kv_is_log st'.
  Proof.
    unfold kv_is_log. intros [[H1 H2]|[b [H1 H2]]] H; [congruence|].
    rewrite H1, H2, H. unfold kapply, run_batches. rewrite fold_left_app. reflexivity.
  Qed.

  (* EVERY call (the paged one included) changes the store only through the list
     of batches it commits, in order *)
  Definition many (st st' : mstate) : Prop :=
    exists bs, st_log st' = st_log st ++ bs /\ st_kv st' = run_batches key_eqb (st_kv st) bs.

  Theorem step_batches st o : many st (fst (step st o)).
  Proof.
    destruct o;
      try (match goal with |- many st (fst (step st ?o)) =>
             destruct (step_one_batch st o I) as [[H1 H2]|[b [H1 H2]]];
             [exists []; rewrite app_nil_r; split; assumption|exists [b]; split; [exact H2|exact H1]] end).
    cbn [MsgStore.step]. pose proof (discard_log F st c) as H. destruct (DiscardForRestore F st c) as [st' r]. exact H.
  Qed.

  Lemma kv_is_log_many st st' : many st st' -> kv_is_log st -> kv_is_log st'.
  Proof.
    unfold kv_is_log. intros [bs [H1 H2]] H. rewrite H1, H2, H. symmetry. apply run_batches_app.
  Qed.

  (* a stop while ANY call is in flight recovers the store after some prefix of the
     batches of that call (for a one-batch call: before or after it) *)
  Theorem crash_in_flight_many st o s :
    kv_is_log st ->
    crash_states key_eqb [] (st_log (fst (step st o))) (length (st_log st)) s ->
    exists bs k, st_log (fst (step st o)) = st_log st ++ bs /\ (k <= length bs)%nat
                 /\ s = run_batches key_eqb (st_kv st) (firstn k bs).
  Proof.
    intros Hk [k [Hk1 ->]]. destruct (step_batches st o) as [bs [H1 H2]]. exists bs, (k - length (st_log st))%nat.
    split; [exact H1|]. rewrite H1, app_length in Hk1. split; [lia|].
    unfold crash_state. rewrite H1, firstn_app, firstn_all2 by lia.
    unfold kbatch. rewrite run_batches_app. rewrite <- Hk. reflexivity.
  Qed.

  (* ---- crash states ------------------------------------------------------------------------------------------------------- *)

  (* Pebble's contract (trusted, Model/KV.v): after a stop the store recovers to
     [crash_state [] log k] for some k between the number of batches whose Commit
     had returned and the number of batches issued. *)

  (* a crash while call [o] is in flight (everything before it has returned)
     recovers the store before the call or the store after it: the call is
     entirely present or entirely absent *)
  Theorem crash_in_flight st o s :
    not_paged o ->
    kv_is_log st ->
    crash_states key_eqb [] (st_log (fst (step st o))) (length (st_log st)) s ->
    s = st_kv st \/ s = st_kv (fst (step st o)).
  Proof.
    intros Hnp Hk [k [Hk1 ->]]. unfold crash_state.
    destruct (step_one_batch st o Hnp) as [[H1 H2]|[b [H1 H2]]]; rewrite H2 in Hk1 |- *.
    - left. assert (E : k = length (st_log st)) by (destruct Hk1 as [A B]; apply Nat.le_antisymm; assumption). rewrite E, firstn_all. symmetry. exact Hk.
    - rewrite app_length in Hk1. cbn [length] in Hk1.
      assert (Hc : k = length (st_log st) \/ k = (length (st_log st) + 1)%nat).
      { destruct Hk1 as [A B]. apply Nat.le_lteq in A. destruct A as [A|A]; [right; apply Nat.le_antisymm; [exact B|rewrite Nat.add_1_r; exact A]|left; symmetry; exact A]. }
      destruct Hc as [E|E]; rewrite E.
      + left. rewrite firstn_app, Nat.sub_diag, firstn_all. cbn [firstn]. rewrite app_nil_r. symmetry. exact Hk.
      + right. rewrite firstn_all2 by (rewrite app_length; cbn [length]; lia).
        rewrite H1, Hk. unfold kapply, run_batches. rewrite fold_left_app. reflexivity.
  Qed.

  (* a crash after the call has returned recovers the store after it: what was
     reported durable is present *)
  Theorem crash_after_return st o s :
    kv_is_log st ->
    crash_states key_eqb [] (st_log (fst (step st o))) (length (st_log (fst (step st o)))) s ->
    s = st_kv (fst (step st o)).
  Proof.
    intros Hk [k [Hk1 ->]]. assert (k = length (st_log (fst (step st o)))) by (destruct Hk1 as [A B]; apply Nat.le_antisymm; assumption). subst.
    unfold crash_state. rewrite firstn_all. symmetry. apply (kv_is_log_many st); [apply step_batches|exact Hk].
  Qed.

  (* whatever the recovered store is, reopening on it gives a state related to the
     plain logs whenever the store was: all C07 consequences (consistent indexes,
     log end = last row or retained maximum, reads total) hold after recovery *)
  Theorem recovered_related kv s log :
    Rkv kv s -> R F (MS F kv (fun _ => cc_init F f_empty) log) s.
  Proof. intro H. split; [exact H|]. intros c Hl. discriminate Hl. Qed.
End OneBatch.

(* ---- 3. the monitor accepts the model's crash observations ----------------------------------------------------------------- *)

Definition leos_of (kv : kvs) : list N := map (recoverLEO kv) all_chans.

Lemma nth_leos kv c : In c all_chans -> nth_or 0 (N.to_nat c) (leos_of kv) = recoverLEO kv c.
Proof. intros [<-|[<-|[<-|[]]]]; reflexivity. Qed.

Lemma recovered_is_ok kv s : Rkv kv s -> recovered_is kv (leos_of kv) s = true.
Proof.
  intro HR. unfold recovered_is. apply forallb_forall. intros c Hc.
  destruct (rk_chan _ _ HR c) as [rows Rc].
  rewrite (Rchan_rows_of _ _ _ _ (rk_wf _ _ HR) Rc), (Rchan_amsgs _ _ _ _ Rc), msgs_eqb_refl.
  rewrite (nth_leos kv c Hc), (rc_leo _ _ _ _ Rc), N.eqb_refl.
  rewrite (rc_ck _ _ _ _ Rc), (option_eqb_refl triple_eqb triple_eqb_refl).
  rewrite (rc_hist _ _ _ _ Rc), (list_eqb_refl npair_eqb npair_eqb_refl). reflexivity.
Qed.

Lemma has_key_true kv k : has kv k -> has_key kv k = true.
Proof. unfold has, has_key. destruct (kget k kv); [reflexivity|intro H; contradiction]. Qed.

Lemma mem_N_true x l : In x l -> mem_N x l = true.
Proof. intro H. unfold mem_N. apply existsb_exists. exists x. split; [exact H|apply N.eqb_refl]. Qed.

Lemma chk_entry_ok kv s k v : Rkv kv s -> kget k kv = Some v -> chk_entry kv s (k, v) = true.
Proof.
  intros HR G. destruct k as [c q|i|c n q|c n u|c u q|c|c|c o e|c|c i]; cbn [chk_entry]; try reflexivity.
  - (* row *)
    destruct v as [r| | | | |]; try reflexivity.
    destruct (rk_chan _ _ HR c) as [rows Rc]. pose proof G as G0. apply Rc in G. destruct G as [Hin Hs].
    assert (Hok : row_ok c r) by (eapply Forall_forall; [apply Rc|exact Hin]). destruct Hok as [Hch [Hid [Hh Hpos]]].
    assert (Ea : (r_seq r =? q) = true) by (apply N.eqb_eq; exact Hs).
    assert (Eb0 : (r_ch r =? c) = true) by (apply N.eqb_eq; exact Hch).
    assert (Ec0 : (r_hash r =? hashPayload (r_payload r)) = true) by (apply N.eqb_eq; exact Hh).
    rewrite Ea, Eb0, Ec0. cbn [andb].
    assert (E1 : negb (r_id r =? 0) = true) by (apply negb_true_iff; apply N.eqb_neq; exact Hid). rewrite E1.
    assert (E2 : (1 <=? q) = true) by (apply N.leb_le; lia). rewrite E2.
    rewrite (mem_N_true c all_chans (rk_co _ _ HR _ _ _ G0)). cbn [andb].
    assert (E3 : (mem_N (r_id r) (as_tids s)
                  || match kget (KyGid (r_id r)) kv with Some (VGid c' q') => (c' =? c) && (q' =? q) | _ => false end) = true).
    { destruct (mem_N (r_id r) (as_tids s)) eqn:Em; [reflexivity|]. cbn [orb].
      rewrite (rk_gc _ _ HR _ _ _ G0); [rewrite !N.eqb_refl; reflexivity|].
      intro Hin'. apply mem_N_true in Hin'. rewrite Hin' in Em. discriminate. }
    rewrite E3. cbn [andb].
    assert (E4 : (negb (negb (is_nil (r_cno r)) && is_nil (r_uid r)) || has_key kv (KyCidx c (r_cno r) q)) = true).
    { destruct (negb (is_nil (r_cno r)) && is_nil (r_uid r)) eqn:Ec; [|reflexivity]. cbn [negb orb].
      apply andb_true_iff in Ec. destruct Ec as [Ec1 Ec2]. apply negb_true_iff, is_nil_false in Ec1. apply is_nil_true in Ec2.
      apply has_key_true. apply (rc_cidx _ _ _ _ Rc). exists r. repeat split; assumption. }
    rewrite E4. cbn [andb].
    assert (E5 : (negb (both_nonempty (r_uid r) (r_cno r)) || pair_tainted (as_log s c) (r_uid r) (r_cno r)
                  || match kget (KyIdem c (r_cno r) (r_uid r)) kv with
                     | Some (VIdem q' i' h') => (q' =? q) && (i' =? r_id r) && (h' =? r_hash r)
                     | _ => false end) = true).
    { unfold both_nonempty. destruct (negb (is_nil (r_uid r)) && negb (is_nil (r_cno r))) eqn:Eb; [|reflexivity]. cbn [negb orb].
      destruct (pair_tainted (as_log s c) (r_uid r) (r_cno r)) eqn:Et; [reflexivity|]. cbn [orb].
      apply andb_true_iff in Eb. destruct Eb as [Eb1 Eb2]. apply negb_true_iff, is_nil_false in Eb1, Eb2.
      rewrite (rc_idem_complete _ _ _ _ Rc r Hin Eb1 Eb2 Et), Hs, !N.eqb_refl. reflexivity. }
    rewrite E5. cbn [andb].
    assert (E6 : (negb (negb (is_nil (r_uid r)) && (N.land (r_flags r) syncOnceFlag =? 0)) || has_key kv (KySseq c (r_uid r) q)) = true).
    { destruct (negb (is_nil (r_uid r)) && (N.land (r_flags r) syncOnceFlag =? 0)) eqn:Ec; [|reflexivity]. cbn [negb orb].
      apply andb_true_iff in Ec. destruct Ec as [Ec1 Ec2]. apply negb_true_iff, is_nil_false in Ec1. apply N.eqb_eq in Ec2.
      apply has_key_true. apply (rc_sseq _ _ _ _ Rc). exists r. repeat split; assumption. }
    rewrite E6. cbn [andb].
    pose proof (rc_ret _ _ _ _ Rc) as Hrt. destruct (loadRetentionState kv c) as [[[l p] rm]|]; [|reflexivity].
    destruct Hrt as [_ [_ [_ [_ Hp]]]]. eapply Forall_forall in Hp; [|exact Hin]. apply N.ltb_lt. lia.
  - (* gid *)
    destruct v as [|c q| | | |]; try reflexivity.
    destruct (rk_gs _ _ HR _ _ _ G) as [r [Gr Hi]]. rewrite Gr. apply N.eqb_eq. exact Hi.
  - (* cidx *)
    destruct (rk_chan _ _ HR c) as [rows Rc].
    assert (Hh : has kv (KyCidx c n q)) by (unfold has; rewrite G; discriminate).
    apply (rc_cidx _ _ _ _ Rc) in Hh. destruct Hh as [r [Hin [Hs [Hn [Hne Hu]]]]].
    assert (Gr : kget (KyRow c q) kv = Some (VRow r)) by (apply Rc; split; assumption). rewrite Gr.
    rewrite Hn, bytes_eqb_refl, Hu. apply is_nil_false in Hne. rewrite Hne. reflexivity.
  - (* idem *)
    destruct v as [| | |q i h| |]; try reflexivity.
    destruct (rk_chan _ _ HR c) as [rows Rc].
    destruct (rc_idem_sound _ _ _ _ Rc _ _ _ _ _ G) as [r [Hin [Hs [Hn [Hu [Hi [Hh [Hne Hue]]]]]]]].
    assert (Gr : kget (KyRow c q) kv = Some (VRow r)) by (apply Rc; split; assumption). rewrite Gr.
    rewrite Hn, Hu, Hi, Hh, !bytes_eqb_refl, !N.eqb_refl. apply is_nil_false in Hne, Hue. rewrite Hne, Hue. reflexivity.
  - (* sseq *)
    destruct (rk_chan _ _ HR c) as [rows Rc].
    assert (Hh : has kv (KySseq c u q)) by (unfold has; rewrite G; discriminate).
    apply (rc_sseq _ _ _ _ Rc) in Hh. destruct Hh as [r [Hin [Hs [Hu [Hne Hf]]]]].
    assert (Gr : kget (KyRow c q) kv = Some (VRow r)) by (apply Rc; split; assumption). rewrite Gr.
    rewrite Hu, bytes_eqb_refl, Hf, N.eqb_refl. apply is_nil_false in Hne. rewrite Hne. reflexivity.
  - (* retention *)
    destruct v as [| | | |l p rm|]; try reflexivity.
    destruct (rk_chan _ _ HR c) as [rows Rc]. pose proof (rc_ret _ _ _ _ Rc) as Hrt.
    unfold loadRetentionState in Hrt. rewrite G in Hrt. destruct Hrt as [H1 [H2 [_ [H4 _]]]].
    apply N.leb_le in H1, H2. rewrite H1, H2. apply N.eqb_neq in H4. rewrite H4. reflexivity.
Qed.

Lemma kv_inv_ok kv s : Rkv kv s -> kv_inv kv (leos_of kv) s = true.
Proof.
  intro HR. unfold kv_inv. apply andb_true_iff. split.
  - apply forallb_forall. intros [k v] Hin. apply chk_entry_ok; [exact HR|]. apply (kin_iff_get _ _ _ (rk_wf _ _ HR)). exact Hin.
  - apply forallb_forall. intros c Hc. rewrite (nth_leos kv c Hc). apply N.eqb_refl.
Qed.

(* the plain logs after every prefix of a model run *)
Lemma run_states ops : forall (st : xstate) s,
  R xfilter st s -> Forall op_okb ops ->
  exists states, spec_states s (entries ops (snd (run xfilter [] x_may x_add true st ops))) = Some states
    /\ length states = length (run_kvs st ops)
    /\ forall j, (j < length states)%nat -> Rkv (nth_or [] j (run_kvs st ops)) (nth_or as_init j states).
Proof.
  induction ops as [|o ops IH]; intros st s HR Hok; cbn [MsgStore.run entries snd spec_states run_kvs].
  - exists [s]. split; [reflexivity|]. split; [reflexivity|]. intros [|j] Hj; [apply HR|cbn in Hj; lia].
  - inversion Hok as [|? ? Ho Hrest]; subst.
    pose proof (step_sim xfilter [] x_may x_add true st s o HR Ho) as Hs.
    destruct (step_dump xfilter [] x_may x_add true st o) as [[st1 x] ds]. destruct Hs as [s' [H1 H2]].
    destruct (IH st1 s' H2 Hrest) as [states [E1 [E2 E3]]].
    destruct (run xfilter [] x_may x_add true st1 ops) as [st2 tr]. cbn [fst snd entries spec_states] in *.
    rewrite H1, E1. exists (s :: states). split; [reflexivity|]. split; [cbn [length]; rewrite E2; reflexivity|].
    intros [|j] Hj; [apply HR|]. cbn [nth_or]. apply E3. cbn [length] in Hj. lia.
Qed.

Lemma exists_between_true (p : nat -> bool) j : forall len lo, (lo <= j <= lo + len)%nat -> p j = true -> exists_between p lo len = true.
Proof.
  induction len as [|len IH]; intros lo Hj Hp; cbn [exists_between].
  - assert (j = lo) by lia. subst. exact Hp.
  - destruct (Nat.eq_dec j lo) as [->|Hne]; [rewrite Hp; reflexivity|].
    rewrite (IH (S lo)); [apply orb_true_r|lia|exact Hp].
Qed.

(* a crash observation the model can produce: the recovered keys are the store
   after j ops for a j inside every label's window, the log ends are the recovered ones *)
Definition model_crash (kvss : list kvs) (c : crash) : Prop :=
  match c with
  | Cr labels leos ents =>
    exists j kv, (j < length kvss)%nat /\ nth_or [] j kvss = kv /\ kvs_of_ents ents = Some kv /\ leos = leos_of kv
                 /\ Forall (fun l : N * N * N => let '(lo, hi, _) := l in (N.to_nat lo <= j <= N.to_nat hi)%nat) labels
  end.

Theorem c09_monitor_zero_on_model ops crashes kvfinal :
  Forall op_okb ops -> Forall (model_crash (run_kvs xinit ops)) crashes ->
  C09_monitor (C09Case (C07Case true (entries ops (snd (xrun true ops))) kvfinal) crashes) = 0.
Proof.
  intros Hok Hcr. unfold C09_monitor. cbn [c9_hist c_steps c9_crashes]. unfold xrun, xinit in *.
  destruct (run_states ops (st_init xfilter []) as_init (R_init xfilter []) Hok) as [states [E1 [E2 E3]]].
  rewrite E1.
  assert (Hall : forallb (crash_ok states (entries ops (snd (run xfilter [] x_may x_add true (st_init xfilter []) ops)))) crashes = true).
  { apply forallb_forall. intros [labels leos ents] Hin. eapply Forall_forall in Hcr; [|exact Hin].
    destruct Hcr as [j [kv [Hj [Hkv [Hents [Hleos Hlab]]]]]]. cbn [crash_ok]. rewrite Hents.
    apply forallb_forall. intros [[lo hi] pct] Hl. eapply Forall_forall in Hlab; [|exact Hl]. cbn beta iota in Hlab.
    unfold label_ok2, label_ok. apply orb_true_iff. left.
    assert (Ele : (lo <=? hi) = true) by (apply N.leb_le; lia). rewrite Ele. cbn [andb].
    apply (exists_between_true _ j); [rewrite N2Nat.inj_sub; lia|].
    rewrite E2. assert (Ej : (j <? length (run_kvs (st_init xfilter []) ops))%nat = true) by (apply Nat.ltb_lt; exact Hj).
    rewrite Ej. cbn [andb].
    assert (HR : Rkv kv (nth_or as_init j states)) by (rewrite <- Hkv; apply E3; rewrite E2; exact Hj).
    rewrite Hleos, (recovered_is_ok _ _ HR), (kv_inv_ok _ _ HR). reflexivity. }
  rewrite Hall. reflexivity.
Qed.

Lemma kv_is_log_preserved (F : Type) (f_empty : F) (f_may : F -> bytes * bytes -> bool) (f_add : F -> bytes * bytes -> F)
      (st : mstate F) (o : op) :
  kv_is_log F st -> kv_is_log F (fst (step F f_empty f_may f_add st o)).
Proof. intro H. exact (kv_is_log_many F st _ (step_batches F f_empty f_may f_add st o) H). Qed.

Lemma related_passes_monitor (kv : kvs) (s : aspec) :
  Rkv kv s -> recovered_is kv (leos_of kv) s = true /\ kv_inv kv (leos_of kv) s = true.
Proof. intro H. split; [exact (recovered_is_ok kv s H)|exact (kv_inv_ok kv s H)]. Qed.

(* ---- 4. the paged DiscardForRestore ------------------------------------------------------------------------------------------ *)

Lemma swf_run_batches bs : forall kv : kvs, swf kv -> swf (run_batches key_eqb kv bs).
Proof.
  induction bs as [|b bs IH]; intros kv W; cbn [run_batches fold_left]; [exact W|].
  apply IH. apply (swf_apply b kv W).
Qed.

(* Started on a store related to the plain logs, a stop anywhere inside the call
   (before the first page, between two pages, before or after the terminal batch)
   recovers a store on which the monitor's index check [chk_entry] holds for
   every binding: each message is there with all its index entries or not at all. *)
Theorem discard_crash_inv (F : Type) (st : mstate F) (s : aspec) (c : N) (x : kvs) :
  Rkv (st_kv F st) s -> kv_is_log F st ->
  crash_states key_eqb [] (st_log F (fst (DiscardForRestore F st c))) (length (st_log F st)) x ->
  forallb (chk_entry x s) x = true.
Proof.
  intros HR Hk [k [Hk1 ->]].
  assert (W : swf (st_kv F st)) by apply (rk_wf _ _ HR).
  assert (HI : IdxInv (st_kv F st) s) by (intros key v G; apply (chk_entry_ok _ _ _ _ HR G)).
  destruct (discard_batches F s st c W HI) as [bs [L1 [L2 [L3 _]]]].
  rewrite L1, app_length in Hk1.
  assert (E : crash_state key_eqb [] (st_log F (fst (DiscardForRestore F st c))) k
              = run_batches key_eqb (st_kv F st) (firstn (k - length (st_log F st)) bs)).
  { unfold crash_state. rewrite L1, firstn_app, firstn_all2 by lia.
    unfold kbatch. rewrite run_batches_app. unfold kv_is_log in Hk. rewrite <- Hk. reflexivity. }
  rewrite E. apply IdxInv_forallb; [apply swf_run_batches; exact W|apply L3].
Qed.
